package vp

import (
	"fmt"
	"testing"
	"testing/synctest"
)

// Bubble runs f inside a testing/synctest bubble whose parent is a throw-away
// zero-value testing.T, on a separate goroutine. A t.Fatal/t.Error raised on the
// bubble's *testing.T (for example by the repository's own test helpers, which need a
// concrete *testing.T) is therefore contained: it is reported as an error here and
// does not fail the real test, so rapid can shrink the case. A panic on the bubble's
// root goroutine and synctest's deadlock panic are returned as errors too. f's own
// error is returned unchanged. Cleanups registered on the bubble's T run before
// Bubble returns.
func Bubble(f func(t *testing.T) error) (err error) {
	ft := &testing.T{}
	done := make(chan struct{})
	var ferr error
	var panicked any
	finished := false
	go func() {
		defer close(done)
		defer func() { panicked = recover() }()
		synctest.Test(ft, func(t *testing.T) {
			ferr = f(t)
			finished = true
		})
	}()
	<-done
	switch {
	case panicked != nil:
		return fmt.Errorf("panic in synctest bubble: %v", panicked)
	case ferr != nil:
		return ferr
	case ft.Failed():
		if !finished {
			return fmt.Errorf("a test helper called t.Fatal inside the bubble (message not captured)")
		}
		return fmt.Errorf("a test helper reported a failure (t.Error) inside the bubble (message not captured)")
	}
	return nil
}
