// Package vp is the shared runtime of the /verif property harnesses: it wraps
// pgregory.net/rapid so that every property is a pure function over a plain-data
// case, records what a run actually covered (evaluations, distinct non-trivial
// cases, class counters, samples), writes shrunk failures as JSON replay files, and
// replays such files without rapid.
//
// Environment (set by /verif/check):
//
//	VP_OUT     directory for stats.json / fail.json / current.json (default: cwd)
//	VP_REPLAY  path of a JSON case; when set the property is evaluated on it only
//	VP_KNOWN   path of KNOWN_FINDINGS.json (active predicates are excluded, counted)
//	VP_TIER    quick | thorough (harnesses may scale sizes with it)
package vp

import (
	"encoding/json"
	"fmt"
	"hash/fnv"
	"os"
	"path/filepath"
	"runtime/debug"
	"sort"
	"strings"
	"sync"
	"testing"

	"pgregory.net/rapid"
)

// Rec collects per-case observations made by a property function.
type Rec struct {
	classes    map[string]int
	nontrivial bool
	discard    string
}

// Class counts the case under a named class (for the distribution report).
func (r *Rec) Class(name string) {
	if r == nil {
		return
	}
	if r.classes == nil {
		r.classes = map[string]int{}
	}
	r.classes[name]++
}

// Classf is Class with formatting.
func (r *Rec) Classf(format string, a ...any) { r.Class(fmt.Sprintf(format, a...)) }

// NonTrivial marks the case as non-trivial by the property's stated rule.
func (r *Rec) NonTrivial() {
	if r != nil {
		r.nontrivial = true
	}
}

// Discard marks the case as outside the property's domain (e.g. the encoder refused
// the generated value); it is counted but neither passes nor fails.
func (r *Rec) Discard(reason string) {
	if r != nil {
		r.discard = reason
	}
}

// Spec describes one property check.
type Spec[C any] struct {
	ID string
	// Sub distinguishes several rapid checks that decide the same property (each
	// gets its own stats file); may be empty.
	Sub string
	// Gen draws a complete case. All randomness must come from t.
	Gen func(t *rapid.T) C
	// Prop evaluates the property on a case; a non-nil error is a violation.
	Prop func(c C, r *Rec) error
	// Known returns the key of a known finding whose predicate the case matches
	// ("" if none). Cases matching an *active* finding (one listed as open in
	// KNOWN_FINDINGS.json) are skipped and counted.
	Known func(c C) string
	// CrashFile makes the runner persist each case before executing it, so that a
	// hard crash of the process still leaves its input behind.
	CrashFile bool
	// Sample renders a case for the evidence file (default: its JSON).
	Sample func(c C) any
}

type stats struct {
	ID            string         `json:"id"`
	Sub           string         `json:"sub"`
	Tier          string         `json:"tier"`
	Evaluations   int            `json:"evaluations"`
	Discarded     int            `json:"discarded"`
	ExcludedKnown map[string]int `json:"excluded_known,omitempty"`
	Classes       map[string]int `json:"classes"`
	Hashes        []uint64       `json:"hashes"`
	HashCapHit    bool           `json:"hash_cap_hit"`
	ExtraDistinct int            `json:"extra_distinct"`
	Exhaustive    bool           `json:"exhaustive,omitempty"`
	Samples       []any          `json:"samples"`
	Failed        bool           `json:"failed"`
	Error         string         `json:"error,omitempty"`
	Notes         []string       `json:"notes,omitempty"`
}

const hashCap = 1 << 20

type runner struct {
	mu      sync.Mutex
	st      stats
	hashes  map[uint64]struct{}
	samples []sample // kept: k smallest hashes among non-trivial cases (deterministic reservoir)
	first   []any
	outDir  string
	active  map[string]bool
}

type sample struct {
	h uint64
	v any
}

func outDir() string {
	d := os.Getenv("VP_OUT")
	if d == "" {
		d = "."
	}
	return d
}

// Tier returns "quick" or "thorough".
func Tier() string {
	if os.Getenv("VP_TIER") == "thorough" {
		return "thorough"
	}
	return "quick"
}

// Thorough reports whether the thorough tier is running.
func Thorough() bool { return Tier() == "thorough" }

type knownFile struct {
	Findings []struct {
		Key      string `json:"key"`
		Property string `json:"property"`
		Status   string `json:"status"` // "open" or "fixed"
	} `json:"findings"`
}

func loadActive(id string) map[string]bool {
	m := map[string]bool{}
	p := os.Getenv("VP_KNOWN")
	if p == "" {
		return m
	}
	b, err := os.ReadFile(p)
	if err != nil {
		return m
	}
	var kf knownFile
	if json.Unmarshal(b, &kf) != nil {
		return m
	}
	for _, f := range kf.Findings {
		if f.Property == id && f.Status == "open" {
			m[f.Key] = true
		}
	}
	return m
}

func newRunner(id, sub string) *runner {
	r := &runner{hashes: map[uint64]struct{}{}, outDir: outDir(), active: loadActive(id)}
	r.st.ID, r.st.Sub, r.st.Tier = id, sub, Tier()
	r.st.Classes = map[string]int{}
	r.st.ExcludedKnown = map[string]int{}
	return r
}

func hashBytes(b []byte) uint64 {
	h := fnv.New64a()
	h.Write(b)
	return h.Sum64()
}

func truncateSample(v any) any {
	b, err := json.Marshal(v)
	if err != nil {
		return fmt.Sprintf("%+v", v)
	}
	if len(b) > 1500 {
		return string(b[:1500]) + "...(truncated)"
	}
	return json.RawMessage(b)
}

func (r *runner) record(rec *Rec, caseJSON []byte, render func() any) {
	r.mu.Lock()
	defer r.mu.Unlock()
	if rec.discard != "" {
		r.st.Discarded++
		r.st.Classes["discarded:"+rec.discard]++
		return
	}
	r.st.Evaluations++
	for k, v := range rec.classes {
		r.st.Classes[k] += v
	}
	if len(r.first) < 2 {
		r.first = append(r.first, truncateSample(render()))
	}
	if !rec.nontrivial {
		return
	}
	r.st.Classes["nontrivial"]++
	h := hashBytes(caseJSON)
	if _, ok := r.hashes[h]; ok {
		return
	}
	if len(r.hashes) >= hashCap {
		r.st.HashCapHit = true
		return
	}
	r.hashes[h] = struct{}{}
	const k = 4
	if len(r.samples) < k || h < r.samples[len(r.samples)-1].h {
		r.samples = append(r.samples, sample{h, truncateSample(render())})
		sort.Slice(r.samples, func(i, j int) bool { return r.samples[i].h < r.samples[j].h })
		if len(r.samples) > k {
			r.samples = r.samples[:k]
		}
	}
}

func (r *runner) fileName(kind string) string {
	n := r.st.ID
	if r.st.Sub != "" {
		n += "." + r.st.Sub
	}
	return filepath.Join(r.outDir, n+"."+kind+".json")
}

func (r *runner) flush() {
	r.mu.Lock()
	defer r.mu.Unlock()
	r.st.Hashes = r.st.Hashes[:0]
	for h := range r.hashes {
		r.st.Hashes = append(r.st.Hashes, h)
	}
	sort.Slice(r.st.Hashes, func(i, j int) bool { return r.st.Hashes[i] < r.st.Hashes[j] })
	r.st.Samples = nil
	for _, s := range r.samples {
		r.st.Samples = append(r.st.Samples, s.v)
	}
	r.st.Samples = append(r.st.Samples, r.first...)
	b, _ := json.Marshal(&r.st)
	os.MkdirAll(r.outDir, 0o755)
	os.WriteFile(r.fileName("stats"), b, 0o644)
}

type failFile struct {
	ID    string          `json:"id"`
	Sub   string          `json:"sub"`
	Error string          `json:"error"`
	Case  json.RawMessage `json:"case"`
}

func (r *runner) writeCase(kind string, caseJSON []byte, err string) {
	b, _ := json.MarshalIndent(failFile{ID: r.st.ID, Sub: r.st.Sub, Error: err, Case: caseJSON}, "", " ")
	os.MkdirAll(r.outDir, 0o755)
	os.WriteFile(r.fileName(kind), b, 0o644)
}

// safeProp runs prop converting a panic on this goroutine into an error.
func safeProp[C any](prop func(C, *Rec) error, c C, rec *Rec) (err error) {
	defer func() {
		if p := recover(); p != nil {
			// The message must be identical across re-runs of the same case (rapid's
			// shrinker compares errors), so it carries function names only: no
			// goroutine ids, argument values or addresses.
			err = fmt.Errorf("panic: %v [at %s]", p, panicSite(debug.Stack()))
		}
	}()
	return prop(c, rec)
}

// panicSite extracts the function names of the frames between the panic and the
// vp runner from a debug.Stack dump.
func panicSite(b []byte) string {
	lines := strings.Split(string(b), "\n")
	var fns []string
	seenPanic := false
	for _, l := range lines {
		if strings.HasPrefix(l, "\t") || l == "" || strings.HasPrefix(l, "goroutine ") {
			continue
		}
		if i := strings.LastIndexByte(l, '('); i > 0 {
			l = l[:i]
		}
		if strings.HasPrefix(l, "panic") {
			seenPanic = true
			fns = fns[:0]
			continue
		}
		if !seenPanic {
			continue
		}
		if strings.Contains(l, "verif/vp.safeProp") {
			break
		}
		fns = append(fns, l)
		if len(fns) >= 8 {
			break
		}
	}
	return strings.Join(fns, " < ")
}

// ReplayPath returns the replay file for (id, sub) or "".
func replayFor(id, sub string) (string, *failFile) {
	p := os.Getenv("VP_REPLAY")
	if p == "" {
		return "", nil
	}
	b, err := os.ReadFile(p)
	if err != nil {
		return p, nil
	}
	var ff failFile
	if json.Unmarshal(b, &ff) != nil {
		return p, nil
	}
	return p, &ff
}

// Run executes the check: replay mode if VP_REPLAY is set, otherwise rapid search.
func Run[C any](t *testing.T, s Spec[C]) {
	t.Helper()
	if p, ff := replayFor(s.ID, s.Sub); p != "" {
		if ff == nil {
			t.Fatalf("VP: cannot read replay file %s", p)
		}
		if ff.ID != s.ID || ff.Sub != s.Sub {
			t.Skipf("replay file is for %s/%s", ff.ID, ff.Sub)
		}
		var c C
		if err := json.Unmarshal(ff.Case, &c); err != nil {
			t.Fatalf("VP: bad case in replay file: %v", err)
		}
		rec := &Rec{}
		if err := safeProp(s.Prop, c, rec); err != nil {
			fmt.Printf("VP-REPLAY-FAIL %s %s: %v\n", s.ID, s.Sub, err)
			t.Fatalf("replay failed: %v", err)
		}
		fmt.Printf("VP-REPLAY-PASS %s %s\n", s.ID, s.Sub)
		return
	}
	r := newRunner(s.ID, s.Sub)
	defer r.flush()
	render := func(c C) func() any {
		return func() any {
			if s.Sample != nil {
				return s.Sample(c)
			}
			return c
		}
	}
	rapid.Check(t, func(rt *rapid.T) {
		c := s.Gen(rt)
		caseJSON, jerr := json.Marshal(c)
		if jerr != nil {
			panic("VP: case not JSON-serialisable: " + jerr.Error())
		}
		if s.Known != nil {
			// Known may name several findings separated by commas; the case is
			// skipped if any of them is open.
			for _, k := range strings.Split(s.Known(c), ",") {
				if k != "" && r.active[k] {
					r.mu.Lock()
					r.st.ExcludedKnown[k]++
					r.mu.Unlock()
					return
				}
			}
		}
		if s.CrashFile {
			r.writeCase("current", caseJSON, "")
		}
		rec := &Rec{}
		err := safeProp(s.Prop, c, rec)
		if err != nil {
			r.mu.Lock()
			r.st.Failed = true
			r.st.Error = err.Error()
			r.mu.Unlock()
			r.writeCase("fail", caseJSON, err.Error())
			r.flush()
			rt.Fatalf("%v", err)
		}
		r.record(rec, caseJSON, render(c))
	})
}

// Enum is the recorder for enumerated (complete or gridded) spaces.
type Enum struct {
	r      *runner
	t      *testing.T
	failed bool
}

// RunEnum runs an enumeration; body calls e.Eval for each item and e.Fail on a
// violation (the first violation's case becomes the replay file).
func RunEnum(t *testing.T, id, sub string, exhaustive bool, body func(e *Enum)) {
	t.Helper()
	if p, ff := replayFor(id, sub); p != "" {
		// Enumerations are deterministic: a replay of one of their cases simply re-runs
		// the enumeration; replay files of other checks are not theirs to judge.
		if ff != nil && (ff.ID != id || ff.Sub != sub) {
			t.Skipf("replay file is for %s/%s", ff.ID, ff.Sub)
		}
	}
	r := newRunner(id, sub)
	r.st.Exhaustive = exhaustive
	defer r.flush()
	e := &Enum{r: r, t: t}
	body(e)
	if e.failed {
		r.flush()
		t.FailNow()
	}
}

// Eval counts one enumerated item; items are distinct by construction, so
// non-trivial ones are counted rather than hashed. sample may be nil.
func (e *Enum) Eval(nontrivial bool, class string, sample func() any) {
	r := e.r
	r.st.Evaluations++
	if class != "" {
		r.st.Classes[class]++
	}
	if nontrivial {
		r.st.ExtraDistinct++
		if len(r.first) < 5 && sample != nil {
			r.first = append(r.first, truncateSample(sample()))
		}
	}
}

// Failed reports whether a violation was recorded.
func (e *Enum) Failed() bool { return e.failed }

// Fail records a violation (only the first is kept).
func (e *Enum) Fail(c any, err error) {
	if e.failed {
		return
	}
	e.failed = true
	e.r.st.Failed = true
	e.r.st.Error = err.Error()
	b, _ := json.Marshal(c)
	e.r.writeCase("fail", b, err.Error())
	e.t.Errorf("%v", err)
}

// Note attaches a free-text note to the stats of an enumeration.
func (e *Enum) Note(s string) { e.r.st.Notes = append(e.r.st.Notes, s) }

// FuzzFail reports a violation found by a native fuzz target: it persists the
// decoded case as a JSON replay file (when VP_OUT is set) and fails the test.
func FuzzFail(t *testing.T, id, sub string, c any, err error) {
	t.Helper()
	if os.Getenv("VP_OUT") != "" {
		r := newRunner(id, sub)
		b, _ := json.Marshal(c)
		r.writeCase("fuzzfail", b, err.Error())
	}
	t.Fatalf("VP-FUZZ-FAIL %s: %v", id, err)
}

// Errorf is fmt.Errorf (saves an import in harness files).
func Errorf(format string, a ...any) error { return fmt.Errorf(format, a...) }
