package vp

import (
	"fmt"
	"runtime"
	"sync"
	"testing"
)

// TB wraps a testing.TB so that the repository's own test helpers (which call
// t.Fatalf on unexpected behaviour) report into an error instead of failing the outer
// test: Fatal*/FailNow record the message and end the calling goroutine with
// runtime.Goexit, Error* only record. Use Err() after the helper-driven code returns.
// It is safe for concurrent use.
type TB struct {
	testing.TB
	mu       sync.Mutex
	err      error
	cleanups []func()
}

// NewTB wraps t.
func NewTB(t testing.TB) *TB { return &TB{TB: t} }

func (t *TB) set(msg string) {
	t.mu.Lock()
	if t.err == nil {
		t.err = fmt.Errorf("%s", msg)
	}
	t.mu.Unlock()
}

// Err returns the first recorded failure.
func (t *TB) Err() error { t.mu.Lock(); defer t.mu.Unlock(); return t.err }

func (t *TB) Helper()                           {}
func (t *TB) Error(a ...any)                    { t.set(fmt.Sprint(a...)) }
func (t *TB) Errorf(f string, a ...any)         { t.set(fmt.Sprintf(f, a...)) }
func (t *TB) Fail()                             { t.set("Fail called") }
func (t *TB) Failed() bool                      { return t.Err() != nil }
func (t *TB) Fatal(a ...any)                    { t.set(fmt.Sprint(a...)); runtime.Goexit() }
func (t *TB) Fatalf(f string, a ...any)         { t.set(fmt.Sprintf(f, a...)); runtime.Goexit() }
func (t *TB) FailNow()                          { t.set("FailNow called"); runtime.Goexit() }
func (t *TB) Log(a ...any)                      {}
func (t *TB) Logf(f string, a ...any)           {}
func (t *TB) Skip(a ...any)                     { t.set("Skip: " + fmt.Sprint(a...)); runtime.Goexit() }
func (t *TB) Skipf(f string, a ...any)          { t.set("Skip: " + fmt.Sprintf(f, a...)); runtime.Goexit() }
func (t *TB) SkipNow()                          { t.set("SkipNow"); runtime.Goexit() }

// Cleanup registers f to be run by RunCleanups (not by the outer test).
func (t *TB) Cleanup(f func()) {
	t.mu.Lock()
	t.cleanups = append(t.cleanups, f)
	t.mu.Unlock()
}

// RunCleanups runs registered cleanups in LIFO order.
func (t *TB) RunCleanups() {
	for {
		t.mu.Lock()
		n := len(t.cleanups)
		if n == 0 {
			t.mu.Unlock()
			return
		}
		f := t.cleanups[n-1]
		t.cleanups = t.cleanups[:n-1]
		t.mu.Unlock()
		f()
	}
}

// Go runs f on a new goroutine and waits for it to end (normally or through
// runtime.Goexit triggered by a Fatal on a TB); a panic in f is returned as an error.
func Go(f func()) (err error) {
	done := make(chan struct{})
	go func() {
		defer close(done)
		defer func() {
			if p := recover(); p != nil {
				err = fmt.Errorf("panic: %v", p)
			}
		}()
		f()
	}()
	<-done
	return err
}
