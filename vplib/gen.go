package vp

import (
	"pgregory.net/rapid"
)

// BiasedInt draws an int in [lo,hi] with extra weight on the given boundary values
// (each clipped to the range) and their +-1 neighbours.
func BiasedInt(lo, hi int, boundaries ...int) *rapid.Generator[int] {
	return rapid.Custom(func(t *rapid.T) int {
		if len(boundaries) > 0 && rapid.IntRange(0, 2).Draw(t, "useBoundary") > 0 {
			b := rapid.SampledFrom(boundaries).Draw(t, "boundary")
			b += rapid.IntRange(-1, 1).Draw(t, "delta")
			if b < lo {
				b = lo
			}
			if b > hi {
				b = hi
			}
			return b
		}
		return rapid.IntRange(lo, hi).Draw(t, "v")
	})
}

// BiasedUint64 draws a uint64 in [0,max] biased to the boundaries and +-1.
func BiasedUint64(max uint64, boundaries ...uint64) *rapid.Generator[uint64] {
	return rapid.Custom(func(t *rapid.T) uint64 {
		if len(boundaries) > 0 && rapid.IntRange(0, 2).Draw(t, "useBoundary") > 0 {
			b := rapid.SampledFrom(boundaries).Draw(t, "boundary")
			switch rapid.IntRange(-1, 1).Draw(t, "delta") {
			case -1:
				if b > 0 {
					b--
				}
			case 1:
				if b < max {
					b++
				}
			}
			if b > max {
				b = max
			}
			return b
		}
		return rapid.Uint64Range(0, max).Draw(t, "v")
	})
}

// Bytes draws a byte slice of length in [minLen,maxLen].
func Bytes(minLen, maxLen int) *rapid.Generator[[]byte] {
	return rapid.SliceOfN(rapid.Byte(), minLen, maxLen)
}

// Cuts draws a partition of n bytes into 1..maxParts chunk lengths (zero-length
// chunks allowed), as a list of chunk sizes summing to n.
func Cuts(n, maxParts int) *rapid.Generator[[]int] {
	return rapid.Custom(func(t *rapid.T) []int {
		k := rapid.IntRange(1, maxParts).Draw(t, "parts")
		pts := make([]int, 0, k+1)
		for i := 0; i < k-1; i++ {
			pts = append(pts, rapid.IntRange(0, n).Draw(t, "cut"))
		}
		// insertion sort (k is small)
		for i := 1; i < len(pts); i++ {
			for j := i; j > 0 && pts[j-1] > pts[j]; j-- {
				pts[j-1], pts[j] = pts[j], pts[j-1]
			}
		}
		out := make([]int, 0, k)
		prev := 0
		for _, p := range pts {
			out = append(out, p-prev)
			prev = p
		}
		out = append(out, n-prev)
		return out
	})
}

// Split applies chunk sizes (as produced by Cuts) to b.
func Split(b []byte, sizes []int) [][]byte {
	var out [][]byte
	off := 0
	for _, n := range sizes {
		if off+n > len(b) {
			n = len(b) - off
		}
		out = append(out, b[off:off+n])
		off += n
	}
	if off < len(b) {
		out = append(out, b[off:])
	}
	return out
}
