#!/usr/bin/env python3
"""Regenerates /verif/MANIFEST.json from props/*.json (one file per claimed property)."""
import json, glob, os
V = os.path.dirname(os.path.abspath(__file__))
props = {}
claimed = set(open(os.path.join(V, "claimed.txt")).read().split())
for p in sorted(glob.glob(os.path.join(V, "props", "C*.json"))):
    d = json.load(open(p))
    if d.get("disabled"):
        continue
    if os.path.basename(p)[:-5] not in claimed:
        continue
    props[os.path.basename(p)[:-5]] = d
titles = {}
for line in open(os.path.join(V, "properties.jsonl")):
    line = line.strip()
    if line:
        r = json.loads(line)
        titles[r["id"]] = r["title"]
na_reasons = {}
nap = os.path.join(V, "not_applicable.json")
if os.path.exists(nap):
    na_reasons = json.load(open(nap))
checks = []
for pid, d in props.items():
    c = {
        "property_id": pid,
        "quick_cmd": "./check %s --tier quick" % pid,
        "thorough_cmd": "./check %s --tier thorough" % pid,
        "evidence_file": "/verif/evidence/%s.json" % pid,
        "replay_cmd_template": "./check %s --replay {path}" % pid,
        "engine": "rapid+gofuzz" if d.get("fuzz") else "rapid",
        "level_claimed": {
            "category": "exploration",
            "text": d.get("level_text") or ("Generated-input search (pgregory.net/rapid" + (", plus native coverage-guided fuzzing in the thorough tier" if d.get("fuzz") else "") + ") against an explicit oracle: " + d.get("rule", "")),
            "design_ref": d.get("design_ref", "DESIGN.md section 4, " + pid),
        },
        "level_note": d.get("level_note") or ("Explores a finite sample of the quantified space; absence of violations is not a proof. Trusted base: the harness's reference model/oracle, rapid, the Go toolchain. " + " ".join(d.get("assumptions", []))),
        "technique": d.get("technique", "property-based testing (rapid) against a reference model"),
    }
    checks.append(c)
na = []
for pid in sorted(titles):
    if pid not in props:
        na.append({"property_id": pid, "reason": na_reasons.get(pid, "check not built yet (work in progress); no claim is made for this property")})
m = {
    "version": 1,
    "setup_cmd": "./check --build-all",
    "hooks": {
        "guard": "verif",
        "enable": "no source hooks are used: harnesses are compiled into the packages under test through `go test -overlay` (white-box _test.go files kept under /verif/harness); the build tag `verif` is reserved and unused",
        "baseline_off_cmd": "cd /repo && GOFLAGS=-mod=mod go test -json -vet=off -count=1 -timeout 25m ./...",
        "source_commits": [],
        "add_only": True,
    },
    "engines": [
        {"name": "rapid", "path": "/verif/vplib", "serves_properties": sorted(props), "kind_free_text": "pgregory.net/rapid v1.3.0 property-based testing with integrated shrinking; plain-data cases, JSON replay files"},
        {"name": "gofuzz", "path": "/verif/check", "serves_properties": sorted(p for p, d in props.items() if d.get("fuzz")), "kind_free_text": "Go native coverage-guided fuzzing (go test -fuzz) with the semantic oracle inside the target; thorough tier only"},
    ],
    "checks": checks,
    "notes": "Driver: ./check <ID> --tier quick|thorough. Exit 0 held / 1 VIOLATION / 2 inconclusive (build failure, timeout). Known findings: /verif/KNOWN_FINDINGS.json. See DESIGN.md.",
    "not_applicable": na,
}
json.dump(m, open(os.path.join(V, "MANIFEST.json"), "w"), indent=1)
print("MANIFEST: %d checks, %d not_applicable" % (len(checks), len(na)))
