package proxy_test

import (
	"context"
	"errors"
	"fmt"
	"net"
	"net/netip"
	"strings"
	"testing"

	"golang.org/x/net/proxy"
	"pgregory.net/rapid"
	"verif/vp"
)

// C53: a PerHost dialer uses the bypass dialer exactly when the dialed host is an IP
// literal contained in an added IP or network, or a name equal to an added host or
// equal to / a subdomain of an added zone; the default dialer otherwise.
//
// The reference below is written from the doc comments of PerHost, AddFromString,
// AddIP, AddNetwork, AddZone, AddHost and from the property statement. Points that
// neither defines (letter case, a trailing dot, IPv4-mapped IPv6 against IPv4 rules)
// are evaluated under every interpretation; the verdict is asserted only when all
// interpretations agree.

const (
	c53FromString = iota
	c53AddIP
	c53AddNetwork
	c53AddZone
	c53AddHost
)

type c53Entry struct {
	Kind int    `json:"kind"`
	S    string `json:"s"`
	Wide bool   `json:"wide,omitempty"` // AddIP: pass an IPv4 address in 16-byte form
}

type c53Case struct {
	Entries   []c53Entry `json:"entries"`
	Network   string     `json:"network"`
	Host      string     `json:"host"`
	Port      string     `json:"port"`
	RawAddr   string     `json:"raw_addr,omitempty"` // when set, dialed verbatim (malformed address)
	UseCtx    bool       `json:"use_ctx"`            // DialContext instead of Dial
	CtxDialer bool       `json:"ctx_dialer"`         // the fake dialers implement ContextDialer
}

// ---- reference ----

type c53Interp struct {
	foldCase  bool // names compare case-insensitively
	stripDot  bool // one trailing dot of a configured name is insignificant
	stripHost bool // one trailing dot of the dialed name is insignificant
	unmapIPv4 bool // ::ffff:a.b.c.d is the IPv4 address a.b.c.d
	anyZone   bool // an added IP matches the same address in another (or no) IPv6 zone
}

type c53Rule struct {
	kind string // "ip", "net", "zone", "host"
	addr netip.Addr
	bits int
	name string
	zone string // "ip" rules from AddFromString: the IPv6 zone the entry carried
}

func c53ParsePrefix(s string) (netip.Addr, int, bool) {
	p, err := netip.ParsePrefix(s)
	if err != nil || p.Addr().Zone() != "" {
		return netip.Addr{}, 0, false
	}
	return p.Addr(), p.Bits(), true
}

func c53ParseIP(s string) (netip.Addr, bool) {
	a, err := netip.ParseAddr(s)
	if err != nil || a.Zone() != "" {
		return netip.Addr{}, false
	}
	return a, true
}

// c53ParseZonedIP also accepts an IPv6 literal with a zone ("fe80::1%eth0"), which is
// an IP literal too (the package's own tests dial such hosts and expect them to be
// matched against the added networks); the address is returned without the zone.
func c53ParseZonedIP(s string) (netip.Addr, string, bool) {
	a, err := netip.ParseAddr(s)
	if err != nil {
		return netip.Addr{}, "", false
	}
	return a.WithZone(""), a.Zone(), true
}

// c53Rules turns the configuration into rules, following the documentation of
// AddFromString ("comma-separated values ... Each value is either an IP address, a
// CIDR range, a zone (*.example.com) or a host name (localhost) ... errors are
// ignored").
func c53Rules(es []c53Entry) []c53Rule {
	var out []c53Rule
	for _, e := range es {
		switch e.Kind {
		case c53AddIP:
			if a, ok := c53ParseIP(e.S); ok {
				out = append(out, c53Rule{kind: "ip", addr: a})
			}
		case c53AddNetwork:
			if a, b, ok := c53ParsePrefix(e.S); ok {
				out = append(out, c53Rule{kind: "net", addr: a, bits: b})
			}
		case c53AddZone:
			out = append(out, c53Rule{kind: "zone", name: e.S})
		case c53AddHost:
			out = append(out, c53Rule{kind: "host", name: e.S})
		case c53FromString:
			for _, v := range strings.Split(e.S, ",") {
				v = strings.Trim(v, " \t")
				switch {
				case v == "":
				case strings.Contains(v, "/"):
					if a, b, ok := c53ParsePrefix(v); ok {
						out = append(out, c53Rule{kind: "net", addr: a, bits: b})
					}
				case strings.HasPrefix(v, "*."):
					out = append(out, c53Rule{kind: "zone", name: v[2:]})
				default:
					if a, z, ok := c53ParseZonedIP(v); ok {
						out = append(out, c53Rule{kind: "ip", addr: a, zone: z})
					} else {
						out = append(out, c53Rule{kind: "host", name: v})
					}
				}
			}
		}
	}
	return out
}

func c53PrefixContains(pa netip.Addr, bits int, ip netip.Addr, unmap bool) bool {
	if unmap {
		if pa.Is4In6() && bits >= 96 {
			pa, bits = pa.Unmap(), bits-96
		}
		ip = ip.Unmap()
	}
	if pa.Is4() != ip.Is4() {
		return false
	}
	a, b := pa.AsSlice(), ip.AsSlice()
	for i := 0; i < bits; i++ {
		m := byte(0x80) >> (i % 8)
		if a[i/8]&m != b[i/8]&m {
			return false
		}
	}
	return true
}

func c53NormName(s string, strip bool, in c53Interp) string {
	if strip {
		s = strings.TrimSuffix(s, ".")
	}
	if in.foldCase {
		s = strings.ToLower(s)
	}
	return s
}

// c53Bypass is the verdict of the statement under one interpretation.
func c53Bypass(rules []c53Rule, host string, in c53Interp) (bool, string) {
	if ip, zone, ok := c53ParseZonedIP(host); ok {
		for _, r := range rules {
			switch r.kind {
			case "ip":
				x, y := r.addr, ip
				if in.unmapIPv4 {
					x, y = x.Unmap(), y.Unmap()
				}
				if x == y && (r.zone == zone || in.anyZone) {
					if zone != "" {
						return true, "ip-same-zone"
					}
					return true, "ip"
				}
			case "net":
				if c53PrefixContains(r.addr, r.bits, ip, in.unmapIPv4) {
					return true, "net"
				}
			}
		}
		return false, ""
	}
	h := c53NormName(host, in.stripHost, in)
	for _, r := range rules {
		switch r.kind {
		case "host":
			if c53NormName(r.name, in.stripDot, in) == h {
				return true, "host"
			}
		case "zone":
			z := c53NormName(strings.TrimPrefix(r.name, "."), in.stripDot, in)
			if z == "" {
				continue
			}
			if h == z {
				return true, "zone-apex"
			}
			if strings.HasSuffix(h, "."+z) {
				return true, "zone-sub"
			}
		}
	}
	return false, ""
}

// c53Related reports whether the dialed host is "near" a rule (non-triviality).
func c53Related(rules []c53Rule, host string) bool {
	if ip, _, ok := c53ParseZonedIP(host); ok {
		ip = ip.Unmap()
		for _, r := range rules {
			if r.kind != "ip" && r.kind != "net" {
				continue
			}
			a, bits := r.addr, r.bits
			if r.kind == "ip" {
				bits = a.BitLen()
			}
			if a.Is4In6() && bits >= 96 {
				a, bits = a.Unmap(), bits-96
			}
			if a.Is4() != ip.Is4() {
				continue
			}
			n := bits - 2
			if n < 0 {
				n = 0
			}
			if c53PrefixContains(a, n, ip, false) {
				return true
			}
		}
		return false
	}
	h := strings.ToLower(strings.TrimSuffix(host, "."))
	for _, r := range rules {
		if r.kind != "host" && r.kind != "zone" {
			continue
		}
		n := strings.ToLower(strings.TrimSuffix(strings.TrimPrefix(r.name, "."), "."))
		if n == "" {
			continue
		}
		if strings.HasSuffix(h, n) || strings.HasSuffix(n, h) {
			return true
		}
	}
	return false
}

// ---- fake dialers ----

type c53Call struct {
	who, network, addr string
	ctx                bool
}

type c53Log struct{ calls []c53Call }

type c53Dialer struct {
	who string
	log *c53Log
	err error
}

func (d *c53Dialer) Dial(network, addr string) (net.Conn, error) {
	d.log.calls = append(d.log.calls, c53Call{d.who, network, addr, false})
	return nil, d.err
}

type c53CtxDialer struct{ c53Dialer }

func (d *c53CtxDialer) DialContext(ctx context.Context, network, addr string) (net.Conn, error) {
	d.log.calls = append(d.log.calls, c53Call{d.who, network, addr, true})
	return nil, d.err
}

// ---- property ----

func c53Prop(c c53Case, r *vp.Rec) error {
	log := &c53Log{}
	errDef, errByp := errors.New("default dialer"), errors.New("bypass dialer")
	var def, byp proxy.Dialer
	if c.CtxDialer {
		def = &c53CtxDialer{c53Dialer{"default", log, errDef}}
		byp = &c53CtxDialer{c53Dialer{"bypass", log, errByp}}
	} else {
		def = &c53Dialer{"default", log, errDef}
		byp = &c53Dialer{"bypass", log, errByp}
	}
	p := proxy.NewPerHost(def, byp)
	for _, e := range c.Entries {
		switch e.Kind {
		case c53FromString:
			p.AddFromString(e.S)
		case c53AddIP:
			a, ok := c53ParseIP(e.S)
			if !ok {
				r.Discard("bad AddIP literal")
				return nil
			}
			ip := net.IP(a.AsSlice())
			if e.Wide {
				ip = ip.To16()
			}
			p.AddIP(ip)
		case c53AddNetwork:
			_, n, err := net.ParseCIDR(e.S)
			if err != nil {
				r.Discard("bad AddNetwork literal")
				return nil
			}
			p.AddNetwork(n)
		case c53AddZone:
			p.AddZone(e.S)
		case c53AddHost:
			p.AddHost(e.S)
		}
	}
	addr := c.RawAddr
	if addr == "" {
		addr = net.JoinHostPort(c.Host, c.Port)
	}
	var err error
	if c.UseCtx {
		_, err = p.DialContext(context.Background(), c.Network, addr)
		r.Class("api:DialContext")
	} else {
		_, err = p.Dial(c.Network, addr)
		r.Class("api:Dial")
	}
	if len(log.calls) > 1 {
		return fmt.Errorf("dial %q: %d dialer calls %v, want at most one", addr, len(log.calls), log.calls)
	}
	if c.RawAddr != "" {
		// Not covered by the statement: only "no panic, at most one call" is demanded.
		r.Class("malformed-address")
		if len(log.calls) == 0 && err != nil {
			r.Class("malformed-address:error-no-call")
		}
		return nil
	}
	if len(log.calls) != 1 {
		return fmt.Errorf("dial %q: no dialer was called (err=%v)", addr, err)
	}
	call := log.calls[0]
	if call.network != c.Network || call.addr != addr {
		return fmt.Errorf("dial(%q,%q): dialer %s received (%q,%q)", c.Network, addr, call.who, call.network, call.addr)
	}

	rules := c53Rules(c.Entries)
	var verdicts [2]int
	why := ""
	for m := 0; m < 32; m++ {
		in := c53Interp{foldCase: m&1 != 0, stripDot: m&2 != 0, unmapIPv4: m&4 != 0, stripHost: m&8 != 0, anyZone: m&16 != 0}
		b, w := c53Bypass(rules, c.Host, in)
		if b {
			verdicts[1]++
			why = w
		} else {
			verdicts[0]++
		}
	}
	_, hzone, isIP := c53ParseZonedIP(c.Host)
	if isIP {
		r.Class("host:ip")
		if hzone != "" {
			r.Class("host:ip-with-zone")
		}
	} else {
		r.Class("host:name")
	}
	if len(rules) > 0 && c53Related(rules, c.Host) {
		r.NonTrivial()
	}
	switch {
	case verdicts[0] > 0 && verdicts[1] > 0:
		r.Class("ambiguous(case/trailing-dot/v4-mapped/other-zone):not-asserted")
		return nil
	case verdicts[1] > 0:
		r.Class("want:bypass:" + why)
		if call.who != "bypass" {
			return fmt.Errorf("rules %+v, dial %q: %s dialer was used, the statement demands bypass (%s)", c.Entries, addr, call.who, why)
		}
	default:
		r.Class("want:default")
		if len(rules) > 0 && c53Related(rules, c.Host) {
			r.Class("want:default:near-miss")
		}
		if call.who != "default" {
			return fmt.Errorf("rules %+v, dial %q: %s dialer was used, the statement demands default", c.Entries, addr, call.who)
		}
	}
	return nil
}

// ---- generator ----

var c53Zones = []string{"eth0", "en0", "en1", "1"}

var c53Labels = []string{"a", "b", "example", "com", "org", "foo", "bar", "localhost", "corp", "3", "4", "x-y", "EXAMPLE", "Com"}

func c53GenName(t *rapid.T) string {
	ls := rapid.SliceOfN(rapid.SampledFrom(c53Labels), 1, 4).Draw(t, "labels")
	return strings.Join(ls, ".")
}

func c53GenV4(t *rapid.T) netip.Addr {
	base := rapid.SampledFrom([][4]byte{{10, 0, 0, 0}, {10, 1, 2, 3}, {127, 0, 0, 1}, {192, 168, 1, 128}, {1, 2, 3, 4}, {255, 255, 255, 255}, {0, 0, 0, 0}}).Draw(t, "v4base")
	if rapid.Bool().Draw(t, "v4rand") {
		base[rapid.IntRange(0, 3).Draw(t, "v4i")] = rapid.Byte().Draw(t, "v4b")
	}
	return netip.AddrFrom4(base)
}

func c53GenV6(t *rapid.T) netip.Addr {
	var b [16]byte
	switch rapid.IntRange(0, 4).Draw(t, "v6kind") {
	case 0:
		b[15] = 1 // ::1
	case 1:
		copy(b[:], []byte{0x20, 0x01, 0x0d, 0xb8})
		b[15] = rapid.Byte().Draw(t, "v6last")
	case 2:
		copy(b[:], []byte{0xfe, 0x80})
		b[8] = rapid.Byte().Draw(t, "v6mid")
		b[15] = rapid.Byte().Draw(t, "v6last")
	case 3: // IPv4-mapped
		b[10], b[11] = 0xff, 0xff
		v4 := c53GenV4(t).As4()
		copy(b[12:], v4[:])
	default:
		copy(b[:], vp.Bytes(16, 16).Draw(t, "v6bytes"))
	}
	return netip.AddrFrom16(b)
}

func c53GenIP(t *rapid.T) netip.Addr {
	if rapid.IntRange(0, 2).Draw(t, "fam") > 0 {
		return c53GenV4(t)
	}
	return c53GenV6(t)
}

func c53FlipBit(a netip.Addr, bit int) netip.Addr {
	b := a.AsSlice()
	if bit < 0 || bit >= len(b)*8 {
		return a
	}
	b[bit/8] ^= 0x80 >> (bit % 8)
	x, _ := netip.AddrFromSlice(b)
	return x
}

func c53GenCIDR(t *rapid.T) string {
	a := c53GenIP(t)
	bits := vp.BiasedInt(0, a.BitLen(), 0, 8, 24, 25, 31, 32, 64, 96, 120, 128).Draw(t, "bits")
	return fmt.Sprintf("%s/%d", a, bits)
}

func c53Decorate(t *rapid.T, s string) string {
	switch rapid.IntRange(0, 9).Draw(t, "decor") {
	case 0:
		return " " + s
	case 1:
		return s + " "
	case 2:
		return s + "."
	}
	return s
}

func c53GenEntry(t *rapid.T) c53Entry {
	switch rapid.IntRange(0, 7).Draw(t, "ekind") {
	case 0:
		return c53Entry{Kind: c53AddIP, S: c53GenIP(t).String(), Wide: rapid.Bool().Draw(t, "wide")}
	case 1:
		return c53Entry{Kind: c53AddNetwork, S: c53GenCIDR(t)}
	case 2:
		z := c53GenName(t)
		if rapid.Bool().Draw(t, "zdot") {
			z = "." + z
		}
		return c53Entry{Kind: c53AddZone, S: z}
	case 3:
		if rapid.IntRange(0, 5).Draw(t, "hostIsIP") == 0 {
			return c53Entry{Kind: c53AddHost, S: c53GenV4(t).String()}
		}
		return c53Entry{Kind: c53AddHost, S: c53GenName(t)}
	default:
		item := rapid.Custom(func(t *rapid.T) string {
			switch rapid.IntRange(0, 6).Draw(t, "skind") {
			case 0:
				a := c53GenIP(t)
				if a.Is6() && !a.Is4In6() && rapid.IntRange(0, 2).Draw(t, "ezoned") == 0 {
					a = a.WithZone(rapid.SampledFrom(c53Zones).Draw(t, "ezone"))
				}
				return strings.TrimSuffix(c53Decorate(t, a.String()), ".")
			case 1:
				return strings.TrimSuffix(c53Decorate(t, c53GenCIDR(t)), ".")
			case 2, 3:
				return c53Decorate(t, "*."+c53GenName(t))
			case 4:
				return rapid.SampledFrom([]string{"", " ", "1.2.3.4/33", "10.0.0.0/x", "::1/129"}).Draw(t, "junk")
			default:
				return c53Decorate(t, c53GenName(t))
			}
		})
		return c53Entry{Kind: c53FromString, S: strings.Join(rapid.SliceOfN(item, 1, 5).Draw(t, "items"), ",")}
	}
}

func c53SwapCase(s string) string {
	b := []byte(s)
	for i, ch := range b {
		switch {
		case 'a' <= ch && ch <= 'z':
			b[i] = ch - 32
		case 'A' <= ch && ch <= 'Z':
			b[i] = ch + 32
		}
	}
	return string(b)
}

// c53GenHost derives the dialed host from a rule of the configuration (equal, inside,
// just outside, subdomain, sibling with the same textual suffix, parent) or draws an
// unrelated one.
func c53GenHost(t *rapid.T, rules []c53Rule) string {
	if len(rules) == 0 || rapid.IntRange(0, 5).Draw(t, "unrelated") == 0 {
		if rapid.Bool().Draw(t, "hIP") {
			return c53GenIP(t).String()
		}
		return c53GenName(t)
	}
	r := rapid.SampledFrom(rules).Draw(t, "rule")
	switch r.kind {
	case "ip", "net":
		bits := r.bits
		if r.kind == "ip" {
			bits = r.addr.BitLen()
		}
		a := r.addr
		switch rapid.IntRange(0, 5).Draw(t, "iprel") {
		case 0: // the address itself
		case 1: // last bit inside the prefix flipped: outside
			a = c53FlipBit(a, bits-1)
		case 2: // first bit after the prefix flipped: inside
			a = c53FlipBit(a, bits)
		case 3: // host bits randomised: inside
			for i := bits; i < a.BitLen(); i++ {
				if rapid.Bool().Draw(t, "hb") {
					a = c53FlipBit(a, i)
				}
			}
		case 4: // some earlier bit flipped: outside
			if bits > 0 {
				a = c53FlipBit(a, rapid.IntRange(0, bits-1).Draw(t, "fb"))
			}
		case 5: // other representation of the same IPv4 address
			if a.Is4() {
				a = netip.AddrFrom16(a.As16())
			} else if a.Is4In6() {
				a = a.Unmap()
			}
		}
		s := a.String()
		if a.Is6() && rapid.IntRange(0, 4).Draw(t, "expand6") == 0 {
			s = a.StringExpanded()
		}
		if a.Is6() && !a.Is4In6() {
			switch z := rapid.IntRange(0, 5).Draw(t, "hzone"); {
			case r.zone != "" && z < 4: // the zone of the entry
				s += "%" + r.zone
			case z == 5:
				s += "%" + rapid.SampledFrom(c53Zones).Draw(t, "zone")
			}
		}
		return s
	default:
		n := strings.TrimPrefix(r.name, ".")
		switch rapid.IntRange(0, 8).Draw(t, "namerel") {
		case 0, 1:
			return n
		case 2, 3:
			return c53GenName(t) + "." + n
		case 4: // same textual suffix, not a subdomain
			return rapid.SampledFrom([]string{"not", "x", "a-"}).Draw(t, "pfx") + n
		case 5: // parent
			if i := strings.IndexByte(n, '.'); i >= 0 {
				return n[i+1:]
			}
			return n
		case 6:
			return c53SwapCase(n)
		case 7:
			return n + "."
		default:
			return n + rapid.SampledFrom([]string{"x", ".com", "-"}).Draw(t, "sfx")
		}
	}
}

func c53Gen(t *rapid.T) c53Case {
	c := c53Case{
		Entries:   rapid.SliceOfN(rapid.Custom(c53GenEntry), 0, 5).Draw(t, "entries"),
		Network:   rapid.SampledFrom([]string{"tcp", "tcp4", "tcp6", "udp"}).Draw(t, "network"),
		UseCtx:    rapid.Bool().Draw(t, "useCtx"),
		CtxDialer: rapid.Bool().Draw(t, "ctxDialer"),
	}
	c.Host = c53GenHost(t, c53Rules(c.Entries))
	c.Port = rapid.SampledFrom([]string{"80", "443", "1", "65535", "http"}).Draw(t, "port")
	if rapid.IntRange(0, 39).Draw(t, "malformed") == 0 {
		c.RawAddr = rapid.SampledFrom([]string{c.Host, c.Host + ":", "[" + c.Host, c.Host + ":1:2", "", ":", "[::1]", "[::1]]:80"}).Draw(t, "raw")
		if c.RawAddr == "" {
			c.RawAddr = "no-port"
		}
	}
	return c
}

func TestVP_C53(t *testing.T) {
	vp.Run(t, vp.Spec[c53Case]{ID: "C53", Gen: c53Gen, Prop: c53Prop})
}
