package websocket

// C59, concurrent use: one goroutine sends messages on a Conn while another goroutine
// receives on the same Conn (what every full-duplex user does). PINGs arrive for the
// receiving goroutine exactly while the sending goroutine is part-way through writing
// a message to a transport that does not take everything at once. Whatever the
// interleaving, the bytes that reach the transport must be a sequence of well-formed
// frames carrying the sender's messages unchanged and in order, plus one PONG per PING
// with the PING's payload ("the other endpoint receives the same messages ... in
// order", "PINGs are answered").
//
// The transport is owned by the harness: every Write call of the Conn is held at a gate
// until the harness releases it, so the harness decides at which Write call of the
// sender a PING is delivered. The only thing it cannot observe is the receiving
// goroutine blocking on the Conn's write mutex; it therefore gives that goroutine a
// short real-time nudge (case field nudge_us) before it lets the sender go on. The
// nudge influences only which interleavings are explored, never the verdict: every
// interleaving has to satisfy the oracle.

import (
	"bytes"
	"fmt"
	"net/http"
	"runtime"
	"strings"
	"sync"
	"testing"
	"time"

	"pgregory.net/rapid"
	"verif/vp"
)

type c59cCase struct {
	Server  bool  `json:"server"`   // the Conn under test is the server side
	Msgs    []int `json:"msgs"`     // payload lengths of the messages the sender writes
	Text    bool  `json:"text"`     // messages are text (Message.Send(string)) or binary
	PingAt  []int `json:"ping_at"`  // numbers of the sender's Write calls (0-based) at which a PING is delivered
	PingLen []int `json:"ping_len"` // payload length of the k-th PING
	NudgeUS int   `json:"nudge_us"`
}

func c59cGen(t *rapid.T) c59cCase {
	c := c59cCase{Server: rapid.Bool().Draw(t, "server"), Text: rapid.Bool().Draw(t, "text")}
	c.Msgs = rapid.SliceOfN(rapid.SampledFrom([]int{1, 100, 125, 126, 4000, 4086, 4090, 4094, 4096, 4097, 5000, 8192, 9000, 20000, 70000}), 1, 3).Draw(t, "msgs")
	n := rapid.IntRange(1, 4).Draw(t, "pings")
	at := 0
	for i := 0; i < n; i++ {
		at += rapid.IntRange(0, 3).Draw(t, "gap")
		c.PingAt = append(c.PingAt, at)
		c.PingLen = append(c.PingLen, rapid.SampledFrom([]int{0, 1, 4, 20, 125}).Draw(t, "pingLen"))
		at++
	}
	c.NudgeUS = rapid.SampledFrom([]int{50, 200, 500}).Draw(t, "nudge")
	return c
}

// c59cConn is the transport of the Conn under test.
type c59cConn struct {
	mu       sync.Mutex
	cond     *sync.Cond
	in       []byte // fed by the harness, read by the Conn
	closed   bool
	log      [][]byte // data of every Write call, in order of arrival
	pong     []bool   // the call came from WritePong
	released int      // Write calls with a ticket below this may return
	open     bool     // gate open: nothing is held
	arrived  chan int
}

func (c *c59cConn) Read(p []byte) (int, error) {
	c.mu.Lock()
	defer c.mu.Unlock()
	for len(c.in) == 0 && !c.closed {
		c.cond.Wait()
	}
	if len(c.in) == 0 {
		return 0, fmt.Errorf("c59c: transport closed")
	}
	n := copy(p, c.in)
	c.in = c.in[n:]
	c.cond.Broadcast()
	return n, nil
}

func (c *c59cConn) Write(p []byte) (int, error) {
	var pcs [24]uintptr
	fromPong := false
	frames := runtime.CallersFrames(pcs[:runtime.Callers(2, pcs[:])])
	for {
		f, more := frames.Next()
		if strings.HasSuffix(f.Function, ".WritePong") {
			fromPong = true
		}
		if !more {
			break
		}
	}
	c.mu.Lock()
	tk := len(c.log)
	c.log = append(c.log, append([]byte(nil), p...))
	c.pong = append(c.pong, fromPong)
	if !c.open {
		c.mu.Unlock()
		c.arrived <- tk
		c.mu.Lock()
	}
	for !c.open && c.released <= tk {
		c.cond.Wait()
	}
	c.mu.Unlock()
	return len(p), nil
}

func (c *c59cConn) Close() error {
	c.mu.Lock()
	c.closed = true
	c.open = true
	c.cond.Broadcast()
	c.mu.Unlock()
	return nil
}

func (c *c59cConn) feed(b []byte) {
	c.mu.Lock()
	c.in = append(c.in, b...)
	c.cond.Broadcast()
	c.mu.Unlock()
}

func (c *c59cConn) waitConsumed() {
	c.mu.Lock()
	for len(c.in) > 0 {
		c.cond.Wait()
	}
	c.mu.Unlock()
}

func (c *c59cConn) release(tk int) {
	c.mu.Lock()
	if c.released <= tk {
		c.released = tk + 1
	}
	c.cond.Broadcast()
	c.mu.Unlock()
}

func c59cMsg(i, n int) []byte {
	b := make([]byte, n)
	for j := range b {
		b[j] = 'a' + byte((i*7+j)%23)
	}
	return b
}

func c59cProp(c c59cCase, r *vp.Rec) error {
	if len(c.Msgs) == 0 || len(c.Msgs) > 8 || len(c.PingAt) != len(c.PingLen) || len(c.PingAt) > 16 || c.NudgeUS < 0 || c.NudgeUS > 100000 {
		r.Discard("malformed case")
		return nil
	}
	for _, n := range c.Msgs {
		if n < 0 || n > 1<<20 {
			r.Discard("malformed case")
			return nil
		}
	}
	for _, n := range c.PingLen {
		if n < 0 || n > 125 {
			r.Discard("malformed case")
			return nil
		}
	}
	tr := &c59cConn{arrived: make(chan int, 1<<12)}
	tr.cond = sync.NewCond(&tr.mu)
	var ws *Conn
	if c.Server {
		ws = newHybiServerConn(&Config{}, nil, tr, &http.Request{})
	} else {
		ws = newHybiClientConn(&Config{}, nil, tr)
	}
	defer tr.Close()

	pings := make([][]byte, len(c.PingAt))
	for k := range pings {
		pings[k] = c59cMsg(100+k, c.PingLen[k])
	}
	frameTo := func(op byte, payload []byte) []byte {
		return c59Encode(c59Frame{fin: true, opcode: op, masked: c.Server, key: [4]byte{1, 2, 3, 4}, payload: payload})
	}

	// the sending goroutine
	sendDone := make(chan error, 1)
	go func() {
		for i, n := range c.Msgs {
			var err error
			if c.Text {
				err = Message.Send(ws, string(c59cMsg(i, n)))
			} else {
				err = Message.Send(ws, c59cMsg(i, n))
			}
			if err != nil {
				sendDone <- fmt.Errorf("Send of message %d (%d bytes) failed: %v", i, n, err)
				return
			}
		}
		sendDone <- nil
	}()
	// the receiving goroutine: answers the PINGs inside Receive, returns at "done"
	recvDone := make(chan error, 1)
	go func() {
		var s string
		if err := Message.Receive(ws, &s); err != nil {
			recvDone <- fmt.Errorf("Receive failed: %v", err)
		} else if s != "done" {
			recvDone <- fmt.Errorf("Receive returned %q, the peer sent \"done\" (after %d PINGs)", s, len(pings))
		} else {
			recvDone <- nil
		}
	}()

	fed, pongWrites, senderWrites, midMessage := 0, 0, 0, 0
	var sendErr error
	for sending := true; sending; {
		select {
		case tk := <-tr.arrived:
			tr.mu.Lock()
			isPong := tr.pong[tk]
			tr.mu.Unlock()
			if isPong {
				pongWrites++
				tr.release(tk)
				continue
			}
			// a Write call of the sender is held at the gate
			if fed < len(pings) && c.PingAt[fed] <= senderWrites && pongWrites >= fed {
				tr.feed(frameTo(0x9, pings[fed]))
				fed++
				midMessage++
				tr.waitConsumed()
				time.Sleep(time.Duration(c.NudgeUS) * time.Microsecond)
			}
			senderWrites++
			tr.release(tk)
		case sendErr = <-sendDone:
			sending = false
		}
	}
	tr.mu.Lock()
	tr.open = true
	tr.cond.Broadcast()
	tr.mu.Unlock()
	if sendErr != nil {
		return sendErr
	}
	for ; fed < len(pings); fed++ {
		tr.feed(frameTo(0x9, pings[fed]))
	}
	tr.feed(frameTo(0x1, []byte("done")))
	if err := <-recvDone; err != nil {
		return err
	}

	// what reached the transport
	tr.mu.Lock()
	wire := bytes.Join(tr.log, nil)
	calls := len(tr.log)
	tr.mu.Unlock()
	frames, err := c59Parse(wire)
	if err != nil {
		return fmt.Errorf("the %d bytes written to the transport in %d Write calls are not a sequence of frames: %v (%d PINGs delivered while the sender was inside a message)", len(wire), calls, err, midMessage)
	}
	var msgs [][]byte
	var types []byte
	var pongs [][]byte
	open := false
	for i, f := range frames {
		if f.masked == c.Server {
			return fmt.Errorf("frame %d written by the %s is masked=%v", i, map[bool]string{true: "server", false: "client"}[c.Server], f.masked)
		}
		if f.rsv != 0 {
			return fmt.Errorf("frame %d has reserved bits %#x", i, f.rsv)
		}
		switch f.opcode {
		case 0x1, 0x2:
			if open {
				return fmt.Errorf("frame %d starts a message inside an unfinished message", i)
			}
			msgs = append(msgs, append([]byte(nil), f.payload...))
			types = append(types, f.opcode)
			open = !f.fin
		case 0x0:
			if !open {
				return fmt.Errorf("frame %d is a continuation frame without a message to continue", i)
			}
			msgs[len(msgs)-1] = append(msgs[len(msgs)-1], f.payload...)
			open = !f.fin
		case 0xA:
			if !f.fin {
				return fmt.Errorf("frame %d is a fragmented PONG", i)
			}
			pongs = append(pongs, f.payload)
		default:
			return fmt.Errorf("frame %d has unexpected opcode %#x (payload %s)", i, f.opcode, c59Short(f.payload))
		}
	}
	if open {
		return fmt.Errorf("the last message written is unfinished")
	}
	if len(msgs) != len(c.Msgs) {
		return fmt.Errorf("the transport carries %d messages, the sender wrote %d", len(msgs), len(c.Msgs))
	}
	wantType := byte(0x2)
	if c.Text {
		wantType = 0x1
	}
	for i, m := range msgs {
		if want := c59cMsg(i, c.Msgs[i]); !bytes.Equal(m, want) || types[i] != wantType {
			return fmt.Errorf("message %d on the transport (opcode %d) differs from what the sender wrote (opcode %d): %s (%d PINGs delivered while the sender was inside a message)", i, types[i], wantType, c59Diff(m, want), midMessage)
		}
	}
	if len(pongs) != len(pings) {
		return fmt.Errorf("%d PINGs were delivered, %d PONGs written", len(pings), len(pongs))
	}
	for k := range pongs {
		if !bytes.Equal(pongs[k], pings[k]) {
			return fmt.Errorf("PONG %d carries %s, PING %d carried %s", k, c59Short(pongs[k]), k, c59Short(pings[k]))
		}
	}
	if midMessage > 0 {
		r.Class("ping-delivered-while-a-sender-write-was-held")
		r.NonTrivial()
	}
	r.Classf("pings-mid-send:%d", midMessage)
	big := false
	for _, n := range c.Msgs {
		if n > 4096 {
			big = true
		}
	}
	if big && midMessage > 0 {
		r.Class("ping-while-sending-message-larger-than-write-buffer")
	}
	return nil
}

func TestVP_C59_concurrent(t *testing.T) {
	vp.Run(t, vp.Spec[c59cCase]{ID: "C59", Sub: "concurrent", Gen: c59cGen, Prop: c59cProp})
}
