package websocket

import (
	"bytes"
	crand "crypto/rand"
	"encoding/binary"
	"encoding/json"
	"errors"
	"fmt"
	"io"
	"net/http"
	"testing"

	"pgregory.net/rapid"
	"verif/vp"
)

// C59: WebSocket messages cross the connection intact.
//
// A client Conn (newHybiClientConn) and a server Conn (newHybiServerConn) are joined
// by an in-memory duplex byte queue with unbounded buffering, so a write never blocks
// and the whole case runs on the calling goroutine: the harness decides when each side
// sends and when it receives, and never asks a side to read unless it knows what is
// queued (a read on an empty queue returns c59ErrEmpty instead of blocking). Every
// byte a Conn writes is also kept in a per-side tap, which a reference RFC 6455 frame
// parser inspects at the end. PING frames and the frames of the misbehaving peer are
// put on the queue by the harness's own frame encoder. Masking keys come from the case
// (crypto/rand.Reader is replaced for the duration of the case).

var c59ErrEmpty = errors.New("c59: read on an empty queue")

type c59Queue struct {
	buf   []byte
	off   int
	marks []int // offsets where the harness knows a frame starts
}

// c59Slow: how far around a frame start the per-Read limit applies (short reads
// matter for header parsing and for what is buffered across a frame boundary; over
// the bulk of a large payload they only cost time).
const c59Slow = 48

// room returns how many bytes from off may be returned at full speed, or -1 when off
// lies in a slow zone.
func (q *c59Queue) room() int {
	room := len(q.buf) - q.off
	for _, m := range q.marks {
		if q.off >= m-c59Slow && q.off < m+c59Slow {
			return -1
		}
		if m-c59Slow > q.off && m-c59Slow-q.off < room {
			room = m - c59Slow - q.off
		}
	}
	return room
}

func (q *c59Queue) mark() { q.marks = append(q.marks, len(q.buf)) }

type c59End struct {
	in     *c59Queue // bytes to read
	out    *c59Queue // bytes written go to the peer's in
	tap    []byte    // everything this side wrote
	chunk  int       // max bytes per Read (0 = unlimited)
	closed bool
}

func (e *c59End) Read(p []byte) (int, error) {
	if e.in.off == len(e.in.buf) {
		return 0, c59ErrEmpty
	}
	if len(p) == 0 {
		return 0, nil
	}
	n := len(e.in.buf) - e.in.off
	if n > len(p) {
		n = len(p)
	}
	if e.chunk > 0 {
		if room := e.in.room(); room < 0 {
			if n > e.chunk {
				n = e.chunk
			}
		} else if n > room {
			n = room
		}
	}
	copy(p, e.in.buf[e.in.off:e.in.off+n])
	e.in.off += n
	return n, nil
}

func (e *c59End) Write(p []byte) (int, error) {
	if e.closed {
		return 0, io.ErrClosedPipe
	}
	e.out.buf = append(e.out.buf, p...)
	e.tap = append(e.tap, p...)
	return len(p), nil
}

func (e *c59End) Close() error { e.closed = true; return nil }

// c59Rand is the deterministic replacement of crypto/rand.Reader.
type c59Rand struct {
	keys []byte
	pos  int
}

func (r *c59Rand) Read(p []byte) (int, error) {
	for i := range p {
		if len(r.keys) == 0 {
			p[i] = 0
		} else {
			p[i] = r.keys[r.pos%len(r.keys)]
			r.pos++
		}
	}
	return len(p), nil
}

// ---- reference RFC 6455 framing (section 5.2) ----

type c59Frame struct {
	fin     bool
	rsv     byte
	opcode  byte
	masked  bool
	key     [4]byte
	payload []byte // unmasked
}

func c59Encode(f c59Frame) []byte {
	b0 := f.opcode & 0x0f
	if f.fin {
		b0 |= 0x80
	}
	b0 |= f.rsv << 4 & 0x70
	out := []byte{b0}
	var mb byte
	if f.masked {
		mb = 0x80
	}
	n := len(f.payload)
	switch {
	case n <= 125:
		out = append(out, mb|byte(n))
	case n <= 0xffff:
		out = append(out, mb|126, byte(n>>8), byte(n))
	default:
		out = append(out, mb|127)
		out = binary.BigEndian.AppendUint64(out, uint64(n))
	}
	if !f.masked {
		return append(out, f.payload...)
	}
	out = append(out, f.key[:]...)
	for i, c := range f.payload {
		out = append(out, c^f.key[i%4])
	}
	return out
}

func c59Parse(b []byte) ([]c59Frame, error) {
	var out []c59Frame
	for len(b) > 0 {
		if len(b) < 2 {
			return out, fmt.Errorf("truncated frame header after %d frames", len(out))
		}
		f := c59Frame{fin: b[0]&0x80 != 0, rsv: b[0] >> 4 & 7, opcode: b[0] & 0x0f, masked: b[1]&0x80 != 0}
		n := uint64(b[1] & 0x7f)
		b = b[2:]
		switch n {
		case 126:
			if len(b) < 2 {
				return out, fmt.Errorf("truncated 16-bit length after %d frames", len(out))
			}
			n = uint64(binary.BigEndian.Uint16(b))
			b = b[2:]
		case 127:
			if len(b) < 8 {
				return out, fmt.Errorf("truncated 64-bit length after %d frames", len(out))
			}
			n = binary.BigEndian.Uint64(b)
			b = b[8:]
		}
		if f.masked {
			if len(b) < 4 {
				return out, fmt.Errorf("truncated masking key after %d frames", len(out))
			}
			copy(f.key[:], b)
			b = b[4:]
		}
		if n > uint64(len(b)) {
			return out, fmt.Errorf("frame %d declares %d payload bytes, only %d follow", len(out), n, len(b))
		}
		f.payload = append([]byte{}, b[:n]...)
		if f.masked {
			for i := range f.payload {
				f.payload[i] ^= f.key[i%4]
			}
		}
		b = b[n:]
		out = append(out, f)
	}
	return out, nil
}

// ---- case ----

const (
	c59Text    = iota // Message.Send(string)
	c59Binary         // Message.Send([]byte)
	c59RawText        // Conn.PayloadType = TextFrame; Conn.Write
	c59RawBin         // Conn.PayloadType = BinaryFrame; Conn.Write
	c59JSON           // JSON.Send(string)
	c59Ping           // PING control frame put on the wire by the harness
	c59NumKinds
)

const (
	c59RecvCodec   = iota // Codec.Receive with a codec that captures payload type and bytes
	c59RecvMessage        // Message.Receive into *string / *[]byte
	c59RecvRead           // Conn.Read with a small buffer
	c59RecvJSON           // JSON.Receive (JSON messages only)
)

type c59Item struct {
	Dir     int    `json:"dir"` // 0: client -> server, 1: server -> client
	Kind    int    `json:"kind"`
	Len     int    `json:"len"`           // payload length (for JSON: length of the string value)
	Pat     []byte `json:"pat,omitempty"` // payload = Pat repeated
	Recv    int    `json:"recv,omitempty"`
	ReadBuf int    `json:"read_buf,omitempty"`
	Flush   bool   `json:"flush,omitempty"` // after this item the receiving side takes everything pending
	Key     []byte `json:"key,omitempty"`   // masking key of a client -> server PING
}

const (
	c59TailNone = iota
	c59TailUnmaskedToServer
	c59TailMaskedToClient
	c59TailClientClose
	c59TailServerClose
)

type c59Case struct {
	Items   []c59Item `json:"items"`
	MaxC    int       `json:"max_c"`   // client Conn.MaxPayloadBytes (0 = default)
	MaxS    int       `json:"max_s"`   // server Conn.MaxPayloadBytes
	ChunkC  int       `json:"chunk_c"` // max bytes one Read of the client's transport returns (0 = unlimited)
	ChunkS  int       `json:"chunk_s"`
	Keys    []byte    `json:"keys"` // stream the masking keys are taken from
	Tail    int       `json:"tail"`
	TailLen int       `json:"tail_len"`
	TailBin bool      `json:"tail_bin"`
	// TailCtl: the wrongly masked frame is a control frame (1 PING, 2 PONG), followed
	// by a correctly masked text message that must not be delivered any more.
	TailCtl int `json:"tail_ctl,omitempty"`
}

func c59IsBoundary(n int) bool { return n == 125 || n == 126 || n == 65535 || n == 65536 }

func c59Gen(t *rapid.T) c59Case {
	var c c59Case
	maxes := []int{0, 0, 1, 100, 125, 126, 1000, 65535, 65536}
	c.MaxC = rapid.SampledFrom(maxes).Draw(t, "maxC")
	c.MaxS = rapid.SampledFrom(maxes).Draw(t, "maxS")
	chunks := []int{0, 0, 1, 2, 3, 7, 100, 4096}
	c.ChunkC = rapid.SampledFrom(chunks).Draw(t, "chunkC")
	c.ChunkS = rapid.SampledFrom(chunks).Draw(t, "chunkS")
	c.Keys = rapid.OneOf(rapid.SliceOfN(rapid.Byte(), 4, 16), rapid.SliceOfN(rapid.SampledFrom([]byte{0, 0xff, 0x80, 0x41}), 4, 8)).Draw(t, "keys")
	item := rapid.Custom(func(t *rapid.T) c59Item {
		it := c59Item{Dir: rapid.IntRange(0, 1).Draw(t, "dir")}
		it.Kind = rapid.SampledFrom([]int{c59Text, c59Text, c59Binary, c59Binary, c59RawText, c59RawBin, c59JSON, c59Ping, c59Ping}).Draw(t, "kind")
		it.Pat = rapid.SliceOfN(rapid.Byte(), 1, 6).Draw(t, "pat")
		it.Flush = rapid.IntRange(0, 2).Draw(t, "flush") == 0
		if it.Kind == c59Ping {
			it.Len = vp.BiasedInt(0, 125, 0, 1, 124, 125).Draw(t, "pingLen")
			it.Key = rapid.SliceOfN(rapid.Byte(), 4, 4).Draw(t, "pingKey")
			return it
		}
		switch k := rapid.IntRange(0, 19).Draw(t, "lenClass"); {
		case k < 8:
			it.Len = rapid.IntRange(0, 300).Draw(t, "lenSmall")
		case k < 15:
			it.Len = rapid.SampledFrom([]int{0, 1, 124, 125, 126, 127, 128}).Draw(t, "lenNear125")
		case k < 19:
			it.Len = rapid.SampledFrom([]int{65534, 65535, 65536, 65537}).Draw(t, "lenNear64k")
		default:
			it.Len = rapid.IntRange(65538, 140000).Draw(t, "lenBig")
		}
		it.Recv = rapid.SampledFrom([]int{c59RecvCodec, c59RecvCodec, c59RecvMessage, c59RecvRead}).Draw(t, "recv")
		if it.Kind == c59JSON && rapid.Bool().Draw(t, "recvJSON") {
			it.Recv = c59RecvJSON
		}
		if it.Recv == c59RecvRead {
			it.ReadBuf = rapid.SampledFrom([]int{1, 2, 3, 5, 64, 125, 126, 4096, 70000}).Draw(t, "readBuf")
			if it.Len > 2000 && it.ReadBuf < 64 {
				it.ReadBuf = 64 // keep the number of Read calls bounded
			}
		}
		return it
	})
	c.Items = rapid.SliceOfN(item, 1, 12).Draw(t, "items")
	c.Tail = rapid.SampledFrom([]int{c59TailNone, c59TailNone, c59TailUnmaskedToServer, c59TailMaskedToClient, c59TailClientClose, c59TailServerClose}).Draw(t, "tail")
	if c.Tail == c59TailUnmaskedToServer || c.Tail == c59TailMaskedToClient {
		c.TailLen = rapid.SampledFrom([]int{0, 1, 5, 125, 126, 300}).Draw(t, "tailLen")
		c.TailBin = rapid.Bool().Draw(t, "tailBin")
		c.TailCtl = rapid.SampledFrom([]int{0, 0, 1, 1, 2}).Draw(t, "tailCtl")
	}
	return c
}

// c59Payload expands an item's pattern. Text-like kinds get printable ASCII with a
// two-byte rune in front when there is room (valid UTF-8 either way).
func c59Payload(it c59Item) []byte {
	n := it.Len
	if n < 0 {
		n = 0
	}
	pat := it.Pat
	if len(pat) == 0 {
		pat = []byte{0}
	}
	b := make([]byte, n)
	text := it.Kind == c59Text || it.Kind == c59RawText || it.Kind == c59JSON
	for i := range b {
		c := pat[i%len(pat)]
		if text {
			c = 0x20 + c%95
		}
		b[i] = c
	}
	if text && n >= 2 && pat[0]&1 == 1 {
		b[0], b[1] = 0xc3, 0xa9 // é
	}
	return b
}

// c59Capture is a Codec that hands back the payload type together with the bytes.
type c59Captured struct {
	typ  byte
	data []byte
}

var c59Capture = Codec{
	Marshal: func(v interface{}) ([]byte, byte, error) { return nil, UnknownFrame, ErrNotSupported },
	Unmarshal: func(data []byte, payloadType byte, v interface{}) error {
		c := v.(*c59Captured)
		c.typ, c.data = payloadType, data
		return nil
	},
}

type c59Pending struct {
	item    c59Item
	idx     int
	wire    []byte // payload expected on the wire
	typ     byte
	jsonVal string
}

type c59Side struct {
	name      string
	ws        *Conn
	end       *c59End
	max       int
	queue     []c59Pending // sent to this side, not yet taken
	mustCodec bool         // a refused frame is waiting to be drained by the next Receive
	pings     [][]byte     // payloads of the PINGs this side has processed, in order
	sent      []c59Pending // data messages this side's Conn has sent, in order
}

func c59Short(b []byte) string {
	if len(b) > 24 {
		return fmt.Sprintf("%x...(%d bytes)", b[:24], len(b))
	}
	return fmt.Sprintf("%x", b)
}

func c59Diff(got, want []byte) string {
	if len(got) != len(want) {
		return fmt.Sprintf("length %d, want %d", len(got), len(want))
	}
	for i := range got {
		if got[i] != want[i] {
			return fmt.Sprintf("first difference at byte %d: got %#x want %#x", i, got[i], want[i])
		}
	}
	return "equal"
}

func c59Prop(c c59Case, r *vp.Rec) (err error) {
	saved := crand.Reader
	crand.Reader = &c59Rand{keys: c.Keys}
	defer func() { crand.Reader = saved }()

	c2s, s2c := &c59Queue{}, &c59Queue{}
	ce := &c59End{in: s2c, out: c2s, chunk: c.ChunkC}
	se := &c59End{in: c2s, out: s2c, chunk: c.ChunkS}
	client := &c59Side{name: "client", end: ce, max: c.MaxC}
	server := &c59Side{name: "server", end: se, max: c.MaxS}
	client.ws = newHybiClientConn(&Config{}, nil, ce)
	server.ws = newHybiServerConn(&Config{}, nil, se, &http.Request{})
	client.ws.MaxPayloadBytes = c.MaxC
	server.ws.MaxPayloadBytes = c.MaxS
	if !client.ws.IsClientConn() || !server.ws.IsServerConn() {
		return fmt.Errorf("harness: connection roles are wrong")
	}
	sides := [2]*c59Side{client, server}

	limit := func(s *c59Side) int {
		if s.max == 0 {
			return DefaultMaxPayloadBytes
		}
		return s.max
	}

	// take makes side s receive everything that is pending for it.
	take := func(s *c59Side) error {
		var pingsAhead [][]byte
		for len(s.queue) > 0 {
			p := s.queue[0]
			s.queue = s.queue[1:]
			if p.item.Kind == c59Ping {
				pingsAhead = append(pingsAhead, p.wire)
				continue
			}
			// the call below first walks over the PINGs queued ahead of this message
			s.pings = append(s.pings, pingsAhead...)
			pingsAhead = nil
			mode := p.item.Recv
			if mode == c59RecvJSON && p.item.Kind != c59JSON {
				mode = c59RecvCodec
			}
			if mode == c59RecvRead && (s.mustCodec || len(p.wire) == 0) {
				mode = c59RecvCodec
			}
			where := fmt.Sprintf("item %d (%s receives %d bytes, type %d, mode %d)", p.idx, s.name, len(p.wire), p.typ, mode)
			if mode != c59RecvRead && len(p.wire) > limit(s) {
				var got c59Captured
				e := c59Capture.Receive(s.ws, &got)
				if e != ErrFrameTooLarge {
					return fmt.Errorf("%s: payload exceeds MaxPayloadBytes=%d but Receive returned %v (data %s)", where, limit(s), e, c59Short(got.data))
				}
				s.mustCodec = true
				r.Class("oversized-refused")
				continue
			}
			switch mode {
			case c59RecvCodec:
				var got c59Captured
				if e := c59Capture.Receive(s.ws, &got); e != nil {
					return fmt.Errorf("%s: Receive failed: %v", where, e)
				}
				if got.typ != p.typ {
					return fmt.Errorf("%s: payload type %d, want %d", where, got.typ, p.typ)
				}
				if !bytes.Equal(got.data, p.wire) {
					return fmt.Errorf("%s: payload differs: %s (got %s)", where, c59Diff(got.data, p.wire), c59Short(got.data))
				}
			case c59RecvMessage:
				var got []byte
				var e error
				if p.typ == TextFrame {
					var sgot string
					e = Message.Receive(s.ws, &sgot)
					got = []byte(sgot)
				} else {
					e = Message.Receive(s.ws, &got)
				}
				if e != nil {
					return fmt.Errorf("%s: Message.Receive failed: %v", where, e)
				}
				if !bytes.Equal(got, p.wire) {
					return fmt.Errorf("%s: payload differs: %s (got %s)", where, c59Diff(got, p.wire), c59Short(got))
				}
			case c59RecvJSON:
				var sgot string
				if e := JSON.Receive(s.ws, &sgot); e != nil {
					return fmt.Errorf("%s: JSON.Receive failed: %v", where, e)
				}
				if sgot != p.jsonVal {
					return fmt.Errorf("%s: JSON value differs: %s", where, c59Diff([]byte(sgot), []byte(p.jsonVal)))
				}
			case c59RecvRead:
				bs := p.item.ReadBuf
				if bs < 1 {
					bs = 1
				}
				buf := make([]byte, bs)
				var got []byte
				for len(got) < len(p.wire) {
					want := len(p.wire) - len(got)
					if want > bs {
						want = bs
					}
					n, e := s.ws.Read(buf[:want])
					if e != nil {
						return fmt.Errorf("%s: Read failed after %d bytes: %v", where, len(got), e)
					}
					if n == 0 {
						return fmt.Errorf("%s: Read returned 0 bytes and no error after %d bytes", where, len(got))
					}
					got = append(got, buf[:n]...)
				}
				if !bytes.Equal(got, p.wire) {
					return fmt.Errorf("%s: bytes read differ: %s", where, c59Diff(got, p.wire))
				}
			}
			s.mustCodec = false
			r.Classf("recv-mode-%d", mode)
		}
		if len(pingsAhead) > 0 {
			// PINGs with no data behind them: a Receive processes them and then finds the
			// queue empty.
			var got c59Captured
			e := c59Capture.Receive(s.ws, &got)
			if e == nil {
				return fmt.Errorf("%s: Receive returned a message (type %d, %s) although only PINGs were queued", s.name, got.typ, c59Short(got.data))
			}
			s.pings = append(s.pings, pingsAhead...)
			s.mustCodec = false
		}
		return nil
	}

	hasBoundary, hasMiddle := false, false
	for i, it := range c.Items {
		if it.Dir != 0 && it.Dir != 1 || it.Kind < 0 || it.Kind >= c59NumKinds {
			r.Discard("bad-case")
			return nil
		}
		from, to := sides[it.Dir], sides[1-it.Dir]
		p := c59Pending{item: it, idx: i, wire: c59Payload(it)}
		from.end.out.mark()
		switch it.Kind {
		case c59Text:
			p.typ = TextFrame
			if e := Message.Send(from.ws, string(p.wire)); e != nil {
				return fmt.Errorf("item %d: Message.Send(string) failed: %v", i, e)
			}
		case c59Binary:
			p.typ = BinaryFrame
			if e := Message.Send(from.ws, append([]byte{}, p.wire...)); e != nil {
				return fmt.Errorf("item %d: Message.Send([]byte) failed: %v", i, e)
			}
		case c59RawText, c59RawBin:
			p.typ = TextFrame
			if it.Kind == c59RawBin {
				p.typ = BinaryFrame
			}
			from.ws.PayloadType = p.typ
			n, e := from.ws.Write(append([]byte{}, p.wire...))
			if e != nil || n != len(p.wire) {
				return fmt.Errorf("item %d: Conn.Write(%d bytes) = %d, %v", i, len(p.wire), n, e)
			}
		case c59JSON:
			p.typ = TextFrame
			p.jsonVal = string(p.wire)
			p.wire, _ = json.Marshal(p.jsonVal)
			if e := JSON.Send(from.ws, p.jsonVal); e != nil {
				return fmt.Errorf("item %d: JSON.Send failed: %v", i, e)
			}
		case c59Ping:
			if len(p.wire) > 125 {
				p.wire = p.wire[:125]
			}
			f := c59Frame{fin: true, opcode: PingFrame, payload: p.wire, masked: it.Dir == 0}
			copy(f.key[:], it.Key)
			from.end.out.buf = append(from.end.out.buf, c59Encode(f)...)
			r.Class("ping")
		}
		if it.Kind != c59Ping {
			from.sent = append(from.sent, p)
			r.Classf("kind-%d", it.Kind)
			if c59IsBoundary(len(p.wire)) {
				hasBoundary = true
				r.Class("len-at-encoding-boundary")
			}
			if len(p.wire) > 65535 {
				r.Class("len>=64k")
			}
		}
		to.queue = append(to.queue, p)
		if it.Flush {
			if e := take(to); e != nil {
				return e
			}
		}
	}
	// "in the middle": a PING or an oversized message with a data message behind it
	for d := 0; d < 2; d++ {
		seenSpecial := false
		for _, it := range c.Items {
			if it.Dir != d {
				continue
			}
			if it.Kind == c59Ping {
				seenSpecial = true
				continue
			}
			if seenSpecial {
				hasMiddle = true
			}
			n := len(c59Payload(it))
			if it.Recv != c59RecvRead && n > limit(sides[1-d]) {
				seenSpecial = true
			}
		}
	}
	for _, s := range sides {
		if e := take(s); e != nil {
			return e
		}
	}

	// tail: a misbehaving peer, or an orderly close
	switch c.Tail {
	case c59TailUnmaskedToServer, c59TailMaskedToClient:
		victim, peerEnd := server, ce
		f := c59Frame{fin: true, opcode: TextFrame, masked: false}
		if c.Tail == c59TailMaskedToClient {
			victim, peerEnd = client, se
			f.masked = true
			f.key = [4]byte{0x12, 0x34, 0x56, 0x78}
		}
		if c.TailBin {
			f.opcode = BinaryFrame
		}
		f.payload = bytes.Repeat([]byte{'x'}, c.TailLen)
		if c.TailCtl == 1 || c.TailCtl == 2 {
			f.opcode = byte(PingFrame)
			if c.TailCtl == 2 {
				f.opcode = byte(PongFrame)
			}
			f.payload = bytes.Repeat([]byte{'y'}, c.TailLen%126)
		}
		peerEnd.out.mark()
		peerEnd.out.buf = append(peerEnd.out.buf, c59Encode(f)...)
		if c.TailCtl == 1 || c.TailCtl == 2 {
			// a well-formed message behind it: a peer that was disconnected does not get it
			after := c59Frame{fin: true, opcode: TextFrame, masked: !f.masked, key: [4]byte{9, 8, 7, 6}, payload: []byte("after")}
			peerEnd.out.mark()
			peerEnd.out.buf = append(peerEnd.out.buf, c59Encode(after)...)
		}
		tapBefore := len(victim.end.tap)
		var got c59Captured
		victim.ws.MaxPayloadBytes = 0
		if e := c59Capture.Receive(victim.ws, &got); e == nil {
			return fmt.Errorf("%s accepted a frame with the wrong masking (opcode %d, masked=%v): Receive returned type %d, %d bytes and no error", victim.name, f.opcode, f.masked, got.typ, len(got.data))
		}
		if c.TailCtl == 1 {
			if fs, _ := c59Parse(victim.end.tap[tapBefore:]); len(fs) > 0 {
				for _, w := range fs {
					if w.opcode == byte(PongFrame) {
						return fmt.Errorf("%s answered a PING with the wrong masking (masked=%v) with a PONG instead of disconnecting", victim.name, f.masked)
					}
				}
			}
			r.Class("tail:wrong-masking-on-ping-rejected")
		}
		r.Class("tail:wrong-masking-rejected")
	case c59TailClientClose:
		client.ws.Close()
		r.Class("tail:client-close")
	case c59TailServerClose:
		server.ws.Close()
		r.Class("tail:server-close")
	}

	// the wire, as seen by the reference parser
	for si, s := range sides {
		frames, e := c59Parse(s.end.tap)
		if e != nil {
			return fmt.Errorf("bytes written by the %s do not parse as RFC 6455 frames: %v", s.name, e)
		}
		var data []c59Frame
		var pongs [][]byte
		closes := 0
		for fi, f := range frames {
			if si == 0 && !f.masked {
				return fmt.Errorf("client wrote an unmasked frame (frame %d, opcode %d, %d bytes)", fi, f.opcode, len(f.payload))
			}
			if si == 1 && f.masked {
				return fmt.Errorf("server wrote a masked frame (frame %d, opcode %d, %d bytes)", fi, f.opcode, len(f.payload))
			}
			switch f.opcode {
			case TextFrame, BinaryFrame:
				data = append(data, f)
			case PongFrame:
				pongs = append(pongs, f.payload)
			case CloseFrame:
				closes++
			default:
				return fmt.Errorf("%s wrote a frame with unexpected opcode %d", s.name, f.opcode)
			}
		}
		if len(data) != len(s.sent) {
			return fmt.Errorf("%s sent %d messages but wrote %d data frames", s.name, len(s.sent), len(data))
		}
		for k, f := range data {
			if f.opcode != s.sent[k].typ || !bytes.Equal(f.payload, s.sent[k].wire) {
				return fmt.Errorf("%s: data frame %d on the wire (opcode %d, %s) differs from message sent (item %d, type %d): %s",
					s.name, k, f.opcode, c59Short(f.payload), s.sent[k].idx, s.sent[k].typ, c59Diff(f.payload, s.sent[k].wire))
			}
		}
		if len(pongs) != len(s.pings) {
			return fmt.Errorf("%s processed %d PINGs but wrote %d PONGs", s.name, len(s.pings), len(pongs))
		}
		for k := range pongs {
			if !bytes.Equal(pongs[k], s.pings[k]) {
				return fmt.Errorf("%s: PONG %d payload %s differs from PING payload %s", s.name, k, c59Short(pongs[k]), c59Short(s.pings[k]))
			}
		}
		if len(pongs) > 0 {
			r.Class("pong-checked")
		}
		if closes > 0 {
			r.Class("close-frame-written")
		}
	}
	if hasBoundary && hasMiddle {
		r.NonTrivial()
	}
	if hasMiddle {
		r.Class("ping-or-oversized-in-the-middle")
	}
	return nil
}

func TestVP_C59(t *testing.T) {
	vp.Run(t, vp.Spec[c59Case]{ID: "C59", Gen: c59Gen, Prop: c59Prop})
}
