package httpsfv

// C56 reference: an independent transcription of the RFC 9651 section 4.2 parsing
// algorithms. The parser works on a cursor (s, i); every algorithm step of the RFC is a
// line here. Failure is signalled with panic(c56Fail{}) and recovered at the entry
// points, which keeps the transcription line-by-line.
//
// Besides the verdict the parser returns the raw substrings ("spans") of keys, bare
// items, inner lists and parameter lists, because the package under test reports
// substrings through callbacks.
//
// The `lenient` flags reproduce *known findings* of the package under test; they are
// used only to classify inputs as belonging to a known finding (Spec.Known), never to
// decide a verdict. The `ambig` flags record that the parse relied on a point where I
// am not sure what RFC 9651 demands; such cases are counted, not asserted.

import (
	"encoding/base64"
	"strings"
	"unicode/utf8"
)

type c56Fail struct{}

type c56Lenient struct {
	DictNoComma bool // 4.2.2 step 8: a member followed by something other than "," is not an error
	InnerTab    bool // 4.2.1.2 step 3.1: HTAB discarded like SP
	ParamTab    bool // 4.2.3.2 step 3: HTAB discarded like SP
	InnerEOF    bool // 4.2.1.2 step 4: "(" at the very end of input is an empty inner list
	NoFFFD      bool // 4.2.10: a display string containing U+FFFD is rejected
}

func (l c56Lenient) any() bool {
	return l.DictNoComma || l.InnerTab || l.ParamTab || l.InnerEOF || l.NoFFFD
}

const (
	c56KeyDictNoComma = "c56-dict-missing-comma"
	c56KeyInnerTab    = "c56-innerlist-tab-as-sp"
	c56KeyParamTab    = "c56-param-tab-as-sp"
	c56KeyInnerEOF    = "c56-innerlist-unterminated"
	c56KeyNoFFFD      = "c56-displaystring-fffd-rejected"
)

type c56P struct {
	s      string
	i      int
	len    c56Lenient
	used   []string // keys of leniencies actually exercised, in order
	b64Odd bool     // saw a byte sequence whose content is in the alphabet but is not decodable base64
}

func (p *c56P) fail()          { panic(c56Fail{}) }
func (p *c56P) eof() bool      { return p.i >= len(p.s) }
func (p *c56P) peek() byte     { return p.s[p.i] } // caller checks eof
func (p *c56P) is(b byte) bool { return p.i < len(p.s) && p.s[p.i] == b }
func (p *c56P) use(key string) { p.used = append(p.used, key) }
func (p *c56P) discardSP() {
	for p.is(' ') {
		p.i++
	}
}
func (p *c56P) discardOWS() {
	for p.is(' ') || p.is('\t') {
		p.i++
	}
}

func c56Digit(b byte) bool   { return '0' <= b && b <= '9' }
func c56LCAlpha(b byte) bool { return 'a' <= b && b <= 'z' }
func c56Alpha(b byte) bool   { return c56LCAlpha(b) || ('A' <= b && b <= 'Z') }
func c56TcharSF(b byte) bool { // RFC 9110 tchar
	return c56Alpha(b) || c56Digit(b) || strings.IndexByte("!#$%&'*+-.^_`|~", b) >= 0
}

// ---- 4.2.3.3 Parsing a Key
func (p *c56P) key() string {
	if p.eof() || !(c56LCAlpha(p.peek()) || p.peek() == '*') {
		p.fail()
	}
	st := p.i
	for !p.eof() {
		b := p.peek()
		if !(c56LCAlpha(b) || c56Digit(b) || b == '_' || b == '-' || b == '.' || b == '*') {
			break
		}
		p.i++
	}
	return p.s[st:p.i]
}

// ---- 4.2.4 Parsing an Integer or Decimal. Returns the type and the value as
// (sign, integer part, fractional digits as thousandths).
type c56Num struct {
	decimal bool
	neg     bool
	intPart int64 // absolute value of the integer component
	milli   int64 // fractional component in 1/1000 (decimal only)
}

func (p *c56P) number() c56Num {
	var n c56Num
	if p.is('-') {
		p.i++
		n.neg = true
	}
	if p.eof() {
		p.fail() // empty integer
	}
	if !c56Digit(p.peek()) {
		p.fail()
	}
	inputNumber := ""
	for !p.eof() {
		ch := p.peek()
		p.i++
		if c56Digit(ch) {
			inputNumber += string(ch)
		} else if !n.decimal && ch == '.' {
			if len(inputNumber) > 12 {
				p.fail()
			}
			inputNumber += "."
			n.decimal = true
		} else {
			p.i-- // prepend char to input_string
			break
		}
		if !n.decimal && len(inputNumber) > 15 {
			p.fail()
		}
		if n.decimal && len(inputNumber) > 16 {
			p.fail()
		}
	}
	if !n.decimal {
		for _, d := range []byte(inputNumber) {
			n.intPart = n.intPart*10 + int64(d-'0')
		}
		return n
	}
	if strings.HasSuffix(inputNumber, ".") {
		p.fail()
	}
	dot := strings.IndexByte(inputNumber, '.')
	frac := inputNumber[dot+1:]
	if len(frac) > 3 {
		p.fail()
	}
	for _, d := range []byte(inputNumber[:dot]) {
		n.intPart = n.intPart*10 + int64(d-'0')
	}
	for len(frac) < 3 {
		frac += "0"
	}
	for _, d := range []byte(frac) {
		n.milli = n.milli*10 + int64(d-'0')
	}
	return n
}

// ---- 4.2.5 Parsing a String
func (p *c56P) sfString() string {
	if !p.is('"') {
		p.fail()
	}
	p.i++
	var out []byte
	for !p.eof() {
		ch := p.peek()
		p.i++
		switch {
		case ch == '\\':
			if p.eof() {
				p.fail()
			}
			nx := p.peek()
			p.i++
			if nx != '"' && nx != '\\' {
				p.fail()
			}
			out = append(out, nx)
		case ch == '"':
			return string(out)
		case ch <= 0x1f || ch >= 0x7f:
			p.fail()
		default:
			out = append(out, ch)
		}
	}
	p.fail() // no closing DQUOTE
	return ""
}

// ---- 4.2.6 Parsing a Token
func (p *c56P) token() string {
	if p.eof() || !(c56Alpha(p.peek()) || p.peek() == '*') {
		p.fail()
	}
	st := p.i
	for !p.eof() {
		b := p.peek()
		if !(c56TcharSF(b) || b == ':' || b == '/') {
			break
		}
		p.i++
	}
	return p.s[st:p.i]
}

// c56B64Decodable reports whether content (alphabet characters only) is base64 that a
// decoder can decode: optional '=' padding only at the end, padded length a multiple
// of four when padding is present, and not a single dangling character. Non-zero pad
// bits and missing padding are fine (RFC 9651 4.2.7 says parsers SHOULD NOT fail on them).
func c56B64Decodable(content string) bool {
	data := strings.TrimRight(content, "=")
	pad := len(content) - len(data)
	if strings.Contains(data, "=") {
		return false
	}
	if len(data)%4 == 1 {
		return false
	}
	if pad > 0 && (pad > 2 || (len(data)+pad)%4 != 0) {
		return false
	}
	_, err := base64.RawStdEncoding.DecodeString(data)
	return err == nil
}

// ---- 4.2.7 Parsing a Byte Sequence
func (p *c56P) byteSeq() {
	if !p.is(':') {
		p.fail()
	}
	p.i++
	end := strings.IndexByte(p.s[p.i:], ':')
	if end < 0 {
		p.fail()
	}
	content := p.s[p.i : p.i+end]
	p.i += end + 1
	for _, b := range []byte(content) {
		if !(c56Alpha(b) || c56Digit(b) || b == '+' || b == '/' || b == '=') {
			p.fail()
		}
	}
	if !c56B64Decodable(content) {
		// "If base64 decoding fails, parsing fails": which inputs make a decoder fail is
		// decoder specific; treated as accepted here and flagged.
		p.b64Odd = true
	}
}

// ---- 4.2.8 Parsing a Boolean
func (p *c56P) boolean() bool {
	if !p.is('?') {
		p.fail()
	}
	p.i++
	if p.is('1') {
		p.i++
		return true
	}
	if p.is('0') {
		p.i++
		return false
	}
	p.fail()
	return false
}

// ---- 4.2.9 Parsing a Date
func (p *c56P) date() int64 {
	if !p.is('@') {
		p.fail()
	}
	p.i++
	n := p.number()
	if n.decimal {
		p.fail()
	}
	if n.neg {
		return -n.intPart
	}
	return n.intPart
}

// ---- 4.2.10 Parsing a Display String
func (p *c56P) displayString() string {
	if !(p.i+1 < len(p.s) && p.s[p.i] == '%' && p.s[p.i+1] == '"') {
		p.fail()
	}
	p.i += 2
	var byteArray []byte
	lcHex := func(b byte) (byte, bool) {
		switch {
		case '0' <= b && b <= '9':
			return b - '0', true
		case 'a' <= b && b <= 'f':
			return b - 'a' + 10, true
		}
		return 0, false
	}
	for !p.eof() {
		ch := p.peek()
		p.i++
		if ch <= 0x1f || ch >= 0x7f {
			p.fail()
		}
		switch ch {
		case '%':
			if p.i+2 > len(p.s) {
				p.fail()
			}
			h, ok1 := lcHex(p.s[p.i])
			l, ok2 := lcHex(p.s[p.i+1])
			if !ok1 || !ok2 {
				p.fail()
			}
			p.i += 2
			byteArray = append(byteArray, h<<4|l)
		case '"':
			if !utf8.Valid(byteArray) {
				p.fail()
			}
			if p.len.NoFFFD && strings.ContainsRune(string(byteArray), utf8.RuneError) {
				p.use(c56KeyNoFFFD)
				p.fail()
			}
			return string(byteArray)
		default:
			byteArray = append(byteArray, ch)
		}
	}
	p.fail() // no closing DQUOTE
	return ""
}

// ---- 4.2.3.1 Parsing a Bare Item; returns its span.
func (p *c56P) bareItem() string {
	if p.eof() {
		p.fail()
	}
	st := p.i
	switch b := p.peek(); {
	case b == '-' || c56Digit(b):
		p.number()
	case b == '"':
		p.sfString()
	case c56Alpha(b) || b == '*':
		p.token()
	case b == ':':
		p.byteSeq()
	case b == '?':
		p.boolean()
	case b == '@':
		p.date()
	case b == '%':
		p.displayString()
	default:
		p.fail()
	}
	return p.s[st:p.i]
}

type c56KV struct{ Key, Val string }

// ---- 4.2.3.2 Parsing Parameters; returns the span and every (key, value) occurrence.
func (p *c56P) parameters() (string, []c56KV) {
	st := p.i
	var kvs []c56KV
	for !p.eof() {
		if !p.is(';') {
			break
		}
		p.i++
		p.discardSP()
		if p.len.ParamTab && p.is('\t') {
			p.use(c56KeyParamTab)
			p.discardOWS()
		}
		k := p.key()
		v := "?1"
		if p.is('=') {
			p.i++
			v = p.bareItem()
		}
		kvs = append(kvs, c56KV{k, v})
	}
	return p.s[st:p.i], kvs
}

type c56Item struct{ Val, Param string } // bare item (or bare inner list) span, parameters span

// ---- 4.2.3 Parsing an Item
func (p *c56P) item() c56Item {
	b := p.bareItem()
	ps, _ := p.parameters()
	return c56Item{b, ps}
}

// ---- 4.2.1.2 Parsing an Inner List, without its parameters ("bare inner list").
func (p *c56P) bareInnerList() (string, []c56Item) {
	st := p.i
	if !p.is('(') {
		p.fail()
	}
	p.i++
	var items []c56Item
	if p.len.InnerEOF && p.eof() {
		p.use(c56KeyInnerEOF)
		return p.s[st:p.i], items
	}
	for !p.eof() {
		p.discardSP()
		if p.len.InnerTab && p.is('\t') {
			p.use(c56KeyInnerTab)
			p.discardOWS()
		}
		if p.is(')') {
			p.i++
			return p.s[st:p.i], items
		}
		items = append(items, p.item())
		if !(p.is(' ') || p.is(')')) {
			p.fail()
		}
	}
	p.fail() // end of inner list not found
	return "", nil
}

// ---- 4.2.1.1 Parsing an Item or Inner List
func (p *c56P) itemOrInnerList() c56Item {
	if p.is('(') {
		b, _ := p.bareInnerList()
		ps, _ := p.parameters()
		return c56Item{b, ps}
	}
	return p.item()
}

// ---- 4.2.1 Parsing a List
func (p *c56P) list() []c56Item {
	var members []c56Item
	for !p.eof() {
		members = append(members, p.itemOrInnerList())
		p.discardOWS()
		if p.eof() {
			return members
		}
		if !p.is(',') {
			p.fail()
		}
		p.i++
		p.discardOWS()
		if p.eof() {
			p.fail() // trailing comma
		}
	}
	return members
}

type c56Member struct{ Key, Val, Param string }

// ---- 4.2.2 Parsing a Dictionary; returns every (key, value, parameters) occurrence.
func (p *c56P) dictionary() []c56Member {
	var members []c56Member
	for !p.eof() {
		k := p.key()
		var m c56Member
		if p.is('=') {
			p.i++
			it := p.itemOrInnerList()
			m = c56Member{k, it.Val, it.Param}
		} else {
			ps, _ := p.parameters()
			m = c56Member{k, "?1", ps}
		}
		members = append(members, m)
		p.discardOWS()
		if p.eof() {
			return members
		}
		if p.is(',') {
			p.i++
		} else if p.len.DictNoComma {
			p.use(c56KeyDictNoComma)
		} else {
			p.fail()
		}
		p.discardOWS()
		if p.eof() {
			p.fail() // trailing comma
		}
	}
	return members
}

// ---------------------------------------------------------------------------
// Entry points. Every result is the verdict plus what the package's callbacks must
// have reported (after the RFC's "a repeated key overwrites" rule).

type c56Out struct {
	OK      bool
	Members []c56Member // dict: key,val,param; list/item/innerlist: val,param; param: key,val
	Int     int64       // integer, date
	Milli   int64       // decimal: value * 1000 (exact)
	Bool    bool
	Str     string  // token, display string
	F       float64 // package side only: ParseDecimal result
}

func c56Try(s string, ln c56Lenient, f func(p *c56P, o *c56Out)) (out c56Out, p *c56P) {
	p = &c56P{s: s, len: ln}
	defer func() {
		if r := recover(); r != nil {
			if _, ok := r.(c56Fail); !ok {
				panic(r)
			}
			out = c56Out{}
		}
	}()
	f(p, &out)
	if !p.eof() { // the whole string must be the structure
		return c56Out{}, p
	}
	out.OK = true
	return out, p
}

// c56DedupMembers applies "if the map already contains the key, overwrite its value":
// position of the first occurrence, value of the last.
func c56DedupMembers(ms []c56Member) []c56Member {
	var out []c56Member
	idx := map[string]int{}
	for _, m := range ms {
		if j, ok := idx[m.Key]; ok {
			out[j] = m
			continue
		}
		idx[m.Key] = len(out)
		out = append(out, m)
	}
	return out
}

var c56Kinds = []string{"dict", "list", "item", "innerlist", "param", "int", "dec", "bool", "token", "date", "display"}

// c56Ref runs the reference for one entry point. topLevel selects, for dict/list/item,
// the section 4.2 wrapper (leading and trailing SP discarded) instead of the bare
// 4.2.1/4.2.2/4.2.3 algorithm.
func c56Ref(kind, s string, ln c56Lenient, topLevel bool) (c56Out, *c56P) {
	wrap := func(f func(p *c56P, o *c56Out)) func(p *c56P, o *c56Out) {
		if !topLevel {
			return f
		}
		return func(p *c56P, o *c56Out) {
			p.discardSP()
			f(p, o)
			p.discardSP()
		}
	}
	switch kind {
	case "dict":
		return c56Try(s, ln, wrap(func(p *c56P, o *c56Out) { o.Members = c56DedupMembers(p.dictionary()) }))
	case "list":
		return c56Try(s, ln, wrap(func(p *c56P, o *c56Out) {
			for _, it := range p.list() {
				o.Members = append(o.Members, c56Member{"", it.Val, it.Param})
			}
		}))
	case "item":
		return c56Try(s, ln, wrap(func(p *c56P, o *c56Out) {
			it := p.item()
			o.Members = []c56Member{{"", it.Val, it.Param}}
		}))
	case "innerlist":
		return c56Try(s, ln, func(p *c56P, o *c56Out) {
			_, items := p.bareInnerList()
			for _, it := range items {
				o.Members = append(o.Members, c56Member{"", it.Val, it.Param})
			}
		})
	case "param":
		return c56Try(s, ln, func(p *c56P, o *c56Out) {
			_, kvs := p.parameters()
			var ms []c56Member
			for _, kv := range kvs {
				ms = append(ms, c56Member{kv.Key, kv.Val, ""})
			}
			o.Members = c56DedupMembers(ms)
		})
	case "int":
		return c56Try(s, ln, func(p *c56P, o *c56Out) {
			n := p.number()
			if n.decimal {
				p.fail()
			}
			o.Int = n.intPart
			if n.neg {
				o.Int = -o.Int
			}
		})
	case "dec":
		return c56Try(s, ln, func(p *c56P, o *c56Out) {
			n := p.number()
			if !n.decimal {
				p.fail()
			}
			o.Milli = n.intPart*1000 + n.milli
			if n.neg {
				o.Milli = -o.Milli
			}
		})
	case "bool":
		return c56Try(s, ln, func(p *c56P, o *c56Out) { o.Bool = p.boolean() })
	case "token":
		return c56Try(s, ln, func(p *c56P, o *c56Out) { o.Str = p.token() })
	case "date":
		return c56Try(s, ln, func(p *c56P, o *c56Out) { o.Int = p.date() })
	case "display":
		return c56Try(s, ln, func(p *c56P, o *c56Out) { o.Str = p.displayString() })
	}
	panic("c56: unknown kind " + kind)
}
