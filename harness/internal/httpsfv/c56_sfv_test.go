package httpsfv

import (
	"encoding/base64"
	"encoding/json"
	"fmt"
	"os"
	"strings"
	"sync"
	"testing"
	"time"
	"unicode/utf8"

	"pgregory.net/rapid"
	"verif/vp"
)

// C56: structured-field parsing follows RFC 9651.
//
// Differential check of every Parse* entry point named in the statement against the
// reference in c56_ref_test.go: same verdict, and (when accepted) the callbacks must
// have reported the substrings / the typed parser must have returned the value the
// RFC algorithm yields.

type c56Case struct {
	Kind   string `json:"kind"`          // entry point, one of c56Kinds
	S      string `json:"s"`             // input (valid UTF-8)
	Raw    []byte `json:"raw,omitempty"` // input when it is not valid UTF-8 (then S is empty)
	Origin string `json:"origin,omitempty"`
}

func (c c56Case) input() string {
	if len(c.Raw) > 0 {
		return string(c.Raw)
	}
	return c.S
}

func c56MakeCase(kind, in, origin string) c56Case {
	if utf8.ValidString(in) {
		return c56Case{Kind: kind, S: in, Origin: origin}
	}
	return c56Case{Kind: kind, Raw: []byte(in), Origin: origin}
}

// ---------------------------------------------------------------------------
// The package under test, brought to the shape of c56Out.

func c56Impl(kind, s string) c56Out {
	var o c56Out
	switch kind {
	case "dict":
		var ms []c56Member
		o.OK = ParseDictionary(s, func(k, v, p string) { ms = append(ms, c56Member{k, v, p}) })
		o.Members = c56DedupMembers(ms)
	case "list":
		o.OK = ParseList(s, func(m, p string) { o.Members = append(o.Members, c56Member{"", m, p}) })
	case "item":
		o.OK = ParseItem(s, func(b, p string) { o.Members = append(o.Members, c56Member{"", b, p}) })
	case "innerlist":
		o.OK = ParseBareInnerList(s, func(b, p string) { o.Members = append(o.Members, c56Member{"", b, p}) })
	case "param":
		var ms []c56Member
		o.OK = ParseParameter(s, func(k, v string) { ms = append(ms, c56Member{k, v, ""}) })
		o.Members = c56DedupMembers(ms)
	case "int":
		o.Int, o.OK = ParseInteger(s)
	case "dec":
		o.F, o.OK = ParseDecimal(s)
	case "bool":
		o.Bool, o.OK = ParseBoolean(s)
	case "token":
		o.Str, o.OK = ParseToken(s)
	case "date":
		var tm time.Time
		tm, o.OK = ParseDate(s)
		if o.OK {
			o.Int = tm.Unix()
			if tm.Nanosecond() != 0 {
				o.Str = fmt.Sprintf("nanosecond=%d", tm.Nanosecond())
			}
		}
	case "display":
		o.Str, o.OK = ParseDisplayString(s)
	default:
		panic("c56: unknown kind " + kind)
	}
	return o
}

func c56SameMembers(a, b []c56Member) bool {
	if len(a) != len(b) {
		return false
	}
	for i := range a {
		if a[i] != b[i] {
			return false
		}
	}
	return true
}

// c56SameRef compares two reference outcomes.
func c56SameRef(a, b c56Out) bool {
	if a.OK != b.OK {
		return false
	}
	if !a.OK {
		return true
	}
	return c56SameMembers(a.Members, b.Members) && a.Int == b.Int && a.Milli == b.Milli && a.Bool == b.Bool && a.Str == b.Str
}

// c56Compare compares the package's outcome with the reference's.
func c56Compare(kind, s string, got, want c56Out) error {
	if got.OK != want.OK {
		verb := map[bool]string{true: "accepts", false: "rejects"}
		return fmt.Errorf("%s(%q): package %s, RFC 9651 %s", c56FuncName(kind), s, verb[got.OK], verb[want.OK])
	}
	if !want.OK {
		return nil
	}
	switch kind {
	case "dict", "list", "item", "innerlist", "param":
		if !c56SameMembers(got.Members, want.Members) {
			return fmt.Errorf("%s(%q): callbacks reported %+v, RFC 9651 yields %+v", c56FuncName(kind), s, got.Members, want.Members)
		}
	case "int":
		if got.Int != want.Int {
			return fmt.Errorf("ParseInteger(%q)=%d, RFC value %d", s, got.Int, want.Int)
		}
	case "date":
		if got.Int != want.Int || got.Str != "" {
			return fmt.Errorf("ParseDate(%q)=unix %d %s, RFC value %d", s, got.Int, got.Str, want.Int)
		}
	case "dec":
		// nearest float64 of want.Milli/1000: both operands are exact and IEEE division rounds
		// correctly. == does not distinguish -0 from 0 (the sign of "-0.0" is not asserted).
		if wf := float64(want.Milli) / 1000; got.F != wf {
			return fmt.Errorf("ParseDecimal(%q)=%v (%b), RFC value %d/1000 = %v (%b)", s, got.F, got.F, want.Milli, wf, wf)
		}
	case "bool":
		if got.Bool != want.Bool {
			return fmt.Errorf("ParseBoolean(%q)=%v, RFC value %v", s, got.Bool, want.Bool)
		}
	case "token", "display":
		if got.Str != want.Str {
			return fmt.Errorf("%s(%q)=%q, RFC value %q", c56FuncName(kind), s, got.Str, want.Str)
		}
	}
	return nil
}

func c56FuncName(kind string) string {
	return map[string]string{"dict": "ParseDictionary", "list": "ParseList", "item": "ParseItem", "innerlist": "ParseBareInnerList",
		"param": "ParseParameter", "int": "ParseInteger", "dec": "ParseDecimal", "bool": "ParseBoolean", "token": "ParseToken",
		"date": "ParseDate", "display": "ParseDisplayString"}[kind]
}

func c56ValidKind(k string) bool {
	for _, x := range c56Kinds {
		if x == k {
			return true
		}
	}
	return false
}

// ---------------------------------------------------------------------------
// Known findings: which leniencies are active (open entries of KNOWN_FINDINGS.json).

var c56ActiveOnce sync.Once
var c56Active c56Lenient

func c56ActiveLenient() c56Lenient {
	c56ActiveOnce.Do(func() {
		b, err := os.ReadFile(os.Getenv("VP_KNOWN"))
		if err != nil {
			return
		}
		var kf struct {
			Findings []struct{ Key, Property, Status string }
		}
		if json.Unmarshal(b, &kf) != nil {
			return
		}
		for _, f := range kf.Findings {
			if f.Property != "C56" || f.Status != "open" {
				continue
			}
			switch f.Key {
			case c56KeyDictNoComma:
				c56Active.DictNoComma = true
			case c56KeyInnerTab:
				c56Active.InnerTab = true
			case c56KeyParamTab:
				c56Active.ParamTab = true
			case c56KeyInnerEOF:
				c56Active.InnerEOF = true
			case c56KeyNoFFFD:
				c56Active.NoFFFD = true
			}
		}
	})
	return c56Active
}

// c56Known: the input belongs to the class of an open known finding iff the reference
// extended with exactly the open findings' behaviours decides it differently from the
// strict reference; the key is that of the first such behaviour exercised.
func c56Known(c c56Case) string {
	act := c56ActiveLenient()
	if !act.any() || !c56ValidKind(c.Kind) {
		return ""
	}
	s := c.input()
	for _, top := range []bool{false, true} {
		strict, _ := c56Ref(c.Kind, s, c56Lenient{}, top)
		lenient, lp := c56Ref(c.Kind, s, act, top)
		if !c56SameRef(strict, lenient) && len(lp.used) > 0 {
			return lp.used[0]
		}
	}
	return ""
}

// ---------------------------------------------------------------------------
// Property.

func c56Prop(c c56Case, r *vp.Rec) error {
	if !c56ValidKind(c.Kind) {
		r.Discard("unknown kind")
		return nil
	}
	s := c.input()
	strict, sp := c56Ref(c.Kind, s, c56Lenient{}, false)
	got := c56Impl(c.Kind, s)

	r.Class("kind:" + c.Kind)
	if c.Origin != "" {
		r.Class("origin:" + c.Origin)
	}
	verdict := map[bool]string{true: "accept", false: "reject"}

	// Points where I am not certain what RFC 9651 demands: not asserted, counted.
	ambiguous := ""
	if strict.OK && sp.b64Odd {
		ambiguous = "undecodable-base64"
	}
	if c.Kind == "dict" || c.Kind == "list" || c.Kind == "item" {
		// The section 4.2 wrapper discards leading and trailing SP around the structure; the
		// 4.2.1/4.2.2/4.2.3 algorithms the package documents do not.
		top, tp := c56Ref(c.Kind, s, c56Lenient{}, true)
		if !c56SameRef(strict, top) {
			ambiguous = "leading-or-trailing-SP"
		} else if top.OK && tp.b64Odd {
			ambiguous = "undecodable-base64"
		}
	}
	if ambiguous != "" {
		r.Class("ambiguous:" + ambiguous + ":package-" + verdict[got.OK] + "s(not asserted)")
		return nil
	}

	if err := c56Compare(c.Kind, s, got, strict); err != nil {
		return err
	}

	r.Class("verdict:" + verdict[strict.OK])
	r.Class(c.Kind + ":" + verdict[strict.OK])
	if strings.HasPrefix(c.Origin, "mut") || c.Origin == "gen" {
		r.Class(c.Origin + ":" + verdict[strict.OK])
	}
	if c.Origin == "mut1" {
		r.NonTrivial()
	}
	if strict.OK && len(strict.Members) >= 2 {
		rich := false
		for _, m := range strict.Members {
			if m.Param != "" || strings.HasPrefix(m.Val, "(") {
				rich = true
			}
		}
		if rich {
			r.Class("accepted:>=2-members-with-param-or-inner-list")
			r.NonTrivial()
		}
	}
	if strict.OK && (c.Kind == "dict" || c.Kind == "param") {
		// duplicates are visible as fewer members than separators suggest; cheap re-parse
		if raw, _ := c56RawCount(c.Kind, s); raw > len(strict.Members) {
			r.Class("accepted:duplicate-key")
		}
	}
	if strict.OK {
		for _, m := range strict.Members {
			if len(m.Val) > 0 {
				switch ch := m.Val[0]; {
				case ch == '(':
					r.Class("member:inner-list")
				case ch == '"':
					r.Class("member:string")
				case ch == ':':
					r.Class("member:byte-sequence")
				case ch == '%':
					r.Class("member:display-string")
				case ch == '@':
					r.Class("member:date")
				case ch == '?':
					r.Class("member:boolean")
				case ch == '-' || c56Digit(ch):
					if strings.Contains(m.Val, ".") {
						r.Class("member:decimal")
					} else {
						r.Class("member:integer")
					}
				default:
					r.Class("member:token")
				}
			}
		}
	}
	return nil
}

// c56RawCount returns the number of key occurrences before de-duplication.
func c56RawCount(kind, s string) (int, bool) {
	n := 0
	var ok bool
	switch kind {
	case "dict":
		out, _ := c56Try(s, c56Lenient{}, func(p *c56P, o *c56Out) { n = len(p.dictionary()) })
		ok = out.OK
	case "param":
		out, _ := c56Try(s, c56Lenient{}, func(p *c56P, o *c56Out) { _, kvs := p.parameters(); n = len(kvs) })
		ok = out.OK
	}
	return n, ok
}

// ---------------------------------------------------------------------------
// Generators.

func c56Pick(t *rapid.T, label string, xs ...string) string {
	return rapid.SampledFrom(xs).Draw(t, label)
}

var c56KeyRest = []byte("abcxyz0189_-.*")
var c56TokenRest = []byte("abzABZ019!#$%&'*+-.^_`|~:/")
var c56StrChars = []string{"a", "b", "z", "A", "0", " ", " ", "!", "#", ",", ";", "=", "(", ")", ":", "%", "~", "\\\"", "\\\\", "'", "?", "@", "*", "/"}

func c56GenKey(t *rapid.T) string {
	first := rapid.SampledFrom([]byte("abkuiz*")).Draw(t, "k0")
	rest := rapid.SliceOfN(rapid.SampledFrom(c56KeyRest), 0, 4).Draw(t, "krest")
	return string(first) + string(rest)
}

func c56GenDigits(t *rapid.T, n int, label string) string {
	b := make([]byte, n)
	mode := rapid.IntRange(0, 3).Draw(t, label+"mode")
	for i := range b {
		switch mode {
		case 0:
			b[i] = '9'
		case 1:
			b[i] = '0'
			if i == n-1 {
				b[i] = '1'
			}
		default:
			b[i] = rapid.SampledFrom([]byte("0123456789")).Draw(t, label)
		}
	}
	return string(b)
}

func c56GenInt(t *rapid.T) string {
	n := rapid.SampledFrom([]int{1, 1, 1, 2, 3, 5, 10, 14, 15, 15, 15, 16}).Draw(t, "ndig")
	return c56Pick(t, "sign", "", "", "-") + c56GenDigits(t, n, "d")
}

func c56GenDec(t *rapid.T) string {
	ni := rapid.SampledFrom([]int{1, 1, 1, 2, 6, 11, 12, 12, 12, 13}).Draw(t, "nint")
	nf := rapid.SampledFrom([]int{1, 1, 2, 2, 3, 3, 3, 4}).Draw(t, "nfrac")
	return c56Pick(t, "sign", "", "", "-") + c56GenDigits(t, ni, "i") + "." + c56GenDigits(t, nf, "f")
}

func c56GenString(t *rapid.T) string {
	parts := rapid.SliceOfN(rapid.SampledFrom(c56StrChars), 0, 6).Draw(t, "chars")
	return `"` + strings.Join(parts, "") + `"`
}

func c56GenToken(t *rapid.T) string {
	first := rapid.SampledFrom([]byte("abzAZ*")).Draw(t, "t0")
	rest := rapid.SliceOfN(rapid.SampledFrom(c56TokenRest), 0, 5).Draw(t, "trest")
	return string(first) + string(rest)
}

func c56GenByteSeq(t *rapid.T) string {
	raw := rapid.SliceOfN(rapid.Byte(), 0, 6).Draw(t, "bytes")
	enc := base64.StdEncoding.EncodeToString(raw)
	switch rapid.IntRange(0, 5).Draw(t, "b64mode") {
	case 0:
		enc = strings.TrimRight(enc, "=") // padding omitted
	case 1:
		// non-zero pad bits: bump the last data character
		d := strings.TrimRight(enc, "=")
		if len(d)%4 != 0 && len(d) > 0 {
			const alpha = "ABCDEFGHIJKLMNOPQRSTUVWXYZabcdefghijklmnopqrstuvwxyz0123456789+/"
			i := strings.IndexByte(alpha, d[len(d)-1])
			enc = d[:len(d)-1] + string(alpha[(i+1)%64]) + enc[len(d):]
		}
	}
	return ":" + enc + ":"
}

var c56Runes = []rune{0, 0x1f, 'a', ' ', '%', '"', 0x7e, 0x7f, 0x80, 0xe9, 0x7ff, 0x800, 0x20ac, 0xd7ff, 0xe000, 0xfffd, 0xfffe, 0xffff, 0x10000, 0x1f600, 0x10ffff}

func c56PctEncode(b []byte) string {
	const hx = "0123456789abcdef"
	var sb strings.Builder
	for _, x := range b {
		sb.WriteByte('%')
		sb.WriteByte(hx[x>>4])
		sb.WriteByte(hx[x&15])
	}
	return sb.String()
}

func c56GenDisplay(t *rapid.T) string {
	part := rapid.Custom(func(t *rapid.T) string {
		switch rapid.IntRange(0, 9).Draw(t, "dpart") {
		case 0, 1, 2:
			return c56Pick(t, "lit", "a", "z", " ", "!", "(", ")", ",", ";", "=", "~", "\\", "'", "0")
		case 9:
			// rarely something that is not a well-formed escape / not UTF-8
			return c56Pick(t, "bad", "%C3%A9", "%c3", "%a9", "%", "%e", "%ed%a0%80", "%c0%80", "%f4%90%80%80", "%e2%82", "%zz", "%ff")
		default:
			ru := rapid.SampledFrom(c56Runes).Draw(t, "rune")
			return c56PctEncode([]byte(string(ru)))
		}
	})
	return `%"` + strings.Join(rapid.SliceOfN(part, 0, 5).Draw(t, "dparts"), "") + `"`
}

func c56GenBare(t *rapid.T) string {
	switch rapid.IntRange(0, 9).Draw(t, "bare") {
	case 0, 1:
		return c56GenInt(t)
	case 2:
		return c56GenDec(t)
	case 3:
		return c56GenString(t)
	case 4, 5:
		return c56GenToken(t)
	case 6:
		return c56GenByteSeq(t)
	case 7:
		return c56Pick(t, "bool", "?0", "?1")
	case 8:
		return "@" + c56GenInt(t)
	default:
		return c56GenDisplay(t)
	}
}

func c56GenParams(t *rapid.T, max int) string {
	one := rapid.Custom(func(t *rapid.T) string {
		s := ";" + c56Pick(t, "psp", "", "", "", " ", "  ") + c56GenKey(t)
		if rapid.Bool().Draw(t, "hasval") {
			s += "=" + c56GenBare(t)
		}
		return s
	})
	return strings.Join(rapid.SliceOfN(one, 0, max).Draw(t, "params"), "")
}

func c56GenItem(t *rapid.T) string { return c56GenBare(t) + c56GenParams(t, 2) }

func c56GenBareInner(t *rapid.T) string {
	items := rapid.SliceOfN(rapid.Custom(c56GenItem), 0, 3).Draw(t, "inner")
	s := "(" + c56Pick(t, "isp0", "", "", " ", "  ")
	for i, it := range items {
		if i > 0 {
			s += c56Pick(t, "isp", " ", " ", "  ")
		}
		s += it
	}
	return s + c56Pick(t, "isp1", "", "", " ", "  ") + ")"
}

func c56GenMember(t *rapid.T) string {
	if rapid.IntRange(0, 3).Draw(t, "isInner") == 0 {
		return c56GenBareInner(t) + c56GenParams(t, 2)
	}
	return c56GenItem(t)
}

func c56GenSep(t *rapid.T) string {
	return c56Pick(t, "ows0", "", "", " ", "\t", " \t") + "," + c56Pick(t, "ows1", "", " ", " ", "\t", "  ", "\t ")
}

func c56GenList(t *rapid.T) string {
	ms := rapid.SliceOfN(rapid.Custom(c56GenMember), 0, 4).Draw(t, "members")
	s := ""
	for i, m := range ms {
		if i > 0 {
			s += c56GenSep(t)
		}
		s += m
	}
	return s + c56Pick(t, "tail", "", "", "", "", " ", "\t", "  ")
}

func c56GenDict(t *rapid.T) string {
	one := rapid.Custom(func(t *rapid.T) string {
		k := c56GenKey(t)
		if rapid.IntRange(0, 3).Draw(t, "bare") == 0 {
			return k + c56GenParams(t, 2)
		}
		return k + "=" + c56GenMember(t)
	})
	ms := rapid.SliceOfN(one, 0, 4).Draw(t, "members")
	s := ""
	for i, m := range ms {
		if i > 0 {
			s += c56GenSep(t)
		}
		s += m
	}
	return s + c56Pick(t, "tail", "", "", "", "", " ", "\t", "  ")
}

func c56GenFor(kind string, t *rapid.T) string {
	switch kind {
	case "dict":
		return c56GenDict(t)
	case "list":
		return c56GenList(t)
	case "item":
		return c56GenItem(t)
	case "innerlist":
		return c56GenBareInner(t)
	case "param":
		return c56GenParams(t, 4)
	case "int":
		return c56GenInt(t)
	case "dec":
		return c56GenDec(t)
	case "bool":
		return c56Pick(t, "bool", "?0", "?1")
	case "token":
		return c56GenToken(t)
	case "date":
		return "@" + c56GenInt(t)
	case "display":
		return c56GenDisplay(t)
	}
	panic("kind")
}

var c56Pieces = []string{" ", " ", "\t", ",", ",", ";", ";", "=", "(", ")", "\"", "\\", ":", "?", "@", "%", ".", "-", "*", "A", "a", "b", "z", "0", "1", "9",
	"_", "/", "é", "\x00", "\x7f", "\n", "%\"", "?1", "?0", "  ", ", ", "=(", "a=1", ";a", "()", "1.5", ":YQ==:", "\"x\"", "@1", "%c3%a9", "+", "~", "\xc3"}

var c56Hostile = []string{
	"", " ", "  ", "\t", ",", ";", "=", "(", ")", "()", "( )", "(  )", "(())", "((a))", "(a)(b)", "(a", "a)", "(a,b)", "(a;b)", "(a );b",
	"999999999999999", "1000000000000000", "-999999999999999", "-1000000000000000", "999999999999.999", "1000000000000.0", "999999999999.9999",
	"1234567890123.1", "123456789012345.", "1.", ".5", "1.2345", "1.2.3", "1..2", "-", "--1", "-0", "-.5", "- 1", "00", "007", "0.0", "-0.0", "00.00",
	"1e3", "0x10", "+1", "1_000", "1,2", "9223372036854775807",
	"@", "@-1", "@1.0", "@1.", "@@1", "@a", "@999999999999999", "@1000000000000000", "@-999999999999999", "@ 1",
	"?", "?2", "?01", "?1?1", "?T", "? 1",
	"\"", "\"\"", "\"\\", "\"\\a\"", "\"\\\"", "\"a\"b\"", "\"\t\"", "\"\x7f\"", "\"é\"",
	"%\"", "%\"\"", "%\"%", "%\"%\"", "%\"%c3\"", "%\"%C3%A9\"", "%\"%c3%a9\"", "%\"%c3%a9", "%\"é\"", "%\"a%\"", "%a", "%",
	":", "::", ":=:", ":a:", ":ab:", ":abc:", ":abcd:", ":YQ:", ":YQ=:", ":YQ==:", ":YQ===:", ":Y=Q=:", ":=YQ=:", ":YQ==", ":YQ==::", ":Y Q:", ":Y-_:", ":YR==:",
	"a,", ",a", "a,,b", "a, ,b", "a ,b", "a\t,\tb", "a\n,b", "a;", "a;;b", "a; b", "a ;b", "a;b=", "a;=1", "a;B", "a;b;b", "a;b=1;b=2",
	"a=", "=a", "a==1", "a= 1", "a =1", "A", "A=1", "a=A", "a.b-c_d*", "*", "*a*/:", "1a", "a1", "_a", "-a", ".a",
	"a=1,a=2", "a=1, a", "a, a=(1 2)", "a=(1 2);x, b=?0;y=\"z\"", "a=1,b=2,", "a=1,,b=2", "a=()", "a=( )", "a;x", "a=1;x=:YQ==:",
}

func c56Mutate(t *rapid.T, s string, n int) string {
	b := []byte(s)
	for k := 0; k < n; k++ {
		op := rapid.IntRange(0, 6).Draw(t, "op")
		pos := 0
		if len(b) > 0 {
			pos = rapid.IntRange(0, len(b)).Draw(t, "pos")
		}
		pc := rapid.SampledFrom(c56Pieces).Draw(t, "piece")
		switch {
		case op == 0 && pos < len(b): // delete
			b = append(b[:pos:pos], b[pos+1:]...)
		case op == 1 || len(b) == 0 || pos >= len(b): // insert
			b = append(b[:pos:pos], append([]byte(pc), b[pos:]...)...)
		case op == 2: // replace
			b = append(b[:pos:pos], append([]byte(pc), b[pos+1:]...)...)
		case op == 3: // duplicate
			b = append(b[:pos+1:pos+1], b[pos:]...)
		case op == 4: // swap with next
			if pos+1 < len(b) {
				b[pos], b[pos+1] = b[pos+1], b[pos]
			}
		case op == 5: // truncate
			b = b[:pos]
		case op == 6: // SP <-> HTAB, ',' <-> ' ' at this position or the next such character
		scan:
			for j := pos; j < len(b); j++ {
				switch b[j] {
				case ' ':
					b[j] = '\t'
				case '\t':
					b[j] = ' '
				case ',':
					b[j] = ' '
				case ';':
					b[j] = ','
				default:
					continue
				}
				break scan
			}
		}
	}
	return string(b)
}

var c56KindWeights = []string{"dict", "dict", "dict", "list", "list", "list", "item", "item", "innerlist", "innerlist", "param", "param",
	"int", "dec", "bool", "token", "date", "display", "display"}

func c56Gen(t *rapid.T) c56Case {
	kind := rapid.SampledFrom(c56KindWeights).Draw(t, "kind")
	switch mode := rapid.IntRange(0, 15).Draw(t, "mode"); {
	case mode <= 5:
		return c56MakeCase(kind, c56GenFor(kind, t), "gen")
	case mode <= 10:
		return c56MakeCase(kind, c56Mutate(t, c56GenFor(kind, t), 1), "mut1")
	case mode <= 12:
		n := rapid.IntRange(2, 3).Draw(t, "nedits")
		return c56MakeCase(kind, c56Mutate(t, c56GenFor(kind, t), n), "mutN")
	case mode == 13:
		other := rapid.SampledFrom(c56Kinds).Draw(t, "genkind")
		return c56MakeCase(kind, c56GenFor(other, t), "cross")
	case mode == 14:
		return c56MakeCase(kind, strings.Join(rapid.SliceOfN(rapid.SampledFrom(c56Pieces), 0, 10).Draw(t, "soup"), ""), "soup")
	default:
		return c56MakeCase(kind, rapid.SampledFrom(c56Hostile).Draw(t, "hostile"), "const")
	}
}

func TestVP_C56(t *testing.T) {
	vp.Run(t, vp.Spec[c56Case]{ID: "C56", Gen: c56Gen, Prop: c56Prop, Known: c56Known,
		Sample: func(c c56Case) any { return fmt.Sprintf("%s %s(%q)", c.Origin, c56FuncName(c.Kind), c.input()) }})
}

// FuzzVP_C56: coverage-guided search with the same differential inside. The input is
// handed to every entry point.
func FuzzVP_C56(f *testing.F) {
	for _, s := range c56Hostile {
		f.Add([]byte(s))
	}
	for _, s := range []string{"a=1, b;x=?0, c=(1 2);y", "a, (b c);d=\"e\", :YQ==:;f", "tok;a=1;b", "(a;x b \"c\" 1.5)", ";a;b=1;c=%\"%c3%a9\"",
		"-42", "3.14", "?1", "a/b:c", "@1700000000", "%\"caf%c3%a9\"", "u=3, i", "u=7,i=?0"} {
		f.Add([]byte(s))
	}
	f.Fuzz(func(t *testing.T, data []byte) {
		if len(data) > 256 {
			return
		}
		for _, kind := range c56Kinds {
			c := c56MakeCase(kind, string(data), "fuzz")
			if k := c56Known(c); k != "" {
				continue
			}
			if err := c56Prop(c, nil); err != nil {
				vp.FuzzFail(t, "C56", "", c, err)
			}
		}
	})
}
