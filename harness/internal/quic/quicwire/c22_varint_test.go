package quicwire

import (
	"bytes"
	"fmt"
	"os"
	"strconv"
	"testing"

	"pgregory.net/rapid"
	"verif/vp"
)

// C22: QUIC variable-length integers round-trip for all 62-bit values.
//
// The reference below is written from RFC 9000 section 16 (two-bit length prefix,
// network byte order), with arithmetic that shares nothing with wire.go.

const c22Max = uint64(1)<<62 - 1

func c22RefSize(v uint64) int {
	switch {
	case v < 1<<6:
		return 1
	case v < 1<<14:
		return 2
	case v < 1<<30:
		return 4
	default:
		return 8
	}
}

// c22RefEncode encodes v in exactly n bytes (n in 1,2,4,8; v must fit in 8n-2 bits).
func c22RefEncode(v uint64, n int) []byte {
	out := make([]byte, n)
	for i := n - 1; i >= 0; i-- {
		out[i] = byte(v & 0xff)
		v >>= 8
	}
	var code byte
	switch n {
	case 2:
		code = 1
	case 4:
		code = 2
	case 8:
		code = 3
	}
	out[0] |= code << 6
	return out
}

// c22RefDecode returns ok=false when in is shorter than the length its first byte announces.
func c22RefDecode(in []byte) (v uint64, n int, ok bool) {
	if len(in) == 0 {
		return 0, 0, false
	}
	n = 1 << (in[0] >> 6)
	if len(in) < n {
		return 0, n, false
	}
	v = uint64(in[0] & 0x3f)
	for _, b := range in[1:n] {
		v = v*256 + uint64(b)
	}
	return v, n, true
}

// c22Exact returns a copy of b whose capacity equals its length, so that any
// reslicing past the end by the code under test would panic.
func c22Exact(b []byte) []byte {
	out := make([]byte, len(b))
	copy(out, b)
	return out[:len(out):len(out)]
}

// c22Roomy returns a copy of b with spare capacity filled with poison.
func c22Roomy(b []byte) []byte {
	buf := make([]byte, len(b)+16)
	copy(buf, b)
	for i := len(b); i < len(buf); i++ {
		buf[i] = 0xa5
	}
	return buf[:len(b)]
}

func c22Payload(n int, fill byte) []byte {
	p := make([]byte, n)
	for i := range p {
		p[i] = byte(i*31) ^ fill
	}
	return p
}

// c22CheckValue: encode direction for one value.
func c22CheckValue(v uint64, prefix, suffix []byte) error {
	want := c22RefSize(v)
	if got := SizeVarint(v); got != want {
		return fmt.Errorf("SizeVarint(%d)=%d, RFC 9000 minimal size %d", v, got, want)
	}
	wantEnc := c22RefEncode(v, want)
	for _, dst := range [][]byte{c22Exact(prefix), c22Roomy(prefix), nil} {
		plen := len(dst)
		out := AppendVarint(dst, v)
		if len(out) < plen || !bytes.Equal(out[:plen], prefix[:plen]) {
			return fmt.Errorf("AppendVarint(%x, %d) changed the existing bytes: %x", prefix, v, out)
		}
		enc := out[plen:]
		if len(enc) != want {
			return fmt.Errorf("AppendVarint(%d) produced %d bytes (%x), SizeVarint/minimal size is %d", v, len(enc), enc, want)
		}
		if !bytes.Equal(enc, wantEnc) {
			return fmt.Errorf("AppendVarint(%d)=%x, RFC 9000 shortest encoding is %x", v, enc, wantEnc)
		}
	}
	in := append(append([]byte{}, wantEnc...), suffix...)
	enc := AppendVarint(nil, v)
	in2 := append(append([]byte{}, enc...), suffix...)
	for _, x := range [][]byte{c22Exact(in2), c22Roomy(in2), c22Exact(in)} {
		keep := append([]byte{}, x...)
		got, n := ConsumeVarint(x)
		if got != v || n != want {
			return fmt.Errorf("ConsumeVarint(%x)=(%d,%d), want (%d,%d)", x, got, n, v, want)
		}
		if !bytes.Equal(keep, x) {
			return fmt.Errorf("ConsumeVarint modified its input %x -> %x", keep, x)
		}
	}
	// every strict truncation of the encoding is an error
	for k := 0; k < len(enc); k++ {
		for _, x := range [][]byte{c22Exact(enc[:k]), c22Roomy(enc)[:k]} {
			if got, n := ConsumeVarint(x); n >= 0 {
				return fmt.Errorf("ConsumeVarint(%x) (truncation of %x to %d bytes) = (%d,%d), want an error", x, enc, k, got, n)
			}
		}
	}
	return nil
}

// c22CheckRaw: decode direction for an arbitrary byte string.
func c22CheckRaw(raw []byte) error {
	wv, wn, wok := c22RefDecode(raw)
	var v uint64
	var n int
	for i, x := range [][]byte{c22Exact(raw), c22Roomy(raw)} {
		v, n = ConsumeVarint(x)
		if !bytes.Equal(x, raw) {
			return fmt.Errorf("ConsumeVarint modified its input %x -> %x", raw, x)
		}
		if !wok {
			if n >= 0 {
				return fmt.Errorf("ConsumeVarint(%x) [variant %d] = (%d,%d): input is shorter than the %d bytes its first byte announces, want an error", raw, i, v, n, wn)
			}
			continue
		}
		if n != wn || v != wv {
			return fmt.Errorf("ConsumeVarint(%x) [variant %d] = (%d,%d), want (%d,%d)", raw, i, v, n, wv, wn)
		}
		if n > len(raw) {
			return fmt.Errorf("ConsumeVarint(%x) consumed %d > %d bytes", raw, n, len(raw))
		}
		if v > c22Max {
			return fmt.Errorf("ConsumeVarint(%x) value %d exceeds 2^62-1", raw, v)
		}
	}
	if !wok {
		return nil
	}
	// the result depends only on the n bytes consumed
	if v2, n2 := ConsumeVarint(c22Exact(raw[:n])); v2 != v || n2 != n {
		return fmt.Errorf("ConsumeVarint(%x)=(%d,%d) but on its first %d bytes alone (%d,%d)", raw, v, n, n, v2, n2)
	}
	re := AppendVarint(nil, v)
	if c22RefSize(v) == n {
		if !bytes.Equal(re, raw[:n]) {
			return fmt.Errorf("re-encoding %d decoded from minimal %x gives %x", v, raw[:n], re)
		}
	} else {
		if len(re) >= n {
			return fmt.Errorf("re-encoding %d decoded from non-minimal %x gives %x (not shorter)", v, raw[:n], re)
		}
		if v2, n2 := ConsumeVarint(re); v2 != v || n2 != len(re) {
			return fmt.Errorf("re-encoding %d gives %x which decodes to (%d,%d)", v, re, v2, n2)
		}
	}
	return nil
}

// c22CheckRawBytes: decode direction of the length-prefixed helpers.
func c22CheckRawBytes(raw []byte) error {
	// uint8 length prefix
	{
		got, n := ConsumeUint8Bytes(c22Exact(raw))
		if len(raw) == 0 || int(raw[0]) > len(raw)-1 {
			if n >= 0 {
				return fmt.Errorf("ConsumeUint8Bytes(%x)=(%x,%d), want an error (declared length exceeds input)", raw, got, n)
			}
		} else {
			l := int(raw[0])
			if n != 1+l || !bytes.Equal(got, raw[1:1+l]) {
				return fmt.Errorf("ConsumeUint8Bytes(%x)=(%x,%d), want (%x,%d)", raw, got, n, raw[1:1+l], 1+l)
			}
		}
	}
	// varint length prefix
	{
		got, n := ConsumeVarintBytes(c22Exact(raw))
		wl, wn, wok := c22RefDecode(raw)
		if !wok || wl > uint64(len(raw)-wn) {
			if n >= 0 {
				return fmt.Errorf("ConsumeVarintBytes(%x)=(%x,%d), want an error (truncated)", raw, got, n)
			}
		} else {
			l := int(wl)
			if n != wn+l || !bytes.Equal(got, raw[wn:wn+l]) {
				return fmt.Errorf("ConsumeVarintBytes(%x)=(%x,%d), want (%x,%d)", raw, got, n, raw[wn:wn+l], wn+l)
			}
		}
	}
	return nil
}

func c22TruncPoints(n int) []int {
	if n <= 600 {
		out := make([]int, n)
		for i := range out {
			out[i] = i
		}
		return out
	}
	out := []int{0, 1, 2, 3, 4, 5, 7, 8, 9, 63, 64, 65, 66, 255, 256, 257, n / 2, n - 3, n - 2, n - 1}
	for k := 300; k < n; k += 997 {
		out = append(out, k)
	}
	return out
}

// c22CheckBytes: encode direction of the length-prefixed helpers.
func c22CheckBytes(plen int, fill byte, prefix, suffix []byte, r *vp.Rec) error {
	payload := c22Payload(plen, fill)
	// --- uint8 prefix
	var out []byte
	panicked := func() (p bool) {
		defer func() {
			if recover() != nil {
				p = true
			}
		}()
		out = AppendUint8Bytes(c22Exact(prefix), payload)
		return false
	}()
	if plen > 0xff {
		// A length that does not fit the prefix cannot round-trip; refusing (panic) is
		// fine, silently emitting something is not.
		if !panicked {
			return fmt.Errorf("AppendUint8Bytes accepted a %d-byte value and produced %d bytes", plen, len(out)-len(prefix))
		}
		r.Class("u8bytes-oversize-refused")
	} else {
		if panicked {
			return fmt.Errorf("AppendUint8Bytes panicked for a %d-byte value", plen)
		}
		if len(out) != len(prefix)+1+plen || !bytes.Equal(out[:len(prefix)], prefix) {
			return fmt.Errorf("AppendUint8Bytes(prefix %x, %d bytes) -> %d bytes / prefix changed", prefix, plen, len(out))
		}
		enc := out[len(prefix):]
		in := c22Exact(append(append([]byte{}, enc...), suffix...))
		got, n := ConsumeUint8Bytes(in)
		if n != 1+plen || !bytes.Equal(got, payload) {
			return fmt.Errorf("ConsumeUint8Bytes(AppendUint8Bytes(%d bytes)+suffix) = (%d bytes, n=%d), want (%d bytes, n=%d)", plen, len(got), n, plen, 1+plen)
		}
		for _, k := range c22TruncPoints(len(enc)) {
			if got, n := ConsumeUint8Bytes(c22Exact(enc[:k])); n >= 0 {
				return fmt.Errorf("ConsumeUint8Bytes on %d of %d encoded bytes = (%d bytes, n=%d), want an error", k, len(enc), len(got), n)
			}
		}
	}
	// --- varint prefix
	out = AppendVarintBytes(c22Exact(prefix), payload)
	hdr := c22RefSize(uint64(plen))
	if len(out) != len(prefix)+hdr+plen || !bytes.Equal(out[:len(prefix)], prefix) {
		return fmt.Errorf("AppendVarintBytes(prefix %x, %d bytes) -> %d bytes, want %d", prefix, plen, len(out)-len(prefix), hdr+plen)
	}
	enc := out[len(prefix):]
	if !bytes.Equal(enc[:hdr], c22RefEncode(uint64(plen), hdr)) {
		return fmt.Errorf("AppendVarintBytes length prefix %x, want %x", enc[:hdr], c22RefEncode(uint64(plen), hdr))
	}
	in := c22Exact(append(append([]byte{}, enc...), suffix...))
	got, n := ConsumeVarintBytes(in)
	if n != hdr+plen || !bytes.Equal(got, payload) {
		return fmt.Errorf("ConsumeVarintBytes(AppendVarintBytes(%d bytes)+suffix) = (%d bytes, n=%d), want (%d bytes, n=%d)", plen, len(got), n, plen, hdr+plen)
	}
	for _, k := range c22TruncPoints(len(enc)) {
		if got, n := ConsumeVarintBytes(c22Exact(enc[:k])); n >= 0 {
			return fmt.Errorf("ConsumeVarintBytes on %d of %d encoded bytes = (%d bytes, n=%d), want an error", k, len(enc), len(got), n)
		}
	}
	return nil
}

type c22Case struct {
	Kind   string `json:"kind"` // value | raw | bytes
	V      uint64 `json:"v"`
	Prefix []byte `json:"prefix"`
	Suffix []byte `json:"suffix"`
	Raw    []byte `json:"raw"`
	PLen   int    `json:"plen"`
	PFill  byte   `json:"pfill"`
}

func c22ValueGen() *rapid.Generator[uint64] {
	bounds := []uint64{0, 63, 64, 16383, 16384, 1<<30 - 1, 1 << 30, c22Max, 255, 256, 65535, 65536, 1<<32 - 1, 1 << 32}
	classLo := []uint64{0, 64, 16384, 1 << 30}
	classHi := []uint64{63, 16383, 1<<30 - 1, c22Max}
	return rapid.Custom(func(t *rapid.T) uint64 {
		switch rapid.IntRange(0, 4).Draw(t, "how") {
		case 0:
			return vp.BiasedUint64(c22Max, bounds...).Draw(t, "bv")
		case 1:
			k := rapid.IntRange(0, 62).Draw(t, "pow")
			v := uint64(1) << k
			switch rapid.IntRange(-1, 1).Draw(t, "d") {
			case -1:
				v--
			case 1:
				v++
			}
			if v > c22Max {
				v = c22Max
			}
			return v
		case 2, 3:
			c := rapid.IntRange(0, 3).Draw(t, "class")
			return rapid.Uint64Range(classLo[c], classHi[c]).Draw(t, "cv")
		default:
			return rapid.Uint64Range(0, c22Max).Draw(t, "uv")
		}
	})
}

func c22Gen(t *rapid.T) c22Case {
	var c c22Case
	switch rapid.IntRange(0, 9).Draw(t, "kind") {
	case 0, 1, 2, 3, 4:
		c.Kind = "value"
		c.V = c22ValueGen().Draw(t, "v")
		c.Prefix = vp.Bytes(0, 4).Draw(t, "prefix")
		c.Suffix = vp.Bytes(0, 9).Draw(t, "suffix")
	case 5, 6, 7:
		c.Kind = "raw"
		switch rapid.IntRange(0, 3).Draw(t, "rawhow") {
		case 0:
			c.Raw = vp.Bytes(0, 12).Draw(t, "raw")
		case 1:
			// a (possibly non-minimal) encoding, cut or extended
			v := c22ValueGen().Draw(t, "v")
			sizes := []int{}
			for _, s := range []int{1, 2, 4, 8} {
				if s >= c22RefSize(v) {
					sizes = append(sizes, s)
				}
			}
			enc := c22RefEncode(v, rapid.SampledFrom(sizes).Draw(t, "size"))
			enc = append(enc, vp.Bytes(0, 3).Draw(t, "tail")...)
			cut := rapid.IntRange(0, len(enc)).Draw(t, "cut")
			c.Raw = enc[:cut]
		case 2:
			// first byte picks the class, then 0..9 bytes
			b0 := rapid.Byte().Draw(t, "b0")
			c.Raw = append([]byte{b0}, vp.Bytes(0, 9).Draw(t, "rest")...)
		default:
			// length-prefixed: declared length around the available length, or huge
			avail := rapid.IntRange(0, 80).Draw(t, "avail")
			var decl uint64
			if rapid.IntRange(0, 4).Draw(t, "huge") == 0 {
				decl = c22ValueGen().Draw(t, "decl")
			} else {
				d := avail + rapid.IntRange(-2, 2).Draw(t, "dd")
				if d < 0 {
					d = 0
				}
				decl = uint64(d)
			}
			var hdr []byte
			if rapid.Bool().Draw(t, "u8hdr") {
				hdr = []byte{byte(decl)}
			} else {
				sizes := []int{}
				for _, s := range []int{1, 2, 4, 8} {
					if s >= c22RefSize(decl) {
						sizes = append(sizes, s)
					}
				}
				hdr = c22RefEncode(decl, rapid.SampledFrom(sizes).Draw(t, "hsize"))
			}
			c.Raw = append(hdr, c22Payload(avail, rapid.Byte().Draw(t, "fill"))...)
		}
	default:
		c.Kind = "bytes"
		c.PLen = vp.BiasedInt(0, 17000, 0, 1, 63, 64, 255, 256, 16383, 16384).Draw(t, "plen")
		if rapid.IntRange(0, 3).Draw(t, "small") > 0 && c.PLen > 300 {
			c.PLen %= 300
		}
		c.PFill = rapid.Byte().Draw(t, "pfill")
		c.Prefix = vp.Bytes(0, 4).Draw(t, "prefix")
		c.Suffix = vp.Bytes(0, 9).Draw(t, "suffix")
	}
	return c
}

func c22Prop(c c22Case, r *vp.Rec) error {
	switch c.Kind {
	case "value":
		if c.V > c22Max {
			r.Discard("value >= 2^62")
			return nil
		}
		sz := c22RefSize(c.V)
		r.Classf("value-size-%d", sz)
		if sz >= 2 {
			r.NonTrivial()
		}
		if c.V&(c.V-1) == 0 || c.V&(c.V+1) == 0 {
			r.Class("value-at-power-of-two-edge")
		}
		return c22CheckValue(c.V, c.Prefix, c.Suffix)
	case "raw":
		_, n, ok := c22RefDecode(c.Raw)
		switch {
		case len(c.Raw) == 0:
			r.Class("raw-empty")
		case !ok:
			r.Classf("raw-truncated-%d-of-%d", len(c.Raw), n)
			r.NonTrivial()
		default:
			v, _, _ := c22RefDecode(c.Raw)
			if c22RefSize(v) == n {
				r.Classf("raw-minimal-%d", n)
			} else {
				r.Classf("raw-nonminimal-%d", n)
			}
			if n >= 2 {
				r.NonTrivial()
			}
		}
		if err := c22CheckRaw(c.Raw); err != nil {
			return err
		}
		return c22CheckRawBytes(c.Raw)
	case "bytes":
		if c.PLen < 0 || c.PLen > 1<<20 {
			r.Discard("payload length out of harness range")
			return nil
		}
		r.Classf("bytes-lenprefix-%d", c22RefSize(uint64(c.PLen)))
		if c.PLen >= 64 {
			r.NonTrivial()
		}
		return c22CheckBytes(c.PLen, c.PFill, c.Prefix, c.Suffix, r)
	}
	r.Discard("unknown kind")
	return nil
}

// c22Safe turns a panic of the code under test into an error (enumerations do not
// run under vp.Run's recover).
func c22Safe(f func() error) (err error) {
	defer func() {
		if p := recover(); p != nil {
			err = fmt.Errorf("panic: %v", p)
		}
	}()
	return f()
}

func TestVP_C22(t *testing.T) {
	vp.Run(t, vp.Spec[c22Case]{ID: "C22", Gen: c22Gen, Prop: c22Prop})
}

// TestVP_C22_enum: the first 2^20 values (plus a per-shard block of 2^22 values in the thorough tier) and a band
// around every encoding-size boundary completely, and every two-byte prefix
// (65536) at every input length 1..9.
func TestVP_C22_enum(t *testing.T) {
	vp.RunEnum(t, "C22", "enum", false, func(e *vp.Enum) {
		limit := uint64(1) << 20
		// thorough tier: every shard additionally walks its own block of 2^22 values
		// above 2^20 (16 shards: everything below 2^26 + 2^20)
		var extLo, extHi uint64
		if vp.Thorough() {
			shard, _ := strconv.Atoi(os.Getenv("VP_SHARD"))
			extLo = limit + uint64(shard)<<22
			extHi = extLo + 1<<22
		}
		check := func(v uint64) bool {
			if err := c22Safe(func() error { return c22CheckValue(v, nil, nil) }); err != nil {
				e.Fail(c22Case{Kind: "value", V: v}, err)
				return false
			}
			sz := c22RefSize(v)
			e.Eval(sz >= 2, fmt.Sprintf("enum-value-size-%d", sz), func() any { return c22Case{Kind: "value", V: v} })
			return true
		}
		for v := uint64(0); v < limit; v++ {
			if !check(v) {
				return
			}
		}
		for v := extLo; v < extHi; v++ {
			if !check(v) {
				return
			}
		}
		for _, edge := range []uint64{1 << 30, 1 << 32, 1 << 62} {
			for v := edge - 4096; v < edge+4096 && v <= c22Max; v++ {
				if v < limit || (v >= extLo && v < extHi) {
					continue
				}
				if !check(v) {
					return
				}
			}
		}
		for k := 21; k < 62; k++ {
			for d := -2; d <= 2; d++ {
				v := uint64(int64(1)<<k + int64(d))
				if v < limit || (v >= extLo && v < extHi) || (v >= 1<<30-4096 && v < 1<<30+4096) || (v >= 1<<32-4096 && v < 1<<32+4096) || v >= 1<<62-4096 {
					continue
				}
				if !check(v) {
					return
				}
			}
		}
		fill := []byte{0x00, 0xff, 0x5a, 0x80, 0x01, 0x7f, 0xc3}
		for p := 0; p < 1<<16; p++ {
			full := append([]byte{byte(p >> 8), byte(p)}, fill...)
			for l := 1; l <= len(full); l++ {
				raw := full[:l]
				if err := c22Safe(func() error { return c22CheckRaw(raw) }); err != nil {
					e.Fail(c22Case{Kind: "raw", Raw: raw}, err)
					return
				}
				if err := c22Safe(func() error { return c22CheckRawBytes(raw) }); err != nil {
					e.Fail(c22Case{Kind: "raw", Raw: raw}, err)
					return
				}
				_, n, ok := c22RefDecode(raw)
				cls := fmt.Sprintf("enum-prefix-class-%d-ok", n)
				if !ok {
					cls = fmt.Sprintf("enum-prefix-class-%d-truncated", n)
				}
				e.Eval(!ok || n >= 2, cls, func() any { return c22Case{Kind: "raw", Raw: append([]byte{}, raw...)} })
			}
		}
		if extHi > extLo {
			e.Note(fmt.Sprintf("this shard also checked every value in [%d, %d)", extLo, extHi))
		}
		e.Note(fmt.Sprintf("values 0..%d, +-4096 around 2^30, 2^32 and below 2^62, 2^k+-2 for k=21..61: all checked; all 65536 two-byte prefixes at input lengths 1..9", limit-1))
	})
}
