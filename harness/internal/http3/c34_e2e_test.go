package http3

import (
	"bytes"
	"context"
	"errors"
	"fmt"
	"io"
	"net"
	"net/http"
	"os"
	"runtime"
	"sort"
	"strconv"
	"strings"
	"sync"
	"testing"
	"testing/synctest"
	"time"

	"golang.org/x/net/quic"
	"pgregory.net/rapid"
	"verif/vp"
)

// C34: an HTTP/3 request/response exchange is delivered faithfully end to end.
//
// Mode 0 and the "real peer" mismatch modes run the real server (server.serve) and
// the real client (transport.dial + clientConn.RoundTrip) inside a synctest bubble
// over an in-memory datagram network that drops, delays (reorders) and duplicates
// datagrams according to a generated schedule. The "raw peer" mismatch modes use
// the package's scripted QUIC peers to put a body on the wire whose length
// disagrees with its Content-Length, which the real writers refuse to do.

// ---------------------------------------------------------------------------
// case
// ---------------------------------------------------------------------------

type c34KV struct {
	K string   `json:"k"`
	V []string `json:"v"`
}

type c34Chunk struct {
	N     int  `json:"n"`
	Flush bool `json:"flush,omitempty"`
}

type c34Fault struct {
	Dir int `json:"dir"` // 0: sent by the server's endpoint, 1: sent by the client's endpoint
	Idx int `json:"idx"` // index of the datagram among those sent in that direction
	Act int `json:"act"` // 1 drop, 2 delay, 3 duplicate
	MS  int `json:"ms,omitempty"`
}

const (
	c34Normal          = iota
	c34RawReqShort     // raw client: request DATA shorter than content-length
	c34RawReqLong      // raw client: request DATA longer than content-length
	c34RawRespShort    // raw server: response DATA shorter than content-length
	c34RawRespLong     // raw server: response DATA longer than content-length
	c34HandlerShort    // real peers: handler declares Content-Length and writes less
	c34HandlerLong     // real peers: handler declares Content-Length and writes more
	c34ClientBodyShort // real peers: Request.ContentLength larger than what Body yields
	c34ClientBodyLong  // real peers: Request.ContentLength smaller than what Body yields
)

type c34Case struct {
	Mode  int `json:"mode"`
	Decl  int `json:"decl,omitempty"`  // mismatch modes: the declared Content-Length
	Delta int `json:"delta,omitempty"` // mismatch modes: how many octets the body is shorter/longer than Decl (>= 1)

	Method      string   `json:"method"`
	Path        string   `json:"path"`
	Query       string   `json:"query,omitempty"`
	ReqHdr      []c34KV  `json:"req_hdr,omitempty"`
	Cookies     []string `json:"cookies,omitempty"`
	BodyKind    int      `json:"body_kind"` // 0 nil, 1 http.NoBody, 2 reader
	ReqSeed     byte     `json:"req_seed"`
	ReqChunks   []int    `json:"req_chunks,omitempty"` // sizes returned by successive Body.Read calls
	ReqDecl     bool     `json:"req_decl,omitempty"`   // Request.ContentLength set to the true size
	EOFWithData bool     `json:"eof_with_data,omitempty"`
	ReqTrailers []c34KV  `json:"req_trailers,omitempty"`
	TrEarly     bool     `json:"tr_early,omitempty"` // trailer values already set before RoundTrip

	Order         int        `json:"order"` // 0 read the request, then reply; 1 reply header + first chunk + flush, read, rest
	SrvRead       int        `json:"srv_read"`
	Status        int        `json:"status"`
	RespHdr       []c34KV    `json:"resp_hdr,omitempty"`
	RespSeed      byte       `json:"resp_seed"`
	RespChunks    []c34Chunk `json:"resp_chunks,omitempty"`
	RespDecl      bool       `json:"resp_decl,omitempty"`
	ExplicitWH    bool       `json:"explicit_wh,omitempty"`    // call WriteHeader explicitly
	LateHdr       bool       `json:"late_hdr,omitempty"`       // after an explicit WriteHeader the handler changes its header map and the value slices in it
	RespTrailers  []c34KV    `json:"resp_trailers,omitempty"`  // announced in a Trailer header
	RespPTrailers []c34KV    `json:"resp_ptrailers,omitempty"` // http.TrailerPrefix
	CliRead       int        `json:"cli_read"`

	Faults []c34Fault `json:"faults,omitempty"`
	Chunks []int      `json:"chunks,omitempty"` // raw modes: write chunking
}

func c34Pattern(seed byte, n int) []byte {
	b := make([]byte, n)
	for i := range b {
		b[i] = seed + byte(i*31) + byte(i>>8)*7
	}
	return b
}

func c34Sum(xs []int) int {
	n := 0
	for _, x := range xs {
		n += x
	}
	return n
}

func (c c34Case) respLen() int {
	n := 0
	for _, ch := range c.RespChunks {
		n += ch.N
	}
	return n
}

// ---------------------------------------------------------------------------
// generator
// ---------------------------------------------------------------------------

func c34Pick(t *rapid.T, label string, n int) int {
	return int(rapid.Uint16().Draw(t, label)) % n
}

var (
	c34ReqNames  = []string{"Accept", "Accept-Language", "Authorization", "Cache-Control", "Content-Type", "If-None-Match", "Referer", "X-Forwarded-For", "Via", "X-Custom-1", "X-Req-Id", "Priority", "Origin"}
	c34RespNames = []string{"Content-Type", "Cache-Control", "Etag", "Location", "Set-Cookie", "Vary", "Server", "Last-Modified", "X-Resp-1", "Date", "Link", "Age", "Content-Language"}
	c34TrNames   = []string{"X-Checksum", "Grpc-Status", "Grpc-Message", "Server-Timing", "X-Tr-1"}
	c34ValRunes  = []rune(" !\"#$%&'()*+,-./0123456789:;<=>?@ABCXYZ[\\]^_`abcxyz{|}~aeiou étß日")
	c34Sizes     = []int{0, 1, 2, 100, 511, 512, 513, 1024, 1200, 5000, 16384, 16385, 65536, 70000, 70000, 100000, 100000}
	c34Paths     = []string{"/", "/a", "/a/b/c", "/index.html", "/a%20b", "/~user/x.y", "/a//b", "/a/./b", "/%E6%97%A5", "/a;p=1", "/a:b@c", "*"}
	c34Queries   = []string{"", "", "a=1", "a=1&b=2", "q=%20+x", "x", "a=%2F&b=%3f", "="}
	c34Methods   = []string{"GET", "GET", "POST", "POST", "PUT", "PATCH", "DELETE", "OPTIONS", "HEAD", "PROPFIND"}
)

func c34GenValue(t *rapid.T) string {
	s := rapid.StringOfN(rapid.RuneFrom(c34ValRunes), 0, 30, -1).Draw(t, "val")
	if c34Pick(t, "longValQ", 12) == 0 {
		s = strings.Repeat(s+"x", 1+c34Pick(t, "rep", 200))
	}
	return strings.Trim(s, " \t")
}

func c34GenKVs(t *rapid.T, label string, pool []string, maxN int, multi bool) []c34KV {
	n := rapid.IntRange(0, maxN).Draw(t, label+"N")
	seen := map[string]bool{}
	var out []c34KV
	for i := 0; i < n; i++ {
		k := pool[c34Pick(t, label+"K", len(pool))]
		if seen[k] {
			continue
		}
		seen[k] = true
		nv := 1
		if multi && c34Pick(t, label+"multi", 4) == 0 {
			nv = 2 + c34Pick(t, label+"nv", 2)
		}
		var vs []string
		for j := 0; j < nv; j++ {
			vs = append(vs, c34GenValue(t))
		}
		out = append(out, c34KV{K: k, V: vs})
	}
	return out
}

func c34GenChunks(t *rapid.T, label string, total int) []int {
	if total == 0 {
		return nil
	}
	var out []int
	rest := total
	for rest > 0 && len(out) < 8 {
		n := []int{1, 2, 100, 511, 512, 513, 4096, 16384, 32768, 1 << 20}[c34Pick(t, label, 10)]
		if n > rest {
			n = rest
		}
		out = append(out, n)
		rest -= n
	}
	if rest > 0 {
		out = append(out, rest)
	}
	return out
}

func c34GenFaults(t *rapid.T) []c34Fault {
	if c34Pick(t, "faultQ", 3) == 0 {
		return nil
	}
	fs := rapid.SliceOfN(rapid.Custom(func(t *rapid.T) c34Fault {
		f := c34Fault{Dir: c34Pick(t, "dir", 2), Act: 1 + c34Pick(t, "act", 3)}
		if c34Pick(t, "idxEarly", 2) == 0 {
			f.Idx = c34Pick(t, "idxE", 12)
		} else {
			f.Idx = c34Pick(t, "idx", 150)
		}
		if f.Act == 2 {
			f.MS = []int{1, 5, 20, 50, 120, 400}[c34Pick(t, "ms", 6)]
		}
		return f
	}), 1, 14).Draw(t, "faults")
	sort.SliceStable(fs, func(i, j int) bool {
		if fs[i].Dir != fs[j].Dir {
			return fs[i].Dir < fs[j].Dir
		}
		return fs[i].Idx < fs[j].Idx
	})
	// one fault per datagram; never three consecutive datagrams of one direction dropped;
	// at most two drops among the first ten datagrams of a direction (the QUIC handshake
	// gives up after 10 s, and every loss there costs a doubled probe timeout)
	var out []c34Fault
	var early [2]int
	for _, f := range fs {
		if f.Act == 1 && f.Idx < 10 {
			if early[f.Dir] >= 2 {
				continue
			}
			early[f.Dir]++
		}
		if n := len(out); n > 0 && out[n-1].Dir == f.Dir && out[n-1].Idx == f.Idx {
			continue
		}
		if n := len(out); f.Act == 1 && n > 1 && out[n-1].Dir == f.Dir && out[n-2].Dir == f.Dir && out[n-1].Act == 1 && out[n-2].Act == 1 && out[n-1].Idx == f.Idx-1 && out[n-2].Idx == f.Idx-2 {
			continue
		}
		out = append(out, f)
	}
	return out
}

func c34Gen(t *rapid.T) c34Case {
	var c c34Case
	c.Mode = []int{0, 0, 0, 0, 0, 0, 0, 0, 1, 2, 3, 4, 5, 6, 7, 8}[c34Pick(t, "mode", 16)]
	c.Method = c34Methods[c34Pick(t, "method", len(c34Methods))]
	c.Path = c34Paths[c34Pick(t, "path", len(c34Paths))]
	if c.Path == "*" && c.Method != "OPTIONS" {
		c.Path = "/"
	}
	if c.Path != "*" {
		c.Query = c34Queries[c34Pick(t, "query", len(c34Queries))]
	}
	c.ReqHdr = c34GenKVs(t, "reqHdr", c34ReqNames, 5, true)
	if c34Pick(t, "cookieQ", 4) == 0 {
		c.Cookies = [][]string{{"a=1"}, {"a=1; b=2"}, {"a=1; b=2", "c=3"}, {"a=1;b=2;  c=3"}}[c34Pick(t, "cookies", 4)]
	}
	c.ReqSeed, c.RespSeed = rapid.Byte().Draw(t, "reqSeed"), rapid.Byte().Draw(t, "respSeed")
	c.BodyKind = []int{0, 1, 2, 2, 2}[c34Pick(t, "bodyKind", 5)]
	if c.BodyKind == 2 {
		total := c34Sizes[c34Pick(t, "reqSize", len(c34Sizes))]
		if vp.Thorough() && total == 100000 && c34Pick(t, "bigQ", 3) == 0 {
			total = 400000
		}
		c.ReqChunks = c34GenChunks(t, "reqChunk", total)
		c.ReqDecl = total > 0 && rapid.Bool().Draw(t, "reqDecl")
		c.EOFWithData = rapid.Bool().Draw(t, "eofWithData")
	}
	if c34Pick(t, "reqTrQ", 3) == 0 {
		c.ReqTrailers = c34GenKVs(t, "reqTr", c34TrNames, 3, true)
		c.TrEarly = rapid.Bool().Draw(t, "trEarly")
	}
	c.Order = c34Pick(t, "order", 2)
	c.SrvRead = []int{1, 7, 512, 4096, 32768}[c34Pick(t, "srvRead", 5)]
	c.CliRead = []int{1, 7, 512, 4096, 32768}[c34Pick(t, "cliRead", 5)]
	c.Status = []int{200, 200, 200, 201, 203, 404, 418, 500, 204, 304}[c34Pick(t, "status", 10)]
	c.RespHdr = c34GenKVs(t, "respHdr", c34RespNames, 5, true)
	{
		total := c34Sizes[c34Pick(t, "respSize", len(c34Sizes))]
		if vp.Thorough() && total == 100000 && c34Pick(t, "bigRQ", 3) == 0 {
			total = 400000
		}
		for _, n := range c34GenChunks(t, "respChunk", total) {
			c.RespChunks = append(c.RespChunks, c34Chunk{N: n, Flush: c34Pick(t, "flush", 3) == 0})
		}
		c.RespDecl = total > 0 && c.Status != 204 && rapid.Bool().Draw(t, "respDecl")
	}
	c.ExplicitWH = rapid.Bool().Draw(t, "explicitWH")
	c.LateHdr = c34Pick(t, "lateHdr", 3) == 0
	if c34Pick(t, "respTrQ", 3) == 0 {
		c.RespTrailers = c34GenKVs(t, "respTr", c34TrNames[:3], 2, true)
		c.RespPTrailers = c34GenKVs(t, "respPTr", c34TrNames[3:], 2, true)
	}
	c.Faults = c34GenFaults(t)

	if c.Mode != c34Normal {
		c.Decl = []int{0, 1, 2, 5, 100, 512, 513, 5000, 20000}[c34Pick(t, "decl", 9)]
		c.Delta = []int{1, 1, 2, 7, 600, 5000}[c34Pick(t, "delta", 6)]
		c.Chunks = rapid.SliceOfN(rapid.IntRange(1, 3000), 0, 4).Draw(t, "chunks")
		c.ReqTrailers, c.RespTrailers, c.RespPTrailers = nil, nil, nil
		switch c.Mode {
		case c34RawReqShort, c34RawRespShort, c34HandlerShort, c34ClientBodyShort:
			if c.Decl == 0 {
				c.Decl = 3
			}
			if c.Delta > c.Decl {
				c.Delta = c.Decl
			}
		}
		switch c.Mode {
		case c34HandlerShort, c34HandlerLong:
			c.Status = 200
			if c.Method == "HEAD" {
				c.Method = "GET"
			}
			n := c.Decl - c.Delta
			if c.Mode == c34HandlerLong {
				n = c.Decl + c.Delta
			}
			c.RespChunks = nil
			for _, k := range c34GenChunks(t, "mmRespChunk", n) {
				c.RespChunks = append(c.RespChunks, c34Chunk{N: k, Flush: c34Pick(t, "mmFlush", 3) == 0})
			}
			c.RespDecl = false
		case c34ClientBodyShort, c34ClientBodyLong:
			c.Method = "POST"
			c.BodyKind = 2
			n := c.Decl - c.Delta
			if c.Mode == c34ClientBodyLong {
				n = c.Decl + c.Delta
				if c.Decl == 0 {
					c.Decl = 1 // Request.ContentLength 0 with a body means "unknown"
					n = 1 + c.Delta
				}
			}
			c.ReqChunks = c34GenChunks(t, "mmReqChunk", n)
			c.ReqDecl = false
			c.Order = 0
		default:
			c.Faults = nil
		}
	}
	return c
}

// ---------------------------------------------------------------------------
// faulty in-memory network
// ---------------------------------------------------------------------------

type c34Net struct {
	tn     testNet
	mu     sync.Mutex
	faults map[[2]int]c34Fault
	closed bool // shutting down: no new delayed deliveries
	count  [2]int
	stats  [4]int         // delivered, dropped, delayed, duplicated
	wg     sync.WaitGroup // delayed deliveries in flight
}

type c34Conn struct {
	*testPacketConn
	n   *c34Net
	dir int
}

func (c *c34Conn) WriteTo(p []byte, dst net.Addr) (int, error) {
	c.n.mu.Lock()
	idx := c.n.count[c.dir]
	c.n.count[c.dir]++
	f, ok := c.n.faults[[2]int{c.dir, idx}]
	if !ok {
		f.Act = 0
	}
	if c.n.closed && f.Act == 2 {
		f.Act = 0
	}
	c.n.stats[f.Act]++
	c.n.mu.Unlock()
	switch f.Act {
	case 1:
		return len(p), nil
	case 2:
		cp := bytes.Clone(p)
		c.n.wg.Add(1)
		go func() {
			defer c.n.wg.Done()
			time.Sleep(time.Duration(f.MS) * time.Millisecond)
			c.testPacketConn.WriteTo(cp, dst)
		}()
		return len(p), nil
	case 3:
		c.testPacketConn.WriteTo(p, dst)
	}
	return c.testPacketConn.WriteTo(p, dst)
}

func (n *c34Net) endpoint(dir int, config *quic.Config) (*quic.Endpoint, error) {
	return quic.NewEndpoint(&c34Conn{testPacketConn: n.tn.newPacketConn(), n: n, dir: dir}, config)
}

// ---------------------------------------------------------------------------
// real server + real client exchange
// ---------------------------------------------------------------------------

type c34ReqBody struct {
	data        []byte
	chunks      []int
	i           int
	eofWithData bool
	atEOF       func()
	wait        func() // called before every Read but the first
	reads       int
	closed      bool
}

func (b *c34ReqBody) Read(p []byte) (int, error) {
	if b.reads++; b.reads > 1 && b.wait != nil {
		b.wait()
	}
	if len(b.data) == 0 {
		if b.atEOF != nil {
			b.atEOF()
			b.atEOF = nil
		}
		return 0, io.EOF
	}
	n := len(b.data)
	if b.i < len(b.chunks) && b.chunks[b.i] < n {
		n = b.chunks[b.i]
	}
	if n > len(p) {
		n = len(p)
		if b.i < len(b.chunks) {
			b.chunks[b.i] -= n
		}
	} else {
		b.i++
	}
	copy(p, b.data[:n])
	b.data = b.data[n:]
	if len(b.data) == 0 && b.eofWithData {
		if b.atEOF != nil {
			b.atEOF()
			b.atEOF = nil
		}
		return n, io.EOF
	}
	return n, nil
}

func (b *c34ReqBody) Close() error { b.closed = true; return nil }

type c34Seen struct {
	called     bool
	method     string
	path       string
	rawQuery   string
	host       string
	proto      int
	header     http.Header
	declared   http.Header // r.Trailer before the body was read
	clen       int64
	body       vpReadResult
	trailer    http.Header
	writeErrs  []error
	wroteTotal int
	done       bool
	doneCh     chan struct{}
	calledCh   chan struct{}
}

func c34Clone(h http.Header) http.Header {
	o := http.Header{}
	for k, v := range h {
		o[k] = append([]string(nil), v...)
	}
	return o
}

func c34Handler(c c34Case, seen *c34Seen) http.Handler {
	return http.HandlerFunc(func(w http.ResponseWriter, r *http.Request) {
		seen.called = true
		close(seen.calledCh)
		seen.method, seen.path, seen.rawQuery, seen.host, seen.proto = r.Method, r.URL.Path, r.URL.RawQuery, r.Host, r.ProtoMajor
		if r.URL.Path == "" && r.RequestURI == "*" {
			seen.path = "*"
		}
		seen.header = c34Clone(r.Header)
		seen.declared = c34Clone(r.Trailer)
		seen.clen = r.ContentLength
		readReq := func() {
			seen.body = vpReadBody(r.Body, []int{c.SrvRead})
			seen.trailer = c34Clone(r.Trailer)
		}
		h := w.Header()
		for _, kv := range c.RespHdr {
			for _, v := range kv.V {
				h.Add(kv.K, v)
			}
		}
		respLen := c.respLen()
		if c.RespDecl {
			h.Set("Content-Length", strconv.Itoa(respLen))
		}
		if c.Mode == c34HandlerShort || c.Mode == c34HandlerLong {
			h.Set("Content-Length", strconv.Itoa(c.Decl))
		}
		if len(c.RespTrailers) > 0 {
			var names []string
			for _, kv := range c.RespTrailers {
				names = append(names, kv.K)
			}
			h.Set("Trailer", strings.Join(names, ", "))
		}
		if c.Order == 0 {
			readReq()
		}
		wroteHeader := false
		if c.ExplicitWH || len(c.RespChunks) == 0 {
			w.WriteHeader(c.Status)
			wroteHeader = true
		} else if c.Status != 200 {
			w.WriteHeader(c.Status)
			wroteHeader = true
		}
		if wroteHeader && c.LateHdr {
			// the response header is what the map held when WriteHeader was called
			// (net/http.ResponseWriter: "Changing the header map after a call to
			// WriteHeader has no effect"), also for a handler that keeps using the
			// value slices it put there
			for _, kv := range c.RespHdr {
				if vs := h[http.CanonicalHeaderKey(kv.K)]; len(vs) > 0 {
					vs[len(vs)-1] = "changed-after-writeheader"
				}
			}
			h.Set("X-Late", "1")
		}
		body := c34Pattern(c.RespSeed, respLen)
		for i, ch := range c.RespChunks {
			n, err := w.Write(body[:ch.N])
			seen.wroteTotal += n
			if err != nil {
				seen.writeErrs = append(seen.writeErrs, err)
			}
			body = body[ch.N:]
			if ch.Flush || (c.Order == 1 && i == 0) {
				w.(http.Flusher).Flush()
			}
			if c.Order == 1 && i == 0 {
				readReq()
			}
		}
		if c.Order == 1 && len(c.RespChunks) == 0 {
			w.(http.Flusher).Flush()
			readReq()
		}
		for _, kv := range c.RespTrailers {
			for _, v := range kv.V {
				h.Add(kv.K, v)
			}
		}
		for _, kv := range c.RespPTrailers {
			for _, v := range kv.V {
				h.Add(http.TrailerPrefix+kv.K, v)
			}
		}
		seen.done = true
		close(seen.doneCh)
	})
}

type c34Got struct {
	err     error
	status  int
	header  http.Header
	clen    int64
	body    vpReadResult
	trailer http.Header
	proto   int
	done    bool
	panicv  any
}

func c34KVHeader(kvs []c34KV) http.Header {
	h := http.Header{}
	for _, kv := range kvs {
		h[kv.K] = append(h[kv.K], kv.V...)
	}
	return h
}

func c34NoBodyStatus(s int) bool { return s == 204 || s == 304 }

func c34DiffHeader(what string, got, want http.Header, allowedExtra map[string]bool) error {
	for k, wv := range want {
		gv := got[k]
		if len(gv) != len(wv) {
			return fmt.Errorf("%s: field %q = %q, want %q", what, k, gv, wv)
		}
		for i := range wv {
			if gv[i] != wv[i] {
				return fmt.Errorf("%s: field %q = %q, want %q", what, k, gv, wv)
			}
		}
	}
	for k, gv := range got {
		if _, ok := want[k]; !ok && !allowedExtra[k] {
			return fmt.Errorf("%s: unexpected field %q = %q", what, k, gv)
		}
	}
	return nil
}

func c34NonEmpty(h http.Header) http.Header {
	o := http.Header{}
	for k, v := range h {
		if len(v) > 0 {
			o[k] = v
		}
	}
	return o
}

func c34RunReal(t *testing.T, c c34Case, r *vp.Rec) error {
	n := &c34Net{faults: map[[2]int]c34Fault{}}
	for _, f := range c.Faults {
		n.faults[[2]int{f.Dir, f.Idx}] = f
	}
	start := time.Now()
	seen := &c34Seen{doneCh: make(chan struct{}), calledCh: make(chan struct{})}
	srv := &server{config: &quic.Config{TLSConfig: testTLSConfig}, handler: c34Handler(c, seen)}
	se, err := n.endpoint(0, srv.config)
	if err != nil {
		return fmt.Errorf("harness: server endpoint: %v", err)
	}
	serveDone := make(chan struct{})
	go func() { srv.serve(se); close(serveDone) }()
	ce, err := n.endpoint(1, &quic.Config{TLSConfig: testTLSConfig})
	if err != nil {
		se.Close(canceledCtx)
		<-serveDone
		return fmt.Errorf("harness: client endpoint: %v", err)
	}
	tr := &transport{
		endpoint:    ce,
		config:      &quic.Config{TLSConfig: testTLSConfig},
		tr1:         &http.Transport{DisableCompression: true},
		activeConns: make(map[*clientConn]struct{}),
	}
	closeAll := func(cc *clientConn) {
		n.mu.Lock()
		n.closed = true
		n.mu.Unlock()
		if cc != nil {
			cc.qconn.Abort(nil)
		}
		ce.Close(canceledCtx)
		se.Close(canceledCtx)
		<-serveDone
		n.wg.Wait() // fake time stops when the bubble's root goroutine returns
	}
	cc, err := tr.dial(context.Background(), se.LocalAddr().String(), nil)
	if err != nil {
		closeAll(nil)
		r.Discard("dial failed under the fault schedule: " + err.Error())
		return nil
	}
	defer closeAll(cc)

	// request
	u := "https://example.tld" + c.Path
	if c.Path == "*" {
		u = "https://example.tld"
	}
	if c.Query != "" {
		u += "?" + c.Query
	}
	var body io.ReadCloser
	reqBody := c34Pattern(c.ReqSeed, c34Sum(c.ReqChunks))
	var rb *c34ReqBody
	switch c.BodyKind {
	case 1:
		body = http.NoBody
	case 2:
		rb = &c34ReqBody{data: bytes.Clone(reqBody), chunks: append([]int(nil), c.ReqChunks...), eofWithData: c.EOFWithData}
		body = rb
	}
	req, err := http.NewRequest(c.Method, u, nil)
	if err != nil {
		return fmt.Errorf("harness: NewRequest(%q, %q): %v", c.Method, u, err)
	}
	if c.Path == "*" {
		req.URL.Path = "*"
	}
	req.Body = body
	req.ContentLength = 0
	if c.BodyKind == 2 {
		req.ContentLength = -1
		if c.ReqDecl {
			req.ContentLength = int64(len(reqBody))
		}
		if c.Mode == c34ClientBodyShort || c.Mode == c34ClientBodyLong {
			req.ContentLength = int64(c.Decl)
			// Let the part of the body that was accepted reach the handler before the
			// client notices the mismatch and resets the stream (otherwise the request
			// is usually cancelled before the server has seen its HEADERS frame).
			rb.wait = func() {
				select {
				case <-seen.calledCh:
				case <-time.After(5 * time.Second):
				}
			}
		}
	}
	for _, kv := range c.ReqHdr {
		req.Header[kv.K] = append([]string(nil), kv.V...)
	}
	if len(c.Cookies) > 0 {
		req.Header["Cookie"] = append([]string(nil), c.Cookies...)
	}
	if len(c.ReqTrailers) > 0 {
		req.Trailer = http.Header{}
		setTrailers := func() {
			for _, kv := range c.ReqTrailers {
				req.Trailer[kv.K] = append([]string(nil), kv.V...)
			}
		}
		if c.TrEarly || rb == nil {
			setTrailers()
		} else {
			for _, kv := range c.ReqTrailers {
				req.Trailer[kv.K] = nil
			}
			rb.atEOF = setTrailers
		}
	}

	got := &c34Got{}
	go func() {
		defer func() {
			if p := recover(); p != nil {
				got.panicv = p
			}
			got.done = true
		}()
		resp, err := cc.RoundTrip(req)
		if err != nil {
			got.err = err
			return
		}
		got.status, got.header, got.clen, got.proto = resp.StatusCode, c34Clone(resp.Header), resp.ContentLength, resp.ProtoMajor
		got.body = vpReadBody(resp.Body, []int{c.CliRead})
		got.trailer = c34Clone(resp.Trailer)
		// Closing Response.Body tells the client it is done with the exchange, which
		// cancels a request body upload still in progress (as in net/http); a bodyless
		// response (HEAD, Content-Length: 0) reaches EOF at once, so wait for the handler.
		select {
		case <-seen.doneCh:
		case <-time.After(90 * time.Second):
		}
		resp.Body.Close()
	}()
	// Let the exchange run; fake time advances through retransmission timers.
	for i := 0; i < 400 && !(got.done && (seen.done || !seen.called)); i++ {
		synctest.Wait()
		if got.done && (seen.done || !seen.called) {
			break
		}
		time.Sleep(250 * time.Millisecond)
	}
	synctest.Wait()
	for i, name := range []string{"delivered", "dropped", "delayed", "duplicated"} {
		if i > 0 && n.stats[i] > 0 {
			r.Class("net:" + name)
		}
	}
	if got.panicv != nil {
		return fmt.Errorf("client goroutine panicked: %v", got.panicv)
	}
	if !got.done {
		return fmt.Errorf("the client has not finished after 100 s of fake time (RoundTrip or body read blocked); handler called=%v done=%v", seen.called, seen.done)
	}
	if seen.called && !seen.done {
		return fmt.Errorf("the handler has not returned after 100 s of fake time (client error: %v)", got.err)
	}
	what := func(s string) string { return fmt.Sprintf("%s (net %v)", s, n.stats) }

	switch c.Mode {
	case c34HandlerShort:
		r.Class("mismatch:handler-writes-less-than-declared")
		r.NonTrivial()
		if got.err != nil {
			return nil // the exchange failed as a whole: reported
		}
		sent := c34Pattern(c.RespSeed, c.respLen())
		return c34JudgeMismatch(what("response body read by the client"), got.body, sent, c.Decl)
	case c34HandlerLong:
		r.Class("mismatch:handler-writes-more-than-declared")
		r.NonTrivial()
		if got.err != nil {
			return nil
		}
		sent := c34Pattern(c.RespSeed, c.respLen())
		if len(seen.writeErrs) > 0 {
			r.Class("mismatch:handler-write-error-reported")
		}
		// the server may cut the body at the declared length (then the wire is consistent) or fail
		if errors.Is(got.body.err, io.EOF) {
			if !bytes.Equal(got.body.data, sent[:c.Decl]) {
				return fmt.Errorf("%s: got %d octets then EOF, declared %d, handler wrote %d", what("response body read by the client"), len(got.body.data), c.Decl, len(sent))
			}
			return nil
		}
		return c34JudgeMismatch(what("response body read by the client"), got.body, sent, c.Decl)
	case c34ClientBodyShort, c34ClientBodyLong:
		r.Class(map[int]string{c34ClientBodyShort: "mismatch:request-body-shorter-than-ContentLength", c34ClientBodyLong: "mismatch:request-body-longer-than-ContentLength"}[c.Mode])
		r.NonTrivial()
		if !seen.called {
			r.Class("mismatch:handler-not-called")
			return nil
		}
		return c34JudgeMismatch(what("request body read by the handler"), seen.body, reqBody, c.Decl)
	}

	// ---- normal exchange: everything must arrive exactly ----
	if got.err != nil {
		alive, cerr := vpAlive(cc.qconn)
		var appErr *quic.ApplicationError
		if !alive && !errors.As(cerr, &appErr) && n.stats[1] > 0 {
			// the QUIC connection itself gave up (handshake or idle timeout under loss):
			// nothing was delivered unfaithfully, the exchange just did not happen
			r.Discard("QUIC connection lost under the fault schedule: " + cerr.Error())
			return nil
		}
		return fmt.Errorf("%s: %v (connection alive=%v: %v; %v of fake time)", what("RoundTrip failed"), got.err, alive, cerr, time.Since(start))
	}
	if !seen.called {
		return fmt.Errorf("%s", what("the handler was not called"))
	}
	wantMethod := c.Method
	if seen.method != wantMethod {
		return fmt.Errorf("handler saw method %q, want %q", seen.method, wantMethod)
	}
	wantPath := req.URL.Path
	if wantPath == "" {
		wantPath = "/"
	}
	if seen.path != wantPath || seen.rawQuery != c.Query {
		return fmt.Errorf("handler saw path %q query %q, want %q %q", seen.path, seen.rawQuery, wantPath, c.Query)
	}
	if seen.host != "example.tld" {
		return fmt.Errorf("handler saw host %q", seen.host)
	}
	if seen.proto != 3 || got.proto != 3 {
		return fmt.Errorf("ProtoMajor: handler %d, client %d", seen.proto, got.proto)
	}
	wantReqHdr := c34KVHeader(c.ReqHdr)
	if len(c.Cookies) > 0 {
		// cookie crumbs are split on ';' for the wire and joined with "; " again
		var crumbs []string
		for _, ck := range c.Cookies {
			for _, p := range strings.Split(ck, ";") {
				if p = strings.TrimLeft(p, " "); p != "" {
					crumbs = append(crumbs, p)
				}
			}
		}
		wantReqHdr["Cookie"] = []string{strings.Join(crumbs, "; ")}
	}
	if err := c34DiffHeader("request header seen by the handler", seen.header, wantReqHdr, map[string]bool{"User-Agent": true, "Content-Length": true}); err != nil {
		return err
	}
	if ua := seen.header["User-Agent"]; len(ua) != 1 || ua[0] != "Go-http-client/3" {
		return fmt.Errorf("handler saw User-Agent %q", ua)
	}
	if c.BodyKind == 2 && c.ReqDecl {
		if seen.clen != int64(len(reqBody)) {
			return fmt.Errorf("handler saw ContentLength %d, declared %d", seen.clen, len(reqBody))
		}
	} else if cl, ok := seen.header["Content-Length"]; ok && (len(cl) != 1 || cl[0] != "0" || len(reqBody) != 0) {
		return fmt.Errorf("handler saw Content-Length %q for a request of undeclared length (%d octets)", cl, len(reqBody))
	}
	if !errors.Is(seen.body.err, io.EOF) || !bytes.Equal(seen.body.data, reqBody) {
		return fmt.Errorf("%s: %d octets then %v, want %d octets then EOF (first difference at %d)", what("request body read by the handler"), len(seen.body.data), seen.body.err, len(reqBody), c34FirstDiff(seen.body.data, reqBody))
	}
	if err := c34DiffHeader("request trailers seen by the handler", c34NonEmpty(seen.trailer), c34NonEmpty(c34KVHeader(c.ReqTrailers)), nil); err != nil {
		return err
	}
	// response
	if got.status != c.Status {
		return fmt.Errorf("client saw status %d, handler sent %d", got.status, c.Status)
	}
	wantRespHdr := c34KVHeader(c.RespHdr)
	if c.RespDecl {
		wantRespHdr["Content-Length"] = []string{strconv.Itoa(c.respLen())}
	}
	if err := c34DiffHeader("response header seen by the client", got.header, wantRespHdr, map[string]bool{"Date": true, "Content-Type": true, "Trailer": true}); err != nil {
		return err
	}
	wantBody := c34Pattern(c.RespSeed, c.respLen())
	if c.Method == "HEAD" || c34NoBodyStatus(c.Status) {
		wantBody = nil
	}
	if !errors.Is(got.body.err, io.EOF) || !bytes.Equal(got.body.data, wantBody) {
		return fmt.Errorf("%s: %d octets then %v, want %d octets then EOF (first difference at %d)", what("response body read by the client"), len(got.body.data), got.body.err, len(wantBody), c34FirstDiff(got.body.data, wantBody))
	}
	if c.RespDecl && c.Method != "HEAD" && got.clen != int64(c.respLen()) {
		return fmt.Errorf("client saw ContentLength %d, handler declared %d", got.clen, c.respLen())
	}
	wantTr := c34KVHeader(c.RespTrailers)
	for k, v := range c34KVHeader(c.RespPTrailers) {
		wantTr[k] = v
	}
	if err := c34DiffHeader("response trailers seen by the client", c34NonEmpty(got.trailer), c34NonEmpty(wantTr), nil); err != nil {
		return err
	}
	// classes
	big := len(reqBody) > 65536 || len(wantBody) > 65536
	if big {
		r.Class("body>64KB")
	}
	if big && n.stats[1] > 0 {
		r.Class("body>64KB+dropped-datagram")
		r.NonTrivial()
	}
	if len(c34NonEmpty(c34KVHeader(c.ReqTrailers))) > 0 {
		r.Class("request-trailers")
		r.NonTrivial()
	}
	if len(c34NonEmpty(wantTr)) > 0 {
		r.Class("response-trailers")
		r.NonTrivial()
	}
	if len(reqBody) > 0 {
		r.Class("request-body")
	}
	if len(wantBody) > 0 {
		r.Class("response-body")
	}
	if c.Order == 1 {
		r.Class("reply-before-reading-request")
	}
	return nil
}

func c34FirstDiff(a, b []byte) int {
	for i := 0; i < len(a) && i < len(b); i++ {
		if a[i] != b[i] {
			return i
		}
	}
	return min(len(a), len(b))
}

// c34JudgeMismatch checks the reading side of a body whose length (len(sent)) differs
// from the declared Content-Length decl: a non-EOF error, after at most decl octets,
// all of them octets of the body that was sent.
func c34JudgeMismatch(what string, res vpReadResult, sent []byte, decl int) error {
	if !bytes.HasPrefix(sent, res.data) {
		return fmt.Errorf("%s: the %d octets read are not a prefix of the %d octets sent (first difference at %d)", what, len(res.data), len(sent), c34FirstDiff(res.data, sent))
	}
	if res.err == nil {
		return fmt.Errorf("%s: no end", what)
	}
	if errors.Is(res.err, io.EOF) {
		return fmt.Errorf("%s: declared Content-Length %d, body on the wire %d octets, but the reader got %d octets and a clean EOF", what, decl, len(sent), len(res.data))
	}
	if len(res.data) > decl {
		return fmt.Errorf("%s: declared Content-Length %d, but %d octets were delivered before the error %v", what, decl, len(res.data), res.err)
	}
	return nil
}

// ---------------------------------------------------------------------------
// raw-peer mismatch modes
// ---------------------------------------------------------------------------

func c34DataFrames(body []byte, chunks []int) []byte {
	var w []byte
	rest := body
	for _, n := range chunks {
		if len(rest) == 0 {
			break
		}
		if n > len(rest) {
			n = len(rest)
		}
		w = vpVarint(w, 0, 0)
		w = vpVarint(w, uint64(n), 0)
		w = append(w, rest[:n]...)
		rest = rest[n:]
	}
	if len(rest) > 0 || len(body) == 0 {
		w = vpVarint(w, 0, 0)
		w = vpVarint(w, uint64(len(rest)), 0)
		w = append(w, rest...)
	}
	return w
}

func c34RunRaw(t *testing.T, c c34Case, r *vp.Rec) error {
	n := c.Decl - c.Delta
	if c.Mode == c34RawReqLong || c.Mode == c34RawRespLong {
		n = c.Decl + c.Delta
	}
	body := c34Pattern(c.ReqSeed, n)
	wire := c34DataFrames(body, c.Chunks)
	if n == 0 {
		wire = nil
	}
	cl := http.Header{"content-length": {strconv.Itoa(c.Decl)}}
	var res *vpReadResult
	var err error
	var what string
	switch c.Mode {
	case c34RawReqShort, c34RawReqLong:
		srv := vpNewServer(t)
		tc := srv.ts.connect()
		tc.greet()
		res, err = srv.request(tc, vpRequestSection(t, cl), wire, c.Chunks, []int{c.SrvRead})
		if err == nil && res == nil {
			err = fmt.Errorf("the handler was not called")
		}
		what = "request body read by the handler"
	default:
		tc := newTestClientConn(t)
		tc.greet()
		res, err = vpClientExchange(tc, cl, nil, wire, c.Chunks, []int{c.CliRead})
		what = "response body read by the client"
	}
	if err != nil {
		return fmt.Errorf("%s (declared %d, sent %d): %v", what, c.Decl, n, err)
	}
	r.Class(map[int]string{c34RawReqShort: "mismatch:raw-request-shorter", c34RawReqLong: "mismatch:raw-request-longer", c34RawRespShort: "mismatch:raw-response-shorter", c34RawRespLong: "mismatch:raw-response-longer"}[c.Mode])
	if c.Decl == 0 {
		r.Class("mismatch:declared-zero")
	}
	r.NonTrivial()
	return c34JudgeMismatch(what, *res, body, c.Decl)
}

func c34Prop(c c34Case, r *vp.Rec) error {
	return vp.Bubble(func(t *testing.T) error {
		r.Classf("mode:%d", c.Mode)
		switch c.Mode {
		case c34RawReqShort, c34RawReqLong, c34RawRespShort, c34RawRespLong:
			return c34RunRaw(t, c, r)
		}
		err := c34RunReal(t, c, r)
		if os.Getenv("VP_DEBUG") != "" {
			synctest.Wait()
			buf := make([]byte, 1<<20)
			fmt.Fprintf(os.Stderr, "VP_DEBUG goroutines after the case:\n%s\n", buf[:runtime.Stack(buf, true)])
		}
		return err
	})
}

func c34Known(c c34Case) string {
	var keys []string
	if c.Mode == c34Normal {
		hasTr := len(c.RespTrailers) > 0 || len(c.RespPTrailers) > 0
		// c34-bodyless-response-content-length: roundtrip.go gives the response bodyReader
		// remain = Content-Length although a HEAD or 304 response carries no body.
		if c.RespDecl && (c.Method == "HEAD" && hasTr || c.Status == 304 && c.Method != "HEAD" || c.Status == 304 && hasTr) {
			keys = append(keys, "c34-bodyless-response-content-length")
		}
	}
	// c34-head-undeclared-trailers-dropped: HEAD response, trailers only via TrailerPrefix.
	if c.Mode == c34Normal && c.Method == "HEAD" && len(c.RespPTrailers) > 0 && len(c.RespTrailers) == 0 {
		keys = append(keys, "c34-head-undeclared-trailers-dropped")
	}
	// c34-declared-zero-body-ignored: Content-Length: 0 makes both sides use http.NoBody
	// without looking at the DATA frames that follow.
	if (c.Mode == c34RawReqLong || c.Mode == c34RawRespLong) && c.Decl == 0 {
		keys = append(keys, "c34-declared-zero-body-ignored")
	}
	return strings.Join(keys, ",")
}

func TestVP_C34(t *testing.T) {
	vp.Run(t, vp.Spec[c34Case]{ID: "C34", CrashFile: true, Gen: c34Gen, Prop: c34Prop, Known: c34Known})
}
