package http3

import (
	"bytes"
	"errors"
	"fmt"
	"io"
	"testing"
	"testing/synctest"

	"golang.org/x/net/quic"
	"pgregory.net/rapid"
	"verif/vp"
)

// C35: HTTP/3 stream framing never leaks bytes across frame boundaries.
//
// A raw QUIC peer (perfect in-memory network, synctest bubble) writes a generated
// byte sequence on a request stream towards the real server (side 0), answers a real
// client's request with it (side 1), or writes it on a control stream towards the
// real server / client (sides 2, 3). A reference frame parser in this file computes
// from the bytes alone which bodies / connection states the statement allows.

// ---------------------------------------------------------------------------
// case
// ---------------------------------------------------------------------------

const (
	c35KData       = iota // DATA
	c35KUnknown           // unknown / GREASE type
	c35KReserved          // HTTP/2 types reserved by RFC 9114 7.2.8 (2, 6, 8, 9)
	c35KMisplaced         // known type that is not allowed at this place (3, 4, 5, 7, 13)
	c35KTrailers          // HEADERS with a valid field section (trailers)
	c35KHeadersRaw        // HEADERS with an arbitrary payload
)

type c35Frame struct {
	Kind    int    `json:"kind"`
	Type    uint64 `json:"type"`
	Payload []byte `json:"payload,omitempty"`
	// declared length = len(Payload) + LenDelta, or 2^62-1 if Huge
	LenDelta int  `json:"len_delta,omitempty"`
	Huge     bool `json:"huge,omitempty"`
	TypeEnc  int  `json:"type_enc,omitempty"` // minimum varint size (1, 2, 4, 8)
	LenEnc   int  `json:"len_enc,omitempty"`
}

type c35Setting struct {
	ID, Val       uint64
	IDEnc, ValEnc int
}

type c35Case struct {
	Side int `json:"side"` // 0 request body at the server, 1 response body at the client, 2 control stream to the server, 3 control stream to the client
	// Init, if non-nil, replaces the field section of the first HEADERS frame of the
	// request (side 0 only); then only "no panic" is asserted.
	Init   []byte     `json:"init,omitempty"`
	Pre    []c35Frame `json:"pre,omitempty"` // side 1: unknown-type frames before the response HEADERS
	Frames []c35Frame `json:"frames"`
	Cut    int        `json:"cut"`            // >= 0: the byte sequence is cut after Cut%(len+1) octets
	Tail   []byte     `json:"tail,omitempty"` // trailing garbage
	Chunks []int      `json:"chunks,omitempty"`
	Reads  []int      `json:"reads,omitempty"` // sizes of the body reader's Read calls (cycled)
	// control stream (sides 2, 3)
	Settings         []c35Setting `json:"settings,omitempty"`
	SettingsLenDelta int          `json:"settings_len_delta,omitempty"`
	Fin              bool         `json:"fin,omitempty"`
}

func c35FrameBytes(b []byte, f c35Frame) []byte {
	b = vpVarint(b, f.Type, f.TypeEnc)
	l := uint64(0)
	if f.Huge {
		l = 1<<62 - 1
	} else if n := len(f.Payload) + f.LenDelta; n > 0 {
		l = uint64(n)
	}
	b = vpVarint(b, l, f.LenEnc)
	return append(b, f.Payload...)
}

// c35Wire is the byte sequence after the first HEADERS frame (sides 0, 1) or the
// whole control stream content after the stream type (sides 2, 3).
func c35Wire(c c35Case) []byte {
	var b []byte
	if c.Side >= 2 {
		var p []byte
		for _, s := range c.Settings {
			p = vpVarint(p, s.ID, s.IDEnc)
			p = vpVarint(p, s.Val, s.ValEnc)
		}
		l := len(p) + c.SettingsLenDelta
		if l < 0 {
			l = 0
		}
		b = vpVarint(b, 4, 0)
		b = vpVarint(b, uint64(l), 0)
		b = append(b, p...)
	}
	for _, f := range c.Frames {
		b = c35FrameBytes(b, f)
	}
	b = append(b, c.Tail...)
	if c.Cut >= 0 {
		b = b[:c.Cut%(len(b)+1)]
	}
	return b
}

// c35Section writes a static-free QPACK field section for short names and values.
func c35Section(kv ...string) []byte {
	b := []byte{0, 0}
	for i := 0; i+1 < len(kv); i += 2 {
		n, v := kv[i], kv[i+1]
		if len(n) > 6 || len(v) > 126 {
			panic("c35Section: too long")
		}
		b = append(b, 0x20|byte(len(n)))
		b = append(b, n...)
		b = append(b, byte(len(v)))
		b = append(b, v...)
	}
	return b
}

// ---------------------------------------------------------------------------
// generator
// ---------------------------------------------------------------------------

func c35Pick(t *rapid.T, label string, n int) int {
	return int(rapid.Uint16().Draw(t, label)) % n
}

var c35UnknownTypes = []uint64{0x0a, 0x0b, 0x0c, 0x0e, 0x0f, 0x10, 0x20, 0x21, 0x3f, 0x40, 0x41, 0x3fff, 0x4000, 1<<30 - 1, 1 << 30,
	0x1f*1 + 0x21, 0x1f*2 + 0x21, 0x1f*1000 + 0x21, 0x1f*148764065110560899 + 0x21, 1<<62 - 1}

func c35GenEnc(t *rapid.T, label string) int {
	if c35Pick(t, label+"Q", 5) != 0 {
		return 0
	}
	return []int{1, 2, 4, 8}[c35Pick(t, label, 4)]
}

func c35GenFrame(t *rapid.T, kinds []int) c35Frame {
	var f c35Frame
	f.Kind = kinds[c35Pick(t, "kind", len(kinds))]
	switch f.Kind {
	case c35KData:
		f.Type = 0
		switch c35Pick(t, "dataLen", 8) {
		case 0:
		case 1:
			n := 3000
			if vp.Thorough() {
				n = 40000
			}
			f.Payload = rapid.SliceOfN(rapid.Byte(), 100, n).Draw(t, "bigData")
		default:
			f.Payload = rapid.SliceOfN(rapid.Byte(), 1, 40).Draw(t, "data")
		}
	case c35KUnknown:
		f.Type = c35UnknownTypes[c35Pick(t, "utype", len(c35UnknownTypes))]
		f.Payload = rapid.SliceOfN(rapid.Byte(), 0, 20).Draw(t, "upayload")
	case c35KReserved:
		f.Type = []uint64{2, 6, 8, 9}[c35Pick(t, "rtype", 4)]
		f.Payload = rapid.SliceOfN(rapid.Byte(), 0, 8).Draw(t, "rpayload")
	case c35KMisplaced:
		f.Type = []uint64{3, 4, 5, 7, 13}[c35Pick(t, "mtype", 5)]
		f.Payload = rapid.SliceOfN(rapid.Byte(), 0, 8).Draw(t, "mpayload")
	case c35KTrailers:
		f.Type = 1
		f.Payload = [][]byte{c35Section(), c35Section("x-t", "1"), c35Section("x-t", "1", "x-u", "two")}[c35Pick(t, "trailers", 3)]
	case c35KHeadersRaw:
		f.Type = 1
		f.Payload = rapid.SliceOfN(rapid.Byte(), 0, 6).Draw(t, "hpayload")
	}
	switch c35Pick(t, "lenMode", 12) {
	case 0:
		f.LenDelta = rapid.IntRange(1, 5).Draw(t, "longer")
	case 1:
		f.LenDelta = -rapid.IntRange(1, 5).Draw(t, "shorter")
		if -f.LenDelta > len(f.Payload) {
			f.LenDelta = -len(f.Payload)
		}
	case 2:
		f.Huge = c35Pick(t, "huge", 2) == 0
	}
	f.TypeEnc = c35GenEnc(t, "typeEnc")
	f.LenEnc = c35GenEnc(t, "lenEnc")
	return f
}

func c35Gen(t *rapid.T) c35Case {
	var c c35Case
	c.Side = []int{0, 0, 0, 1, 1, 2, 2, 3}[c35Pick(t, "side", 8)]
	c.Cut = -1
	if c.Side < 2 {
		// mostly DATA and unknown frames; the other kinds are rarer
		kinds := []int{c35KData, c35KData, c35KData, c35KUnknown, c35KUnknown, c35KUnknown, c35KReserved, c35KMisplaced, c35KTrailers, c35KHeadersRaw}
		if c35Pick(t, "plain", 2) == 0 {
			kinds = []int{c35KData, c35KData, c35KUnknown}
		}
		c.Frames = rapid.SliceOfN(rapid.Custom(func(t *rapid.T) c35Frame { return c35GenFrame(t, kinds) }), 0, 10).Draw(t, "frames")
		if c.Side == 1 && c35Pick(t, "preQ", 3) == 0 {
			c.Pre = rapid.SliceOfN(rapid.Custom(func(t *rapid.T) c35Frame {
				f := c35GenFrame(t, []int{c35KUnknown})
				f.LenDelta, f.Huge = 0, false
				return f
			}), 1, 3).Draw(t, "pre")
		}
		if c.Side == 0 && c35Pick(t, "initQ", 12) == 0 {
			c.Init = [][]byte{{}, {0}, {0, 0}, {0, 0, 0xd1}, {0, 0, 0xff}, {0, 0, 0x5f}, {0, 0, 0x27, 'a'}, {0xff, 0xff}, c35Section(":x", "y")}[c35Pick(t, "init", 9)]
		}
		c.Reads = rapid.SliceOfN(rapid.IntRange(1, 5000), 0, 4).Draw(t, "reads")
	} else {
		c.Settings = rapid.SliceOfN(rapid.Custom(func(t *rapid.T) c35Setting {
			var s c35Setting
			s.ID = []uint64{1, 6, 7, 0x21, 0x40, 0x3fff, 1<<62 - 1, 0, 8, 9, 0x33}[c35Pick(t, "sid", 11)]
			if c35Pick(t, "sidReserved", 20) == 0 {
				s.ID = uint64(2 + c35Pick(t, "sidR", 4))
			}
			s.Val = []uint64{0, 1, 63, 64, 16383, 16384, 1 << 30, 1<<62 - 1}[c35Pick(t, "sval", 8)]
			s.IDEnc, s.ValEnc = c35GenEnc(t, "sidEnc"), c35GenEnc(t, "svalEnc")
			return s
		}), 0, 4).Draw(t, "settings")
		if c35Pick(t, "sdeltaQ", 4) == 0 {
			c.SettingsLenDelta = rapid.IntRange(-3, 3).Draw(t, "sdelta")
		}
		kinds := []int{c35KUnknown, c35KUnknown, c35KUnknown, c35KUnknown, c35KUnknown, c35KReserved, c35KMisplaced, c35KData, c35KHeadersRaw}
		if c35Pick(t, "plainCtl", 3) != 0 {
			kinds = []int{c35KUnknown}
		}
		c.Frames = rapid.SliceOfN(rapid.Custom(func(t *rapid.T) c35Frame {
			f := c35GenFrame(t, kinds)
			if len(kinds) == 1 && c35Pick(t, "keepLen", 4) != 0 {
				f.LenDelta, f.Huge = 0, false
			}
			return f
		}), 0, 6).Draw(t, "cframes")
		c.Fin = c35Pick(t, "fin", 8) == 0
	}
	if c35Pick(t, "tailQ", 8) == 0 && (c.Side < 2 || c35Pick(t, "tailCtlQ", 3) == 0) {
		c.Tail = rapid.SliceOfN(rapid.Byte(), 1, 6).Draw(t, "tail")
	}
	if c35Pick(t, "cutQ", 6) == 0 && (c.Side < 2 || c35Pick(t, "cutCtlQ", 3) == 0) {
		c.Cut = rapid.IntRange(0, 1<<20).Draw(t, "cut")
	}
	c.Chunks = rapid.SliceOfN(rapid.IntRange(1, 64), 1, 6).Draw(t, "chunks")
	return c
}

// ---------------------------------------------------------------------------
// reference frame parser
// ---------------------------------------------------------------------------

func c35RefVarint(b []byte) (v uint64, n int, ok bool) {
	if len(b) == 0 {
		return 0, 0, false
	}
	n = 1 << (b[0] >> 6)
	if len(b) < n {
		return 0, n, false
	}
	v = uint64(b[0] & 0x3f)
	for i := 1; i < n; i++ {
		v = v<<8 | uint64(b[i])
	}
	return v, n, true
}

const (
	c35EndEOF      = iota // the body is exactly Body, then io.EOF
	c35EndFrameErr        // a frame payload is truncated: H3_FRAME_ERROR-class error, after a prefix of Body
	c35EndErr             // some non-EOF error, after a prefix of Body
	c35EndAny             // the statement does not say how the message ends; no more body octets than Body, io.EOF only after all of Body
)

type c35Outcome struct {
	Body []byte
	End  int
	Why  string
}

type c35RefInfo struct {
	UnknownBetweenData bool // an unknown-type frame was skipped between two DATA frames
	UnknownSkipped     int
	TruncatedPayload   bool
	TruncatedHeader    bool
	ZeroLenData        bool
	HugeLen            bool
	QPACKOverread      bool // a complete HEADERS frame whose field section reads past the frame end
	Trailers           bool
	Branches           bool
}

func c35TypeClass(typ uint64) int {
	switch typ {
	case 0:
		return c35KData
	case 1:
		return c35KTrailers
	case 2, 6, 8, 9:
		return c35KReserved
	case 3, 4, 5, 7, 13:
		return c35KMisplaced
	}
	return c35KUnknown
}

// c35RefBody returns every outcome the statement allows for a message body whose
// frames (after the first HEADERS frame) are the octets b followed by the end of the
// stream.
func c35RefBody(b []byte, info *c35RefInfo) []c35Outcome {
	var outs []c35Outcome
	var walk func(pos int, body []byte, sawData, unknownSinceData bool, depth int)
	walk = func(pos int, body []byte, sawData, unknownSinceData bool, depth int) {
		for {
			if pos == len(b) {
				outs = append(outs, c35Outcome{body, c35EndEOF, "clean end of stream"})
				return
			}
			typ, n1, ok := c35RefVarint(b[pos:])
			if !ok {
				info.TruncatedHeader = true
				outs = append(outs, c35Outcome{body, c35EndAny, "stream ends inside a frame type"})
				return
			}
			ln, n2, ok := c35RefVarint(b[pos+n1:])
			if !ok {
				info.TruncatedHeader = true
				outs = append(outs, c35Outcome{body, c35EndAny, "stream ends inside a frame header"})
				return
			}
			p := pos + n1 + n2
			avail := uint64(len(b) - p)
			if ln >= 1<<40 {
				info.HugeLen = true
			}
			switch c35TypeClass(typ) {
			case c35KData:
				if ln > avail {
					info.TruncatedPayload = true
					outs = append(outs, c35Outcome{append(bytes.Clone(body), b[p:]...), c35EndFrameErr, "DATA payload truncated"})
					return
				}
				if ln == 0 {
					info.ZeroLenData = true
				}
				if sawData && unknownSinceData {
					info.UnknownBetweenData = true
				}
				body = append(bytes.Clone(body), b[p:p+int(ln)]...)
				sawData, unknownSinceData = true, false
				pos = p + int(ln)
			case c35KTrailers:
				if ln > avail {
					info.TruncatedPayload = true
					outs = append(outs, c35Outcome{body, c35EndErr, "HEADERS (trailers) payload truncated"})
					return
				}
				sec := b[p : p+int(ln)]
				ref := c33RefDecode(sec, len(sec))
				switch {
				case ref.Verdict == c33Accept:
					info.Trailers = true
					outs = append(outs, c35Outcome{body, c35EndEOF, "valid trailers end the message"})
				case ref.Verdict == c33Reject && ref.SawTrunc:
					info.QPACKOverread = true
					outs = append(outs, c35Outcome{body, c35EndErr, "trailer field section reads past the end of its frame"})
				default:
					outs = append(outs, c35Outcome{body, c35EndAny, "invalid trailer field section"})
				}
				return
			case c35KUnknown:
				if ln > avail {
					info.TruncatedPayload = true
					outs = append(outs, c35Outcome{body, c35EndFrameErr, "unknown-type frame payload truncated"})
					return
				}
				info.UnknownSkipped++
				unknownSinceData = true
				pos = p + int(ln)
			default: // reserved HTTP/2 types, known types at the wrong place: skip or fail, the statement does not say
				outs = append(outs, c35Outcome{body, c35EndErr, fmt.Sprintf("frame type %#x not allowed here (implementation may fail)", typ)})
				if ln > avail || depth > 6 {
					if depth > 6 {
						outs = append(outs, c35Outcome{nil, -1, "give up"})
					}
					return
				}
				info.Branches = true
				depth++
				pos = p + int(ln)
			}
		}
	}
	walk(0, nil, false, false, 0)
	return outs
}

func c35Matches(o c35Outcome, got []byte, err error) bool {
	isEOF := errors.Is(err, io.EOF)
	switch o.End {
	case c35EndEOF:
		return isEOF && bytes.Equal(got, o.Body)
	case c35EndFrameErr:
		return err != nil && !isEOF && errors.Is(err, errH3FrameError) && bytes.HasPrefix(o.Body, got)
	case c35EndErr:
		return err != nil && !isEOF && bytes.HasPrefix(o.Body, got)
	case c35EndAny:
		return err != nil && bytes.HasPrefix(o.Body, got) && (!isEOF || len(got) == len(o.Body))
	}
	return true // "give up": too many branches to judge
}

const (
	c35CtlAny = iota
	c35CtlAlive
	c35CtlFrameErr
)

// c35RefControl judges a control stream whose content after the stream type is b.
func c35RefControl(b []byte, fin bool, info *c35RefInfo) (verdict int, why string) {
	typ, n1, ok := c35RefVarint(b)
	if !ok {
		return c35CtlAny, "no complete first frame"
	}
	ln, n2, ok := c35RefVarint(b[n1:])
	if !ok {
		return c35CtlAny, "no complete first frame"
	}
	if typ != 4 {
		return c35CtlAny, "first frame is not SETTINGS"
	}
	p := n1 + n2
	if ln > uint64(len(b)-p) {
		return c35CtlAny, "SETTINGS payload incomplete"
	}
	end := p + int(ln)
	for q := p; q < end; {
		for k := 0; k < 2; k++ {
			v, n, ok := c35RefVarint(b[q:])
			if !ok {
				return c35CtlAny, "stream ends inside a setting"
			}
			if k == 0 && v >= 2 && v <= 5 {
				return c35CtlAny, "reserved setting identifier"
			}
			q += n
			if q > end {
				return c35CtlFrameErr, "a setting reads past the end of the SETTINGS frame"
			}
			if k == 0 && q == end {
				// identifier without a value: the value is read past the frame end
				_, n, ok := c35RefVarint(b[q:])
				if !ok || n == 0 {
					return c35CtlAny, "stream ends inside a setting"
				}
				return c35CtlFrameErr, "a setting value reads past the end of the SETTINGS frame"
			}
		}
	}
	for pos := end; pos < len(b); {
		typ, n1, ok := c35RefVarint(b[pos:])
		if !ok {
			return c35CtlAny, "incomplete frame header"
		}
		ln, n2, ok := c35RefVarint(b[pos+n1:])
		if !ok {
			return c35CtlAny, "incomplete frame header"
		}
		if c35TypeClass(typ) != c35KUnknown {
			return c35CtlAny, "known or reserved frame type on the control stream"
		}
		p := pos + n1 + n2
		if ln > uint64(len(b)-p) {
			if fin {
				info.TruncatedPayload = true
			}
			return c35CtlAny, "incomplete unknown frame"
		}
		info.UnknownSkipped++
		pos = p + int(ln)
	}
	if fin {
		return c35CtlAny, "control stream closed"
	}
	return c35CtlAlive, "SETTINGS then only complete unknown-type frames"
}

// ---------------------------------------------------------------------------
// running
// ---------------------------------------------------------------------------

func c35Judge(what string, outs []c35Outcome, res *vpReadResult) error {
	if len(res.late) > 0 {
		return fmt.Errorf("%s: body reads returned %d octets then %v; further Read calls then delivered %d more octets %.60x", what, len(res.data), res.err, len(res.late), res.late)
	}
	for _, o := range outs {
		if c35Matches(o, res.data, res.err) {
			return nil
		}
	}
	var allowed []string
	for _, o := range outs {
		end := map[int]string{c35EndEOF: "io.EOF", c35EndFrameErr: "H3_FRAME_ERROR-class error", c35EndErr: "non-EOF error", c35EndAny: "any end"}[o.End]
		allowed = append(allowed, fmt.Sprintf("[body %d octets %.40x then %s: %s]", len(o.Body), o.Body, end, o.Why))
	}
	return fmt.Errorf("%s: body reads returned %d octets %.60x then %v (%T); allowed: %v", what, len(res.data), res.data, res.err, res.err, allowed)
}

// c35Same is the chunking-independence relation: same kind of end, and the same body
// when the message ends cleanly (before an error the implementation may drop octets it
// had buffered, and how many depends on how the stream data arrived).
func c35Same(a, b *vpReadResult) bool {
	ea, eb := errors.Is(a.err, io.EOF), errors.Is(b.err, io.EOF)
	if ea != eb || (a.err == nil) != (b.err == nil) {
		return false
	}
	if ea {
		return bytes.Equal(a.data, b.data)
	}
	return errors.Is(a.err, errH3FrameError) == errors.Is(b.err, errH3FrameError)
}

func c35Run(t *testing.T, c c35Case, r *vp.Rec) error {
	wire := c35Wire(c)
	var info c35RefInfo
	r.Classf("side:%d", c.Side)
	switch c.Side {
	case 0:
		srv := vpNewServer(t)
		tc := srv.ts.connect()
		tc.greet()
		sec := vpRequestSection(t, nil)
		if c.Init != nil {
			r.Class("hostile-first-HEADERS")
			_, err := srv.request(tc, c.Init, wire, c.Chunks, c.Reads)
			return err
		}
		outs := c35RefBody(wire, &info)
		var results []*vpReadResult
		for v, chunks := range [][]int{nil, c.Chunks} {
			if ok, _ := vpAlive(tc.qconn); !ok {
				tc = srv.ts.connect()
				tc.greet()
			}
			res, err := srv.request(tc, sec, wire, chunks, c.Reads)
			if err != nil {
				return fmt.Errorf("request body %x (variant %d): %v", wire, v, err)
			}
			if res == nil {
				return fmt.Errorf("request body %x (variant %d): the handler was not called for a well-formed HEADERS frame", wire, v)
			}
			if err := c35Judge(fmt.Sprintf("request body %x (variant %d, chunks %v, reads %v)", wire, v, chunks, c.Reads), outs, res); err != nil {
				return err
			}
			results = append(results, res)
		}
		if !c35Same(results[0], results[1]) {
			return fmt.Errorf("request body %x: one write gives %d octets then %v, chunks %v give %d octets then %v", wire, len(results[0].data), results[0].err, c.Chunks, len(results[1].data), results[1].err)
		}
		c35Classes(r, &info, outs, results[0])
	case 1:
		var pre []byte
		for _, f := range c.Pre {
			pre = c35FrameBytes(pre, f)
		}
		outs := c35RefBody(wire, &info)
		var results []*vpReadResult
		var tc *testClientConn
		for v, chunks := range [][]int{nil, c.Chunks} {
			if tc != nil {
				if ok, _ := vpAlive(tc.qconn); !ok {
					tc = nil
				}
			}
			if tc == nil {
				tc = newTestClientConn(t)
				tc.greet()
			}
			res, err := vpClientExchange(tc, nil, pre, wire, chunks, c.Reads)
			if err != nil {
				return fmt.Errorf("response body %x (variant %d): %v", wire, v, err)
			}
			if err := c35Judge(fmt.Sprintf("response body %x (variant %d, chunks %v, reads %v)", wire, v, chunks, c.Reads), outs, res); err != nil {
				return err
			}
			results = append(results, res)
		}
		if !c35Same(results[0], results[1]) {
			return fmt.Errorf("response body %x: one write gives %d octets then %v, chunks %v give %d octets then %v", wire, len(results[0].data), results[0].err, c.Chunks, len(results[1].data), results[1].err)
		}
		if len(c.Pre) > 0 {
			r.Class("unknown-frames-before-response-HEADERS")
		}
		c35Classes(r, &info, outs, results[0])
	case 2, 3:
		verdict, why := c35RefControl(wire, c.Fin, &info)
		var raw *testQUICConn
		var srv *vpServer
		var stc *testServerConn
		var ctc *testClientConn
		if c.Side == 2 {
			srv = vpNewServer(t)
			stc = srv.ts.connect()
			raw = stc.testQUICConn
		} else {
			ctc = newTestClientConn(t)
			raw = ctc.testQUICConn
		}
		ctl := raw.newStream(streamTypeControl)
		vpWriteChunks(ctl.stream, wire, c.Chunks)
		if c.Fin {
			ctl.stream.stream.CloseWrite()
		}
		synctest.Wait()
		alive, cerr := vpAlive(raw.qconn)
		switch verdict {
		case c35CtlAlive:
			if !alive {
				return fmt.Errorf("control stream %x: %s, but the connection was closed: %v", wire, why, cerr)
			}
			// the connection must still serve an exchange
			body := []byte("probe")
			var w []byte
			w = vpVarint(w, 0, 0)
			w = vpVarint(w, uint64(len(body)), 0)
			w = append(w, body...)
			var res *vpReadResult
			var err error
			if c.Side == 2 {
				res, err = srv.request(stc, vpRequestSection(t, nil), w, nil, nil)
				if err == nil && res == nil {
					err = fmt.Errorf("handler not called")
				}
			} else {
				res, err = vpClientExchange(ctc, nil, nil, w, nil, nil)
			}
			if err != nil {
				return fmt.Errorf("control stream %x (%s): exchange afterwards failed: %v", wire, why, err)
			}
			if !bytes.Equal(res.data, body) || !errors.Is(res.err, io.EOF) {
				return fmt.Errorf("control stream %x (%s): exchange afterwards delivered %q, %v", wire, why, res.data, res.err)
			}
			r.Class("ctl:alive")
			if info.UnknownSkipped > 0 {
				r.Class("ctl:unknown-frames-skipped")
				r.NonTrivial()
			}
		case c35CtlFrameErr:
			if alive {
				return fmt.Errorf("control stream %x: %s, but the connection is still open", wire, why)
			}
			if !errors.Is(cerr, &quic.ApplicationError{Code: uint64(errH3FrameError)}) {
				return fmt.Errorf("control stream %x: %s, but the connection was closed with %v, not H3_FRAME_ERROR", wire, why, cerr)
			}
			r.Class("ctl:settings-over-read")
			r.NonTrivial()
		default:
			r.Class("ctl:no-verdict")
			if alive {
				r.Class("ctl:no-verdict:alive")
			} else {
				r.Class("ctl:no-verdict:closed")
			}
		}
	}
	return nil
}

func c35Classes(r *vp.Rec, info *c35RefInfo, outs []c35Outcome, res *vpReadResult) {
	if info.UnknownBetweenData {
		r.Class("unknown-frame-between-DATA")
		r.NonTrivial()
	}
	if info.TruncatedPayload {
		r.Class("truncated-payload")
		r.NonTrivial()
	}
	if info.TruncatedHeader {
		r.Class("truncated-frame-header")
		if errors.Is(res.err, io.EOF) {
			r.Class("truncated-frame-header:io.EOF")
		} else {
			r.Class("truncated-frame-header:error")
		}
	}
	if info.ZeroLenData {
		r.Class("zero-length-DATA")
	}
	if info.HugeLen {
		r.Class("huge-declared-length")
	}
	if info.Trailers {
		r.Class("valid-trailers")
	}
	if info.QPACKOverread {
		r.Class("trailer-section-over-reads-frame")
	}
	if info.Branches {
		r.Class("reserved-or-misplaced-type")
	}
	if info.UnknownSkipped > 0 {
		r.Class("unknown-frames-skipped")
	}
	if len(outs) == 1 && outs[0].End == c35EndEOF {
		r.Class("well-formed")
	}
	if res.err != nil && !errors.Is(res.err, io.EOF) {
		if errors.Is(res.err, errH3FrameError) {
			r.Class("ended:H3_FRAME_ERROR")
		} else {
			r.Class("ended:other-error")
		}
	} else {
		r.Class("ended:EOF")
	}
	if len(res.data) > 0 {
		r.Class("body-nonempty")
	}
}

func c35Prop(c c35Case, r *vp.Rec) error {
	return vp.Bubble(func(t *testing.T) error { return c35Run(t, c, r) })
}

// c35Known names the known findings a case would hit.
func c35Known(c c35Case) string {
	// c35-frame-overread-nils-stream: stream.recordBytesRead sets st.stream = nil when a
	// read passes the frame limit; every later use of the stream (handleStreamError,
	// responseWriter.close, bodyReader.Close, transportResponseBody.Close) then
	// dereferences nil. Reached by a complete HEADERS frame (first or trailers) whose
	// QPACK field section needs more octets than the frame has.
	if c.Side > 1 {
		return ""
	}
	if c.Init != nil {
		if ref := c33RefDecode(c.Init, len(c.Init)); ref.Verdict == c33Reject && ref.SawTrunc {
			return "c35-frame-overread-nils-stream"
		}
		return ""
	}
	var info c35RefInfo
	c35RefBody(c35Wire(c), &info)
	if info.QPACKOverread {
		return "c35-frame-overread-nils-stream"
	}
	return ""
}

func TestVP_C35(t *testing.T) {
	vp.Run(t, vp.Spec[c35Case]{ID: "C35", CrashFile: true, Gen: c35Gen, Prop: c35Prop, Known: c35Known})
}
