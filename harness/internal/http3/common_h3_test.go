package http3

import (
	"bytes"
	"context"
	"errors"
	"fmt"
	"io"
	"net/http"
	"testing"
	"testing/synctest"

	"golang.org/x/net/quic"
)

// Shared by the C33, C34 and C35 harnesses of internal/http3.

// vpConnPair returns the two ends of a QUIC connection over the package's in-memory
// test network (newQUICEndpointPair). It must be called inside a synctest bubble with
// the bubble's *testing.T; the endpoints are closed by t's cleanups, the conns by the
// returned function (call it before returning from the bubble).
func vpConnPair(t *testing.T) (c1, c2 *quic.Conn, closeFn func(), err error) {
	config := &quic.Config{TLSConfig: testTLSConfig}
	e1, e2 := newQUICEndpointPair(t)
	c1, err = e1.Dial(context.Background(), "udp", e2.LocalAddr().String(), config)
	if err != nil {
		return nil, nil, nil, fmt.Errorf("harness: dial: %v", err)
	}
	c2, err = e2.Accept(context.Background())
	if err != nil {
		c1.Abort(nil)
		return nil, nil, nil, fmt.Errorf("harness: accept: %v", err)
	}
	closeFn = func() {
		c1.Abort(nil)
		c2.Abort(nil)
		c1.Wait(context.Background())
		c2.Wait(context.Background())
	}
	return c1, c2, closeFn, nil
}

// vpVarint appends a QUIC variable-length integer (RFC 9000 section 16) in its
// minimal encoding; minLen (1, 2, 4 or 8) forces a longer, non-minimal encoding.
func vpVarint(b []byte, v uint64, minLen int) []byte {
	n := 1
	switch {
	case v >= 1<<30:
		n = 8
	case v >= 1<<14:
		n = 4
	case v >= 1<<6:
		n = 2
	}
	if minLen > n {
		n = minLen
	}
	switch n {
	case 1:
		return append(b, byte(v))
	case 2:
		return append(b, 0x40|byte(v>>8), byte(v))
	case 4:
		return append(b, 0x80|byte(v>>24), byte(v>>16), byte(v>>8), byte(v))
	default:
		return append(b, 0xc0|byte(v>>56), byte(v>>48), byte(v>>40), byte(v>>32), byte(v>>24), byte(v>>16), byte(v>>8), byte(v))
	}
}

// ---------------------------------------------------------------------------
// raw-peer exchanges (used by C34 and C35)
// ---------------------------------------------------------------------------

type vpReadResult struct {
	data  []byte
	err   error
	calls int
	late  []byte // octets delivered by further Read calls after Read had returned err
}

func vpReadBody(r io.Reader, sizes []int) (res vpReadResult) {
	buf := make([]byte, 8192)
	zero := 0
	for i := 0; i < 4000000; i++ {
		n := len(buf)
		if len(sizes) > 0 {
			n = sizes[i%len(sizes)]
			if n > len(buf) {
				n = len(buf)
			}
		}
		m, err := r.Read(buf[:n])
		res.calls++
		if m < 0 || m > n {
			res.err = fmt.Errorf("harness: Read returned n=%d for a %d-octet buffer", m, n)
			return res
		}
		res.data = append(res.data, buf[:m]...)
		if err != nil {
			res.err = err
			// a reader that calls Read again (bufio, a retry loop, a second ReadAll)
			// must not be handed anything more
			for k := 0; k < 3; k++ {
				m, err2 := r.Read(buf[:n])
				if m > 0 && m <= n {
					res.late = append(res.late, buf[:m]...)
				}
				if err2 == nil && m == 0 {
					continue
				}
			}
			return res
		}
		if m == 0 {
			if zero++; zero > 64 {
				res.err = fmt.Errorf("harness: Read returned (0, nil) 64 times in a row")
				return res
			}
		} else {
			zero = 0
		}
	}
	res.err = fmt.Errorf("harness: body did not end after 4000000 reads")
	return res
}

func vpWriteChunks(st *stream, wire []byte, chunks []int) {
	for i := 0; len(wire) > 0; i++ {
		n := len(wire)
		if len(chunks) > 0 {
			if i >= len(chunks) {
				// the rest in one write
			} else if chunks[i] < n {
				n = chunks[i]
			}
		}
		st.Write(wire[:n])
		st.Flush()
		wire = wire[n:]
		synctest.Wait()
	}
}

func vpAlive(qc *quic.Conn) (bool, error) {
	err := qc.Wait(canceledCtx)
	return errors.Is(err, context.Canceled), err
}

// vpServer is a real server with a handler that reads the request body as told.
type vpServer struct {
	ts    *testServer
	sizes []int
	res   *vpReadResult
	calls int
}

func vpNewServer(t *testing.T) *vpServer {
	s := &vpServer{}
	s.ts = newTestServer(t, http.HandlerFunc(func(w http.ResponseWriter, r *http.Request) {
		s.calls++
		res := vpReadBody(r.Body, s.sizes)
		s.res = &res
		w.WriteHeader(200)
	}))
	return s
}

// request sends one request (first HEADERS frame with the field section sec, then wire,
// then FIN) and returns what the handler's body reads produced.
func (s *vpServer) request(tc *testServerConn, sec, wire []byte, chunks, sizes []int) (*vpReadResult, error) {
	s.sizes, s.res = sizes, nil
	before := s.calls
	rs := tc.newStream(streamTypeRequest)
	var hdr []byte
	hdr = vpVarint(hdr, 1, 0)
	hdr = vpVarint(hdr, uint64(len(sec)), 0)
	hdr = append(hdr, sec...)
	rs.Write(hdr)
	if chunks != nil {
		rs.stream.Flush()
		synctest.Wait()
	}
	vpWriteChunks(rs.stream, wire, chunks)
	rs.stream.stream.CloseWrite()
	synctest.Wait()
	res := s.res
	rs.stream.stream.CloseRead()
	synctest.Wait()
	if s.calls == before {
		return nil, nil
	}
	if res == nil {
		return nil, fmt.Errorf("the handler's body read is still blocked after the request stream was closed")
	}
	return res, nil
}

// vpRequestSection is the field section of a POST request with the extra fields h.
func vpRequestSection(t testing.TB, h http.Header) []byte {
	hh := http.Header{":method": {"POST"}, ":scheme": {"https"}, ":path": {"/"}, ":authority": {"example.tld"}}
	for k, v := range h {
		hh[k] = v
	}
	return (&testQUICStream{t: t}).encodeHeaders(hh)
}

// vpClientExchange makes the real client send a GET and answers it with pre,
// a HEADERS frame (:status 200), wire and FIN; it returns what reading the response
// body produced.
func vpClientExchange(tc *testClientConn, rh http.Header, pre, wire []byte, chunks, sizes []int) (*vpReadResult, error) {
	req, _ := http.NewRequest("GET", "https://example.tld/", nil)
	rt := tc.roundTrip(req)
	synctest.Wait()
	if len(tc.streams[streamTypeRequest]) == 0 {
		if rt.done() {
			return nil, fmt.Errorf("RoundTrip failed before sending a request: %v", rt.respErr)
		}
		return nil, fmt.Errorf("the client did not open a request stream")
	}
	st := tc.wantStream(streamTypeRequest)
	hh := http.Header{":status": {"200"}}
	for k, v := range rh {
		hh[k] = v
	}
	sec := st.encodeHeaders(hh)
	hdr := bytes.Clone(pre)
	hdr = vpVarint(hdr, 1, 0)
	hdr = vpVarint(hdr, uint64(len(sec)), 0)
	hdr = append(hdr, sec...)
	st.Write(hdr)
	if chunks != nil {
		st.stream.Flush()
		synctest.Wait()
	}
	vpWriteChunks(st.stream, wire, chunks)
	st.stream.stream.CloseWrite()
	synctest.Wait()
	if !rt.done() {
		return nil, fmt.Errorf("RoundTrip has not returned although the response HEADERS and the end of the stream were sent")
	}
	if rt.respErr != nil {
		return nil, fmt.Errorf("RoundTrip failed on a well-formed response HEADERS frame (after %d unknown-type frames): %v", len(pre), rt.respErr)
	}
	var res *vpReadResult
	var perr error
	go func() {
		defer func() {
			if p := recover(); p != nil {
				perr = fmt.Errorf("panic while reading or closing the response body: %v", p)
			}
		}()
		r := vpReadBody(rt.resp.Body, sizes)
		rt.resp.Body.Close()
		res = &r
	}()
	synctest.Wait()
	st.stream.stream.CloseRead()
	synctest.Wait()
	if perr != nil {
		return nil, perr
	}
	if res == nil {
		return nil, fmt.Errorf("the response body read is still blocked after the response stream was closed")
	}
	return res, nil
}
