package http3

import (
	"context"
	"fmt"
	"testing"

	"golang.org/x/net/quic"
)

// Shared by the C33, C34 and C35 harnesses of internal/http3.

// vpConnPair returns the two ends of a QUIC connection over the package's in-memory
// test network (newQUICEndpointPair). It must be called inside a synctest bubble with
// the bubble's *testing.T; the endpoints are closed by t's cleanups, the conns by the
// returned function (call it before returning from the bubble).
func vpConnPair(t *testing.T) (c1, c2 *quic.Conn, closeFn func(), err error) {
	config := &quic.Config{TLSConfig: testTLSConfig}
	e1, e2 := newQUICEndpointPair(t)
	c1, err = e1.Dial(context.Background(), "udp", e2.LocalAddr().String(), config)
	if err != nil {
		return nil, nil, nil, fmt.Errorf("harness: dial: %v", err)
	}
	c2, err = e2.Accept(context.Background())
	if err != nil {
		c1.Abort(nil)
		return nil, nil, nil, fmt.Errorf("harness: accept: %v", err)
	}
	closeFn = func() {
		c1.Abort(nil)
		c2.Abort(nil)
		c1.Wait(context.Background())
		c2.Wait(context.Background())
	}
	return c1, c2, closeFn, nil
}

// vpVarint appends a QUIC variable-length integer (RFC 9000 section 16) in its
// minimal encoding; minLen (1, 2, 4 or 8) forces a longer, non-minimal encoding.
func vpVarint(b []byte, v uint64, minLen int) []byte {
	n := 1
	switch {
	case v >= 1<<30:
		n = 8
	case v >= 1<<14:
		n = 4
	case v >= 1<<6:
		n = 2
	}
	if minLen > n {
		n = minLen
	}
	switch n {
	case 1:
		return append(b, byte(v))
	case 2:
		return append(b, 0x40|byte(v>>8), byte(v))
	case 4:
		return append(b, 0x80|byte(v>>24), byte(v>>16), byte(v>>8), byte(v))
	default:
		return append(b, 0xc0|byte(v>>56), byte(v>>48), byte(v>>40), byte(v>>32), byte(v>>24), byte(v>>16), byte(v>>8), byte(v))
	}
}
