package http3

import (
	"bytes"
	"context"
	"fmt"
	"strings"
	"testing"

	"golang.org/x/net/quic"
	"pgregory.net/rapid"
	"verif/vp"
)

// C33: QPACK field sections round-trip and the decoder rejects bad input safely.
//
// One rapid case = 1..6 sections, all run in one synctest bubble over one QUIC
// connection pair (one unidirectional QUIC stream per section, frame limit set as the
// package's own decoder tests do). A section is either a field list (encode with the
// real encoder, decode with the real decoder, compare with the documented
// normalisation) or a byte string (decode with the real decoder and with the
// reference decoder of common_qpackref_test.go, compare verdict and lines).

type c33Field struct {
	N     []byte `json:"n"`
	V     []byte `json:"v"`
	Never bool   `json:"never,omitempty"`
}

type c33Sec struct {
	IsRaw    bool       `json:"is_raw,omitempty"`
	Fields   []c33Field `json:"fields,omitempty"`
	Raw      []byte     `json:"raw,omitempty"`
	LimDelta int        `json:"lim_delta,omitempty"` // frame limit = len(bytes)+LimDelta (>= 0)
	Chunks   []int      `json:"chunks,omitempty"`    // write sizes (flush after each)
	Hostile  bool       `json:"hostile,omitempty"`   // generator intent (classes only)
}

type c33Case struct {
	Secs []c33Sec `json:"secs"`
	// Held: all round-trip sections are first encoded on ONE encoder, the returned
	// slices are kept, and only then written and decoded (as two messages of one
	// connection whose encodings overlap in time). Otherwise every section is encoded
	// on a fresh encoder and decoded at once.
	Held bool `json:"held,omitempty"`
}

// ---------------------------------------------------------------------------
// generators
// ---------------------------------------------------------------------------

func c33Pick(t *rapid.T, label string, n int) int {
	// near-uniform choice (rapid's IntRange is biased to small values)
	return int(rapid.Uint16().Draw(t, label)) % n
}

var c33Tokens = []string{"x-a", "foo", "x-custom-header", "a", "zz-top", "accept-x", "content-typ", "content-typee"}

func c33GenName(t *rapid.T) []byte {
	switch c33Pick(t, "nameKind", 16) {
	case 0, 1, 2, 3: // static-table name (regular)
		for {
			e := c33Static[c33Pick(t, "staticName", len(c33Static))]
			if e[0][0] != ':' {
				return []byte(e[0])
			}
		}
	case 4, 5: // static-table name with upper case
		for {
			e := c33Static[c33Pick(t, "staticNameU", len(c33Static))]
			if e[0][0] != ':' {
				b := []byte(e[0])
				k := c33Pick(t, "upperAt", len(b))
				b[k] = byte(strings.ToUpper(string(b[k : k+1]))[0])
				if rapid.Bool().Draw(t, "title") {
					b[0] = byte(strings.ToUpper(string(b[0:1]))[0])
				}
				return b
			}
		}
	case 6, 7, 8:
		return []byte(c33Tokens[c33Pick(t, "token", len(c33Tokens))])
	case 9: // mixed case literal
		s := []byte(c33Tokens[c33Pick(t, "tokenU", len(c33Tokens))])
		s[0] = byte(strings.ToUpper(string(s[0:1]))[0])
		return s
	case 10: // pseudo-header
		return []byte([]string{":method", ":path", ":status", ":authority", ":scheme", ":x", ":Method"}[c33Pick(t, "pseudo", 7)])
	case 11: // non-ASCII
		if c33Pick(t, "unicodeFold", 3) == 0 {
			// runes that Unicode case mapping turns into ASCII letters (U+212A KELVIN SIGN,
			// U+0130) or that ASCII upper-casing produces (U+017F, U+0131)
			s := c33Tokens[c33Pick(t, "tokenN", len(c33Tokens))]
			k := c33Pick(t, "nonasciiAt", len(s)+1)
			return []byte(s[:k] + []string{"\u212a", "\u0130", "\u017f", "\u0131", "\u00c9"}[c33Pick(t, "foldRune", 5)] + s[k:])
		}
		s := []byte(c33Tokens[c33Pick(t, "tokenN", len(c33Tokens))])
		s[c33Pick(t, "nonasciiAt", len(s))] = 0x80 | rapid.Byte().Draw(t, "hi")
		return s
	case 12: // printable but not a token / control characters
		s := []byte(c33Tokens[c33Pick(t, "tokenC", len(c33Tokens))])
		s[c33Pick(t, "oddAt", len(s))] = []byte{' ', '"', '(', '@', 0x7f, 0x00, '\n', '\t', 0x1f, '~'}[c33Pick(t, "odd", 10)]
		return s
	case 13: // arbitrary printable bytes, length at the 3-bit prefix boundary
		n := []int{1, 6, 7, 8, 9, 20, 134, 135, 136}[c33Pick(t, "nameLen", 9)]
		s := make([]byte, n)
		for i := range s {
			s[i] = 'a' + byte(rapid.IntRange(0, 25).Draw(t, "c"))
		}
		return s
	case 14:
		if c33Pick(t, "empty", 4) == 0 {
			return []byte{}
		}
		return []byte("x")
	default:
		return rapid.SliceOfN(rapid.Byte(), 1, 6).Draw(t, "nameBytes")
	}
}

func c33GenValue(t *rapid.T, name []byte) []byte {
	switch c33Pick(t, "valKind", 10) {
	case 0, 1, 2: // a static-table value of that name if there is one (exact hit)
		var vs []string
		ln := strings.ToLower(string(name))
		for _, e := range c33Static {
			if e[0] == ln {
				vs = append(vs, e[1])
			}
		}
		if len(vs) > 0 {
			v := []byte(vs[c33Pick(t, "staticVal", len(vs))])
			if len(v) > 0 && c33Pick(t, "otherCase", 4) == 0 {
				// a near miss of the static entry: same value in another letter case
				switch c33Pick(t, "caseKind", 3) {
				case 0:
					v = []byte(strings.ToUpper(string(v)))
				case 1:
					v = []byte(strings.ToLower(string(v)))
				default:
					k := c33Pick(t, "caseAt", len(v))
					v[k] = c33SwapCase(v[k])
				}
			}
			return v
		}
		return []byte("v")
	case 3:
		return []byte{}
	case 4, 5: // Huffman-favourable
		n := []int{1, 5, 126, 127, 128, 129, 300}[c33Pick(t, "valLen", 7)]
		s := make([]byte, n)
		for i := range s {
			s[i] = "aeiost012 /"[rapid.IntRange(0, 10).Draw(t, "c")]
		}
		return s
	case 6: // Huffman-unfavourable
		n := []int{1, 3, 126, 127, 128, 200}[c33Pick(t, "valLenB", 6)]
		s := make([]byte, n)
		for i := range s {
			s[i] = 0x80 | rapid.Byte().Draw(t, "b")
		}
		return s
	case 7:
		if vp.Thorough() {
			return rapid.SliceOfN(rapid.Byte(), 0, 5000).Draw(t, "longVal")
		}
		return rapid.SliceOfN(rapid.Byte(), 0, 600).Draw(t, "longVal")
	default:
		return rapid.SliceOfN(rapid.Byte(), 0, 12).Draw(t, "val")
	}
}

func c33SwapCase(c byte) byte {
	switch {
	case 'a' <= c && c <= 'z':
		return c - 32
	case 'A' <= c && c <= 'Z':
		return c + 32
	}
	return c
}

func c33GenFields(t *rapid.T) []c33Field {
	fs := rapid.SliceOfN(rapid.Custom(func(t *rapid.T) c33Field {
		n := c33GenName(t)
		return c33Field{N: n, V: c33GenValue(t, n), Never: c33Pick(t, "never", 3) == 0}
	}), 0, 10).Draw(t, "fields")
	if c33Pick(t, "pseudoFirst", 8) != 0 {
		// stable partition: pseudo-headers first (what HTTP/3 senders do)
		var a, b []c33Field
		for _, f := range fs {
			if len(f.N) > 0 && f.N[0] == ':' {
				a = append(a, f)
			} else {
				b = append(b, f)
			}
		}
		fs = append(a, b...)
	}
	return fs
}

// c33EncInt is the harness's own RFC 7541 5.1 integer writer; pad > 0 appends that many
// redundant continuation octets (only possible when v >= 2^n-1).
func c33EncInt(b []byte, high byte, n uint, v uint64, pad int) []byte {
	mask := uint64(1)<<n - 1
	if v < mask {
		return append(b, high|byte(v))
	}
	b = append(b, high|byte(mask))
	v -= mask
	for v >= 0x80 {
		b = append(b, byte(v)|0x80)
		v >>= 7
	}
	if pad == 0 {
		return append(b, byte(v))
	}
	b = append(b, byte(v)|0x80)
	for i := 0; i < pad-1; i++ {
		b = append(b, 0x80)
	}
	return append(b, 0x00)
}

var c33BigInts = []uint64{1 << 31, 1<<62 - 1, 1 << 62, 1<<63 - 1, 1 << 63, 1<<64 - 1}

func c33GenPad(t *rapid.T, hostile bool) int {
	if !hostile || c33Pick(t, "padQ", 4) != 0 {
		return 0
	}
	return []int{1, 2, 8, 9, 10, 11, 14}[c33Pick(t, "pad", 7)]
}

// c33GenString writes a string literal; when hostile it may lie about the length or
// break the Huffman coding.
func c33GenString(t *rapid.T, b []byte, high byte, n uint, hostile bool) []byte {
	var payload []byte
	switch c33Pick(t, "strKind", 6) {
	case 0:
	case 1, 2:
		k := []int{1, 3, 6, 7, 8, 30, 126, 127, 128}[c33Pick(t, "strLen", 9)]
		payload = make([]byte, k)
		for i := range payload {
			payload[i] = "abcxyz-:019 "[rapid.IntRange(0, 11).Draw(t, "c")]
		}
	case 3:
		payload = []byte(c33Static[c33Pick(t, "strStatic", len(c33Static))][0])
	default:
		payload = rapid.SliceOfN(rapid.Byte(), 0, 10).Draw(t, "strBytes")
	}
	huff := c33Pick(t, "huff", 2) == 0
	wire := payload
	if huff {
		high |= 1 << n
		wire = c33HuffEncode(payload)
		if hostile {
			switch c33Pick(t, "huffBreak", 8) {
			case 0:
				wire = append(wire, 0xff) // a whole octet of padding
			case 1:
				if len(wire) > 0 {
					wire[len(wire)-1] &^= 1 // padding bit cleared
				}
			case 2:
				wire = append(wire, 0xff, 0xff, 0xff, 0xff) // contains EOS
			case 3:
				if len(wire) > 1 {
					wire = wire[:len(wire)-1]
				}
			case 4:
				wire = rapid.SliceOfN(rapid.Byte(), 1, 8).Draw(t, "huffJunk")
			}
		}
	}
	l := uint64(len(wire))
	if hostile {
		switch c33Pick(t, "lenLie", 10) {
		case 0:
			l++
		case 1:
			l += uint64(rapid.IntRange(2, 300).Draw(t, "over"))
		case 2:
			if l > 0 {
				l--
			}
		case 3:
			l = c33BigInts[c33Pick(t, "bigLen", len(c33BigInts))]
		}
	}
	b = c33EncInt(b, high, n, l, c33GenPad(t, hostile))
	return append(b, wire...)
}

func c33GenIndex(t *rapid.T, hostile bool, boundary uint64) uint64 {
	if hostile && c33Pick(t, "idxBad", 3) == 0 {
		bad := append([]uint64{99, 100, 127, 128, 255, 16383, 16384}, c33BigInts...)
		return bad[c33Pick(t, "idxBadV", len(bad))]
	}
	if c33Pick(t, "idxB", 3) == 0 {
		return []uint64{0, boundary - 1, boundary, boundary + 1, 98}[c33Pick(t, "idxBV", 5)]
	}
	return uint64(c33Pick(t, "idx", 99))
}

func c33GenRaw(t *rapid.T) (raw []byte, hostile bool) {
	level := []int{0, 0, 0, 1, 1, 1, 2, 3}[c33Pick(t, "hostility", 8)] // 0: valid, 1: hostile prefix or one hostile line, 2,3: anything
	var b []byte
	// Encoded Field Section Prefix
	prefixHostile := level >= 2 && c33Pick(t, "prefixHostile", 3) == 0 || level == 1 && c33Pick(t, "prefixHostile1", 4) == 0
	if prefixHostile {
		hostile = true
		switch c33Pick(t, "prefixKind", 7) {
		case 0:
			b = c33EncInt(b, 0, 8, uint64(1+c33Pick(t, "ric", 300)), 0)
			b = append(b, 0)
		case 1:
			b = c33EncInt(b, 0, 8, c33BigInts[c33Pick(t, "ricBig", len(c33BigInts))], 0)
			b = append(b, 0)
		case 2: // delta base with sign and value
			b = append(b, 0)
			hi := byte(0)
			if rapid.Bool().Draw(t, "sign") {
				hi = 0x80
			}
			b = c33EncInt(b, hi, 7, uint64(c33Pick(t, "base", 400)), c33GenPad(t, true))
		case 3:
			b = append(b, 0)
			b = c33EncInt(b, 0, 7, c33BigInts[c33Pick(t, "baseBig", len(c33BigInts))], 0)
		case 4: // only one octet / nothing
			if rapid.Bool().Draw(t, "one") {
				b = append(b, 0)
			}
			return b, true
		case 5: // truncated multi-octet RIC
			b = append(b, 0xff, 0x80)
			return b, true
		default:
			b = append(b, rapid.Byte().Draw(t, "p0"), rapid.Byte().Draw(t, "p1"))
		}
	} else {
		b = append(b, 0, 0)
	}
	nLines := rapid.IntRange(0, 8).Draw(t, "nLines")
	hostileAt := -1
	if level == 1 && !prefixHostile && nLines > 0 {
		hostileAt = c33Pick(t, "hostileAt", nLines)
	}
	for i := 0; i < nLines; i++ {
		h := level >= 2 || i == hostileAt
		if h {
			hostile = true
		}
		kindN := 3
		if h {
			kindN = 8
		}
		switch c33Pick(t, "lineKind", kindN) {
		case 0: // indexed, static
			b = c33EncInt(b, 0xc0, 6, c33GenIndex(t, h, 63), c33GenPad(t, h))
		case 1: // literal with static name reference
			hi := byte(0x50)
			if rapid.Bool().Draw(t, "N") {
				hi |= 0x20
			}
			b = c33EncInt(b, hi, 4, c33GenIndex(t, h, 15), c33GenPad(t, h))
			b = c33GenString(t, b, 0, 7, h)
		case 2: // literal with literal name
			hi := byte(0x20)
			if rapid.Bool().Draw(t, "N2") {
				hi |= 0x10
			}
			b = c33GenString(t, b, hi, 3, h)
			b = c33GenString(t, b, 0, 7, h)
		case 3: // indexed, dynamic
			b = c33EncInt(b, 0x80, 6, uint64(c33Pick(t, "dynIdx", 70)), 0)
		case 4: // literal with dynamic name reference
			b = c33EncInt(b, 0x40, 4, uint64(c33Pick(t, "dynNIdx", 20)), 0)
			b = c33GenString(t, b, 0, 7, false)
		case 5: // indexed with post-base index
			b = c33EncInt(b, 0x10, 4, uint64(c33Pick(t, "pbIdx", 20)), 0)
		case 6: // literal with post-base name reference
			b = c33EncInt(b, 0x00, 3, uint64(c33Pick(t, "pbNIdx", 10)), 0)
			b = c33GenString(t, b, 0, 7, false)
		default: // junk
			b = append(b, rapid.SliceOfN(rapid.Byte(), 1, 4).Draw(t, "junk")...)
		}
	}
	// byte-level mutations
	if level == 3 && len(b) > 0 {
		for range rapid.IntRange(0, 3).Draw(t, "nMut") {
			p := c33Pick(t, "mutPos", len(b))
			switch c33Pick(t, "mutOp", 4) {
			case 0:
				b[p] ^= 1 << uint(c33Pick(t, "bit", 8))
			case 1:
				b[p] = rapid.Byte().Draw(t, "mutByte")
			case 2:
				b = b[:p]
			default:
				b = append(b[:p:p], append([]byte{rapid.Byte().Draw(t, "ins")}, b[p:]...)...)
			}
			if len(b) == 0 {
				break
			}
		}
	}
	return b, hostile
}

func c33Gen(t *rapid.T) c33Case {
	sec := rapid.Custom(func(t *rapid.T) c33Sec {
		var s c33Sec
		if c33Pick(t, "secKind", 5) < 2 {
			s.Fields = c33GenFields(t)
		} else {
			s.IsRaw = true
			s.Raw, s.Hostile = c33GenRaw(t)
			if c33Pick(t, "limQ", 6) == 0 {
				s.LimDelta = rapid.IntRange(-4, 4).Draw(t, "limDelta")
				if -s.LimDelta > len(s.Raw) {
					s.LimDelta = -len(s.Raw)
				}
			}
		}
		if c33Pick(t, "chunkQ", 4) == 0 {
			s.Chunks = rapid.SliceOfN(rapid.IntRange(1, 40), 1, 4).Draw(t, "chunks")
		}
		return s
	})
	return c33Case{Secs: rapid.SliceOfN(sec, 1, 6).Draw(t, "secs"), Held: rapid.Bool().Draw(t, "held")}
}

// ---------------------------------------------------------------------------
// oracle
// ---------------------------------------------------------------------------

// c33Expect is what the statement promises for an encoded field list: the lines
// that must come out, and whether the decoder must then reject (empty name, or a
// pseudo-header after a regular field, which the same statement tells it to reject).
type c33Expect struct {
	Lines  []c33Line
	Reject bool
	Why    string
}

func c33Lower(b []byte) string {
	o := make([]byte, len(b))
	for i, c := range b {
		if 'A' <= c && c <= 'Z' {
			c += 'a' - 'A'
		}
		o[i] = c
	}
	return string(o)
}

// c33Normalise applies the documented normalisation. Names with an octet >= 0x80 are
// skipped, printable-ASCII names are lower-cased; for names that are ASCII but contain
// control characters the statement does not say whether they count as "non-ASCII",
// so keepCtl selects the reading.
func c33Normalise(fs []c33Field, keepCtl bool) c33Expect {
	var e c33Expect
	sawRegular := false
	for _, f := range fs {
		nonASCII, ctl := false, false
		for _, c := range f.N {
			if c >= 0x80 {
				nonASCII = true
			} else if c < 0x20 || c == 0x7f {
				ctl = true
			}
		}
		if nonASCII || ctl && !keepCtl {
			continue
		}
		ln := c33Line{Name: c33Lower(f.N), Value: string(f.V), Never: f.Never}
		if ln.Name == "" {
			e.Reject, e.Why = true, "empty name"
			return e
		}
		if ln.Name[0] == ':' {
			if sawRegular {
				e.Reject, e.Why = true, "pseudo-header after regular field"
				return e
			}
		} else {
			sawRegular = true
		}
		e.Lines = append(e.Lines, ln)
	}
	return e
}

func c33LinesEqual(a, b []c33Line) bool {
	if len(a) != len(b) {
		return false
	}
	for i := range a {
		if a[i] != b[i] {
			return false
		}
	}
	return true
}

func c33IsPrefix(p, full []c33Line) bool {
	return len(p) <= len(full) && c33LinesEqual(p, full[:len(p)])
}

func c33Fmt(ls []c33Line) string {
	if len(ls) > 12 {
		return fmt.Sprintf("%v… (%d lines)", ls[:12], len(ls))
	}
	return fmt.Sprint(ls)
}

// c33Decode feeds wire through a fresh QUIC stream and runs the real decoder with the
// frame limit lim.
func c33Decode(c1, c2 *quic.Conn, wire []byte, chunks []int, lim int) (lines []c33Line, derr error, herr error) {
	ctx := context.Background()
	s1, err := c1.NewSendOnlyStream(ctx)
	if err != nil {
		return nil, nil, fmt.Errorf("harness: NewSendOnlyStream: %v", err)
	}
	rest := wire
	for _, n := range chunks {
		if len(rest) == 0 {
			break
		}
		if n > len(rest) {
			n = len(rest)
		}
		s1.Write(rest[:n])
		s1.Flush()
		rest = rest[n:]
	}
	s1.Write(rest)
	s1.CloseWrite()
	s2, err := c2.AcceptStream(ctx)
	if err != nil {
		return nil, nil, fmt.Errorf("harness: AcceptStream: %v", err)
	}
	defer s2.CloseRead()
	st := newStream(s2)
	st.lim = int64(lim)
	func() {
		defer func() {
			if p := recover(); p != nil {
				herr = fmt.Errorf("qpackDecoder.decode panicked: %v", p)
			}
		}()
		var dec qpackDecoder
		derr = dec.decode(st, func(it indexType, name, value string) error {
			lines = append(lines, c33Line{Name: name, Value: value, Never: it == neverIndex})
			if it != neverIndex && it != mayIndex {
				herr = fmt.Errorf("decoder delivered index type %#x", byte(it))
			}
			return nil
		})
	}()
	return lines, derr, herr
}

// c33Pre is a field section encoded ahead of time on a shared encoder: the slice the
// encoder returned, and a private copy taken right after that encode call.
type c33Pre struct {
	enc, snap []byte
}

func c33Encode(fs []c33Field) (enc []byte, err error) {
	var qe qpackEncoder
	qe.init()
	return c33EncodeOn(&qe, fs)
}

func c33EncodeOn(qe *qpackEncoder, fs []c33Field) (enc []byte, err error) {
	defer func() {
		if p := recover(); p != nil {
			err = fmt.Errorf("qpackEncoder.encode panicked: %v", p)
		}
	}()
	enc = qe.encode(func(f func(itype indexType, name, value string)) {
		for _, fl := range fs {
			it := indexType(mayIndex)
			if fl.Never {
				it = neverIndex
			}
			f(it, string(fl.N), string(fl.V))
		}
	})
	return enc, nil
}

func c33CheckOutcome(what string, e c33Expect, lines []c33Line, rejected bool) error {
	if e.Reject {
		if !rejected {
			return fmt.Errorf("%s: accepted, but the list has %s: got lines %s", what, e.Why, c33Fmt(lines))
		}
		if !c33IsPrefix(lines, e.Lines) {
			return fmt.Errorf("%s: lines before the rejection %s are not a prefix of %s", what, c33Fmt(lines), c33Fmt(e.Lines))
		}
		return nil
	}
	if rejected {
		return fmt.Errorf("%s: rejected a section that must decode to %s (got %s before the error)", what, c33Fmt(e.Lines), c33Fmt(lines))
	}
	if !c33LinesEqual(lines, e.Lines) {
		return fmt.Errorf("%s: got %s, want %s", what, c33Fmt(lines), c33Fmt(e.Lines))
	}
	return nil
}

func c33RunSec(c1, c2 *quic.Conn, i int, s c33Sec, pre *c33Pre, r *vp.Rec) error {
	if !s.IsRaw {
		var enc []byte
		if pre != nil {
			// the encoding handed out earlier must still be what it was
			if !bytes.Equal(pre.enc, pre.snap) {
				return fmt.Errorf("section %d: the field section returned by encode was %x, but after later encode calls on the same encoder the returned slice reads %x", i, pre.snap, pre.enc)
			}
			enc = pre.enc
			r.Class("rt:held-across-later-encodes")
		} else {
			var err error
			enc, err = c33Encode(s.Fields)
			if err != nil {
				return fmt.Errorf("section %d: %v", i, err)
			}
		}
		lines, derr, herr := c33Decode(c1, c2, enc, s.Chunks, len(enc))
		if herr != nil {
			return fmt.Errorf("section %d (round trip, encoded %x): %v", i, enc, herr)
		}
		ref := c33RefDecode(enc, len(enc))
		hasCtl := false
		var exact, nameHit, literal, upper, skipped bool
		for _, f := range s.Fields {
			ln := c33Lower(f.N)
			isStaticName, isExact := false, false
			for _, e := range c33Static {
				if e[0] == ln {
					isStaticName = true
					if e[1] == string(f.V) && !f.Never {
						isExact = true
					}
				}
			}
			for _, c := range f.N {
				if c < 0x20 || c == 0x7f {
					hasCtl = true
				}
				if c >= 0x80 {
					skipped = true
				}
				if 'A' <= c && c <= 'Z' {
					upper = true
				}
			}
			switch {
			case isExact:
				exact = true
			case isStaticName:
				nameHit = true
			default:
				literal = true
			}
		}
		var errs []error
		variants := []bool{false}
		if hasCtl {
			variants = []bool{false, true}
		}
		ok := false
		var exp c33Expect
		for _, keep := range variants {
			exp = c33Normalise(s.Fields, keep)
			e1 := c33CheckOutcome("real decoder on the real encoder's output", exp, lines, derr != nil)
			var e2 error
			if ref.Verdict == c33Either {
				e2 = fmt.Errorf("reference cannot judge the encoder's output: %s", ref.Why)
			} else {
				e2 = c33CheckOutcome("reference decoder on the real encoder's output", exp, ref.Lines, ref.Verdict == c33Reject)
			}
			if e1 == nil && e2 == nil {
				ok = true
				break
			}
			if e1 != nil {
				errs = append(errs, e1)
			}
			if e2 != nil {
				errs = append(errs, e2)
			}
		}
		if !ok {
			return fmt.Errorf("section %d (round trip, encoded %x, decode error %v): %v", i, enc, derr, errs[0])
		}
		r.Class("sec:roundtrip")
		if exp.Reject {
			r.Class("rt:list-must-be-rejected(" + exp.Why + ")")
		}
		if exact {
			r.Class("rt:static-exact-hit")
		}
		if nameHit {
			r.Class("rt:static-name-hit")
		}
		if literal {
			r.Class("rt:literal-name")
		}
		if upper {
			r.Class("rt:upper-case-name")
		}
		if skipped {
			r.Class("rt:non-ascii-name-skipped")
		}
		if hasCtl {
			r.Class("rt:control-char-name(either reading)")
		}
		if exact && nameHit && literal && !exp.Reject {
			r.Class("rt:mixes-all-three")
			r.NonTrivial()
		}
		return nil
	}
	lim := len(s.Raw) + s.LimDelta
	if lim < 0 {
		lim = 0
	}
	lines, derr, herr := c33Decode(c1, c2, s.Raw, s.Chunks, lim)
	if herr != nil {
		return fmt.Errorf("section %d (raw %x, lim %d): %v", i, s.Raw, lim, herr)
	}
	ref := c33RefDecode(s.Raw, lim)
	what := fmt.Sprintf("section %d (raw %x, lim %d)", i, s.Raw, lim)
	r.Class("sec:raw")
	switch ref.Verdict {
	case c33Either:
		r.Class("raw:no-verdict(integer beyond required sizes)")
		// the lines derived before the undetermined point must still agree
		k := min(len(lines), len(ref.Lines))
		if !c33LinesEqual(lines[:k], ref.Lines[:k]) || derr == nil && k < len(ref.Lines) {
			return fmt.Errorf("%s: decoder lines %s (err %v) disagree with the reference's %s before the point without verdict", what, c33Fmt(lines), derr, c33Fmt(ref.Lines))
		}
		return nil
	case c33Reject:
		if derr == nil {
			return fmt.Errorf("%s: decoder accepted (lines %s) but the section must be rejected: %s", what, c33Fmt(lines), ref.Why)
		}
		if !c33IsPrefix(lines, ref.Lines) {
			return fmt.Errorf("%s: lines delivered before the rejection %s are not a prefix of the reference's %s", what, c33Fmt(lines), c33Fmt(ref.Lines))
		}
		r.Class("raw:rejected")
		if s.Hostile && len(ref.Lines) > 0 {
			r.NonTrivial()
		}
	default:
		if derr != nil {
			return fmt.Errorf("%s: decoder rejected (%v, after lines %s) a valid static-only section; reference decodes %s", what, derr, c33Fmt(lines), c33Fmt(ref.Lines))
		}
		if !c33LinesEqual(lines, ref.Lines) {
			return fmt.Errorf("%s: decoder lines %s, reference %s", what, c33Fmt(lines), c33Fmt(ref.Lines))
		}
		r.Class("raw:accepted")
		if len(ref.Lines) >= 3 {
			r.NonTrivial()
		}
	}
	for _, f := range []struct {
		on   bool
		name string
	}{
		{ref.SawDyn, "raw:dynamic-ref"}, {ref.SawPostBase, "raw:post-base"}, {ref.SawBadIndex, "raw:static-index-out-of-range"},
		{ref.SawHuff, "raw:huffman-string"}, {ref.SawBadHuff, "raw:invalid-huffman"}, {ref.SawOversize, "raw:oversized-string"},
		{ref.SawEmptyName, "raw:empty-name"}, {ref.SawPseudoAfter, "raw:pseudo-after-regular"}, {ref.SawRIC, "raw:nonzero-RIC"},
		{ref.SawTrunc, "raw:truncated"}, {ref.SawBigInt, "raw:int>=2^62"}, {s.LimDelta < 0, "raw:frame-shorter-than-data"},
		{s.LimDelta > 0, "raw:frame-longer-than-data"},
	} {
		if f.on {
			r.Class(f.name)
		}
	}
	return nil
}

func c33Prop(c c33Case, r *vp.Rec) error {
	return vp.Bubble(func(t *testing.T) error {
		c1, c2, closeFn, err := vpConnPair(t)
		if err != nil {
			return err
		}
		defer closeFn()
		pres := make([]*c33Pre, len(c.Secs))
		if c.Held {
			var qe qpackEncoder
			qe.init()
			for i, s := range c.Secs {
				if s.IsRaw {
					continue
				}
				enc, err := c33EncodeOn(&qe, s.Fields)
				if err != nil {
					return fmt.Errorf("section %d: %v", i, err)
				}
				pres[i] = &c33Pre{enc: enc, snap: bytes.Clone(enc)}
			}
		}
		for i, s := range c.Secs {
			if err := c33RunSec(c1, c2, i, s, pres[i], r); err != nil {
				return err
			}
		}
		return nil
	})
}

func TestVP_C33(t *testing.T) {
	vp.Run(t, vp.Spec[c33Case]{ID: "C33", Gen: c33Gen, Prop: c33Prop})
}

// ---------------------------------------------------------------------------
// native fuzz target over the pure helpers: the encoder (appendPrefixedInt,
// appendPrefixedString, static-table lookups) against the reference decoder.
// ---------------------------------------------------------------------------

func c33FieldsFromBytes(data []byte) []c33Field {
	var fs []c33Field
	for len(data) >= 3 && len(fs) < 32 {
		flags, nl := data[0], int(data[1])%40
		data = data[2:]
		var f c33Field
		f.Never = flags&1 != 0
		if flags&2 != 0 {
			e := c33Static[nl%len(c33Static)]
			f.N = []byte(e[0])
			if flags&4 != 0 {
				f.V = []byte(e[1])
				fs = append(fs, f)
				continue
			}
		} else {
			if nl > len(data) {
				nl = len(data)
			}
			f.N = bytes.Clone(data[:nl])
			data = data[nl:]
		}
		if len(data) == 0 {
			fs = append(fs, f)
			break
		}
		vl := int(data[0])
		data = data[1:]
		if vl > len(data) {
			vl = len(data)
		}
		f.V = bytes.Clone(data[:vl])
		data = data[vl:]
		fs = append(fs, f)
	}
	return fs
}

func c33PureProp(fs []c33Field) error {
	var qe qpackEncoder
	qe.init()
	enc, err := c33EncodeOn(&qe, fs)
	if err != nil {
		return err
	}
	// a later encode on the same encoder must not change what was returned before
	snap := bytes.Clone(enc)
	rev := make([]c33Field, len(fs))
	for i, f := range fs {
		rev[len(fs)-1-i] = f
	}
	if _, err := c33EncodeOn(&qe, append(rev, c33Field{N: []byte("x-later"), V: []byte("1")})); err != nil {
		return err
	}
	if !bytes.Equal(enc, snap) {
		return fmt.Errorf("encode returned %x, but after another encode on the same encoder the returned slice reads %x", snap, enc)
	}
	ref := c33RefDecode(enc, len(enc))
	if ref.Verdict == c33Either {
		return fmt.Errorf("encoder output %x: reference has no verdict: %s", enc, ref.Why)
	}
	hasCtl := false
	for _, f := range fs {
		for _, c := range f.N {
			if c < 0x20 || c == 0x7f {
				hasCtl = true
			}
		}
	}
	e := c33CheckOutcome("reference decoder on the real encoder's output", c33Normalise(fs, false), ref.Lines, ref.Verdict == c33Reject)
	if e != nil && hasCtl {
		e = c33CheckOutcome("reference decoder on the real encoder's output", c33Normalise(fs, true), ref.Lines, ref.Verdict == c33Reject)
	}
	if e != nil {
		return fmt.Errorf("encoded %x: %v", enc, e)
	}
	// integer and string primitives
	for _, f := range fs {
		for n := uint8(3); n <= 8; n++ {
			v := uint64(len(f.V))*uint64(len(f.N)+1) + uint64(len(f.N))
			b := appendPrefixedInt(nil, 0, n, int64(v))
			d := &c33RefDec{d: b[1:], res: &c33RefResult{}}
			got, huge, long, ok := d.int(b[0], uint(n))
			if !ok || huge || long || got != v || d.pos != len(b)-1 {
				return fmt.Errorf("appendPrefixedInt(prefix %d, %d) = %x: reference reads %d (ok=%v huge=%v long=%v, %d octets left)", n, v, b, got, ok, huge, long, len(b)-1-d.pos)
			}
			if n < 8 {
				sb := appendPrefixedString(nil, 0, n, string(f.V))
				d := &c33RefDec{d: sb[1:], res: &c33RefResult{}}
				s, verdict, why := d.str(sb[0], uint(n))
				if verdict != c33Accept || s != string(f.V) || d.pos != len(sb)-1 {
					return fmt.Errorf("appendPrefixedString(prefix %d, %q) = %x: reference reads %q (%s)", n, f.V, sb, s, why)
				}
			}
		}
	}
	return nil
}

func FuzzVP_C33(f *testing.F) {
	f.Add([]byte{})
	f.Add([]byte{6, 17, 0})                                    // :method GET exact hit
	f.Add([]byte{2, 1, 3, '/', 'a', 'b'})                      // :path name hit
	f.Add([]byte{0, 3, 'F', 'o', 'o', 3, 'b', 'a', 'r'})       // literal, upper case
	f.Add([]byte{1, 2, 'x', 0xc3, 1, 'v', 0, 1, 'y', 1, 0xff}) // non-ASCII skipped, never-index
	f.Add([]byte{0, 0, 0, 0, 0, 0})
	f.Fuzz(func(t *testing.T, data []byte) {
		fs := c33FieldsFromBytes(data)
		if err := c33PureProp(fs); err != nil {
			vp.FuzzFail(t, "C33", "", c33Case{Secs: []c33Sec{{Fields: fs}}}, err)
		}
	})
}
