package http3

// Independent QPACK reference shared by the internal/http3 harnesses (written for C33): RFC 7541 Appendix B Huffman code (snapshot as literal
// data, self-checked for canonicity in init), RFC 9204 Appendix A static table
// (snapshot as literal data) and a static-table-only QPACK field-section decoder written
// from RFC 9204 section 4.5. Nothing in this file calls into the package under test.

import "fmt"

var c33HuffTab = [257]struct {
	code uint32
	n    uint8
}{
	{0x1ff8, 13}, {0x7fffd8, 23}, {0xfffffe2, 28}, {0xfffffe3, 28}, // 0-3
	{0xfffffe4, 28}, {0xfffffe5, 28}, {0xfffffe6, 28}, {0xfffffe7, 28}, // 4-7
	{0xfffffe8, 28}, {0xffffea, 24}, {0x3ffffffc, 30}, {0xfffffe9, 28}, // 8-11
	{0xfffffea, 28}, {0x3ffffffd, 30}, {0xfffffeb, 28}, {0xfffffec, 28}, // 12-15
	{0xfffffed, 28}, {0xfffffee, 28}, {0xfffffef, 28}, {0xffffff0, 28}, // 16-19
	{0xffffff1, 28}, {0xffffff2, 28}, {0x3ffffffe, 30}, {0xffffff3, 28}, // 20-23
	{0xffffff4, 28}, {0xffffff5, 28}, {0xffffff6, 28}, {0xffffff7, 28}, // 24-27
	{0xffffff8, 28}, {0xffffff9, 28}, {0xffffffa, 28}, {0xffffffb, 28}, // 28-31
	{0x14, 6}, {0x3f8, 10}, {0x3f9, 10}, {0xffa, 12}, // 32-35
	{0x1ff9, 13}, {0x15, 6}, {0xf8, 8}, {0x7fa, 11}, // 36-39
	{0x3fa, 10}, {0x3fb, 10}, {0xf9, 8}, {0x7fb, 11}, // 40-43
	{0xfa, 8}, {0x16, 6}, {0x17, 6}, {0x18, 6}, // 44-47
	{0x0, 5}, {0x1, 5}, {0x2, 5}, {0x19, 6}, // 48-51
	{0x1a, 6}, {0x1b, 6}, {0x1c, 6}, {0x1d, 6}, // 52-55
	{0x1e, 6}, {0x1f, 6}, {0x5c, 7}, {0xfb, 8}, // 56-59
	{0x7ffc, 15}, {0x20, 6}, {0xffb, 12}, {0x3fc, 10}, // 60-63
	{0x1ffa, 13}, {0x21, 6}, {0x5d, 7}, {0x5e, 7}, // 64-67
	{0x5f, 7}, {0x60, 7}, {0x61, 7}, {0x62, 7}, // 68-71
	{0x63, 7}, {0x64, 7}, {0x65, 7}, {0x66, 7}, // 72-75
	{0x67, 7}, {0x68, 7}, {0x69, 7}, {0x6a, 7}, // 76-79
	{0x6b, 7}, {0x6c, 7}, {0x6d, 7}, {0x6e, 7}, // 80-83
	{0x6f, 7}, {0x70, 7}, {0x71, 7}, {0x72, 7}, // 84-87
	{0xfc, 8}, {0x73, 7}, {0xfd, 8}, {0x1ffb, 13}, // 88-91
	{0x7fff0, 19}, {0x1ffc, 13}, {0x3ffc, 14}, {0x22, 6}, // 92-95
	{0x7ffd, 15}, {0x3, 5}, {0x23, 6}, {0x4, 5}, // 96-99
	{0x24, 6}, {0x5, 5}, {0x25, 6}, {0x26, 6}, // 100-103
	{0x27, 6}, {0x6, 5}, {0x74, 7}, {0x75, 7}, // 104-107
	{0x28, 6}, {0x29, 6}, {0x2a, 6}, {0x7, 5}, // 108-111
	{0x2b, 6}, {0x76, 7}, {0x2c, 6}, {0x8, 5}, // 112-115
	{0x9, 5}, {0x2d, 6}, {0x77, 7}, {0x78, 7}, // 116-119
	{0x79, 7}, {0x7a, 7}, {0x7b, 7}, {0x7ffe, 15}, // 120-123
	{0x7fc, 11}, {0x3ffd, 14}, {0x1ffd, 13}, {0xffffffc, 28}, // 124-127
	{0xfffe6, 20}, {0x3fffd2, 22}, {0xfffe7, 20}, {0xfffe8, 20}, // 128-131
	{0x3fffd3, 22}, {0x3fffd4, 22}, {0x3fffd5, 22}, {0x7fffd9, 23}, // 132-135
	{0x3fffd6, 22}, {0x7fffda, 23}, {0x7fffdb, 23}, {0x7fffdc, 23}, // 136-139
	{0x7fffdd, 23}, {0x7fffde, 23}, {0xffffeb, 24}, {0x7fffdf, 23}, // 140-143
	{0xffffec, 24}, {0xffffed, 24}, {0x3fffd7, 22}, {0x7fffe0, 23}, // 144-147
	{0xffffee, 24}, {0x7fffe1, 23}, {0x7fffe2, 23}, {0x7fffe3, 23}, // 148-151
	{0x7fffe4, 23}, {0x1fffdc, 21}, {0x3fffd8, 22}, {0x7fffe5, 23}, // 152-155
	{0x3fffd9, 22}, {0x7fffe6, 23}, {0x7fffe7, 23}, {0xffffef, 24}, // 156-159
	{0x3fffda, 22}, {0x1fffdd, 21}, {0xfffe9, 20}, {0x3fffdb, 22}, // 160-163
	{0x3fffdc, 22}, {0x7fffe8, 23}, {0x7fffe9, 23}, {0x1fffde, 21}, // 164-167
	{0x7fffea, 23}, {0x3fffdd, 22}, {0x3fffde, 22}, {0xfffff0, 24}, // 168-171
	{0x1fffdf, 21}, {0x3fffdf, 22}, {0x7fffeb, 23}, {0x7fffec, 23}, // 172-175
	{0x1fffe0, 21}, {0x1fffe1, 21}, {0x3fffe0, 22}, {0x1fffe2, 21}, // 176-179
	{0x7fffed, 23}, {0x3fffe1, 22}, {0x7fffee, 23}, {0x7fffef, 23}, // 180-183
	{0xfffea, 20}, {0x3fffe2, 22}, {0x3fffe3, 22}, {0x3fffe4, 22}, // 184-187
	{0x7ffff0, 23}, {0x3fffe5, 22}, {0x3fffe6, 22}, {0x7ffff1, 23}, // 188-191
	{0x3ffffe0, 26}, {0x3ffffe1, 26}, {0xfffeb, 20}, {0x7fff1, 19}, // 192-195
	{0x3fffe7, 22}, {0x7ffff2, 23}, {0x3fffe8, 22}, {0x1ffffec, 25}, // 196-199
	{0x3ffffe2, 26}, {0x3ffffe3, 26}, {0x3ffffe4, 26}, {0x7ffffde, 27}, // 200-203
	{0x7ffffdf, 27}, {0x3ffffe5, 26}, {0xfffff1, 24}, {0x1ffffed, 25}, // 204-207
	{0x7fff2, 19}, {0x1fffe3, 21}, {0x3ffffe6, 26}, {0x7ffffe0, 27}, // 208-211
	{0x7ffffe1, 27}, {0x3ffffe7, 26}, {0x7ffffe2, 27}, {0xfffff2, 24}, // 212-215
	{0x1fffe4, 21}, {0x1fffe5, 21}, {0x3ffffe8, 26}, {0x3ffffe9, 26}, // 216-219
	{0xffffffd, 28}, {0x7ffffe3, 27}, {0x7ffffe4, 27}, {0x7ffffe5, 27}, // 220-223
	{0xfffec, 20}, {0xfffff3, 24}, {0xfffed, 20}, {0x1fffe6, 21}, // 224-227
	{0x3fffe9, 22}, {0x1fffe7, 21}, {0x1fffe8, 21}, {0x7ffff3, 23}, // 228-231
	{0x3fffea, 22}, {0x3fffeb, 22}, {0x1ffffee, 25}, {0x1ffffef, 25}, // 232-235
	{0xfffff4, 24}, {0xfffff5, 24}, {0x3ffffea, 26}, {0x7ffff4, 23}, // 236-239
	{0x3ffffeb, 26}, {0x7ffffe6, 27}, {0x3ffffec, 26}, {0x3ffffed, 26}, // 240-243
	{0x7ffffe7, 27}, {0x7ffffe8, 27}, {0x7ffffe9, 27}, {0x7ffffea, 27}, // 244-247
	{0x7ffffeb, 27}, {0xffffffe, 28}, {0x7ffffec, 27}, {0x7ffffed, 27}, // 248-251
	{0x7ffffee, 27}, {0x7ffffef, 27}, {0x7fffff0, 27}, {0x3ffffee, 26}, // 252-255
	{0x3fffffff, 30}, // EOS
}

// c33HuffTrie is a binary trie over the code table: node i has children
// c33HuffTrie[i][0], c33HuffTrie[i][1]; a value < 0 is a leaf for symbol -(v+1).
var c33HuffTrie [][2]int32

func init() {
	// sanity of the snapshot: canonical code + complete prefix code
	type ent struct {
		sym  int
		code uint32
		n    uint8
	}
	es := make([]ent, 0, 257)
	for s, e := range c33HuffTab {
		es = append(es, ent{s, e.code, e.n})
	}
	for i := 1; i < len(es); i++ { // insertion sort by (n, sym)
		for j := i; j > 0 && (es[j-1].n > es[j].n || es[j-1].n == es[j].n && es[j-1].sym > es[j].sym); j-- {
			es[j-1], es[j] = es[j], es[j-1]
		}
	}
	var code uint32
	var kraft uint64
	for k, x := range es {
		if k > 0 {
			code = (code + 1) << (x.n - es[k-1].n)
		}
		if code != x.code {
			panic(fmt.Sprintf("c33: Huffman snapshot is not canonical at symbol %d", x.sym))
		}
		kraft += 1 << (30 - x.n)
	}
	if kraft != 1<<30 || es[len(es)-1].sym != 256 || es[len(es)-1].code != 0x3fffffff {
		panic("c33: Huffman snapshot is not a complete prefix code ending in EOS")
	}
	// trie
	c33HuffTrie = append(c33HuffTrie, [2]int32{})
	for s, e := range c33HuffTab {
		cur := int32(0)
		for i := int(e.n) - 1; i >= 0; i-- {
			bit := e.code >> uint(i) & 1
			if i == 0 {
				if c33HuffTrie[cur][bit] != 0 {
					panic("c33: Huffman snapshot has a duplicate code")
				}
				c33HuffTrie[cur][bit] = -int32(s + 1)
				break
			}
			nx := c33HuffTrie[cur][bit]
			if nx < 0 {
				panic("c33: Huffman snapshot is not prefix-free")
			}
			if nx == 0 {
				c33HuffTrie = append(c33HuffTrie, [2]int32{})
				nx = int32(len(c33HuffTrie) - 1)
				c33HuffTrie[cur][bit] = nx
			}
			cur = nx
		}
	}
}

// c33HuffEncode is the canonical encoding of RFC 7541 section 5.2: the codes of
// the symbols, most significant bit first, padded to the next octet boundary
// with the most significant bits of EOS (all ones).
func c33HuffEncode(s []byte) []byte {
	out := []byte{}
	var cur byte
	fill := 0
	put := func(bit byte) {
		cur = cur<<1 | bit
		fill++
		if fill == 8 {
			out = append(out, cur)
			cur, fill = 0, 0
		}
	}
	for _, c := range s {
		e := c33HuffTab[c]
		for i := int(e.n) - 1; i >= 0; i-- {
			put(byte(e.code >> uint(i) & 1))
		}
	}
	for fill != 0 {
		put(1)
	}
	return out
}

// c33HuffBits is the exact number of code bits of s (without padding).
func c33HuffBits(s []byte) int {
	n := 0
	for _, c := range s {
		n += int(c33HuffTab[c].n)
	}
	return n
}

// c33HuffDecode decodes bit by bit. It accepts exactly: a sequence of symbol
// codes (no EOS) followed by fewer than 8 one-bits. why != "" means rejected.
func c33HuffDecode(v []byte) (out []byte, why string) {
	out = []byte{}
	cur := int32(0)
	pend := 0       // bits consumed since the last complete symbol
	allOnes := true // those bits are all ones
	for _, b := range v {
		for i := 7; i >= 0; i-- {
			bit := b >> uint(i) & 1
			if bit == 0 {
				allOnes = false
			}
			pend++
			nx := c33HuffTrie[cur][bit]
			if nx == 0 {
				return nil, "bit string matches no code"
			}
			if nx < 0 {
				sym := int(-nx) - 1
				if sym == 256 {
					return nil, "EOS symbol inside the string"
				}
				out = append(out, byte(sym))
				cur, pend, allOnes = 0, 0, true
			} else {
				cur = nx
			}
		}
	}
	if pend > 7 {
		return nil, "incomplete symbol / more than 7 bits of padding"
	}
	if !allOnes {
		return nil, "padding is not the most significant bits of EOS"
	}
	return out, ""
}

// ---------------------------------------------------------------------------
// RFC 9204 Appendix A: static table (index 0..98), literal snapshot.
// ---------------------------------------------------------------------------

var c33Static = [99][2]string{
	{":authority", ""}, {":path", "/"}, {"age", "0"}, {"content-disposition", ""}, {"content-length", "0"},
	{"cookie", ""}, {"date", ""}, {"etag", ""}, {"if-modified-since", ""}, {"if-none-match", ""},
	{"last-modified", ""}, {"link", ""}, {"location", ""}, {"referer", ""}, {"set-cookie", ""},
	{":method", "CONNECT"}, {":method", "DELETE"}, {":method", "GET"}, {":method", "HEAD"}, {":method", "OPTIONS"},
	{":method", "POST"}, {":method", "PUT"}, {":scheme", "http"}, {":scheme", "https"}, {":status", "103"},
	{":status", "200"}, {":status", "304"}, {":status", "404"}, {":status", "503"}, {"accept", "*/*"},
	{"accept", "application/dns-message"}, {"accept-encoding", "gzip, deflate, br"}, {"accept-ranges", "bytes"},
	{"access-control-allow-headers", "cache-control"}, {"access-control-allow-headers", "content-type"},
	{"access-control-allow-origin", "*"}, {"cache-control", "max-age=0"}, {"cache-control", "max-age=2592000"},
	{"cache-control", "max-age=604800"}, {"cache-control", "no-cache"}, {"cache-control", "no-store"},
	{"cache-control", "public, max-age=31536000"}, {"content-encoding", "br"}, {"content-encoding", "gzip"},
	{"content-type", "application/dns-message"}, {"content-type", "application/javascript"},
	{"content-type", "application/json"}, {"content-type", "application/x-www-form-urlencoded"},
	{"content-type", "image/gif"}, {"content-type", "image/jpeg"}, {"content-type", "image/png"},
	{"content-type", "text/css"}, {"content-type", "text/html; charset=utf-8"}, {"content-type", "text/plain"},
	{"content-type", "text/plain;charset=utf-8"}, {"range", "bytes=0-"},
	{"strict-transport-security", "max-age=31536000"},
	{"strict-transport-security", "max-age=31536000; includesubdomains"},
	{"strict-transport-security", "max-age=31536000; includesubdomains; preload"},
	{"vary", "accept-encoding"}, {"vary", "origin"}, {"x-content-type-options", "nosniff"},
	{"x-xss-protection", "1; mode=block"}, {":status", "100"}, {":status", "204"}, {":status", "206"},
	{":status", "302"}, {":status", "400"}, {":status", "403"}, {":status", "421"}, {":status", "425"},
	{":status", "500"}, {"accept-language", ""}, {"access-control-allow-credentials", "FALSE"},
	{"access-control-allow-credentials", "TRUE"}, {"access-control-allow-headers", "*"},
	{"access-control-allow-methods", "get"}, {"access-control-allow-methods", "get, post, options"},
	{"access-control-allow-methods", "options"}, {"access-control-expose-headers", "content-length"},
	{"access-control-request-headers", "content-type"}, {"access-control-request-method", "get"},
	{"access-control-request-method", "post"}, {"alt-svc", "clear"}, {"authorization", ""},
	{"content-security-policy", "script-src 'none'; object-src 'none'; base-uri 'none'"}, {"early-data", "1"},
	{"expect-ct", ""}, {"forwarded", ""}, {"if-range", ""}, {"origin", ""}, {"purpose", "prefetch"},
	{"server", ""}, {"timing-allow-origin", "*"}, {"upgrade-insecure-requests", "1"}, {"user-agent", ""},
	{"x-forwarded-for", ""}, {"x-frame-options", "deny"}, {"x-frame-options", "sameorigin"},
}

// ---------------------------------------------------------------------------
// Reference decoder.
// ---------------------------------------------------------------------------

type c33Line struct {
	Name  string
	Value string
	Never bool
}

func (l c33Line) String() string { return fmt.Sprintf("{%q: %q never=%v}", l.Name, l.Value, l.Never) }

const (
	c33Accept = iota // the section is valid for a static-table-only decoder
	c33Reject        // the statement requires rejection
	c33Either        // an integer exceeds what RFC 9204 4.1.1 obliges a decoder to handle; no verdict
)

type c33RefResult struct {
	Lines   []c33Line // lines derived before the verdict point
	Verdict int
	Why     string
	// feature flags for the class report
	SawDyn, SawPostBase, SawBadIndex, SawHuff, SawBadHuff, SawOversize, SawEmptyName, SawPseudoAfter, SawRIC, SawTrunc, SawBigInt bool
}

type c33RefDec struct {
	d   []byte
	pos int
	res *c33RefResult
}

// int reads an RFC 7541 5.1 integer whose first octet (already consumed) is first.
// huge: the value is >= 2^62 (beyond what a decoder must support); long: more than 10
// continuation octets (octet-length limits are implementation-defined).
func (r *c33RefDec) int(first byte, n uint) (v uint64, huge, long, ok bool) {
	mask := byte(1<<n - 1)
	v = uint64(first & mask)
	if first&mask != mask {
		return v, false, false, true
	}
	shift := uint(0)
	cnt := 0
	for {
		if r.pos >= len(r.d) {
			return 0, false, false, false
		}
		b := r.d[r.pos]
		r.pos++
		cnt++
		p := uint64(b & 0x7f)
		if p != 0 {
			if shift >= 62 {
				huge = true
			} else {
				add := p << shift
				if add >= 1<<62 || v+add >= 1<<62 {
					huge = true
				} else {
					v += add
				}
			}
		}
		shift += 7
		if b&0x80 == 0 {
			break
		}
	}
	if huge {
		r.res.SawBigInt = true
	}
	return v, huge, cnt > 10, true
}

// str reads an RFC 7541 5.2 string literal whose first octet (already consumed) carries
// an n-bit length prefix and the H flag in bit n.
func (r *c33RefDec) str(first byte, n uint) (s string, verdict int, why string) {
	l, huge, long, ok := r.int(first, n)
	if !ok {
		r.res.SawTrunc = true
		return "", c33Reject, "string length runs past the end of the section"
	}
	if huge {
		r.res.SawOversize = true
		return "", c33Reject, "string length >= 2^62"
	}
	if l > uint64(len(r.d)-r.pos) {
		r.res.SawOversize = true
		return "", c33Reject, "string longer than the rest of the section"
	}
	if long {
		return "", c33Either, "string length encoded in more than 10 continuation octets"
	}
	raw := r.d[r.pos : r.pos+int(l)]
	r.pos += int(l)
	if first&(1<<n) != 0 {
		r.res.SawHuff = true
		out, bad := c33HuffDecode(raw)
		if bad != "" {
			r.res.SawBadHuff = true
			return "", c33Reject, "invalid Huffman string: " + bad
		}
		return string(out), c33Accept, ""
	}
	return string(raw), c33Accept, ""
}

// c33RefDecode decodes the field section made of the first lim octets of the stream
// whose complete content is b (the stream ends after b).
func c33RefDecode(b []byte, lim int) c33RefResult {
	var res c33RefResult
	d := b
	if lim < len(d) {
		d = d[:lim]
	}
	r := &c33RefDec{d: d, res: &res}
	fail := func(v int, why string) c33RefResult {
		res.Verdict, res.Why = v, why
		return res
	}
	next := func() (byte, bool) {
		if r.pos >= len(r.d) {
			return 0, false
		}
		c := r.d[r.pos]
		r.pos++
		return c, true
	}
	// Encoded Field Section Prefix (RFC 9204 4.5.1).
	c, ok := next()
	if !ok {
		res.SawTrunc = true
		return fail(c33Reject, "no Required Insert Count")
	}
	ric, huge, long, ok := r.int(c, 8)
	if !ok {
		res.SawTrunc = true
		return fail(c33Reject, "truncated Required Insert Count")
	}
	if ric != 0 || huge {
		res.SawRIC = true
		return fail(c33Reject, "non-zero Required Insert Count")
	}
	if long {
		return fail(c33Either, "Required Insert Count 0 in more than 10 continuation octets")
	}
	c, ok = next()
	if !ok {
		res.SawTrunc = true
		return fail(c33Reject, "no Delta Base")
	}
	_, huge, long, ok = r.int(c, 7)
	if !ok {
		res.SawTrunc = true
		return fail(c33Reject, "truncated Delta Base")
	}
	if huge || long {
		return fail(c33Either, "Delta Base beyond the integer sizes a decoder must support")
	}
	sawRegular := false
	for r.pos < len(r.d) {
		c, _ := next()
		var ln c33Line
		switch {
		case c&0x80 != 0: // Indexed Field Line: 1 T index(6+)
			idx, huge, long, ok := r.int(c, 6)
			if !ok {
				res.SawTrunc = true
				return fail(c33Reject, "truncated index")
			}
			if c&0x40 == 0 {
				res.SawDyn = true
				return fail(c33Reject, "dynamic-table reference")
			}
			if huge || idx >= uint64(len(c33Static)) {
				res.SawBadIndex = true
				return fail(c33Reject, "static index out of range")
			}
			if long {
				return fail(c33Either, "index encoded in more than 10 continuation octets")
			}
			ln = c33Line{Name: c33Static[idx][0], Value: c33Static[idx][1]}
		case c&0xc0 == 0x40: // Literal Field Line With Name Reference: 0 1 N T index(4+)
			idx, huge, long, ok := r.int(c, 4)
			if !ok {
				res.SawTrunc = true
				return fail(c33Reject, "truncated name index")
			}
			if c&0x10 == 0 {
				res.SawDyn = true
				return fail(c33Reject, "dynamic-table name reference")
			}
			if huge || idx >= uint64(len(c33Static)) {
				res.SawBadIndex = true
				return fail(c33Reject, "static name index out of range")
			}
			if long {
				return fail(c33Either, "name index encoded in more than 10 continuation octets")
			}
			f, ok := next()
			if !ok {
				res.SawTrunc = true
				return fail(c33Reject, "missing value")
			}
			v, verdict, why := r.str(f, 7)
			if verdict != c33Accept {
				return fail(verdict, "value: "+why)
			}
			ln = c33Line{Name: c33Static[idx][0], Value: v, Never: c&0x20 != 0}
		case c&0xe0 == 0x20: // Literal Field Line With Literal Name: 0 0 1 N H namelen(3+)
			n, verdict, why := r.str(c, 3)
			if verdict != c33Accept {
				return fail(verdict, "name: "+why)
			}
			f, ok := next()
			if !ok {
				res.SawTrunc = true
				return fail(c33Reject, "missing value")
			}
			v, verdict, why := r.str(f, 7)
			if verdict != c33Accept {
				return fail(verdict, "value: "+why)
			}
			ln = c33Line{Name: n, Value: v, Never: c&0x10 != 0}
		default: // 0001xxxx Indexed With Post-Base Index, 0000xxxx Literal With Post-Base Name Reference
			res.SawPostBase = true
			return fail(c33Reject, "post-base (dynamic table) representation")
		}
		if ln.Name == "" {
			res.SawEmptyName = true
			return fail(c33Reject, "empty field name")
		}
		if ln.Name[0] == ':' {
			if sawRegular {
				res.SawPseudoAfter = true
				return fail(c33Reject, "pseudo-header after a regular field")
			}
		} else {
			sawRegular = true
		}
		res.Lines = append(res.Lines, ln)
	}
	if lim > len(b) {
		res.SawTrunc = true
		return fail(c33Reject, "stream ends before the end of the frame")
	}
	return fail(c33Accept, "")
}
