package timeseries

import (
	"fmt"
	"testing"
	"time"

	"pgregory.net/rapid"
	"verif/vp"
)

// C61: time series keep an exact total of all observations.
//
// A case is a history of operations on one TimeSeries (10 levels x 64 buckets) or
// MinuteHourSeries (2 levels x 60 buckets) driven by a harness clock:
//
//	add    AddWithTime(V, T)            V integer-valued, T absolute UnixNano
//	latest clock := T; Latest(Level, N) (Minute()/Hour() for the minute-hour series)
//	range  ComputeRange(a, b, P) with a = end(Level) - K*size(Level), b = a + M*size(Level),
//	       P | M  (P == 1 goes through Range)
//	total  Total()
//	clear  Clear()
//
// The model is the list of (T, V) since the last clear plus the "horizon" (largest
// time the series has been told about, by an observation or by the clock). Level i is
// expected to retain the 64 (60) buckets ending at the smallest multiple of size(i)
// that is >= horizon; the multiples are counted from the Unix epoch.

const (
	c61Add = iota
	c61Latest
	c61Range
	c61Total
	c61Clear
)

type c61Op struct {
	Kind  int   `json:"kind"`
	T     int64 `json:"t,omitempty"` // add: observation time; latest: clock time (UnixNano)
	V     int64 `json:"v,omitempty"` // add: observation value
	Level int   `json:"level,omitempty"`
	N     int   `json:"n,omitempty"` // latest: number of buckets
	K     int   `json:"k,omitempty"` // range: start is K buckets before the level's end
	M     int   `json:"m,omitempty"` // range: length in buckets
	P     int   `json:"p,omitempty"` // range: number of pieces, divides M
	// Alt selects the other entry point to the same functionality: add = set the clock
	// and Add; latest = LatestBuckets (bucket by bucket); range = set the clock to the
	// range's end and Recent / RecentList.
	Alt bool `json:"alt,omitempty"`
}

type c61Case struct {
	MinuteHour bool    `json:"minute_hour"`
	Ops        []c61Op `json:"ops"`
}

type c61Clock struct{ t time.Time }

func (c *c61Clock) Time() time.Time { return c.t }

const (
	c61MinT = int64(100_000_000) * int64(time.Second)   // 1973
	c61MaxT = int64(7_000_000_000) * int64(time.Second) // 2191 (UnixNano is defined until 2262)
	c61Base = int64(1_000_000_000) * int64(time.Second) // 2001
)

func c61Resolutions(minuteHour bool) ([]time.Duration, int) {
	if minuteHour {
		return []time.Duration{time.Second, time.Minute}, 60
	}
	return []time.Duration{
		time.Second, 10 * time.Second, time.Minute, 10 * time.Minute, time.Hour, 6 * time.Hour,
		24 * time.Hour, 7 * 24 * time.Hour, 4 * 7 * 24 * time.Hour, 16 * 7 * 24 * time.Hour,
	}, 64
}

// c61Ceil returns the smallest multiple of size that is >= t (t > 0).
func c61Ceil(t int64, size time.Duration) int64 {
	s := int64(size)
	return (t + s - 1) / s * s
}

func c61Clamp(t int64) int64 {
	if t < c61MinT {
		return c61MinT
	}
	if t > c61MaxT {
		return c61MaxT
	}
	return t
}

func c61Gen(t *rapid.T) c61Case {
	c := c61Case{MinuteHour: rapid.IntRange(0, 3).Draw(t, "minuteHour") == 0}
	res, nb := c61Resolutions(c.MinuteHour)
	n := rapid.IntRange(1, 60).Draw(t, "nops")
	if vp.Thorough() && rapid.IntRange(0, 9).Draw(t, "long") == 0 {
		n = rapid.IntRange(60, 300).Draw(t, "nopsLong")
	}
	h := int64(0) // generator's idea of the horizon (only used to aim the times)
	var times []int64
	drawTime := func() int64 {
		base := h
		if base == 0 {
			base = c61Base + rapid.Int64Range(0, int64(400*24*time.Hour)).Draw(t, "start")
		}
		lv := rapid.IntRange(0, len(res)-1).Draw(t, "tlevel")
		size := int64(res[lv])
		var x int64
		switch rapid.IntRange(0, 9).Draw(t, "tkind") {
		case 0, 1, 2: // small step forward
			x = base + rapid.Int64Range(0, int64(3*time.Second)).Draw(t, "fwdSmall")
		case 3: // equal to an earlier time
			if len(times) > 0 {
				x = times[rapid.IntRange(0, len(times)-1).Draw(t, "same")]
			} else {
				x = base
			}
		case 4: // forward by up to 200 buckets of some level (crosses its window)
			x = base + rapid.Int64Range(0, 200).Draw(t, "fwdBuckets")*size + rapid.Int64Range(0, size).Draw(t, "fwdFrac")
		case 5, 6, 7: // backwards inside (or just beyond) the window of some level
			x = base - rapid.Int64Range(0, int64(nb)+2).Draw(t, "backBuckets")*size - rapid.Int64Range(0, size).Draw(t, "backFrac")
		case 8: // far past
			x = base - rapid.Int64Range(0, int64(25*365*24*time.Hour)).Draw(t, "farPast")
		default: // far future
			x = base + rapid.Int64Range(0, int64(5*365*24*time.Hour)).Draw(t, "farFuture")
		}
		if rapid.IntRange(0, 2).Draw(t, "snap") == 0 { // on / next to a bucket boundary
			ssize := int64(res[rapid.IntRange(0, lv).Draw(t, "snapLevel")])
			x = x / ssize * ssize
			x += rapid.Int64Range(-1, 1).Draw(t, "snapDelta")
		}
		return c61Clamp(x)
	}
	for i := 0; i < n; i++ {
		var op c61Op
		op.Alt = rapid.IntRange(0, 3).Draw(t, "alt") == 0
		switch k := rapid.IntRange(0, 19).Draw(t, "op"); {
		case k < 10:
			op.Kind = c61Add
			op.T = drawTime()
			op.V = rapid.Int64Range(-1<<20, 1<<20).Draw(t, "v")
			if rapid.IntRange(0, 3).Draw(t, "smallV") > 0 {
				op.V = rapid.Int64Range(1, 9).Draw(t, "v1")
			}
			times = append(times, op.T)
			if op.T > h {
				h = op.T
			}
		case k < 12:
			op.Kind = c61Latest
			op.T = drawTime()
			op.Level = rapid.IntRange(0, len(res)-1).Draw(t, "level")
			op.N = rapid.IntRange(0, nb).Draw(t, "n")
			if c.MinuteHour {
				op.N = nb // Minute()/Hour()
			}
			if op.T > h {
				h = op.T
			}
		case k < 17:
			op.Kind = c61Range
			op.Level = rapid.IntRange(0, len(res)-1).Draw(t, "level")
			op.K = rapid.IntRange(1, nb).Draw(t, "k")
			op.M = rapid.IntRange(1, op.K+1).Draw(t, "m")
			op.P = 1
			if rapid.Bool().Draw(t, "pieces") {
				var divs []int
				for d := 1; d <= op.M; d++ {
					if op.M%d == 0 {
						divs = append(divs, d)
					}
				}
				op.P = rapid.SampledFrom(divs).Draw(t, "p")
			}
		case k < 19:
			op.Kind = c61Total
		default:
			op.Kind = c61Clear
			h = 0
		}
		c.Ops = append(c.Ops, op)
	}
	return c
}

type c61Obs struct {
	t int64
	v float64
}

// c61Sum returns the sum of observations strictly inside (a,b) and those exactly on a
// and on b.
func c61Sum(obs []c61Obs, a, b int64) (inner, onA, onB float64) {
	for _, o := range obs {
		switch {
		case o.t == a:
			onA += o.v
		case o.t == b:
			onB += o.v
		case a < o.t && o.t < b:
			inner += o.v
		}
	}
	if a == b {
		onB = 0
	}
	return
}

// c61Match reports whether got is the sum of the observations in the range under one
// of the edge conventions (an observation exactly on an edge may be counted or not).
func c61Match(got, inner, onA, onB float64) bool {
	return got == inner || got == inner+onA || got == inner+onB || got == inner+onA+onB
}

// c61MisfiledAdd reports whether the history contains the known-finding pattern: the
// series was advanced by the clock (Latest) past the end of the one-second bucket of a
// later AddWithTime whose time is newer than every earlier observation's bucket.
func c61MisfiledAdd(c c61Case) bool {
	var pendingTime, horizon int64
	for _, op := range c.Ops {
		op.T = c61Clamp(op.T)
		switch op.Kind {
		case c61Clear:
			pendingTime, horizon = 0, 0
		case c61Latest:
			if op.T > horizon {
				horizon = op.T
			}
		case c61Add:
			if op.T > horizon {
				horizon = op.T
			}
			if op.T > pendingTime {
				end := c61Ceil(horizon, time.Second)
				if c61Ceil(op.T, time.Second) < end {
					return true
				}
				pendingTime = end
			}
		}
	}
	return false
}

func c61Known(c c61Case) string {
	if c61MisfiledAdd(c) {
		return "c61-add-behind-clock-misfiled"
	}
	return ""
}

func c61Prop(c c61Case, r *vp.Rec) error {
	res, nb := c61Resolutions(c.MinuteHour)
	clock := &c61Clock{t: time.Unix(0, c61Base)}
	var ts *timeSeries
	var mh *MinuteHourSeries
	if c.MinuteHour {
		mh = NewMinuteHourSeriesWithClock(NewFloat, clock)
		ts = &mh.timeSeries
	} else {
		ts = &NewTimeSeriesWithClock(NewFloat, clock).timeSeries
	}
	var obs []c61Obs
	var total float64
	var horizon int64 // 0 = nothing seen since the last clear
	var maxAdd int64
	outOfOrder, bigJump := false, false

	checkTotal := func(step int) error {
		got := ts.Total().(*Float).Value()
		if got != total {
			return fmt.Errorf("step %d: Total() = %v, sum of all observations = %v", step, got, total)
		}
		return nil
	}
	value := func(o Observable) float64 {
		if o == nil {
			return 0
		}
		return o.(*Float).Value()
	}

	for i, op := range c.Ops {
		lv := op.Level
		if lv < 0 || lv >= len(res) {
			lv = 0
		}
		size := int64(res[lv])
		switch op.Kind {
		case c61Add:
			T := c61Clamp(op.T)
			f := Float(op.V)
			if op.Alt {
				clock.t = time.Unix(0, T)
				ts.Add(&f)
				r.Class("add:via-clock")
			} else {
				ts.AddWithTime(&f, time.Unix(0, T))
			}
			if float64(f) != float64(op.V) {
				return fmt.Errorf("step %d: AddWithTime modified the caller's observation", i)
			}
			obs = append(obs, c61Obs{T, float64(op.V)})
			total += float64(op.V)
			if maxAdd != 0 && T < maxAdd {
				outOfOrder = true
				r.Class("add:out-of-order")
				if horizon != 0 && T <= c61Ceil(horizon, res[len(res)-1])-int64(nb)*int64(res[len(res)-1]) {
					r.Class("add:older-than-every-level")
				} else if horizon != 0 && T <= c61Ceil(horizon, res[0])-int64(nb)*int64(res[0]) {
					r.Class("add:older-than-level0-window")
				}
			} else if maxAdd != 0 && T == maxAdd {
				r.Class("add:equal-timestamp")
			}
			if horizon != 0 && T > horizon+int64(nb)*int64(res[0]) {
				bigJump = true
				r.Class("add:jump>level0-window")
				if T > horizon+int64(nb)*int64(res[len(res)-1]) {
					r.Class("add:jump>last-level-window")
				}
			}
			if T > maxAdd {
				maxAdd = T
			}
			if T > horizon {
				horizon = T
			}
		case c61Latest:
			T := c61Clamp(op.T)
			clock.t = time.Unix(0, T)
			if T > horizon {
				if horizon != 0 {
					r.Class("latest:clock-advances-series")
				}
				horizon = T
			}
			n := op.N
			if n < 0 {
				n = 0
			}
			if n > nb {
				n = nb
			}
			var got float64
			if c.MinuteHour {
				n = nb
				if lv == 0 {
					got = value(mh.Minute())
				} else {
					got = value(mh.Hour())
				}
			} else if op.Alt && n < nb {
				// the same buckets one by one, newest first
				end := c61Ceil(horizon, res[lv])
				bs := ts.LatestBuckets(lv, n)
				if len(bs) != n {
					return fmt.Errorf("step %d: LatestBuckets(level %d, %d) returned %d buckets", i, lv, n, len(bs))
				}
				for j, b := range bs {
					inner, onA, onB := c61Sum(obs, end-int64(j+1)*size, end-int64(j)*size)
					if g := value(b); !c61Match(g, inner, onA, onB) {
						return fmt.Errorf("step %d: LatestBuckets(level %d, %d) with clock %d: bucket %d (%d,%d) = %v, observations in it sum to %v (on the edges: %v, %v)",
							i, lv, n, T, j, end-int64(j+1)*size, end-int64(j)*size, g, inner, onA, onB)
					}
					got += value(b)
				}
				r.Class("latest:bucket-by-bucket")
				if n > 0 {
					continue // each bucket was checked; their sum has up to 2n edges
				}
			} else {
				got = value(ts.Latest(lv, n))
			}
			end := c61Ceil(horizon, res[lv])
			inner, onA, onB := c61Sum(obs, end-int64(n)*size, end)
			if !c61Match(got, inner, onA, onB) {
				return fmt.Errorf("step %d: Latest(level %d, %d buckets) with clock %d = %v, observations in (%d,%d) sum to %v (on the edges: %v, %v)",
					i, lv, n, T, got, end-int64(n)*size, end, inner, onA, onB)
			}
			r.Class("latest:checked")
		case c61Range:
			if horizon == 0 {
				r.Class("range:skipped-empty-series")
				continue
			}
			k, m, p := op.K, op.M, op.P
			if k < 1 || k > nb {
				k = 1
			}
			if m < 1 {
				m = 1
			}
			if p < 1 || m%p != 0 {
				p = 1
			}
			end := c61Ceil(horizon, res[lv])
			a := end - int64(k)*size
			b := a + int64(m)*size
			var got []Observable
			if op.Alt && b <= end {
				// "the last b-a" as seen from a clock that stands at b
				clock.t = time.Unix(0, b)
				if p == 1 {
					got = []Observable{ts.Recent(time.Duration(b - a))}
				} else {
					got = ts.RecentList(time.Duration(b-a), p)
				}
				r.Class("range:via-recent")
			} else if p == 1 {
				got = []Observable{ts.Range(time.Unix(0, a), time.Unix(0, b))}
			} else {
				got = ts.ComputeRange(time.Unix(0, a), time.Unix(0, b), p)
			}
			if len(got) != p {
				return fmt.Errorf("step %d: ComputeRange returned %d values, want %d", i, len(got), p)
			}
			step := int64(m/p) * size
			for j := 0; j < p; j++ {
				pa, pb := a+int64(j)*step, a+int64(j+1)*step
				inner, onA, onB := c61Sum(obs, pa, pb)
				if g := value(got[j]); !c61Match(g, inner, onA, onB) {
					return fmt.Errorf("step %d: range [%d,%d) aligned to level %d (%v buckets), piece %d/%d [%d,%d) = %v, observations inside sum to %v (on the edges: %v, %v)",
						i, a, b, lv, res[lv], j, p, pa, pb, g, inner, onA, onB)
				}
				if onA != 0 || onB != 0 {
					r.Class("range:observation-on-edge")
				}
				if inner != 0 {
					r.Class("range:nonzero-piece")
				}
			}
			r.Classf("range:checked-level%d", lv)
		case c61Total:
			if err := checkTotal(i); err != nil {
				return err
			}
		case c61Clear:
			ts.Clear()
			obs, total, horizon, maxAdd = nil, 0, 0, 0
			r.Class("clear")
		}
	}
	if err := checkTotal(len(c.Ops)); err != nil {
		return err
	}
	if c.MinuteHour {
		r.Class("series:minute-hour")
	} else {
		r.Class("series:10-level")
	}
	if outOfOrder && bigJump {
		r.NonTrivial()
	}
	return nil
}

func TestVP_C61(t *testing.T) {
	vp.Run(t, vp.Spec[c61Case]{ID: "C61", Gen: c61Gen, Prop: c61Prop, Known: c61Known})
}
