package socks_test

import (
	"bytes"
	"context"
	"errors"
	"fmt"
	"io"
	"net"
	"net/netip"
	"strconv"
	"sync"
	"testing"
	"time"

	"golang.org/x/net/internal/socks"
	"golang.org/x/net/proxy"
	"pgregory.net/rapid"
	"verif/vp"
)

// C54: for any destination (IPv4, IPv6, name of 1..255 bytes) and port the SOCKS5
// dialer sends an RFC 1928 CONNECT request that a conforming server decodes to exactly
// that host and port, and returns the bound address the server reports; malformed or
// truncated replies produce errors, never panics.
//
// The peer is an in-memory RFC 1928 / RFC 1929 reference server written from the RFCs.
// It is reactive (a reply is produced only after the complete client message it
// answers has arrived) and runs inline in the client's Read call, so a case is
// deterministic and leaves no goroutine behind: a client that waits for a reply
// before having sent a complete message sees EOF instead of blocking. A second
// transport (net.Pipe with the same server on a goroutine) is used for a fraction of
// the cases to exercise a really concurrent, unbuffered peer.

type c54Case struct {
	Host []byte `json:"host"` // destination host as passed to the dialer (literal or name)
	Port int    `json:"port"`

	API       int  `json:"api"`        // 0 Dialer.DialContext, 1 Dialer.DialWithConn, 2 Dialer.Dial, 3 proxy.SOCKS5(...).Dial, 4 proxy.SOCKS5 DialContext
	CancelCtx bool `json:"cancel_ctx"` // use a cancellable (never cancelled) context
	Pipe      bool `json:"pipe"`       // net.Pipe + server goroutine instead of the inline server

	Auth    bool   `json:"auth"` // username/password configured
	Methods []byte `json:"methods,omitempty"`
	User    []byte `json:"user,omitempty"`
	Pass    []byte `json:"pass,omitempty"`

	// What the server sends at each stage (normally the canonical success replies).
	MethodReply []byte `json:"method_reply"`
	AuthReply   []byte `json:"auth_reply,omitempty"`
	ConnReply   []byte `json:"conn_reply"`

	// ReadMax > 0: the (inline) server's bytes reach the client in segments of at
	// most ReadMax bytes per Read call, as on a slow or segmenting network.
	ReadMax int `json:"read_max,omitempty"`
}

// ---- reference server (RFC 1928 section 3-6, RFC 1929 section 2) ----

type c54Request struct {
	cmd  byte
	atyp byte
	addr []byte
	port int
}

type c54Server struct {
	c     *c54Case
	in    []byte // client bytes not yet consumed
	out   []byte // reply bytes not yet read by the client
	stage int    // 0 greeting, 1 auth, 2 request, 3 done
	// observations
	emitted   []byte
	offered   []byte
	req       *c54Request
	protoErr  error // the client sent something a conforming server cannot decode
	cleanUpTo int   // number of stages whose reply was the canonical success reply
	closed    bool
	starved   bool // client read while the server was still waiting for more bytes
}

func c54CanonicalMethodReply(b []byte, offered []byte) bool {
	return len(b) == 2 && b[0] == 5 && b[1] != 0xff && bytes.IndexByte(offered, b[1]) >= 0
}

// step consumes complete client messages and queues the replies; it returns false
// when it needs more client bytes.
func (s *c54Server) step() bool {
	switch s.stage {
	case 0: // VER NMETHODS METHODS
		if len(s.in) < 2 {
			return false
		}
		if s.in[0] != 5 {
			s.fail(fmt.Errorf("greeting: version %d", s.in[0]))
			return true
		}
		n := int(s.in[1])
		if n == 0 {
			s.fail(errors.New("greeting: NMETHODS = 0"))
			return true
		}
		if len(s.in) < 2+n {
			return false
		}
		s.offered = append([]byte(nil), s.in[2:2+n]...)
		s.in = s.in[2+n:]
		s.emit(s.c.MethodReply)
		if !c54CanonicalMethodReply(s.c.MethodReply, s.offered) {
			s.closed = true
			return true
		}
		s.cleanUpTo = 1
		if s.c.MethodReply[1] == 2 {
			s.stage = 1
		} else {
			s.stage = 2
		}
	case 1: // RFC 1929: VER=1 ULEN UNAME PLEN PASSWD
		if len(s.in) < 2 {
			return false
		}
		if s.in[0] != 1 {
			s.fail(fmt.Errorf("auth: version %d", s.in[0]))
			return true
		}
		ul := int(s.in[1])
		if ul == 0 {
			s.fail(errors.New("auth: ULEN = 0"))
			return true
		}
		if len(s.in) < 2+ul+1 {
			return false
		}
		pl := int(s.in[2+ul])
		if len(s.in) < 3+ul+pl {
			return false
		}
		s.in = s.in[3+ul+pl:]
		s.emit(s.c.AuthReply)
		if !bytes.Equal(s.c.AuthReply, []byte{1, 0}) {
			s.closed = true
			return true
		}
		s.cleanUpTo = 2
		s.stage = 2
	case 2: // VER CMD RSV ATYP DST.ADDR DST.PORT
		if len(s.in) < 4 {
			return false
		}
		if s.in[0] != 5 {
			s.fail(fmt.Errorf("request: version %d", s.in[0]))
			return true
		}
		if s.in[2] != 0 {
			s.fail(fmt.Errorf("request: RSV = %d", s.in[2]))
			return true
		}
		var alen, off int
		switch s.in[3] {
		case 1:
			alen, off = 4, 4
		case 4:
			alen, off = 16, 4
		case 3:
			if len(s.in) < 5 {
				return false
			}
			alen, off = int(s.in[4]), 5
		default:
			s.fail(fmt.Errorf("request: ATYP = %d", s.in[3]))
			return true
		}
		if len(s.in) < off+alen+2 {
			return false
		}
		s.req = &c54Request{cmd: s.in[1], atyp: s.in[3], addr: append([]byte(nil), s.in[off:off+alen]...),
			port: int(s.in[off+alen])<<8 | int(s.in[off+alen+1])}
		s.in = s.in[off+alen+2:]
		s.emit(s.c.ConnReply)
		s.stage = 3
		s.closed = true
	default:
		return false
	}
	return true
}

func (s *c54Server) fail(err error) {
	if s.protoErr == nil {
		s.protoErr = err
	}
	s.closed = true
}

func (s *c54Server) emit(b []byte) {
	s.out = append(s.out, b...)
	s.emitted = append(s.emitted, b...)
}

// c54Conn is the client's end of the inline transport.
type c54Conn struct {
	mu     sync.Mutex
	s      *c54Server
	closed bool
}

func (c *c54Conn) Read(p []byte) (int, error) {
	c.mu.Lock()
	defer c.mu.Unlock()
	if c.closed {
		return 0, net.ErrClosed
	}
	if len(p) == 0 {
		return 0, nil
	}
	for len(c.s.out) == 0 {
		if c.s.closed {
			return 0, io.EOF
		}
		if !c.s.step() {
			// The client waits for data while the server still waits for the rest of
			// a message: a deadlock on a real connection.
			c.s.starved = true
			c.s.closed = true
			return 0, io.EOF
		}
	}
	if m := c.s.c.ReadMax; m > 0 && len(p) > m {
		p = p[:m]
	}
	n := copy(p, c.s.out)
	c.s.out = c.s.out[n:]
	return n, nil
}

func (c *c54Conn) Write(p []byte) (int, error) {
	c.mu.Lock()
	defer c.mu.Unlock()
	if c.closed {
		return 0, net.ErrClosed
	}
	c.s.in = append(c.s.in, p...)
	return len(p), nil
}

func (c *c54Conn) Close() error {
	c.mu.Lock()
	defer c.mu.Unlock()
	c.closed = true
	return nil
}

type c54Addr struct{}

func (c54Addr) Network() string { return "mem" }
func (c54Addr) String() string  { return "mem" }

func (c *c54Conn) LocalAddr() net.Addr                { return c54Addr{} }
func (c *c54Conn) RemoteAddr() net.Addr               { return c54Addr{} }
func (c *c54Conn) SetDeadline(t time.Time) error      { return nil }
func (c *c54Conn) SetReadDeadline(t time.Time) error  { return nil }
func (c *c54Conn) SetWriteDeadline(t time.Time) error { return nil }

// c54ServePipe runs the same server over a net.Pipe end on its own goroutine. A
// second goroutine drains the client's bytes so that, as on a buffered transport, the
// client's writes never wait for the server's writes (net.Pipe is unbuffered).
func c54ServePipe(s *c54Server, conn net.Conn, done chan<- struct{}) {
	var (
		mu      sync.Mutex
		pending []byte
		eof     bool
		signal  = make(chan struct{}, 1)
		drained = make(chan struct{})
	)
	go func() {
		defer close(drained)
		buf := make([]byte, 512)
		for {
			n, err := conn.Read(buf)
			mu.Lock()
			pending = append(pending, buf[:n]...)
			if err != nil {
				eof = true
			}
			mu.Unlock()
			select {
			case signal <- struct{}{}:
			default:
			}
			if err != nil {
				return
			}
		}
	}()
	defer close(done)
	defer func() { <-drained }()
	defer conn.Close()
	for {
		mu.Lock()
		s.in = append(s.in, pending...)
		pending = pending[:0]
		atEOF := eof
		mu.Unlock()
		for s.step() {
			if len(s.out) > 0 {
				if _, err := conn.Write(s.out); err != nil {
					return
				}
				s.out = nil
			}
			if s.closed {
				return
			}
		}
		if atEOF {
			return
		}
		select {
		case <-signal:
		case <-time.After(10 * time.Second):
			// Safety net only: a client that waits for a reply while the server still
			// waits for the rest of a message would block both sides forever.
			s.starved = true
			return
		}
	}
}

// ---- reference reply parser: what must the client make of the server's bytes ----

const (
	c54WantOK = iota
	c54WantErr
	c54WantAny
)

type c54Bound struct {
	ip   []byte
	name string
	port int
}

func c54Expect(stream []byte, offered []byte) (int, c54Bound, string) {
	var b c54Bound
	if len(stream) < 2 {
		return c54WantErr, b, "method-reply-truncated"
	}
	if stream[0] != 5 {
		return c54WantErr, b, "method-reply-bad-version"
	}
	m := stream[1]
	if m == 0xff {
		return c54WantErr, b, "no-acceptable-methods"
	}
	if bytes.IndexByte(offered, m) < 0 {
		return c54WantAny, b, "method-not-offered"
	}
	if m != 0 && m != 2 {
		return c54WantAny, b, "method-unknown-to-client"
	}
	stream = stream[2:]
	if m == 2 {
		if len(stream) < 2 {
			return c54WantErr, b, "auth-reply-truncated"
		}
		if stream[0] != 1 {
			return c54WantErr, b, "auth-reply-bad-version"
		}
		if stream[1] != 0 {
			return c54WantErr, b, "auth-failed"
		}
		stream = stream[2:]
	}
	if len(stream) < 4 {
		return c54WantErr, b, "reply-truncated-header"
	}
	if stream[0] != 5 {
		return c54WantErr, b, "reply-bad-version"
	}
	if stream[1] != 0 {
		return c54WantErr, b, "reply-failure-code"
	}
	if stream[2] != 0 {
		return c54WantErr, b, "reply-reserved-nonzero"
	}
	var alen, off int
	switch stream[3] {
	case 1:
		alen, off = 4, 4
	case 4:
		alen, off = 16, 4
	case 3:
		if len(stream) < 5 {
			return c54WantErr, b, "reply-truncated-address"
		}
		alen, off = int(stream[4]), 5
	default:
		return c54WantErr, b, "reply-unknown-atyp"
	}
	if len(stream) < off+alen+2 {
		return c54WantErr, b, "reply-truncated-address"
	}
	if stream[3] == 3 {
		b.name = string(stream[off : off+alen])
	} else {
		b.ip = stream[off : off+alen]
	}
	b.port = int(stream[off+alen])<<8 | int(stream[off+alen+1])
	return c54WantOK, b, "success"
}

// ---- property ----

type c54Forward struct {
	conn     net.Conn
	calls    int
	net, adr string
}

func (f *c54Forward) Dial(network, addr string) (net.Conn, error) {
	f.calls++
	f.net, f.adr = network, addr
	return f.conn, nil
}

type c54ForwardCtx struct{ c54Forward }

func (f *c54ForwardCtx) DialContext(ctx context.Context, network, addr string) (net.Conn, error) {
	return f.Dial(network, addr)
}

func c54Prop(c c54Case, r *vp.Rec) error {
	host := string(c.Host)
	address := net.JoinHostPort(host, strconv.Itoa(c.Port))

	// Destination kind by the statement: IP literal or name.
	var dstIP netip.Addr
	isIP := false
	if a, err := netip.ParseAddr(host); err == nil {
		if a.Zone() != "" {
			r.Discard("zoned IPv6 literal (not expressible in SOCKS5)")
			return nil
		}
		dstIP, isIP = a, true
	}
	if h, _, err := net.SplitHostPort(address); err != nil || h != host {
		r.Discard("host not expressible as host:port")
		return nil
	}
	tooLong := !isIP && len(host) > 255
	if !isIP && len(host) == 0 {
		r.Discard("empty host")
		return nil
	}

	srv := &c54Server{c: &c}
	var clientConn net.Conn
	var pipeDone chan struct{}
	if c.Pipe {
		a, b := net.Pipe()
		clientConn = a
		pipeDone = make(chan struct{})
		go c54ServePipe(srv, b, pipeDone)
	} else {
		clientConn = &c54Conn{s: srv}
	}
	finish := func() {
		clientConn.Close()
		if pipeDone != nil {
			<-pipeDone
		}
	}

	ctx := context.Background()
	cancel := func() {}
	if c.CancelCtx {
		ctx, cancel = context.WithCancel(ctx)
	}
	defer cancel()

	offered := []byte{0}
	var (
		conn  net.Conn
		bound net.Addr
		err   error
	)
	fwd := &c54ForwardCtx{c54Forward{conn: clientConn}}
	switch c.API {
	case 3, 4:
		var auth *proxy.Auth
		if c.Auth {
			auth = &proxy.Auth{User: string(c.User), Password: string(c.Pass)}
			offered = []byte{0, 2}
		}
		var forward proxy.Dialer = fwd
		if c.API == 3 {
			forward = &fwd.c54Forward
		}
		d, derr := proxy.SOCKS5("tcp", "proxy.invalid:1080", auth, forward)
		if derr != nil {
			finish()
			return fmt.Errorf("proxy.SOCKS5: %v", derr)
		}
		if c.API == 4 {
			conn, err = d.(proxy.ContextDialer).DialContext(ctx, "tcp", address)
		} else {
			conn, err = d.Dial("tcp", address)
		}
		if sc, ok := conn.(*socks.Conn); ok && sc != nil {
			bound = sc.BoundAddr()
		}
	default:
		d := socks.NewDialer("tcp", "proxy.invalid:1080")
		d.ProxyDial = func(ctx context.Context, network, addr string) (net.Conn, error) {
			return fwd.Dial(network, addr)
		}
		if c.Auth {
			up := socks.UsernamePassword{Username: string(c.User), Password: string(c.Pass)}
			d.Authenticate = up.Authenticate
			d.AuthMethods = nil
			for _, m := range c.Methods {
				d.AuthMethods = append(d.AuthMethods, socks.AuthMethod(m))
			}
			if len(c.Methods) > 0 {
				offered = c.Methods
			}
		}
		switch c.API {
		case 0:
			conn, err = d.DialContext(ctx, "tcp", address)
			if sc, ok := conn.(*socks.Conn); ok && sc != nil {
				bound = sc.BoundAddr()
			}
		case 1:
			bound, err = d.DialWithConn(ctx, clientConn, "tcp", address)
		default:
			conn, err = d.Dial("tcp", address)
		}
	}
	finish()
	r.Classf("api:%d", c.API)
	if c.Pipe {
		r.Class("transport:net.Pipe")
	}
	if c.API != 1 && fwd.calls > 0 && (fwd.net != "tcp" || fwd.adr != "proxy.invalid:1080") {
		return fmt.Errorf("proxy connection dialed to (%q,%q), want (tcp, proxy.invalid:1080)", fwd.net, fwd.adr)
	}
	if err == nil && c.API != 1 && conn == nil {
		return fmt.Errorf("dial %q: nil conn and nil error", address)
	}

	// (1) What the reference server decoded.
	// The server parses a client message only while every reply it has sent so far
	// was the canonical success reply, so an undecodable or incomplete message is the
	// client's fault.
	if srv.protoErr != nil {
		return fmt.Errorf("dial %q: a conforming server cannot decode the client's bytes at stage %d: %v", address, srv.stage, srv.protoErr)
	}
	if srv.starved {
		return fmt.Errorf("dial %q: client waits for a reply after sending an incomplete message at stage %d (pending %x)", address, srv.stage, srv.in)
	}
	if srv.req != nil {
		q := srv.req
		if tooLong {
			return fmt.Errorf("dial with a %d-byte name: a request was sent (atyp %d, %d address bytes)", len(host), q.atyp, len(q.addr))
		}
		if q.cmd != 1 {
			return fmt.Errorf("dial %q: request command %d, want CONNECT (1)", address, q.cmd)
		}
		if q.port != c.Port {
			return fmt.Errorf("dial %q: request names port %d", address, q.port)
		}
		ok := false
		switch {
		case q.atyp == 3:
			ok = string(q.addr) == host
		case isIP:
			a, _ := netip.AddrFromSlice(q.addr)
			ok = a.Unmap() == dstIP.Unmap()
		}
		if !ok {
			return fmt.Errorf("dial %q: request names atyp=%d addr=%x (%q), not the destination", address, q.atyp, q.addr, q.addr)
		}
		if len(srv.in) != 0 {
			return fmt.Errorf("dial %q: %d bytes follow the CONNECT request: %x", address, len(srv.in), srv.in)
		}
		r.Classf("request:atyp%d", q.atyp)
	}

	negotiated := srv.cleanUpTo == 2 || (srv.cleanUpTo == 1 && len(c.MethodReply) == 2 && c.MethodReply[1] == 0)
	if srv.req == nil && srv.stage == 2 && negotiated && !srv.closed && !tooLong && c.Port != 0 {
		// Every reply so far was the canonical success reply and the server is waiting
		// for the CONNECT request, but the client gave up without sending one although
		// the destination is one the statement covers.
		return fmt.Errorf("dial %q (%d-byte host): no CONNECT request was sent after a successful negotiation (error: %v)", address, len(host), err)
	}

	// (2) What the client must make of the server's bytes.
	want, wb, why := c54Expect(srv.emitted, offered)
	switch {
	case tooLong:
		r.Class("dest:name>255:refused")
		if err == nil {
			return fmt.Errorf("dial with a %d-byte name succeeded", len(host))
		}
		return nil
	case c.Port == 0:
		// Port 0 is not a destination; either a refusal or an exact request is fine.
		r.Class("dest:port0:not-asserted")
		if err != nil {
			return nil
		}
	case isIP && dstIP.Is4():
		r.Class("dest:ipv4")
	case isIP && dstIP.Is4In6():
		r.Class("dest:ipv4-mapped")
	case isIP:
		r.Class("dest:ipv6")
	case len(host) >= 64:
		r.Class("dest:name>=64")
	default:
		r.Class("dest:name<64")
	}
	if (isIP && dstIP.Is6()) || (!isIP && len(host) >= 64) {
		r.NonTrivial()
	}
	r.Class("reply:" + why)
	switch want {
	case c54WantAny:
		return nil
	case c54WantErr:
		if len(srv.emitted) >= 4 {
			r.NonTrivial()
		}
		if err == nil {
			return fmt.Errorf("dial %q: server sent %x (%s) but the dial succeeded (bound %v)", address, srv.emitted, why, bound)
		}
		if conn != nil {
			return fmt.Errorf("dial %q: both a conn and an error (%v)", address, err)
		}
		return nil
	}
	if err != nil {
		return fmt.Errorf("dial %q: conforming exchange (server sent %x) failed: %v", address, srv.emitted, err)
	}
	if srv.req == nil {
		return fmt.Errorf("dial %q: success without a decodable CONNECT request", address)
	}
	if c.API == 2 || c.API == 3 {
		// deprecated Dial / proxy.Dialer.Dial: the bound address is not observable
		// unless the returned conn is a *socks.Conn
		if bound == nil {
			return nil
		}
	}
	sa, ok := bound.(*socks.Addr)
	if !ok || sa == nil {
		return fmt.Errorf("dial %q: bound address is %T, want *socks.Addr", address, bound)
	}
	if sa.Port != wb.port || sa.Name != wb.name || !bytes.Equal([]byte(sa.IP), wb.ip) || (wb.ip == nil) != (sa.IP == nil) {
		return fmt.Errorf("dial %q: bound address {Name:%q IP:%v Port:%d}, server reported {name:%q ip:%v port:%d}", address, sa.Name, []byte(sa.IP), sa.Port, wb.name, wb.ip, wb.port)
	}
	r.Class("bound-address-checked")
	return nil
}

// ---- generator ----

func c54GenName(t *rapid.T) []byte {
	n := vp.BiasedInt(1, 300, 1, 2, 63, 64, 127, 128, 253, 254, 255, 256, 257).Draw(t, "nameLen")
	alphabet := rapid.SampledFrom([]string{"dns", "bytes"}).Draw(t, "alphabet")
	var gen *rapid.Generator[byte]
	if alphabet == "dns" {
		gen = rapid.SampledFrom([]byte("abcxyz019-._AZ"))
	} else {
		gen = rapid.Custom(func(t *rapid.T) byte {
			for {
				b := rapid.Byte().Draw(t, "b")
				if b != ':' && b != '[' && b != ']' {
					return b
				}
			}
		})
	}
	b := rapid.SliceOfN(gen, n, n).Draw(t, "name")
	return b
}

func c54GenHost(t *rapid.T) []byte {
	switch rapid.SampledFrom([]int{0, 0, 1, 1, 2, 3, 3, 3, 4}).Draw(t, "hostKind") {
	case 0:
		b := vp.Bytes(4, 4).Draw(t, "v4")
		return []byte(netip.AddrFrom4([4]byte(b)).String())
	case 1:
		b := vp.Bytes(16, 16).Draw(t, "v6")
		if rapid.Bool().Draw(t, "sparse") {
			for i := 2; i < 14; i++ {
				b[i] = 0
			}
		}
		a := netip.AddrFrom16([16]byte(b))
		if rapid.IntRange(0, 3).Draw(t, "expanded") == 0 {
			return []byte(a.StringExpanded())
		}
		return []byte(a.String())
	case 2:
		b := vp.Bytes(4, 4).Draw(t, "v4m")
		var x [16]byte
		x[10], x[11] = 0xff, 0xff
		copy(x[12:], b)
		return []byte(netip.AddrFrom16(x).String())
	case 3:
		return c54GenName(t)
	default:
		return []byte(rapid.SampledFrom([]string{"localhost", "example.com", "1.2.3", "1.2.3.4.5", "256.1.1.1", "01.2.3.4", "a b", "::1", "0.0.0.0", "1.2.3.4.", "xn--bcher-kva.example", "bücher.example"}).Draw(t, "special"))
	}
}

func c54GenAddrReply(t *rapid.T) []byte {
	rep := []byte{5, 0, 0}
	switch rapid.IntRange(0, 2).Draw(t, "bndKind") {
	case 0:
		rep = append(rep, 1)
		rep = append(rep, vp.Bytes(4, 4).Draw(t, "bnd4")...)
	case 1:
		rep = append(rep, 4)
		rep = append(rep, vp.Bytes(16, 16).Draw(t, "bnd6")...)
	default:
		n := vp.BiasedInt(0, 255, 0, 1, 4, 16, 254, 255).Draw(t, "bndNameLen")
		rep = append(rep, 3, byte(n))
		rep = append(rep, vp.Bytes(n, n).Draw(t, "bndName")...)
	}
	p := vp.BiasedInt(0, 65535, 0, 1, 255, 256, 65535).Draw(t, "bndPort")
	return append(rep, byte(p>>8), byte(p))
}

// c54Corrupt turns a well-formed reply into a hostile one.
func c54Corrupt(t *rapid.T, b []byte, label string) []byte {
	b = append([]byte(nil), b...)
	switch rapid.IntRange(0, 4).Draw(t, label+"Mut") {
	case 0: // truncate at every offset
		return b[:rapid.IntRange(0, len(b)-1).Draw(t, label+"Cut")]
	case 1: // one byte replaced
		i := rapid.IntRange(0, min(len(b)-1, 4)).Draw(t, label+"Idx")
		b[i] = rapid.Byte().Draw(t, label+"Val")
		return b
	case 2: // one header byte replaced by a hostile constant
		i := rapid.IntRange(0, min(len(b)-1, 4)).Draw(t, label+"Idx")
		b[i] = rapid.SampledFrom([]byte{0, 1, 2, 3, 4, 5, 6, 0x7f, 0x80, 0xff}).Draw(t, label+"Const")
		return b
	case 3: // arbitrary bytes
		return vp.Bytes(0, 24).Draw(t, label+"Raw")
	default: // trailing garbage
		return append(b, vp.Bytes(1, 8).Draw(t, label+"Tail")...)
	}
}

func c54Gen(t *rapid.T) c54Case {
	c := c54Case{
		Host:      c54GenHost(t),
		Port:      vp.BiasedInt(1, 65535, 1, 80, 255, 256, 443, 65535).Draw(t, "port"),
		API:       rapid.SampledFrom([]int{0, 0, 0, 1, 1, 2, 3, 4}).Draw(t, "api"),
		CancelCtx: rapid.Bool().Draw(t, "cancelCtx"),
		Pipe:      rapid.IntRange(0, 7).Draw(t, "pipe") == 0,
		ReadMax:   rapid.SampledFrom([]int{0, 0, 0, 1, 2, 3, 5, 7}).Draw(t, "readMax"),
		Auth:      rapid.IntRange(0, 2).Draw(t, "auth") == 0,
	}
	if rapid.IntRange(0, 29).Draw(t, "port0") == 29 {
		c.Port = 0
	}
	method := byte(0)
	if c.Auth {
		c.Methods = rapid.SampledFrom([][]byte{{0, 2}, {2}, {2, 0}, {0}, {0, 1, 2}, {0x80, 2}}).Draw(t, "methods")
		c.User = vp.Bytes(1, 255).Draw(t, "user")
		if rapid.IntRange(0, 9).Draw(t, "longUser") == 0 {
			c.User = vp.Bytes(255, 255).Draw(t, "user255")
		}
		c.Pass = vp.Bytes(0, 40).Draw(t, "pass")
		offered := c.Methods
		if c.API >= 3 {
			offered = []byte{0, 2}
		}
		method = rapid.SampledFrom(offered).Draw(t, "method")
		if method != 0 && method != 2 {
			method = 2
			if bytes.IndexByte(offered, 2) < 0 {
				method = 0
			}
		}
	}
	c.MethodReply = []byte{5, method}
	c.AuthReply = []byte{1, 0}
	c.ConnReply = c54GenAddrReply(t)
	switch rapid.SampledFrom([]int{0, 0, 0, 0, 0, 1, 2, 3, 3, 3}).Draw(t, "hostile") {
	case 1:
		if rapid.IntRange(0, 3).Draw(t, "mKnown") == 0 {
			c.MethodReply = []byte{5, rapid.SampledFrom([]byte{0xff, 0, 2, 1, 0x80}).Draw(t, "mSel")}
		} else {
			c.MethodReply = c54Corrupt(t, c.MethodReply, "m")
		}
	case 2:
		c.AuthReply = c54Corrupt(t, c.AuthReply, "a")
	case 3:
		c.ConnReply = c54Corrupt(t, c.ConnReply, "c")
	}
	return c
}

func TestVP_C54(t *testing.T) {
	vp.Run(t, vp.Spec[c54Case]{ID: "C54", Gen: c54Gen, Prop: c54Prop})
}
