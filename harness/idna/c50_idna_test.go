package idna

import (
	"encoding/json"
	"fmt"
	"os"
	"reflect"
	"strings"
	"sync"
	"testing"
	"unicode/utf8"

	"pgregory.net/rapid"
	"verif/vp"
)

// C50: IDNA produces canonical A-labels and is idempotent.
//
// Clauses of the statement and what is asserted for each:
//
//  1. "Every IDNA profile rejects an 'xn--' label whose Punycode payload is invalid or
//     decodes to only ASCII": an independent RFC 3492 decoder (below, 64-bit
//     arithmetic) classifies every xn-- label of the input; if one is invalid or
//     decodes to ASCII-only (possibly empty) text, ToASCII and ToUnicode of every profile
//     (exported ones and New(...) with any option list) must return an error.
//  2. "For any input ToASCII accepts, ToASCII is idempotent and ToASCII(ToUnicode(x))
//     equals ToASCII(x)": both sides computed by the package itself.
//  3. "Punycode encoding and decoding are inverse": decode(encode(s)) == s and
//     encode(decode(a)) == a on the unexported functions (sub-check "puny").

// ---- reference Punycode (RFC 3492 section 6), written from the RFC ------------------

const (
	c50Base        = 36
	c50TMin        = 1
	c50TMax        = 26
	c50Skew        = 38
	c50Damp        = 700
	c50InitialBias = 72
	c50InitialN    = 128
)

func c50Adapt(delta, numPoints int64, first bool) int64 {
	if first {
		delta /= c50Damp
	} else {
		delta /= 2
	}
	delta += delta / numPoints
	k := int64(0)
	for delta > ((c50Base-c50TMin)*c50TMax)/2 {
		delta /= c50Base - c50TMin
		k += c50Base
	}
	return k + (c50Base-c50TMin+1)*delta/(delta+c50Skew)
}

func c50Threshold(k, bias int64) int64 {
	switch {
	case k <= bias:
		return c50TMin
	case k >= bias+c50TMax:
		return c50TMax
	}
	return k - bias
}

func c50DigitValue(b byte) (int64, bool) {
	switch {
	case 'a' <= b && b <= 'z':
		return int64(b - 'a'), true
	case 'A' <= b && b <= 'Z':
		return int64(b - 'A'), true
	case '0' <= b && b <= '9':
		return int64(b-'0') + 26, true
	}
	return 0, false
}

func c50DigitChar(d int64) byte {
	if d < 26 {
		return byte('a' + d)
	}
	return byte('0' + d - 26)
}

type c50Status int

const (
	c50Invalid   c50Status = iota // not valid Punycode
	c50Empty                      // empty payload (label "xn--"): decodes to the empty string
	c50ASCIIOnly                  // valid, decodes to non-empty text without any non-ASCII code point
	c50Valid                      // valid, decodes to text with a non-ASCII code point
	c50Surrogate                  // decodes to a surrogate code point: not a Unicode scalar value, not asserted
)

// rejected: the classes clause 1 says every profile must reject. The empty payload
// counts as "decodes to only ASCII" (vacuously; "xn--.a" would alias ".a").
func (s c50Status) rejected() bool { return s == c50Invalid || s == c50ASCIIOnly || s == c50Empty }

func (s c50Status) String() string {
	return [...]string{"invalid", "empty", "ascii-only", "valid", "surrogate"}[s]
}

// c50RefDecode decodes an ASCII Punycode payload (the part after "xn--").
func c50RefDecode(in string) (out []rune, st c50Status, why string) {
	for i := 0; i < len(in); i++ {
		if in[i] >= 0x80 {
			return nil, c50Invalid, "non-basic code point in the input"
		}
	}
	if in == "" {
		return nil, c50Empty, ""
	}
	// "let b = the number of input code points before the last delimiter, or 0 if
	// there is none; copy them to output; if b > 0 skip the delimiter"
	pos := 0
	if b := strings.LastIndexByte(in, '-'); b > 0 {
		out = []rune(in[:b])
		pos = b + 1
	}
	if pos == len(in) {
		return out, c50ASCIIOnly, ""
	}
	n, i, bias := int64(c50InitialN), int64(0), int64(c50InitialBias)
	surrogate := false
	for pos < len(in) {
		oldi, w := i, int64(1)
		for k := int64(c50Base); ; k += c50Base {
			if pos >= len(in) {
				return nil, c50Invalid, "input ends inside a variable-length integer"
			}
			d, ok := c50DigitValue(in[pos])
			pos++
			if !ok {
				return nil, c50Invalid, fmt.Sprintf("byte %q is not a digit", in[pos-1])
			}
			i += d * w
			if i > 1<<40 {
				return nil, c50Invalid, "overflow"
			}
			t := c50Threshold(k, bias)
			if d < t {
				break
			}
			w *= c50Base - t
			if w > 1<<40 {
				return nil, c50Invalid, "overflow"
			}
		}
		x := int64(len(out) + 1)
		bias = c50Adapt(i-oldi, x, oldi == 0)
		n += i / x
		i %= x
		if n > 0x10FFFF {
			return nil, c50Invalid, "code point beyond U+10FFFF"
		}
		if 0xD800 <= n && n <= 0xDFFF {
			surrogate = true
		}
		out = append(out, 0)
		copy(out[i+1:], out[i:])
		out[i] = rune(n)
		i++
	}
	if surrogate {
		return out, c50Surrogate, ""
	}
	return out, c50Valid, ""
}

// c50RefEncode encodes code points (RFC 3492 section 6.3), without prefix.
func c50RefEncode(s []rune) string {
	var out []byte
	for _, c := range s {
		if c < 0x80 {
			out = append(out, byte(c))
		}
	}
	b := int64(len(out))
	h := b
	if b > 0 {
		out = append(out, '-')
	}
	n, delta, bias := int64(c50InitialN), int64(0), int64(c50InitialBias)
	for h < int64(len(s)) {
		m := int64(0x7fffffff)
		for _, c := range s {
			if int64(c) >= n && int64(c) < m {
				m = int64(c)
			}
		}
		delta += (m - n) * (h + 1)
		n = m
		for _, c := range s {
			if int64(c) < n {
				delta++
			}
			if int64(c) == n {
				q := delta
				for k := int64(c50Base); ; k += c50Base {
					t := c50Threshold(k, bias)
					if q < t {
						break
					}
					out = append(out, c50DigitChar(t+(q-t)%(c50Base-t)))
					q = (q - t) / (c50Base - t)
				}
				out = append(out, c50DigitChar(q))
				bias = c50Adapt(delta, h+1, h == b)
				delta = 0
				h++
			}
		}
		delta++
		n++
	}
	return string(out)
}

// ---- cases and profiles ----------------------------------------------------------------

type c50Opt struct {
	Name string `json:"name"`
	On   bool   `json:"on"`
}

type c50Case struct {
	Base   string   `json:"base"` // Punycode | Lookup | Display | Registration | New
	Opts   []c50Opt `json:"opts,omitempty"`
	Labels []string `json:"labels"`
	Dot    bool     `json:"dot,omitempty"` // trailing dot
}

func (c c50Case) input() string {
	s := strings.Join(c.Labels, ".")
	if c.Dot {
		s += "."
	}
	return s
}

func (c c50Case) profile() (*Profile, error) {
	switch c.Base {
	case "Punycode":
		return Punycode, nil
	case "Lookup":
		return Lookup, nil
	case "Display":
		return Display, nil
	case "Registration":
		return Registration, nil
	case "New":
		var opts []Option
		for _, o := range c.Opts {
			switch o.Name {
			case "MapForLookup":
				opts = append(opts, MapForLookup())
			case "ValidateForRegistration":
				opts = append(opts, ValidateForRegistration())
			case "BidiRule":
				opts = append(opts, BidiRule())
			case "Transitional":
				opts = append(opts, Transitional(o.On))
			case "StrictDomainName":
				opts = append(opts, StrictDomainName(o.On))
			case "ValidateLabels":
				opts = append(opts, ValidateLabels(o.On))
			case "CheckHyphens":
				opts = append(opts, CheckHyphens(o.On))
			case "CheckJoiners":
				opts = append(opts, CheckJoiners(o.On))
			case "VerifyDNSLength":
				opts = append(opts, VerifyDNSLength(o.On))
			case "RemoveLeadingDots":
				opts = append(opts, RemoveLeadingDots(o.On))
			default:
				return nil, fmt.Errorf("harness: unknown option %q", o.Name)
			}
		}
		return New(opts...), nil
	}
	return nil, fmt.Errorf("harness: unknown profile base %q", c.Base)
}

// c50MappingKind tells which mapping step a profile runs before label processing:
// "none" (raw Punycode), "lookup" (validateAndMap: UTS 46 mapping, lower-cases ASCII),
// "registration" (validateRegistration: changes nothing, rejects mapped/upper-case runes),
// "normalize" (NFC only; set by ValidateLabels(true) alone).
func c50MappingKind(p *Profile) string {
	if p.mapping == nil {
		return "none"
	}
	switch reflect.ValueOf(p.mapping).Pointer() {
	case reflect.ValueOf(validateAndMap).Pointer():
		return "lookup"
	case reflect.ValueOf(validateRegistration).Pointer():
		return "registration"
	case reflect.ValueOf(normalize).Pointer():
		return "normalize"
	}
	return "unknown"
}

func c50IsASCII(s string) bool {
	for i := 0; i < len(s); i++ {
		if s[i] >= 0x80 {
			return false
		}
	}
	return true
}

type c50Label struct {
	label  string
	status c50Status
	why    string
	// nonBasic: the payload contains a non-ASCII code point and the profile does not
	// transform the input before decoding, so the payload reaches the decoder as is.
	nonBasic bool
}

// c50Classify returns the xn-- labels of the input that the reference can judge for
// this profile. A label is judged when
//   - it starts with "xn--" (any case if the profile's mapping lower-cases or rejects
//     upper-case ASCII before labels are looked at) and
//   - its payload is ASCII (then no mapping step can change more than its case, which
//     is irrelevant to Punycode validity and to ASCII-only-ness), or the profile does
//     not transform its input at all ("none", "registration").
func c50Classify(mk string, in string) []c50Label {
	var out []c50Label
	for _, l := range strings.Split(in, ".") {
		if len(l) < 4 {
			continue
		}
		pre := l[:4]
		if pre != "xn--" && !((mk == "lookup" || mk == "registration") && strings.EqualFold(pre, "xn--")) {
			continue
		}
		payload := l[4:]
		if !c50IsASCII(payload) {
			if mk == "none" || mk == "registration" {
				out = append(out, c50Label{label: l, status: c50Invalid, why: "non-basic code point in the payload", nonBasic: true})
			}
			continue
		}
		_, st, why := c50RefDecode(payload)
		out = append(out, c50Label{label: l, status: st, why: why})
	}
	return out
}

// ---- known findings ----------------------------------------------------------------------

// c50KeyASCIIOnly: process() gates "an A-label that decodes to ASCII only is an error"
// on the unicode16 constant, which is false for the pinned toolchain. Predicate: some
// xn-- label of the input is valid Punycode of non-empty ASCII-only text.
const c50KeyASCIIOnly = "c50-ascii-only-alabel"

// c50KeyNonBasic: decode() copies the code points before the last delimiter without
// checking that they are basic (ASCII), so "xn--é-" decodes to "é". Predicate: a
// profile that does not transform its input (raw Punycode or registration validation)
// and an xn-- label with a non-ASCII code point in its payload.
const c50KeyNonBasic = "c50-nonbasic-payload-accepted"

// c50KeyULabelPrefix: a profile without CheckHyphens (Punycode, New() tailored with
// CheckHyphens(false)) accepts an A-label whose decoded U-label itself starts with
// "xn--"; ToUnicode then returns a name that ToASCII of the same profile rejects (or
// decodes again). Predicate: some xn-- label decodes (reference) to text starting
// with "xn--" and the profile does not check hyphens.
const c50KeyULabelPrefix = "c50-ulabel-with-ace-prefix"

// c50KeyEmptyALabel: the label "xn--" (empty payload) is accepted and replaced by the
// empty label; under RemoveLeadingDots(true) a result that now starts with a dot
// loses it in the next ToASCII. Predicate: RemoveLeadingDots and a label "xn--".
const c50KeyEmptyALabel = "c50-empty-alabel-leading-dot"

func c50Known(c c50Case) string {
	p, err := c.profile()
	if err != nil {
		return ""
	}
	mk := c50MappingKind(p)
	key := ""
	for _, l := range c50Classify(mk, c.input()) {
		switch {
		case l.status == c50ASCIIOnly:
			return c50KeyASCIIOnly
		case l.status == c50Empty && p.removeLeadingDots && key == "":
			key = c50KeyEmptyALabel
		case l.nonBasic:
			key = c50KeyNonBasic
		case l.status == c50Valid && !p.checkHyphens:
			pl := l.label[4:]
			if mk == "lookup" {
				pl = strings.ToLower(pl) // the mapping step lower-cases ASCII first
			}
			u, _, _ := c50RefDecode(pl)
			if len(u) >= 4 && string(u[:4]) == "xn--" && key == "" {
				key = c50KeyULabelPrefix
			}
		}
	}
	return key
}

var (
	c50ActiveOnce sync.Once
	c50ActiveKeys map[string]bool
)

// c50KnownActive: is the finding listed as open (needed by the native fuzz target,
// which does not go through vp.Run).
func c50KnownActive(key string) bool {
	c50ActiveOnce.Do(func() {
		c50ActiveKeys = map[string]bool{}
		b, err := os.ReadFile(os.Getenv("VP_KNOWN"))
		if err != nil {
			return
		}
		var kf struct {
			Findings []struct{ Key, Property, Status string } `json:"findings"`
		}
		if json.Unmarshal(b, &kf) != nil {
			return
		}
		for _, f := range kf.Findings {
			if f.Property == "C50" && f.Status == "open" {
				c50ActiveKeys[f.Key] = true
			}
		}
	})
	return c50ActiveKeys[key]
}

// ---- the property ----------------------------------------------------------------------

const c50Deviations = "ßς‌‍"

func c50Prop(c c50Case, r *vp.Rec) error {
	p, err := c.profile()
	if err != nil {
		return err
	}
	in := c.input()
	mk := c50MappingKind(p)
	if mk == "unknown" {
		return fmt.Errorf("harness: profile with an unknown mapping function")
	}
	r.Class("profile:" + c.Base + "/" + mk)

	a, errA := p.ToASCII(in)
	u, errU := p.ToUnicode(in)
	if c.Base == "Punycode" {
		// the package-level functions are documented as Punycode.ToASCII / ToUnicode
		if a2, e2 := ToASCII(in); a2 != a || (e2 == nil) != (errA == nil) {
			return fmt.Errorf("idna.ToASCII(%q) = %q, %v but Punycode.ToASCII gives %q, %v", in, a2, e2, a, errA)
		}
		if u2, e2 := ToUnicode(in); u2 != u || (e2 == nil) != (errU == nil) {
			return fmt.Errorf("idna.ToUnicode(%q) = %q, %v but Punycode.ToUnicode gives %q, %v", in, u2, e2, u, errU)
		}
	}

	// clause 1
	labels := c50Classify(mk, in)
	hasACE := len(labels) > 0
	for _, l := range labels {
		switch {
		case l.nonBasic:
			r.Class("xn:nonbasic-payload")
		default:
			r.Class("xn:" + l.status.String())
		}
		if !l.status.rejected() {
			continue
		}
		what := "is not valid Punycode (" + l.why + ")"
		switch l.status {
		case c50ASCIIOnly:
			what = "is valid Punycode of ASCII-only text"
		case c50Empty:
			what = "is empty (decodes to the empty string: no non-ASCII code point)"
		}
		if errA == nil {
			return fmt.Errorf("profile %s: ToASCII(%q) = %q without error although the payload of label %q %s", c50ProfileName(c), in, a, l.label, what)
		}
		if errU == nil {
			return fmt.Errorf("profile %s: ToUnicode(%q) = %q without error although the payload of label %q %s", c50ProfileName(c), in, u, l.label, what)
		}
	}
	if hasACE || !c50IsASCII(in) {
		r.NonTrivial()
	}

	// clause 2
	if errA != nil {
		r.Class("toascii:rejected")
		return nil
	}
	r.Class("toascii:accepted")
	coherent := (mk == "none" && p.bidirule == nil) || ((mk == "lookup" || mk == "registration") && p.fromPuny != nil)
	if !coherent {
		// Option sets that validate only one of the two label forms:
		// New(ValidateLabels(true)) alone validates the runes of A-labels but not
		// of U-labels; a mapping profile with ValidateLabels(false) maps U-labels
		// but takes A-labels as they are; New(BidiRule()) without a mapping step
		// applies the Bidi rule only when an A-label is RTL (U-labels get their
		// direction from the mapping step). The two directions cannot agree.
		r.Class("clause2:skipped(incoherent option set)")
		return nil
	}
	if a != in {
		r.Class("toascii:changed-input")
	}
	// the output itself must not contain a label that clause 1 says is rejected
	// (implied by clause 1 + idempotence; gives the clearer message)
	for _, l := range c50Classify(mk, a) {
		if l.status.rejected() {
			return fmt.Errorf("profile %s: ToASCII(%q) = %q: output label %q is %s (%s)", c50ProfileName(c), in, a, l.label, l.status, l.why)
		}
	}
	a2, err2 := p.ToASCII(a)
	if err2 != nil {
		return fmt.Errorf("profile %s: not idempotent: ToASCII(%q) = %q accepted, but ToASCII(%q) fails: %v (result %q)", c50ProfileName(c), in, a, a, err2, a2)
	}
	if a2 != a {
		return fmt.Errorf("profile %s: not idempotent: ToASCII(%q) = %q, ToASCII(%q) = %q", c50ProfileName(c), in, a, a, a2)
	}
	if errU != nil {
		r.Class("clause2:tounicode-error(skipped)")
		return nil
	}
	if p.transitional && strings.ContainsAny(u, c50Deviations) {
		// transitional processing maps deviation characters in ToASCII but
		// ToUnicode is non-transitional by definition (UTS 46 section 4.3)
		r.Class("clause2:transitional-deviation(skipped)")
		return nil
	}
	a3, err3 := p.ToASCII(u)
	if err3 != nil {
		return fmt.Errorf("profile %s: ToASCII(%q) = %q and ToUnicode(%q) = %q accepted, but ToASCII(%q) fails: %v (result %q)", c50ProfileName(c), in, a, in, u, u, err3, a3)
	}
	if a3 != a {
		return fmt.Errorf("profile %s: ToASCII(ToUnicode(x)) != ToASCII(x): x = %q, ToASCII(x) = %q, ToUnicode(x) = %q, ToASCII(ToUnicode(x)) = %q", c50ProfileName(c), in, a, u, a3)
	}
	if u != in && u != a {
		r.Class("clause2:tounicode-differs-from-both")
	}
	r.Class("clause2:checked")
	return nil
}

func c50ProfileName(c c50Case) string {
	if c.Base != "New" {
		return c.Base
	}
	var parts []string
	for _, o := range c.Opts {
		switch o.Name {
		case "MapForLookup", "ValidateForRegistration", "BidiRule":
			parts = append(parts, o.Name+"()")
		default:
			parts = append(parts, fmt.Sprintf("%s(%v)", o.Name, o.On))
		}
	}
	return "New(" + strings.Join(parts, ", ") + ")"
}

// ---- generators ----------------------------------------------------------------------

var c50Pools = []string{
	"àáâãäåæçèéêëìíîïñòóôõöøùúûüýÿœšž",
	"ÀÁÂÄÅÆÇÈÉÊËÑÖØÜÝÞŒŠŽİ",
	"αβγδεζηθικλμνξοπρστυφχψωάέήΑΒΓΔΣΩ",
	"абвгдежзийклмнопрстуфхцчшщыьэюяАВЕОРСіјѕ",
	"אבגדהוזחטיכלמנסעפצקרשת",
	"ابتثجحخدذرزسشصضطظعغفقكلمنهوي٠١٢٣٩۰۱۲",
	"कखगघचजटडतदनपबमयरलवशसह्‍‌",
	"中文日本語한국어漢字テストひらがな",
	"😀💩☃❤♥★√≠≤",
	"ａｂｃｘｎ－ＡＢＣ１２３",
	// base letters next to combining marks, and runes whose MAPPING is a combining mark
	// (U+0340, U+0341, U+0343; U+0344 maps to two) or an iota (U+0345): the mapped label
	// then needs NFC composition although no input rune does on its own
	"aeiouâêôαεηιυω\u0300\u0301\u0302\u0308\u0313\u0342\u0340\u0341\u0343\u0344\u0345\u0340\u0341",
}

const c50Specials = "ßς‌‍्­�KΩ ‎ıǆ͸\U0010ffff\u0080ẞ≠。．｡̸̧́̈٠אب"

func c50UText(minRunes, maxRunes int) *rapid.Generator[string] {
	return rapid.Custom(func(t *rapid.T) string {
		pool := []rune(rapid.SampledFrom(c50Pools).Draw(t, "pool"))
		any := []rune(strings.Join(c50Pools, ""))
		r := rapid.Custom(func(t *rapid.T) rune {
			switch w := rapid.IntRange(0, 19).Draw(t, "w"); {
			case w < 13:
				return rapid.SampledFrom(pool).Draw(t, "r")
			case w < 16:
				return rapid.SampledFrom([]rune("abcxyz019-")).Draw(t, "r")
			case w < 18:
				return rapid.SampledFrom([]rune(c50Specials)).Draw(t, "r")
			case w < 19:
				return rapid.SampledFrom(any).Draw(t, "r")
			default:
				return rapid.SampledFrom([]rune("AZ_ =<*@~")).Draw(t, "r")
			}
		})
		return string(rapid.SliceOfN(r, minRunes, maxRunes).Draw(t, "runes"))
	})
}

const c50PayloadAlphabet = "abcdefghijklmnopqrstuvwxyz0123456789-AKZ_"

// c50Mutate applies 1-2 small edits to an ASCII payload.
func c50Mutate(t *rapid.T, s string) string {
	b := []byte(s)
	for n := rapid.IntRange(1, 2).Draw(t, "edits"); n > 0; n-- {
		ch := c50PayloadAlphabet[rapid.IntRange(0, len(c50PayloadAlphabet)-1).Draw(t, "ch")]
		switch op := rapid.IntRange(0, 4).Draw(t, "op"); {
		case op == 0 && len(b) > 0:
			b[rapid.IntRange(0, len(b)-1).Draw(t, "at")] = ch
		case op == 1 && len(b) > 0:
			i := rapid.IntRange(0, len(b)-1).Draw(t, "at")
			b = append(b[:i], b[i+1:]...)
		case op == 2 && len(b) > 0:
			b = b[:rapid.IntRange(0, len(b)-1).Draw(t, "cut")]
		case op == 3:
			i := rapid.IntRange(0, len(b)).Draw(t, "at")
			b = append(b[:i], append([]byte{ch}, b[i:]...)...)
		default:
			b = append(b, ch)
		}
	}
	return string(b)
}

func c50LabelGen() *rapid.Generator[string] {
	ldh := rapid.StringOfN(rapid.RuneFrom([]rune("abcdefghijklmnopqrstuvwxyz0123456789-")), 1, 10, -1)
	asciiAny := rapid.StringOfN(rapid.RuneFrom([]rune("abcxyzABZ019-_ =<*@~")), 1, 8, -1)
	kinds := []string{
		"ldh", "ldh", "ascii", "unicode", "unicode", "unicode", "unicode",
		"ace-valid", "ace-valid", "ace-valid", "ace-valid",
		"ace-ascii-only", "ace-ascii-only", "ace-ascii-only",
		"ace-invalid", "ace-invalid", "ace-mutated", "ace-mutated",
		"ace-upper-digits", "ace-nonbasic", "ace-double", "ace-upper-prefix",
		"ace-surrogate", "ace-empty", "empty", "fullwidth-prefix",
	}
	return rapid.Custom(func(t *rapid.T) string {
		switch rapid.SampledFrom(kinds).Draw(t, "kind") {
		case "ldh":
			return ldh.Draw(t, "ldh")
		case "ascii":
			return asciiAny.Draw(t, "ascii")
		case "unicode":
			return c50UText(1, 7).Draw(t, "u")
		case "ace-valid":
			return "xn--" + c50RefEncode([]rune(c50UText(1, 7).Draw(t, "u")))
		case "ace-ascii-only":
			var txt string
			if rapid.Bool().Draw(t, "ldhtext") {
				txt = ldh.Draw(t, "txt")
			} else {
				txt = asciiAny.Draw(t, "txt")
			}
			return "xn--" + txt + "-"
		case "ace-invalid":
			switch rapid.IntRange(0, 5).Draw(t, "how") {
			case 0: // a delimiter with nothing before it
				return "xn---" + rapid.StringOfN(rapid.RuneFrom([]rune("abcdkz019")), 0, 5, -1).Draw(t, "digits")
			case 1: // a byte that is not a digit after the last delimiter
				p := c50RefEncode([]rune(c50UText(1, 5).Draw(t, "u")))
				return "xn--" + p + rapid.SampledFrom([]string{"_", "!", " ", "~", "a_", "=a"}).Draw(t, "junk")
			case 2: // input ends inside a variable-length integer
				return "xn--" + rapid.StringOfN(rapid.RuneFrom([]rune("abc-")), 0, 4, -1).Draw(t, "basic") + rapid.StringOfN(rapid.RuneFrom([]rune("9876z")), 1, 5, -1).Draw(t, "open")
			case 3: // overflow
				return "xn--" + rapid.StringOfN(rapid.RuneFrom([]rune("9z8")), 7, 14, -1).Draw(t, "big") + "a"
			case 4: // code point beyond U+10FFFF
				return "xn--" + rapid.StringOfN(rapid.RuneFrom([]rune("9zk5")), 4, 6, -1).Draw(t, "big") + "a"
			default: // last variable-length integer cut
				p := c50RefEncode([]rune(c50UText(1, 5).Draw(t, "u")))
				if len(p) > 1 {
					p = p[:len(p)-1]
				}
				return "xn--" + p
			}
		case "ace-mutated":
			return "xn--" + c50Mutate(t, c50RefEncode([]rune(c50UText(1, 6).Draw(t, "u"))))
		case "ace-upper-digits":
			p := c50RefEncode([]rune(c50UText(1, 6).Draw(t, "u")))
			i := strings.LastIndexByte(p, '-') + 1
			return "xn--" + p[:i] + strings.ToUpper(p[i:])
		case "ace-nonbasic":
			u := c50UText(1, 4).Draw(t, "u")
			switch rapid.IntRange(0, 2).Draw(t, "how") {
			case 0:
				return "xn--" + u + "-"
			case 1:
				return "xn--" + u + "-" + c50RefEncode([]rune(c50UText(1, 3).Draw(t, "v")))
			default:
				return "xn--" + c50RefEncode([]rune(c50UText(1, 3).Draw(t, "v"))) + u
			}
		case "ace-double":
			inner := rapid.SampledFrom([]string{"xn--", "XN--", "xn--abc-", "xn--a"}).Draw(t, "inner")
			return "xn--" + c50RefEncode([]rune(inner+c50UText(1, 4).Draw(t, "u")))
		case "ace-upper-prefix":
			pre := rapid.SampledFrom([]string{"XN--", "Xn--", "xN--"}).Draw(t, "pre")
			if rapid.Bool().Draw(t, "asciionly") {
				return pre + ldh.Draw(t, "txt") + "-"
			}
			return pre + c50RefEncode([]rune(c50UText(1, 5).Draw(t, "u")))
		case "ace-surrogate":
			rs := []rune(c50UText(0, 3).Draw(t, "u"))
			rs = append(rs, rune(rapid.IntRange(0xD800, 0xDFFF).Draw(t, "sur")))
			return "xn--" + c50RefEncode(rs)
		case "ace-empty":
			return "xn--"
		case "empty":
			return ""
		default: // "fullwidth-prefix"
			return "ｘｎ－－" + rapid.SampledFrom([]string{"abc-", "bcher-kva", "zca", "9"}).Draw(t, "p")
		}
	})
}

var c50OptNames = []string{
	"MapForLookup", "ValidateForRegistration", "BidiRule", "Transitional", "StrictDomainName",
	"ValidateLabels", "CheckHyphens", "CheckJoiners", "VerifyDNSLength", "RemoveLeadingDots",
}

func c50Gen(t *rapid.T) c50Case {
	var c c50Case
	c.Base = rapid.SampledFrom([]string{"Punycode", "Lookup", "Lookup", "Display", "Registration", "New", "New", "New"}).Draw(t, "base")
	if c.Base == "New" {
		opt := rapid.Custom(func(t *rapid.T) c50Opt {
			return c50Opt{Name: rapid.SampledFrom(c50OptNames).Draw(t, "name"), On: rapid.Bool().Draw(t, "on")}
		})
		switch rapid.IntRange(0, 3).Draw(t, "style") {
		case 0, 1: // a documented base option first, then tailoring that keeps validation coherent
			c.Opts = []c50Opt{{Name: rapid.SampledFrom([]string{"MapForLookup", "MapForLookup", "ValidateForRegistration"}).Draw(t, "first"), On: true}}
			tail := rapid.Custom(func(t *rapid.T) c50Opt {
				return c50Opt{Name: rapid.SampledFrom([]string{"BidiRule", "Transitional", "StrictDomainName", "CheckHyphens", "CheckJoiners", "VerifyDNSLength", "RemoveLeadingDots"}).Draw(t, "name"), On: rapid.Bool().Draw(t, "on")}
			})
			c.Opts = append(c.Opts, rapid.SliceOfN(tail, 0, 4).Draw(t, "tail")...)
		case 2: // raw Punycode with tailoring that adds no validation of runes
			tail := rapid.Custom(func(t *rapid.T) c50Opt {
				return c50Opt{Name: rapid.SampledFrom([]string{"VerifyDNSLength", "RemoveLeadingDots", "CheckHyphens", "StrictDomainName", "Transitional", "BidiRule"}).Draw(t, "name"), On: rapid.Bool().Draw(t, "on")}
			})
			c.Opts = rapid.SliceOfN(tail, 0, 3).Draw(t, "tail")
		default: // anything
			c.Opts = rapid.SliceOfN(opt, 0, 5).Draw(t, "opts")
		}
	}
	c.Labels = rapid.SliceOfN(c50LabelGen(), 1, 4).Draw(t, "labels")
	c.Dot = rapid.IntRange(0, 7).Draw(t, "dot") == 7
	return c
}

func TestVP_C50(t *testing.T) {
	vp.Run(t, vp.Spec[c50Case]{ID: "C50", Gen: c50Gen, Prop: c50Prop, Known: c50Known})
}

// ---- clause 3: encode and decode are inverse -------------------------------------------

type c50PunyCase struct {
	S string `json:"s"` // arbitrary text to encode
	A string `json:"a"` // arbitrary ASCII to decode
}

func c50PunyProp(c c50PunyCase, r *vp.Rec) error {
	if !utf8.ValidString(c.S) || !c50IsASCII(c.A) {
		r.Discard("case outside the domain (invalid UTF-8 / non-ASCII payload)")
		return nil
	}
	// decode(encode(s)) == s
	e, err := encode("", c.S)
	if err != nil {
		// with the Unicode 16 rules encode refuses U+FFFD; long inputs may overflow
		r.Class("encode:refused")
	} else {
		if !c50IsASCII(e) {
			return fmt.Errorf("encode(%q) = %q is not ASCII", c.S, e)
		}
		d, err := decode(e)
		if err != nil {
			return fmt.Errorf("decode(encode(%q)) fails: encode = %q, decode error %v", c.S, e, err)
		}
		if d != c.S {
			return fmt.Errorf("decode(encode(s)) != s: s = %q, encode = %q, decode = %q", c.S, e, d)
		}
		// "Punycode": the encoder's output must be what an RFC 3492 decoder reads back
		if rd, st, why := c50RefDecode(e); st == c50Invalid || string(rd) != c.S {
			return fmt.Errorf("encode(%q) = %q is not the Punycode of its input: an RFC 3492 decoder gives %q (%s %s)", c.S, e, string(rd), st, why)
		}
		if pe, _ := encode("xn--", c.S); pe != "xn--"+e {
			return fmt.Errorf("encode(\"xn--\", %q) = %q, encode(\"\", ...) = %q", c.S, pe, e)
		}
		if c50IsASCII(c.S) {
			r.Class("encode:ascii-only")
		} else {
			r.Class("encode:non-ascii")
			r.NonTrivial()
		}
	}
	// encode(decode(a)) == a
	u, err := decode(c.A)
	ru, st, why := c50RefDecode(c.A)
	if err != nil {
		if st == c50Invalid {
			r.Class("decode:rejected(invalid)")
		} else {
			// e.g. 32-bit overflow limits of the implementation; the statement
			// does not require decode to accept
			r.Class("decode:rejected(reference accepts)")
		}
		return nil
	}
	if st == c50Invalid {
		return fmt.Errorf("decode(%q) = %q without error, but the input is not valid Punycode (%s)", c.A, u, why)
	}
	if st == c50Surrogate || strings.ContainsRune(u, utf8.RuneError) {
		r.Class("decode:surrogate-or-U+FFFD(skipped)")
		return nil
	}
	if string(ru) != u {
		return fmt.Errorf("decode(%q) = %q, an RFC 3492 decoder gives %q", c.A, u, string(ru))
	}
	i := strings.LastIndexByte(c.A, '-') + 1
	canon := c.A[:i] + strings.ToLower(c.A[i:])
	e2, err := encode("", u)
	if err != nil {
		return fmt.Errorf("decode(%q) = %q accepted, but encode of it fails: %v", c.A, u, err)
	}
	if e2 != canon {
		return fmt.Errorf("encode(decode(a)) != a: a = %q (canonical %q), decode = %q, encode = %q", c.A, canon, u, e2)
	}
	r.Class("decode:accepted:" + st.String())
	if st == c50Valid {
		r.NonTrivial()
	}
	return nil
}

func c50PunyGen(t *rapid.T) c50PunyCase {
	var c c50PunyCase
	switch rapid.IntRange(0, 5).Draw(t, "skind") {
	case 0:
		c.S = rapid.StringOfN(rapid.RuneFrom([]rune("abcxyzAZ019-_ ")), 0, 12, -1).Draw(t, "s")
	case 1:
		c.S = rapid.StringN(0, 20, -1).Draw(t, "s") // any Unicode
	case 2:
		c.S = c50UText(1, 40).Draw(t, "s")
	default:
		c.S = c50UText(0, 10).Draw(t, "s")
	}
	switch rapid.IntRange(0, 5).Draw(t, "akind") {
	case 0:
		c.A = rapid.StringOfN(rapid.RuneFrom([]rune(c50PayloadAlphabet)), 0, 16, -1).Draw(t, "a")
	case 1:
		c.A = rapid.StringOfN(rapid.RuneFrom([]rune("abk-")), 0, 5, -1).Draw(t, "basic") + rapid.StringOfN(rapid.RuneFrom([]rune("abcdefghijklmnopqrstuvwxyz0123456789")), 0, 10, -1).Draw(t, "digits")
	case 2:
		c.A = c50Mutate(t, c50RefEncode([]rune(c50UText(1, 8).Draw(t, "u"))))
	case 3:
		p := c50RefEncode([]rune(c50UText(1, 8).Draw(t, "u")))
		i := strings.LastIndexByte(p, '-') + 1
		c.A = p[:i] + strings.ToUpper(p[i:])
	default:
		c.A = c50RefEncode([]rune(c50UText(1, 12).Draw(t, "u")))
	}
	return c
}

func TestVP_C50_puny(t *testing.T) {
	vp.Run(t, vp.Spec[c50PunyCase]{ID: "C50", Sub: "puny", Gen: c50PunyGen, Prop: c50PunyProp})
}

// ---- native fuzzing (thorough tier) -----------------------------------------------------

func FuzzVP_C50(f *testing.F) {
	for _, s := range []string{
		"example.com", "bücher.example", "xn--bcher-kva.example", "xn--abc-.com", "xn--", "xn---", "xn--é-",
		"xn--zca", "faß.de", "xn--xn--abc--4ta", "XN--BCHER-KVA", "a‍b", "xn--1ug", "א.com", "a..b.", "xn--99999999a",
	} {
		for b := 0; b < 8; b++ {
			f.Add(uint8(b), uint8(0), s)
		}
	}
	bases := []string{"Punycode", "Lookup", "Display", "Registration", "New", "New", "New", "New"}
	f.Fuzz(func(t *testing.T, b, o uint8, s string) {
		if !utf8.ValidString(s) || len(s) > 300 {
			t.Skip()
		}
		c := c50Case{Base: bases[int(b)%len(bases)], Labels: strings.Split(s, ".")}
		if c.Base == "New" {
			switch b % 4 {
			case 0:
				c.Opts = []c50Opt{{"MapForLookup", true}, {"Transitional", o&1 != 0}, {"CheckHyphens", o&2 != 0}, {"StrictDomainName", o&4 != 0}, {"VerifyDNSLength", o&8 != 0}}
			case 1:
				c.Opts = []c50Opt{{"ValidateForRegistration", true}, {"CheckJoiners", o&1 != 0}, {"CheckHyphens", o&2 != 0}}
			case 2:
				c.Opts = []c50Opt{{"VerifyDNSLength", o&1 != 0}, {"RemoveLeadingDots", o&2 != 0}}
			default:
				c.Opts = []c50Opt{{"MapForLookup", true}, {"BidiRule", true}, {"CheckJoiners", o&1 != 0}}
			}
		}
		if k := c50Known(c); k != "" && c50KnownActive(k) {
			t.Skip()
		}
		if err := c50Prop(c, &vp.Rec{}); err != nil {
			vp.FuzzFail(t, "C50", "", c, err)
		}
		if c50IsASCII(s) {
			if err := c50PunyProp(c50PunyCase{S: s, A: s}, &vp.Rec{}); err != nil {
				vp.FuzzFail(t, "C50", "puny", c50PunyCase{S: s, A: s}, err)
			}
		} else if err := c50PunyProp(c50PunyCase{S: s}, &vp.Rec{}); err != nil {
			vp.FuzzFail(t, "C50", "puny", c50PunyCase{S: s}, err)
		}
	})
}
