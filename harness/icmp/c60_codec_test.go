package icmp_test

import (
	"encoding/binary"
	"encoding/hex"
	"fmt"
	"net"
	"runtime"
	"strconv"
	"strings"
	"testing"

	"golang.org/x/net/icmp"
	"golang.org/x/net/ipv4"
	"golang.org/x/net/ipv6"
	"pgregory.net/rapid"
	"verif/vp"
)

// C60: ICMP and IP header codecs round-trip with valid checksums.
//
// Three rapid checks:
//
//	TestVP_C60      icmp.Message.Marshal -> icmp.ParseMessage (+ RFC 1071 checksum)
//	TestVP_C60_hdr  ipv4.Header.Marshal -> ipv4.ParseHeader
//	TestVP_C60_cm   ipv4/ipv6 ControlMessage Marshal -> Parse, and Parse of control
//	                data laid out the way the (Linux) kernel delivers it

const (
	c60ProtoICMP     = 1
	c60ProtoIPv6ICMP = 58
)

// ---------------------------------------------------------------------------------
// ICMP messages

const (
	c60Echo = iota
	c60ExtEchoRequest
	c60ExtEchoReply
	c60DstUnreach
	c60TimeExceeded
	c60ParamProb
	c60PacketTooBig
	c60Raw
	c60NilBody
	c60NumBodies
)

var c60BodyNames = []string{"echo", "ext-echo-request", "ext-echo-reply", "dst-unreach", "time-exceeded", "param-prob", "packet-too-big", "raw", "nil-body"}

const (
	c60ExtMPLS = iota
	c60ExtIfInfo
	c60ExtIfIdent
	c60ExtRaw
)

type c60Label struct {
	Label int  `json:"label"` // 20 bits
	TC    int  `json:"tc"`    // 3 bits
	S     bool `json:"s"`
	TTL   int  `json:"ttl"` // 8 bits
}

type c60Ext struct {
	Kind int `json:"kind"`
	// MPLS label stack
	Labels []c60Label `json:"labels,omitempty"`
	// interface information (RFC 5837)
	Role    int    `json:"role,omitempty"` // upper four bits of the c-type
	HasIf   bool   `json:"has_if,omitempty"`
	Index   uint32 `json:"index,omitempty"` // > 0 when HasIf; also InterfaceIdent by index
	Name    []byte `json:"name,omitempty"`  // also InterfaceIdent by name
	MTU     uint32 `json:"mtu,omitempty"`
	HasAddr bool   `json:"has_addr,omitempty"`
	IP      []byte `json:"ip,omitempty"` // 4 bytes for ICMPv4, 16 (not v4-mapped) for ICMPv6
	Mapped  bool   `json:"mapped,omitempty"`
	// interface identification (RFC 8335)
	IdentType int    `json:"ident_type,omitempty"`
	AFI       int    `json:"afi,omitempty"`
	Addr      []byte `json:"addr,omitempty"`
	// raw object: class outside {1,2,3}
	Class   int    `json:"class,omitempty"`
	CType   int    `json:"ctype,omitempty"`
	Payload []byte `json:"payload,omitempty"`
}

type c60Case struct {
	V6      bool     `json:"v6"`
	Psh     bool     `json:"psh"` // ICMPv6: marshal with a pseudo header
	Src     []byte   `json:"src,omitempty"`
	Dst     []byte   `json:"dst,omitempty"`
	Type    int      `json:"type"`
	Code    int      `json:"code"`
	Cksum   int      `json:"cksum"` // Message.Checksum given to Marshal (ignored by it)
	Body    int      `json:"body"`
	ID      int      `json:"id,omitempty"`
	Seq     int      `json:"seq,omitempty"`
	Data    []byte   `json:"data,omitempty"`
	NilData bool     `json:"nil_data,omitempty"`
	Local   bool     `json:"local,omitempty"`
	State   int      `json:"state,omitempty"`
	Active  bool     `json:"active,omitempty"`
	IPv4    bool     `json:"ipv4,omitempty"`
	IPv6    bool     `json:"ipv6,omitempty"`
	Pointer uint32   `json:"pointer,omitempty"`
	MTU     uint32   `json:"mtu,omitempty"`
	Exts    []c60Ext `json:"exts,omitempty"`
}

// c60KnownTypes are the ICMP types with a dedicated body parser, per protocol.
var c60KnownTypes = map[bool]map[int]int{
	false: {3: c60DstUnreach, 11: c60TimeExceeded, 12: c60ParamProb, 8: c60Echo, 0: c60Echo, 42: c60ExtEchoRequest, 43: c60ExtEchoReply},
	true:  {1: c60DstUnreach, 2: c60PacketTooBig, 3: c60TimeExceeded, 4: c60ParamProb, 128: c60Echo, 129: c60Echo, 160: c60ExtEchoRequest, 161: c60ExtEchoReply},
}

func c60TypesFor(v6 bool, body int) []int {
	var out []int
	if body == c60Raw || body == c60NilBody {
		for t := 0; t < 256; t++ {
			if _, ok := c60KnownTypes[v6][t]; !ok {
				out = append(out, t)
			}
		}
		return out
	}
	for t := 0; t < 256; t++ { // ascending order: deterministic
		if b, ok := c60KnownTypes[v6][t]; ok && b == body {
			out = append(out, t)
		}
	}
	return out
}

// c60Pattern draws n bytes cheaply: a short drawn pattern repeated (optionally with a
// running counter added), so long original datagrams cost a handful of draws.
func c60Pattern(t *rapid.T, n int, label string) []byte {
	if n == 0 {
		return []byte{}
	}
	pat := rapid.SliceOfN(rapid.Byte(), 1, 8).Draw(t, label+"Pat")
	ramp := rapid.Bool().Draw(t, label+"Ramp")
	b := make([]byte, n)
	for i := range b {
		b[i] = pat[i%len(pat)]
		if ramp {
			b[i] += byte(i / len(pat))
		}
	}
	return b
}

func c60NameGen(max int) *rapid.Generator[[]byte] {
	return rapid.SliceOfN(rapid.ByteRange(1, 255), 1, max)
}

func c60GenExt(t *rapid.T, v6 bool, kinds []int) c60Ext {
	e := c60Ext{Kind: rapid.SampledFrom(kinds).Draw(t, "extKind")}
	switch e.Kind {
	case c60ExtMPLS:
		e.Labels = rapid.SliceOfN(rapid.Custom(func(t *rapid.T) c60Label {
			return c60Label{
				Label: vp.BiasedInt(0, 1<<20-1, 0, 15, 16, 4095, 4096, 1<<20-1).Draw(t, "label"),
				TC:    rapid.IntRange(0, 7).Draw(t, "tc"),
				S:     rapid.Bool().Draw(t, "s"),
				TTL:   rapid.IntRange(0, 255).Draw(t, "ttl"),
			}
		}), 0, 5).Draw(t, "labels")
	case c60ExtIfInfo:
		e.Role = rapid.IntRange(0, 15).Draw(t, "role")
		e.HasIf = rapid.Bool().Draw(t, "hasIf")
		if e.HasIf {
			e.Index = uint32(vp.BiasedUint64(1<<32-1, 1, 255, 256, 65535, 65536, 1<<31, 1<<32-1).Draw(t, "ifIndex"))
			if e.Index == 0 {
				e.Index = 1
			}
			if rapid.Bool().Draw(t, "hasName") {
				e.Name = rapid.OneOf(c60NameGen(8), c60NameGen(63), rapid.SliceOfN(rapid.ByteRange(1, 255), 62, 63)).Draw(t, "ifName")
			}
			if rapid.Bool().Draw(t, "hasMTU") {
				e.MTU = uint32(vp.BiasedUint64(1<<32-1, 1, 1500, 65535, 65536, 1<<32-1).Draw(t, "ifMTU"))
			}
		}
		e.HasAddr = rapid.Bool().Draw(t, "hasAddr")
		if e.HasAddr {
			if v6 {
				e.IP = rapid.SliceOfN(rapid.Byte(), 16, 16).Draw(t, "ip6")
				if net.IP(e.IP).To4() != nil {
					e.IP[0] = 0x20
				}
			} else {
				e.IP = rapid.SliceOfN(rapid.Byte(), 4, 4).Draw(t, "ip4")
				e.Mapped = rapid.Bool().Draw(t, "mapped")
			}
		}
	case c60ExtIfIdent:
		e.IdentType = rapid.SampledFrom([]int{1, 1, 2, 2, 3, 3, 0, 4, 255}).Draw(t, "identType")
		switch e.IdentType {
		case 1:
			if rapid.IntRange(0, 5).Draw(t, "emptyName") > 0 {
				e.Name = rapid.OneOf(c60NameGen(9), c60NameGen(255), rapid.SliceOfN(rapid.ByteRange(1, 255), 252, 255)).Draw(t, "identName")
			}
		case 2:
			e.Index = uint32(vp.BiasedUint64(1<<32-1, 0, 1, 65535, 65536, 1<<32-1).Draw(t, "identIndex"))
		case 3:
			e.AFI = vp.BiasedInt(0, 65535, 0, 1, 2, 255, 256, 65535).Draw(t, "afi")
			e.Addr = rapid.SliceOfN(rapid.Byte(), 0, rapid.SampledFrom([]int{4, 16, 20, 255}).Draw(t, "addrMax")).Draw(t, "identAddr")
		}
	case c60ExtRaw:
		e.Class = rapid.SampledFrom([]int{0, 4, 5, 127, 246, 255}).Draw(t, "rawClass")
		e.CType = rapid.IntRange(0, 255).Draw(t, "rawCType")
		e.Payload = rapid.SliceOfN(rapid.Byte(), 0, 24).Draw(t, "rawPayload")
	}
	return e
}

func c60Gen(t *rapid.T) c60Case {
	c := c60Case{V6: rapid.Bool().Draw(t, "v6")}
	if c.V6 {
		c.Psh = rapid.Bool().Draw(t, "psh")
		if c.Psh {
			c.Src = rapid.SliceOfN(rapid.Byte(), 16, 16).Draw(t, "src")
			c.Dst = rapid.SliceOfN(rapid.Byte(), 16, 16).Draw(t, "dst")
		}
	}
	bodies := []int{c60Echo, c60Echo, c60ExtEchoRequest, c60ExtEchoRequest, c60ExtEchoReply, c60DstUnreach, c60DstUnreach, c60DstUnreach,
		c60TimeExceeded, c60TimeExceeded, c60TimeExceeded, c60ParamProb, c60ParamProb, c60ParamProb, c60Raw, c60NilBody}
	if c.V6 {
		bodies = append(bodies, c60PacketTooBig, c60PacketTooBig)
	}
	c.Body = rapid.SampledFrom(bodies).Draw(t, "body")
	c.Type = rapid.SampledFrom(c60TypesFor(c.V6, c.Body)).Draw(t, "type")
	c.Code = vp.BiasedInt(0, 255, 0, 1, 255).Draw(t, "code")
	c.Cksum = rapid.IntRange(0, 65535).Draw(t, "cksum")
	multipart := c.Body == c60DstUnreach || c.Body == c60TimeExceeded || (c.Body == c60ParamProb && !c.V6)

	// data / original datagram
	switch c.Body {
	case c60Echo, c60DstUnreach, c60TimeExceeded, c60ParamProb, c60PacketTooBig, c60Raw:
		var n int
		switch k := rapid.IntRange(0, 19).Draw(t, "dataClass"); {
		case k < 2:
			n = 0
		case k < 7:
			n = rapid.IntRange(1, 64).Draw(t, "dataLenSmall")
		case k < 12:
			n = rapid.IntRange(120, 140).Draw(t, "dataLenAround128")
		case k < 19:
			n = rapid.IntRange(65, 600).Draw(t, "dataLenMid")
		default:
			if c.V6 {
				n = rapid.IntRange(2030, 2060).Draw(t, "dataLenBig6")
			} else {
				n = rapid.IntRange(1010, 1040).Draw(t, "dataLenBig4")
			}
		}
		c.Data = c60Pattern(t, n, "data")
		if n == 0 {
			c.NilData = rapid.Bool().Draw(t, "nilData")
		}
	}
	switch c.Body {
	case c60Echo:
		c.ID = vp.BiasedInt(0, 65535, 0, 255, 256, 65535).Draw(t, "id")
		c.Seq = vp.BiasedInt(0, 65535, 0, 255, 256, 65535).Draw(t, "seq")
	case c60ExtEchoRequest:
		c.ID = vp.BiasedInt(0, 65535, 0, 255, 256, 65535).Draw(t, "id")
		c.Seq = rapid.IntRange(0, 255).Draw(t, "seq8")
		c.Local = rapid.Bool().Draw(t, "local")
	case c60ExtEchoReply:
		c.ID = vp.BiasedInt(0, 65535, 0, 255, 256, 65535).Draw(t, "id")
		c.Seq = rapid.IntRange(0, 255).Draw(t, "seq8")
		c.State = rapid.IntRange(0, 7).Draw(t, "state")
		c.Active = rapid.Bool().Draw(t, "active")
		c.IPv4 = rapid.Bool().Draw(t, "ipv4")
		c.IPv6 = rapid.Bool().Draw(t, "ipv6")
	case c60ParamProb:
		if c.V6 {
			c.Pointer = uint32(vp.BiasedUint64(1<<32-1, 0, 255, 256, 65535, 1<<32-1).Draw(t, "pointer32"))
		} else {
			c.Pointer = uint32(rapid.IntRange(0, 255).Draw(t, "pointer8"))
		}
	case c60PacketTooBig:
		c.MTU = uint32(vp.BiasedUint64(1<<32-1, 0, 1280, 65535, 65536, 1<<31, 1<<32-1).Draw(t, "mtu"))
	}
	// extensions
	if multipart && rapid.IntRange(0, 2).Draw(t, "withExts") > 0 {
		n := rapid.IntRange(1, 4).Draw(t, "nexts")
		for i := 0; i < n; i++ {
			c.Exts = append(c.Exts, c60GenExt(t, c.V6, []int{c60ExtMPLS, c60ExtIfInfo, c60ExtIfInfo, c60ExtRaw}))
		}
	}
	if c.Body == c60ExtEchoRequest && rapid.IntRange(0, 3).Draw(t, "withExts") > 0 {
		switch rapid.IntRange(0, 3).Draw(t, "extShape") {
		case 0, 1: // a single interface identification object
			c.Exts = []c60Ext{c60GenExt(t, c.V6, []int{c60ExtIfIdent})}
		case 2: // raw objects only
			n := rapid.IntRange(1, 3).Draw(t, "nexts")
			for i := 0; i < n; i++ {
				c.Exts = append(c.Exts, c60GenExt(t, c.V6, []int{c60ExtRaw}))
			}
		default: // a mix with at least two identification objects (accepted by the package)
			n := rapid.IntRange(2, 4).Draw(t, "nexts")
			for i := 0; i < n; i++ {
				k := []int{c60ExtIfIdent, c60ExtRaw}
				if i < 2 {
					k = k[:1]
				}
				c.Exts = append(c.Exts, c60GenExt(t, c.V6, k))
			}
		}
	}
	return c
}

// c60Build turns the plain-data case into the message handed to Marshal (in) and
// the message ParseMessage is expected to return (want). They differ only by the
// package's documented normalisations: the RFC 4884 padding of the original
// datagram when extensions are present, and nil-vs-empty slices.
func c60Build(c c60Case) (in, want *icmp.Message, err error) {
	mk := func(padded bool) *icmp.Message {
		m := &icmp.Message{Code: c.Code, Checksum: c.Cksum}
		if c.V6 {
			m.Type = ipv6.ICMPType(c.Type)
		} else {
			m.Type = ipv4.ICMPType(c.Type)
		}
		data := append([]byte{}, c.Data...)
		if c.NilData && len(data) == 0 && !padded {
			data = nil
		}
		var exts []icmp.Extension
		for _, e := range c.Exts {
			switch e.Kind {
			case c60ExtMPLS:
				ls := &icmp.MPLSLabelStack{Class: 1, Type: 1}
				for _, l := range e.Labels {
					ls.Labels = append(ls.Labels, icmp.MPLSLabel{Label: l.Label, TC: l.TC, S: l.S, TTL: l.TTL})
				}
				exts = append(exts, ls)
			case c60ExtIfInfo:
				ifi := &icmp.InterfaceInfo{Class: 2, Type: e.Role << 4 & 0xf0}
				if e.HasIf {
					ifi.Type |= 0x08
					ifi.Interface = &net.Interface{Index: int(e.Index), Name: string(e.Name), MTU: int(e.MTU)}
					if len(e.Name) > 0 {
						ifi.Type |= 0x02
					}
					if e.MTU > 0 {
						ifi.Type |= 0x01
					}
				}
				if e.HasAddr {
					ifi.Type |= 0x04
					ip := net.IP(append([]byte{}, e.IP...))
					if e.Mapped && !padded {
						ip = ip.To16()
					}
					ifi.Addr = &net.IPAddr{IP: ip}
					if c.V6 && e.HasIf && len(e.Name) > 0 {
						ifi.Addr.Zone = string(e.Name)
					}
				}
				exts = append(exts, ifi)
			case c60ExtIfIdent:
				id := &icmp.InterfaceIdent{Class: 3, Type: e.IdentType}
				switch e.IdentType {
				case 1:
					id.Name = string(e.Name)
				case 2:
					id.Index = int(e.Index)
				case 3:
					id.AFI = e.AFI
					id.Addr = append([]byte{}, e.Addr...)
				}
				exts = append(exts, id)
			case c60ExtRaw:
				l := 4 + len(e.Payload)
				d := append([]byte{byte(l >> 8), byte(l), byte(e.Class), byte(e.CType)}, e.Payload...)
				exts = append(exts, &icmp.RawExtension{Data: d})
			}
		}
		if padded && len(exts) > 0 {
			// RFC 4884: at least 128 octets, multiple of 4 (ICMPv4) or 8 (ICMPv6) octets.
			n, align := len(data), 4
			if c.V6 {
				align = 8
			}
			if n < 128 {
				n = 128
			} else {
				n = (n + align - 1) / align * align
			}
			data = append(data, make([]byte, n-len(data))...)
		}
		switch c.Body {
		case c60Echo:
			m.Body = &icmp.Echo{ID: c.ID, Seq: c.Seq, Data: data}
		case c60ExtEchoRequest:
			m.Body = &icmp.ExtendedEchoRequest{ID: c.ID, Seq: c.Seq, Local: c.Local, Extensions: exts}
		case c60ExtEchoReply:
			m.Body = &icmp.ExtendedEchoReply{ID: c.ID, Seq: c.Seq, State: c.State, Active: c.Active, IPv4: c.IPv4, IPv6: c.IPv6}
		case c60DstUnreach:
			m.Body = &icmp.DstUnreach{Data: data, Extensions: exts}
		case c60TimeExceeded:
			m.Body = &icmp.TimeExceeded{Data: data, Extensions: exts}
		case c60ParamProb:
			m.Body = &icmp.ParamProb{Pointer: uintptr(c.Pointer), Data: data, Extensions: exts}
		case c60PacketTooBig:
			m.Body = &icmp.PacketTooBig{MTU: int(c.MTU), Data: data}
		case c60Raw:
			m.Body = &icmp.RawBody{Data: data}
		case c60NilBody:
			if padded { // an absent body parses as an empty raw body
				m.Body = &icmp.RawBody{}
			}
		default:
			return nil
		}
		return m
	}
	in, want = mk(false), mk(true)
	if in == nil {
		return nil, nil, fmt.Errorf("bad body kind %d", c.Body)
	}
	return in, want, nil
}

func c60Hex(b []byte) string { return hex.EncodeToString(b) }

func c60DumpExts(sb *strings.Builder, exts []icmp.Extension) {
	fmt.Fprintf(sb, " exts[%d]{", len(exts))
	for _, e := range exts {
		switch e := e.(type) {
		case *icmp.MPLSLabelStack:
			fmt.Fprintf(sb, " mpls(class=%d type=%d labels=%v)", e.Class, e.Type, e.Labels)
		case *icmp.InterfaceInfo:
			fmt.Fprintf(sb, " ifinfo(class=%d type=%#x", e.Class, e.Type)
			if e.Interface != nil {
				fmt.Fprintf(sb, " if{index=%d name=%s mtu=%d hw=%s flags=%d}", e.Interface.Index, c60Hex([]byte(e.Interface.Name)), e.Interface.MTU, c60Hex(e.Interface.HardwareAddr), e.Interface.Flags)
			}
			if e.Addr != nil {
				fmt.Fprintf(sb, " addr{ip=%s zone=%s}", c60Hex(e.Addr.IP.To16()), c60Hex([]byte(e.Addr.Zone)))
			}
			sb.WriteString(")")
		case *icmp.InterfaceIdent:
			fmt.Fprintf(sb, " ifident(class=%d type=%d name=%s index=%d afi=%d addr=%s)", e.Class, e.Type, c60Hex([]byte(e.Name)), e.Index, e.AFI, c60Hex(e.Addr))
		case *icmp.RawExtension:
			fmt.Fprintf(sb, " raw(%s)", c60Hex(e.Data))
		default:
			fmt.Fprintf(sb, " ?%T", e)
		}
	}
	sb.WriteString(" }")
}

// c60Dump renders a message canonically: nil and empty slices alike, IP addresses in
// 16-byte form, the checksum left out.
func c60Dump(m *icmp.Message) string {
	var sb strings.Builder
	fmt.Fprintf(&sb, "type=%T(%d) code=%d body=", m.Type, m.Type, m.Code)
	switch p := m.Body.(type) {
	case nil:
		sb.WriteString("nil")
	case *icmp.Echo:
		fmt.Fprintf(&sb, "echo(id=%d seq=%d data=%s)", p.ID, p.Seq, c60Hex(p.Data))
	case *icmp.ExtendedEchoRequest:
		fmt.Fprintf(&sb, "ext-echo-request(id=%d seq=%d local=%v", p.ID, p.Seq, p.Local)
		c60DumpExts(&sb, p.Extensions)
		sb.WriteString(")")
	case *icmp.ExtendedEchoReply:
		fmt.Fprintf(&sb, "ext-echo-reply(%+v)", *p)
	case *icmp.DstUnreach:
		fmt.Fprintf(&sb, "dst-unreach(data=%s", c60Hex(p.Data))
		c60DumpExts(&sb, p.Extensions)
		sb.WriteString(")")
	case *icmp.TimeExceeded:
		fmt.Fprintf(&sb, "time-exceeded(data=%s", c60Hex(p.Data))
		c60DumpExts(&sb, p.Extensions)
		sb.WriteString(")")
	case *icmp.ParamProb:
		fmt.Fprintf(&sb, "param-prob(pointer=%d data=%s", p.Pointer, c60Hex(p.Data))
		c60DumpExts(&sb, p.Extensions)
		sb.WriteString(")")
	case *icmp.PacketTooBig:
		fmt.Fprintf(&sb, "packet-too-big(mtu=%d data=%s)", p.MTU, c60Hex(p.Data))
	case *icmp.RawBody:
		fmt.Fprintf(&sb, "raw(%s)", c60Hex(p.Data))
	default:
		fmt.Fprintf(&sb, "?%T", p)
	}
	return sb.String()
}

// c60Sum1071 is the RFC 1071 one's-complement sum of b taken as big-endian 16-bit
// words (an odd trailing octet is padded with zero on the right), folded to 16 bits.
func c60Sum1071(bs ...[]byte) uint16 {
	var all []byte
	for _, b := range bs {
		all = append(all, b...)
	}
	var s uint64
	for i := 0; i+1 < len(all); i += 2 {
		s += uint64(all[i])<<8 | uint64(all[i+1])
	}
	if len(all)%2 == 1 {
		s += uint64(all[len(all)-1]) << 8
	}
	for s>>16 != 0 {
		s = s&0xffff + s>>16
	}
	return uint16(s)
}

func c60Trunc(s string) string {
	if len(s) > 700 {
		return s[:700] + "..."
	}
	return s
}

// c60OversizedOrigDgram: extensions present and the padded original datagram needs a
// length attribute that does not fit the one-octet field (ICMPv4: 4-octet units,
// ICMPv6: 8-octet units).
func c60OversizedOrigDgram(c c60Case) bool {
	multipart := c.Body == c60DstUnreach || c.Body == c60TimeExceeded || (c.Body == c60ParamProb && !c.V6)
	if !multipart || len(c.Exts) == 0 {
		return false
	}
	if c.V6 {
		return (len(c.Data)+7)/8 > 255
	}
	return (len(c.Data)+3)/4 > 255
}

func c60Known(c c60Case) string {
	if c60OversizedOrigDgram(c) {
		return "c60-origdgram-length-attr-overflow"
	}
	return ""
}

func c60Prop(c c60Case, r *vp.Rec) error {
	in, want, err := c60Build(c)
	if err != nil {
		r.Discard("bad-case")
		return nil
	}
	proto := c60ProtoICMP
	var psh []byte
	if c.V6 {
		proto = c60ProtoIPv6ICMP
		if c.Psh {
			if len(c.Src) != 16 || len(c.Dst) != 16 {
				r.Discard("bad-case")
				return nil
			}
			psh = icmp.IPv6PseudoHeader(net.IP(c.Src), net.IP(c.Dst))
		}
	}
	wire, err := in.Marshal(psh)
	if err != nil && c60OversizedOrigDgram(c) {
		// Not marshal-able: the RFC 4884 length attribute cannot express it.
		r.Discard("marshal-refused-oversized-original-datagram")
		return nil
	}
	if err != nil {
		// The generator only builds messages the package documents as valid.
		return fmt.Errorf("Marshal refused a well-formed message: %v (%s)", err, c60Trunc(c60Dump(in)))
	}
	if len(wire) < 4 || int(wire[0]) != c.Type || int(wire[1]) != c.Code {
		return fmt.Errorf("Marshal output %d bytes does not start with type %d code %d", len(wire), c.Type, c.Code)
	}
	// checksum
	switch {
	case !c.V6:
		if s := c60Sum1071(wire); s != 0xffff {
			return fmt.Errorf("ICMPv4 output has an invalid RFC 1071 checksum: sum over the message = %#04x, want 0xffff (len %d, wire %s)", s, len(wire), c60Trunc(c60Hex(wire)))
		}
	case c.Psh:
		ph := make([]byte, 40)
		copy(ph, c.Src)
		copy(ph[16:], c.Dst)
		binary.BigEndian.PutUint32(ph[32:], uint32(len(wire)))
		ph[39] = 58
		if s := c60Sum1071(ph, wire); s != 0xffff {
			return fmt.Errorf("ICMPv6 output marshalled with a pseudo header has an invalid checksum: sum = %#04x, want 0xffff (len %d)", s, len(wire))
		}
	}
	if len(wire)%2 == 1 {
		r.Class("odd-length-message")
	}
	got, err := icmp.ParseMessage(proto, wire)
	if err != nil {
		return fmt.Errorf("ParseMessage failed on Marshal output: %v (message %s, wire %s)", err, c60Trunc(c60Dump(in)), c60Trunc(c60Hex(wire)))
	}
	if got.Checksum != int(binary.BigEndian.Uint16(wire[2:4])) {
		return fmt.Errorf("parsed Checksum %#x differs from the wire field %#x", got.Checksum, binary.BigEndian.Uint16(wire[2:4]))
	}
	multipart := c.Body == c60DstUnreach || c.Body == c60TimeExceeded || (c.Body == c60ParamProb && !c.V6)
	if multipart && len(c.Exts) == 0 && len(c.Data) >= 136 && c.Data[128]>>4 == 2 &&
		(c.Data[130] == 0 && c.Data[131] == 0 || c60Sum1071(c.Data[128:]) == 0xffff) {
		// RFC 4884 section 5.5: a receiver must look for an extension structure at octet
		// 128 of the original datagram when the length attribute is zero; an original
		// datagram that happens to carry a valid extension header there is inherently
		// ambiguous on the wire.
		r.Class("ambiguous:rfc4884-legacy-extension-lookalike")
		return nil
	}
	if g, w := c60Dump(got), c60Dump(want); g != w {
		return fmt.Errorf("ParseMessage(Marshal(m)) != m\n got  %s\n want %s\n wire %s", c60Trunc(g), c60Trunc(w), c60Trunc(c60Hex(wire)))
	}
	// the caller's receive buffer is reused for the next packet: the parsed message
	// must stay what it was
	for i := range wire {
		wire[i] ^= 0xa5
	}
	if g, w := c60Dump(got), c60Dump(want); g != w {
		return fmt.Errorf("the message returned by ParseMessage changed when the caller overwrote its input buffer\n got  %s\n want %s", c60Trunc(g), c60Trunc(w))
	}
	if c.V6 {
		if c.Psh {
			r.Class("icmpv6+pseudo-header")
		} else {
			r.Class("icmpv6")
		}
	} else {
		r.Class("icmpv4")
	}
	r.Class("body:" + c60BodyNames[c.Body])
	for _, e := range c.Exts {
		r.Class("ext:" + []string{"mpls", "interface-info", "interface-ident", "raw"}[e.Kind])
	}
	if len(c.Exts) > 0 && multipart && len(c.Data) != len(dataOf(want)) {
		r.Class("orig-datagram-padded")
	}
	if len(c.Exts) > 0 || len(wire)%2 == 1 {
		r.NonTrivial()
	}
	return nil
}

func dataOf(m *icmp.Message) []byte {
	switch p := m.Body.(type) {
	case *icmp.DstUnreach:
		return p.Data
	case *icmp.TimeExceeded:
		return p.Data
	case *icmp.ParamProb:
		return p.Data
	}
	return nil
}

func TestVP_C60(t *testing.T) {
	vp.Run(t, vp.Spec[c60Case]{ID: "C60", Gen: c60Gen, Prop: c60Prop, Known: c60Known})
}

// ---------------------------------------------------------------------------------
// ipv4.Header

type c60HdrCase struct {
	TOS      int    `json:"tos"`
	TotalLen int    `json:"total_len"`
	ID       int    `json:"id"`
	Flags    int    `json:"flags"`
	FragOff  int    `json:"frag_off"`
	TTL      int    `json:"ttl"`
	Protocol int    `json:"protocol"`
	Checksum int    `json:"checksum"`
	Src      []byte `json:"src"` // 4 bytes
	Dst      []byte `json:"dst"` // 4 bytes
	Src16    bool   `json:"src16"`
	Dst16    bool   `json:"dst16"`
	Options  []byte `json:"options"` // multiple of 4, <= 40
	Trailer  []byte `json:"trailer"` // payload bytes following the header in the parsed buffer
	// PrevOptions are the options of a header parsed into the same Header value first
	// (Parse is a method on *Header: values may be reused); nil = fresh value only.
	PrevOptions []byte `json:"prev_options"`
	Reuse       bool   `json:"reuse"`
}

func c60HdrGen(t *rapid.T) c60HdrCase {
	u16 := vp.BiasedInt(0, 65535, 0, 255, 256, 0x7fff, 0x8000, 65535)
	u8 := vp.BiasedInt(0, 255, 0, 1, 127, 128, 255)
	return c60HdrCase{
		TOS:      u8.Draw(t, "tos"),
		TotalLen: u16.Draw(t, "totalLen"),
		ID:       u16.Draw(t, "id"),
		Flags:    rapid.IntRange(0, 7).Draw(t, "flags"),
		FragOff:  vp.BiasedInt(0, 0x1fff, 0, 1, 255, 256, 0x0fff, 0x1000, 0x1fff).Draw(t, "fragOff"),
		TTL:      u8.Draw(t, "ttl"),
		Protocol: u8.Draw(t, "protocol"),
		Checksum: u16.Draw(t, "checksum"),
		Src:      rapid.SliceOfN(rapid.Byte(), 4, 4).Draw(t, "src"),
		Dst:      rapid.SliceOfN(rapid.Byte(), 4, 4).Draw(t, "dst"),
		Src16:    rapid.Bool().Draw(t, "src16"),
		Dst16:    rapid.Bool().Draw(t, "dst16"),
		Options: rapid.Custom(func(t *rapid.T) []byte {
			n := 4 * rapid.IntRange(0, 10).Draw(t, "optionWords")
			return rapid.SliceOfN(rapid.Byte(), n, n).Draw(t, "optionBytes")
		}).Draw(t, "options"),
		Trailer: rapid.SliceOfN(rapid.Byte(), 0, 8).Draw(t, "trailer"),
		Reuse:   rapid.Bool().Draw(t, "reuse"),
		PrevOptions: rapid.Custom(func(t *rapid.T) []byte {
			n := 4 * rapid.IntRange(0, 10).Draw(t, "prevOptionWords")
			return rapid.SliceOfN(rapid.Byte(), n, n).Draw(t, "prevOptionBytes")
		}).Draw(t, "prevOptions"),
	}
}

func c60HdrString(h *ipv4.Header) string {
	return fmt.Sprintf("ver=%d len=%d tos=%d totallen=%d id=%d flags=%d fragoff=%d ttl=%d proto=%d cksum=%d src=%s dst=%s options=%s",
		h.Version, h.Len, h.TOS, h.TotalLen, h.ID, h.Flags, h.FragOff, h.TTL, h.Protocol, h.Checksum, c60Hex(h.Src.To16()), c60Hex(h.Dst.To16()), c60Hex(h.Options))
}

func c60HdrProp(c c60HdrCase, r *vp.Rec) error {
	if runtime.GOOS != "linux" {
		// other systems use host byte order / adjusted lengths for some fields
		r.Discard("not-linux")
		return nil
	}
	if len(c.Src) != 4 || len(c.Dst) != 4 || len(c.Options)%4 != 0 || len(c.Options) > 40 {
		r.Discard("bad-case")
		return nil
	}
	ip := func(b []byte, long bool) net.IP {
		p := net.IP(append([]byte{}, b...))
		if long {
			return p.To16()
		}
		return p
	}
	h := &ipv4.Header{
		Version: ipv4.Version, Len: ipv4.HeaderLen + len(c.Options), TOS: c.TOS, TotalLen: c.TotalLen, ID: c.ID,
		Flags: ipv4.HeaderFlags(c.Flags), FragOff: c.FragOff, TTL: c.TTL, Protocol: c.Protocol, Checksum: c.Checksum,
		Src: ip(c.Src, c.Src16), Dst: ip(c.Dst, c.Dst16),
	}
	if len(c.Options) > 0 {
		h.Options = append([]byte{}, c.Options...)
	}
	want := c60HdrString(h)
	b, err := h.Marshal()
	if err != nil {
		return fmt.Errorf("Header.Marshal refused a valid header: %v (%s)", err, want)
	}
	if len(b) != h.Len {
		return fmt.Errorf("Header.Marshal returned %d bytes for Len=%d", len(b), h.Len)
	}
	if c60HdrString(h) != want {
		return fmt.Errorf("Header.Marshal modified the header")
	}
	in := append(append([]byte{}, b...), c.Trailer...)
	got, err := ipv4.ParseHeader(in)
	if err != nil {
		return fmt.Errorf("ParseHeader failed on Marshal output: %v (%s)", err, c60Hex(b))
	}
	if g := c60HdrString(got); g != want {
		return fmt.Errorf("ParseHeader(Marshal(h)) != h\n got  %s\n want %s\n wire %s", g, want, c60Hex(b))
	}
	// the icmp package's own parser for the IPv4 header quoted in an error message
	// (on Linux the raw-socket format is the wire format)
	got2, err := icmp.ParseIPv4Header(in)
	if err != nil {
		return fmt.Errorf("icmp.ParseIPv4Header failed on Marshal output: %v (%s)", err, c60Hex(b))
	}
	if g := c60HdrString(got2); g != want {
		return fmt.Errorf("icmp.ParseIPv4Header(Marshal(h)) != h\n got  %s\n want %s\n wire %s", g, want, c60Hex(b))
	}
	// the caller's receive buffer is reused for the next packet
	for i := range in {
		in[i] ^= 0xa5
	}
	if g := c60HdrString(got2); g != want {
		return fmt.Errorf("the header returned by icmp.ParseIPv4Header changed when the caller overwrote its input buffer\n got  %s\n want %s", g, want)
	}
	if g := c60HdrString(got); g != want {
		return fmt.Errorf("the header returned by ParseHeader changed when the caller overwrote its input buffer\n got  %s\n want %s\n wire %s", g, want, c60Hex(b))
	}
	if c.Reuse && len(c.PrevOptions)%4 == 0 && len(c.PrevOptions) <= 40 {
		// the same bytes parsed into a Header value that held another header before
		prev := &ipv4.Header{Version: ipv4.Version, Len: ipv4.HeaderLen + len(c.PrevOptions), TotalLen: 100, TTL: 1, Protocol: 1,
			Src: net.IPv4(1, 2, 3, 4), Dst: net.IPv4(5, 6, 7, 8), Options: append([]byte{}, c.PrevOptions...)}
		pb, err := prev.Marshal()
		if err != nil {
			return fmt.Errorf("Header.Marshal refused the earlier header: %v", err)
		}
		var hh ipv4.Header
		if err := hh.Parse(pb); err != nil {
			return fmt.Errorf("Header.Parse failed on Marshal output: %v", err)
		}
		in2 := append(append([]byte{}, b...), c.Trailer...)
		if err := hh.Parse(in2); err != nil {
			return fmt.Errorf("Header.Parse (reused value) failed on Marshal output: %v (%s)", err, c60Hex(b))
		}
		for i := range in2 {
			in2[i] ^= 0xa5
		}
		if g := c60HdrString(&hh); g != want {
			return fmt.Errorf("Header.Parse into a value that earlier held a header with %d option bytes != h\n got  %s\n want %s\n wire %s", len(c.PrevOptions), g, want, c60Hex(b))
		}
		r.Class("reused-header-value")
		if len(c.PrevOptions) > len(c.Options) {
			r.Class("reused-header-value-with-longer-options")
			r.NonTrivial()
		}
	}
	if len(c.Options) > 0 {
		r.Class("with-options")
		r.NonTrivial()
	}
	if c.Flags != 0 && c.FragOff != 0 {
		r.Class("flags-and-fragoff")
		r.NonTrivial()
	}
	return nil
}

func TestVP_C60_hdr(t *testing.T) {
	vp.Run(t, vp.Spec[c60HdrCase]{ID: "C60", Sub: "hdr", Gen: c60HdrGen, Prop: c60HdrProp})
}

// ---------------------------------------------------------------------------------
// ipv4 / ipv6 control messages

type c60CmCase struct {
	V6 bool `json:"v6"`
	// Recv: the control data is laid out by the harness the way the Linux kernel
	// delivers it (receive direction); otherwise it comes from ControlMessage.Marshal
	// (specify direction).
	Recv         bool   `json:"recv"`
	Flags        uint   `json:"flags"` // receive direction: which options are present (ControlFlags bits)
	TTL          int    `json:"ttl"`
	TTLLong      bool   `json:"ttl_long"` // IP_TTL delivered as a 4-byte int (kernel) or 1 byte
	TrafficClass uint32 `json:"traffic_class"`
	HopLimit     uint32 `json:"hop_limit"`
	Src          []byte `json:"src"`
	Dst          []byte `json:"dst"`
	NextHop      []byte `json:"next_hop"`
	IfIndex      int32  `json:"if_index"`
	MTU          uint32 `json:"mtu"`
	MTUIfIndex   uint32 `json:"mtu_if_index"`
	MTUDst       []byte `json:"mtu_dst"`
	PathFirst    bool   `json:"path_first"`
}

func c60CmGen(t *rapid.T) c60CmCase {
	c := c60CmCase{V6: rapid.Bool().Draw(t, "v6"), Recv: rapid.Bool().Draw(t, "recv")}
	alen := 4
	if c.V6 {
		alen = 16
	}
	addr := func(label string) []byte {
		if rapid.IntRange(0, 4).Draw(t, label+"Absent") == 0 {
			return nil
		}
		b := rapid.SliceOfN(rapid.Byte(), alen, alen).Draw(t, label)
		if c.V6 && net.IP(b).To4() != nil {
			b[0] = 0xfe
		}
		return b
	}
	c.Flags = uint(rapid.IntRange(0, 63).Draw(t, "flags"))
	c.TTL = rapid.IntRange(0, 255).Draw(t, "ttl")
	c.TTLLong = rapid.Bool().Draw(t, "ttlLong")
	c.TrafficClass = uint32(vp.BiasedUint64(1<<31-1, 0, 1, 255, 256).Draw(t, "tclass"))
	c.HopLimit = uint32(vp.BiasedUint64(1<<31-1, 0, 1, 255, 256).Draw(t, "hoplimit"))
	c.Src = addr("src")
	c.Dst = addr("dst")
	c.NextHop = addr("nexthop")
	c.IfIndex = int32(vp.BiasedInt(0, 1<<31-1, 0, 1, 255, 256, 65536, 1<<31-1).Draw(t, "ifIndex"))
	c.MTU = uint32(vp.BiasedUint64(1<<31-1, 0, 1280, 1500, 65535).Draw(t, "mtu"))
	c.MTUIfIndex = uint32(vp.BiasedUint64(1<<31-1, 0, 1, 255).Draw(t, "mtuIfIndex"))
	if c.V6 {
		c.MTUDst = rapid.SliceOfN(rapid.Byte(), 16, 16).Draw(t, "mtuDst")
	}
	c.PathFirst = rapid.Bool().Draw(t, "pathFirst")
	return c
}

// c60Cmsg lays out one control message in the Linux 64-bit ABI: cmsghdr{len
// size_t, level int, type int} followed by the data, padded to 8 bytes.
func c60Cmsg(level, typ int, data []byte) []byte {
	l := 16 + len(data)
	b := make([]byte, (l+7)&^7)
	binary.NativeEndian.PutUint64(b[0:], uint64(l))
	binary.NativeEndian.PutUint32(b[8:], uint32(level))
	binary.NativeEndian.PutUint32(b[12:], uint32(typ))
	copy(b[16:], data)
	return b
}

func c60IPString(ip net.IP) string {
	if ip == nil {
		return "nil"
	}
	return c60Hex(ip.To16())
}

func c60CmProp(c c60CmCase, r *vp.Rec) error {
	if runtime.GOOS != "linux" || strconv.IntSize != 64 {
		r.Discard("not-linux-64")
		return nil
	}
	alen := 4
	if c.V6 {
		alen = 16
	}
	for _, a := range [][]byte{c.Src, c.Dst, c.NextHop} {
		if a != nil && len(a) != alen {
			r.Discard("bad-case")
			return nil
		}
	}
	zero := make([]byte, alen)
	or0 := func(a []byte) []byte {
		if a == nil {
			return zero
		}
		return a
	}
	u32 := func(v uint32) []byte {
		b := make([]byte, 4)
		binary.NativeEndian.PutUint32(b, v)
		return b
	}
	if !c.V6 {
		var got ipv4.ControlMessage
		var want string
		render := func(cm *ipv4.ControlMessage) string {
			return fmt.Sprintf("ttl=%d src=%s dst=%s ifindex=%d", cm.TTL, c60IPString(cm.Src), c60IPString(cm.Dst), cm.IfIndex)
		}
		if !c.Recv {
			// specify direction: Src and IfIndex go into IP_PKTINFO (ipi_spec_dst, ipi_ifindex);
			// the only field a later Parse reads back from there is the interface index.
			in := ipv4.ControlMessage{TTL: c.TTL, IfIndex: int(c.IfIndex)}
			if c.Src != nil {
				in.Src = net.IP(append([]byte{}, c.Src...))
			}
			if c.Dst != nil {
				in.Dst = net.IP(append([]byte{}, c.Dst...))
			}
			b := in.Marshal()
			emitted := c.Src != nil || c.IfIndex > 0
			if emitted != (len(b) > 0) {
				return fmt.Errorf("ipv4 ControlMessage.Marshal returned %d bytes for %s", len(b), render(&in))
			}
			if err := got.Parse(b); err != nil {
				return fmt.Errorf("ipv4 ControlMessage.Parse failed on Marshal output: %v", err)
			}
			if got.IfIndex != int(c.IfIndex) {
				return fmt.Errorf("ipv4 control message: IfIndex %d came back as %d (wire %s)", c.IfIndex, got.IfIndex, c60Hex(b))
			}
			if got.TTL != 0 || got.Src != nil {
				return fmt.Errorf("ipv4 control message: Parse of Marshal output set ttl/src: %s", render(&got))
			}
			if emitted {
				// the source address must be in ipi_spec_dst of the one IP_PKTINFO message
				wantWire := c60Cmsg(0, 8, append(append(u32(uint32(c.IfIndex)), or0(c.Src)...), 0, 0, 0, 0))
				if c60Hex(b) != c60Hex(wantWire) {
					return fmt.Errorf("ipv4 ControlMessage.Marshal wire %s, want IP_PKTINFO %s", c60Hex(b), c60Hex(wantWire))
				}
				r.Class("ipv4:specify")
				r.NonTrivial()
			} else {
				r.Class("ipv4:specify-empty")
			}
			return nil
		}
		// receive direction
		var b []byte
		w := ipv4.ControlMessage{}
		if c.Flags&1 != 0 { // IP_TTL
			if c.TTLLong {
				b = append(b, c60Cmsg(0, 2, u32(uint32(c.TTL)))...)
			} else {
				b = append(b, c60Cmsg(0, 2, []byte{byte(c.TTL)})...)
			}
			if binary.NativeEndian.Uint16([]byte{1, 0}) == 1 || !c.TTLLong {
				w.TTL = c.TTL
			}
		}
		if c.Flags&(2|4|8) != 0 { // IP_PKTINFO
			b = append(b, c60Cmsg(0, 8, append(append(u32(uint32(c.IfIndex)), or0(c.Src)...), or0(c.Dst)...))...)
			w.IfIndex = int(c.IfIndex)
			w.Dst = net.IP(or0(c.Dst))
		}
		if c.Flags&16 != 0 { // a message of another level must be skipped
			b = append(b, c60Cmsg(41, 8, make([]byte, 12))...)
		}
		want = render(&w)
		if err := got.Parse(b); err != nil {
			return fmt.Errorf("ipv4 ControlMessage.Parse failed on kernel-format data %s: %v", c60Hex(b), err)
		}
		if g := render(&got); g != want {
			return fmt.Errorf("ipv4 ControlMessage.Parse(%s)\n got  %s\n want %s", c60Hex(b), g, want)
		}
		r.Class("ipv4:receive")
		if len(b) > 0 {
			r.NonTrivial()
		}
		return nil
	}

	var got ipv6.ControlMessage
	render := func(cm *ipv6.ControlMessage) string {
		return fmt.Sprintf("tclass=%d hoplimit=%d src=%s dst=%s ifindex=%d nexthop=%s mtu=%d", cm.TrafficClass, cm.HopLimit,
			c60IPString(cm.Src), c60IPString(cm.Dst), cm.IfIndex, c60IPString(cm.NextHop), cm.MTU)
	}
	if !c.Recv {
		in := ipv6.ControlMessage{TrafficClass: int(c.TrafficClass), HopLimit: int(c.HopLimit), IfIndex: int(c.IfIndex), MTU: int(c.MTU)}
		if c.Src != nil {
			in.Src = net.IP(append([]byte{}, c.Src...))
		}
		if c.Dst != nil {
			in.Dst = net.IP(append([]byte{}, c.Dst...))
		}
		if c.NextHop != nil {
			in.NextHop = net.IP(append([]byte{}, c.NextHop...))
		}
		b := in.Marshal()
		if err := got.Parse(b); err != nil {
			return fmt.Errorf("ipv6 ControlMessage.Parse failed on Marshal output: %v", err)
		}
		// What both directions carry: traffic class, hop limit, interface index; the
		// in6_pktinfo address (source when specifying) is the one Parse reports as Dst.
		w := ipv6.ControlMessage{TrafficClass: int(c.TrafficClass), HopLimit: int(c.HopLimit)}
		if c.Src != nil || c.IfIndex > 0 {
			w.IfIndex = int(c.IfIndex)
			w.Dst = net.IP(or0(c.Src))
		}
		if g, want := render(&got), render(&w); g != want {
			return fmt.Errorf("ipv6 ControlMessage Marshal->Parse\n in   %s\n got  %s\n want %s\n wire %s", render(&in), g, want, c60Hex(b))
		}
		if len(b) > 0 {
			r.Class("ipv6:specify")
			r.NonTrivial()
		} else {
			r.Class("ipv6:specify-empty")
		}
		return nil
	}
	var b []byte
	w := ipv6.ControlMessage{}
	if c.Flags&1 != 0 { // IPV6_TCLASS
		b = append(b, c60Cmsg(41, 67, u32(c.TrafficClass))...)
		w.TrafficClass = int(c.TrafficClass)
	}
	if c.Flags&2 != 0 { // IPV6_HOPLIMIT
		b = append(b, c60Cmsg(41, 52, u32(c.HopLimit))...)
		w.HopLimit = int(c.HopLimit)
	}
	pktinfo := func() {
		if c.Flags&(4|8|16) != 0 { // IPV6_PKTINFO
			b = append(b, c60Cmsg(41, 50, append(append([]byte{}, or0(c.Dst)...), u32(uint32(c.IfIndex))...))...)
			w.Dst = net.IP(append([]byte{}, or0(c.Dst)...))
			w.IfIndex = int(c.IfIndex)
		}
	}
	pathmtu := func() {
		if c.Flags&32 != 0 && len(c.MTUDst) == 16 { // IPV6_PATHMTU: ip6_mtuinfo{sockaddr_in6, uint32}
			d := make([]byte, 32)
			binary.NativeEndian.PutUint16(d[0:], 10) // AF_INET6
			copy(d[8:24], c.MTUDst)
			binary.NativeEndian.PutUint32(d[24:], c.MTUIfIndex)
			binary.NativeEndian.PutUint32(d[28:], c.MTU)
			b = append(b, c60Cmsg(41, 61, d)...)
			w.Dst = net.IP(append([]byte{}, c.MTUDst...))
			w.IfIndex = int(c.MTUIfIndex)
			w.MTU = int(c.MTU)
		}
	}
	if c.PathFirst {
		pathmtu()
		pktinfo()
	} else {
		pktinfo()
		pathmtu()
	}
	if err := got.Parse(b); err != nil {
		return fmt.Errorf("ipv6 ControlMessage.Parse failed on kernel-format data %s: %v", c60Hex(b), err)
	}
	if g, want := render(&got), render(&w); g != want {
		return fmt.Errorf("ipv6 ControlMessage.Parse(%s)\n got  %s\n want %s", c60Hex(b), g, want)
	}
	r.Class("ipv6:receive")
	if len(b) > 0 {
		r.NonTrivial()
	}
	return nil
}

func TestVP_C60_cm(t *testing.T) {
	vp.Run(t, vp.Spec[c60CmCase]{ID: "C60", Sub: "cm", Gen: c60CmGen, Prop: c60CmProp})
}
