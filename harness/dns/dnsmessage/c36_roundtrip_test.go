package dnsmessage

import (
	"fmt"
	"testing"

	"pgregory.net/rapid"
	"verif/vp"
)

// C36: DNS messages round-trip through Pack/Unpack and the Builder.

type c36Case struct {
	Msg dmMsg `json:"msg"`
	// Prefix is the number of bytes already in the buffer handed to AppendPack and
	// NewBuilder (compression pointers are relative to the start of the message).
	Prefix int `json:"prefix"`
	// StartEmpty: call the Builder's StartX also for sections without entries.
	StartEmpty bool `json:"start_empty"`
}

func c36Gen(t *rapid.T) c36Case {
	c := c36Case{Msg: dmGenMsg(t, 4, 6)}
	c.Prefix = rapid.SampledFrom([]int{0, 0, 0, 2, 1, 12, 13, 255, 700}).Draw(t, "prefix")
	c.StartEmpty = rapid.Bool().Draw(t, "startEmpty")
	return c
}

// c36SetTypes fills Header.Type the way packing documents it ("set automatically").
func c36SetTypes(m *Message) {
	for _, sec := range [][]Resource{m.Answers, m.Authorities, m.Additionals} {
		for i := range sec {
			sec[i].Header.Type = sec[i].Body.realType()
		}
	}
}

func c36Prop(c c36Case, r *vp.Rec) error {
	if c.Prefix < 0 || c.Prefix > 1<<16 {
		r.Discard("bad prefix")
		return nil
	}
	want, err := c.Msg.build() // reference copy, never handed to the package
	if err != nil {
		r.Discard("NewName refused a name")
		return nil
	}
	c36SetTypes(&want)
	m, _ := c.Msg.build()

	// 1. Message.AppendPack / Unpack
	buf := make([]byte, c.Prefix, c.Prefix+32)
	packed, err := m.AppendPack(buf)
	if err != nil {
		if dmRootErr(err) == errResTooLong {
			r.Discard("resource body > 65535")
			return nil
		}
		return fmt.Errorf("Pack rejected a well-formed message: %v", err)
	}
	if len(packed) < c.Prefix+headerLen {
		return fmt.Errorf("AppendPack returned %d bytes for a prefix of %d", len(packed), c.Prefix)
	}
	wire := packed[c.Prefix:]
	var got Message
	if err := got.Unpack(wire); err != nil {
		return fmt.Errorf("Unpack(Pack(m)) failed: %v", err)
	}
	if err := dmDiffMsg(&want, &got, false); err != nil {
		return fmt.Errorf("Unpack(Pack(m)) != m: %v", err)
	}
	// Pack documents that it fills in Header.Type and Header.Length of m; they must be
	// what is on the wire.
	if err := dmDiffMsg(&m, &got, true); err != nil {
		return fmt.Errorf("Unpack(Pack(m)) != m as updated by Pack: %v", err)
	}

	// 2. Builder without compression
	m1, _ := c.Msg.build()
	plain, err := dmBuild(&m1, c.Prefix, false, c.StartEmpty)
	if err != nil {
		return fmt.Errorf("Builder (no compression): %v", err)
	}
	var gotPlain Message
	if err := gotPlain.Unpack(plain); err != nil {
		return fmt.Errorf("Unpack of Builder output (no compression) failed: %v", err)
	}
	if err := dmDiffMsg(&want, &gotPlain, false); err != nil {
		return fmt.Errorf("Builder (no compression) output unpacks to a different message: %v", err)
	}

	// 3. Builder with compression
	m2, _ := c.Msg.build()
	comp, err := dmBuild(&m2, c.Prefix, true, c.StartEmpty)
	if err != nil {
		return fmt.Errorf("Builder (compression): %v", err)
	}
	var gotComp Message
	if err := gotComp.Unpack(comp); err != nil {
		return fmt.Errorf("Unpack of Builder output (compression) failed: %v", err)
	}
	if err := dmDiffMsg(&want, &gotComp, false); err != nil {
		return fmt.Errorf("Builder (compression) output unpacks to a different message: %v", err)
	}
	// compression never changes the decoded message (names included)
	if err := dmDiffMsg(&gotPlain, &gotComp, false); err != nil {
		return fmt.Errorf("compressed and uncompressed Builder output decode differently: %v", err)
	}

	// classes
	kinds := map[string]bool{}
	for _, sec := range [][]dmRR{c.Msg.An, c.Msg.Ns, c.Msg.Ar} {
		for i := range sec {
			kinds[sec[i].Kind] = true
		}
	}
	for k := range kinds {
		r.Class("kind:" + k)
	}
	pointer := len(comp) < len(plain)
	if pointer {
		r.Class("pointer-emitted")
	}
	if len(wire) > 0x3FFF {
		r.Class("message>16383")
	}
	if c.Prefix > 0 {
		r.Class("prefix>0")
	}
	if len(c.Msg.Q)+len(c.Msg.An)+len(c.Msg.Ns)+len(c.Msg.Ar) == 0 {
		r.Class("empty-message")
	}
	longest := 0
	caseTwins := false
	seen := map[string]string{}
	note := func(n bs) {
		if len(n) > longest {
			longest = len(n)
		}
		l := string(toLowerASCII(n))
		if o, ok := seen[l]; ok && o != string(n) {
			caseTwins = true
		}
		seen[l] = string(n)
	}
	for _, q := range c.Msg.Q {
		note(q.Name)
	}
	for _, sec := range [][]dmRR{c.Msg.An, c.Msg.Ns, c.Msg.Ar} {
		for i := range sec {
			note(sec[i].Name)
			if sec[i].N1 != nil {
				note(sec[i].N1)
			}
			if sec[i].N2 != nil {
				note(sec[i].N2)
			}
		}
	}
	if longest >= 253 {
		r.Class("name>=253")
	}
	if caseTwins {
		r.Class("names-differ-only-in-case")
	}
	if pointer && len(kinds) >= 3 {
		r.NonTrivial()
	}
	return nil
}

func toLowerASCII(b []byte) []byte {
	out := make([]byte, len(b))
	for i, c := range b {
		if c >= 'A' && c <= 'Z' {
			c += 32
		}
		out[i] = c
	}
	return out
}

func TestVP_C36(t *testing.T) {
	vp.Run(t, vp.Spec[c36Case]{ID: "C36", Gen: c36Gen, Prop: c36Prop})
}
