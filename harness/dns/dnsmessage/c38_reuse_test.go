package dnsmessage

import (
	"fmt"
	"testing"

	"pgregory.net/rapid"
	"verif/vp"
)

// C38 (second check): the statement speaks of "a ResourceHeader set with SetEDNS0",
// not of a zero-valued one. Here the header has a history: arbitrary earlier field
// values (an ordinary TTL, a header parsed from the wire) and earlier SetEDNS0 calls
// (a request's OPT header reused for the response); only the last call counts.

type c38Call struct {
	RCode int  `json:"rcode"`
	Size  int  `json:"size"`
	DO    bool `json:"do"`
}

type c38ReuseCase struct {
	TTL   uint32    `json:"ttl"`
	Class uint16    `json:"class"`
	Type  uint16    `json:"type"`
	Calls []c38Call `json:"calls"`
}

func c38ReuseGen(t *rapid.T) c38ReuseCase {
	call := rapid.Custom(func(t *rapid.T) c38Call {
		return c38Call{
			RCode: rapid.OneOf(rapid.IntRange(0, 4095), rapid.SampledFrom([]int{0, 1, 15, 16, 17, 255, 256, 4080, 4095})).Draw(t, "rcode"),
			Size:  rapid.OneOf(rapid.IntRange(0, 65535), rapid.SampledFrom([]int{0, 512, 1232, 4096, 65535})).Draw(t, "size"),
			DO:    rapid.Bool().Draw(t, "do"),
		}
	})
	return c38ReuseCase{
		TTL:   rapid.OneOf(rapid.Uint32(), rapid.SampledFrom([]uint32{0, 1, 0x8000, 0x00ff0000, 0x00010000, 0xff000000, 0xffffffff, 3600})).Draw(t, "ttl"),
		Class: rapid.Uint16().Draw(t, "class"),
		Type:  rapid.Uint16().Draw(t, "type"),
		Calls: rapid.SliceOfN(call, 1, 4).Draw(t, "calls"),
	}
}

func c38ReuseProp(c c38ReuseCase, r *vp.Rec) error {
	h := ResourceHeader{Name: MustNewName("example.com."), Type: Type(c.Type), Class: Class(c.Class), TTL: c.TTL}
	for i, k := range c.Calls {
		if err := h.SetEDNS0(k.Size, RCode(k.RCode), k.DO); err != nil {
			return fmt.Errorf("call %d: SetEDNS0(%d, %d, %v) failed: %v", i, k.Size, k.RCode, k.DO, err)
		}
		if got := h.ExtendedRCode(RCode(k.RCode & 0xF)); got != RCode(k.RCode) {
			return fmt.Errorf("call %d on a header with history (initial TTL %#08x): SetEDNS0(%d, %d, %v): ExtendedRCode(%d) = %d, want %d (TTL now %#08x)", i, c.TTL, k.Size, k.RCode, k.DO, k.RCode&0xF, got, k.RCode, h.TTL)
		}
		if got := h.DNSSECAllowed(); got != k.DO {
			return fmt.Errorf("call %d on a header with history (initial TTL %#08x): SetEDNS0(%d, %d, %v): DNSSECAllowed() = %v (TTL now %#08x)", i, c.TTL, k.Size, k.RCode, k.DO, got, h.TTL)
		}
	}
	if c.TTL != 0 {
		r.Class("header-had-nonzero-ttl")
	}
	if len(c.Calls) > 1 {
		r.Class("header-set-more-than-once")
	}
	if c.TTL != 0 || len(c.Calls) > 1 {
		r.NonTrivial()
	}
	return nil
}

func TestVP_C38_reuse(t *testing.T) {
	vp.Run(t, vp.Spec[c38ReuseCase]{ID: "C38", Sub: "reuse", Gen: c38ReuseGen, Prop: c38ReuseProp})
}
