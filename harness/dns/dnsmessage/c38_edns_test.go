package dnsmessage

import (
	"fmt"
	"os"
	"strconv"
	"testing"

	"verif/vp"
)

// C38: EDNS(0) header fields encode and decode consistently.
//
// For every extended RCode (12 bits) x UDP payload size x DNSSEC-OK value:
// after h.SetEDNS0(size, rcode, do), h.ExtendedRCode(rcode & 0xF) == rcode and
// h.DNSSECAllowed() == do. On a sub-grid the header additionally travels through
// Message.Pack/Unpack as the OPT record of a message whose header carries the low
// four bits, and the decoded pair must report the same values.

type c38Case struct {
	RCode   int  `json:"rcode"`
	Size    int  `json:"size"`
	DO      bool `json:"do"`
	Through bool `json:"through_wire"`
}

func c38Direct(rc, size int, do bool) error {
	var h ResourceHeader
	if err := h.SetEDNS0(size, RCode(rc), do); err != nil {
		return fmt.Errorf("SetEDNS0(%d, %d, %v) failed: %v", size, rc, do, err)
	}
	if got := h.ExtendedRCode(RCode(rc & 0xF)); got != RCode(rc) {
		return fmt.Errorf("SetEDNS0(%d, %d, %v): ExtendedRCode(%d) = %d, want %d (TTL %#08x)", size, rc, do, rc&0xF, got, rc, h.TTL)
	}
	if got := h.DNSSECAllowed(); got != do {
		return fmt.Errorf("SetEDNS0(%d, %d, %v): DNSSECAllowed() = %v (TTL %#08x)", size, rc, do, got, h.TTL)
	}
	return nil
}

func c38Wire(rc, size int, do bool) error {
	var h ResourceHeader
	if err := h.SetEDNS0(size, RCode(rc), do); err != nil {
		return fmt.Errorf("SetEDNS0(%d, %d, %v) failed: %v", size, rc, do, err)
	}
	m := Message{
		Header:      Header{Response: true, RCode: RCode(rc & 0xF)},
		Additionals: []Resource{{Header: h, Body: &OPTResource{}}},
	}
	b, err := m.Pack()
	if err != nil {
		return fmt.Errorf("SetEDNS0(%d, %d, %v): Pack of a message with this OPT header failed: %v", size, rc, do, err)
	}
	var p Parser
	mh, err := p.Start(b)
	if err != nil {
		return fmt.Errorf("SetEDNS0(%d, %d, %v): Start failed: %v", size, rc, do, err)
	}
	if err := p.SkipAllQuestions(); err != nil {
		return err
	}
	if err := p.SkipAllAnswers(); err != nil {
		return err
	}
	if err := p.SkipAllAuthorities(); err != nil {
		return err
	}
	oh, err := p.AdditionalHeader()
	if err != nil {
		return fmt.Errorf("SetEDNS0(%d, %d, %v): AdditionalHeader failed: %v", size, rc, do, err)
	}
	if got := oh.ExtendedRCode(mh.RCode); got != RCode(rc) {
		return fmt.Errorf("SetEDNS0(%d, %d, %v) through Pack/Parser: ExtendedRCode(%d) = %d, want %d (TTL %#08x)", size, rc, do, mh.RCode, got, rc, oh.TTL)
	}
	if got := oh.DNSSECAllowed(); got != do {
		return fmt.Errorf("SetEDNS0(%d, %d, %v) through Pack/Parser: DNSSECAllowed() = %v (TTL %#08x)", size, rc, do, got, oh.TTL)
	}
	return nil
}

var c38QuickSizes = []int{0, 1, 2, 255, 256, 511, 512, 513, 576, 1024, 1220, 1231, 1232, 1233, 1280, 1400, 1410, 1452, 1472, 1500,
	2048, 4095, 4096, 4097, 8192, 9000, 16383, 16384, 32767, 32768, 32769, 49152, 65279, 65280, 65534, 65535,
	3, 7, 15, 16, 17, 31, 63, 64, 127, 128, 129, 1000, 1480, 1550, 3072, 4000, 4464, 5000, 12345, 20000, 24576, 40000, 43690, 50000, 54321, 60000, 61440, 65000}

func TestVP_C38(t *testing.T) {
	thorough := vp.Thorough()
	shard, shards := 0, 1
	if thorough {
		if n, err := strconv.Atoi(os.Getenv("VP_SHARDS")); err == nil && n > 0 {
			shards = n
			if s, err := strconv.Atoi(os.Getenv("VP_SHARD")); err == nil && s >= 0 && s < n {
				shard = s
			}
		}
	}
	sub := ""
	if thorough && shards > 1 {
		sub = fmt.Sprintf("sizes-mod-%d-eq-%d", shards, shard)
	}
	vp.RunEnum(t, "C38", sub, thorough, func(e *vp.Enum) {
		var sizes []int
		if thorough {
			for s := shard; s < 65536; s += shards {
				sizes = append(sizes, s)
			}
			e.Note(fmt.Sprintf("thorough: all 4096 extended RCodes x all 65536 payload sizes x 2 DO values, sizes split over %d processes by size mod %d", shards, shards))
		} else {
			sizes = c38QuickSizes
			e.Note(fmt.Sprintf("quick: all 4096 extended RCodes x %d payload sizes x 2 DO values", len(sizes)))
		}
		wireEvery := 1
		if thorough {
			wireEvery = 97 // sub-grid for the Pack/Parser route
		}
		for si, size := range sizes {
			for rc := 0; rc < 4096; rc++ {
				for _, do := range []bool{false, true} {
					nontrivial := rc > 15
					class := "rcode<=15"
					if nontrivial {
						class = "rcode>15"
					}
					e.Eval(nontrivial, class, func() any { return c38Case{RCode: rc, Size: size, DO: do} })
					if err := c38Direct(rc, size, do); err != nil {
						e.Fail(c38Case{RCode: rc, Size: size, DO: do}, err)
						return
					}
					if (si%wireEvery == 0 && (rc%16 == 0 || rc%16 == 15 || rc < 48 || rc > 4000)) || (!thorough && si < 8) {
						e.Eval(false, "through-pack-and-parser", nil)
						if err := c38Wire(rc, size, do); err != nil {
							e.Fail(c38Case{RCode: rc, Size: size, DO: do, Through: true}, err)
							return
						}
					}
				}
			}
		}
	})
}
