package dnsmessage

import (
	"bytes"
	"encoding/json"
	"errors"
	"fmt"
	"os"
	"runtime/debug"
	"strings"
	"sync/atomic"
	"testing"
	"time"

	"pgregory.net/rapid"
	"verif/vp"
)

// C37: DNS parsing is safe and self-consistent on any input.
//
// The case is the byte string plus a script of Parser method calls. The oracle
// (c37Check) has these clauses, all taken from the statement:
//
//	A  nothing panics and everything terminates (watchdog);
//	B  Message.Unpack and the Parser driven record by record (generic methods, and
//	   XHeader + typed body methods) accept/reject alike and decode the same message;
//	C  wherever a parse method succeeds, the corresponding Skip method (alone, after
//	   XHeader, and the SkipAll form) succeeds too and leaves the Parser at the same
//	   position;
//	D  every name the package decodes is what an independent RFC 1035 decoder reads at
//	   that offset: at most 255 octets on the wire, no '.' inside a label, pointer
//	   chain without a cycle;
//	E  a message Unpack accepts packs again and unpacks to an equal message;
//	F  the same holds when the Parser methods are called in an arbitrary (scripted)
//	   order: every record that is returned is the record Unpack decodes at that
//	   index, and consuming a record leaves the Parser where parsing it does. (Calls
//	   for another section while a parsed header is pending are API misuse that the
//	   statement does not cover: counted, and the rest of the script only has to
//	   terminate without a panic.)

type c37Case struct {
	Msg    bs    `json:"msg"`
	Script []int `json:"script"`
}

// ---------------------------------------------------------------------------
// independent name decoder (RFC 1035 section 4.1.4)

type c37RefName struct {
	name    []byte // presentation form with trailing dot
	end     int    // offset after the name in the record
	ptrs    int
	problem string // "" when the name is a valid RFC 1035 name
}

func c37DecodeName(msg []byte, off int) c37RefName {
	var r c37RefName
	cur := off
	wire := 1 // the terminating zero octet
	visited := map[int]bool{}
	endSet := false
	for {
		if cur < 0 || cur >= len(msg) {
			r.problem = "runs past the end of the message"
			return r
		}
		c := int(msg[cur])
		switch c & 0xC0 {
		case 0x00:
			if c == 0 {
				if !endSet {
					r.end = cur + 1
				}
				if len(r.name) == 0 {
					r.name = []byte(".")
				}
				return r
			}
			if cur+1+c > len(msg) {
				r.problem = "label runs past the end of the message"
				return r
			}
			label := msg[cur+1 : cur+1+c]
			if bytes.IndexByte(label, '.') >= 0 {
				r.problem = "label contains '.'"
				return r
			}
			wire += c + 1
			if wire > 255 {
				r.problem = "longer than 255 octets"
				return r
			}
			r.name = append(r.name, label...)
			r.name = append(r.name, '.')
			cur += 1 + c
		case 0xC0:
			if cur+1 >= len(msg) {
				r.problem = "pointer runs past the end of the message"
				return r
			}
			if !endSet {
				r.end = cur + 2
				endSet = true
			}
			if visited[cur] {
				r.problem = "pointer loop"
				return r
			}
			visited[cur] = true
			r.ptrs++
			cur = (c&0x3F)<<8 | int(msg[cur+1])
		default:
			r.problem = "reserved label type"
			return r
		}
	}
}

// c37CheckName: the implementation decoded n at off.
func c37CheckName(what string, msg []byte, off int, n *Name) (c37RefName, error) {
	ref := c37DecodeName(msg, off)
	got := n.Data[:n.Length]
	if ref.problem != "" {
		return ref, fmt.Errorf("%s at offset %d was accepted as %q but it is not a valid name: %s", what, off, got, ref.problem)
	}
	if !bytes.Equal(got, ref.name) {
		return ref, fmt.Errorf("%s at offset %d decoded as %q, the wire says %q", what, off, got, ref.name)
	}
	if n.Length == 0 || got[n.Length-1] != '.' || int(n.Length) > nonEncodedNameMax {
		return ref, fmt.Errorf("%s at offset %d: decoded name %q (Length %d) is not canonical or too long", what, off, got, n.Length)
	}
	return ref, nil
}

// c37CheckBodyNames checks the names inside a decoded body that started at off.
func c37CheckBodyNames(msg []byte, off int, body ResourceBody, r *vp.Rec) error {
	one := func(what string, o int, n *Name) (c37RefName, error) {
		ref, err := c37CheckName(what, msg, o, n)
		if err == nil && ref.ptrs > 0 {
			r.Class("pointer-followed")
		}
		return ref, err
	}
	var err error
	switch b := body.(type) {
	case *NSResource:
		_, err = one("NS", off, &b.NS)
	case *CNAMEResource:
		_, err = one("CNAME", off, &b.CNAME)
	case *PTRResource:
		_, err = one("PTR", off, &b.PTR)
	case *MXResource:
		_, err = one("MX", off+2, &b.MX)
	case *SRVResource:
		_, err = one("SRV target", off+6, &b.Target)
	case *SVCBResource:
		_, err = one("SVCB target", off+2, &b.Target)
	case *HTTPSResource:
		_, err = one("HTTPS target", off+2, &b.Target)
	case *SOAResource:
		var ref c37RefName
		if ref, err = one("SOA NS", off, &b.NS); err == nil {
			_, err = one("SOA MBox", ref.end, &b.MBox)
		}
	}
	return err
}

// ---------------------------------------------------------------------------
// Parser plumbing

type c37Pos struct {
	off, index int
	section    section
	hdrValid   bool
}

func c37PosOf(p *Parser) c37Pos {
	return c37Pos{p.off, p.index, p.section, p.resHeaderValid}
}

func (a c37Pos) String() string {
	return fmt.Sprintf("{off %d section %d index %d headerValid %v}", a.off, a.section, a.index, a.hdrValid)
}

type c37SecOps struct {
	sec     section
	name    string
	header  func(*Parser) (ResourceHeader, error)
	one     func(*Parser) (Resource, error)
	all     func(*Parser) ([]Resource, error)
	skip    func(*Parser) error
	skipAll func(*Parser) error
}

var c37Secs = [3]c37SecOps{
	{sectionAnswers, "Answer", (*Parser).AnswerHeader, (*Parser).Answer, (*Parser).AllAnswers, (*Parser).SkipAnswer, (*Parser).SkipAllAnswers},
	{sectionAuthorities, "Authority", (*Parser).AuthorityHeader, (*Parser).Authority, (*Parser).AllAuthorities, (*Parser).SkipAuthority, (*Parser).SkipAllAuthorities},
	{sectionAdditionals, "Additional", (*Parser).AdditionalHeader, (*Parser).Additional, (*Parser).AllAdditionals, (*Parser).SkipAdditional, (*Parser).SkipAllAdditionals},
}

var c37TypedTypes = []Type{TypeCNAME, TypeMX, TypeNS, TypePTR, TypeSOA, TypeTXT, TypeSRV, TypeA, TypeAAAA, TypeOPT, TypeSVCB, TypeHTTPS}

// c37Typed calls the typed body method for typ (UnknownResource for other types).
func c37Typed(p *Parser, typ Type) (ResourceBody, error) {
	switch typ {
	case TypeCNAME:
		b, err := p.CNAMEResource()
		return &b, err
	case TypeMX:
		b, err := p.MXResource()
		return &b, err
	case TypeNS:
		b, err := p.NSResource()
		return &b, err
	case TypePTR:
		b, err := p.PTRResource()
		return &b, err
	case TypeSOA:
		b, err := p.SOAResource()
		return &b, err
	case TypeTXT:
		b, err := p.TXTResource()
		return &b, err
	case TypeSRV:
		b, err := p.SRVResource()
		return &b, err
	case TypeA:
		b, err := p.AResource()
		return &b, err
	case TypeAAAA:
		b, err := p.AAAAResource()
		return &b, err
	case TypeOPT:
		b, err := p.OPTResource()
		return &b, err
	case TypeSVCB:
		b, err := p.SVCBResource()
		return &b, err
	case TypeHTTPS:
		b, err := p.HTTPSResource()
		return &b, err
	}
	b, err := p.UnknownResource()
	return &b, err
}

// c37Walk is what the record-by-record pass decoded.
type c37Walk struct {
	started bool
	hdr     Header
	q       []Question
	qEnd    []int
	rs      [3][]Resource
	rsEnd   [3][]int // Parser offset after each record
	rsBody  [3][]int // offset of each record's body
	err     error    // first parse error (nil: the whole message parsed)
	errAt   string
}

// c37WalkStrict drives a Parser over msg one record at a time, checking clauses
// B (typed route), C and D on the way. A returned error is a violation; w.err is the
// (legitimate) parse error that ended the walk.
func c37WalkStrict(msg []byte, r *vp.Rec) (*c37Walk, error) {
	w := &c37Walk{}
	var p Parser
	hdr, err := p.Start(msg)
	if err != nil {
		w.err, w.errAt = err, "header"
		return w, nil
	}
	w.started, w.hdr = true, hdr

	// --- questions
	{
		qa := p
		_, errAll := qa.AllQuestions()
		qs := p
		errSkipAll := qs.SkipAllQuestions()
		if errAll == nil {
			if errSkipAll != nil {
				return w, fmt.Errorf("AllQuestions succeeds but SkipAllQuestions fails: %v", errSkipAll)
			}
			if c37PosOf(&qa) != c37PosOf(&qs) {
				return w, fmt.Errorf("after AllQuestions the Parser is at %v, after SkipAllQuestions at %v", c37PosOf(&qa), c37PosOf(&qs))
			}
		} else if errSkipAll == nil {
			r.Class("skip-ok-where-parse-fails")
		}
	}
	for {
		start := p
		q, errP := p.Question()
		sk := start
		errS := sk.SkipQuestion()
		if errP == ErrSectionDone {
			if errS != ErrSectionDone || c37PosOf(&sk) != c37PosOf(&p) {
				return w, fmt.Errorf("Question says ErrSectionDone (%v) but SkipQuestion says %v (%v)", c37PosOf(&p), errS, c37PosOf(&sk))
			}
			break
		}
		if errP != nil {
			if errS == nil {
				r.Class("skip-ok-where-parse-fails")
			}
			w.err, w.errAt = errP, fmt.Sprintf("Question[%d]", len(w.q))
			return w, nil
		}
		ref, err := c37CheckName("Question name", msg, start.off, &q.Name)
		if err != nil {
			return w, err
		}
		if ref.ptrs > 0 {
			r.Class("pointer-followed")
		}
		if errS != nil {
			return w, fmt.Errorf("Question[%d] parses but SkipQuestion fails: %v", len(w.q), errS)
		}
		if c37PosOf(&sk) != c37PosOf(&p) {
			return w, fmt.Errorf("Question[%d]: after Question the Parser is at %v, after SkipQuestion at %v", len(w.q), c37PosOf(&p), c37PosOf(&sk))
		}
		w.q = append(w.q, q)
		w.qEnd = append(w.qEnd, p.off)
	}

	// --- resource sections
	for si := range c37Secs {
		ops := &c37Secs[si]
		{
			qa := p
			_, errAll := ops.all(&qa)
			qs := p
			errSkipAll := ops.skipAll(&qs)
			if errAll == nil {
				if errSkipAll != nil {
					return w, fmt.Errorf("All%s succeeds but SkipAll%s fails: %v", ops.name, ops.name, errSkipAll)
				}
				if c37PosOf(&qa) != c37PosOf(&qs) {
					return w, fmt.Errorf("after All%s the Parser is at %v, after SkipAll%s at %v", ops.name, c37PosOf(&qa), ops.name, c37PosOf(&qs))
				}
			} else if errSkipAll == nil {
				r.Class("skip-ok-where-parse-fails")
			}
		}
		for {
			idx := len(w.rs[si])
			at := fmt.Sprintf("%s[%d]", ops.name, idx)
			start := p
			res, errP := ops.one(&p)

			sk := start
			errS := ops.skip(&sk)
			if errP == ErrSectionDone {
				if errS != ErrSectionDone || c37PosOf(&sk) != c37PosOf(&p) {
					return w, fmt.Errorf("%s says ErrSectionDone (%v) but Skip%s says %v (%v)", ops.name, c37PosOf(&p), ops.name, errS, c37PosOf(&sk))
				}
				hq := start
				if _, errH := ops.header(&hq); errH != ErrSectionDone || c37PosOf(&hq) != c37PosOf(&p) {
					return w, fmt.Errorf("%s says ErrSectionDone (%v) but %sHeader says %v (%v)", ops.name, c37PosOf(&p), ops.name, errH, c37PosOf(&hq))
				}
				break
			}

			// XHeader, XHeader again, a refused typed call, then the typed body method
			ty := start
			h1, errH := ops.header(&ty)
			var typedBody ResourceBody
			var errT error
			bodyOff := -1
			if errH == nil {
				bodyOff = ty.off
				after1 := c37PosOf(&ty)
				h2, errH2 := ops.header(&ty)
				if errH2 != nil || h2 != h1 || c37PosOf(&ty) != after1 {
					return w, fmt.Errorf("%s: calling %sHeader twice gives %+v/%v at %v, first call gave %+v at %v", at, ops.name, h2, errH2, c37PosOf(&ty), h1, after1)
				}
				wrong := TypeA
				if h1.Type == TypeA {
					wrong = TypeTXT
				}
				if _, errW := c37Typed(&ty, wrong); errW != ErrNotStarted || c37PosOf(&ty) != after1 {
					return w, fmt.Errorf("%s (type %v): the typed method for %v returned %v and left the Parser at %v (was %v)", at, h1.Type, wrong, errW, c37PosOf(&ty), after1)
				}
				typedBody, errT = c37Typed(&ty, h1.Type)
				if errT != nil && c37PosOf(&ty) != after1 {
					return w, fmt.Errorf("%s: a failed typed body method moved the Parser from %v to %v", at, after1, c37PosOf(&ty))
				}
			}
			// XHeader then SkipX
			hs := start
			var errHS error
			if _, e := ops.header(&hs); e == nil {
				errHS = ops.skip(&hs)
			} else {
				errHS = e
			}
			// XHeader then UnknownResource (raw body)
			raw := start
			var rawBody UnknownResource
			var errRaw error
			if _, e := ops.header(&raw); e == nil {
				rawBody, errRaw = raw.UnknownResource()
			} else {
				errRaw = e
			}

			if errP != nil {
				if errH == nil && errT == nil {
					return w, fmt.Errorf("%s: %s() fails (%v) but %sHeader + typed body method succeed", at, ops.name, errP, ops.name)
				}
				if errS == nil || errHS == nil {
					r.Class("skip-ok-where-parse-fails")
				}
				w.err, w.errAt = errP, at
				return w, nil
			}

			// the record parsed
			end := c37PosOf(&p)
			if errH != nil {
				return w, fmt.Errorf("%s: %s() succeeds but %sHeader fails: %v", at, ops.name, ops.name, errH)
			}
			if h1 != res.Header {
				return w, fmt.Errorf("%s: %sHeader returns %+v, %s() returns header %+v", at, ops.name, h1, ops.name, res.Header)
			}
			ref, err := c37CheckName(at+" name", msg, start.off, &res.Header.Name)
			if err != nil {
				return w, err
			}
			if ref.ptrs > 0 {
				r.Class("pointer-followed")
			}
			if err := c37CheckBodyNames(msg, bodyOff, res.Body, r); err != nil {
				return w, fmt.Errorf("%s: %v", at, err)
			}
			if errT != nil {
				return w, fmt.Errorf("%s (type %v): %s() succeeds but the typed body method fails: %v", at, h1.Type, ops.name, errT)
			}
			if err := dmDiffBody(res.Body, typedBody); err != nil {
				return w, fmt.Errorf("%s (type %v): %s() and the typed body method decode different bodies: %v", at, h1.Type, ops.name, err)
			}
			if c37PosOf(&ty) != end {
				return w, fmt.Errorf("%s (type %v): after %s() the Parser is at %v, after %sHeader + typed body method at %v", at, h1.Type, ops.name, end, ops.name, c37PosOf(&ty))
			}
			if errS != nil {
				return w, fmt.Errorf("%s (type %v, RDLENGTH %d, body at %d of %d bytes): %s() succeeds and moves to %v but Skip%s fails: %v", at, h1.Type, h1.Length, bodyOff, len(msg), ops.name, end, ops.name, errS)
			}
			if c37PosOf(&sk) != end {
				return w, fmt.Errorf("%s (type %v): after %s() the Parser is at %v, after Skip%s at %v", at, h1.Type, ops.name, end, ops.name, c37PosOf(&sk))
			}
			if errHS != nil {
				return w, fmt.Errorf("%s (type %v): %s() succeeds but %sHeader + Skip%s fails: %v", at, h1.Type, ops.name, ops.name, ops.name, errHS)
			}
			if c37PosOf(&hs) != end {
				return w, fmt.Errorf("%s (type %v): after %s() the Parser is at %v, after %sHeader + Skip%s at %v", at, h1.Type, ops.name, end, ops.name, ops.name, c37PosOf(&hs))
			}
			if errRaw != nil {
				return w, fmt.Errorf("%s (type %v, RDLENGTH %d, body at %d of %d bytes): %s() succeeds but %sHeader + UnknownResource fails: %v", at, h1.Type, h1.Length, bodyOff, len(msg), ops.name, ops.name, errRaw)
			}
			if c37PosOf(&raw) != end {
				return w, fmt.Errorf("%s (type %v): after %s() the Parser is at %v, after %sHeader + UnknownResource at %v", at, h1.Type, ops.name, end, ops.name, c37PosOf(&raw))
			}
			if rawBody.Type != h1.Type || bodyOff+int(h1.Length) > len(msg) || !bytes.Equal(rawBody.Data, msg[bodyOff:bodyOff+int(h1.Length)]) {
				return w, fmt.Errorf("%s: UnknownResource returned type %v and %d bytes that are not the %d body bytes at offset %d", at, rawBody.Type, len(rawBody.Data), h1.Length, bodyOff)
			}
			w.rs[si] = append(w.rs[si], res)
			w.rsEnd[si] = append(w.rsEnd[si], p.off)
			w.rsBody[si] = append(w.rsBody[si], bodyOff)
		}
	}
	return w, nil
}

// ---------------------------------------------------------------------------
// scripted pass (clause F)

const (
	c37OpQuestion = iota
	c37OpAllQuestions
	c37OpSkipQuestion
	c37OpSkipAllQuestions
	c37OpSecBase   // 5 per section: header, one, all, skip, skipAll
	c37OpTypedBase = c37OpSecBase + 15
	c37OpUnknown   = c37OpTypedBase + 12
	c37OpAutoTyped = c37OpUnknown + 1
	c37OpAutoNext  = c37OpAutoTyped + 1 // the generic parse method of the current section
	c37OpAutoHdr   = c37OpAutoNext + 1  // the header method of the current section
	c37OpRestart   = c37OpAutoHdr + 1
	c37NumOps      = c37OpRestart + 1
)

func c37OpName(op int) string {
	switch {
	case op == c37OpQuestion:
		return "Question"
	case op == c37OpAllQuestions:
		return "AllQuestions"
	case op == c37OpSkipQuestion:
		return "SkipQuestion"
	case op == c37OpSkipAllQuestions:
		return "SkipAllQuestions"
	case op >= c37OpSecBase && op < c37OpTypedBase:
		s := c37Secs[(op-c37OpSecBase)/5].name
		return []string{s + "Header", s, "All<" + s + ">", "Skip" + s, "SkipAll<" + s + ">"}[(op-c37OpSecBase)%5]
	case op >= c37OpTypedBase && op < c37OpUnknown:
		return "typed:" + c37TypedTypes[op-c37OpTypedBase].String()
	case op == c37OpUnknown:
		return "UnknownResource"
	case op == c37OpAutoTyped:
		return "typed:<type of the parsed header>"
	case op == c37OpAutoNext:
		return "<parse next in current section>"
	case op == c37OpAutoHdr:
		return "<header of next in current section>"
	case op == c37OpRestart:
		return "Start"
	}
	return "?"
}

// c37HeaderProbe reports whether a script step is an XHeader, X or AllX call for a
// section other than the current one, made while a parsed header is pending.
func c37HeaderProbe(before c37Pos, op int) bool {
	if !before.hdrValid || op < c37OpSecBase || op >= c37OpTypedBase || (op-c37OpSecBase)%5 > 2 {
		return false
	}
	return c37Secs[(op-c37OpSecBase)/5].sec != before.section
}

func c37SecIndex(s section) int {
	switch s {
	case sectionAnswers:
		return 0
	case sectionAuthorities:
		return 1
	case sectionAdditionals:
		return 2
	}
	return -1
}

// c37RunScript calls Parser methods in the scripted order. While the run is "trusted"
// (no call has failed with a real parse error yet) every result is compared with the
// record-by-record walk w; afterwards the calls continue for clause A only.
func c37RunScript(msg []byte, script []int, w *c37Walk, r *vp.Rec) error {
	var p Parser
	_, err := p.Start(msg)
	trusted := err == nil
	for step, raw := range script {
		op := raw % c37NumOps
		if op < 0 {
			op = -op
		}
		before := c37PosOf(&p)
		if op == c37OpAutoNext || op == c37OpAutoHdr {
			si := c37SecIndex(before.section)
			switch {
			case before.section == sectionQuestions:
				op = c37OpQuestion
			case si >= 0 && op == c37OpAutoNext:
				op = c37OpSecBase + 5*si + 1
			case si >= 0:
				op = c37OpSecBase + 5*si
			default:
				op = c37OpSecBase + 5*2 + 1
			}
		}
		if trusted && c37HeaderProbe(before, op) {
			// Outside the statement (it quantifies over byte strings, not over misuse of
			// the API): the call is refused but Parser.resourceHeader has already moved
			// the Parser back to the start of the pending header. Counted; from here
			// on the calls are only checked for panics and termination.
			r.Class("script-calls-other-section-with-header-pending")
			trusted = false
		}
		where := func() string {
			return fmt.Sprintf("script step %d (%s) at %v", step, c37OpName(op), before)
		}
		var (
			err     error
			gotQ    []Question
			gotRes  []Resource
			gotHdr  *ResourceHeader
			gotBody ResourceBody
			consume bool // the call consumed exactly one record on success
		)
		switch {
		case op == c37OpRestart:
			_, err = p.Start(msg)
			trusted = err == nil
			continue
		case op == c37OpQuestion:
			var q Question
			q, err = p.Question()
			gotQ, consume = []Question{q}, true
		case op == c37OpAllQuestions:
			gotQ, err = p.AllQuestions()
		case op == c37OpSkipQuestion:
			err = p.SkipQuestion()
			consume = true
		case op == c37OpSkipAllQuestions:
			err = p.SkipAllQuestions()
		case op >= c37OpSecBase && op < c37OpTypedBase:
			ops := &c37Secs[(op-c37OpSecBase)/5]
			switch (op - c37OpSecBase) % 5 {
			case 0:
				var h ResourceHeader
				h, err = ops.header(&p)
				gotHdr = &h
			case 1:
				var res Resource
				res, err = ops.one(&p)
				gotRes, consume = []Resource{res}, true
			case 2:
				gotRes, err = ops.all(&p)
			case 3:
				err = ops.skip(&p)
				consume = true
			case 4:
				err = ops.skipAll(&p)
			}
		case op >= c37OpTypedBase && op < c37OpUnknown:
			gotBody, err = c37Typed(&p, c37TypedTypes[op-c37OpTypedBase])
			consume = true
		case op == c37OpUnknown:
			var u UnknownResource
			u, err = p.UnknownResource()
			consume = true
			if err == nil && trusted {
				si := c37SecIndex(before.section)
				if si >= 0 && before.index < len(w.rs[si]) {
					h := w.rs[si][before.index].Header
					bo := w.rsBody[si][before.index]
					if u.Type != h.Type || bo+int(h.Length) > len(msg) || !bytes.Equal(u.Data, msg[bo:bo+int(h.Length)]) {
						return fmt.Errorf("%s: UnknownResource returned type %v, %d bytes; the record has type %v and %d body bytes at %d", where(), u.Type, len(u.Data), h.Type, h.Length, bo)
					}
				}
			}
		case op == c37OpAutoTyped:
			gotBody, err = c37Typed(&p, p.resHeaderType)
			consume = true
		}
		after := c37PosOf(&p)
		if !trusted {
			continue
		}
		if err == ErrNotStarted || err == ErrSectionDone {
			moved := after.off != before.off
			if after.section == before.section {
				moved = moved || after.index != before.index
			} else if !(err == ErrSectionDone && after.section == before.section+1 && after.index == 0) {
				moved = true
			}
			if moved {
				return fmt.Errorf("%s: the call was refused with %q but moved the Parser to %v", where(), err, after)
			}
			continue
		}
		if err != nil {
			trusted = false // a real parse error: the Parser state is no longer specified
			r.Class("script-hit-parse-error")
			continue
		}
		// success: compare with the walk
		si := c37SecIndex(before.section)
		switch {
		case gotQ != nil || op == c37OpAllQuestions:
			if before.section == sectionQuestions {
				for i := range gotQ {
					k := before.index + i
					if k < len(w.q) {
						if err := dmDiffQuestion(&gotQ[i], &w.q[k]); err != nil {
							return fmt.Errorf("%s: returned Question[%d] differs from the one-by-one parse: %v", where(), k, err)
						}
					}
				}
			} else if len(gotQ) != 0 {
				return fmt.Errorf("%s: returned %d questions outside the question section", where(), len(gotQ))
			}
		case gotRes != nil || (op >= c37OpSecBase && op < c37OpTypedBase && (op-c37OpSecBase)%5 == 2):
			callSec := (op - c37OpSecBase) / 5
			if si == callSec {
				for i := range gotRes {
					k := before.index + i
					if k < len(w.rs[si]) {
						if err := dmDiffResource(&gotRes[i], &w.rs[si][k], true); err != nil {
							return fmt.Errorf("%s: returned %s[%d] differs from the one-by-one parse: %v", where(), c37Secs[si].name, k, err)
						}
					}
				}
			} else if len(gotRes) != 0 {
				return fmt.Errorf("%s: returned %d records while the Parser is in section %d", where(), len(gotRes), before.section)
			}
		case gotHdr != nil:
			if si >= 0 && before.index < len(w.rs[si]) {
				if *gotHdr != w.rs[si][before.index].Header {
					return fmt.Errorf("%s: returned header %+v, the one-by-one parse has %+v", where(), *gotHdr, w.rs[si][before.index].Header)
				}
			}
		case gotBody != nil:
			if si >= 0 && before.index < len(w.rs[si]) {
				if err := dmDiffBody(gotBody, w.rs[si][before.index].Body); err != nil {
					return fmt.Errorf("%s: typed body of %s[%d] differs from the one-by-one parse: %v", where(), c37Secs[si].name, before.index, err)
				}
			}
		}
		if consume {
			// position after consuming record (section, index)
			want := -1
			if before.section == sectionQuestions && before.index < len(w.qEnd) {
				want = w.qEnd[before.index]
			} else if si >= 0 && before.index < len(w.rsEnd[si]) {
				want = w.rsEnd[si][before.index]
			}
			if want >= 0 && (after.off != want || after.index != before.index+1 || after.section != before.section || after.hdrValid) {
				return fmt.Errorf("%s: after the call the Parser is at %v; parsing that record moves it to offset %d, index %d", where(), after, want, before.index+1)
			}
		}
	}
	return nil
}

// ---------------------------------------------------------------------------
// the whole oracle

func c37Body(msg []byte, script []int, r *vp.Rec) error {
	// B: Unpack
	var m Message
	errU := m.Unpack(msg)

	// record by record (B typed route, C, D)
	w, err := c37WalkStrict(msg, r)
	if err != nil {
		return err
	}
	if (errU == nil) != (w.err == nil) {
		return fmt.Errorf("Unpack returns %v but parsing record by record returns %v (at %s)", errU, w.err, w.errAt)
	}
	if errU == nil {
		wm := Message{Header: w.hdr, Questions: w.q, Answers: w.rs[0], Authorities: w.rs[1], Additionals: w.rs[2]}
		if err := dmDiffMsg(&m, &wm, true); err != nil {
			return fmt.Errorf("Unpack and the record-by-record Parser decode different messages: %v", err)
		}
	}
	items := len(w.q) + len(w.rs[0]) + len(w.rs[1]) + len(w.rs[2])

	// E: re-pack
	if errU == nil {
		var orig Message
		if err := orig.Unpack(msg); err != nil {
			return fmt.Errorf("second Unpack of the same bytes failed: %v", err)
		}
		packed, err := m.Pack()
		if err != nil {
			return fmt.Errorf("Unpack accepted the message but Pack of the result fails: %v", err)
		}
		var again Message
		if err := again.Unpack(packed); err != nil {
			return fmt.Errorf("Unpack accepted the message, Pack succeeded, but the packed form does not unpack: %v", err)
		}
		if err := dmDiffMsg(&orig, &again, false); err != nil {
			return fmt.Errorf("Unpack(Pack(Unpack(b))) != Unpack(b): %v", err)
		}
		if err := dmDiffMsg(&m, &again, true); err != nil {
			return fmt.Errorf("Unpack(Pack(m)) != m as updated by Pack: %v", err)
		}
		if dmDiffMsg(&orig, &again, true) != nil {
			r.Class("accepted-with-RDLENGTH-that-repacking-changes")
		}
	}

	// F: scripted order
	if err := c37RunScript(msg, script, w, r); err != nil {
		return err
	}

	// classes
	if errU == nil {
		r.Class("unpack-ok")
	} else {
		r.Class("unpack-err: " + dmRootErr(errU).Error())
	}
	if items > 0 {
		r.Class("records-parsed>0")
		r.NonTrivial()
	}
	return nil
}

var c37Hung atomic.Bool

// c37Check runs the oracle under a watchdog: a parse that does not come back is a
// violation of "compression-pointer chains always terminate", a panic of "never
// panic".
func c37Check(msg []byte, script []int, r *vp.Rec) error {
	done := make(chan error, 1)
	go func() {
		defer func() {
			if p := recover(); p != nil {
				st := strings.Split(string(debug.Stack()), "\n")
				if len(st) > 30 {
					st = st[:30]
				}
				done <- fmt.Errorf("panic: %v\n%s", p, strings.Join(st, "\n"))
			}
		}()
		done <- c37Body(msg, script, r)
	}()
	limit := 10 * time.Second
	if c37Hung.Load() {
		limit = 2 * time.Second // keep shrinking affordable once a hang has been seen
	}
	select {
	case err := <-done:
		return err
	case <-time.After(limit):
		c37Hung.Store(true)
		return errors.New("parsing did not terminate (watchdog: a message of a few hundred bytes takes microseconds)")
	}
}

func c37Prop(c c37Case, r *vp.Rec) error {
	return c37Check(c.Msg, c.Script, r)
}

// ---------------------------------------------------------------------------
// known findings (predicates over the case)

const (
	c37KeyRDLen  = "c37-rdlength-past-end-accepted"
	c37KeyRepack = "c37-repacked-body-exceeds-65535"
)

// c37RDLenPastEnd: the message holds a record that the Parser accepts although its
// RDLENGTH reaches past the end of the message.
func c37RDLenPastEnd(msg []byte) (found bool) {
	defer func() {
		if recover() != nil {
			found = false
		}
	}()
	var p Parser
	if _, err := p.Start(msg); err != nil {
		return false
	}
	if err := p.SkipAllQuestions(); err != nil {
		return false
	}
	for si := range c37Secs {
		ops := &c37Secs[si]
		for {
			q := p
			h, err := ops.header(&q)
			if err == ErrSectionDone {
				p = q
				break
			}
			if err != nil {
				return false
			}
			body := q.off
			if _, err := ops.one(&p); err != nil {
				return false
			}
			if body+int(h.Length) > len(msg) {
				return true
			}
		}
	}
	return false
}

// c37RepackTooLong: Unpack accepts the message and it holds a record whose body, as
// Pack writes it, no longer fits in 65535 bytes: an SVCB/HTTPS record (possible when the
// Target arrived compressed) or an OPT record (possible when an option runs past the
// record's RDLENGTH).
func c37RepackTooLong(msg []byte) bool {
	var m Message
	if m.Unpack(msg) != nil {
		return false
	}
	for _, sec := range [][]Resource{m.Answers, m.Authorities, m.Additionals} {
		for i := range sec {
			n := 0
			var s *SVCBResource
			switch b := sec[i].Body.(type) {
			case *SVCBResource:
				s = b
			case *HTTPSResource:
				s = &b.SVCBResource
			case *OPTResource:
				for _, o := range b.Options {
					n += 4 + len(o.Data)
				}
			}
			if s != nil {
				n = 2 + 1
				if s.Target.Length > 1 {
					n = 2 + int(s.Target.Length) + 1
				}
				for _, p := range s.Params {
					n += 4 + len(p.Value)
				}
			}
			if n > 65535 {
				return true
			}
		}
	}
	return false
}

// c37Known evaluates the predicates of the known findings under a watchdog (a parser
// that hangs must be reported by the property, not hide in the predicate). Several
// keys are joined with commas.
func c37Known(c c37Case) string {
	done := make(chan string, 1)
	go func() {
		defer func() {
			if recover() != nil {
				done <- ""
			}
		}()
		var keys []string
		if c37RDLenPastEnd(c.Msg) {
			keys = append(keys, c37KeyRDLen)
		}
		if c37RepackTooLong(c.Msg) {
			keys = append(keys, c37KeyRepack)
		}
		done <- strings.Join(keys, ",")
	}()
	limit := 5 * time.Second
	if c37Hung.Load() {
		limit = 500 * time.Millisecond
	}
	select {
	case k := <-done:
		return k
	case <-time.After(limit):
		c37Hung.Store(true)
		return ""
	}
}

// c37KnownOpen: some finding the case matches is listed open.
func c37KnownOpen(c c37Case, open map[string]bool) bool {
	for _, k := range strings.Split(c37Known(c), ",") {
		if k != "" && open[k] {
			return true
		}
	}
	return false
}

// c37OpenFindings reads KNOWN_FINDINGS.json (for the native fuzz target, which does
// not go through vp.Run).
func c37OpenFindings() map[string]bool {
	open := map[string]bool{}
	b, err := os.ReadFile(os.Getenv("VP_KNOWN"))
	if err != nil {
		return open
	}
	var kf struct {
		Findings []struct{ Key, Property, Status string }
	}
	if json.Unmarshal(b, &kf) != nil {
		return open
	}
	for _, f := range kf.Findings {
		if f.Property == "C37" && f.Status == "open" {
			open[f.Key] = true
		}
	}
	return open
}

// ---------------------------------------------------------------------------
// generator

// c37Wire builds hostile wire-format messages.
type c37Wire struct {
	b      []byte
	labels []int // offsets where a label or pointer starts
	exact  bool  // the body just written wants its exact RDLENGTH
}

func (w *c37Wire) u16(v int) { w.b = append(w.b, byte(v>>8), byte(v)) }
func (w *c37Wire) u32(v uint32) {
	w.b = append(w.b, byte(v>>24), byte(v>>16), byte(v>>8), byte(v))
}

func (w *c37Wire) ptr(target int) {
	w.labels = append(w.labels, len(w.b))
	w.b = append(w.b, 0xC0|byte(target>>8&0x3F), byte(target))
}

// remaining presentation length of the name starting at a known offset (0 if the
// reference decoder has a problem with it).
func (w *c37Wire) lenAt(off int) int {
	r := c37DecodeName(w.b, off)
	if r.problem != "" {
		return 0
	}
	return len(r.name)
}

func (w *c37Wire) name(t *rapid.T) {
	kind := rapid.IntRange(0, 19).Draw(t, "wnameKind")
	if kind == 0 && len(w.labels) > 0 {
		// aim at the 254/255 boundary: fill labels + pointer to an earlier name
		tgt := w.labels[rapid.IntRange(0, len(w.labels)-1).Draw(t, "ptrTarget")]
		total := rapid.IntRange(250, 258).Draw(t, "totalLen")
		rest := w.lenAt(tgt)
		if tgt+1 < len(w.b) && rest > 1 && total-rest >= 2 {
			for _, l := range dmFillLabels(total-rest, 'k') {
				w.labels = append(w.labels, len(w.b))
				w.b = append(w.b, byte(len(l)))
				w.b = append(w.b, l...)
			}
			w.ptr(tgt)
			return
		}
	}
	if kind == 1 {
		total := rapid.IntRange(250, 258).Draw(t, "totalLen")
		for _, l := range dmFillLabels(total, 'm') {
			w.labels = append(w.labels, len(w.b))
			w.b = append(w.b, byte(len(l)))
			w.b = append(w.b, l...)
		}
		w.b = append(w.b, 0)
		return
	}
	n := rapid.IntRange(0, 3).Draw(t, "wlabels")
	for i := 0; i < n; i++ {
		l := dmLabel(t)
		if rapid.IntRange(0, 29).Draw(t, "dot") == 0 {
			l[rapid.IntRange(0, len(l)-1).Draw(t, "dotAt")] = '.'
		}
		w.labels = append(w.labels, len(w.b))
		w.b = append(w.b, byte(len(l)))
		w.b = append(w.b, l...)
	}
	switch term := rapid.IntRange(0, 19).Draw(t, "wterm"); {
	case term <= 8:
		w.b = append(w.b, 0)
	case term <= 14:
		if len(w.labels) == 0 {
			w.b = append(w.b, 0)
			return
		}
		w.ptr(w.labels[rapid.IntRange(0, len(w.labels)-1).Draw(t, "ptrTarget")])
	case term == 15:
		w.ptr(len(w.b)) // self
	case term == 16:
		w.ptr(rapid.SampledFrom([]int{0, 2, 4, 11, 12, len(w.b) + 2, len(w.b) + 40, 0x3FFF}).Draw(t, "oddTarget") & 0x3FFF)
	case term == 17:
		w.b = append(w.b, rapid.SampledFrom([]byte{0x40, 0x41, 0x7f, 0x80, 0x81, 0xbf}).Draw(t, "reserved"))
	case term == 18:
		// unterminated: whatever follows continues the name
	default:
		w.b = append(w.b, 0)
	}
}

var c37WireTypes = []int{1, 2, 5, 6, 12, 15, 16, 28, 33, 41, 64, 65, 0, 99, 255, 65535}

// rdata writes a body for typ; kind "chain" writes a chain of compression pointers.
func (w *c37Wire) rdata(t *rapid.T, typ int) {
	u16 := func(label string) { w.u16(int(rapid.Uint16().Draw(t, label))) }
	if rapid.IntRange(0, 9).Draw(t, "rawBody") == 0 {
		w.b = append(w.b, rapid.SliceOfN(rapid.Byte(), 0, 24).Draw(t, "raw")...)
		return
	}
	switch typ {
	case 1:
		w.b = append(w.b, rapid.SliceOfN(rapid.Byte(), 4, 4).Draw(t, "a")...)
	case 28:
		w.b = append(w.b, rapid.SliceOfN(rapid.Byte(), 16, 16).Draw(t, "aaaa")...)
	case 2, 5, 12:
		w.name(t)
	case 15:
		u16("pref")
		w.name(t)
	case 6:
		w.name(t)
		w.name(t)
		for i := 0; i < 5; i++ {
			w.u32(rapid.Uint32().Draw(t, "soa"))
		}
	case 16:
		n := rapid.IntRange(0, 3).Draw(t, "txts")
		for i := 0; i < n; i++ {
			s := rapid.SliceOfN(rapid.Byte(), 0, 5).Draw(t, "txt")
			l := len(s)
			if rapid.IntRange(0, 9).Draw(t, "txtLie") == 0 {
				l = rapid.IntRange(0, 255).Draw(t, "txtLen")
			}
			w.b = append(w.b, byte(l))
			w.b = append(w.b, s...)
		}
	case 33:
		u16("prio")
		u16("weight")
		u16("port")
		w.name(t)
	case 64, 65:
		if rapid.IntRange(0, 3).Draw(t, "giantSVCB") == 0 {
			// RDLENGTH close to 65535 with a (possibly compressed) target
			start := len(w.b)
			u16("prio")
			if len(w.labels) > 0 && rapid.IntRange(0, 3).Draw(t, "giantInline") > 0 {
				w.ptr(w.labels[rapid.IntRange(0, len(w.labels)-1).Draw(t, "ptrTarget")])
			} else {
				w.name(t)
			}
			n := 65535 - (len(w.b) - start) - 4 - rapid.OneOf(rapid.IntRange(0, 3), rapid.IntRange(0, 300)).Draw(t, "giantSlack")
			w.exact = true
			w.u16(1)
			w.u16(n)
			w.b = append(w.b, bytes.Repeat([]byte{'v'}, n)...)
			return
		}
		u16("prio")
		w.name(t)
		n := rapid.IntRange(0, 3).Draw(t, "params")
		key := 0
		for i := 0; i < n; i++ {
			key += rapid.IntRange(0, 3).Draw(t, "keyStep") // 0: duplicate key
			v := rapid.SliceOfN(rapid.Byte(), 0, 5).Draw(t, "pval")
			l := len(v)
			if rapid.IntRange(0, 9).Draw(t, "plenLie") == 0 {
				l = rapid.SampledFrom([]int{0, l + 1, l + 7, 255, 65528, 65535}).Draw(t, "plen")
			}
			w.u16(key)
			w.u16(l)
			w.b = append(w.b, v...)
		}
	case 41:
		n := rapid.IntRange(0, 3).Draw(t, "opts")
		for i := 0; i < n; i++ {
			u16("code")
			v := rapid.SliceOfN(rapid.Byte(), 0, 5).Draw(t, "oval")
			l := len(v)
			if rapid.IntRange(0, 9).Draw(t, "olenLie") == 0 {
				l = rapid.SampledFrom([]int{0, l + 1, l + 7, 255, 65535}).Draw(t, "olen")
			}
			w.u16(l)
			w.b = append(w.b, v...)
		}
	case 99:
		// a chain of k pointers, each to the next; the last one to a name, to the
		// first (loop) or to itself
		k := rapid.IntRange(1, 13).Draw(t, "chain")
		base := len(w.b)
		for i := 0; i < k-1; i++ {
			w.ptr(base + 2*(i+1))
		}
		switch rapid.IntRange(0, 3).Draw(t, "chainEnd") {
		case 0:
			w.ptr(base)
		case 1:
			w.ptr(len(w.b))
		default:
			if len(w.labels) > 0 {
				w.ptr(w.labels[rapid.IntRange(0, len(w.labels)-1).Draw(t, "chainTarget")])
			} else {
				w.ptr(12)
			}
		}
	default:
		w.b = append(w.b, rapid.SliceOfN(rapid.Byte(), 0, 12).Draw(t, "raw")...)
	}
}

func c37GenWire(t *rapid.T) []byte {
	w := &c37Wire{}
	counts := []int{rapid.IntRange(0, 2).Draw(t, "qd"), rapid.IntRange(0, 3).Draw(t, "an"),
		rapid.IntRange(0, 2).Draw(t, "ns"), rapid.IntRange(0, 2).Draw(t, "ar")}
	w.u16(int(rapid.Uint16().Draw(t, "id")))
	w.u16(int(rapid.Uint16().Draw(t, "flags")))
	lie := rapid.IntRange(0, 9).Draw(t, "countLie")
	for i, c := range counts {
		if lie == i {
			c = rapid.SampledFrom([]int{0, c + 1, c + 2, 65535}).Draw(t, "liedCount")
		}
		w.u16(c)
	}
	for i := 0; i < counts[0]; i++ {
		w.name(t)
		w.u16(rapid.SampledFrom(c37WireTypes).Draw(t, "qtype"))
		w.u16(1)
	}
	for i := 0; i < counts[1]+counts[2]+counts[3]; i++ {
		w.name(t)
		typ := rapid.SampledFrom(c37WireTypes).Draw(t, "type")
		w.u16(typ)
		w.u16(rapid.SampledFrom([]int{1, 1, 255, 4096}).Draw(t, "class"))
		w.u32(rapid.SampledFrom([]uint32{0, 60, 0x8000, 0xffffffff}).Draw(t, "ttl"))
		lenOff := len(w.b)
		w.u16(0)
		w.exact = false
		w.rdata(t, typ)
		n := len(w.b) - lenOff - 2
		kind := rapid.IntRange(0, 15).Draw(t, "rdlenKind")
		if w.exact {
			kind = 15
		}
		switch kind {
		case 0:
			n = 0
		case 1:
			n--
		case 2:
			n++
		case 3:
			n += rapid.IntRange(2, 300).Draw(t, "rdlenExtra")
		case 4:
			n = 65535
		case 5:
			n = rapid.IntRange(0, 40).Draw(t, "rdlen")
		}
		if n < 0 {
			n = 0
		}
		w.b[lenOff], w.b[lenOff+1] = byte(n>>8), byte(n)
	}
	return w.b
}

// c37Mutate damages a valid packed message.
func c37Mutate(t *rapid.T, b []byte) []byte {
	if len(b) < headerLen {
		return b
	}
	// offsets of the RDLENGTH fields, found with the package's own Parser
	var lenOffs []int
	func() {
		defer func() { recover() }()
		var p Parser
		if _, err := p.Start(b); err != nil {
			return
		}
		if p.SkipAllQuestions() != nil {
			return
		}
		for si := range c37Secs {
			for {
				if _, err := c37Secs[si].header(&p); err != nil {
					break
				}
				lenOffs = append(lenOffs, p.off-2)
				if c37Secs[si].skip(&p) != nil {
					return
				}
			}
		}
	}()
	var ptrs []int
	for i := headerLen; i+1 < len(b); i++ {
		if b[i]&0xC0 == 0xC0 {
			ptrs = append(ptrs, i)
		}
	}
	nmut := rapid.IntRange(0, 3).Draw(t, "mutations")
	for k := 0; k < nmut && len(b) > headerLen; k++ {
		at := func(label string) int { return rapid.IntRange(headerLen, len(b)-1).Draw(t, label) }
		switch rapid.IntRange(0, 10).Draw(t, "mutation") {
		case 0: // truncate
			b = b[:rapid.IntRange(0, len(b)).Draw(t, "truncateAt")]
			if len(b) < headerLen {
				return b
			}
		case 1, 2: // retarget a pointer
			if len(ptrs) == 0 {
				continue
			}
			i := ptrs[rapid.IntRange(0, len(ptrs)-1).Draw(t, "ptrAt")]
			if i+1 >= len(b) {
				continue
			}
			var target int
			switch rapid.IntRange(0, 5).Draw(t, "newTarget") {
			case 0:
				target = i
			case 1:
				target = ptrs[rapid.IntRange(0, len(ptrs)-1).Draw(t, "otherPtr")]
			case 2:
				target = rapid.IntRange(0, headerLen).Draw(t, "hdrTarget")
			case 3:
				target = rapid.IntRange(0, len(b)-1).Draw(t, "anyTarget")
			case 4:
				target = len(b) + rapid.IntRange(0, 3).Draw(t, "beyond")
			default:
				target = i + 2
			}
			target &= 0x3FFF
			b[i], b[i+1] = 0xC0|byte(target>>8), byte(target)
		case 3: // reserved label bits / pointer marker
			i := at("bitsAt")
			b[i] |= rapid.SampledFrom([]byte{0x40, 0x80, 0xC0}).Draw(t, "bits")
		case 4, 5: // RDLENGTH
			if len(lenOffs) == 0 {
				continue
			}
			i := lenOffs[rapid.IntRange(0, len(lenOffs)-1).Draw(t, "rdlenAt")]
			if i+1 >= len(b) {
				continue
			}
			old := int(b[i])<<8 | int(b[i+1])
			rest := len(b) - (i + 2)
			n := rapid.SampledFrom([]int{0, old - 1, old + 1, old + 2, old - 2, rest, rest + 1, rest - 1, 65535, old + 256}).Draw(t, "newRdlen")
			if n < 0 {
				n = 0
			}
			n &= 0xFFFF
			b[i], b[i+1] = byte(n>>8), byte(n)
		case 6: // section counts
			i := 4 + 2*rapid.IntRange(0, 3).Draw(t, "countAt")
			old := int(b[i])<<8 | int(b[i+1])
			n := rapid.SampledFrom([]int{0, old + 1, old - 1, old + 2, 65535}).Draw(t, "newCount")
			if n < 0 {
				n = 0
			}
			b[i], b[i+1] = byte(n>>8), byte(n)
		case 7: // a dot
			b[at("dotAt")] = '.'
		case 8: // any byte
			b[at("byteAt")] = rapid.Byte().Draw(t, "byte")
		case 9: // trailing garbage
			b = append(b, rapid.SliceOfN(rapid.Byte(), 1, 6).Draw(t, "garbage")...)
		case 10: // two pointers pointing at each other
			if len(ptrs) < 2 {
				continue
			}
			i := ptrs[rapid.IntRange(0, len(ptrs)-1).Draw(t, "loopA")]
			j := ptrs[rapid.IntRange(0, len(ptrs)-1).Draw(t, "loopB")]
			if i+1 >= len(b) || j+1 >= len(b) {
				continue
			}
			b[i], b[i+1] = 0xC0|byte(j>>8&0x3F), byte(j)
			b[j], b[j+1] = 0xC0|byte(i>>8&0x3F), byte(i)
		}
	}
	return b
}

var c37ScriptOp = rapid.Custom(func(t *rapid.T) int {
	switch rapid.IntRange(0, 9).Draw(t, "opKind") {
	case 0, 1, 2:
		return c37OpAutoNext
	case 3, 4:
		return c37OpAutoHdr
	case 5, 6:
		return c37OpAutoTyped
	}
	return rapid.IntRange(0, c37NumOps-1).Draw(t, "op")
})

func c37Gen(t *rapid.T) c37Case {
	var msg []byte
	switch mode := rapid.IntRange(0, 9).Draw(t, "mode"); {
	case mode == 0:
		msg = rapid.SliceOfN(rapid.Byte(), 0, 40).Draw(t, "bytes")
		if len(msg) >= headerLen && rapid.Bool().Draw(t, "smallCounts") {
			for i := 4; i < headerLen; i += 2 {
				msg[i], msg[i+1] = 0, msg[i+1]&3
			}
		}
	case mode <= 3:
		msg = c37GenWire(t)
		if rapid.IntRange(0, 5).Draw(t, "truncate") == 0 {
			msg = msg[:rapid.IntRange(0, len(msg)).Draw(t, "truncateAt")]
		}
	default:
		d := dmGenMsg(t, 2, 3)
		m, err := d.build()
		if err == nil {
			if rapid.IntRange(0, 3).Draw(t, "uncompressed") == 0 {
				msg, err = dmBuild(&m, 0, false, false)
			} else {
				msg, err = m.Pack()
			}
		}
		if err != nil {
			msg = nil
		}
		msg = c37Mutate(t, append([]byte(nil), msg...))
	}
	return c37Case{Msg: bs(msg), Script: rapid.SliceOfN(c37ScriptOp, 0, 40).Draw(t, "script")}
}

func TestVP_C37(t *testing.T) {
	vp.Run(t, vp.Spec[c37Case]{ID: "C37", Gen: c37Gen, Prop: c37Prop, Known: c37Known})
}

// ---------------------------------------------------------------------------
// native fuzz target: same oracle, bytes and script from the fuzzer

func c37Seeds() [][]byte {
	name := MustNewName("www.example.com.")
	m := Message{
		Header:    Header{Response: true, Authoritative: true},
		Questions: []Question{{Name: name, Type: TypeA, Class: ClassINET}},
		Answers: []Resource{
			{Header: ResourceHeader{Name: name, Class: ClassINET, TTL: 60}, Body: &AResource{A: [4]byte{127, 0, 0, 1}}},
			{Header: ResourceHeader{Name: name, Class: ClassINET}, Body: &CNAMEResource{CNAME: MustNewName("example.com.")}},
			{Header: ResourceHeader{Name: name, Class: ClassINET}, Body: &MXResource{Pref: 7, MX: MustNewName("mail.example.com.")}},
			{Header: ResourceHeader{Name: name, Class: ClassINET}, Body: &TXTResource{TXT: []string{"a", "", "bc"}}},
			{Header: ResourceHeader{Name: name, Class: ClassINET}, Body: &SRVResource{Priority: 1, Weight: 2, Port: 3, Target: MustNewName("srv.example.com.")}},
			{Header: ResourceHeader{Name: name, Class: ClassINET}, Body: &HTTPSResource{SVCBResource{Priority: 1, Target: MustNewName("."),
				Params: []SVCParam{{Key: SVCParamALPN, Value: []byte("\x02h2")}, {Key: SVCParamPort, Value: []byte{1, 187}}}}}},
		},
		Authorities: []Resource{
			{Header: ResourceHeader{Name: MustNewName("example.com."), Class: ClassINET}, Body: &SOAResource{NS: MustNewName("ns1.example.com."),
				MBox: MustNewName("mb.example.com."), Serial: 1, Refresh: 2, Retry: 3, Expire: 4, MinTTL: 5}},
			{Header: ResourceHeader{Name: MustNewName("example.com."), Class: ClassINET}, Body: &NSResource{NS: MustNewName("ns1.example.com.")}},
		},
		Additionals: []Resource{
			{Header: ResourceHeader{Name: MustNewName("ns1.example.com."), Class: ClassINET}, Body: &AAAAResource{}},
			{Header: ResourceHeader{Name: MustNewName("."), Class: 4096, TTL: 0x8000}, Body: &OPTResource{Options: []Option{{Code: 10, Data: []byte{1, 2, 3, 4, 5, 6, 7, 8}}}}},
			{Header: ResourceHeader{Name: MustNewName("x."), Class: ClassINET}, Body: &UnknownResource{Type: 99, Data: []byte{1, 2, 3}}},
			{Header: ResourceHeader{Name: MustNewName("4.3.2.1.in-addr.arpa."), Class: ClassINET}, Body: &PTRResource{PTR: name}},
		},
	}
	valid, _ := m.Pack()
	hdr := func(qd, an byte) []byte { return []byte{0, 1, 0, 0, 0, qd, 0, an, 0, 0, 0, 0} }
	long := hdr(1, 0)
	for _, l := range dmFillLabels(254, 'a') {
		long = append(long, byte(len(l)))
		long = append(long, l...)
	}
	long = append(long, 0, 0, 1, 0, 1)
	return [][]byte{
		valid,
		hdr(0, 0),
		{},
		append(hdr(1, 0), 0xC0, 12, 0, 1, 0, 1), // self pointer
		append(hdr(1, 0), 0xC0, 14, 0xC0, 12, 0, 1, 0, 1), // two-pointer loop
		append(hdr(1, 0), 1, '.', 0, 0, 1, 0, 1),          // dot in a label
		append(hdr(1, 0), 0x40, 0, 0, 1, 0, 1),            // reserved label type
		long,                                              // 254-byte name
		append(hdr(0, 1), 0, 0, 1, 0, 1, 0, 0, 0, 0, 0, 200, 1, 2, 3, 4),                       // A with RDLENGTH past the end
		append(hdr(0, 1), 0, 0, 16, 0, 1, 0, 0, 0, 0, 0, 3, 5, 'a', 'b'),                       // TXT string longer than the body
		append(hdr(0, 1), 0, 0, 41, 0, 1, 0, 0, 0, 0, 0, 4, 0, 1, 0, 9, 1),                     // OPT option longer than the body
		append(hdr(0, 1), 0, 0, 0x40, 0, 1, 0, 0, 0, 0, 0xff, 0xff, 0, 1, 0, 0, 1, 0xff, 0xf8), // SVCB, spoofed lengths
	}
}

var c37SeedScripts = [][]int{
	nil,
	{c37OpAutoHdr, c37OpAutoTyped, c37OpAutoNext, c37OpAutoNext, c37OpSkipAllQuestions},
	{c37OpAutoNext, c37OpAutoNext, c37OpAutoNext, c37OpAutoHdr, c37OpUnknown, c37OpAutoHdr, c37OpAutoHdr, c37OpAutoTyped, c37OpRestart, c37OpAutoNext},
}

// TestVP_C37_seeds evaluates the oracle on the hand-written hostile inputs that also
// seed the native fuzz target (a failing f.Add seed leaves no crasher file).
func TestVP_C37_seeds(t *testing.T) {
	open := c37OpenFindings()
	vp.RunEnum(t, "C37", "seeds", false, func(e *vp.Enum) {
		for _, msg := range c37Seeds() {
			for _, script := range c37SeedScripts {
				c := c37Case{Msg: bs(msg), Script: script}
				if c37KnownOpen(c, open) {
					e.Eval(false, "seed-matches-open-finding", nil)
					continue
				}
				e.Eval(true, "seed", func() any { return c })
				if err := c37Check(c.Msg, c.Script, nil); err != nil {
					e.Fail(c, err)
					return
				}
			}
		}
	})
}

func FuzzVP_C37(f *testing.F) {
	for _, s := range c37Seeds() {
		f.Add(s, []byte{c37OpAutoHdr, c37OpAutoTyped, c37OpAutoNext, c37OpAutoNext, c37OpSkipAllQuestions})
	}
	open := c37OpenFindings()
	f.Fuzz(func(t *testing.T, msg []byte, script []byte) {
		if len(msg) > 1<<16 || len(script) > 64 {
			return
		}
		c := c37Case{Msg: bs(msg)}
		for _, b := range script {
			c.Script = append(c.Script, int(b))
		}
		if c37KnownOpen(c, open) {
			return
		}
		if err := c37Check(c.Msg, c.Script, nil); err != nil {
			vp.FuzzFail(t, "C37", "", c, err)
		}
	})
}
