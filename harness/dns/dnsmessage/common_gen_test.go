package dnsmessage

// Shared by the C36/C37/C38 harnesses: a plain-data description of a DNS message
// (JSON round-trippable), its rapid generator, the conversion to a Message, and a
// semantic message comparison (nil and empty slices are the same value).

import (
	"bytes"
	"encoding/json"
	"fmt"
	"sort"

	"pgregory.net/rapid"
)

// bs is a byte string with a readable, loss-free JSON form: printable ASCII stays,
// everything else (and the backslash) is written as \xHH.
type bs []byte

const dmHex = "0123456789abcdef"

func (b bs) MarshalJSON() ([]byte, error) {
	out := make([]byte, 0, len(b)+8)
	for _, c := range b {
		if c >= 0x20 && c < 0x7f && c != '\\' {
			out = append(out, c)
		} else {
			out = append(out, '\\', 'x', dmHex[c>>4], dmHex[c&15])
		}
	}
	return json.Marshal(string(out))
}

func (b *bs) UnmarshalJSON(d []byte) error {
	var s string
	if err := json.Unmarshal(d, &s); err != nil {
		return err
	}
	out := make([]byte, 0, len(s))
	unhex := func(c byte) (byte, bool) {
		switch {
		case c >= '0' && c <= '9':
			return c - '0', true
		case c >= 'a' && c <= 'f':
			return c - 'a' + 10, true
		case c >= 'A' && c <= 'F':
			return c - 'A' + 10, true
		}
		return 0, false
	}
	for i := 0; i < len(s); i++ {
		if s[i] == '\\' && i+3 < len(s) && s[i+1] == 'x' {
			h, ok1 := unhex(s[i+2])
			l, ok2 := unhex(s[i+3])
			if ok1 && ok2 {
				out = append(out, h<<4|l)
				i += 3
				continue
			}
		}
		out = append(out, s[i])
	}
	*b = out
	return nil
}

// dmFill returns data followed by fill pattern bytes (cheap way to get large values
// without drawing every byte).
func dmFill(data []byte, fill int) []byte {
	if fill <= 0 {
		return append([]byte(nil), data...)
	}
	out := make([]byte, 0, len(data)+fill)
	out = append(out, data...)
	for i := 0; i < fill; i++ {
		out = append(out, byte(i*7+len(data)))
	}
	return out
}

type dmQ struct {
	Name  bs     `json:"name"`
	Type  uint16 `json:"type"`
	Class uint16 `json:"class"`
}

type dmOpt struct {
	Code uint16 `json:"code"`
	Data bs     `json:"data"`
	Fill int    `json:"fill,omitempty"`
}

type dmParam struct {
	Key   uint16 `json:"key"`
	Value bs     `json:"value"`
	Fill  int    `json:"fill,omitempty"`
}

// dmRR describes one resource record. Kind selects the body type; the other fields
// are used as that type needs them.
type dmRR struct {
	Kind  string `json:"kind"` // A AAAA NS CNAME SOA PTR MX TXT SRV SVCB HTTPS OPT UNKNOWN
	Name  bs     `json:"name"`
	Class uint16 `json:"class"`
	TTL   uint32 `json:"ttl"`

	N1     bs        `json:"n1,omitempty"`   // NS/CNAME/PTR/MX/SRV/SVCB target, SOA NS
	N2     bs        `json:"n2,omitempty"`   // SOA MBox
	U16    []uint16  `json:"u16,omitempty"`  // MX pref; SRV prio,weight,port; SVCB prio
	U32    []uint32  `json:"u32,omitempty"`  // SOA serial,refresh,retry,expire,minttl
	Data   bs        `json:"data,omitempty"` // A, AAAA, UNKNOWN
	Fill   int       `json:"fill,omitempty"` // UNKNOWN: extra pattern bytes
	UType  uint16    `json:"utype,omitempty"`
	TXT    []bs      `json:"txt,omitempty"`
	Opts   []dmOpt   `json:"opts,omitempty"`
	Params []dmParam `json:"params,omitempty"`
}

type dmMsg struct {
	Hdr Header `json:"hdr"`
	Q   []dmQ  `json:"q,omitempty"`
	An  []dmRR `json:"an,omitempty"`
	Ns  []dmRR `json:"ns,omitempty"`
	Ar  []dmRR `json:"ar,omitempty"`
}

var dmKinds = []string{"A", "AAAA", "NS", "CNAME", "SOA", "PTR", "MX", "TXT", "SRV", "SVCB", "HTTPS", "OPT", "UNKNOWN"}

// dmParsedTypes are the types unpackResourceBody decodes into a typed body; every
// other type becomes an UnknownResource.
var dmParsedTypes = map[Type]bool{
	TypeA: true, TypeNS: true, TypeCNAME: true, TypeSOA: true, TypePTR: true, TypeMX: true,
	TypeTXT: true, TypeAAAA: true, TypeSRV: true, TypeOPT: true, TypeSVCB: true, TypeHTTPS: true,
}

func dmU16(s []uint16, i int) uint16 {
	if i < len(s) {
		return s[i]
	}
	return 0
}

func dmU32(s []uint32, i int) uint32 {
	if i < len(s) {
		return s[i]
	}
	return 0
}

func (rr *dmRR) build() (Resource, error) {
	var r Resource
	var err error
	if r.Header.Name, err = NewName(string(rr.Name)); err != nil {
		return r, err
	}
	r.Header.Class = Class(rr.Class)
	r.Header.TTL = rr.TTL
	n1, err := NewName(string(rr.N1))
	if err != nil {
		return r, err
	}
	n2, err := NewName(string(rr.N2))
	if err != nil {
		return r, err
	}
	svcb := func() SVCBResource {
		s := SVCBResource{Priority: dmU16(rr.U16, 0), Target: n1}
		for _, p := range rr.Params {
			s.Params = append(s.Params, SVCParam{Key: SVCParamKey(p.Key), Value: dmFill(p.Value, p.Fill)})
		}
		return s
	}
	switch rr.Kind {
	case "A":
		var b AResource
		copy(b.A[:], rr.Data)
		r.Body = &b
	case "AAAA":
		var b AAAAResource
		copy(b.AAAA[:], rr.Data)
		r.Body = &b
	case "NS":
		r.Body = &NSResource{NS: n1}
	case "CNAME":
		r.Body = &CNAMEResource{CNAME: n1}
	case "PTR":
		r.Body = &PTRResource{PTR: n1}
	case "MX":
		r.Body = &MXResource{Pref: dmU16(rr.U16, 0), MX: n1}
	case "SOA":
		r.Body = &SOAResource{NS: n1, MBox: n2, Serial: dmU32(rr.U32, 0), Refresh: dmU32(rr.U32, 1),
			Retry: dmU32(rr.U32, 2), Expire: dmU32(rr.U32, 3), MinTTL: dmU32(rr.U32, 4)}
	case "TXT":
		b := &TXTResource{}
		for _, s := range rr.TXT {
			b.TXT = append(b.TXT, string(s))
		}
		r.Body = b
	case "SRV":
		r.Body = &SRVResource{Priority: dmU16(rr.U16, 0), Weight: dmU16(rr.U16, 1), Port: dmU16(rr.U16, 2), Target: n1}
	case "SVCB":
		s := svcb()
		r.Body = &s
	case "HTTPS":
		r.Body = &HTTPSResource{SVCBResource: svcb()}
	case "OPT":
		b := &OPTResource{}
		for _, o := range rr.Opts {
			b.Options = append(b.Options, Option{Code: o.Code, Data: dmFill(o.Data, o.Fill)})
		}
		r.Body = b
	case "UNKNOWN":
		r.Body = &UnknownResource{Type: Type(rr.UType), Data: dmFill(rr.Data, rr.Fill)}
	default:
		return r, fmt.Errorf("unknown record kind %q", rr.Kind)
	}
	return r, nil
}

// build converts the description to a Message (fresh memory each call).
func (d *dmMsg) build() (Message, error) {
	m := Message{Header: d.Hdr}
	for _, q := range d.Q {
		n, err := NewName(string(q.Name))
		if err != nil {
			return m, err
		}
		m.Questions = append(m.Questions, Question{Name: n, Type: Type(q.Type), Class: Class(q.Class)})
	}
	for i, sec := range [][]dmRR{d.An, d.Ns, d.Ar} {
		for j := range sec {
			r, err := sec[j].build()
			if err != nil {
				return m, err
			}
			switch i {
			case 0:
				m.Answers = append(m.Answers, r)
			case 1:
				m.Authorities = append(m.Authorities, r)
			case 2:
				m.Additionals = append(m.Additionals, r)
			}
		}
	}
	return m, nil
}

// ---------------------------------------------------------------------------
// generator

var dmVocab = []string{"a", "b", "c", "www", "mail", "ns1", "example", "Example", "EXAMPLE", "com", "COM", "org",
	"x-1", "_tcp", "_dns", "0", "xn--p1ai", "arpa", "in-addr", "ip6", "test", "tEst"}

type dmGenState struct {
	names [][]byte // names generated so far in this message (for suffix sharing)
}

func dmLabel(t *rapid.T) []byte {
	switch rapid.IntRange(0, 9).Draw(t, "labelKind") {
	case 0, 1, 2, 3, 4, 5:
		return []byte(rapid.SampledFrom(dmVocab).Draw(t, "word"))
	case 6, 7:
		n := rapid.IntRange(1, 4).Draw(t, "labelLen")
		return []byte(rapid.StringOfN(rapid.RuneFrom([]rune("abcXYZ019-_")), n, n, -1).Draw(t, "label"))
	case 8:
		// arbitrary bytes except the dot
		n := rapid.IntRange(1, 6).Draw(t, "labelLen")
		b := rapid.SliceOfN(rapid.Byte(), n, n).Draw(t, "labelBytes")
		for i := range b {
			if b[i] == '.' {
				b[i] = '\\'
			}
		}
		return b
	default:
		n := rapid.SampledFrom([]int{62, 63, 63, 31, 17}).Draw(t, "longLabelLen")
		c := rapid.SampledFrom([]byte("abZ9-\x00\xff")).Draw(t, "longLabelByte")
		return bytes.Repeat([]byte{c}, n)
	}
}

// dmSuffixes lists the proper suffixes of name that start at a label boundary
// (including the name itself), without the root.
func dmSuffixes(name []byte) [][]byte {
	var out [][]byte
	if len(name) <= 1 {
		return nil
	}
	out = append(out, name)
	for i := 0; i < len(name)-1; i++ {
		if name[i] == '.' {
			out = append(out, name[i+1:])
		}
	}
	return out
}

func dmFlipCase(t *rapid.T, name []byte) []byte {
	out := append([]byte(nil), name...)
	all := rapid.Bool().Draw(t, "flipAll")
	k := 0
	if !all && len(out) > 0 {
		k = rapid.IntRange(0, len(out)-1).Draw(t, "flipAt")
	}
	for i := range out {
		if !all && i != k {
			continue
		}
		c := out[i]
		if c >= 'a' && c <= 'z' {
			out[i] = c - 32
		} else if c >= 'A' && c <= 'Z' {
			out[i] = c + 32
		}
	}
	return out
}

// name draws a canonical name (trailing dot, labels 1-63 bytes without dots, at most
// 254 bytes), often sharing a suffix with an earlier name of the same message.
func (s *dmGenState) name(t *rapid.T) bs {
	kind := rapid.IntRange(0, 11).Draw(t, "nameKind")
	var name []byte
	join := func(labels [][]byte, suffix []byte) []byte {
		var b []byte
		for _, l := range labels {
			b = append(b, l...)
			b = append(b, '.')
		}
		return append(b, suffix...)
	}
	prev := func() []byte {
		return s.names[rapid.IntRange(0, len(s.names)-1).Draw(t, "prevName")]
	}
	if len(s.names) == 0 && kind >= 3 && kind <= 9 {
		kind = 1
	}
	switch kind {
	case 0:
		name = []byte(".")
	case 1, 2:
		name = join(rapid.SliceOfN(rapid.Custom(dmLabel), 1, 4).Draw(t, "labels"), nil)
	case 3, 4, 5, 6, 7:
		p := prev()
		sufs := dmSuffixes(p)
		var suf []byte
		if len(sufs) > 0 {
			suf = sufs[rapid.IntRange(0, len(sufs)-1).Draw(t, "suffix")]
		}
		labels := rapid.SliceOfN(rapid.Custom(dmLabel), 0, 2).Draw(t, "labels")
		name = join(labels, suf)
		if len(name) == 0 {
			name = []byte(".")
		}
	case 8:
		name = append([]byte(nil), prev()...)
	case 9:
		name = dmFlipCase(t, prev())
	default:
		// close to the length limit
		target := rapid.SampledFrom([]int{254, 254, 253, 252, 200, 129}).Draw(t, "targetLen")
		c := rapid.SampledFrom([]byte("abQ7")).Draw(t, "fillByte")
		var suf []byte
		if len(s.names) > 0 && rapid.Bool().Draw(t, "longShared") {
			sufs := dmSuffixes(prev())
			if len(sufs) > 0 {
				suf = sufs[rapid.IntRange(0, len(sufs)-1).Draw(t, "suffix")]
			}
		}
		name = join(dmFillLabels(target-len(suf), c), suf)
		if len(name) == 0 {
			name = []byte(".")
		}
	}
	// keep within 254 bytes by dropping leading labels
	for len(name) > 254 {
		i := bytes.IndexByte(name, '.')
		name = name[i+1:]
		if len(name) == 0 {
			name = []byte(".")
		}
	}
	s.names = append(s.names, name)
	return bs(name)
}

// dmFillLabels returns labels whose presentation form (each followed by a dot) has
// exactly n bytes (n >= 2), using labels of up to 63 bytes.
func dmFillLabels(n int, c byte) [][]byte {
	var out [][]byte
	for n >= 2 {
		l := n - 1
		if l > 63 {
			l = 63
		}
		if n-(l+1) == 1 {
			l--
		}
		out = append(out, bytes.Repeat([]byte{c}, l))
		n -= l + 1
	}
	return out
}

func dmFillSize(t *rapid.T, label string) int {
	switch rapid.IntRange(0, 19).Draw(t, label+"Kind") {
	case 0, 1:
		return rapid.IntRange(1, 300).Draw(t, label)
	case 2:
		return rapid.IntRange(1000, 40000).Draw(t, label)
	}
	return 0
}

var dmUnknownTypes = []uint16{0, 3, 4, 7, 10, 11, 13, 14, 17, 27, 29, 32, 34, 40, 42, 43, 46, 47, 48, 63, 66, 99, 249, 250, 251, 252, 255, 256, 257, 32768, 65280, 65534, 65535}

func dmSmallBytes(t *rapid.T, label string, max int) bs {
	n := 0
	switch rapid.IntRange(0, 5).Draw(t, label+"LenKind") {
	case 0:
		n = 0
	case 1, 2, 3:
		n = rapid.IntRange(1, 6).Draw(t, label+"Len")
	case 4:
		n = rapid.IntRange(0, max).Draw(t, label+"Len")
	case 5:
		n = max
	}
	if n > max {
		n = max
	}
	if n > 12 {
		// long values: a repeated byte is enough
		c := rapid.Byte().Draw(t, label+"Byte")
		return bs(bytes.Repeat([]byte{c}, n))
	}
	return bs(rapid.SliceOfN(rapid.Byte(), n, n).Draw(t, label))
}

func (s *dmGenState) rr(t *rapid.T) dmRR {
	rr := dmRR{Kind: rapid.SampledFrom(dmKinds).Draw(t, "kind")}
	rr.Name = s.name(t)
	rr.Class = rapid.SampledFrom([]uint16{1, 1, 1, 3, 4, 255, 0, 512, 1232, 4096, 65535}).Draw(t, "class")
	rr.TTL = rapid.SampledFrom([]uint32{0, 1, 60, 3600, 0x8000, 0x00ff0000, 0x01008000, 0x7fffffff, 0x80000000, 0xffffffff}).Draw(t, "ttl")
	u16 := rapid.Uint16()
	switch rr.Kind {
	case "A":
		rr.Data = bs(rapid.SliceOfN(rapid.Byte(), 4, 4).Draw(t, "a"))
	case "AAAA":
		rr.Data = bs(rapid.SliceOfN(rapid.Byte(), 16, 16).Draw(t, "aaaa"))
	case "NS", "CNAME", "PTR":
		rr.N1 = s.name(t)
	case "MX":
		rr.U16 = []uint16{u16.Draw(t, "pref")}
		rr.N1 = s.name(t)
	case "SOA":
		rr.N1 = s.name(t)
		rr.N2 = s.name(t)
		rr.U32 = rapid.SliceOfN(rapid.Uint32(), 5, 5).Draw(t, "soa")
	case "TXT":
		n := rapid.IntRange(0, 5).Draw(t, "txtCount")
		for i := 0; i < n; i++ {
			rr.TXT = append(rr.TXT, dmSmallBytes(t, "txt", 255))
		}
	case "SRV":
		rr.U16 = rapid.SliceOfN(u16, 3, 3).Draw(t, "srv")
		rr.N1 = s.name(t)
	case "SVCB", "HTTPS":
		rr.U16 = []uint16{u16.Draw(t, "prio")}
		rr.N1 = s.name(t)
		keys := rapid.SliceOfNDistinct(rapid.OneOf(rapid.Uint16Range(0, 9), u16), 0, 5, rapid.ID[uint16]).Draw(t, "paramKeys")
		sort.Slice(keys, func(i, j int) bool { return keys[i] < keys[j] })
		total := 2 + len(rr.N1) + 1
		for _, k := range keys {
			p := dmParam{Key: k, Value: dmSmallBytes(t, "paramValue", 300), Fill: dmFillSize(t, "paramFill")}
			if total+4+len(p.Value)+p.Fill > 65535 {
				p.Fill = 0
			}
			total += 4 + len(p.Value) + p.Fill
			rr.Params = append(rr.Params, p)
		}
	case "OPT":
		n := rapid.IntRange(0, 4).Draw(t, "optCount")
		total := 0
		for i := 0; i < n; i++ {
			o := dmOpt{Code: rapid.OneOf(rapid.Uint16Range(0, 20), u16).Draw(t, "optCode"),
				Data: dmSmallBytes(t, "optData", 64), Fill: dmFillSize(t, "optFill")}
			if total+4+len(o.Data)+o.Fill > 65535 {
				o.Fill = 0
			}
			total += 4 + len(o.Data) + o.Fill
			rr.Opts = append(rr.Opts, o)
		}
	case "UNKNOWN":
		rr.UType = rapid.SampledFrom(dmUnknownTypes).Draw(t, "utype")
		rr.Data = dmSmallBytes(t, "udata", 64)
		rr.Fill = dmFillSize(t, "ufill")
		if len(rr.Data)+rr.Fill > 65535 {
			rr.Fill = 0
		}
	}
	return rr
}

var dmQTypes = []uint16{1, 2, 5, 6, 12, 15, 16, 28, 33, 41, 64, 65, 11, 13, 14, 252, 255, 0, 65535}

// dmGenMsg draws a well-formed message: at most maxQ questions and maxRR records per
// section.
func dmGenMsg(t *rapid.T, maxQ, maxRR int) dmMsg {
	var d dmMsg
	bits := rapid.Uint16().Draw(t, "flags")
	d.Hdr = Header{
		ID:                 rapid.Uint16().Draw(t, "id"),
		Response:           bits&1 != 0,
		Authoritative:      bits&2 != 0,
		Truncated:          bits&4 != 0,
		RecursionDesired:   bits&8 != 0,
		RecursionAvailable: bits&16 != 0,
		AuthenticData:      bits&32 != 0,
		CheckingDisabled:   bits&64 != 0,
		OpCode:             OpCode(bits >> 7 & 0xF),
		RCode:              RCode(bits >> 11 & 0xF),
	}
	s := &dmGenState{}
	nq := rapid.IntRange(0, maxQ).Draw(t, "nq")
	for i := 0; i < nq; i++ {
		d.Q = append(d.Q, dmQ{Name: s.name(t), Type: rapid.SampledFrom(dmQTypes).Draw(t, "qtype"),
			Class: rapid.SampledFrom([]uint16{1, 1, 3, 255, 0, 65535}).Draw(t, "qclass")})
	}
	rrGen := rapid.Custom(s.rr)
	d.An = rapid.SliceOfN(rrGen, 0, maxRR).Draw(t, "an")
	d.Ns = rapid.SliceOfN(rrGen, 0, maxRR).Draw(t, "ns")
	d.Ar = rapid.SliceOfN(rrGen, 0, maxRR).Draw(t, "ar")
	return d
}

// ---------------------------------------------------------------------------
// comparison

func dmNameEq(a, b *Name) bool {
	return a.Length == b.Length && bytes.Equal(a.Data[:a.Length], b.Data[:b.Length])
}

func dmNameStr(n *Name) string { return fmt.Sprintf("%q", n.Data[:n.Length]) }

// dmDiffHeader compares resource headers; Length only when strict.
func dmDiffHeader(a, b *ResourceHeader, strictLen bool) error {
	if !dmNameEq(&a.Name, &b.Name) {
		return fmt.Errorf("name %s != %s", dmNameStr(&a.Name), dmNameStr(&b.Name))
	}
	if a.Type != b.Type {
		return fmt.Errorf("type %v != %v", a.Type, b.Type)
	}
	if a.Class != b.Class {
		return fmt.Errorf("class %d != %d", a.Class, b.Class)
	}
	if a.TTL != b.TTL {
		return fmt.Errorf("TTL %d != %d", a.TTL, b.TTL)
	}
	if strictLen && a.Length != b.Length {
		return fmt.Errorf("Length %d != %d", a.Length, b.Length)
	}
	return nil
}

func dmDiffSVCB(a, b *SVCBResource) error {
	if a.Priority != b.Priority {
		return fmt.Errorf("SVCB priority %d != %d", a.Priority, b.Priority)
	}
	if !dmNameEq(&a.Target, &b.Target) {
		return fmt.Errorf("SVCB target %s != %s", dmNameStr(&a.Target), dmNameStr(&b.Target))
	}
	if len(a.Params) != len(b.Params) {
		return fmt.Errorf("SVCB %d params != %d params", len(a.Params), len(b.Params))
	}
	for i := range a.Params {
		if a.Params[i].Key != b.Params[i].Key || !bytes.Equal(a.Params[i].Value, b.Params[i].Value) {
			return fmt.Errorf("SVCB param %d: key %d (%d bytes) != key %d (%d bytes) or value differs", i,
				a.Params[i].Key, len(a.Params[i].Value), b.Params[i].Key, len(b.Params[i].Value))
		}
	}
	return nil
}

// dmDiffBody compares two resource bodies semantically.
func dmDiffBody(a, b ResourceBody) error {
	if a == nil || b == nil {
		if a == nil && b == nil {
			return nil
		}
		return fmt.Errorf("body %T != %T", a, b)
	}
	mismatch := func() error { return fmt.Errorf("body type %T != %T", a, b) }
	switch x := a.(type) {
	case *AResource:
		y, ok := b.(*AResource)
		if !ok {
			return mismatch()
		}
		if x.A != y.A {
			return fmt.Errorf("A %v != %v", x.A, y.A)
		}
	case *AAAAResource:
		y, ok := b.(*AAAAResource)
		if !ok {
			return mismatch()
		}
		if x.AAAA != y.AAAA {
			return fmt.Errorf("AAAA %v != %v", x.AAAA, y.AAAA)
		}
	case *NSResource:
		y, ok := b.(*NSResource)
		if !ok {
			return mismatch()
		}
		if !dmNameEq(&x.NS, &y.NS) {
			return fmt.Errorf("NS %s != %s", dmNameStr(&x.NS), dmNameStr(&y.NS))
		}
	case *CNAMEResource:
		y, ok := b.(*CNAMEResource)
		if !ok {
			return mismatch()
		}
		if !dmNameEq(&x.CNAME, &y.CNAME) {
			return fmt.Errorf("CNAME %s != %s", dmNameStr(&x.CNAME), dmNameStr(&y.CNAME))
		}
	case *PTRResource:
		y, ok := b.(*PTRResource)
		if !ok {
			return mismatch()
		}
		if !dmNameEq(&x.PTR, &y.PTR) {
			return fmt.Errorf("PTR %s != %s", dmNameStr(&x.PTR), dmNameStr(&y.PTR))
		}
	case *MXResource:
		y, ok := b.(*MXResource)
		if !ok {
			return mismatch()
		}
		if x.Pref != y.Pref || !dmNameEq(&x.MX, &y.MX) {
			return fmt.Errorf("MX %d %s != %d %s", x.Pref, dmNameStr(&x.MX), y.Pref, dmNameStr(&y.MX))
		}
	case *SOAResource:
		y, ok := b.(*SOAResource)
		if !ok {
			return mismatch()
		}
		if !dmNameEq(&x.NS, &y.NS) || !dmNameEq(&x.MBox, &y.MBox) {
			return fmt.Errorf("SOA names %s %s != %s %s", dmNameStr(&x.NS), dmNameStr(&x.MBox), dmNameStr(&y.NS), dmNameStr(&y.MBox))
		}
		if x.Serial != y.Serial || x.Refresh != y.Refresh || x.Retry != y.Retry || x.Expire != y.Expire || x.MinTTL != y.MinTTL {
			return fmt.Errorf("SOA numbers %d %d %d %d %d != %d %d %d %d %d", x.Serial, x.Refresh, x.Retry, x.Expire, x.MinTTL,
				y.Serial, y.Refresh, y.Retry, y.Expire, y.MinTTL)
		}
	case *TXTResource:
		y, ok := b.(*TXTResource)
		if !ok {
			return mismatch()
		}
		if len(x.TXT) != len(y.TXT) {
			return fmt.Errorf("TXT %d strings != %d strings", len(x.TXT), len(y.TXT))
		}
		for i := range x.TXT {
			if x.TXT[i] != y.TXT[i] {
				return fmt.Errorf("TXT[%d] %q != %q", i, x.TXT[i], y.TXT[i])
			}
		}
	case *SRVResource:
		y, ok := b.(*SRVResource)
		if !ok {
			return mismatch()
		}
		if x.Priority != y.Priority || x.Weight != y.Weight || x.Port != y.Port || !dmNameEq(&x.Target, &y.Target) {
			return fmt.Errorf("SRV %d %d %d %s != %d %d %d %s", x.Priority, x.Weight, x.Port, dmNameStr(&x.Target),
				y.Priority, y.Weight, y.Port, dmNameStr(&y.Target))
		}
	case *SVCBResource:
		y, ok := b.(*SVCBResource)
		if !ok {
			return mismatch()
		}
		return dmDiffSVCB(x, y)
	case *HTTPSResource:
		y, ok := b.(*HTTPSResource)
		if !ok {
			return mismatch()
		}
		return dmDiffSVCB(&x.SVCBResource, &y.SVCBResource)
	case *OPTResource:
		y, ok := b.(*OPTResource)
		if !ok {
			return mismatch()
		}
		if len(x.Options) != len(y.Options) {
			return fmt.Errorf("OPT %d options != %d options", len(x.Options), len(y.Options))
		}
		for i := range x.Options {
			if x.Options[i].Code != y.Options[i].Code || !bytes.Equal(x.Options[i].Data, y.Options[i].Data) {
				return fmt.Errorf("OPT option %d: code %d (%d bytes) != code %d (%d bytes) or data differs", i,
					x.Options[i].Code, len(x.Options[i].Data), y.Options[i].Code, len(y.Options[i].Data))
			}
		}
	case *UnknownResource:
		y, ok := b.(*UnknownResource)
		if !ok {
			return mismatch()
		}
		if x.Type != y.Type || !bytes.Equal(x.Data, y.Data) {
			return fmt.Errorf("Unknown type %d (%d bytes) != type %d (%d bytes) or data differs", x.Type, len(x.Data), y.Type, len(y.Data))
		}
	default:
		return fmt.Errorf("unexpected body type %T", a)
	}
	return nil
}

func dmDiffResource(a, b *Resource, strictLen bool) error {
	if err := dmDiffHeader(&a.Header, &b.Header, strictLen); err != nil {
		return fmt.Errorf("header: %v", err)
	}
	return dmDiffBody(a.Body, b.Body)
}

func dmDiffQuestion(a, b *Question) error {
	if !dmNameEq(&a.Name, &b.Name) {
		return fmt.Errorf("name %s != %s", dmNameStr(&a.Name), dmNameStr(&b.Name))
	}
	if a.Type != b.Type || a.Class != b.Class {
		return fmt.Errorf("type/class %d/%d != %d/%d", a.Type, a.Class, b.Type, b.Class)
	}
	return nil
}

func dmDiffResources(sec string, a, b []Resource, strictLen bool) error {
	if len(a) != len(b) {
		return fmt.Errorf("%d %s != %d %s", len(a), sec, len(b), sec)
	}
	for i := range a {
		if err := dmDiffResource(&a[i], &b[i], strictLen); err != nil {
			return fmt.Errorf("%s[%d]: %v", sec, i, err)
		}
	}
	return nil
}

// dmDiffMsg returns nil when the two messages are equal (nil and empty slices are
// equal; ResourceHeader.Length is compared only when strictLen).
func dmDiffMsg(a, b *Message, strictLen bool) error {
	if a.Header != b.Header {
		return fmt.Errorf("header %+v != %+v", a.Header, b.Header)
	}
	if len(a.Questions) != len(b.Questions) {
		return fmt.Errorf("%d questions != %d questions", len(a.Questions), len(b.Questions))
	}
	for i := range a.Questions {
		if err := dmDiffQuestion(&a.Questions[i], &b.Questions[i]); err != nil {
			return fmt.Errorf("Questions[%d]: %v", i, err)
		}
	}
	if err := dmDiffResources("Answers", a.Answers, b.Answers, strictLen); err != nil {
		return err
	}
	if err := dmDiffResources("Authorities", a.Authorities, b.Authorities, strictLen); err != nil {
		return err
	}
	return dmDiffResources("Additionals", a.Additionals, b.Additionals, strictLen)
}

// dmRootErr unwraps nestedError chains.
func dmRootErr(err error) error {
	for {
		ne, ok := err.(*nestedError)
		if !ok {
			return err
		}
		err = ne.err
	}
}

// ---------------------------------------------------------------------------
// Builder

// dmBuild feeds m through a Builder.
func dmBuild(m *Message, prefix int, compress, startEmpty bool) ([]byte, error) {
	buf := make([]byte, prefix, prefix+64)
	for i := range buf {
		buf[i] = 0xC0 // looks like a pointer: must never be interpreted
	}
	b := NewBuilder(buf, m.Header)
	if compress {
		b.EnableCompression()
	}
	if len(m.Questions) > 0 || startEmpty {
		if err := b.StartQuestions(); err != nil {
			return nil, fmt.Errorf("StartQuestions: %v", err)
		}
	}
	for i := range m.Questions {
		if err := b.Question(m.Questions[i]); err != nil {
			return nil, fmt.Errorf("Question %d: %v", i, err)
		}
	}
	secs := []struct {
		name  string
		start func() error
		rs    []Resource
	}{
		{"Answers", b.StartAnswers, m.Answers},
		{"Authorities", b.StartAuthorities, m.Authorities},
		{"Additionals", b.StartAdditionals, m.Additionals},
	}
	for _, s := range secs {
		if len(s.rs) > 0 || startEmpty {
			if err := s.start(); err != nil {
				return nil, fmt.Errorf("Start%s: %v", s.name, err)
			}
		}
		for i := range s.rs {
			h := s.rs[i].Header
			var err error
			switch body := s.rs[i].Body.(type) {
			case *AResource:
				err = b.AResource(h, *body)
			case *AAAAResource:
				err = b.AAAAResource(h, *body)
			case *NSResource:
				err = b.NSResource(h, *body)
			case *CNAMEResource:
				err = b.CNAMEResource(h, *body)
			case *SOAResource:
				err = b.SOAResource(h, *body)
			case *PTRResource:
				err = b.PTRResource(h, *body)
			case *MXResource:
				err = b.MXResource(h, *body)
			case *TXTResource:
				err = b.TXTResource(h, *body)
			case *SRVResource:
				err = b.SRVResource(h, *body)
			case *SVCBResource:
				err = b.SVCBResource(h, *body)
			case *HTTPSResource:
				err = b.HTTPSResource(h, *body)
			case *OPTResource:
				err = b.OPTResource(h, *body)
			case *UnknownResource:
				err = b.UnknownResource(h, *body)
			default:
				err = fmt.Errorf("unexpected body %T", body)
			}
			if err != nil {
				return nil, fmt.Errorf("%s[%d] (%T): %v", s.name, i, s.rs[i].Body, err)
			}
		}
	}
	out, err := b.Finish()
	if err != nil {
		return nil, fmt.Errorf("Finish: %v", err)
	}
	if len(out) < prefix+headerLen {
		return nil, fmt.Errorf("Finish returned %d bytes for a prefix of %d", len(out), prefix)
	}
	for i := 0; i < prefix; i++ {
		if out[i] != 0xC0 {
			return nil, fmt.Errorf("Builder changed byte %d of the caller's prefix", i)
		}
	}
	return out[prefix:], nil
}
