package publicsuffix

import (
	"encoding/json"
	"fmt"
	"net/netip"
	"os"
	"sort"
	"strings"
	"sync"
	"testing"

	"pgregory.net/rapid"
	"verif/vp"
)

// C51: PublicSuffix / EffectiveTLDPlusOne follow the public suffix list algorithm
// (https://publicsuffix.org/list/) over the embedded rule list.
//
// The rule list with its ICANN boundary is the generated `rules` table of the
// package's own tests (table_test.go, written by the same gen.go run that packed
// data/{text,nodes,children}); TestVP_C51_tables re-derives the rule set by walking
// the packed tables with a decoder written from the layout documented in table.go and
// requires both to describe the same rules. The reference below is written from the
// algorithm text, not from list.go or slowPublicSuffix.

// ---- reference -------------------------------------------------------------------

type c51Ref struct {
	normal    map[string]bool // rule "a.b"      -> icann
	wildcard  map[string]bool // rule "*.a.b"    -> icann, keyed by "a.b"
	exception map[string]bool // rule "!c.a.b"   -> icann, keyed by "c.a.b"
	bad       []string        // rules in a form the reference does not understand
}

var (
	c51RefOnce sync.Once
	c51RefVal  *c51Ref
)

func c51GetRef() *c51Ref {
	c51RefOnce.Do(func() {
		r := &c51Ref{normal: map[string]bool{}, wildcard: map[string]bool{}, exception: map[string]bool{}}
		for i, rule := range rules {
			icann := i < numICANNRules
			switch {
			case strings.HasPrefix(rule, "*."):
				rest := rule[2:]
				if rest == "" || strings.ContainsAny(rest, "*!") {
					r.bad = append(r.bad, rule)
					continue
				}
				r.wildcard[rest] = icann
			case strings.HasPrefix(rule, "!"):
				rest := rule[1:]
				if rest == "" || strings.ContainsAny(rest, "*!") {
					r.bad = append(r.bad, rule)
					continue
				}
				r.exception[rest] = icann
			default:
				if rule == "" || strings.ContainsAny(rule, "*!") {
					r.bad = append(r.bad, rule)
					continue
				}
				r.normal[rule] = icann
			}
		}
		c51RefVal = r
	})
	return c51RefVal
}

type c51Verdict struct {
	suffix string
	icann  bool
	kind   string // "default", "normal", "wildcard", "exception"
	nlab   int    // labels of the prevailing rule (before exception modification)
}

// c51Lookup applies the PSL algorithm to a domain given as labels.
//
//  1. note all matching rules; 2. none -> "*"; 3. an exception rule prevails;
//  4. otherwise the rule with the most labels; 5. exception: drop its leftmost label;
//  6. the public suffix is the labels of the domain matched by the prevailing rule.
func (r *c51Ref) lookup(labels []string) c51Verdict {
	n := len(labels)
	best := c51Verdict{suffix: labels[n-1], icann: false, kind: "default", nlab: 1}
	bestLen := 0
	var exc *c51Verdict
	for i := n - 1; i >= 0; i-- {
		cand := strings.Join(labels[i:], ".")
		k := n - i
		if ic, ok := r.exception[cand]; ok {
			// several exception rules cannot match one domain unless one is a
			// suffix of the other; the algorithm does not rank them. Take the
			// longest and let the caller see the ambiguity.
			v := c51Verdict{suffix: strings.Join(labels[i+1:], "."), icann: ic, kind: "exception", nlab: k}
			if exc != nil {
				v.kind = "exception-ambiguous"
			}
			exc = &v
		}
		if ic, ok := r.normal[cand]; ok && k > bestLen {
			best, bestLen = c51Verdict{suffix: cand, icann: ic, kind: "normal", nlab: k}, k
		}
		if i+1 < n {
			if ic, ok := r.wildcard[strings.Join(labels[i+1:], ".")]; ok && k > bestLen {
				best, bestLen = c51Verdict{suffix: cand, icann: ic, kind: "wildcard", nlab: k}, k
			}
		}
	}
	if exc != nil {
		return *exc
	}
	return best
}

// ---- the property on one domain --------------------------------------------------

type c51Case struct {
	Domain string `json:"domain"`
}

func c51HasEmptyLabel(d string) bool {
	return d == "" || strings.HasPrefix(d, ".") || strings.HasSuffix(d, ".") || strings.Contains(d, "..")
}

// c51Check returns (class, nontrivial, error).
func c51Check(d string) (string, bool, error) {
	ref := c51GetRef()
	if len(ref.bad) > 0 {
		return "", false, fmt.Errorf("rule list contains rules the reference cannot interpret: %q", ref.bad)
	}
	ps, icann := PublicSuffix(d)
	etld1, err := EffectiveTLDPlusOne(d)
	// the cookiejar.PublicSuffixList entry point is the same function
	if lp := List.PublicSuffix(d); lp != ps {
		return "", false, fmt.Errorf("List.PublicSuffix(%q) = %q, PublicSuffix = %q", d, lp, ps)
	}

	// "EffectiveTLDPlusOne returns that suffix plus one label or an error when none
	// exists" - relation between the two functions, for every input.
	relation := func() error {
		if err != nil {
			return nil
		}
		if !strings.HasSuffix(d, "."+ps) {
			return fmt.Errorf("EffectiveTLDPlusOne(%q) = %q without error although PublicSuffix = %q is not a proper label suffix of the domain", d, etld1, ps)
		}
		rest := d[:len(d)-len(ps)-1]
		want := rest[1+strings.LastIndexByte(rest, '.'):] + "." + ps
		if etld1 != want {
			return fmt.Errorf("EffectiveTLDPlusOne(%q) = %q, want public suffix %q plus one label = %q", d, etld1, ps, want)
		}
		return nil
	}

	if _, perr := netip.ParseAddr(d); perr == nil {
		// IP literals are not domain names; the statement says nothing about them
		// except through the relation above.
		return "ip-literal(not asserted)", false, relation()
	}
	if c51HasEmptyLabel(d) {
		// Not a domain name; the PSL algorithm is not defined for empty labels.
		if !strings.HasSuffix(d, ps) {
			return "", false, fmt.Errorf("PublicSuffix(%q) = %q is not a suffix of its argument", d, ps)
		}
		return "empty-label(only relation asserted)", false, relation()
	}

	labels := strings.Split(d, ".")
	v := ref.lookup(labels)
	if v.kind == "exception-ambiguous" {
		return "ambiguous-two-exceptions(not asserted)", false, relation()
	}
	if ps != v.suffix {
		return "", false, fmt.Errorf("PublicSuffix(%q) = %q, the PSL algorithm selects %q (prevailing rule kind %s, %d labels)", d, ps, v.suffix, v.kind, v.nlab)
	}
	if icann != v.icann {
		return "", false, fmt.Errorf("PublicSuffix(%q) = (%q, icann=%v), the prevailing %s rule has icann=%v", d, ps, icann, v.kind, v.icann)
	}
	if len(labels) > strings.Count(v.suffix, ".")+1 {
		rest := d[:len(d)-len(v.suffix)-1]
		want := rest[1+strings.LastIndexByte(rest, '.'):] + "." + v.suffix
		if err != nil {
			return "", false, fmt.Errorf("EffectiveTLDPlusOne(%q) failed (%v), want %q", d, err, want)
		}
		if etld1 != want {
			return "", false, fmt.Errorf("EffectiveTLDPlusOne(%q) = %q, want %q", d, etld1, want)
		}
	} else if err == nil {
		return "", false, fmt.Errorf("EffectiveTLDPlusOne(%q) = %q without error although the domain is itself the public suffix %q", d, etld1, v.suffix)
	}
	class := v.kind
	if v.kind == "normal" {
		if v.nlab >= 3 {
			class = "normal>=3"
		} else {
			class = fmt.Sprintf("normal-%d", v.nlab)
		}
	}
	if err != nil {
		class += "/no-etld1"
	}
	nontrivial := v.kind == "wildcard" || v.kind == "exception" || v.nlab >= 3
	return class, nontrivial, nil
}

func c51Prop(c c51Case, r *vp.Rec) error {
	class, nt, err := c51Check(c.Domain)
	if err != nil {
		return err
	}
	r.Class(class)
	if nt {
		r.NonTrivial()
	}
	return nil
}

// ---- rapid: random domains around the rules ----------------------------------------

var (
	c51LabelsOnce sync.Once
	c51LabelPool  []string
)

func c51Labels() []string {
	c51LabelsOnce.Do(func() {
		seen := map[string]bool{}
		for _, rule := range rules {
			rule = strings.TrimPrefix(strings.TrimPrefix(rule, "!"), "*.")
			for _, l := range strings.Split(rule, ".") {
				if !seen[l] {
					seen[l] = true
					c51LabelPool = append(c51LabelPool, l)
				}
			}
		}
		sort.Strings(c51LabelPool)
	})
	return c51LabelPool
}

func c51Gen(t *rapid.T) c51Case {
	pool := c51Labels()
	small := rapid.StringOfN(rapid.RuneFrom([]rune("abcxyz019-")), 1, 4, -1)
	label := rapid.Custom(func(t *rapid.T) string {
		switch rapid.IntRange(0, 9).Draw(t, "lk") {
		case 0, 1, 2:
			return small.Draw(t, "small")
		case 3, 4, 5:
			return pool[rapid.IntRange(0, len(pool)-1).Draw(t, "pool")]
		case 6:
			// neighbour of a real label (binary search boundaries)
			l := pool[rapid.IntRange(0, len(pool)-1).Draw(t, "pool")]
			switch rapid.IntRange(0, 3).Draw(t, "mut") {
			case 0:
				return l + "a"
			case 1:
				return l + "-"
			case 2:
				if len(l) > 1 {
					return l[:len(l)-1]
				}
				return l + "0"
			default:
				b := []byte(l)
				b[len(b)-1]++
				return string(b)
			}
		case 7:
			return rapid.SampledFrom([]string{"www", "city", "co", "com", "blogspot", "compute", "s3", "*", "!www", "xn--p1ai", "uk", "jp", "kobe", "ck"}).Draw(t, "fixed")
		default:
			return rapid.StringOfN(rapid.RuneFrom([]rune("abcdefghijklmnopqrstuvwxyz0123456789-_ABC")), 1, 12, -1).Draw(t, "any")
		}
	})
	shape := rapid.IntRange(0, 19).Draw(t, "shape")
	var labels []string
	switch {
	case shape <= 11:
		// a real rule, instantiated, with 0-3 labels in front and possibly some
		// right-hand labels of the rule removed or replaced
		rule := rules[rapid.IntRange(0, len(rules)-1).Draw(t, "rule")]
		rl := strings.Split(strings.TrimPrefix(rule, "!"), ".")
		if rl[0] == "*" {
			rl[0] = label.Draw(t, "wild")
		}
		switch rapid.IntRange(0, 7).Draw(t, "edit") {
		case 0:
			if len(rl) > 1 {
				rl = rl[1:]
			}
		case 1:
			rl[rapid.IntRange(0, len(rl)-1).Draw(t, "at")] = label.Draw(t, "repl")
		}
		labels = append(rapid.SliceOfN(label, 0, 3).Draw(t, "front"), rl...)
	case shape <= 16:
		labels = rapid.SliceOfN(label, 1, 5).Draw(t, "labels")
	case shape == 17:
		// empty labels
		labels = rapid.SliceOfN(rapid.OneOf(label, rapid.Just("")), 1, 4).Draw(t, "labels")
	case shape == 18:
		return c51Case{Domain: rapid.SampledFrom([]string{"127.0.0.1", "1.2.3.4", "::1", "2001:db8::1", "192.168.0.256", "1.2.3", "[::1]", "0.0.0.0", "::ffff:1.2.3.4", "fe80::1%eth0"}).Draw(t, "ip")}
	default:
		labels = rapid.SliceOfN(label, 1, 3).Draw(t, "labels")
		labels = append(labels, rapid.SampledFrom([]string{"ck", "kobe.jp", "kawasaki.jp", "compute.amazonaws.com", "bd", "er", "fk", "np", "pg", "sch.uk", "platform.sh"}).Draw(t, "wildparent"))
	}
	return c51Case{Domain: strings.Join(labels, ".")}
}

func TestVP_C51(t *testing.T) {
	vp.Run(t, vp.Spec[c51Case]{ID: "C51", Gen: c51Gen, Prop: c51Prop})
}

// Fixed finding c51-icann-from-ruleless-node (KNOWN_FINDINGS.json, /repo 1f5b520):
// PublicSuffix used to overwrite icann with the bit of parent-only nodes that carry no
// rule ("za" -> icann=true although only the default rule matches;
// "noc.ruhr-uni-bochum.de" -> true although the prevailing rule is a PRIVATE one).
// Both inputs are kept in /verif/regress/C51 and the class is not excluded any more.

// ---- enumeration: every rule, every shape -----------------------------------------

// c51Neighbours returns labels that sort next to l or differ minimally from it.
func c51Neighbours(l string) []string {
	out := []string{l + "a", l + "-", "a" + l, l + "0"}
	if len(l) > 1 {
		out = append(out, l[:len(l)-1], l[1:])
	}
	b := []byte(l)
	b[len(b)-1]++
	out = append(out, string(b))
	b[len(b)-1] -= 2
	out = append(out, string(b))
	return out
}

// c51Replay handles replay mode for the two enumerations: vp.RunEnum would re-run the
// whole enumeration for every replay file (also for those of the other checks).
// It returns true when the test is done (skipped, or the single case was replayed).
func c51Replay(t *testing.T, sub string) bool {
	p := os.Getenv("VP_REPLAY")
	if p == "" {
		// the enumerations are deterministic: with several shards (thorough tier)
		// only shard 0 runs them, so evaluations are not counted 16 times
		if sh := os.Getenv("VP_SHARD"); sh != "" && sh != "0" {
			t.Skip("enumeration runs in shard 0 only")
		}
		return false
	}
	var ff struct {
		ID, Sub string
		Case    c51Case
	}
	b, err := os.ReadFile(p)
	if err != nil || json.Unmarshal(b, &ff) != nil {
		t.Fatalf("VP: cannot read replay file %s", p)
	}
	if ff.ID != "C51" || ff.Sub != sub {
		t.Skipf("replay file is for %s/%s", ff.ID, ff.Sub)
	}
	if sub != "rules" {
		return false // tables: re-run the (deterministic, fast) walk
	}
	if _, _, err := c51Check(ff.Case.Domain); err != nil {
		fmt.Printf("VP-REPLAY-FAIL C51 %s: %v\n", sub, err)
		t.Fatalf("replay failed: %v", err)
	}
	fmt.Printf("VP-REPLAY-PASS C51 %s\n", sub)
	return true
}

func TestVP_C51_rules(t *testing.T) {
	if c51Replay(t, "rules") {
		return
	}
	vp.RunEnum(t, "C51", "rules", true, func(e *vp.Enum) {
		ref := c51GetRef()
		if len(ref.bad) > 0 {
			e.Fail(c51Case{}, fmt.Errorf("rule list contains rules the reference cannot interpret: %q", ref.bad))
			return
		}
		seen := map[string]bool{}
		eval := func(d string) {
			if e.Failed() || seen[d] {
				return
			}
			seen[d] = true
			class, nt, err := c51Check(d)
			if err != nil {
				e.Fail(c51Case{Domain: d}, err)
				return
			}
			e.Eval(nt, class, func() any { return c51Case{Domain: d} })
		}
		fill := []string{"x", "www", "zz9", "city", "a-b"}
		for _, rule := range rules {
			kind := "normal"
			base := rule
			switch {
			case strings.HasPrefix(rule, "*."):
				kind, base = "wildcard", rule[2:]
			case strings.HasPrefix(rule, "!"):
				kind, base = "exception", rule[1:]
			}
			bl := strings.Split(base, ".")
			var stems []string // fully instantiated matches of the rule
			switch kind {
			case "wildcard":
				for _, w := range fill {
					stems = append(stems, w+"."+base)
				}
				stems = append(stems, bl[0]+"."+base) // wildcard label equal to the parent label
			default:
				stems = append(stems, base)
			}
			eval(base)
			for _, s := range stems {
				eval(s)
				for _, f := range fill {
					eval(f + "." + s)
					eval(f + ".y." + s)
					eval("a.b." + f + "." + s)
				}
			}
			// one label removed from the right-hand end / the left-hand end
			if len(bl) > 1 {
				eval(strings.Join(bl[1:], "."))
				eval("x." + strings.Join(bl[1:], "."))
				eval(strings.Join(bl[:len(bl)-1], "."))
			}
			// every label of the rule replaced by a near miss (exercises find)
			for i := range bl {
				for _, nb := range c51Neighbours(bl[i]) {
					cp := append([]string(nil), bl...)
					cp[i] = nb
					d := strings.Join(cp, ".")
					eval(d)
					eval("x." + d)
					eval("x.y." + d)
				}
			}
			if kind == "exception" {
				// siblings of the exception are matched by the wildcard
				parent := strings.Join(bl[1:], ".")
				eval("x." + parent)
				eval("y.x." + parent)
				eval(parent)
			}
		}
	})
}

// ---- the packed tables describe exactly `rules` -----------------------------------

type c51TableNode struct {
	Path     string `json:"path"`
	Index    uint32 `json:"index"`
	NodeType uint32 `json:"node_type"`
	Wildcard bool   `json:"wildcard"`
	ICANN    bool   `json:"icann"`
}

func TestVP_C51_tables(t *testing.T) {
	if c51Replay(t, "tables") {
		return
	}
	vp.RunEnum(t, "C51", "tables", true, func(e *vp.Enum) {
		// Decoder written from the layout comments in table.go:
		// node (40 bit, big endian): [7 unused][10 children index][1 ICANN][16 text offset][6 text length]
		// children (32 bit, big endian): [1 unused][1 wildcard][2 node type][14 hi][14 lo]
		nNodes := uint32(len(nodes) / 5)
		nChildren := uint32(len(children) / 4)
		if len(nodes)%5 != 0 || len(children)%4 != 0 {
			e.Fail(c51TableNode{}, fmt.Errorf("packed tables have odd sizes: nodes %d bytes, children %d bytes", len(nodes), len(children)))
			return
		}
		nodeAt := func(i uint32) (label string, icann bool, childIdx uint32, err error) {
			if i >= nNodes {
				return "", false, 0, fmt.Errorf("node index %d out of range %d", i, nNodes)
			}
			b := nodes[i*5 : i*5+5]
			x := uint64(b[0])<<32 | uint64(b[1])<<24 | uint64(b[2])<<16 | uint64(b[3])<<8 | uint64(b[4])
			length := x & 0x3f
			offset := (x >> 6) & 0xffff
			icann = (x>>22)&1 != 0
			childIdx = uint32((x >> 23) & 0x3ff)
			if offset+length > uint64(len(text)) {
				return "", false, 0, fmt.Errorf("node %d: text [%d,+%d) out of range", i, offset, length)
			}
			return text[offset : offset+length], icann, childIdx, nil
		}
		childAt := func(i uint32) (lo, hi, nodeType uint32, wildcard bool, err error) {
			if i >= nChildren {
				return 0, 0, 0, false, fmt.Errorf("children index %d out of range %d", i, nChildren)
			}
			b := children[i*4 : i*4+4]
			x := uint32(b[0])<<24 | uint32(b[1])<<16 | uint32(b[2])<<8 | uint32(b[3])
			return x & 0x3fff, (x >> 14) & 0x3fff, (x >> 28) & 3, (x>>30)&1 != 0, nil
		}
		derived := map[string]bool{} // rule -> icann bit of its node
		visited := 0
		var walk func(lo, hi uint32, suffix string) bool
		walk = func(lo, hi uint32, suffix string) bool {
			prev := ""
			for i := lo; i < hi; i++ {
				label, icann, ci, err := nodeAt(i)
				if err != nil {
					e.Fail(c51TableNode{Path: suffix, Index: i}, err)
					return false
				}
				if i > lo && !(prev < label) {
					e.Fail(c51TableNode{Path: label + suffix, Index: i}, fmt.Errorf("children of %q are not in strictly increasing label order: %q then %q", suffix, prev, label))
					return false
				}
				prev = label
				clo, chi, nt, wc, err := childAt(ci)
				if err != nil {
					e.Fail(c51TableNode{Path: label + suffix, Index: i}, err)
					return false
				}
				path := label
				if suffix != "" {
					path = label + "." + suffix
				}
				visited++
				switch nt {
				case nodeTypeNormal:
					derived[path] = icann
				case nodeTypeException:
					derived["!"+path] = icann
				case nodeTypeParentOnly:
				default:
					e.Fail(c51TableNode{Path: path, Index: i, NodeType: nt}, fmt.Errorf("node %q has unknown node type %d", path, nt))
					return false
				}
				if wc {
					derived["*."+path] = icann
				}
				if nt == nodeTypeParentOnly && !wc && clo == chi {
					e.Fail(c51TableNode{Path: path, Index: i, NodeType: nt}, fmt.Errorf("leaf node %q carries no rule", path))
					return false
				}
				e.Eval(wc || nt == nodeTypeException, fmt.Sprintf("node-type-%d", nt), func() any {
					return c51TableNode{Path: path, Index: i, NodeType: nt, Wildcard: wc, ICANN: icann}
				})
				if clo > chi {
					e.Fail(c51TableNode{Path: path, Index: i}, fmt.Errorf("node %q has children range [%d,%d)", path, clo, chi))
					return false
				}
				if clo < chi && !walk(clo, chi, path) {
					return false
				}
			}
			return true
		}
		if !walk(0, numTLD, "") {
			return
		}
		if uint32(visited) != nNodes {
			e.Fail(c51TableNode{}, fmt.Errorf("walk from the %d TLDs reached %d nodes, the table has %d", numTLD, visited, nNodes))
			return
		}
		// node ICANN bit = AND over the rules that end at the node
		want := map[string]bool{}
		nodeICANN := map[string]bool{}
		for i, rule := range rules {
			want[rule] = i < numICANNRules
			base := strings.TrimPrefix(strings.TrimPrefix(rule, "!"), "*.")
			if v, ok := nodeICANN[base]; ok {
				nodeICANN[base] = v && i < numICANNRules
			} else {
				nodeICANN[base] = i < numICANNRules
			}
		}
		var names []string
		for r := range want {
			names = append(names, r)
		}
		for r := range derived {
			if _, ok := want[r]; !ok {
				names = append(names, r)
			}
		}
		sort.Strings(names)
		for _, r := range names {
			_, inRules := want[r]
			ic, inTables := derived[r]
			base := strings.TrimPrefix(strings.TrimPrefix(r, "!"), "*.")
			switch {
			case inRules && !inTables:
				e.Fail(c51TableNode{Path: r}, fmt.Errorf("rule %q of the rule list is not represented in the packed tables", r))
				return
			case !inRules && inTables:
				e.Fail(c51TableNode{Path: r}, fmt.Errorf("the packed tables contain rule %q which is not in the rule list", r))
				return
			case ic != nodeICANN[base]:
				e.Fail(c51TableNode{Path: r, ICANN: ic}, fmt.Errorf("rule %q: node ICANN bit %v, rule list section says %v", r, ic, nodeICANN[base]))
				return
			}
		}
		e.Note(fmt.Sprintf("packed tables: %d nodes, %d rules, all equal to the generated rule list (%d ICANN)", nNodes, len(derived), numICANNRules))
	})
}
