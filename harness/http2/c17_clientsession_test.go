package http2_test

// Shared HTTP/2 client-session harness (used by C17 and C18).
//
// A session is a real http2.Transport (the repository's testTransport) inside a
// testing/synctest bubble; the harness plays every server the Transport dials. All
// frames the client writes are read through a monitor that keeps the *server's* view
// of each connection (streams opened / closed on the wire, MAX_CONCURRENT_STREAMS in
// force, GOAWAYs sent). Nothing here calls t.Fatal: problems are returned as errors;
// the repository helpers get a vp.TB.

import (
	"bytes"
	"errors"
	"fmt"
	"io"
	"net/http"
	"os"
	"strconv"
	"strings"
	"sync"
	"testing"
	"testing/synctest"

	"verif/vp"

	. "golang.org/x/net/http2"
	"golang.org/x/net/http2/hpack"
)

const vpCliInf = int64(1) << 40 // "no limit announced yet"

var vpCliDebug = os.Getenv("VP_CLI_DEBUG") != ""

func vpCliDbg(format string, a ...any) {
	if vpCliDebug {
		fmt.Fprintf(os.Stderr, "[cli] "+format+"\n", a...)
	}
}

// vpCliBody is a streaming request body without GetBody. Unlike the repository's
// testRequestBody, Close unblocks a pending Read (as io.Pipe or a network body would).
type vpCliBody struct {
	mu     sync.Mutex
	avail  int
	eof    bool
	closed bool
	nread  int
	wake   chan struct{}
}

func (b *vpCliBody) Read(p []byte) (int, error) {
	for {
		b.mu.Lock()
		switch {
		case b.closed:
			b.mu.Unlock()
			return 0, errors.New("vp: request body closed")
		case b.avail > 0 && len(p) > 0:
			n := min(len(p), b.avail)
			for i := 0; i < n; i++ {
				p[i] = 'B'
			}
			b.avail -= n
			b.nread += n
			b.mu.Unlock()
			return n, nil
		case b.eof:
			b.mu.Unlock()
			return 0, io.EOF
		}
		if b.wake == nil {
			b.wake = make(chan struct{})
		}
		ch := b.wake
		b.mu.Unlock()
		<-ch
	}
}

func (b *vpCliBody) wakeLocked() {
	if b.wake != nil {
		close(b.wake)
		b.wake = nil
	}
}

func (b *vpCliBody) Close() error {
	b.mu.Lock()
	b.closed = true
	b.wakeLocked()
	b.mu.Unlock()
	return nil
}

func (b *vpCliBody) add(n int) {
	b.mu.Lock()
	b.avail += n
	b.wakeLocked()
	b.mu.Unlock()
}

func (b *vpCliBody) end() {
	b.mu.Lock()
	b.eof = true
	b.wakeLocked()
	b.mu.Unlock()
}

type vpCliGoAway struct {
	last uint32
	code ErrCode
}

// vpCliStream is the server's view of one client-initiated stream.
type vpCliStream struct {
	conn     *vpCliConn
	id       uint32
	req      int  // request index taken from :path
	cliEnd   bool // END_STREAM received from the client
	srvEnd   bool // END_STREAM sent by the harness
	rst      bool // RST_STREAM sent or received
	rstByCli bool
	data     int  // DATA bytes received from the client
	respHdr  bool // response HEADERS written by the harness
	respOK   bool // ... and the write succeeded on a connection we had not closed
	finOK    bool // response END_STREAM written successfully
	two      bool // answered in two phases (HEADERS, later DATA+END_STREAM)
	checked  bool // outcome of the answer already verified (C18)
	// gt is set when the harness sent a GOAWAY with last-stream-ID < id while this
	// stream was open and unanswered; gtErr tells whether a GOAWAY with a non-zero
	// error code had been sent on the connection by then.
	gt    bool
	gtErr bool
	// le is set when the harness sent a GOAWAY with last-stream-ID >= id while this
	// stream was open.
	le bool
}

func (s *vpCliStream) closed() bool { return s.rst || (s.cliEnd && s.srvEnd) }

// vpCliConn is the server's view of one connection.
type vpCliConn struct {
	idx     int
	tc      *testClientConn
	lastID  uint32
	streams map[uint32]*vpCliStream
	order   []*vpCliStream

	acked   int64   // MAX_CONCURRENT_STREAMS of the last SETTINGS the client acknowledged
	unacked []int64 // one per unacknowledged SETTINGS frame we sent (-1: no such setting)

	holdPings bool
	held      [][8]byte
	pingsSeen int

	goAways     []vpCliGoAway
	gaProcessed bool // a GOAWAY was sent and the client has since become quiescent
	closedByUs  bool
	dead        bool // reading failed: the client closed the connection
	cliGoAway   bool
	werr        bool // one of our writes failed

	hdrBuf       []byte
	hdrID        uint32
	hdrEndStream bool
	inHdr        bool
}

// limit returns the MAX_CONCURRENT_STREAMS in force, permissively: a value counts from
// the moment it is sent when it raises the limit and from its ACK when it lowers it.
func (c *vpCliConn) limit() int64 {
	l := c.acked
	for _, v := range c.unacked {
		if v > l {
			l = v
		}
	}
	return l
}

func (c *vpCliConn) open() int {
	n := 0
	for _, st := range c.order {
		if !st.closed() {
			n++
		}
	}
	return n
}

func (c *vpCliConn) usable() bool { return !c.dead && !c.closedByUs && !c.werr }

func (c *vpCliConn) anyGoAwayErr() bool {
	for _, g := range c.goAways {
		if g.code != ErrCodeNo {
			return true
		}
	}
	return false
}

type vpCliReq struct {
	k         int
	rt        *testRoundTrip
	kind      int // 0 no body, 1 streaming body (no GetBody), 2 bytes.Reader body (GetBody set)
	size      int // body size for kind 2
	body      *vpCliBody
	bodyEnded bool
	attempts  []*vpCliStream
	started   bool
	cancelled bool
	refused   int
	doneSnap  bool // RoundTrip had returned when the current step began
}

func (r *vpCliReq) last() *vpCliStream {
	if len(r.attempts) == 0 {
		return nil
	}
	return r.attempts[len(r.attempts)-1]
}

// done reports whether RoundTrip has returned (waits for quiescence).
func (r *vpCliReq) done() bool { return r.rt != nil && r.rt.done() }

type vpCli struct {
	tb    *vp.TB
	tt    *testTransport
	conns []*vpCliConn
	reqs  []*vpCliReq

	// greet returns the MAX_CONCURRENT_STREAMS to announce in the server preface of the
	// idx-th connection (ok=false: announce none).
	greet func(idx int) (uint32, bool)
	// holdPings makes new connections start with PING acknowledgements withheld.
	holdPings bool
	// onOpen is called for every HEADERS frame that starts a header block on a stream:
	// prevLast is the highest stream ID seen before on the connection, openBefore the
	// number of wire-open streams before this one, repeat whether the stream ID was
	// already known.
	onOpen func(c *vpCliConn, st *vpCliStream, prevLast uint32, openBefore int, repeat bool) error
}

// vpNewCli creates the Transport. Must be called inside a bubble.
func vpNewCli(t testing.TB, nreq int, strict bool) (*vpCli, error) {
	s := &vpCli{tb: vp.NewTB(t)}
	if err := vp.Go(func() {
		s.tt = newTestTransport(s.tb, func(tr *Transport) {
			tr.StrictMaxConcurrentStreams = strict
		})
	}); err != nil {
		return nil, fmt.Errorf("harness: newTestTransport: %v", err)
	}
	if s.tt == nil {
		return nil, fmt.Errorf("harness: newTestTransport: %v", s.tb.Err())
	}
	for k := 0; k < nreq; k++ {
		s.reqs = append(s.reqs, &vpCliReq{k: k})
	}
	return s, nil
}

// start launches RoundTrip for request k (not waiting for it to return).
// kind: 0 no body, 1 streaming body with pre bytes available, 2 fixed body of size bytes.
func (s *vpCli) start(k, kind, size int) error {
	r := s.reqs[k]
	var body io.Reader
	method := "GET"
	switch kind {
	case 1:
		r.body = &vpCliBody{}
		r.body.add(size)
		body = r.body
		method = "POST"
	case 2:
		body = bytes.NewReader(bytes.Repeat([]byte{'F'}, size))
		method = "POST"
	}
	r.kind, r.size = kind, size
	req, err := http.NewRequest(method, "https://dummy.tld/"+strconv.Itoa(k), body)
	if err != nil {
		return fmt.Errorf("harness: NewRequest: %v", err)
	}
	r.rt = s.tt.roundTrip(req)
	r.started = true
	return nil
}

// snapshot records which RoundTrips have returned; call at the start of a step.
func (s *vpCli) snapshot() {
	for _, r := range s.reqs {
		if r.started && !r.doneSnap && r.done() {
			r.doneSnap = true
		}
	}
}

func (s *vpCli) accept() (int, error) {
	n := 0
	for {
		synctest.Wait()
		s.tt.ccMu.Lock()
		q := len(s.tt.ccqueue)
		s.tt.ccMu.Unlock()
		if q == 0 {
			return n, nil
		}
		var tc *testClientConn
		if err := vp.Go(func() { tc = s.tt.getConn() }); err != nil {
			return n, fmt.Errorf("harness: getConn: %v", err)
		}
		if tc == nil {
			return n, fmt.Errorf("harness: getConn: %v", s.tb.Err())
		}
		c := &vpCliConn{idx: len(s.conns), tc: tc, streams: map[uint32]*vpCliStream{}, acked: vpCliInf, holdPings: s.holdPings}
		s.conns = append(s.conns, c)
		n++
		var set []Setting
		if v, ok := s.greet(c.idx); ok {
			set = append(set, Setting{ID: SettingMaxConcurrentStreams, Val: v})
			c.unacked = append(c.unacked, int64(v))
		} else {
			c.unacked = append(c.unacked, -1)
		}
		if err := tc.fr.WriteSettings(set...); err != nil {
			c.werr = true
		}
	}
}

// drain accepts new connections and reads every frame the client has written, until
// the client is quiescent and nothing is left to read.
func (s *vpCli) drain() error {
	for pass := 0; pass < 10000; pass++ {
		nc, err := s.accept()
		if err != nil {
			return err
		}
		n := nc
		for i := 0; i < len(s.conns); i++ {
			c := s.conns[i]
			if c.dead {
				continue
			}
			for {
				f, err := c.tc.fr.ReadFrame()
				if err == errWouldBlock || err == os.ErrDeadlineExceeded {
					break
				}
				if err != nil {
					c.dead = true
					n++
					break
				}
				n++
				if err := s.onFrame(c, f); err != nil {
					return err
				}
			}
		}
		if n == 0 {
			for _, c := range s.conns {
				if len(c.goAways) > 0 {
					c.gaProcessed = true
				}
			}
			return nil
		}
	}
	return fmt.Errorf("harness: client did not become quiescent")
}

func (s *vpCli) onFrame(c *vpCliConn, f Frame) error {
	vpCliDbg("conn %d <- %v", c.idx, SummarizeFrame(f))
	if c.inHdr {
		cf, ok := f.(*ContinuationFrame)
		if !ok || cf.StreamID != c.hdrID {
			return fmt.Errorf("conn %d: %v frame inside a header block of stream %d", c.idx, f.Header().Type, c.hdrID)
		}
		c.hdrBuf = append(c.hdrBuf, cf.HeaderBlockFragment()...)
		if cf.HeadersEnded() {
			c.inHdr = false
			return s.headersDone(c)
		}
		return nil
	}
	switch f := f.(type) {
	case *SettingsFrame:
		if f.IsAck() {
			if len(c.unacked) == 0 {
				return fmt.Errorf("conn %d: SETTINGS ACK without outstanding SETTINGS", c.idx)
			}
			if v := c.unacked[0]; v >= 0 {
				c.acked = v
			}
			c.unacked = c.unacked[1:]
		} else if c.usable() {
			if err := c.tc.fr.WriteSettingsAck(); err != nil {
				c.werr = true
			}
		}
	case *HeadersFrame:
		c.hdrBuf = append(c.hdrBuf[:0], f.HeaderBlockFragment()...)
		c.hdrID = f.StreamID
		c.hdrEndStream = f.StreamEnded()
		if !f.HeadersEnded() {
			c.inHdr = true
			return nil
		}
		return s.headersDone(c)
	case *ContinuationFrame:
		return fmt.Errorf("conn %d: CONTINUATION for stream %d outside a header block", c.idx, f.StreamID)
	case *DataFrame:
		st := c.streams[f.StreamID]
		if st == nil {
			return fmt.Errorf("conn %d: DATA on stream %d which the client never opened", c.idx, f.StreamID)
		}
		st.data += len(f.Data())
		if f.StreamEnded() {
			st.cliEnd = true
		}
	case *RSTStreamFrame:
		if st := c.streams[f.StreamID]; st != nil {
			st.rst = true
			st.rstByCli = true
		}
	case *PingFrame:
		if !f.IsAck() {
			c.pingsSeen++
			if c.holdPings {
				c.held = append(c.held, f.Data)
			} else if c.usable() {
				if err := c.tc.fr.WritePing(true, f.Data); err != nil {
					c.werr = true
				}
			}
		}
	case *GoAwayFrame:
		c.cliGoAway = true
	}
	return nil
}

func (s *vpCli) headersDone(c *vpCliConn) error {
	path := ""
	dec := c.tc.dec
	dec.SetEmitFunc(func(hf hpack.HeaderField) {
		if hf.Name == ":path" {
			path = hf.Value
		}
	})
	_, err := dec.Write(c.hdrBuf)
	if err == nil {
		err = dec.Close()
	}
	dec.SetEmitFunc(nil)
	if err != nil {
		return fmt.Errorf("conn %d: header block of stream %d does not decode: %v", c.idx, c.hdrID, err)
	}
	id := c.hdrID
	prev := c.lastID
	if st := c.streams[id]; st != nil {
		if c.hdrEndStream {
			st.cliEnd = true
		}
		if s.onOpen != nil {
			return s.onOpen(c, st, prev, c.open(), true)
		}
		return nil
	}
	k, perr := strconv.Atoi(strings.TrimPrefix(path, "/"))
	if perr != nil || k < 0 || k >= len(s.reqs) || !s.reqs[k].started {
		return fmt.Errorf("conn %d: stream %d carries a request (:path %q) the harness never issued", c.idx, id, path)
	}
	openBefore := c.open()
	st := &vpCliStream{conn: c, id: id, req: k, cliEnd: c.hdrEndStream}
	c.streams[id] = st
	c.order = append(c.order, st)
	if id > c.lastID {
		c.lastID = id
	}
	s.reqs[k].attempts = append(s.reqs[k].attempts, st)
	if n := len(c.goAways); n > 0 && !c.gaProcessed {
		// Opened after we wrote GOAWAY but before the client processed it: the stream
		// is in flight when the client handles the GOAWAY (last-stream-IDs never rise,
		// so the latest one decides).
		if id > c.goAways[n-1].last {
			st.gt = true
			st.gtErr = c.anyGoAwayErr()
		} else {
			st.le = true
		}
	}
	if s.onOpen != nil {
		return s.onOpen(c, st, prev, openBefore, false)
	}
	return nil
}

// --- server-side actions (write only; call drain afterwards unless bursting) ---

func (s *vpCli) writeSettingsMCS(c *vpCliConn, v uint32) {
	if !c.usable() {
		return
	}
	c.unacked = append(c.unacked, int64(v))
	if err := c.tc.fr.WriteSettings(Setting{ID: SettingMaxConcurrentStreams, Val: v}); err != nil {
		c.werr = true
	}
}

// writeSettingsOther writes a SETTINGS frame that does not contain
// MAX_CONCURRENT_STREAMS (an omitted setting keeps its value, RFC 9113 6.5.3): the
// monitor's limit in force is unchanged by it.
func (s *vpCli) writeSettingsOther(c *vpCliConn, set ...Setting) {
	if !c.usable() {
		return
	}
	c.unacked = append(c.unacked, -1)
	if err := c.tc.fr.WriteSettings(set...); err != nil {
		c.werr = true
	}
}

// respond writes response HEADERS (status 200) on st, with END_STREAM if end.
func (s *vpCli) respond(st *vpCliStream, end bool) {
	c := st.conn
	vpCliDbg("conn %d -> respond stream %d end=%v (usable=%v closed=%v respHdr=%v)", c.idx, st.id, end, c.usable(), st.closed(), st.respHdr)
	if !c.usable() || st.closed() || st.respHdr {
		return
	}
	err := c.tc.fr.WriteHeaders(HeadersFrameParam{
		StreamID:      st.id,
		EndHeaders:    true,
		EndStream:     end,
		BlockFragment: c.tc.makeHeaderBlockFragment(":status", "200"),
	})
	st.respHdr = true
	if err != nil {
		c.werr = true
		return
	}
	st.respOK = true
	if end {
		st.srvEnd = true
		st.finOK = true
	}
}

const vpCliRespBody = "hello"

// finish writes the response body and END_STREAM on a stream answered with respond(st,false).
func (s *vpCli) finish(st *vpCliStream) {
	c := st.conn
	if !c.usable() || st.closed() || !st.respHdr || st.srvEnd {
		return
	}
	if err := c.tc.fr.WriteData(st.id, true, []byte(vpCliRespBody)); err != nil {
		c.werr = true
		return
	}
	st.srvEnd = true
	st.finOK = st.respOK
}

func (s *vpCli) reset(st *vpCliStream, code ErrCode) {
	c := st.conn
	if !c.usable() || st.closed() {
		return
	}
	if err := c.tc.fr.WriteRSTStream(st.id, code); err != nil {
		c.werr = true
		return
	}
	st.rst = true
}

func (s *vpCli) goAway(c *vpCliConn, last uint32, code ErrCode) {
	if !c.usable() {
		return
	}
	if err := c.tc.fr.WriteGoAway(last, code, nil); err != nil {
		c.werr = true
		return
	}
	c.goAways = append(c.goAways, vpCliGoAway{last, code})
	anyErr := c.anyGoAwayErr()
	for _, st := range c.order {
		if st.closed() {
			continue
		}
		if st.id > last && !st.respHdr && !st.gt {
			st.gt = true
			st.gtErr = anyErr
			st.le = false
		}
		if st.id <= last && !st.gt {
			st.le = true
		}
	}
}

func (s *vpCli) closeConn(c *vpCliConn) {
	if c.closedByUs {
		return
	}
	c.closedByUs = true
	c.tc.closeWrite()
}

func (s *vpCli) releasePings(c *vpCliConn) {
	c.holdPings = false
	for _, p := range c.held {
		if c.usable() {
			if err := c.tc.fr.WritePing(true, p); err != nil {
				c.werr = true
			}
		}
	}
	c.held = nil
}

// openStreams lists the wire-open streams of all usable connections in a fixed order.
func (s *vpCli) openStreams() []*vpCliStream {
	var out []*vpCliStream
	for _, c := range s.conns {
		if !c.usable() {
			continue
		}
		for _, st := range c.order {
			if !st.closed() {
				out = append(out, st)
			}
		}
	}
	return out
}

// readBody reads the response body of r without blocking the harness: ok is false when
// the read did not finish by the time the client became quiescent.
func (s *vpCli) readBody(r *vpCliReq) (data []byte, err error, ok bool) {
	resp := r.rt.resp
	ch := make(chan struct{})
	go func() {
		defer close(ch)
		data, err = io.ReadAll(resp.Body)
	}()
	synctest.Wait()
	select {
	case <-ch:
		return data, err, true
	default:
		return nil, nil, false
	}
}

// teardown ends every RoundTrip and connection so that the bubble can finish.
func (s *vpCli) teardown() {
	for _, r := range s.reqs {
		if r.rt != nil {
			r.rt.cancel()
		}
		if r.body != nil {
			r.body.Close()
		}
	}
	synctest.Wait()
	s.onOpen = nil
	s.drain()
	for _, c := range s.conns {
		s.closeConn(c)
	}
	synctest.Wait()
	vp.Go(func() { s.tb.RunCleanups() })
	synctest.Wait()
}

// vpCliBubble runs f inside a synctest bubble and converts a bubble deadlock panic or
// any panic on the bubble's root goroutine into an error.
func vpCliBubble(t *testing.T, f func() error) (err error) {
	defer func() {
		if p := recover(); p != nil {
			err = fmt.Errorf("panic around bubble: %v", p)
		}
	}()
	synctest.Test(t, func(*testing.T) {
		err = f()
	})
	return err
}
