package http2_test

// C18: after a server GOAWAY with last-stream-ID L the Transport opens no new streams on
// that connection; requests on streams <= L run to completion or fail with the
// connection's error; requests on streams > L are retried on another connection when
// they can be replayed (exactly once per connection, never twice on the same one) and
// fail with an error otherwise; no request is left hanging or reported twice.

import (
	"fmt"
	"testing"
	"time"

	"pgregory.net/rapid"
	"verif/vp"

	. "golang.org/x/net/http2"
)

type c18Req struct {
	Body int `json:"body"` // 0 none, 1 streaming body without GetBody, 2 bytes.Reader (GetBody set)
	Size int `json:"size"` // body bytes (kind 1: available at once, END_STREAM only after "endbody")
}

type c18Step struct {
	// start, respond, resphdr, finish, goaway, close, cancel, endbody, sleep
	Kind string `json:"kind"`
	K    int    `json:"k"`  // target selector (mod number of eligible targets)
	L    int    `json:"l"`  // goaway: 0 -> 0, 1 -> ID of the K2-th open stream, 2 -> highest ID, 3 -> 2^31-1, 4 -> below the K2-th open stream
	K2   int    `json:"k2"` //
	Code uint32 `json:"code"`
	// Burst: server frame; the next server frame is written without waiting for the client
	Burst bool `json:"burst"`
}

type c18Case struct {
	Strict bool      `json:"strict"`
	Limit  uint32    `json:"limit"` // MAX_CONCURRENT_STREAMS of the first connection
	Warm   int       `json:"warm"`  // requests started before the first step
	Reqs   []c18Req  `json:"reqs"`
	Steps  []c18Step `json:"steps"`
}

func c18Gen(t *rapid.T) c18Case {
	var c c18Case
	c.Strict = rapid.IntRange(0, 3).Draw(t, "strict") == 0
	c.Limit = rapid.SampledFrom([]uint32{100, 100, 1, 2, 3, 4}).Draw(t, "limit")
	maxReq := 10
	if vp.Thorough() {
		maxReq = 14
	}
	c.Reqs = rapid.SliceOfN(rapid.Custom(func(t *rapid.T) c18Req {
		return c18Req{
			Body: rapid.SampledFrom([]int{0, 0, 0, 1, 2}).Draw(t, "body"),
			Size: rapid.SampledFrom([]int{0, 1, 5, 10, 10, 100}).Draw(t, "size"),
		}
	}), 1, maxReq).Draw(t, "reqs")
	c.Warm = rapid.IntRange(0, 6).Draw(t, "warm")
	kinds := []string{
		"start", "start", "start", "start",
		"respond", "respond", "resphdr", "finish",
		"goaway", "goaway", "goaway", "goaway", "close", "close",
		"cancel", "endbody", "sleep",
	}
	codes := []uint32{uint32(ErrCodeNo), uint32(ErrCodeNo), uint32(ErrCodeNo), uint32(ErrCodeProtocol), uint32(ErrCodeInternal), uint32(ErrCodeEnhanceYourCalm)}
	step := rapid.Custom(func(t *rapid.T) c18Step {
		s := c18Step{Kind: rapid.SampledFrom(kinds).Draw(t, "kind"), K: rapid.IntRange(0, 11).Draw(t, "k")}
		switch s.Kind {
		case "goaway":
			s.L = rapid.SampledFrom([]int{0, 1, 1, 1, 2, 3, 4, 4}).Draw(t, "l")
			s.K2 = rapid.IntRange(0, 11).Draw(t, "k2")
			s.Code = rapid.SampledFrom(codes).Draw(t, "code")
			s.Burst = rapid.IntRange(0, 3).Draw(t, "burst") == 0
		case "respond", "resphdr", "finish":
			s.Burst = rapid.IntRange(0, 3).Draw(t, "burst") == 0
		}
		return s
	})
	maxSteps := 30
	if vp.Thorough() {
		maxSteps = 50
	}
	c.Steps = rapid.SliceOfN(step, 4, maxSteps).Draw(t, "steps")
	return c
}

func c18ServerKind(k string) bool {
	switch k {
	case "respond", "resphdr", "finish", "goaway", "close":
		return true
	}
	return false
}

const c18MaxGoAways = 5 // keeps every request within the Transport's retry budget (6)

func c18Run(t *testing.T, c c18Case, r *vp.Rec) error {
	s, err := vpNewCli(t, len(c.Reqs), c.Strict)
	if err != nil {
		return err
	}
	defer s.teardown()
	// Only the first connection gets the small limit, and (strict mode) at most one
	// request waits at a time: keeps this check clear of the strict-mode waiter stall
	// recorded under C17.
	s.greet = func(idx int) (uint32, bool) {
		if idx == 0 {
			return c.Limit, true
		}
		return 100, true
	}

	replayable := func(q *vpCliReq, a *vpCliStream) (yes, certain bool) {
		switch q.kind {
		case 0, 2:
			return true, true
		}
		// streaming body without GetBody: not replayable once bytes were consumed
		if a.data > 0 {
			return false, true
		}
		return false, false
	}

	retried := 0
	resentOutside, unfinishedOutside := false, false
	s.onOpen = func(cn *vpCliConn, st *vpCliStream, prevLast uint32, openBefore int, repeat bool) error {
		if repeat {
			return nil
		}
		if cn.gaProcessed {
			g := cn.goAways[len(cn.goAways)-1]
			return fmt.Errorf("conn %d: client opened stream %d (request %d) after it had processed GOAWAY(last=%d, %v)", cn.idx, st.id, st.req, g.last, g.code)
		}
		q := s.reqs[st.req]
		n := len(q.attempts) // includes st
		if n < 2 {
			return nil
		}
		p := q.attempts[n-2]
		if !p.gt && !p.le {
			// the previous stream was not in flight at any GOAWAY: not this property
			resentOutside = true
			if vpCliDebug {
				return fmt.Errorf("DEBUG resent outside: request %d conn %d stream %d prev conn %d stream %d", q.k, cn.idx, st.id, p.conn.idx, p.id)
			}
			return nil
		}
		if q.doneSnap {
			return fmt.Errorf("request %d was sent again (conn %d stream %d) after its RoundTrip had already returned", q.k, cn.idx, st.id)
		}
		for _, a := range q.attempts[:n-1] {
			if a.conn == cn {
				return fmt.Errorf("request %d was sent twice on connection %d (streams %d and %d)", q.k, cn.idx, a.id, st.id)
			}
		}
		if !p.gt {
			return fmt.Errorf("request %d was re-sent (conn %d stream %d) although its stream %d on conn %d was not above the GOAWAY's last-stream-ID (it must run to completion or fail with the connection's error)", q.k, cn.idx, st.id, p.id, p.conn.idx)
		}
		if yes, certain := replayable(q, p); certain && !yes {
			return fmt.Errorf("request %d has a partly consumed body without GetBody (%d bytes sent on conn %d stream %d) but was re-sent on conn %d", q.k, p.data, p.conn.idx, p.id, cn.idx)
		}
		retried++
		return nil
	}

	split, leFailed, leDoneAfter, nonReplayFailed, exception1, secondGA := false, false, false, false, false, false
	bodyChecked := map[*vpCliStream]bool{}
	closeChecked := map[*vpCliConn]bool{}

	check := func() error {
		if err := s.tb.Err(); err != nil {
			return fmt.Errorf("harness: %v", err)
		}
		for _, cn := range s.conns {
			for _, st := range cn.order {
				q := s.reqs[st.req]
				if st.le && st.respOK && !st.checked {
					st.checked = true
					if !q.cancelled {
						if !q.done() {
							return fmt.Errorf("request %d (conn %d stream %d, not above any GOAWAY last-stream-ID) was answered but RoundTrip has not returned", q.k, cn.idx, st.id)
						}
						if q.rt.respErr != nil || q.rt.resp == nil || q.rt.resp.StatusCode != 200 {
							return fmt.Errorf("request %d (conn %d stream %d, not above any GOAWAY last-stream-ID) was answered with 200 but RoundTrip returned (%v, %v)", q.k, cn.idx, st.id, q.rt.resp, q.rt.respErr)
						}
						leDoneAfter = true
					}
				}
				if st.le && st.respOK && st.finOK && !bodyChecked[st] && !q.cancelled && q.done() && q.rt.resp != nil {
					bodyChecked[st] = true
					data, err, ok := s.readBody(q)
					want := ""
					if st.two {
						want = vpCliRespBody
					}
					if !ok {
						return fmt.Errorf("request %d (conn %d stream %d): response was completed by the server but reading the body blocks", q.k, cn.idx, st.id)
					}
					if err != nil {
						return fmt.Errorf("request %d (conn %d stream %d, not above any GOAWAY last-stream-ID): response was completed by the server but the body read failed: %v", q.k, cn.idx, st.id, err)
					}
					if string(data) != want {
						return fmt.Errorf("request %d (conn %d stream %d): response body %q, want %q", q.k, cn.idx, st.id, data, want)
					}
				}
			}
			if cn.closedByUs && !closeChecked[cn] {
				closeChecked[cn] = true
				for _, st := range cn.order {
					q := s.reqs[st.req]
					if q.last() != st || !st.le || q.cancelled {
						continue
					}
					if !q.done() {
						return fmt.Errorf("request %d (conn %d stream %d, not above any GOAWAY last-stream-ID) is still pending after the connection was closed", q.k, cn.idx, st.id)
					}
					if !st.respOK {
						if q.rt.respErr == nil {
							return fmt.Errorf("request %d (conn %d stream %d) was never answered and the connection was closed, but RoundTrip returned no error", q.k, cn.idx, st.id)
						}
						leFailed = true
					}
				}
			}
		}
		return nil
	}

	next := 0
	nGoAway := 0
	waiters := func() int {
		n := 0
		for _, q := range s.reqs {
			if q.started && !q.done() && (q.last() == nil || q.last().closed()) {
				n++
			}
		}
		return n
	}

	for w := 0; w < c.Warm && next < len(c.Reqs); w++ {
		if c.Strict && waiters() > 0 {
			break
		}
		k := next
		next++
		if err := s.start(k, c.Reqs[k].Body, c.Reqs[k].Size); err != nil {
			return err
		}
		if err := s.drain(); err != nil {
			return err
		}
		if err := check(); err != nil {
			return err
		}
	}

	for i := 0; i < len(c.Steps); i++ {
		st := c.Steps[i]
		s.snapshot()
		switch st.Kind {
		case "start":
			if next >= len(c.Reqs) {
				continue
			}
			if c.Strict && waiters() > 0 {
				continue
			}
			k := next
			next++
			if err := s.start(k, c.Reqs[k].Body, c.Reqs[k].Size); err != nil {
				return err
			}
		case "respond", "resphdr", "finish":
			var open []*vpCliStream
			for _, x := range s.openStreams() {
				if !x.gt {
					open = append(open, x)
				}
			}
			if len(open) == 0 {
				continue
			}
			x := open[st.K%len(open)]
			switch st.Kind {
			case "respond":
				if x.respHdr {
					s.finish(x)
				} else {
					s.respond(x, true)
				}
			case "resphdr":
				if !x.respHdr {
					x.two = true
				}
				s.respond(x, false)
			case "finish":
				s.finish(x)
			}
		case "goaway":
			var cand []*vpCliConn
			for _, cn := range s.conns {
				if cn.usable() {
					cand = append(cand, cn)
				}
			}
			if len(cand) == 0 || nGoAway >= c18MaxGoAways {
				continue
			}
			cn := cand[st.K%len(cand)]
			var open []*vpCliStream
			for _, x := range cn.order {
				if !x.closed() {
					open = append(open, x)
				}
			}
			var last uint32
			switch st.L {
			case 0:
				last = 0
			case 1, 4:
				if len(open) > 0 {
					last = open[st.K2%len(open)].id
				} else {
					last = cn.lastID
				}
				if st.L == 4 {
					if last >= 2 {
						last -= 2
					} else {
						last = 0
					}
				}
			case 2:
				last = cn.lastID
			case 3:
				last = 1<<31 - 1
			}
			// a server does not disown a stream it has answered, and never raises L
			for _, x := range cn.order {
				if x.respHdr && x.id > last {
					last = x.id
				}
			}
			if n := len(cn.goAways); n > 0 {
				if last > cn.goAways[n-1].last {
					last = cn.goAways[n-1].last
				}
				secondGA = true
			}
			nle, ngt := 0, 0
			for _, x := range open {
				if x.respHdr {
					continue
				}
				if x.id <= last {
					nle++
				} else {
					ngt++
				}
			}
			if nle > 0 && ngt > 0 {
				split = true
			}
			nGoAway++
			s.goAway(cn, last, ErrCode(st.Code))
		case "close":
			var cand []*vpCliConn
			for _, cn := range s.conns {
				if cn.usable() && len(cn.goAways) > 0 {
					cand = append(cand, cn)
				}
			}
			if len(cand) == 0 {
				continue
			}
			s.closeConn(cand[st.K%len(cand)])
		case "cancel":
			var live []*vpCliReq
			for _, q := range s.reqs {
				if q.started && !q.cancelled && !q.done() {
					live = append(live, q)
				}
			}
			if len(live) == 0 {
				continue
			}
			q := live[st.K%len(live)]
			q.cancelled = true
			q.rt.cancel()
		case "endbody":
			var cand []*vpCliReq
			for _, q := range s.reqs {
				if q.started && q.body != nil && !q.bodyEnded {
					cand = append(cand, q)
				}
			}
			if len(cand) == 0 {
				continue
			}
			q := cand[st.K%len(cand)]
			q.bodyEnded = true
			q.body.end()
		case "sleep":
			time.Sleep(3 * time.Second)
		}
		if st.Burst && c18ServerKind(st.Kind) && i+1 < len(c.Steps) && c18ServerKind(c.Steps[i+1].Kind) {
			continue
		}
		if err := s.drain(); err != nil {
			return err
		}
		if err := check(); err != nil {
			return err
		}
	}

	// End phase: the application ends its request bodies, every server answers what it
	// has accepted and closes the connections it said GOAWAY on; retry back-off elapses.
	for _, q := range s.reqs {
		if q.body != nil && !q.bodyEnded {
			q.bodyEnded = true
			q.body.end()
		}
	}
	for round := 0; round < 3*len(c.Reqs)+12; round++ {
		s.snapshot()
		if err := s.drain(); err != nil {
			return err
		}
		if err := check(); err != nil {
			return err
		}
		acted := false
		for _, x := range s.openStreams() {
			if x.gt {
				continue
			}
			acted = true
			if x.respHdr {
				s.finish(x)
			} else {
				s.respond(x, true)
			}
		}
		if err := s.drain(); err != nil {
			return err
		}
		if err := check(); err != nil {
			return err
		}
		for _, cn := range s.conns {
			if cn.usable() && len(cn.goAways) > 0 {
				s.closeConn(cn)
				acted = true
			}
		}
		if err := s.drain(); err != nil {
			return err
		}
		if err := check(); err != nil {
			return err
		}
		time.Sleep(2 * time.Minute)
		if !acted {
			pending := false
			for _, q := range s.reqs {
				if q.started && !q.done() {
					pending = true
				}
			}
			if !pending || round > 2*len(c.Reqs)+8 {
				break
			}
		}
	}
	if err := s.drain(); err != nil {
		return err
	}
	if err := check(); err != nil {
		return err
	}

	for _, q := range s.reqs {
		if !q.started {
			continue
		}
		a := q.last()
		if !q.done() {
			if a != nil && a.gt && !q.cancelled {
				return fmt.Errorf("request %d (conn %d stream %d) was above the GOAWAY's last-stream-ID and was silently dropped: RoundTrip has not returned although every accepted stream was answered, every connection with a GOAWAY was closed and the retry back-off has elapsed", q.k, a.conn.idx, a.id)
			}
			// (streams <= L: answered or their connection closed by now, see check)
			unfinishedOutside = true
			continue
		}
		if q.cancelled || a == nil {
			continue
		}
		// a replayed request carries its whole body again
		if q.kind == 2 && len(q.attempts) > 1 && a.cliEnd && a.data != q.size {
			return fmt.Errorf("request %d was replayed on conn %d stream %d with %d body bytes, want %d", q.k, a.conn.idx, a.id, a.data, q.size)
		}
		if !a.gt {
			continue
		}
		// the last stream opened for q was above a GOAWAY's last-stream-ID
		if a.id == 1 && a.gtErr {
			exception1 = true // documented exception: failed rather than retried
			continue
		}
		yes, certain := replayable(q, a)
		switch {
		case certain && yes:
			return fmt.Errorf("request %d (conn %d stream %d) was above the GOAWAY's last-stream-ID and can be replayed, but was not retried: RoundTrip returned (%v, %v)", q.k, a.conn.idx, a.id, q.rt.resp, q.rt.respErr)
		case certain && !yes:
			if q.rt.respErr == nil {
				return fmt.Errorf("request %d (conn %d stream %d) was above the GOAWAY's last-stream-ID and cannot be replayed, but RoundTrip returned no error", q.k, a.conn.idx, a.id)
			}
			nonReplayFailed = true
		}
	}

	if c.Strict {
		r.Class("strict")
	}
	if split {
		r.Class("goaway-splits-inflight")
		r.NonTrivial()
	}
	if retried > 0 {
		r.Class("retried-on-new-conn")
	}
	if nonReplayFailed {
		r.Class("non-replayable-failed")
	}
	if exception1 {
		r.Class("stream1-error-code-exception")
	}
	if leFailed {
		r.Class("le-L-failed-on-close")
	}
	if leDoneAfter {
		r.Class("le-L-completed-after-goaway")
	}
	if secondGA {
		r.Class("second-goaway-same-conn")
	}
	if nGoAway == 0 {
		r.Class("no-goaway")
	}
	if resentOutside {
		r.Class("resent-outside-goaway")
	}
	if unfinishedOutside {
		r.Class("unfinished-outside-goaway")
	}
	return nil
}

func TestVP_C18(t *testing.T) {
	vp.Run(t, vp.Spec[c18Case]{ID: "C18", CrashFile: true, Gen: c18Gen, Prop: func(c c18Case, r *vp.Rec) error {
		return vpCliBubble(t, func() error { return c18Run(t, c, r) })
	}})
}
