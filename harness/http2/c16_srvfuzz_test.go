package http2_test

// C16: the HTTP/2 server survives any client byte stream.
//
// A pre-drawn list of client writes (raw bytes, frames with mutated grammar, valid
// building blocks repeated up to 20 000 times = floods) is played against a real
// http2.Server (shared session harness, c08_srvsession_test.go) inside a synctest
// bubble, with the client reading everything, one frame at a time, or nothing, through
// an unlimited or a small connection buffer, and optionally closing in the middle of
// the last write. Oracle (exactly the statement):
//
//   - no panic on any goroutine (a process crash is attributed through Spec.CrashFile),
//   - no deadlock of the bubble (a goroutine of the connection left blocked for ever),
//   - the server either keeps serving or ends the connection within bounded time: on a
//     frame-aligned input a final PING is answered, or a GOAWAY was sent, or the
//     connection is closed, within 15 s of fake time; when ServeConn has returned the
//     connection is closed; after the client closes, ServeConn returns within 15 s,
//   - at every quiescence the number of queued control frames is at most
//     maxQueuedControlFrames (+ a per-iteration slack) and the number of running
//     handlers at most the advertised SETTINGS_MAX_CONCURRENT_STREAMS.

import (
	"bytes"
	"encoding/binary"
	"fmt"
	"io"
	"net/http"
	"sync"
	"testing"
	"testing/synctest"
	"time"

	"pgregory.net/rapid"
	"verif/vp"

	. "golang.org/x/net/http2"
)

type c16Op struct {
	Kind     string `json:"kind"` // raw frame ping settings ack open prioopen openreset rst wu cont contx padprio data prio pupd trailers bigopen goaway
	N        int    `json:"n,omitempty"`
	K        int    `json:"k,omitempty"`
	V        uint32 `json:"v,omitempty"`
	Path     int    `json:"path,omitempty"`
	End      bool   `json:"end,omitempty"`
	T        uint8  `json:"t,omitempty"`
	Flags    uint8  `json:"flags,omitempty"`
	Stream   uint32 `json:"stream,omitempty"`
	Payload  []byte `json:"payload,omitempty"`
	LenDelta int    `json:"len_delta,omitempty"`
	Raw      []byte `json:"raw,omitempty"`
	Prio     string `json:"prio,omitempty"`  // open: priority request header field; pupd: priority field value
	Split    int    `json:"split,omitempty"` // permille at which the write is split in two (0 = one write)
	Read     int    `json:"read,omitempty"`  // after the write: 0 nothing, 1 read everything, 2 read one frame
}

type c16Case struct {
	Prefix     int     `json:"prefix"` // 0 none, 1 preface, 2 +SETTINGS, 3 +SETTINGS(small window), 4 corrupted preface, 5 partial preface
	Sched      int     `json:"sched"`
	MaxStreams uint32  `json:"max_streams"`
	MaxFrame   uint32  `json:"max_frame"` // server MaxReadFrameSize (0 = default)
	ReadBuf    int     `json:"read_buf"`
	MaxHdr     int     `json:"max_hdr,omitempty"` // http.Server.MaxHeaderBytes (0 = default): small values put header lists over the limit
	// Upgrade: the connection starts the way h2c starts it after "Upgrade: h2c": the
	// upgrade request is stream 1 and UpSettings are the bytes of its HTTP2-Settings
	// header. UpFrom3: the client's own streams then start at 3 (else it re-uses 1).
	Upgrade    bool   `json:"upgrade,omitempty"`
	UpSettings []byte `json:"up_settings,omitempty"`
	UpFrom3    bool   `json:"up_from3,omitempty"`
	Ops        []c16Op `json:"ops"`
	Cut        int     `json:"cut"` // -1, or permille of the last write after which the client closes
}

const c16Handlers = 7

// ---- pure byte builders -------------------------------------------------------

func c16Frame(dst []byte, t, flags uint8, stream uint32, payload []byte, lenDelta int) []byte {
	n := len(payload) + lenDelta
	if n < 0 {
		n = 0
	}
	if n > 1<<24-1 {
		n = 1<<24 - 1
	}
	dst = append(dst, byte(n>>16), byte(n>>8), byte(n), t, flags)
	dst = binary.BigEndian.AppendUint32(dst, stream)
	return append(dst, payload...)
}

// c16Block encodes header fields as HPACK literals without indexing (new name), so
// that a block does not depend on any encoder state.
func c16Block(kv ...string) []byte {
	var b []byte
	for i := 0; i+1 < len(kv); i += 2 {
		b = append(b, 0x00, byte(len(kv[i])))
		b = append(b, kv[i]...)
		b = append(b, byte(len(kv[i+1])))
		b = append(b, kv[i+1]...)
	}
	return b
}

// c16BigField is a literal field without indexing whose value has n octets (7-bit prefix
// integer with continuation octets for the length).
func c16BigField(name string, n int) []byte {
	b := []byte{0x00, byte(len(name))}
	b = append(b, name...)
	if n < 127 {
		b = append(b, byte(n))
	} else {
		b = append(b, 127)
		for v := n - 127; ; v >>= 7 {
			if v < 128 {
				b = append(b, byte(v))
				break
			}
			b = append(b, byte(v&0x7f)|0x80)
		}
	}
	return append(b, bytes.Repeat([]byte{'a'}, n)...)
}

func c16Req(path int, extra ...string) []byte {
	kv := []string{":method", "POST", ":scheme", "https", ":authority", "dummy.tld", ":path", fmt.Sprintf("/%d", path)}
	return c16Block(append(kv, extra...)...)
}

// c16Add advances a stream selector (the "latest" selector -1 stays).
func c16Add(k, i int) int {
	if k < 0 {
		return k
	}
	return k + i
}

func c16U32(v uint32) []byte { return binary.BigEndian.AppendUint32(nil, v) }

// ---- generator ------------------------------------------------------------------

// c16Prios are RFC 9218 priority field values (PRIORITY_UPDATE frames, priority request
// header): in range, out of range on both sides of every integer width, malformed.
var c16Prios = []string{"u=1", "u=7, i", "", "u=9", "\xff", "u=0", "u=-1", "u=-8", "u=-249", "u=-256", "u=-257", "u=255", "u=256",
	"u=8", "u=-0", "u=999999999999999", "u=-999999999999999", "u=9999999999999999", "u=3.0", "u=?1", "i=?0", "i=1", "u=2;a=1, i;b", "u", "i, u=-1", "u=-1, u=3"}

var c16StreamIDs = []uint32{0, 1, 1, 3, 3, 5, 7, 9, 2, 4, 1001, 1<<31 - 1, 1<<31 | 1, 1 << 31}

func c16GenPayload(t *rapid.T, typ uint8) []byte {
	var base []byte
	switch typ {
	case 0: // DATA
		base = vp.Bytes(0, 20).Draw(t, "data")
	case 1: // HEADERS
		switch rapid.IntRange(0, 4).Draw(t, "hk") {
		case 4: // request with a priority header field
			base = c16Req(rapid.IntRange(0, c16Handlers-1).Draw(t, "path"), "priority", rapid.SampledFrom(c16Prios).Draw(t, "prio"))
		case 0:
			base = []byte{0x82, 0x87, 0x84} // GET https /
		case 1:
			base = c16Req(rapid.IntRange(0, c16Handlers-1).Draw(t, "path"))
		case 2:
			base = append(c16U32(rapid.SampledFrom(c16StreamIDs).Draw(t, "dep")), byte(rapid.IntRange(0, 255).Draw(t, "w")))
			base = append(base, 0x82, 0x87, 0x84)
		default:
			base = vp.Bytes(0, 30).Draw(t, "garbage")
		}
	case 2: // PRIORITY
		base = append(c16U32(rapid.SampledFrom(c16StreamIDs).Draw(t, "dep")), byte(rapid.IntRange(0, 255).Draw(t, "w")))
	case 3: // RST_STREAM
		base = c16U32(rapid.SampledFrom([]uint32{0, 1, 2, 7, 8, 0xffffffff}).Draw(t, "code"))
	case 4: // SETTINGS
		n := rapid.IntRange(0, 4).Draw(t, "nset")
		for i := 0; i < n; i++ {
			id := rapid.SampledFrom([]uint16{1, 2, 3, 4, 5, 6, 8, 9, 0, 0xffff}).Draw(t, "sid")
			v := rapid.SampledFrom([]uint32{0, 1, 2, 100, 4096, 16383, 16384, 65535, 1<<24 - 1, 1 << 24, 1<<31 - 1, 1 << 31, 0xffffffff}).Draw(t, "sval")
			base = binary.BigEndian.AppendUint16(base, id)
			base = binary.BigEndian.AppendUint32(base, v)
		}
	case 6: // PING
		base = vp.Bytes(8, 8).Draw(t, "ping")
	case 7: // GOAWAY
		base = append(c16U32(rapid.SampledFrom(c16StreamIDs).Draw(t, "last")), c16U32(rapid.SampledFrom([]uint32{0, 1, 0xb}).Draw(t, "code"))...)
		base = append(base, vp.Bytes(0, 5).Draw(t, "debug")...)
	case 8: // WINDOW_UPDATE
		base = c16U32(rapid.SampledFrom([]uint32{0, 1, 100, 65535, 1 << 20, 1<<31 - 1, 1 << 31, 0xffffffff}).Draw(t, "inc"))
	case 9: // CONTINUATION
		base = vp.Bytes(0, 10).Draw(t, "frag")
	case 16: // PRIORITY_UPDATE
		base = append(c16U32(rapid.SampledFrom(c16StreamIDs).Draw(t, "pus")), rapid.SampledFrom(c16Prios).Draw(t, "pu")...)
	default:
		base = vp.Bytes(0, 12).Draw(t, "other")
	}
	switch rapid.IntRange(0, 5).Draw(t, "mut") {
	case 0: // truncate
		if len(base) > 0 {
			base = base[:rapid.IntRange(0, len(base)-1).Draw(t, "trunc")]
		}
	case 1: // extend
		base = append(base, vp.Bytes(1, 9).Draw(t, "ext")...)
	case 2: // overwrite one byte
		if len(base) > 0 {
			base[rapid.IntRange(0, len(base)-1).Draw(t, "pos")] = rapid.Byte().Draw(t, "b")
		}
	}
	return base
}

func c16Gen(t *rapid.T) c16Case {
	var c c16Case
	c.Prefix = rapid.SampledFrom([]int{2, 2, 2, 2, 2, 2, 2, 2, 3, 3, 3, 3, 3, 0, 1, 4, 5}).Draw(t, "prefix")
	c.Sched = rapid.SampledFrom([]int{0, 0, 0, 1, 2, 3, 3}).Draw(t, "sched") // RFC 9218 consumes priority fields and PRIORITY_UPDATE, RFC 7540 PRIORITY frames
	c.MaxStreams = rapid.SampledFrom([]uint32{1, 2, 5}).Draw(t, "max")
	c.MaxFrame = rapid.SampledFrom([]uint32{0, 16384}).Draw(t, "maxframe")
	c.ReadBuf = rapid.SampledFrom([]int{0, 0, 16, 256, 4096}).Draw(t, "readbuf")
	c.MaxHdr = rapid.SampledFrom([]int{0, 0, 1024, 4096}).Draw(t, "maxhdr")
	if rapid.IntRange(0, 5).Draw(t, "upgrade") == 0 {
		c.Upgrade = true
		c.UpFrom3 = rapid.Bool().Draw(t, "upFrom3")
		set := func(id uint16, v uint32) []byte {
			return binary.BigEndian.AppendUint32(binary.BigEndian.AppendUint16(nil, id), v)
		}
		switch rapid.IntRange(0, 9).Draw(t, "upSettings") {
		case 0: // empty
		case 1:
			c.UpSettings = set(4, 1000)
		case 2:
			c.UpSettings = set(1, rapid.SampledFrom([]uint32{0, 1, 4096, 65536, 1 << 31}).Draw(t, "tableSize"))
		case 3:
			c.UpSettings = append(set(3, 100), set(1, 4096)...)
		case 4:
			c.UpSettings = set(2, 7) // invalid ENABLE_PUSH
		case 5:
			c.UpSettings = set(4, 1<<31) // invalid INITIAL_WINDOW_SIZE
		case 6:
			c.UpSettings = set(5, 100) // invalid MAX_FRAME_SIZE
		case 7:
			c.UpSettings = append(set(3, 0), set(6, 10)...)
		case 8:
			c.UpSettings = vp.Bytes(6, 6).Draw(t, "oneSetting")
		default:
			c.UpSettings = vp.Bytes(0, 20).Draw(t, "settingsBytes")
		}
	}
	// client reading habit: 0 reads after every write, 1 mixed, 2 never before the end
	habit := rapid.SampledFrom([]int{0, 1, 1, 2, 2}).Draw(t, "habit")
	mode := rapid.SampledFrom([]int{0, 1, 1, 1, 1, 2, 2}).Draw(t, "mode") // 0 raw, 1 mutated session, 2 floods
	// repeat counts: floods of thousands are drawn per case, not per write (cost)
	hi, top := 200, 10500
	if vp.Thorough() {
		hi, top = 400, 20000
	}
	count := rapid.OneOf(rapid.IntRange(1, 3), rapid.IntRange(1, 3), rapid.IntRange(1, 3), rapid.IntRange(4, 40))
	switch {
	case mode == 2 && rapid.IntRange(0, 19).Draw(t, "huge") == 0:
		// above maxQueuedControlFrames (+ the slack of the bound check)
		count = rapid.OneOf(rapid.IntRange(1, 3), rapid.IntRange(10100, top))
	case mode == 2:
		count = rapid.OneOf(rapid.IntRange(1, 3), rapid.IntRange(4, hi), rapid.IntRange(hi, 5*hi))
	}
	kinds := []string{"raw", "raw", "frame"}
	switch mode {
	case 1:
		kinds = []string{"frame", "frame", "raw", "ping", "settings", "ack", "open", "open", "open", "open", "open", "open", "openreset",
			"rst", "rst", "rst", "wu", "wu", "wu", "cont", "data", "data", "prio", "prio", "prioopen", "prioopen", "pupd", "pupd", "trailers", "trailers", "bigopen", "contx", "contx", "padprio", "goaway"}
	case 2:
		kinds = []string{"ping", "ping", "settings", "settings", "ack", "open", "open", "openreset", "openreset", "rst", "rst", "wu", "wu", "cont", "cont", "data", "prio", "prioopen", "frame"}
	}
	op := rapid.Custom(func(t *rapid.T) c16Op {
		o := c16Op{Kind: rapid.SampledFrom(kinds).Draw(t, "kind")}
		switch habit {
		case 0:
			o.Read = 1
		case 1:
			o.Read = rapid.IntRange(0, 2).Draw(t, "read")
		}
		if rapid.IntRange(0, 7).Draw(t, "dosplit") == 0 {
			o.Split = rapid.IntRange(1, 999).Draw(t, "split")
		}
		k := rapid.OneOf(rapid.IntRange(0, 9), rapid.Just(-1)) // -1: the stream opened last
		path := rapid.SampledFrom([]int{0, 1, 1, 1, 2, 3, 4, 5, 6, 6})
		switch o.Kind {
		case "raw":
			o.Raw = rapid.OneOf(vp.Bytes(0, 64), vp.Bytes(0, 64), vp.Bytes(0, 600)).Draw(t, "raw")
		case "frame":
			o.T = rapid.SampledFrom([]uint8{0, 1, 1, 1, 2, 3, 4, 4, 5, 6, 7, 8, 8, 9, 9, 10, 16, 0xff}).Draw(t, "type")
			o.Flags = rapid.SampledFrom([]uint8{0, 0, 1, 4, 5, 8, 0x20, 0x24, 0x25, 0x2d, 0xff}).Draw(t, "flags")
			o.Stream = rapid.SampledFrom(c16StreamIDs).Draw(t, "stream")
			o.Payload = c16GenPayload(t, o.T)
			o.LenDelta = rapid.SampledFrom([]int{0, 0, 0, 0, 0, 0, 0, 0, 1, -1, 5, 1 << 14, 1 << 20, 1 << 24}).Draw(t, "lendelta")
			o.N = rapid.IntRange(1, 3).Draw(t, "n")
		case "ping":
			o.N = count.Draw(t, "n")
			o.V = rapid.Uint32().Draw(t, "data")
			o.End = rapid.IntRange(0, 5).Draw(t, "isack") == 0
		case "settings":
			o.N = count.Draw(t, "n")
			o.V = uint32(rapid.IntRange(0, 4).Draw(t, "variant"))
		case "ack":
			o.N = rapid.IntRange(1, 3).Draw(t, "n")
		case "open":
			o.N = count.Draw(t, "n")
			o.Path = path.Draw(t, "path")
			o.End = rapid.Bool().Draw(t, "end")
			if rapid.IntRange(0, 1).Draw(t, "hasPrio") == 0 {
				o.Prio = rapid.SampledFrom(c16Prios).Draw(t, "prio")
			}
		case "trailers": // HEADERS with END_STREAM on a stream that is (probably) open: request trailers
			o.N = rapid.IntRange(1, 2).Draw(t, "n")
			o.K = k.Draw(t, "k")
			o.V = uint32(rapid.IntRange(0, 4).Draw(t, "variant"))
			o.End = rapid.IntRange(0, 5).Draw(t, "end") != 0
		case "padprio": // HEADERS with PADDED and PRIORITY whose pad length is near the size of what follows it
			o.N = 1
			o.Path = path.Draw(t, "path")
			o.V = uint32(rapid.IntRange(0, 12).Draw(t, "padDelta")) // pad length = len(fragment) + V - 6
			o.End = rapid.Bool().Draw(t, "end")
		case "contx": // a header block interrupted by another frame (RFC 9113 6.10: connection error)
			o.N = rapid.IntRange(0, 2).Draw(t, "n") // CONTINUATION frames before the interloper
			o.Path = path.Draw(t, "path")
			o.T = rapid.SampledFrom([]uint8{0xff, 10, 0x11, 6, 0, 4, 8, 3, 2, 1, 16}).Draw(t, "type")
			o.End = rapid.Bool().Draw(t, "sameStream")
		case "bigopen": // request whose header list is larger than a small MaxHeaderBytes allows
			o.N = rapid.IntRange(1, 3).Draw(t, "n")
			o.Path = path.Draw(t, "path")
			// permille of the server's header list limit (a block of more than twice the
			// limit is a connection error, one between the limit and twice the limit is
			// answered with 431)
			o.V = rapid.SampledFrom([]uint32{800, 1000, 1050, 1300, 1800, 1950, 2100, 4000}).Draw(t, "size")
			o.End = rapid.Bool().Draw(t, "end")
		case "pupd": // PRIORITY_UPDATE (RFC 9218) for open streams or for the streams opened next
			o.N = rapid.IntRange(1, 3).Draw(t, "n")
			o.K = rapid.OneOf(rapid.IntRange(0, 60), rapid.Just(-1)).Draw(t, "k")
			o.Prio = rapid.SampledFrom(c16Prios).Draw(t, "prio")
		case "prioopen":
			o.N = rapid.IntRange(1, 3).Draw(t, "n")
			o.Path = path.Draw(t, "path")
			o.V = uint32(rapid.IntRange(0, 60).Draw(t, "dep"))
			o.End = rapid.Bool().Draw(t, "end")
		case "openreset":
			o.N = count.Draw(t, "n")
			o.Path = path.Draw(t, "path")
			o.V = rapid.SampledFrom([]uint32{8, 8, 0, 1}).Draw(t, "code")
		case "rst":
			o.N = count.Draw(t, "n")
			o.K = k.Draw(t, "k")
			o.V = rapid.SampledFrom([]uint32{8, 8, 0, 1, 0xffffffff}).Draw(t, "code")
		case "wu":
			o.N = count.Draw(t, "n")
			o.K = k.Draw(t, "k")
			o.End = rapid.Bool().Draw(t, "conn")
			o.V = rapid.SampledFrom([]uint32{1, 1, 100, 65535, 1 << 20, 1<<31 - 1, 0}).Draw(t, "inc")
		case "cont":
			o.N = count.Draw(t, "n")
			o.Path = path.Draw(t, "path")
			o.End = rapid.Bool().Draw(t, "endheaders")
			o.V = uint32(rapid.SampledFrom([]int{0, 0, 1, 20}).Draw(t, "fraglen"))
		case "data":
			o.N = count.Draw(t, "n")
			o.K = k.Draw(t, "k")
			o.V = rapid.SampledFrom([]uint32{0, 0, 1, 100, 16384}).Draw(t, "len")
			o.End = rapid.Bool().Draw(t, "end")
		case "prio":
			o.N = count.Draw(t, "n")
			o.K = rapid.OneOf(rapid.IntRange(0, 60), rapid.Just(-1)).Draw(t, "k") // -1: the streams opened next
			if o.N < 4 && rapid.Bool().Draw(t, "many") {
				o.N = rapid.IntRange(11, 40).Draw(t, "n2") // more than the scheduler's idle-node retention
			}
			o.V = uint32(rapid.IntRange(0, 60).Draw(t, "dep"))
			o.End = rapid.Bool().Draw(t, "excl")
		case "goaway":
			o.V = rapid.SampledFrom([]uint32{0, 0, 1, 0xb}).Draw(t, "code")
		}
		return o
	})
	maxOps := 12
	if mode == 2 {
		maxOps = 5
	}
	c.Ops = rapid.SliceOfN(op, 0, maxOps).Draw(t, "ops")
	c.Cut = -1
	if rapid.IntRange(0, 5).Draw(t, "docut") == 0 {
		c.Cut = rapid.IntRange(0, 999).Draw(t, "cut")
	}
	return c
}

// ---- handlers (each terminates once its stream or the connection is gone) -------

type c16Handler struct {
	mu         sync.Mutex
	running    int
	maxRunning int
	calls      int
}

func (h *c16Handler) ServeHTTP(w http.ResponseWriter, req *http.Request) {
	h.mu.Lock()
	h.calls++
	h.running++
	if h.running > h.maxRunning {
		h.maxRunning = h.running
	}
	h.mu.Unlock()
	defer func() {
		h.mu.Lock()
		h.running--
		h.mu.Unlock()
	}()
	kind := 0
	if p := req.URL.Path; len(p) == 2 && p[1] >= '0' && p[1] <= '9' {
		kind = int(p[1] - '0')
	}
	switch kind {
	case 1: // large response: blocks on flow control until credit, reset or close
		chunk := make([]byte, 20000)
		for i := 0; i < 5; i++ {
			if _, err := w.Write(chunk); err != nil {
				return
			}
			w.(http.Flusher).Flush()
		}
	case 2: // consume the body, then answer
		io.Copy(io.Discard, req.Body)
		w.Write([]byte("ok"))
	case 3: // wait for the end of the stream
		<-req.Context().Done()
	case 4:
		panic(http.ErrAbortHandler)
	case 5: // answer, then wait
		w.Write([]byte("hello"))
		w.(http.Flusher).Flush()
		<-req.Context().Done()
	case 6: // echo
		w.Header().Set("Trailer", "X-Vp")
		buf := make([]byte, 4096)
		for {
			n, err := req.Body.Read(buf)
			if n > 0 {
				if _, werr := w.Write(buf[:n]); werr != nil {
					return
				}
				w.(http.Flusher).Flush()
			}
			if err != nil {
				break
			}
		}
		w.Header().Set("X-Vp", "done")
	}
}

// ---- interpreter ----------------------------------------------------------------

const (
	c16Bound       = 15 * time.Second
	c16QueueSlack  = 32
	c16ProbeData   = "vpC16end"
	c16FlagAck     = 0x1
	c16EndHeaders  = 0x4
	c16EndStream   = 0x1
	c16TypeCont    = 9
	c16TypeHeaders = 1
)

func c16Run(c c16Case, r *vp.Rec) (err error) {
	h := &c16Handler{}
	maxStreams := c.MaxStreams
	if maxStreams == 0 {
		maxStreams = 2
	}
	s := vpNewSrv(vpSrvOpts{Sched: c.Sched, MaxStreams: maxStreams, MaxReadFrame: c.MaxFrame, ReadBuf: c.ReadBuf, MaxHeaderBytes: c.MaxHdr,
		Upgrade: c.Upgrade, UpgradePath: "/1", UpgradeSettings: c.UpSettings}, h)
	if c.Upgrade {
		r.Class("h2c-upgrade-start")
	}
	if s.sc == nil {
		// ServeConn refused the connection before it was set up
		r.Class("connection-refused-at-start")
		if !s.closeAndWait(c16Bound) {
			return fmt.Errorf("ServeConn did not return within %v after refusing the connection", c16Bound)
		}
		return nil
	}
	closed := false
	finish := func() error {
		// The client closes; ServeConn must return within bounded (fake) time. Time in
		// the bubble stops when this goroutine returns, so this also gives every
		// goroutine of the connection the chance to end; one left blocked for ever makes
		// the bubble report a deadlock.
		if closed {
			return nil
		}
		closed = true
		if !s.closeAndWait(c16Bound) {
			return fmt.Errorf("ServeConn did not return within %v after the client closed the connection", c16Bound)
		}
		return nil
	}
	defer func() {
		if ferr := finish(); err == nil {
			err = ferr
		}
	}()

	eof, sawGoAway, sawSettingsAck, probeAcked, framerErr := false, false, false, false, false
	nread := 0
	readOne := func() (bool, error) { // reports whether a frame was read
		if eof || framerErr {
			return false, nil
		}
		f, rerr := s.read()
		if rerr != nil {
			if rerr == io.EOF || rerr == io.ErrUnexpectedEOF {
				eof = true
			} else {
				framerErr = true // the client's Framer refused what the server wrote
			}
			return false, nil
		}
		if f == nil {
			return false, nil
		}
		nread++
		switch f := f.(type) {
		case *GoAwayFrame:
			sawGoAway = true
		case *SettingsFrame:
			if f.IsAck() {
				sawSettingsAck = true
			}
		case *PingFrame:
			if f.IsAck() && string(f.Data[:]) == c16ProbeData {
				probeAcked = true
			}
		}
		return true, nil
	}
	drain := func() {
		for {
			if ok, _ := readOne(); !ok {
				return
			}
		}
	}
	bounds := func(when string) error {
		if q := s.sc.VPQueuedControlFrames(); q > VPMaxQueuedControlFrames+c16QueueSlack {
			return fmt.Errorf("%s: %d control frames queued for writing (limit %d)", when, q, VPMaxQueuedControlFrames)
		}
		if n := s.sc.VPCurHandlers(); n > maxStreams {
			return fmt.Errorf("%s: server runs %d handlers, advertised SETTINGS_MAX_CONCURRENT_STREAMS=%d", when, n, maxStreams)
		}
		h.mu.Lock()
		m := h.maxRunning
		h.mu.Unlock()
		if uint32(m) > maxStreams {
			return fmt.Errorf("%s: %d handlers were running at once, advertised SETTINGS_MAX_CONCURRENT_STREAMS=%d", when, m, maxStreams)
		}
		return nil
	}

	aligned := true
	validPreface := false
	framesSent := 0
	var pre []byte
	switch c.Prefix {
	case 1:
		pre = []byte(ClientPreface)
		validPreface = true
	case 2:
		pre = c16Frame([]byte(ClientPreface), 4, 0, 0, nil, 0)
		validPreface = true
		framesSent++
	case 3:
		pl := append(binary.BigEndian.AppendUint16(nil, 4), c16U32(100)...)
		pl = append(binary.BigEndian.AppendUint16(pl, 5), c16U32(16384)...)
		pre = c16Frame([]byte(ClientPreface), 4, 0, 0, pl, 0)
		validPreface = true
		framesSent++
	case 4:
		pre = []byte(ClientPreface)
		pre[len(pre)-1] ^= 1
		pre = c16Frame(pre, 4, 0, 0, nil, 0)
	case 5:
		pre = []byte(ClientPreface)[:10]
		aligned = false
	}
	if len(pre) > 0 {
		s.cli.Write(pre)
		if err := bounds("after the connection prefix"); err != nil {
			return err
		}
	}

	nextID := uint32(1)
	if c.Upgrade && c.UpFrom3 {
		nextID = 3
	}
	var opened []uint32
	newID := func() uint32 {
		id := nextID
		nextID += 2
		if len(opened) < 64 {
			opened = append(opened, id)
		} else {
			opened[int(id/2)%64] = id
		}
		return id
	}
	sel := func(k int) uint32 {
		if len(opened) == 0 {
			return uint32(2*k + 1)
		}
		if k < 0 {
			return nextID - 2
		}
		return opened[k%len(opened)]
	}
	build := func(o c16Op) []byte {
		n := o.N
		if n < 1 {
			n = 1
		}
		var b []byte
		switch o.Kind {
		case "raw":
			aligned = false
			return o.Raw
		case "frame":
			if o.LenDelta != 0 {
				aligned = false
			}
			for i := 0; i < n; i++ {
				b = c16Frame(b, o.T, o.Flags, o.Stream, o.Payload, o.LenDelta)
			}
		case "ping":
			var fl uint8
			if o.End {
				fl = c16FlagAck
			}
			for i := 0; i < n; i++ {
				b = c16Frame(b, 6, fl, 0, append(c16U32(o.V), c16U32(uint32(i))...), 0)
			}
		case "settings":
			for i := 0; i < n; i++ {
				var pl []byte
				switch o.V {
				case 1:
					pl = append(binary.BigEndian.AppendUint16(nil, 4), c16U32(uint32(i%2)*65535)...)
				case 2:
					pl = append(binary.BigEndian.AppendUint16(nil, 1), c16U32(uint32(i%2)*4096)...)
				case 3:
					pl = append(binary.BigEndian.AppendUint16(nil, 5), c16U32(16384+uint32(i%2)*1000)...)
				case 4:
					pl = append(binary.BigEndian.AppendUint16(nil, 2), c16U32(2)...) // ENABLE_PUSH=2: invalid
				}
				b = c16Frame(b, 4, 0, 0, pl, 0)
			}
		case "ack":
			for i := 0; i < n; i++ {
				b = c16Frame(b, 4, c16FlagAck, 0, nil, 0)
			}
		case "open":
			var fl uint8 = c16EndHeaders
			if o.End {
				fl |= c16EndStream
			}
			blk := c16Req(o.Path)
			if o.Prio != "" {
				blk = c16Req(o.Path, "priority", o.Prio)
			}
			for i := 0; i < n; i++ {
				b = c16Frame(b, c16TypeHeaders, fl, newID(), blk, 0)
			}
		case "padprio":
			blk := c16Req(o.Path)
			pad := len(blk) + int(o.V) - 6
			if pad < 0 {
				pad = 0
			}
			if pad > 255 {
				pad = 255
			}
			pl := append([]byte{byte(pad)}, 0, 0, 0, 0, 16) // pad length, stream dependency 0, weight
			pl = append(pl, blk...)
			// the padding itself is present only when it fits the usual way round
			if int(o.V) <= 6 {
				pl = append(pl, make([]byte, pad)...)
			}
			fl := uint8(0x08 | 0x20 | c16EndHeaders)
			if o.End {
				fl |= c16EndStream
			}
			b = c16Frame(b, c16TypeHeaders, fl, newID(), pl, 0)
		case "contx":
			id := newID()
			blk := c16Req(o.Path)
			half := len(blk) / 2
			b = c16Frame(b, c16TypeHeaders, c16EndStream, id, blk[:half], 0)
			for i := 0; i < o.N; i++ {
				b = c16Frame(b, c16TypeCont, 0, id, nil, 0)
			}
			other := uint32(0)
			if o.End {
				other = id
			}
			pl := make([]byte, 8)
			if o.T == 4 {
				pl = nil
			}
			b = c16Frame(b, o.T, 0, other, pl, 0) // the interloper
			b = c16Frame(b, c16TypeCont, c16EndHeaders, id, blk[half:], 0)
			n = o.N + 3
		case "bigopen":
			var fl uint8 = c16EndHeaders
			if o.End {
				fl |= c16EndStream
			}
			// four fields, each below the limit for a single string, together above the
			// limit for the list (one oversized string is a different error path)
			limit := 1500
			if c.MaxHdr > 0 {
				limit = c.MaxHdr + 320
			}
			blk := c16Req(o.Path)
			for j := 0; j < 4; j++ {
				blk = append(blk, c16BigField("x-vp-big", limit*int(o.V)/4000+j)...)
			}
			for i := 0; i < n; i++ {
				b = c16Frame(b, c16TypeHeaders, fl, newID(), blk, 0)
			}
		case "trailers":
			blk := [][]byte{
				c16Block("x-trailer", "v"),
				c16Block("x-trailer", "v", "x-other", string(make([]byte, 100))),
				c16Block(":path", "/late"), // pseudo-header in trailers
				c16Block("X-Upper", "v"),   // invalid name
				c16Block("content-length", "5", "te", "trailers", "connection", "close"),
			}[o.V%5]
			fl := uint8(c16EndHeaders)
			if o.End {
				fl |= c16EndStream // trailers without END_STREAM are a protocol error
			}
			for i := 0; i < n; i++ {
				b = c16Frame(b, c16TypeHeaders, fl, sel(c16Add(o.K, i)), blk, 0)
			}
		case "pupd":
			for i := 0; i < n; i++ {
				id := uint32(2*((o.K+i)%64) + 1)
				if o.K < 0 {
					id = nextID + uint32(2*i)
				}
				b = c16Frame(b, 16, 0, 0, append(c16U32(id), o.Prio...), 0)
			}
		case "prioopen": // PRIORITY for a still idle stream, then its HEADERS
			var fl uint8 = c16EndHeaders
			if o.End {
				fl |= c16EndStream
			}
			blk := c16Req(o.Path)
			for i := 0; i < n; i++ {
				id := newID()
				b = c16Frame(b, 2, 0, id, append(c16U32(uint32(2*int(o.V)+1)), byte(i)), 0)
				b = c16Frame(b, c16TypeHeaders, fl, id, blk, 0)
			}
			n *= 2
		case "openreset":
			blk := c16Req(o.Path)
			for i := 0; i < n; i++ {
				id := newID()
				b = c16Frame(b, c16TypeHeaders, c16EndHeaders, id, blk, 0)
				b = c16Frame(b, 3, 0, id, c16U32(o.V), 0)
			}
			n *= 2
		case "rst":
			for i := 0; i < n; i++ {
				b = c16Frame(b, 3, 0, sel(c16Add(o.K, i)), c16U32(o.V), 0)
			}
		case "wu":
			for i := 0; i < n; i++ {
				id := uint32(0)
				if !o.End {
					id = sel(c16Add(o.K, i))
				}
				b = c16Frame(b, 8, 0, id, c16U32(o.V), 0)
			}
		case "cont":
			id := newID()
			b = c16Frame(b, c16TypeHeaders, 0, id, c16Req(o.Path), 0)
			frag := make([]byte, 0)
			if o.V > 0 {
				pad := bytes.Repeat([]byte{'a'}, int(o.V))
				if o.V%2 == 1 {
					pad = make([]byte, o.V) // NUL octets: an invalid field value
				}
				frag = c16Block("x-vp-pad", string(pad))
			}
			for i := 0; i < n; i++ {
				b = c16Frame(b, c16TypeCont, 0, id, frag, 0)
			}
			if o.End {
				b = c16Frame(b, c16TypeCont, c16EndHeaders, id, nil, 0)
			}
			n++
		case "data":
			pl := make([]byte, o.V)
			for i := 0; i < n; i++ {
				var fl uint8
				if o.End && i == n-1 {
					fl = c16EndStream
				}
				b = c16Frame(b, 0, fl, sel(o.K), pl, 0)
			}
		case "prio":
			for i := 0; i < n; i++ {
				dep := uint32(2*int(o.V)+1) &^ (1 << 31)
				if o.End {
					dep |= 1 << 31
				}
				id := uint32(2*((o.K+i)%64) + 1)
				if o.K < 0 {
					id = nextID + uint32(2*i) // the streams the client will open next (idle now)
				}
				b = c16Frame(b, 2, 0, id, append(c16U32(dep), byte(i)), 0)
			}
		case "goaway":
			b = c16Frame(b, 7, 0, 0, append(c16U32(0), c16U32(o.V)...), 0)
		}
		if aligned {
			framesSent += n
		}
		return b
	}

	biggest := 0
	for i, o := range c.Ops {
		b := build(o)
		if o.N > biggest {
			biggest = o.N
		}
		last := i == len(c.Ops)-1
		if last && c.Cut >= 0 {
			// the client sends part of its last write and closes
			b = b[:len(b)*c.Cut/1000]
			s.cli.Write(b)
			if err := bounds("before the client closed mid-write"); err != nil {
				return err
			}
			r.Class("closed-mid-write")
			break
		}
		if o.Split > 0 && len(b) > 1 {
			at := len(b) * o.Split / 1000
			s.cli.Write(b[:at])
			b = b[at:]
		}
		s.cli.Write(b)
		if err := bounds(fmt.Sprintf("after write %d (%s)", i, o.Kind)); err != nil {
			return err
		}
		switch o.Read {
		case 1:
			drain()
		case 2:
			readOne()
		}
		if o.Read != 0 {
			if err := bounds(fmt.Sprintf("after reading behind write %d (%s)", i, o.Kind)); err != nil {
				return err
			}
		}
	}

	if c.Cut < 0 || len(c.Ops) == 0 {
		// input exhausted: read what the server wrote, then decide "keeps serving or ends"
		drain()
		if err := bounds("after the input was exhausted"); err != nil {
			return err
		}
		if aligned && !eof && !framerErr {
			s.cli.Write(c16Frame(nil, 6, 0, 0, []byte(c16ProbeData), 0))
			drain()
			if !probeAcked && !sawGoAway && !eof && !framerErr {
				time.Sleep(c16Bound)
				synctest.Wait()
				drain()
			}
			if !probeAcked && !sawGoAway && !eof && !framerErr {
				return fmt.Errorf("frame-aligned input: a final PING was not answered within %v, no GOAWAY was sent and the connection is still open", c16Bound)
			}
			if probeAcked {
				r.Class("still-serving-at-end")
			}
			if err := bounds("after the final PING"); err != nil {
				return err
			}
		}
		select {
		case <-s.done:
			// the server ended the connection on its own: it must be closed
			drain()
			if !eof && !framerErr {
				return fmt.Errorf("ServeConn returned but the connection was not closed")
			}
			r.Class("server-ended-connection")
		default:
		}
	}
	if err := finish(); err != nil {
		return err
	}
	if err := bounds("after the connection ended"); err != nil {
		return err
	}
	h.mu.Lock()
	running, calls := h.running, h.calls
	h.mu.Unlock()
	if running != 0 {
		// harness obligation (the handlers end when their stream or connection is gone);
		// a handler stuck after the connection ended is reported by the bubble as a
		// deadlock, a merely slow one would show here
		return fmt.Errorf("%d handlers still running %v after the connection ended", running, c16Bound)
	}

	r.Classf("prefix-%d", c.Prefix)
	r.Classf("sched-%d", c.Sched)
	if c.ReadBuf > 0 {
		r.Class("bounded-read-buffer")
	}
	if sawGoAway {
		r.Class("goaway-seen")
	}
	if framerErr {
		r.Class("client-framer-error")
	}
	if calls > 0 {
		r.Class("handler-called")
	}
	switch {
	case biggest > 10000:
		r.Class("flood>10000")
	case biggest >= 200:
		r.Class("flood>=200")
	}
	if q := s.sc.VPQueuedControlFrames(); q > 100 {
		r.Class("control-queue>100-at-end")
	}
	if validPreface && framesSent >= 3 && (sawSettingsAck || c.Cut >= 0) {
		r.NonTrivial()
	}
	return nil
}

// c16Bubble runs one case in a bubble; a violation found by the interpreter is kept
// when the bubble afterwards also reports goroutines left behind.
func c16Bubble(t *testing.T, c c16Case, r *vp.Rec) error {
	var inner error
	err := vpBubble(t, func() error { inner = c16Run(c, r); return inner })
	if err != nil && inner != nil && err != inner {
		return fmt.Errorf("%v (and then: %v)", inner, err)
	}
	return err
}

func TestVP_C16(t *testing.T) {
	vp.Run(t, vp.Spec[c16Case]{ID: "C16", CrashFile: true, Gen: c16Gen, Prop: func(c c16Case, r *vp.Rec) error {
		return c16Bubble(t, c, r)
	}})
}

// FuzzVP_C16: native fuzzing of (prefix kind, bytes); one bubble per input, the same
// oracle. kind: bits 0-2 prefix, 3-4 scheduler, 5 client reads / does not read before
// the end, 6 small connection buffer, 7 server MaxReadFrameSize 16384.
func FuzzVP_C16(f *testing.F) {
	req := c16Frame(nil, c16TypeHeaders, c16EndHeaders|c16EndStream, 1, c16Req(1), 0)
	rst := c16Frame(nil, 3, 0, 1, c16U32(8), 0)
	wu := c16Frame(nil, 8, 0, 0, c16U32(1<<20), 0)
	ping := c16Frame(nil, 6, 0, 0, []byte("12345678"), 0)
	f.Add(byte(2), []byte{})
	f.Add(byte(0), []byte(ClientPreface))
	f.Add(byte(2), req)
	f.Add(byte(2|3<<3), append(append(append([]byte{}, req...), rst...), wu...))
	f.Add(byte(3|3<<3|1<<5), append(append(append([]byte{}, req...), rst...), wu...))
	f.Add(byte(2|1<<5|1<<6), append(append([]byte{}, ping...), ping...))
	f.Add(byte(2), c16Frame(nil, c16TypeHeaders, 0, 1, c16Req(0), 0))
	f.Add(byte(2), c16Frame(c16Frame(nil, c16TypeHeaders, 0, 1, c16Req(0), 0), c16TypeCont, c16EndHeaders, 1, nil, 0))
	f.Add(byte(2|1<<7), c16Frame(nil, 0, 0, 1, nil, 1<<20))
	f.Add(byte(2), c16Frame(nil, 2, 0, 3, append(c16U32(3), 5), 0))
	f.Add(byte(2|3<<3), c16Frame(c16Frame(nil, 2, 0, 3, append(c16U32(5), 5), 0), c16TypeHeaders, c16EndHeaders|0x20, 5, append(append(c16U32(3|1<<31), 9), c16Req(5)...), 0))
	f.Add(byte(1), ping)
	f.Add(byte(4), ping)
	f.Add(byte(5), []byte("SM\r\n\r\n"))
	f.Fuzz(func(t *testing.T, kind byte, data []byte) {
		if len(data) > 1<<16 {
			return
		}
		c := c16Case{Prefix: int(kind&7) % 6, Sched: int(kind>>3) & 3, MaxStreams: 2, Cut: -1}
		o := c16Op{Kind: "raw", Raw: data, Read: 1}
		if kind&(1<<5) != 0 {
			o.Read = 0
		}
		if kind&(1<<6) != 0 {
			c.ReadBuf = 64
		}
		if kind&(1<<7) != 0 {
			c.MaxFrame = 16384
		}
		c.Ops = []c16Op{o}
		if err := c16Bubble(t, c, &vp.Rec{}); err != nil {
			vp.FuzzFail(t, "C16", "", c, err)
		}
	})
}
