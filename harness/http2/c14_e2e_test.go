package http2_test

// C14: a request sent by a real http2 Transport connection to a real http2 Server over
// an in-memory pipe (inside a testing/synctest bubble) is observed by the handler exactly
// as sent, and the handler's scripted reply (status, header fields, body bytes, trailers)
// is observed by the client exactly as written. Exchanges that exceed a negotiated header
// list limit may fail, but only cleanly (an error, never different data, never a hang).

import (
	"context"
	"crypto/tls"
	"encoding/json"
	"fmt"
	"io"
	"log"
	"net"
	"net/http"
	"net/http/httptrace"
	"net/textproto"
	"net/url"
	"os"
	"runtime"
	"sort"
	"strconv"
	"strings"
	"sync"
	"testing"
	"testing/synctest"
	"time"

	"verif/vp"

	. "golang.org/x/net/http2"
	"golang.org/x/net/http2/hpack"
)

// ---- wire tap ----
//
// A passive parser on each direction of the pipe. It counts frame types and decodes
// every header block (HEADERS + CONTINUATION) with its own HPACK decoder, in stream
// order, so the header list size of RFC 9113 6.5.2 (sum of len(name)+len(value)+32)
// of each block that was really sent is known exactly.

type c14Block struct {
	stream uint32
	size   int
	idx    string // value of vp-idx (request header blocks)
	status string // value of :status (response header blocks)
	ended  bool   // END_STREAM
}

type c14Wire struct {
	mu      sync.Mutex
	skip    int // bytes of connection preface still to skip
	hdr     []byte
	ftype   byte
	flags   byte
	stream  uint32
	payload int    // payload bytes still expected
	keep    bool   // buffer this frame's payload
	buf     []byte // payload of the current HEADERS/CONTINUATION frame
	frames  [16]int
	maxData int
	dec     *hpack.Decoder
	cur     c14Block
	blocks  []c14Block
	decErr  error
	open    bool // a HEADERS frame was seen whose block has not reached END_HEADERS
}

func newC14Wire(skip int) *c14Wire {
	w := &c14Wire{skip: skip}
	w.dec = hpack.NewDecoder(4096, func(f hpack.HeaderField) {
		w.cur.size += len(f.Name) + len(f.Value) + 32
		switch f.Name {
		case "vp-idx":
			w.cur.idx = f.Value
		case ":status":
			w.cur.status = f.Value
		}
	})
	w.dec.SetAllowedMaxDynamicTableSize(1 << 30)
	return w
}

func (w *c14Wire) frameDone() {
	if !w.keep || w.decErr != nil {
		return
	}
	frag := w.buf
	if w.ftype == 1 { // HEADERS
		w.open = true
		w.cur = c14Block{stream: w.stream, ended: w.flags&0x1 != 0}
		pad := 0
		if w.flags&0x8 != 0 && len(frag) > 0 {
			pad = int(frag[0])
			frag = frag[1:]
		}
		if w.flags&0x20 != 0 && len(frag) >= 5 {
			frag = frag[5:]
		}
		if pad <= len(frag) {
			frag = frag[:len(frag)-pad]
		}
	}
	if _, err := w.dec.Write(frag); err != nil {
		w.decErr = err
		return
	}
	if w.flags&0x4 != 0 { // END_HEADERS
		if err := w.dec.Close(); err != nil {
			w.decErr = err
			return
		}
		w.blocks = append(w.blocks, w.cur)
		w.open = false
	}
}

func (w *c14Wire) feed(b []byte) {
	w.mu.Lock()
	defer w.mu.Unlock()
	for len(b) > 0 {
		if w.skip > 0 {
			n := min(w.skip, len(b))
			w.skip -= n
			b = b[n:]
			continue
		}
		if w.payload > 0 {
			n := min(w.payload, len(b))
			if w.keep {
				w.buf = append(w.buf, b[:n]...)
			}
			w.payload -= n
			b = b[n:]
			if w.payload == 0 {
				w.frameDone()
			}
			continue
		}
		n := min(9-len(w.hdr), len(b))
		w.hdr = append(w.hdr, b[:n]...)
		b = b[n:]
		if len(w.hdr) == 9 {
			l := int(w.hdr[0])<<16 | int(w.hdr[1])<<8 | int(w.hdr[2])
			w.ftype, w.flags = w.hdr[3], w.hdr[4]
			w.stream = (uint32(w.hdr[5])<<24 | uint32(w.hdr[6])<<16 | uint32(w.hdr[7])<<8 | uint32(w.hdr[8])) & (1<<31 - 1)
			if w.ftype < 16 {
				w.frames[w.ftype]++
			}
			if w.ftype == 0 && l > w.maxData {
				w.maxData = l
			}
			w.payload = l
			w.keep = w.ftype == 1 || w.ftype == 9
			w.buf = w.buf[:0]
			w.hdr = w.hdr[:0]
			if l == 0 {
				w.frameDone()
			}
		}
	}
}

type c14Tap struct {
	net.Conn
	w *c14Wire
}

func (c *c14Tap) Write(b []byte) (int, error) {
	c.w.feed(b)
	return c.Conn.Write(b)
}

// ---- request body ----

type c14Body struct {
	k      int
	chunks []int
	ci     int
	off    int // offset inside chunks[ci]
	abs    int
	eofDat bool
	atEOF  func()
	eof    bool
	reads  int
	onRead func(n int) // called at the start of the n-th Read (1-based)
}

func (b *c14Body) Read(p []byte) (int, error) {
	if len(p) == 0 {
		return 0, nil
	}
	b.reads++
	if b.onRead != nil {
		b.onRead(b.reads)
	}
	if b.ci >= len(b.chunks) {
		if !b.eof {
			b.eof = true
			b.atEOF()
		}
		return 0, io.EOF
	}
	n := min(len(p), b.chunks[b.ci]-b.off)
	for i := 0; i < n; i++ {
		p[i] = vpPattern(b.k, b.abs+i)
	}
	b.abs += n
	b.off += n
	if b.off == b.chunks[b.ci] {
		b.ci++
		b.off = 0
	}
	if b.ci >= len(b.chunks) && b.eofDat {
		b.eof = true
		b.atEOF()
		return n, io.EOF
	}
	return n, nil
}

func (b *c14Body) Close() error { return nil }

// ---- observations ----

type c14Info struct {
	code int
	h    http.Header
}

type c14CliObs struct {
	done      bool
	rtErr     error
	status    int
	header    http.Header
	clen      int64
	announced []string
	bodyN     int
	bodyBad   int
	bodyErr   error
	trailer   http.Header
	infos     []c14Info
	panicked  any
}

type c14SrvObs struct {
	calls     int
	finished  bool
	method    string
	uri       string
	path      string
	rawQuery  string
	host      string
	proto     string
	header    http.Header
	clen      int64
	announced []string
	bodyN     int
	bodyBad   int
	bodyErr   error
	trailer   http.Header
	writeErr  error
}

func c14Group(fs []c14Field) map[string][]string {
	m := map[string][]string{}
	for _, f := range fs {
		k := http.CanonicalHeaderKey(f.Name)
		m[k] = append(m[k], f.value())
	}
	return m
}

func c14Keys(m map[string][]string) []string {
	var ks []string
	for k := range m {
		ks = append(ks, k)
	}
	sort.Strings(ks)
	return ks
}

func c14HeaderKeys(h http.Header) []string { return c14Keys(map[string][]string(h)) }

func c14Short(s string) string {
	if len(s) > 60 {
		return fmt.Sprintf("%q...(%d bytes)", s[:60], len(s))
	}
	return fmt.Sprintf("%q", s)
}

func c14SameList(a, b []string) bool {
	if len(a) != len(b) {
		return false
	}
	for i := range a {
		if a[i] != b[i] {
			return false
		}
	}
	return true
}

func c14ListDiff(want, got []string) string {
	if len(want) != len(got) {
		return fmt.Sprintf("%d value(s) sent, %d received", len(want), len(got))
	}
	for i := range want {
		if want[i] != got[i] {
			return fmt.Sprintf("value %d: sent %s, received %s", i, c14Short(want[i]), c14Short(got[i]))
		}
	}
	return ""
}

// c14CmpHeader checks that every expected field arrived with an equal value list and
// that nothing arrived that was neither sent nor on the allow list.
func c14CmpHeader(what string, want map[string][]string, got http.Header, allow map[string]bool) error {
	for _, k := range c14Keys(want) {
		if !c14SameList(want[k], got[k]) {
			return fmt.Errorf("%s field %q: %s", what, k, c14ListDiff(want[k], got[k]))
		}
	}
	for _, k := range c14HeaderKeys(got) {
		if _, ok := want[k]; !ok && !allow[k] {
			return fmt.Errorf("%s field %q = %s was received but never sent", what, k, c14Short(strings.Join(got[k], "|")))
		}
	}
	return nil
}

func c14Sum(ns []int) int {
	t := 0
	for _, n := range ns {
		t += n
	}
	return t
}

func (q *c14Req) respTotal() int {
	t := 0
	for _, ch := range q.RChunks {
		t += ch.N
	}
	return t
}

func (q *c14Req) url() *url.URL {
	return &url.URL{Scheme: q.Scheme, Host: q.URLHost, Path: q.Path, RawQuery: q.Query, ForceQuery: q.ForceQ}
}

func (q *c14Req) cookieExpect() []string {
	var pairs []string
	for _, c := range q.Cookies {
		pairs = append(pairs, strings.Split(c, "; ")...)
	}
	if len(pairs) == 0 {
		return nil
	}
	return []string{strings.Join(pairs, "; ")}
}

func c14ListSize(fs []c14Field) int {
	n := 0
	for _, f := range fs {
		n += len(f.Name) + len(f.value()) + 32
	}
	return n
}

// c14BlockLen estimates the HPACK size of a field list with a fresh encoder.
func c14BlockLen(fs []c14Field) int {
	var sb strings.Builder
	e := hpack.NewEncoder(&sb)
	for _, f := range fs {
		e.WriteField(hpack.HeaderField{Name: strings.ToLower(f.Name), Value: f.value()})
	}
	return sb.Len()
}

// effective values of the configuration knobs (documented defaults)
func (s c14Srv) streamWindow() int {
	if s.UpStream <= 0 {
		return 1 << 20
	}
	return int(s.UpStream)
}
func (s c14Srv) headerLimit() int {
	n := s.MaxHeaderBytes
	if n <= 0 {
		n = http.DefaultMaxHeaderBytes
	}
	return n + 320
}
func (c c14Cli) streamWindow() int {
	if c.RecvStream <= 0 {
		return 4 << 20
	}
	return c.RecvStream
}
func (c c14Cli) headerLimit() int {
	switch {
	case c.MaxHeaderList == 0:
		return 10 << 20
	case c.MaxHeaderList == 0xffffffff:
		return 1 << 30
	}
	return int(c.MaxHeaderList)
}

const c14DefaultUA = "Go-http-client/2.0"

// reqListSize is the header list size (RFC 9113 6.5.2) of the request header block the
// Transport builds for exchange k of the plan.
func (q *c14Req) reqListSize(k int) int {
	host := q.Host
	if host == "" {
		host = q.URLHost
	}
	method := q.Method
	if method == "" {
		method = "GET"
	}
	n := len(":authority") + len(host) + 32
	n += len(":method") + len(method) + 32
	n += len(":path") + len(q.url().RequestURI()) + 32
	n += len(":scheme") + len(q.Scheme) + 32
	if tr := c14Keys(c14Group(q.Trailers)); len(tr) > 0 && q.BodyKind == 2 {
		n += len("trailer") + len(strings.Join(tr, ",")) + 32
	}
	n += c14ListSize(q.Fields)
	for _, ck := range q.Cookies {
		for _, piece := range strings.Split(ck, "; ") {
			n += len("cookie") + len(piece) + 32
		}
	}
	ua := q.UA
	if ua == "" {
		ua = c14DefaultUA
	}
	n += len("user-agent") + len(ua) + 32
	n += len("vp-idx") + len(strconv.Itoa(k)) + 32
	cl := -1
	if q.BodyKind != 2 {
		cl = 0
	} else if t := c14Sum(q.Chunks); q.DeclLen && t > 0 {
		cl = t
	}
	if cl > 0 || cl == 0 && (q.Method == "POST" || q.Method == "PUT" || q.Method == "PATCH") {
		n += len("content-length") + len(strconv.Itoa(cl)) + 32
	}
	return n
}

// respMinSize is a lower bound of the final response header list: the fields of the
// plan without anything the server may add.
func (q *c14Req) respMinSize() int {
	return len(":status") + 3 + 32 + c14ListSize(q.RFields)
}

// respListSize is the header list size of the final response header block; exact is
// false when it depends on what the server adds on its own (sniffed Content-Type,
// automatic Content-Length).
func (q *c14Req) respListSize() (n int, exact bool) {
	exact = true
	g := c14Group(q.RFields)
	n = len(":status") + 3 + 32 + c14ListSize(q.RFields)
	if _, ok := g["Date"]; !ok {
		n += len("date") + len(http.TimeFormat) + 32
	}
	noBody := q.Status == 204 || q.Status == 304
	if q.RDeclLen {
		n += len("content-length") + len(strconv.Itoa(q.respTotal())) + 32
	} else if !noBody {
		exact = false
	}
	if _, ok := g["Content-Type"]; !ok && !noBody && q.respTotal() > 0 {
		exact = false
	}
	var decl []string
	seen := map[string]bool{}
	for _, f := range q.RTrailers {
		if !seen[f.Name] {
			seen[f.Name] = true
			decl = append(decl, f.Name)
		}
	}
	decl = append(decl, q.RUnset...)
	if len(decl) > 0 {
		if q.RTrStyle == 0 {
			n += len("trailer") + len(strings.Join(decl, ", ")) + 32
		} else {
			for _, d := range decl {
				n += len("trailer") + len(d) + 32
			}
		}
	}
	return n, exact
}

// c14OverLimit reports whether exchange q may legitimately fail because one of its
// header lists may exceed what the receiving peer advertised (size + generous slack for
// the fields the implementation adds itself).
func (c *c14Case) overLimit(q *c14Req) bool {
	const slack = 700
	reqSize := c14ListSize(q.Fields) + len(q.Path)*3 + len(q.Query) + 4*40 + slack
	for _, ck := range q.Cookies {
		reqSize += len(ck) + 40*3
	}
	for _, f := range q.Trailers {
		reqSize += len(f.Name) + 2
	}
	if reqSize > c.Srv.headerLimit() || c14ListSize(q.Trailers)+slack > c.Srv.headerLimit() {
		return true
	}
	respSize := c14ListSize(q.RFields) + slack
	for _, f := range q.RTrailers {
		respSize += len(f.Name) + 34
	}
	for _, n := range q.RUnset {
		respSize += len(n) + 34
	}
	tr := c14ListSize(q.RTrailers) + c14ListSize(q.RPTrailers) + slack
	return respSize > c.Cli.headerLimit() || tr > c.Cli.headerLimit()
}

// ---- the run ----

func c14Bubble(t *testing.T, f func() error) (err error) {
	var ferr error
	defer func() {
		if p := recover(); p != nil {
			if ferr != nil {
				err = fmt.Errorf("%v (afterwards: %v)", ferr, p)
			} else {
				err = fmt.Errorf("panic around bubble: %v", p)
			}
		}
	}()
	synctest.Test(t, func(*testing.T) { ferr = f() })
	return ferr
}

func c14EffRead(want, total int) int {
	if m := total / 400; want < m {
		return m
	}
	return want
}

func c14Run(c c14Case, r *vp.Rec) error {
	n := len(c.Reqs)
	if c.Aim == "abandoned-write" {
		// What the server recycles goes through sync.Pool, whose reuse is per P: on one P
		// the next taker gets what was just put back, whatever the machine load is.
		defer runtime.GOMAXPROCS(runtime.GOMAXPROCS(1))
	}
	var mu sync.Mutex
	srvObs := make([]c14SrvObs, n)
	cliObs := make([]c14CliObs, n)
	var stray []string

	handler := http.HandlerFunc(func(w http.ResponseWriter, req *http.Request) {
		k, err := strconv.Atoi(req.Header.Get("Vp-Idx"))
		if err != nil || k < 0 || k >= n {
			mu.Lock()
			stray = append(stray, fmt.Sprintf("%s %s (Vp-Idx=%q)", req.Method, req.RequestURI, req.Header.Get("Vp-Idx")))
			mu.Unlock()
			return
		}
		q := &c.Reqs[k]
		o := c14SrvObs{bodyBad: -1}
		mu.Lock()
		srvObs[k].calls++
		o.calls = srvObs[k].calls
		mu.Unlock()
		defer func() {
			o.finished = true
			mu.Lock()
			srvObs[k] = o
			mu.Unlock()
		}()
		o.method, o.uri, o.path, o.rawQuery, o.host, o.proto = req.Method, req.RequestURI, req.URL.Path, req.URL.RawQuery, req.Host, req.Proto
		o.header = req.Header.Clone()
		o.clen = req.ContentLength
		o.announced = c14HeaderKeys(req.Trailer)
		if q.SrvMS > 0 {
			time.Sleep(time.Duration(q.SrvMS) * time.Millisecond)
		}
		readAll := func() {
			buf := make([]byte, c14EffRead(q.SrvRead, c14Sum(q.Chunks)))
			for {
				m, err := req.Body.Read(buf)
				for i := 0; i < m; i++ {
					if buf[i] != vpPattern(k, o.bodyN+i) && o.bodyBad < 0 {
						o.bodyBad = o.bodyN + i
					}
				}
				o.bodyN += m
				if err != nil {
					if err != io.EOF {
						o.bodyErr = err
					}
					break
				}
			}
			o.trailer = req.Trailer.Clone()
		}
		if q.Order == 0 {
			readAll()
		}
		h := w.Header()
		early := q.Early
		if early > len(q.RFields) {
			early = len(q.RFields)
		}
		if early >= 0 {
			for _, f := range q.RFields[:early] {
				h[f.Name] = append(h[f.Name], f.value())
			}
			w.WriteHeader(103)
		} else {
			early = 0
		}
		for _, f := range q.RFields[early:] {
			h[f.Name] = append(h[f.Name], f.value())
		}
		var decl []string
		seen := map[string]bool{}
		for _, f := range q.RTrailers {
			if !seen[f.Name] {
				seen[f.Name] = true
				decl = append(decl, f.Name)
			}
		}
		decl = append(decl, q.RUnset...)
		if len(decl) > 0 {
			if q.RTrStyle == 0 {
				h.Set("Trailer", strings.Join(decl, ", "))
			} else {
				for _, d := range decl {
					h.Add("Trailer", d)
				}
			}
		}
		if q.RDeclLen {
			h.Set("Content-Length", strconv.Itoa(q.respTotal()))
		}
		setPrefixed := func() {
			for _, f := range q.RPTrailers {
				h[TrailerPrefix+f.Name] = append(h[TrailerPrefix+f.Name], f.value())
			}
		}
		if q.RPEarly {
			setPrefixed()
		}
		w.WriteHeader(q.Status)
		if q.Order == 1 {
			w.(http.Flusher).Flush()
			readAll()
		}
		off := 0
		for _, ch := range q.RChunks {
			b := make([]byte, ch.N)
			for i := range b {
				b[i] = vpPattern(k+17, off+i)
			}
			off += ch.N
			_, err := w.Write(b)
			if err != nil && o.writeErr == nil {
				o.writeErr = err
			}
			if err == nil {
				// io.Writer: the callee must not retain p. A Write that reported success
				// before its frame left the server would send these bytes instead.
				for i := range b {
					b[i] ^= 0xa5
				}
			}
			if ch.Flush {
				w.(http.Flusher).Flush()
			}
			if ch.Sleep {
				time.Sleep(time.Millisecond)
			}
		}
		if q.Order == 2 {
			readAll()
		}
		for _, f := range q.RTrailers {
			h.Add(f.Name, f.value())
		}
		if !q.RPEarly {
			setPrefixed()
		}
	})

	// ---- peers ----
	h1 := &http.Server{ErrorLog: log.New(io.Discard, "", 0), MaxHeaderBytes: c.Srv.MaxHeaderBytes}
	h2 := &Server{
		MaxConcurrentStreams:         c.Srv.MaxStreams,
		MaxReadFrameSize:             c.Srv.MaxReadFrame,
		MaxUploadBufferPerConnection: c.Srv.UpConn,
		MaxUploadBufferPerStream:     c.Srv.UpStream,
		MaxDecoderHeaderTableSize:    c.Srv.DecTable,
		MaxEncoderHeaderTableSize:    c.Srv.EncTable,
		NewWriteScheduler:            vpSched(c.Srv.Sched),
	}
	var srvErrs []string // Server.CountError events (diagnostics only)
	h2.CountError = func(e string) {
		mu.Lock()
		srvErrs = append(srvErrs, e)
		mu.Unlock()
	}
	ConfigureServer(h1, h2)
	cliEnd, srvEnd := synctestNetPipe()
	// A bounded pipe makes writes block. After a connection error the server stops
	// reading and closes the connection from a 1 s timer; a Transport goroutine blocked
	// in Write holds ClientConn.wmu, its read loop then waits for that sync.Mutex, which
	// is not a durable block, so the bubble's fake clock (and that timer) would never
	// advance: an artifact of fake time, not of the code under test. Exchanges that may
	// legitimately end in a connection error therefore run over unbounded pipes.
	mayConnErr := false
	for k := range c.Reqs {
		if c.overLimit(&c.Reqs[k]) {
			mayConnErr = true
		}
	}
	// (with Start == 2 the bound towards the server is applied when the server starts:
	// before that nobody drains the pipe, a second request would wait for wmu behind a
	// writer blocked on the full pipe, and synctest.Wait below would never return)
	if c.Srv.ReadBuf > 0 && !mayConnErr && c.Start != 2 {
		srvEnd.SetReadBufferSize(c.Srv.ReadBuf)
	}
	if c.Cli.ReadBuf > 0 && !mayConnErr {
		cliEnd.SetReadBufferSize(c.Cli.ReadBuf)
	}
	cliWire := newC14Wire(len(ClientPreface))
	srvWire := newC14Wire(0)
	srvDone := make(chan struct{})
	startServer := func() {
		tlsState := tls.ConnectionState{Version: tls.VersionTLS13, ServerName: "vp.test", CipherSuite: tls.TLS_AES_128_GCM_SHA256, NegotiatedProtocol: "h2"}
		go func() {
			defer close(srvDone)
			h2.ServeConn(&netConnWithConnectionState{Conn: &c14Tap{Conn: srvEnd, w: srvWire}, state: tlsState}, &ServeConnOpts{Handler: handler, BaseConfig: h1})
		}()
	}

	t1 := &http.Transport{DisableCompression: true}
	t1.HTTP2 = &http.HTTP2Config{MaxReceiveBufferPerStream: c.Cli.RecvStream, MaxReceiveBufferPerConnection: c.Cli.RecvConn}
	tr, err := ConfigureTransports(t1)
	if err != nil {
		return fmt.Errorf("harness: ConfigureTransports: %v", err)
	}
	tr.DisableCompression = true
	// one connection only: requests beyond SETTINGS_MAX_CONCURRENT_STREAMS wait for a slot
	// instead of asking the (absent) pool for another connection
	tr.StrictMaxConcurrentStreams = true
	tr.MaxReadFrameSize = c.Cli.MaxReadFrame
	tr.MaxDecoderHeaderTableSize = c.Cli.DecTable
	tr.MaxEncoderHeaderTableSize = c.Cli.EncTable
	tr.MaxHeaderListSize = c.Cli.MaxHeaderList

	if c.Start == 0 {
		startServer()
	}
	// NewClientConn writes the client preface synchronously; with a bounded pipe and a
	// server that is not reading yet it blocks, so it runs on its own goroutine.
	var cc *ClientConn
	var ccErr error
	ready := make(chan struct{})
	go func() {
		defer close(ready)
		cc, ccErr = tr.NewClientConn(&c14Tap{Conn: cliEnd, w: cliWire})
	}()
	if c.Start == 0 {
		synctest.Wait() // both SETTINGS frames exchanged and acknowledged
	}

	var wg sync.WaitGroup
	for k := range c.Reqs {
		wg.Add(1)
		go func() {
			defer wg.Done()
			o := c14CliObs{bodyBad: -1}
			defer func() {
				if p := recover(); p != nil {
					o.panicked = p
				}
				o.done = true
				mu.Lock()
				cliObs[k] = o
				mu.Unlock()
			}()
			q := &c.Reqs[k]
			<-ready
			if ccErr != nil {
				o.rtErr = fmt.Errorf("NewClientConn: %v", ccErr)
				return
			}
			if q.StartMS > 0 {
				time.Sleep(time.Duration(q.StartMS) * time.Millisecond)
			}
			req := &http.Request{Method: q.Method, URL: q.url(), Host: q.Host, Header: http.Header{}}
			for _, f := range q.Fields {
				req.Header[f.Name] = append(req.Header[f.Name], f.value())
			}
			if len(q.Cookies) > 0 {
				req.Header["Cookie"] = append([]string(nil), q.Cookies...)
			}
			if q.UA != "" {
				req.Header["User-Agent"] = []string{q.UA}
			}
			req.Header["Vp-Idx"] = []string{strconv.Itoa(k)}
			switch q.BodyKind {
			case 0, 1:
				if q.BodyKind == 1 {
					req.Body = http.NoBody
				}
				if len(q.Trailers) > 0 { // never generated (see assumptions); for hand-written replays
					req.Trailer = http.Header{}
					for _, f := range q.Trailers {
						req.Trailer[f.Name] = append(req.Trailer[f.Name], f.value())
					}
				}
			case 2:
				var tr http.Header
				if len(q.Trailers) > 0 {
					tr = http.Header{}
					for _, f := range q.Trailers {
						tr[f.Name] = nil
					}
				}
				fill := func() {
					for _, f := range q.Trailers {
						tr[f.Name] = append(tr[f.Name], f.value())
					}
				}
				body := &c14Body{k: k, chunks: q.Chunks, eofDat: q.EOFData, atEOF: func() {}}
				if tr != nil {
					if q.TrEarly {
						fill()
					} else {
						body.atEOF = fill
					}
					req.Trailer = tr
				}
				req.Body = body
				if q.DeclLen {
					req.ContentLength = int64(c14Sum(q.Chunks))
				}
			}
			var imu sync.Mutex
			cctx, cancel := context.WithCancel(context.Background())
			defer cancel()
			switch q.Cancel {
			case 1: // already cancelled when RoundTrip is called
				cancel()
			case 2: // while the request body is being sent
				if b, ok := req.Body.(*c14Body); ok {
					b.onRead = func(n int) {
						if n == q.CancelAt {
							cancel()
						}
					}
				} else {
					cancel()
				}
			case 5: // some fake milliseconds after RoundTrip was called
				tm := time.AfterFunc(time.Duration(q.CancelAt)*time.Millisecond, cancel)
				defer tm.Stop()
			}
			ctx := httptrace.WithClientTrace(cctx, &httptrace.ClientTrace{
				Got1xxResponse: func(code int, h textproto.MIMEHeader) error {
					imu.Lock()
					o.infos = append(o.infos, c14Info{code, http.Header(h).Clone()})
					imu.Unlock()
					return nil
				},
			})
			res, err := cc.RoundTrip(req.WithContext(ctx))
			if err != nil {
				o.rtErr = err
				return
			}
			o.status = res.StatusCode
			o.header = res.Header.Clone()
			o.clen = res.ContentLength
			o.announced = c14HeaderKeys(res.Trailer)
			if q.Cancel == 3 { // after the response header arrived
				cancel()
			}
			if q.CliPause {
				time.Sleep(2 * time.Millisecond)
			}
			buf := make([]byte, c14EffRead(q.CliRead, q.respTotal()))
			for {
				m, err := res.Body.Read(buf)
				for i := 0; i < m; i++ {
					if buf[i] != vpPattern(k+17, o.bodyN+i) && o.bodyBad < 0 {
						o.bodyBad = o.bodyN + i
					}
				}
				o.bodyN += m
				if q.Cancel == 4 && o.bodyN >= q.CancelAt { // while the response body is read
					cancel()
				}
				if err != nil {
					if err != io.EOF {
						o.bodyErr = err
					}
					break
				}
			}
			o.trailer = res.Trailer.Clone()
			res.Body.Close()
		}()
	}
	if c.Start == 2 {
		synctest.Wait() // the client's first flight is written
		if c.Srv.ReadBuf > 0 && !mayConnErr {
			srvEnd.SetReadBufferSize(c.Srv.ReadBuf)
		}
		startServer()
	}

	allDone := func() bool {
		mu.Lock()
		defer mu.Unlock()
		for k := range cliObs {
			if !cliObs[k].done {
				return false
			}
		}
		return true
	}
	for i := 0; i < 120 && !allDone(); i++ {
		synctest.Wait()
		if allDone() {
			break
		}
		time.Sleep(time.Second) // fake time; only passes when every goroutine is blocked
	}
	var hang error
	if !allDone() {
		mu.Lock()
		var st []string
		for k := range cliObs {
			if !cliObs[k].done {
				st = append(st, fmt.Sprintf("exchange %d (handler calls=%d finished=%v)", k, srvObs[k].calls, srvObs[k].finished))
			}
		}
		mu.Unlock()
		hang = fmt.Errorf("hang: after 120 s of fake time with every goroutine blocked, RoundTrip/response of %s has not completed", strings.Join(st, ", "))
	}
	// a handler may outlive its exchange (HEAD, or a reply that is complete before the
	// handler returns): let started handlers finish before the connection goes away
	handlersDone := func() bool {
		mu.Lock()
		defer mu.Unlock()
		for k := range srvObs {
			if srvObs[k].calls > 0 && !srvObs[k].finished {
				return false
			}
		}
		return true
	}
	for i := 0; hang == nil && i < 120; i++ {
		synctest.Wait()
		if handlersDone() {
			break
		}
		time.Sleep(time.Second)
	}
	if hang == nil && !handlersDone() {
		hang = fmt.Errorf("hang: a handler is still running 120 s (fake) after its client finished")
	}
	<-ready
	if cc != nil {
		cc.Close()
	}
	cliEnd.Close()
	srvEnd.Close()
	for i := 0; i < 30; i++ {
		synctest.Wait()
		select {
		case <-srvDone:
			i = 1000
		default:
			time.Sleep(time.Second)
		}
	}
	if hang != nil {
		return hang
	}
	wg.Wait()
	synctest.Wait()
	select {
	case <-srvDone:
	default:
		return fmt.Errorf("hang: Server.ServeConn did not return within 30 s (fake) after the connection was closed")
	}

	mu.Lock()
	defer mu.Unlock()
	err = c14Judge(&c, srvObs, cliObs, stray, cliWire, srvWire, r)
	if err != nil && len(srvErrs) > 0 {
		err = fmt.Errorf("%v [server error counters: %s]", err, strings.Join(srvErrs, ","))
		// Recorded finding (a race inside the server, so no predicate over cases can
		// select it): the server refused a stream with "over_max_streams" although the
		// Transport (StrictMaxConcurrentStreams) never exceeds the limit. While the
		// finding is open such a run is counted, not failed.
		if strings.Contains(strings.Join(srvErrs, ","), "over_max_streams") && c14FindingOpen("c14-srv-over-max-streams-race") {
			r.Class("known-race:server-over_max_streams")
			return nil
		}
	}
	return err
}

var c14ReqAllow = map[string]bool{"User-Agent": true, "Content-Length": true, "Vp-Idx": true}
var c14RespAllow = map[string]bool{"Content-Length": true, "Content-Type": true, "Date": true}

func c14Judge(c *c14Case, srvObs []c14SrvObs, cliObs []c14CliObs, stray []string, cliWire, srvWire *c14Wire, r *vp.Rec) error {
	// Exact header list accounting: an exchange may fail only if a header list that was
	// really sent (or that the Transport had to refuse to send) is larger than the limit
	// the receiving peer advertised; a list of size <= limit must be delivered. (A list
	// far above the limit ends the whole connection, so the other exchanges of such a
	// case may fail with it.)
	lenient := false
	sLim, cLim := c.Srv.headerLimit(), c.Cli.headerLimit()
	if cliWire.decErr != nil || srvWire.decErr != nil {
		r.Class("wire-decode-error")
		for k := range c.Reqs {
			if c.overLimit(&c.Reqs[k]) {
				lenient = true
			}
		}
	} else {
		streamOf := map[int]uint32{}
		seen := map[uint32]int{}
		reqHdr, reqTr := map[int]int{}, map[int]int{}
		for _, b := range cliWire.blocks {
			seen[b.stream]++
			if seen[b.stream] == 1 {
				if k, err := strconv.Atoi(b.idx); err == nil && k >= 0 && k < len(c.Reqs) {
					streamOf[k] = b.stream
					reqHdr[k] = b.size
				}
				continue
			}
			for k, st := range streamOf {
				if st == b.stream {
					reqTr[k] = b.size
				}
			}
		}
		edge := func(what string, size, lim int) {
			switch size - lim {
			case -1:
				r.Class(what + "==limit-1")
			case 0:
				r.Class(what + "==limit")
			case 1:
				r.Class(what + "==limit+1")
			}
		}
		for k := range c.Reqs {
			q := &c.Reqs[k]
			size := q.reqListSize(k)
			if m, ok := reqHdr[k]; ok {
				if m != size {
					r.Class("harness-req-size-mispredicted")
				}
				size = m
			}
			edge("req-header-list", size, sLim)
			if size > sLim {
				lenient = true
			}
			if len(q.Trailers) > 0 {
				size = c14ListSize(q.Trailers)
				if m, ok := reqTr[k]; ok {
					if m != size {
						r.Class("harness-req-trailer-size-mispredicted")
					}
					size = m
				}
				edge("req-trailer-list", size, sLim)
				if size > sLim {
					lenient = true
				}
			}
			// what the plan alone settles about the reply: the generated fields are a
			// lower bound of the response header list, the trailer lists are exact
			// (a list far above the limit makes the Transport end the connection at the
			// first fragment, so the block may never be complete on the wire)
			if q.respMinSize() > cLim || c14ListSize(q.RTrailers)+c14ListSize(q.RPTrailers) > cLim {
				lenient = true
			}
			st, sent := streamOf[k]
			if !sent {
				continue
			}
			// a header block that was cut off mid-way cannot be measured: fall back to
			// the conservative estimate for its exchange
			if (cliWire.open && cliWire.cur.stream == st || srvWire.open && srvWire.cur.stream == st) && c.overLimit(q) {
				r.Class("unfinished-header-block")
				lenient = true
			}
			pred, exact := q.respListSize()
			for _, b := range srvWire.blocks {
				if b.stream != st {
					continue
				}
				switch {
				case b.status == "":
					edge("resp-trailer-list", b.size, cLim)
				case len(b.status) == 3 && b.status[0] != '1':
					edge("resp-header-list", b.size, cLim)
					if exact && b.status == strconv.Itoa(q.Status) {
						if b.size == pred {
							r.Class("resp-size-predicted-exactly")
						} else {
							r.Class("harness-resp-size-mispredicted")
						}
					}
				}
				if b.size > cLim {
					lenient = true
				}
			}
		}
	}
	if c.Aim != "" {
		r.Class("aim:" + c.Aim)
	}
	if len(stray) > 0 {
		return fmt.Errorf("handler received a request that was never sent: %s", stray[0])
	}
	nontrivial := false
	failedClean := 0
	for k := range c.Reqs {
		q := &c.Reqs[k]
		so, co := &srvObs[k], &cliObs[k]
		pre := fmt.Sprintf("exchange %d (%s %s): ", k, q.Method, c14Short(q.url().RequestURI()))
		if co.panicked != nil {
			return fmt.Errorf("%spanic on the client goroutine: %v", pre, co.panicked)
		}
		if so.calls > 1 {
			return fmt.Errorf("%shandler invoked %d times", pre, so.calls)
		}
		if so.calls == 1 && !so.finished {
			return fmt.Errorf("%shandler still running after the connection was closed", pre)
		}
		if q.Cancel != 0 {
			// The caller cancelled this request at a scripted point: RoundTrip and the
			// body reads returned (else the run would have been reported as a hang) and
			// the handler, if it ran, has finished. Nothing else is required of it; all
			// other exchanges of the case keep their full obligations.
			r.Classf("cancelled-at-%d", q.Cancel)
			if co.rtErr == nil && co.bodyErr == nil {
				r.Class("cancelled-but-completed")
			}
			continue
		}
		// outcome
		var fail string
		switch {
		case co.rtErr != nil:
			fail = fmt.Sprintf("RoundTrip: %v", co.rtErr)
		case co.bodyErr != nil:
			fail = fmt.Sprintf("reading the response body (after %d bytes): %v", co.bodyN, co.bodyErr)
		case so.calls == 0 && co.status == 431 && q.Status != 431:
			fail = "server answered 431 without invoking the handler"
		case so.calls == 0:
			return fmt.Errorf("%sclient received status %d but the handler was never invoked", pre, co.status)
		case so.bodyErr != nil:
			fail = fmt.Sprintf("handler reading the request body (after %d bytes): %v", so.bodyN, so.bodyErr)
		case so.writeErr != nil && q.Method != "HEAD":
			// (for HEAD the server's ResponseWriter reports io.ErrShortWrite for the first
			// flushed chunk although the reply is complete; the client-visible reply is
			// what this property is about)
			fail = fmt.Sprintf("handler Write: %v", so.writeErr)
		}
		if fail != "" {
			if !lenient {
				for j := k + 1; j < len(c.Reqs); j++ { // context: how the later exchanges ended
					switch {
					case cliObs[j].rtErr != nil:
						fail += fmt.Sprintf("; exchange %d RoundTrip: %v", j, cliObs[j].rtErr)
					case cliObs[j].bodyErr != nil:
						fail += fmt.Sprintf("; exchange %d body: %v", j, cliObs[j].bodyErr)
					case srvObs[j].bodyErr != nil:
						fail += fmt.Sprintf("; exchange %d handler read: %v", j, srvObs[j].bodyErr)
					}
				}
				return fmt.Errorf("%s%s (no negotiated limit was exceeded; frames seen from server: %d GOAWAY %d RST_STREAM, from client: %d GOAWAY %d RST_STREAM)", pre, fail,
					srvWire.frames[7], srvWire.frames[3], cliWire.frames[7], cliWire.frames[3])
			}
			failedClean++
			continue
		}

		// ---- what the handler observed ----
		wantMethod := q.Method
		if wantMethod == "" {
			wantMethod = "GET"
		}
		u := q.url()
		wantHost := q.Host
		if wantHost == "" {
			wantHost = q.URLHost
		}
		if so.method != wantMethod {
			return fmt.Errorf("%shandler saw method %q, sent %q", pre, so.method, wantMethod)
		}
		if so.uri != u.RequestURI() {
			return fmt.Errorf("%shandler saw RequestURI %s, sent %s", pre, c14Short(so.uri), c14Short(u.RequestURI()))
		}
		if so.path != q.Path || so.rawQuery != q.Query {
			return fmt.Errorf("%shandler saw URL path %s query %s, sent path %s query %s", pre, c14Short(so.path), c14Short(so.rawQuery), c14Short(q.Path), c14Short(q.Query))
		}
		if so.host != wantHost {
			return fmt.Errorf("%shandler saw Host %q, sent %q", pre, so.host, wantHost)
		}
		if so.proto != "HTTP/2.0" {
			return fmt.Errorf("%shandler saw Proto %q", pre, so.proto)
		}
		want := c14Group(q.Fields)
		if ck := q.cookieExpect(); ck != nil {
			want["Cookie"] = ck
		}
		if q.UA != "" {
			want["User-Agent"] = []string{q.UA}
		}
		if err := c14CmpHeader("request header", want, so.header, c14ReqAllow); err != nil {
			return fmt.Errorf("%s%v", pre, err)
		}
		if so.header.Get("Vp-Idx") != strconv.Itoa(k) {
			return fmt.Errorf("%sVp-Idx mismatch", pre)
		}
		reqTotal := c14Sum(q.Chunks)
		if so.bodyBad >= 0 {
			return fmt.Errorf("%srequest body byte at offset %d differs from what was sent (%d bytes sent)", pre, so.bodyBad, reqTotal)
		}
		if so.bodyN != reqTotal {
			return fmt.Errorf("%shandler read %d request body bytes until EOF, %d were sent", pre, so.bodyN, reqTotal)
		}
		wantCL := int64(-1)
		switch {
		case q.BodyKind != 2:
			wantCL = 0
		case q.DeclLen && reqTotal > 0:
			wantCL = int64(reqTotal)
		}
		if so.clen != wantCL {
			return fmt.Errorf("%shandler saw ContentLength %d, expected %d (declared=%v, body kind %d, %d bytes)", pre, so.clen, wantCL, q.DeclLen, q.BodyKind, reqTotal)
		}
		if cl, ok := so.header["Content-Length"]; ok && (len(cl) != 1 || cl[0] != strconv.Itoa(reqTotal)) {
			return fmt.Errorf("%shandler saw Content-Length %q for a body of %d bytes", pre, cl, reqTotal)
		}
		wantTr := c14Group(q.Trailers)
		if !c14SameList(c14Keys(wantTr), so.announced) {
			return fmt.Errorf("%shandler saw announced request trailers %q, sent %q", pre, so.announced, c14Keys(wantTr))
		}
		if err := c14CmpHeader("request trailer", wantTr, so.trailer, nil); err != nil {
			return fmt.Errorf("%s%v", pre, err)
		}

		// ---- what the client observed ----
		if co.status != q.Status {
			return fmt.Errorf("%sclient saw status %d, handler wrote %d", pre, co.status, q.Status)
		}
		wantR := c14Group(q.RFields)
		if err := c14CmpHeader("response header", wantR, co.header, c14RespAllow); err != nil {
			return fmt.Errorf("%s%v", pre, err)
		}
		respTotal := q.respTotal()
		wantBody := respTotal
		if q.Method == "HEAD" {
			wantBody = 0
		}
		if co.bodyBad >= 0 {
			return fmt.Errorf("%sresponse body byte at offset %d differs from what the handler wrote (%d bytes written)", pre, co.bodyBad, respTotal)
		}
		if co.bodyN != wantBody {
			return fmt.Errorf("%sclient read %d response body bytes until EOF, handler wrote %d", pre, co.bodyN, wantBody)
		}
		if cl, ok := co.header["Content-Length"]; ok {
			if len(cl) != 1 || cl[0] != strconv.Itoa(respTotal) {
				return fmt.Errorf("%sclient saw Content-Length %q, handler wrote %d bytes (declared=%v)", pre, cl, respTotal, q.RDeclLen)
			}
			if co.clen != int64(respTotal) {
				return fmt.Errorf("%sResponse.ContentLength = %d with Content-Length header %q", pre, co.clen, cl)
			}
		} else {
			if q.RDeclLen {
				return fmt.Errorf("%shandler set Content-Length %d but the client saw none", pre, respTotal)
			}
			if co.clen != -1 && co.clen != int64(wantBody) {
				return fmt.Errorf("%sResponse.ContentLength = %d, body has %d bytes", pre, co.clen, wantBody)
			}
		}
		declared := map[string][]string{}
		for _, f := range q.RTrailers {
			declared[http.CanonicalHeaderKey(f.Name)] = nil
		}
		for _, nm := range q.RUnset {
			declared[http.CanonicalHeaderKey(nm)] = nil
		}
		if !c14SameList(c14Keys(declared), co.announced) {
			return fmt.Errorf("%sclient saw announced trailers %q, handler announced %q", pre, co.announced, c14Keys(declared))
		}
		wantRT := c14Group(append(append([]c14Field(nil), q.RTrailers...), q.RPTrailers...))
		for _, k := range c14HeaderKeys(co.trailer) {
			if _, ok := wantRT[k]; !ok && len(co.trailer[k]) == 0 {
				if _, ok := declared[k]; ok {
					delete(co.trailer, k) // announced, never set: stays as a nil entry
				}
			}
		}
		if err := c14CmpHeader("response trailer", wantRT, co.trailer, nil); err != nil {
			return fmt.Errorf("%s%v", pre, err)
		}
		if q.Early >= 0 {
			if len(co.infos) != 1 || co.infos[0].code != 103 {
				return fmt.Errorf("%shandler sent one 103 response, client trace saw %d informational responses", pre, len(co.infos))
			}
			e := q.Early
			if e > len(q.RFields) {
				e = len(q.RFields)
			}
			if err := c14CmpHeader("103 header", c14Group(q.RFields[:e]), co.infos[0].h, nil); err != nil {
				return fmt.Errorf("%s%v", pre, err)
			}
			r.Class("1xx-early-hints")
		} else if len(co.infos) != 0 {
			return fmt.Errorf("%sclient trace saw %d informational responses, none were sent", pre, len(co.infos))
		}

		// ---- classes ----
		r.Class("exchange-ok")
		if reqTotal > min(65535, c.Srv.streamWindow()) {
			r.Class("req-body>window")
			nontrivial = true
		}
		if wantBody > min(65535, c.Cli.streamWindow()) {
			r.Class("resp-body>window")
			nontrivial = true
		}
		if len(wantTr) > 0 {
			r.Class("req-trailers")
			nontrivial = true
			if reqTotal == 0 {
				r.Class("req-trailers-empty-body")
			}
		}
		if len(wantRT) > 0 {
			r.Class("resp-trailers")
			nontrivial = true
			if respTotal == 0 {
				r.Class("resp-trailers-empty-body")
			}
			if len(q.RPTrailers) > 0 {
				r.Class("resp-trailers-prefix")
			}
		}
		if c14BlockLen(q.Fields) > 16384 {
			r.Class("req-header-block>16K")
		}
		if c14BlockLen(q.RFields) > 16384 {
			r.Class("resp-header-block>16K")
		}
		if q.Method == "HEAD" {
			r.Class("head")
		}
		if q.Status == 204 || q.Status == 304 {
			r.Class("status-without-body")
		}
		if q.Order != 0 {
			r.Class("reply-before-request-read")
		}
		if len(q.Cookies) > 0 {
			r.Class("cookie")
		}
		if q.DeclLen && reqTotal > 0 {
			r.Class("req-declared-length")
		}
		if q.BodyKind == 2 && !(q.DeclLen && reqTotal > 0) {
			r.Class("req-unknown-length")
		}
		if q.RDeclLen {
			r.Class("resp-declared-length")
		}
	}
	if cliWire.frames[9] > 0 {
		r.Class("wire-continuation-from-client")
		nontrivial = true
	}
	if srvWire.frames[9] > 0 {
		r.Class("wire-continuation-from-server")
		nontrivial = true
	}
	if cliWire.maxData > 16384 || srvWire.maxData > 16384 {
		r.Class("wire-data-frame>16K")
	}
	if len(c.Reqs) > 1 {
		r.Class("concurrent>=2")
	}
	if c.Start == 2 {
		r.Class("server-settings-after-first-flight")
	}
	if lenient {
		r.Class("limit-exceeded-case")
		if failedClean > 0 {
			r.Class("limit-exceeded-failed-cleanly")
		}
	}
	if nontrivial {
		r.NonTrivial()
	}
	return nil
}

var c14OpenOnce sync.Once
var c14OpenKeys map[string]bool

// c14FindingOpen reports whether KNOWN_FINDINGS.json (the file the runner itself reads,
// $VP_KNOWN) lists key as an open C14 finding.
func c14FindingOpen(key string) bool {
	c14OpenOnce.Do(func() {
		c14OpenKeys = map[string]bool{}
		b, err := os.ReadFile(os.Getenv("VP_KNOWN"))
		if err != nil {
			return
		}
		var kf struct {
			Findings []struct {
				Key      string `json:"key"`
				Property string `json:"property"`
				Status   string `json:"status"`
			} `json:"findings"`
		}
		if json.Unmarshal(b, &kf) != nil {
			return
		}
		for _, f := range kf.Findings {
			if f.Property == "C14" && f.Status == "open" {
				c14OpenKeys[f.Key] = true
			}
		}
	})
	return c14OpenKeys[key]
}

// c14Known classifies cases that match a recorded finding (see KNOWN_FINDINGS.json).
func c14Known(c c14Case) string {
	var keys []string
	// Trailer lists larger than the receiver's header list limit are cut off silently:
	// neither Transport.processTrailers nor Server.processTrailerHeaders looks at
	// MetaHeadersFrame.Truncated.
	for _, q := range c.Reqs {
		if c14ListSize(q.RTrailers)+c14ListSize(q.RPTrailers) > c.Cli.headerLimit() {
			keys = append(keys, "c14-resp-trailers-over-limit-truncated")
		}
		// (a client that knows the server's limit refuses to send such trailers)
		if c.Start == 2 && c14ListSize(q.Trailers) > c.Srv.headerLimit() {
			keys = append(keys, "c14-req-trailers-over-limit-truncated")
		}
	}
	if c.Start == 2 {
		eff := func(v uint32) uint32 {
			if v == 0 {
				return 4096
			}
			return v
		}
		// The server creates its HPACK decoder with MaxDecoderHeaderTableSize right
		// away, while a client that has not yet processed the server's SETTINGS still
		// encodes against the protocol default of 4096 bytes.
		if eff(c.Srv.DecTable) < min(4096, eff(c.Cli.EncTable)) {
			keys = append(keys, "c14-srv-decoder-table-before-settings-ack")
		}
		// Likewise the per-stream receive window is MaxUploadBufferPerStream from the
		// first stream on, although the client may send 65535 bytes until it has seen
		// SETTINGS.
		if c.Srv.UpStream > 0 && c.Srv.UpStream < 65535 {
			for _, q := range c.Reqs {
				if q.StartMS == 0 && c14Sum(q.Chunks) > int(c.Srv.UpStream) {
					keys = append(keys, "c14-srv-stream-window-before-settings-ack")
					break
				}
			}
		}
	}
	// a case may match several findings; name one that is still open (a fixed finding
	// suppresses nothing)
	for _, k := range keys {
		if c14FindingOpen(k) {
			return k
		}
	}
	if len(keys) > 0 {
		return keys[0]
	}
	return ""
}

func TestVP_C14(t *testing.T) {
	vp.Run(t, vp.Spec[c14Case]{ID: "C14", CrashFile: true, Gen: c14Gen, Known: c14Known, Prop: func(c c14Case, r *vp.Rec) error {
		return c14Bubble(t, func() error { return c14Run(c, r) })
	}})
}
