package http2

// C07: for any byte stream, Framer.ReadFrame (with and without ReadMetaHeaders) never
// panics and never returns a frame longer than the configured maximum read size;
// frames violating the stream-ID rules or HEADERS/CONTINUATION contiguity are
// reported as errors; a returned MetaHeadersFrame lists pseudo-headers before regular
// fields, has no duplicate or unknown pseudo-headers, contains only valid field names
// and values, and stays within MaxHeaderListSize unless marked Truncated.
//
// Uses c06_framegen_test.go (independent frame-header codec, stream-ID generators).

import (
	"bytes"
	"fmt"
	"io"
	"sort"
	"strings"
	"testing"

	"golang.org/x/net/http2/hpack"
	"pgregory.net/rapid"
	"verif/vp"
)

type c07Case struct {
	SetMax        bool   `json:"set_max"`  // call SetMaxReadFrameSize(MaxRead)
	MaxRead       uint32 `json:"max_read"` //
	MaxHeaderList uint32 `json:"max_header_list"`
	Meta          bool   `json:"meta"`  // ReadMetaHeaders = hpack.NewDecoder(Table, nil)
	Table         uint32 `json:"table"` //
	Reuse         bool   `json:"reuse"` // SetReuseFrames
	AllowIllegal  bool   `json:"allow_illegal"`
	LogReads      bool   `json:"log_reads"` // frame-read logging path on (output discarded)
	Chunk         int    `json:"chunk"`     // >0: the io.Reader returns at most Chunk bytes per Read
	Stream        []byte `json:"stream"`
}

type c07ChunkReader struct {
	r io.Reader
	n int
}

func (c *c07ChunkReader) Read(p []byte) (int, error) {
	if len(p) > c.n {
		p = p[:c.n]
	}
	return c.r.Read(p)
}

// ---- independent predicates (RFC 9113 / RFC 9110, not the package's tables) ----

// c07StreamRuleViolated: RFC 9113 §6: DATA, HEADERS, PRIORITY, RST_STREAM,
// PUSH_PROMISE and CONTINUATION must be on a stream; SETTINGS, PING and GOAWAY
// (and RFC 9218 PRIORITY_UPDATE) must be on stream 0.
func c07StreamRuleViolated(h c06WireHdr) bool {
	switch h.Type {
	case 0x0, 0x1, 0x2, 0x3, 0x5, 0x9:
		return h.StreamID == 0
	case 0x4, 0x6, 0x7, 0x10:
		return h.StreamID != 0
	}
	return false
}

func c07IsTchar(b byte) bool {
	switch {
	case b >= '0' && b <= '9', b >= 'a' && b <= 'z', b >= 'A' && b <= 'Z':
		return true
	}
	return strings.IndexByte("!#$%&'*+-.^_`|~", b) >= 0
}

// c07ValidName: a non-empty lower-case token (RFC 9113 §8.2.1).
func c07ValidName(s string) bool {
	if s == "" {
		return false
	}
	for i := 0; i < len(s); i++ {
		if !c07IsTchar(s[i]) || (s[i] >= 'A' && s[i] <= 'Z') {
			return false
		}
	}
	return true
}

// c07ValidValue: field-content bytes only — HTAB, SP, VCHAR, obs-text (RFC 9110 §5.5);
// no other control characters.
func c07ValidValue(s string) bool {
	for i := 0; i < len(s); i++ {
		b := s[i]
		if (b < 0x20 && b != '\t') || b == 0x7f {
			return false
		}
	}
	return true
}

var c07KnownPseudo = map[string]bool{":method": true, ":path": true, ":scheme": true, ":authority": true, ":protocol": true, ":status": true}

func c07CheckMeta(mh *MetaHeadersFrame, limit uint32) error {
	if limit == 0 {
		limit = 16 << 20 // documented default
	}
	sawRegular := false
	seen := map[string]bool{}
	var size uint64
	for i, f := range mh.Fields {
		size += uint64(len(f.Name)) + uint64(len(f.Value)) + 32
		if strings.HasPrefix(f.Name, ":") {
			if sawRegular {
				return fmt.Errorf("MetaHeadersFrame field %d: pseudo-header %q after a regular field", i, f.Name)
			}
			if !c07KnownPseudo[f.Name] {
				return fmt.Errorf("MetaHeadersFrame field %d: unknown pseudo-header %q", i, f.Name)
			}
			if seen[f.Name] {
				return fmt.Errorf("MetaHeadersFrame field %d: duplicate pseudo-header %q", i, f.Name)
			}
			seen[f.Name] = true
		} else {
			sawRegular = true
			if !c07ValidName(f.Name) {
				return fmt.Errorf("MetaHeadersFrame field %d: invalid field name %q", i, f.Name)
			}
		}
		if !c07ValidValue(f.Value) {
			return fmt.Errorf("MetaHeadersFrame field %d (%q): invalid field value %q", i, f.Name, f.Value)
		}
	}
	if !mh.Truncated && size > uint64(limit) {
		return fmt.Errorf("MetaHeadersFrame header list size %d exceeds MaxHeaderListSize %d and Truncated is false", size, limit)
	}
	return nil
}

// c07Span splits b into whole frames; ok is false if b is not a whole number of frames.
func c07Span(b []byte) (hs []c06WireHdr, ok bool) {
	for len(b) > 0 {
		h, hok := c06ParseHdr(b)
		if !hok || uint64(len(b)) < uint64(c06HdrLen)+uint64(h.Length) {
			return hs, false
		}
		hs = append(hs, h)
		b = b[c06HdrLen+int(h.Length):]
	}
	return hs, true
}

// c07Touch calls the accessors of a freshly returned frame the way any consumer would.
func c07Touch(f Frame) (err error) {
	defer func() {
		if p := recover(); p != nil {
			err = fmt.Errorf("accessor of a frame just returned by ReadFrame panicked: %v (frame %T %v)", p, f, f.Header())
		}
	}()
	switch f := f.(type) {
	case *DataFrame:
		_ = f.Data()
	case *HeadersFrame:
		_ = f.HeaderBlockFragment()
	case *ContinuationFrame:
		_ = f.HeaderBlockFragment()
	case *PushPromiseFrame:
		_ = f.HeaderBlockFragment()
	case *GoAwayFrame:
		_ = f.DebugData()
	case *UnknownFrame:
		_ = f.Payload()
	case *SettingsFrame:
		f.ForeachSetting(func(Setting) error { return nil })
		f.Value(SettingMaxFrameSize)
		f.HasDuplicates()
	case *MetaHeadersFrame:
		_ = f.PseudoFields()
		_ = f.RegularFields()
		_ = f.PseudoValue("method")
	}
	return nil
}

var c07TypeNames = map[uint8]string{0: "DATA", 1: "HEADERS", 2: "PRIORITY", 3: "RST_STREAM", 4: "SETTINGS", 5: "PUSH_PROMISE",
	6: "PING", 7: "GOAWAY", 8: "WINDOW_UPDATE", 9: "CONTINUATION", 0x10: "PRIORITY_UPDATE"}

func c07TypeName(t uint8) string {
	if n, ok := c07TypeNames[t]; ok {
		return n
	}
	return "UNKNOWN"
}

func c07Prop(c c07Case, r *vp.Rec) error {
	rd := bytes.NewReader(c.Stream)
	var src io.Reader = rd
	if c.Chunk > 0 {
		src = &c07ChunkReader{rd, c.Chunk}
	}
	fr := NewFramer(nil, src)
	effMax := uint32(1<<24 - 1)
	if c.SetMax {
		fr.SetMaxReadFrameSize(c.MaxRead)
		if c.MaxRead < effMax {
			effMax = c.MaxRead
		}
	}
	fr.MaxHeaderListSize = c.MaxHeaderList
	if c.Meta {
		fr.ReadMetaHeaders = hpack.NewDecoder(c.Table, nil)
	}
	if c.Reuse {
		fr.SetReuseFrames()
	}
	fr.AllowIllegalReads = c.AllowIllegal
	fr.logReads = c.LogReads
	fr.debugReadLoggerf = func(string, ...interface{}) {}

	// The harness's own view of the header-block state, from the bytes on the wire.
	var expectCont uint32 // stream of a header block opened by HEADERS and not yet ended
	var ppOpen uint32     // same for a block opened by PUSH_PROMISE (not asserted, only tolerated)
	advance := func(h c06WireHdr) {
		switch h.Type {
		case 0x1:
			ppOpen = 0
			expectCont = 0
			if h.Flags&0x4 == 0 {
				expectCont = h.StreamID
			}
		case 0x9:
			if h.Flags&0x4 != 0 {
				expectCont, ppOpen = 0, 0
			}
		case 0x5:
			ppOpen = 0
			if h.Flags&0x4 == 0 {
				ppOpen = h.StreamID
			}
		default:
			ppOpen = 0
		}
	}

	returned, metas := 0, 0
	total := len(c.Stream)
	for iter := 0; iter <= total/c06HdrLen+1; iter++ {
		before := total - rd.Len()
		f, err := fr.ReadFrame()
		after := total - rd.Len()
		span, aligned := c07Span(c.Stream[before:after])
		next, haveNext := c06ParseHdr(c.Stream[before:])

		if err != nil {
			// classify what was refused (coverage only)
			if haveNext {
				switch {
				case next.Length > effMax:
					r.Class("refused:too-long")
				case c07StreamRuleViolated(next):
					r.Class("refused:stream-id-rule")
				case !c.AllowIllegal && ((expectCont != 0 && (next.Type != 0x9 || next.StreamID != expectCont)) ||
					(expectCont == 0 && next.Type == 0x9)):
					r.Class("refused:contiguity")
				}
			}
			if se, ok := err.(StreamError); ok {
				r.Class("err:stream")
				_ = se
				if !aligned || len(span) == 0 {
					break
				}
				for _, h := range span {
					advance(h)
				}
				continue
			}
			switch e := err.(type) {
			case ConnectionError:
				r.Classf("err:conn:%v", ErrCode(e))
			default:
				switch {
				case err == ErrFrameTooLarge || strings.Contains(err.Error(), ErrFrameTooLarge.Error()):
					r.Class("err:too-large")
				case err == io.EOF:
					r.Class("err:eof")
				case err == io.ErrUnexpectedEOF || strings.Contains(err.Error(), "unexpected EOF"):
					r.Class("err:short")
				default:
					r.Class("err:other")
				}
			}
			break
		}

		// ---- a frame was returned ----
		if f == nil {
			return fmt.Errorf("ReadFrame returned (nil, nil) at offset %d", before)
		}
		returned++
		fh := f.Header()
		if fh.Length > effMax {
			return fmt.Errorf("offset %d: returned %T with Length %d > maximum read size %d", before, f, fh.Length, effMax)
		}
		if !aligned || len(span) == 0 {
			return fmt.Errorf("offset %d: returned %T %v but consumed %d bytes, which is not a whole number of frames", before, f, fh, after-before)
		}
		for i, h := range span {
			if h.Length > effMax {
				return fmt.Errorf("offset %d: returned %T; consumed frame %d (%s) has length %d > maximum read size %d", before, f, i, c07TypeName(h.Type), h.Length, effMax)
			}
		}
		h0 := span[0]
		if uint8(fh.Type) != h0.Type || uint8(fh.Flags) != h0.Flags || fh.StreamID != h0.StreamID || fh.Length != h0.Length {
			return fmt.Errorf("offset %d: returned header %v differs from the header on the wire %+v", before, fh, h0)
		}
		if err := c07Touch(f); err != nil {
			return err
		}
		mh, isMeta := f.(*MetaHeadersFrame)
		if isMeta {
			metas++
			r.Class("ret:MetaHeaders")
			if h0.Type != 0x1 || h0.StreamID == 0 {
				return fmt.Errorf("offset %d: MetaHeadersFrame returned for wire frame %+v", before, h0)
			}
			if expectCont != 0 {
				return fmt.Errorf("offset %d: MetaHeadersFrame (stream %d) returned while the header block of stream %d was still open", before, h0.StreamID, expectCont)
			}
			for i, h := range span {
				if i > 0 && (h.Type != 0x9 || h.StreamID != h0.StreamID) {
					return fmt.Errorf("offset %d: MetaHeadersFrame for stream %d swallowed a %s frame on stream %d inside its header block (contiguity violation not reported)",
						before, h0.StreamID, c07TypeName(h.Type), h.StreamID)
				}
				last := i == len(span)-1
				if (h.Flags&0x4 != 0) != last {
					return fmt.Errorf("offset %d: MetaHeadersFrame spans %d frames but END_HEADERS is on frame %d: %v", before, len(span), i, !last)
				}
			}
			if len(span) > 1 {
				r.Class("meta:with-continuation")
			}
			if mh.Truncated {
				r.Class("meta:truncated")
			}
			if len(mh.Fields) > 0 {
				r.Class("meta:has-fields")
			}
			if err := c07CheckMeta(mh, c.MaxHeaderList); err != nil {
				return fmt.Errorf("offset %d: %v", before, err)
			}
			expectCont, ppOpen = 0, 0
			continue
		}
		r.Class("ret:" + c07TypeName(h0.Type))
		if len(span) != 1 {
			return fmt.Errorf("offset %d: returned %T but consumed %d frames", before, f, len(span))
		}
		if c07StreamRuleViolated(h0) {
			return fmt.Errorf("offset %d: %s frame on stream %d returned, not reported as an error", before, c07TypeName(h0.Type), h0.StreamID)
		}
		if !c.AllowIllegal {
			if expectCont != 0 && (h0.Type != 0x9 || h0.StreamID != expectCont) {
				return fmt.Errorf("offset %d: %s frame on stream %d returned inside the open header block of stream %d", before, c07TypeName(h0.Type), h0.StreamID, expectCont)
			}
			if expectCont == 0 && h0.Type == 0x9 && ppOpen != h0.StreamID {
				return fmt.Errorf("offset %d: CONTINUATION on stream %d returned with no open header block", before, h0.StreamID)
			}
		}
		advance(h0)
	}
	if returned >= 2 {
		r.Class("returned>=2")
	}
	if returned >= 2 || metas > 0 {
		r.NonTrivial()
	}
	if c.Meta {
		r.Class("cfg:meta")
	} else {
		r.Class("cfg:plain")
	}
	return nil
}

// ---------------------------------------------------------------------------------
// generator

type c07Field struct {
	Name, Value string
	Sensitive   bool
}

var (
	c07PseudoReq  = []string{":method", ":path", ":scheme", ":authority", ":protocol"}
	c07PseudoBad  = []string{":foo", ":", ":Method", ":path ", ":status\x00"}
	c07NamesOK    = []string{"a", "accept", "content-type", "cookie", "x-y_z", "priority", "via", "te", "0", "!#$%&'*+-.^_`|~"}
	c07NamesBad   = []string{"", "Upper", "sp ace", "nul\x00x", "caf\xc3\xa9", "a:b", "x\x7f", "(paren)", "\xff", "tab\t"}
	c07ValuesOK   = []string{"", "v", "GET", "/", "https", "200", "example.com", " lead", "trail\t", "\x80\xff", "a b\tc", "u=1, i"}
	c07ValuesBad  = []string{"a\x00b", "a\nb", "\r", "\x7f", "\x1f", "x\x0by"}
	c07StreamPool = []uint32{1, 1, 1, 3, 3, 5, 1<<31 - 1}
)

// The field generators take a hostility level: 0 = only valid names and values,
// 1 = occasionally invalid ones.
func c07GenValue(t *rapid.T, hostile bool) string {
	switch k := rapid.IntRange(0, 23).Draw(t, "valKind"); {
	case k == 7 && hostile:
		return rapid.SampledFrom(c07ValuesBad).Draw(t, "badValue")
	case k == 11 || k == 12:
		return strings.Repeat("x", vp.BiasedInt(1, 5000, 30, 31, 32, 64, 100, 1000, 4000).Draw(t, "longValue"))
	case k == 13 && hostile:
		return string(vp.Bytes(0, 6).Draw(t, "rawValue"))
	}
	return rapid.SampledFrom(c07ValuesOK).Draw(t, "value")
}

func c07GenRegular(t *rapid.T, hostile bool) c07Field {
	f := c07Field{Value: c07GenValue(t, hostile), Sensitive: rapid.IntRange(0, 9).Draw(t, "sensitive") == 5}
	if hostile && rapid.IntRange(0, 7).Draw(t, "badName") == 5 {
		f.Name = rapid.SampledFrom(c07NamesBad).Draw(t, "nameBad")
	} else {
		f.Name = rapid.SampledFrom(c07NamesOK).Draw(t, "name")
	}
	return f
}

// c07GenPseudo: kind 0 request pseudo-header, 1 :status, 2 anything (also unknown ones).
func c07GenPseudo(t *rapid.T, kind int, hostile bool) c07Field {
	f := c07Field{Value: c07GenValue(t, hostile)}
	switch kind {
	case 0:
		f.Name = rapid.SampledFrom(c07PseudoReq).Draw(t, "pseudo")
	case 1:
		f.Name = ":status"
	default:
		switch k := rapid.IntRange(0, 7).Draw(t, "pseudoKind"); {
		case k == 5 || k == 3:
			f.Name = rapid.SampledFrom(c07PseudoBad).Draw(t, "pseudoBad")
		case k == 6:
			f.Name = ":status"
		default:
			f.Name = rapid.SampledFrom(c07PseudoReq).Draw(t, "pseudo")
		}
	}
	return f
}

// c07GenFields draws a header list. Three shapes: a clean request or response list
// (distinct pseudo-headers of one kind, then valid regular fields); a well-ordered
// list whose fields may be individually invalid; any order with duplicates.
func c07GenFields(t *rapid.T) []c07Field {
	shape := rapid.SampledFrom([]int{0, 0, 0, 0, 1, 1, 2, 2}).Draw(t, "shape")
	if shape == 2 {
		return rapid.SliceOfN(rapid.Custom(func(t *rapid.T) c07Field {
			if rapid.IntRange(0, 2).Draw(t, "isPseudo") == 1 {
				return c07GenPseudo(t, 2, rapid.Bool().Draw(t, "hostile"))
			}
			return c07GenRegular(t, rapid.IntRange(0, 3).Draw(t, "hostile") == 2)
		}), 0, 8).Draw(t, "fields")
	}
	hostile := shape == 1
	kind := rapid.IntRange(0, 2).Draw(t, "listKind") % 2 // request twice as likely
	if hostile && rapid.Bool().Draw(t, "anyPseudo") {
		kind = 2
	}
	maxP := 5
	if kind == 1 {
		maxP = 1
	}
	ps := rapid.SliceOfNDistinct(rapid.Custom(func(t *rapid.T) c07Field { return c07GenPseudo(t, kind, hostile) }), 0, maxP,
		func(f c07Field) string { return f.Name }).Draw(t, "pseudos")
	rs := rapid.SliceOfN(rapid.Custom(func(t *rapid.T) c07Field { return c07GenRegular(t, hostile) }), 0, 6).Draw(t, "regulars")
	return append(ps, rs...)
}

type c07Frame struct {
	typ, flags uint8
	stream     uint32
	payload    []byte
	declared   int64 // -1: len(payload)
}

func (f c07Frame) appendTo(b []byte) []byte {
	n := uint32(len(f.payload))
	if f.declared >= 0 {
		n = uint32(f.declared) & (1<<24 - 1)
	}
	b = c06AppendHdr(b, n, f.typ, f.flags, f.stream)
	return append(b, f.payload...)
}

func c07GenStream(t *rapid.T, wantZero bool) uint32 {
	legal := rapid.IntRange(0, 7).Draw(t, "streamLegal") != 3
	if wantZero == legal {
		if rapid.IntRange(0, 5).Draw(t, "reservedBit") == 4 {
			return 1 << 31 // stream 0 with the reserved bit set
		}
		return 0
	}
	s := rapid.SampledFrom(c07StreamPool).Draw(t, "streamID")
	if rapid.IntRange(0, 11).Draw(t, "reservedBit") == 4 {
		s |= 1 << 31
	}
	return s
}

// c07GenSimple draws one frame that is well-formed for its type, then usually leaves
// it alone and sometimes breaks its stream ID, flags, payload length or length field.
func c07GenSimple(t *rapid.T) c07Frame {
	f := c07Frame{declared: -1}
	f.typ = rapid.SampledFrom([]uint8{0, 0, 1, 2, 3, 4, 4, 5, 6, 7, 8, 8, 9, 9, 0x10, 0x0a, 0xff}).Draw(t, "type")
	optFlags := func(bits ...uint8) uint8 {
		var v uint8
		for _, b := range bits {
			if rapid.IntRange(0, 2).Draw(t, "flag") == 1 {
				v |= b
			}
		}
		return v
	}
	u32 := func(v uint32) []byte { return []byte{byte(v >> 24), byte(v >> 16), byte(v >> 8), byte(v)} }
	padded := func(body []byte) []byte { // pad length byte + body (the padding is whatever tail of body)
		pl := vp.BiasedInt(0, 255, 0, len(body), 255).Draw(t, "padLen")
		return append([]byte{byte(pl)}, body...)
	}
	switch f.typ {
	case 0x0:
		f.stream = c07GenStream(t, false)
		f.flags = optFlags(0x1, 0x8)
		f.payload = vp.Bytes(0, 16).Draw(t, "data")
		if f.flags&0x8 != 0 {
			f.payload = padded(f.payload)
		}
	case 0x1:
		f.stream = c07GenStream(t, false)
		f.flags = optFlags(0x1, 0x4, 0x4, 0x8, 0x20)
		f.payload = rapid.SampledFrom([][]byte{{}, {0x82}, {0x82, 0x84, 0x86}, {0x88}, {0x40, 0x01, 'a', 0x01, 'b'}, {0xff}, {0x00, 0x01, 'A', 0x00}}).Draw(t, "block")
		if f.flags&0x20 != 0 {
			f.payload = append(append(u32(rapid.Uint32().Draw(t, "dep")), rapid.Byte().Draw(t, "weight")), f.payload...)
		}
		if f.flags&0x8 != 0 {
			f.payload = padded(f.payload)
		}
	case 0x2:
		f.stream = c07GenStream(t, false)
		f.payload = vp.Bytes(5, 5).Draw(t, "prio")
	case 0x3:
		f.stream = c07GenStream(t, false)
		f.payload = vp.Bytes(4, 4).Draw(t, "code")
	case 0x4:
		f.stream = c07GenStream(t, true)
		if rapid.IntRange(0, 4).Draw(t, "ack") == 2 {
			f.flags = 0x1
			if rapid.IntRange(0, 3).Draw(t, "ackPayload") == 2 {
				f.payload = make([]byte, 6)
			}
		} else {
			for _, s := range rapid.SliceOfN(rapid.Custom(func(t *rapid.T) [2]uint32 {
				return [2]uint32{
					uint32(rapid.OneOf(rapid.SampledFrom([]uint16{1, 2, 3, 4, 4, 5, 6, 8, 9}), rapid.Uint16()).Draw(t, "id")),
					rapid.OneOf(rapid.SampledFrom([]uint32{0, 1, 1<<31 - 1, 1 << 31, 1<<32 - 1, 16384}), rapid.Uint32()).Draw(t, "val"),
				}
			}), 0, 12).Draw(t, "settings") {
				f.payload = append(f.payload, byte(s[0]>>8), byte(s[0]))
				f.payload = append(f.payload, u32(s[1])...)
			}
		}
	case 0x5:
		f.stream = c07GenStream(t, false)
		f.flags = optFlags(0x4, 0x4, 0x8)
		f.payload = append(u32(rapid.SampledFrom([]uint32{0, 2, 4, 1 << 31, 1<<31 | 2}).Draw(t, "promise")), vp.Bytes(0, 6).Draw(t, "frag")...)
		if f.flags&0x8 != 0 {
			f.payload = padded(f.payload)
		}
	case 0x6:
		f.stream = c07GenStream(t, true)
		f.flags = optFlags(0x1)
		f.payload = vp.Bytes(8, 8).Draw(t, "ping")
	case 0x7:
		f.stream = c07GenStream(t, true)
		f.payload = vp.Bytes(8, 16).Draw(t, "goaway")
	case 0x8:
		f.stream = c07GenStream(t, rapid.Bool().Draw(t, "connLevel"))
		f.payload = u32(rapid.SampledFrom([]uint32{0, 1, 1 << 31, 1<<31 | 7, 1<<31 - 1, 65535}).Draw(t, "incr"))
	case 0x9:
		f.stream = c07GenStream(t, false)
		f.flags = optFlags(0x4, 0x4)
		f.payload = rapid.SampledFrom([][]byte{{}, {0x82}, {0x84, 0x86}, {0xff}}).Draw(t, "block")
	case 0x10:
		f.stream = c07GenStream(t, true)
		f.payload = append(u32(rapid.SampledFrom([]uint32{0, 1, 3, 1 << 31, 1<<31 | 1}).Draw(t, "prioritized")),
			rapid.SampledFrom([]string{"", "u=1", "u=0, i", "\x00"}).Draw(t, "sfv")...)
	default:
		f.stream = c07GenStream(t, rapid.Bool().Draw(t, "zero"))
		f.flags = rapid.Byte().Draw(t, "flags")
		f.payload = vp.Bytes(0, 12).Draw(t, "payload")
	}
	switch rapid.IntRange(0, 23).Draw(t, "perturb") {
	case 3:
		f.flags = rapid.Byte().Draw(t, "anyFlags")
	case 5, 6:
		n := rapid.IntRange(1, 3).Draw(t, "shorter")
		if n > len(f.payload) {
			n = len(f.payload)
		}
		f.payload = f.payload[:len(f.payload)-n]
	case 8, 9:
		f.payload = append(f.payload, vp.Bytes(1, 3).Draw(t, "longer")...)
	case 11:
		f.declared = int64(len(f.payload)) + int64(rapid.SampledFrom([]int{-2, -1, 1, 2, 9, 16384, 1<<24 - 1}).Draw(t, "lenDelta"))
		if f.declared < 0 {
			f.declared = 0
		}
	}
	return f
}

type c07BlockSpec struct {
	Fields     []c07Field
	Repeat     int // repeat the last field this many more times (indexed representation: tiny on the wire, large decoded)
	Stream     uint32
	CutsPM     []int // cut points (permille of the block) splitting it into HEADERS + CONTINUATION fragments
	EndStream  bool
	Prio       bool
	Pad        int // -1 none, else pad length
	PadOver    bool
	NoEnd      bool // last fragment lacks END_HEADERS
	EarlyEnd   int  // >=0: this fragment carries END_HEADERS although more follow
	BadCont    int  // >=0: this CONTINUATION is on another stream
	Interleave int  // >=0: a foreign frame is inserted before this CONTINUATION
	Foreign    c07Frame
	Flip       int // >=0: one byte of the encoded block (permille position) is XORed with FlipXor
	FlipXor    byte
}

func c07GenBlock(t *rapid.T) c07BlockSpec {
	b := c07BlockSpec{Fields: c07GenFields(t), Pad: -1, EarlyEnd: -1, BadCont: -1, Interleave: -1, Flip: -1}
	switch k := rapid.IntRange(0, 79).Draw(t, "repeatKind"); {
	case k >= 13 && k <= 18:
		b.Repeat = rapid.IntRange(1, 40).Draw(t, "repeat")
	case k == 27:
		b.Repeat = vp.BiasedInt(100, 6000, 4100, 4200, 4400).Draw(t, "repeatMany")
	}
	b.Stream = c07GenStream(t, false)
	b.CutsPM = rapid.SliceOfN(rapid.IntRange(0, 1000), 0, 3).Draw(t, "cuts")
	b.EndStream = rapid.Bool().Draw(t, "endStream")
	b.Prio = rapid.IntRange(0, 3).Draw(t, "prio") == 2
	if rapid.IntRange(0, 3).Draw(t, "padded") == 2 {
		b.Pad = vp.BiasedInt(0, 255, 0, 1, 255).Draw(t, "pad")
		b.PadOver = rapid.IntRange(0, 9).Draw(t, "padOver") == 4
	}
	nfrag := len(b.CutsPM) + 1
	switch rapid.IntRange(0, 29).Draw(t, "blockFault") {
	case 3:
		b.NoEnd = true
	case 5:
		b.EarlyEnd = rapid.IntRange(0, nfrag-1).Draw(t, "earlyEnd")
	case 7, 8:
		b.BadCont = rapid.IntRange(1, nfrag).Draw(t, "badCont")
	case 10, 11:
		b.Interleave = rapid.IntRange(1, nfrag).Draw(t, "interleave")
		b.Foreign = c07GenSimple(t)
	case 13:
		b.Flip = rapid.IntRange(0, 999).Draw(t, "flipAt")
		b.FlipXor = byte(1 << rapid.IntRange(0, 7).Draw(t, "flipBit"))
	}
	return b
}

// c07BlockFrames encodes a block spec with the connection's encoder and frames it.
func c07BlockFrames(b c07BlockSpec, enc *hpack.Encoder, encBuf *bytes.Buffer) (frames []c07Frame, listSize int) {
	encBuf.Reset()
	for i, f := range b.Fields {
		hf := hpack.HeaderField{Name: f.Name, Value: f.Value, Sensitive: f.Sensitive}
		enc.WriteField(hf)
		listSize += len(f.Name) + len(f.Value) + 32
		if i == len(b.Fields)-1 {
			for j := 0; j < b.Repeat && encBuf.Len() < 1<<16; j++ { // fields that are not indexed repeat literally: bound the block
				enc.WriteField(hf)
				listSize += len(f.Name) + len(f.Value) + 32
			}
		}
	}
	block := append([]byte(nil), encBuf.Bytes()...)
	if b.Flip >= 0 && len(block) > 0 {
		block[b.Flip*len(block)/1000] ^= b.FlipXor
	}
	cuts := append([]int(nil), b.CutsPM...)
	sort.Ints(cuts)
	var frags [][]byte
	prev := 0
	for _, pm := range cuts {
		p := pm * len(block) / 1000
		frags = append(frags, block[prev:p])
		prev = p
	}
	frags = append(frags, block[prev:])
	for i, frag := range frags {
		last := i == len(frags)-1
		f := c07Frame{typ: 0x9, stream: b.Stream, payload: frag, declared: -1}
		if (last && !b.NoEnd) || i == b.EarlyEnd {
			f.flags |= 0x4
		}
		if i == 0 {
			f.typ = 0x1
			if b.EndStream {
				f.flags |= 0x1
			}
			var p []byte
			if b.Pad >= 0 {
				f.flags |= 0x8
				p = append(p, byte(b.Pad))
			}
			if b.Prio {
				f.flags |= 0x20
				p = append(p, 0x80, 0, 0, 3, 200)
			}
			p = append(p, frag...)
			if b.Pad >= 0 && !b.PadOver {
				p = append(p, make([]byte, b.Pad)...)
			}
			f.payload = p
		} else {
			if i == b.BadCont {
				f.stream = b.Stream ^ 2
			}
			if i == b.Interleave {
				frames = append(frames, b.Foreign)
			}
		}
		frames = append(frames, f)
	}
	if b.BadCont == len(frags) { // a stray CONTINUATION on another stream after the block
		frames = append(frames, c07Frame{typ: 0x9, flags: 0x4, stream: b.Stream ^ 2, declared: -1})
	}
	if b.Interleave == len(frags) {
		frames = append(frames, b.Foreign)
	}
	return frames, listSize
}

type c07Item struct {
	Kind   int // 0 header block, 1 simple frame
	Block  c07BlockSpec
	Simple c07Frame
}

func c07Gen(t *rapid.T) c07Case {
	c := c07Case{
		Meta:         rapid.IntRange(0, 4).Draw(t, "meta") >= 2,
		Table:        rapid.SampledFrom([]uint32{4096, 4096, 4096, 0, 100}).Draw(t, "table"),
		Reuse:        rapid.Bool().Draw(t, "reuse"),
		AllowIllegal: rapid.IntRange(0, 11).Draw(t, "allowIllegal") == 7,
		LogReads:     rapid.IntRange(0, 4).Draw(t, "logReads") == 3,
		Chunk:        rapid.SampledFrom([]int{0, 0, 0, 1, 3, 7}).Draw(t, "chunk"),
	}
	var listSizes []int
	if rapid.IntRange(0, 11).Draw(t, "rawStream") == 6 {
		c.Stream = vp.Bytes(0, 120).Draw(t, "bytes")
	} else {
		items := rapid.SliceOfN(rapid.Custom(func(t *rapid.T) c07Item {
			if rapid.IntRange(0, 1).Draw(t, "kind") == 0 {
				return c07Item{Kind: 0, Block: c07GenBlock(t)}
			}
			return c07Item{Kind: 1, Simple: c07GenSimple(t)}
		}), 1, 6).Draw(t, "items")
		var encBuf bytes.Buffer
		enc := hpack.NewEncoder(&encBuf)
		if c.Table != 4096 {
			enc.SetMaxDynamicTableSizeLimit(c.Table)
		}
		for _, it := range items {
			if it.Kind == 0 {
				frames, ls := c07BlockFrames(it.Block, enc, &encBuf)
				listSizes = append(listSizes, ls)
				for _, f := range frames {
					c.Stream = f.appendTo(c.Stream)
				}
			} else {
				c.Stream = it.Simple.appendTo(c.Stream)
			}
		}
		switch rapid.IntRange(0, 29).Draw(t, "streamFault") {
		case 4, 5:
			if len(c.Stream) > 0 {
				p := rapid.IntRange(0, len(c.Stream)-1).Draw(t, "flipPos")
				c.Stream[p] ^= byte(1 << rapid.IntRange(0, 7).Draw(t, "flipBit"))
			}
		case 8, 9:
			c.Stream = c.Stream[:rapid.IntRange(0, len(c.Stream)).Draw(t, "truncate")]
		case 12:
			c.Stream = append(c.Stream, vp.Bytes(1, 10).Draw(t, "trailing")...)
		}
	}
	// limits: fixed values, or values right at a frame length / header list size of this stream
	switch k := rapid.IntRange(0, 9).Draw(t, "maxReadKind"); {
	case k <= 4:
	case k <= 6:
		c.SetMax = true
		c.MaxRead = rapid.SampledFrom([]uint32{16384, 1<<24 - 1, 1 << 24, 1<<32 - 1, 100, 64, 17, 16, 9, 8, 5, 4, 1, 0}).Draw(t, "maxRead")
	default:
		c.SetMax = true
		var lens []uint32
		for b := c.Stream; len(b) >= c06HdrLen; {
			h, _ := c06ParseHdr(b)
			lens = append(lens, h.Length)
			if uint64(len(b)) < uint64(c06HdrLen)+uint64(h.Length) {
				break
			}
			b = b[c06HdrLen+int(h.Length):]
		}
		if len(lens) > 0 {
			l := int64(rapid.SampledFrom(lens).Draw(t, "maxReadAtFrame")) + int64(rapid.IntRange(-1, 1).Draw(t, "maxReadDelta"))
			if l < 0 {
				l = 0
			}
			c.MaxRead = uint32(l)
		}
	}
	switch k := rapid.IntRange(0, 9).Draw(t, "hdrListKind"); {
	case k <= 3:
	case k <= 5 || len(listSizes) == 0:
		c.MaxHeaderList = rapid.SampledFrom([]uint32{65536, 1024, 200, 100, 64, 40, 33, 32, 1, 1 << 31, 1<<32 - 1}).Draw(t, "maxHeaderList")
	default:
		l := rapid.SampledFrom(listSizes).Draw(t, "hdrListAtBlock") + rapid.IntRange(-1, 1).Draw(t, "hdrListDelta")
		if l < 0 {
			l = 0
		}
		c.MaxHeaderList = uint32(l)
	}
	return c
}

func TestVP_C07(t *testing.T) {
	vp.Run(t, vp.Spec[c07Case]{ID: "C07", Gen: c07Gen, Prop: c07Prop})
}

// ---------------------------------------------------------------------------------
// native fuzzing: (config bits, raw bytes) with the same oracle

var (
	// The fuzz target always sets a maximum read size of at most 1 MiB: ReadFrame
	// allocates the announced frame length before reading, and with the default
	// (2^24-1) a mutated length field makes every exec allocate 16 MiB, which on a
	// busy machine trips the fuzz engine's 10 s per-input watchdog. The unset /
	// 2^24-1 / 2^32-1 configurations are covered by the rapid generator.
	c07FuzzMaxRead = []uint32{16384, 0, 1, 4, 5, 8, 9, 16, 17, 32, 64, 100, 1000, 16384, 65536, 1 << 20}
	c07FuzzHdrList = []uint32{0, 0, 1, 32, 33, 40, 64, 74, 100, 128, 200, 1024, 4096, 65536, 1 << 31, 1<<32 - 1}
)

func c07FromFuzz(cfg uint16, data []byte) c07Case {
	c := c07Case{
		Meta:         cfg&1 != 0,
		Reuse:        cfg&2 != 0,
		AllowIllegal: cfg&4 != 0 && cfg&0x30 == 0x30, // rare: it switches the ordering rules off
		LogReads:     cfg&8 != 0,
		Chunk:        []int{0, 1, 3, 0}[cfg>>4&3],
		Table:        []uint32{4096, 0, 100, 4096}[cfg>>6&3],
		Stream:       data,
	}
	c.SetMax = true
	c.MaxRead = c07FuzzMaxRead[cfg>>8&15]
	c.MaxHeaderList = c07FuzzHdrList[cfg>>12&15]
	return c
}

func c07SafeProp(c c07Case) (err error) {
	defer func() {
		if p := recover(); p != nil {
			err = fmt.Errorf("panic: %v", p)
		}
	}()
	return c07Prop(c, nil)
}

func FuzzVP_C07(f *testing.F) {
	// small valid streams
	var wire, hb bytes.Buffer
	fr := NewFramer(&wire, nil)
	enc := hpack.NewEncoder(&hb)
	for _, hf := range []hpack.HeaderField{{Name: ":method", Value: "GET"}, {Name: ":path", Value: "/"}, {Name: ":scheme", Value: "https"},
		{Name: ":authority", Value: "example.com"}, {Name: "cookie", Value: "a=b"}, {Name: "x-long", Value: strings.Repeat("x", 60)}} {
		enc.WriteField(hf)
	}
	block := append([]byte(nil), hb.Bytes()...)
	fr.WriteSettings(Setting{SettingInitialWindowSize, 65535}, Setting{SettingMaxFrameSize, 16384})
	fr.WriteHeaders(HeadersFrameParam{StreamID: 1, BlockFragment: block[:5], PadLength: 3, Priority: PriorityParam{StreamDep: 3, Weight: 9, Exclusive: true}})
	fr.WriteContinuation(1, false, block[5:9])
	fr.WriteContinuation(1, true, block[9:])
	fr.WriteDataPadded(1, true, []byte("hello"), []byte{0, 0})
	fr.WriteWindowUpdate(0, 100)
	fr.WritePing(false, [8]byte{1, 2, 3, 4, 5, 6, 7, 8})
	fr.WritePushPromise(PushPromiseParam{StreamID: 1, PromiseID: 2, BlockFragment: []byte{0x82}, EndHeaders: true, PadLength: 1})
	fr.WritePriority(3, PriorityParam{StreamDep: 1, Weight: 5})
	fr.WritePriorityUpdate(3, "u=1, i")
	fr.WriteRSTStream(3, ErrCodeCancel)
	fr.WriteRawFrame(0xfa, 0xff, 7, []byte("ext"))
	fr.WriteGoAway(1, ErrCodeNo, []byte("bye"))
	valid := append([]byte(nil), wire.Bytes()...)
	for _, cfg := range []uint16{0x0000, 0x0001, 0x0003, 0x7001, 0x3001, 0x2001, 0x0d01, 0x0511, 0x0089, 0x1041} {
		f.Add(cfg, valid)
	}
	// header blocks with an illegal shape, one HEADERS frame each
	for _, fields := range [][]hpack.HeaderField{
		{{Name: "a", Value: "b"}, {Name: ":method", Value: "GET"}},
		{{Name: ":method", Value: "GET"}, {Name: ":method", Value: "PUT"}},
		{{Name: ":foo", Value: "x"}},
		{{Name: "Upper", Value: "x"}},
		{{Name: "a", Value: "x\x00y"}},
		{{Name: ":status", Value: "200"}, {Name: ":path", Value: "/"}},
		{{Name: "big", Value: strings.Repeat("v", 100)}, {Name: "big", Value: strings.Repeat("v", 100)}, {Name: "big", Value: strings.Repeat("v", 100)}},
	} {
		hb.Reset()
		wire.Reset()
		e2 := hpack.NewEncoder(&hb)
		for _, hf := range fields {
			e2.WriteField(hf)
		}
		fr.WriteHeaders(HeadersFrameParam{StreamID: 1, BlockFragment: hb.Bytes(), EndHeaders: true})
		f.Add(uint16(0x0001), append([]byte(nil), wire.Bytes()...))
		f.Add(uint16(0x8001), append([]byte(nil), wire.Bytes()...))
	}
	// hostile constants
	f.Add(uint16(0), []byte{})
	f.Add(uint16(1), []byte("HTTP/1.1 400 Bad Request\r\n\r\n"))
	f.Add(uint16(1), []byte("PRI * HTTP/2.0\r\n\r\nSM\r\n\r\n"))
	f.Add(uint16(1), []byte{0, 0, 0, 1, 0, 0, 0, 0, 1, 0, 0, 0, 0, 4, 0, 0, 0, 1, 0, 0, 1, 9, 4, 0, 0, 0, 3, 0x82})
	f.Add(uint16(0), []byte{0xff, 0xff, 0xff, 0, 0, 0, 0, 0, 1})
	f.Add(uint16(0), []byte{0, 0, 1, 0, 8, 0, 0, 0, 1, 5})
	f.Add(uint16(0), []byte{0, 0, 4, 8, 0, 0, 0, 0, 1, 0, 0, 0, 0, 0, 0, 0, 9, 4, 0, 0, 0, 1})
	f.Fuzz(func(t *testing.T, cfg uint16, data []byte) {
		c := c07FromFuzz(cfg, data)
		if err := c07SafeProp(c); err != nil {
			vp.FuzzFail(t, "C07", "", c, err)
		}
	})
}
