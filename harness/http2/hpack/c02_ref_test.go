package hpack

// Shared by the C02, C03 and C04 harnesses (listed in props/C03.json and
// props/C04.json "files"): an independent reference implementation of RFC 7541
// (bit-level Huffman coder over a snapshot of the Appendix B code table, the
// Appendix A static table, integer and string primitives, whole-block decoder with
// the dynamic table of section 4). The structure-aware generator of header blocks
// is in c02_gen_test.go.
//
// Nothing in this file calls into the package under test.

import (
	"fmt"
	"math"
)

// ---------------------------------------------------------------------------
// RFC 7541 Appendix B: Huffman code (code, bit length) for symbols 0..255 and
// EOS (256). Snapshot taken from the RFC table at harness authoring time as
// literal data; it is deliberately NOT read from the package's tables.go, so a
// later change of that table is detected. The snapshot is a canonical Huffman
// code (checked in init: codes are consecutive when sorted by (length, symbol)
// and the Kraft sum is exactly 1), which a mistyped entry would break.
// ---------------------------------------------------------------------------

var c02HuffTab = [257]struct {
	code uint32
	n    uint8
}{
	{0x1ff8, 13}, {0x7fffd8, 23}, {0xfffffe2, 28}, {0xfffffe3, 28}, // 0-3
	{0xfffffe4, 28}, {0xfffffe5, 28}, {0xfffffe6, 28}, {0xfffffe7, 28}, // 4-7
	{0xfffffe8, 28}, {0xffffea, 24}, {0x3ffffffc, 30}, {0xfffffe9, 28}, // 8-11
	{0xfffffea, 28}, {0x3ffffffd, 30}, {0xfffffeb, 28}, {0xfffffec, 28}, // 12-15
	{0xfffffed, 28}, {0xfffffee, 28}, {0xfffffef, 28}, {0xffffff0, 28}, // 16-19
	{0xffffff1, 28}, {0xffffff2, 28}, {0x3ffffffe, 30}, {0xffffff3, 28}, // 20-23
	{0xffffff4, 28}, {0xffffff5, 28}, {0xffffff6, 28}, {0xffffff7, 28}, // 24-27
	{0xffffff8, 28}, {0xffffff9, 28}, {0xffffffa, 28}, {0xffffffb, 28}, // 28-31
	{0x14, 6}, {0x3f8, 10}, {0x3f9, 10}, {0xffa, 12}, // 32-35
	{0x1ff9, 13}, {0x15, 6}, {0xf8, 8}, {0x7fa, 11}, // 36-39
	{0x3fa, 10}, {0x3fb, 10}, {0xf9, 8}, {0x7fb, 11}, // 40-43
	{0xfa, 8}, {0x16, 6}, {0x17, 6}, {0x18, 6}, // 44-47
	{0x0, 5}, {0x1, 5}, {0x2, 5}, {0x19, 6}, // 48-51
	{0x1a, 6}, {0x1b, 6}, {0x1c, 6}, {0x1d, 6}, // 52-55
	{0x1e, 6}, {0x1f, 6}, {0x5c, 7}, {0xfb, 8}, // 56-59
	{0x7ffc, 15}, {0x20, 6}, {0xffb, 12}, {0x3fc, 10}, // 60-63
	{0x1ffa, 13}, {0x21, 6}, {0x5d, 7}, {0x5e, 7}, // 64-67
	{0x5f, 7}, {0x60, 7}, {0x61, 7}, {0x62, 7}, // 68-71
	{0x63, 7}, {0x64, 7}, {0x65, 7}, {0x66, 7}, // 72-75
	{0x67, 7}, {0x68, 7}, {0x69, 7}, {0x6a, 7}, // 76-79
	{0x6b, 7}, {0x6c, 7}, {0x6d, 7}, {0x6e, 7}, // 80-83
	{0x6f, 7}, {0x70, 7}, {0x71, 7}, {0x72, 7}, // 84-87
	{0xfc, 8}, {0x73, 7}, {0xfd, 8}, {0x1ffb, 13}, // 88-91
	{0x7fff0, 19}, {0x1ffc, 13}, {0x3ffc, 14}, {0x22, 6}, // 92-95
	{0x7ffd, 15}, {0x3, 5}, {0x23, 6}, {0x4, 5}, // 96-99
	{0x24, 6}, {0x5, 5}, {0x25, 6}, {0x26, 6}, // 100-103
	{0x27, 6}, {0x6, 5}, {0x74, 7}, {0x75, 7}, // 104-107
	{0x28, 6}, {0x29, 6}, {0x2a, 6}, {0x7, 5}, // 108-111
	{0x2b, 6}, {0x76, 7}, {0x2c, 6}, {0x8, 5}, // 112-115
	{0x9, 5}, {0x2d, 6}, {0x77, 7}, {0x78, 7}, // 116-119
	{0x79, 7}, {0x7a, 7}, {0x7b, 7}, {0x7ffe, 15}, // 120-123
	{0x7fc, 11}, {0x3ffd, 14}, {0x1ffd, 13}, {0xffffffc, 28}, // 124-127
	{0xfffe6, 20}, {0x3fffd2, 22}, {0xfffe7, 20}, {0xfffe8, 20}, // 128-131
	{0x3fffd3, 22}, {0x3fffd4, 22}, {0x3fffd5, 22}, {0x7fffd9, 23}, // 132-135
	{0x3fffd6, 22}, {0x7fffda, 23}, {0x7fffdb, 23}, {0x7fffdc, 23}, // 136-139
	{0x7fffdd, 23}, {0x7fffde, 23}, {0xffffeb, 24}, {0x7fffdf, 23}, // 140-143
	{0xffffec, 24}, {0xffffed, 24}, {0x3fffd7, 22}, {0x7fffe0, 23}, // 144-147
	{0xffffee, 24}, {0x7fffe1, 23}, {0x7fffe2, 23}, {0x7fffe3, 23}, // 148-151
	{0x7fffe4, 23}, {0x1fffdc, 21}, {0x3fffd8, 22}, {0x7fffe5, 23}, // 152-155
	{0x3fffd9, 22}, {0x7fffe6, 23}, {0x7fffe7, 23}, {0xffffef, 24}, // 156-159
	{0x3fffda, 22}, {0x1fffdd, 21}, {0xfffe9, 20}, {0x3fffdb, 22}, // 160-163
	{0x3fffdc, 22}, {0x7fffe8, 23}, {0x7fffe9, 23}, {0x1fffde, 21}, // 164-167
	{0x7fffea, 23}, {0x3fffdd, 22}, {0x3fffde, 22}, {0xfffff0, 24}, // 168-171
	{0x1fffdf, 21}, {0x3fffdf, 22}, {0x7fffeb, 23}, {0x7fffec, 23}, // 172-175
	{0x1fffe0, 21}, {0x1fffe1, 21}, {0x3fffe0, 22}, {0x1fffe2, 21}, // 176-179
	{0x7fffed, 23}, {0x3fffe1, 22}, {0x7fffee, 23}, {0x7fffef, 23}, // 180-183
	{0xfffea, 20}, {0x3fffe2, 22}, {0x3fffe3, 22}, {0x3fffe4, 22}, // 184-187
	{0x7ffff0, 23}, {0x3fffe5, 22}, {0x3fffe6, 22}, {0x7ffff1, 23}, // 188-191
	{0x3ffffe0, 26}, {0x3ffffe1, 26}, {0xfffeb, 20}, {0x7fff1, 19}, // 192-195
	{0x3fffe7, 22}, {0x7ffff2, 23}, {0x3fffe8, 22}, {0x1ffffec, 25}, // 196-199
	{0x3ffffe2, 26}, {0x3ffffe3, 26}, {0x3ffffe4, 26}, {0x7ffffde, 27}, // 200-203
	{0x7ffffdf, 27}, {0x3ffffe5, 26}, {0xfffff1, 24}, {0x1ffffed, 25}, // 204-207
	{0x7fff2, 19}, {0x1fffe3, 21}, {0x3ffffe6, 26}, {0x7ffffe0, 27}, // 208-211
	{0x7ffffe1, 27}, {0x3ffffe7, 26}, {0x7ffffe2, 27}, {0xfffff2, 24}, // 212-215
	{0x1fffe4, 21}, {0x1fffe5, 21}, {0x3ffffe8, 26}, {0x3ffffe9, 26}, // 216-219
	{0xffffffd, 28}, {0x7ffffe3, 27}, {0x7ffffe4, 27}, {0x7ffffe5, 27}, // 220-223
	{0xfffec, 20}, {0xfffff3, 24}, {0xfffed, 20}, {0x1fffe6, 21}, // 224-227
	{0x3fffe9, 22}, {0x1fffe7, 21}, {0x1fffe8, 21}, {0x7ffff3, 23}, // 228-231
	{0x3fffea, 22}, {0x3fffeb, 22}, {0x1ffffee, 25}, {0x1ffffef, 25}, // 232-235
	{0xfffff4, 24}, {0xfffff5, 24}, {0x3ffffea, 26}, {0x7ffff4, 23}, // 236-239
	{0x3ffffeb, 26}, {0x7ffffe6, 27}, {0x3ffffec, 26}, {0x3ffffed, 26}, // 240-243
	{0x7ffffe7, 27}, {0x7ffffe8, 27}, {0x7ffffe9, 27}, {0x7ffffea, 27}, // 244-247
	{0x7ffffeb, 27}, {0xffffffe, 28}, {0x7ffffec, 27}, {0x7ffffed, 27}, // 248-251
	{0x7ffffee, 27}, {0x7ffffef, 27}, {0x7fffff0, 27}, {0x3ffffee, 26}, // 252-255
	{0x3fffffff, 30}, // EOS
}

// c02HuffTrie is a binary trie over the code table: node i has children
// c02HuffTrie[i][0], c02HuffTrie[i][1]; a value < 0 is a leaf for symbol -(v+1).
var c02HuffTrie [][2]int32

func init() {
	// sanity of the snapshot: canonical code + complete prefix code
	type ent struct {
		sym  int
		code uint32
		n    uint8
	}
	es := make([]ent, 0, 257)
	for s, e := range c02HuffTab {
		es = append(es, ent{s, e.code, e.n})
	}
	for i := 1; i < len(es); i++ { // insertion sort by (n, sym)
		for j := i; j > 0 && (es[j-1].n > es[j].n || es[j-1].n == es[j].n && es[j-1].sym > es[j].sym); j-- {
			es[j-1], es[j] = es[j], es[j-1]
		}
	}
	var code uint32
	var kraft uint64
	for k, x := range es {
		if k > 0 {
			code = (code + 1) << (x.n - es[k-1].n)
		}
		if code != x.code {
			panic(fmt.Sprintf("c02: Huffman snapshot is not canonical at symbol %d", x.sym))
		}
		kraft += 1 << (30 - x.n)
	}
	if kraft != 1<<30 || es[len(es)-1].sym != 256 || es[len(es)-1].code != 0x3fffffff {
		panic("c02: Huffman snapshot is not a complete prefix code ending in EOS")
	}
	// trie
	c02HuffTrie = append(c02HuffTrie, [2]int32{})
	for s, e := range c02HuffTab {
		cur := int32(0)
		for i := int(e.n) - 1; i >= 0; i-- {
			bit := e.code >> uint(i) & 1
			if i == 0 {
				if c02HuffTrie[cur][bit] != 0 {
					panic("c02: Huffman snapshot has a duplicate code")
				}
				c02HuffTrie[cur][bit] = -int32(s + 1)
				break
			}
			nx := c02HuffTrie[cur][bit]
			if nx < 0 {
				panic("c02: Huffman snapshot is not prefix-free")
			}
			if nx == 0 {
				c02HuffTrie = append(c02HuffTrie, [2]int32{})
				nx = int32(len(c02HuffTrie) - 1)
				c02HuffTrie[cur][bit] = nx
			}
			cur = nx
		}
	}
}

// c02HuffEncode is the canonical encoding of RFC 7541 section 5.2: the codes of
// the symbols, most significant bit first, padded to the next octet boundary
// with the most significant bits of EOS (all ones).
func c02HuffEncode(s []byte) []byte {
	out := []byte{}
	var cur byte
	fill := 0
	put := func(bit byte) {
		cur = cur<<1 | bit
		fill++
		if fill == 8 {
			out = append(out, cur)
			cur, fill = 0, 0
		}
	}
	for _, c := range s {
		e := c02HuffTab[c]
		for i := int(e.n) - 1; i >= 0; i-- {
			put(byte(e.code >> uint(i) & 1))
		}
	}
	for fill != 0 {
		put(1)
	}
	return out
}

// c02HuffBits is the exact number of code bits of s (without padding).
func c02HuffBits(s []byte) int {
	n := 0
	for _, c := range s {
		n += int(c02HuffTab[c].n)
	}
	return n
}

// c02HuffDecode decodes bit by bit. It accepts exactly: a sequence of symbol
// codes (no EOS) followed by fewer than 8 one-bits. why != "" means rejected.
func c02HuffDecode(v []byte) (out []byte, why string) {
	out = []byte{}
	cur := int32(0)
	pend := 0       // bits consumed since the last complete symbol
	allOnes := true // those bits are all ones
	for _, b := range v {
		for i := 7; i >= 0; i-- {
			bit := b >> uint(i) & 1
			if bit == 0 {
				allOnes = false
			}
			pend++
			nx := c02HuffTrie[cur][bit]
			if nx == 0 {
				return nil, "bit string matches no code"
			}
			if nx < 0 {
				sym := int(-nx) - 1
				if sym == 256 {
					return nil, "EOS symbol inside the string"
				}
				out = append(out, byte(sym))
				cur, pend, allOnes = 0, 0, true
			} else {
				cur = nx
			}
		}
	}
	if pend > 7 {
		return nil, "incomplete symbol / more than 7 bits of padding"
	}
	if !allOnes {
		return nil, "padding is not the most significant bits of EOS"
	}
	return out, ""
}

// ---------------------------------------------------------------------------
// RFC 7541 Appendix A: static table (index 1..61).
// ---------------------------------------------------------------------------

var c02Static = [61][2]string{
	{":authority", ""}, {":method", "GET"}, {":method", "POST"}, {":path", "/"}, {":path", "/index.html"},
	{":scheme", "http"}, {":scheme", "https"}, {":status", "200"}, {":status", "204"}, {":status", "206"},
	{":status", "304"}, {":status", "400"}, {":status", "404"}, {":status", "500"}, {"accept-charset", ""},
	{"accept-encoding", "gzip, deflate"}, {"accept-language", ""}, {"accept-ranges", ""}, {"accept", ""},
	{"access-control-allow-origin", ""}, {"age", ""}, {"allow", ""}, {"authorization", ""}, {"cache-control", ""},
	{"content-disposition", ""}, {"content-encoding", ""}, {"content-language", ""}, {"content-length", ""},
	{"content-location", ""}, {"content-range", ""}, {"content-type", ""}, {"cookie", ""}, {"date", ""}, {"etag", ""},
	{"expect", ""}, {"expires", ""}, {"from", ""}, {"host", ""}, {"if-match", ""}, {"if-modified-since", ""},
	{"if-none-match", ""}, {"if-range", ""}, {"if-unmodified-since", ""}, {"last-modified", ""}, {"link", ""},
	{"location", ""}, {"max-forwards", ""}, {"proxy-authenticate", ""}, {"proxy-authorization", ""}, {"range", ""},
	{"referer", ""}, {"refresh", ""}, {"retry-after", ""}, {"server", ""}, {"set-cookie", ""},
	{"strict-transport-security", ""}, {"transfer-encoding", ""}, {"user-agent", ""}, {"vary", ""}, {"via", ""},
	{"www-authenticate", ""},
}

// ---------------------------------------------------------------------------
// Primitive types (RFC 7541 section 5) and the structure of one representation
// (section 6). c02ScanOne is purely structural: it needs no table.
// ---------------------------------------------------------------------------

// c02ReadVarint reads a section 5.1 integer with an N-bit prefix from p.
// sat: the value does not fit in 64 bits (treated as "larger than anything").
// cont: number of continuation octets. padded: the encoding is not the shortest.
func c02ReadVarint(n uint, p []byte) (v uint64, sat bool, used, cont int, padded, complete bool) {
	if len(p) == 0 {
		return 0, false, 0, 0, false, false
	}
	max := uint64(1)<<n - 1
	v = uint64(p[0]) & max
	if v < max {
		return v, false, 1, 0, false, true
	}
	for k := 0; ; k++ {
		if 1+k >= len(p) {
			return 0, false, 0, 0, false, false
		}
		b := p[1+k]
		g := uint64(b & 127)
		if g != 0 {
			if 7*k >= 64 || g<<uint(7*k)>>uint(7*k) != g {
				sat = true
			} else {
				add := g << uint(7*k)
				if v+add < v {
					sat = true
				}
				v += add
			}
		}
		if b&128 == 0 {
			cont = k + 1
			if sat {
				v = math.MaxUint64
			}
			return v, sat, 1 + cont, cont, cont >= 2 && b == 0, true
		}
	}
}

const (
	c02Indexed = iota
	c02LitIncr
	c02LitNo
	c02LitNever
	c02Update
)

var c02KindName = [...]string{"indexed", "literal-incremental", "literal-without-indexing", "literal-never-indexed", "size-update"}

type c02Part struct {
	What       string // "prefix-int", "strlen", "raw", "huff"
	Start, End int
}

type c02Str struct {
	Huff bool
	B    []byte // the encoded octets
}

type c02Span struct {
	Start, End int // End = end of the available bytes when !Complete
	Kind       int
	Complete   bool
	Int        uint64 // prefix integer (index / name index / new size)
	IntSat     bool
	Long       bool // some integer uses >= 10 continuation octets
	Padded     bool // some integer is not minimally encoded
	LitName    bool
	Name, Val  c02Str
	Parts      []c02Part
}

func c02ScanOne(b []byte, off int) c02Span {
	sp := c02Span{Start: off, End: len(b)}
	first := b[off]
	var n uint
	switch {
	case first&0x80 != 0:
		sp.Kind, n = c02Indexed, 7
	case first&0xc0 == 0x40:
		sp.Kind, n = c02LitIncr, 6
	case first&0xf0 == 0x00:
		sp.Kind, n = c02LitNo, 4
	case first&0xf0 == 0x10:
		sp.Kind, n = c02LitNever, 4
	default: // 001xxxxx
		sp.Kind, n = c02Update, 5
	}
	v, sat, used, cont, padded, ok := c02ReadVarint(n, b[off:])
	if !ok {
		sp.Parts = append(sp.Parts, c02Part{"prefix-int", off, len(b)})
		return sp
	}
	sp.Int, sp.IntSat = v, sat
	sp.Long = cont >= 10
	sp.Padded = padded
	sp.Parts = append(sp.Parts, c02Part{"prefix-int", off, off + used})
	o := off + used
	if sp.Kind == c02Indexed || sp.Kind == c02Update {
		sp.Complete, sp.End = true, o
		return sp
	}
	str := func() (c02Str, bool) {
		var s c02Str
		if o >= len(b) {
			return s, false
		}
		s.Huff = b[o]&0x80 != 0
		l, lsat, used, cont, padded, ok := c02ReadVarint(7, b[o:])
		if !ok {
			sp.Parts = append(sp.Parts, c02Part{"strlen", o, len(b)})
			return s, false
		}
		if cont >= 10 {
			sp.Long = true
		}
		if padded {
			sp.Padded = true
		}
		sp.Parts = append(sp.Parts, c02Part{"strlen", o, o + used})
		o += used
		what := "raw"
		if s.Huff {
			what = "huff"
		}
		if lsat || l > uint64(len(b)-o) {
			sp.Parts = append(sp.Parts, c02Part{what, o, len(b)})
			return s, false
		}
		s.B = b[o : o+int(l)]
		sp.Parts = append(sp.Parts, c02Part{what, o, o + int(l)})
		o += int(l)
		return s, true
	}
	if v == 0 && !sat {
		sp.LitName = true
		if sp.Name, ok = str(); !ok {
			return sp
		}
	}
	if sp.Val, ok = str(); !ok {
		return sp
	}
	sp.Complete, sp.End = true, o
	return sp
}

// c02Scan splits a block into representations (the last may be incomplete).
func c02Scan(b []byte) []c02Span {
	var out []c02Span
	for off := 0; off < len(b); {
		sp := c02ScanOne(b, off)
		out = append(out, sp)
		if !sp.Complete {
			break
		}
		off = sp.End
	}
	return out
}

// ---------------------------------------------------------------------------
// Reference decoder (whole block) with the section 4 dynamic table.
// ---------------------------------------------------------------------------

type c02Field struct {
	Name, Value string
	Sensitive   bool
}

func (f c02Field) size() uint64 { return uint64(len(f.Name)) + uint64(len(f.Value)) + 32 }

type c02Ref struct {
	dyn       []c02Field // dyn[0] is the newest entry (index 62)
	size      uint64
	maxSize   uint64
	allowed   uint64 // protocol limit for size updates (SETTINGS_HEADER_TABLE_SIZE)
	evictions int
}

func c02NewRef(max uint32) *c02Ref { return &c02Ref{maxSize: uint64(max), allowed: uint64(max)} }

func (r *c02Ref) clone() *c02Ref {
	c := *r
	c.dyn = append([]c02Field(nil), r.dyn...)
	return &c
}

func (r *c02Ref) evictTo(limit uint64) {
	for r.size > limit && len(r.dyn) > 0 {
		last := r.dyn[len(r.dyn)-1]
		r.dyn = r.dyn[:len(r.dyn)-1]
		r.size -= last.size()
		r.evictions++
	}
}

// add: section 4.4 — evict until the new entry fits; an entry larger than the
// maximum empties the table and is not inserted.
func (r *c02Ref) add(f c02Field) {
	f.Sensitive = false
	sz := f.size()
	if sz > r.maxSize {
		r.evictTo(0)
		return
	}
	r.evictTo(r.maxSize - sz)
	r.dyn = append([]c02Field{f}, r.dyn...)
	r.size += sz
}

func (r *c02Ref) setMax(v uint64) {
	r.maxSize = v
	r.evictTo(v)
}

func (r *c02Ref) at(i uint64, sat bool) (c02Field, bool) {
	if sat || i == 0 {
		return c02Field{}, false
	}
	if i <= 61 {
		return c02Field{Name: c02Static[i-1][0], Value: c02Static[i-1][1]}, true
	}
	if i-62 >= uint64(len(r.dyn)) {
		return c02Field{}, false
	}
	return r.dyn[i-62], true
}

type c02Result struct {
	Fields    []c02Field
	Err       string   // "" = the block is valid per RFC 7541
	ErrKind   string   // truncated | index | huffman | update
	Truncated bool     // only defect: the last representation is incomplete
	Consumed  int      // bytes of representations processed successfully
	May       []string // documented implementation restrictions the block runs into
	Spans     []c02Span
	Huffman   int // Huffman strings decoded
	DynRefs   int // references to dynamic table entries
	Updates   int
}

func (res *c02Result) may(s string) {
	for _, m := range res.May {
		if m == s {
			return
		}
	}
	res.May = append(res.May, s)
}

// decodeBlock decodes one complete header block, updating r up to the point of
// the first error. maxStr (0 = unlimited) is only used to note "may" conditions.
func (r *c02Ref) decodeBlock(b []byte, maxStr int) c02Result {
	var res c02Result
	fail := func(kind, msg string, sp c02Span) c02Result {
		res.ErrKind = kind
		res.Err = fmt.Sprintf("%s (%s at offset %d)", msg, c02KindName[sp.Kind], sp.Start)
		return res
	}
	tooLong := func(n int) bool { return maxStr != 0 && n > maxStr }
	seenField := false // a header field representation precedes (RFC 7541 4.2: updates come first)
	for off := 0; off < len(b); {
		sp := c02ScanOne(b, off)
		res.Spans = append(res.Spans, sp)
		if !sp.Complete {
			res.Truncated = true
			return fail("truncated", "block ends inside a representation", sp)
		}
		if sp.Long {
			res.may("integer with more than 9 continuation octets")
		}
		switch sp.Kind {
		case c02Indexed:
			f, ok := r.at(sp.Int, sp.IntSat)
			if !ok {
				return fail("index", fmt.Sprintf("index %d not in the table (61 static + %d dynamic)", sp.Int, len(r.dyn)), sp)
			}
			if sp.Int > 61 {
				res.DynRefs++
			}
			if tooLong(len(f.Name)) || tooLong(len(f.Value)) {
				res.may("string longer than the configured maximum")
			}
			res.Fields = append(res.Fields, c02Field{Name: f.Name, Value: f.Value})
		case c02Update:
			if seenField {
				res.may("size update after a header field representation")
			}
			if sp.IntSat || sp.Int > r.allowed {
				return fail("update", fmt.Sprintf("table size update %d above the allowed maximum %d", sp.Int, r.allowed), sp)
			}
			r.setMax(sp.Int)
			res.Updates++
		default:
			var f c02Field
			dec := func(s c02Str) (string, string) {
				if tooLong(len(s.B)) {
					res.may("string longer than the configured maximum")
				}
				if !s.Huff {
					return string(s.B), ""
				}
				out, why := c02HuffDecode(s.B)
				if why != "" {
					return "", why
				}
				res.Huffman++
				return string(out), ""
			}
			var why string
			if sp.LitName {
				if f.Name, why = dec(sp.Name); why != "" {
					return fail("huffman", "name: "+why, sp)
				}
			} else {
				nf, ok := r.at(sp.Int, sp.IntSat)
				if !ok {
					return fail("index", fmt.Sprintf("name index %d not in the table (61 static + %d dynamic)", sp.Int, len(r.dyn)), sp)
				}
				if sp.Int > 61 {
					res.DynRefs++
				}
				f.Name = nf.Name
			}
			if f.Value, why = dec(sp.Val); why != "" {
				return fail("huffman", "value: "+why, sp)
			}
			if tooLong(len(f.Name)) || tooLong(len(f.Value)) {
				res.may("string longer than the configured maximum")
			}
			f.Sensitive = sp.Kind == c02LitNever
			if sp.Kind == c02LitIncr {
				r.add(f)
			}
			res.Fields = append(res.Fields, f)
		}
		if sp.Kind != c02Update {
			seenField = true
		}
		off = sp.End
		res.Consumed = off
	}
	return res
}
