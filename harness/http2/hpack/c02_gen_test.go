package hpack

// Structure-aware generator of HPACK header blocks, shared by C02 and C03 (listed
// in props/C03.json "files"). It serialises representations itself (never through
// the package's Encoder) so that it can produce what the Encoder never does:
// non-minimal integers, Huffman strings with broken padding, indices just past
// the table, size updates anywhere, and then mutates the octets.

import (
	"math"
	"sort"

	"pgregory.net/rapid"
)

// c02AppendVarint encodes v with an n-bit prefix (RFC 7541 section 5.1); first
// holds the pattern bits above the prefix. When v >= 2^n-1 the continuation is
// zero-padded to at least cont octets (a valid but non-minimal encoding).
// cont == c02ContWrap adds 2^70 to the value (an 11th continuation octet of 1):
// a decoder that lets its shift wrap around sees v, the true value is huge.
func c02AppendVarint(dst []byte, n uint, first byte, v uint64, cont int) []byte {
	max := uint64(1)<<n - 1
	if cont == c02ContWrap {
		if v < max {
			v = max
		}
		dst = append(dst, first|byte(max))
		v -= max
		for k := 0; k < 10; k++ {
			dst = append(dst, 0x80|byte(v&127))
			v >>= 7
		}
		return append(dst, 0x01)
	}
	if v < max {
		return append(dst, first|byte(v))
	}
	dst = append(dst, first|byte(max))
	v -= max
	for k := 1; ; k++ {
		if v < 128 && k >= cont {
			return append(dst, byte(v))
		}
		dst = append(dst, 0x80|byte(v&127))
		v >>= 7
	}
}

type c02Builder struct {
	b     []byte
	marks []int // offsets inside representations (inside integers, strings, ...)
	hot   []int // offsets within the last octets of a representation
}

func (w *c02Builder) varint(n uint, first byte, v uint64, cont int) {
	s := len(w.b)
	w.b = c02AppendVarint(w.b, n, first, v, cont)
	if e := len(w.b); e-s > 1 {
		w.marks = append(w.marks, s+1, (s+e)/2, e-1)
	}
}

// str writes a string literal. mut != 0 damages a Huffman encoding.
func (w *c02Builder) str(raw []byte, huff bool, cont, mut, arg int) {
	data, first := raw, byte(0)
	if huff {
		first = 0x80
		data = c02HuffEncode(raw)
		pad := (8 - c02HuffBits(raw)%8) % 8
		switch mut {
		case 1: // padding of zeros
			if pad > 0 {
				data[len(data)-1] &^= byte(1)<<uint(pad) - 1
			}
		case 2: // a whole octet of padding
			data = append(data, 0xff)
		case 3: // last octet missing
			if len(data) > 0 {
				data = data[:len(data)-1]
			}
		case 4: // one bit flipped somewhere
			if len(data) > 0 {
				bit := arg % (8 * len(data))
				data[bit/8] ^= 0x80 >> uint(bit%8)
			}
		case 5: // EOS spliced in
			data = append(data, 0xff, 0xff, 0xff, 0xff)
		case 6: // one padding bit cleared
			if pad > 0 {
				data[len(data)-1] &^= byte(1) << uint(arg%pad)
			}
		}
	}
	w.varint(7, first, uint64(len(data)), cont)
	s := len(w.b)
	w.marks = append(w.marks, s)
	w.b = append(w.b, data...)
	if len(data) > 1 {
		w.marks = append(w.marks, s+1, s+len(data)/2, s+len(data)-1)
	}
}

func (w *c02Builder) endRepr(start int) {
	e := len(w.b)
	for k := 1; k <= 5 && e-k > start; k++ {
		w.hot = append(w.hot, e-k)
	}
}

// (rapid favours the first two and the last element of a SampledFrom list)
var c02ContChoices = []int{0, 9, 0, 0, 1, 2, 3, 8, 0, 10, 12, c02ContWrap, 0, 9}

const c02ContWrap = 99

var c02Alphabets = [][]byte{
	[]byte("0123456789abcdefghijklmnopqrstuvwxyz-:/ ."),
	nil,              // any octet
	nil,              // octets with long codes, filled in init
	[]byte("&*,;XZ"), // 8-bit codes: Huffman length == raw length
}

func init() {
	for c := 0; c < 256; c++ {
		if c02HuffTab[c].n >= 19 {
			c02Alphabets[2] = append(c02Alphabets[2], byte(c))
		}
	}
}

func c02GenStr(t *rapid.T, maxStr int, label string) []byte {
	var n int
	switch rapid.IntRange(0, 9).Draw(t, label+"LenMode") {
	case 0, 1, 2, 3:
		n = rapid.IntRange(0, 8).Draw(t, label+"Len")
	case 4, 5:
		base := 127
		if maxStr > 0 && maxStr <= 4200 {
			base = maxStr
		}
		n = base + rapid.IntRange(-3, 2).Draw(t, label+"LenDelta")
		if n < 0 {
			n = 0
		}
	case 6:
		n = rapid.IntRange(126, 130).Draw(t, label+"Len")
	case 7:
		n = rapid.IntRange(9, 60).Draw(t, label+"Len")
	case 8:
		n = rapid.IntRange(61, 300).Draw(t, label+"Len")
	default:
		n = rapid.SampledFrom([]int{0, 14, 15, 16, 17, 255, 256, 1000}).Draw(t, label+"Len")
	}
	return c02GenBytes(t, n, label)
}

func c02GenBytes(t *rapid.T, n int, label string) []byte {
	var elem *rapid.Generator[byte]
	if al := c02Alphabets[rapid.IntRange(0, 3).Draw(t, label+"Alphabet")]; al != nil {
		elem = rapid.SampledFrom(al)
	} else {
		elem = rapid.Byte()
	}
	if n <= 24 {
		return rapid.SliceOfN(elem, n, n).Draw(t, label)
	}
	seed := rapid.SliceOfN(elem, 1, 5).Draw(t, label+"Seed")
	out := make([]byte, n)
	for i := range out {
		out[i] = seed[i%len(seed)]
	}
	return out
}

func c02GenIndex(t *rapid.T, st *c02Ref) uint64 {
	nd := uint64(len(st.dyn))
	static := func() uint64 { return uint64(rapid.IntRange(1, 61).Draw(t, "staticIdx")) }
	switch rapid.IntRange(0, 15).Draw(t, "idxMode") {
	case 0, 1, 2, 3, 11, 12:
		if nd == 0 {
			return static()
		}
		return 62 + uint64(rapid.IntRange(0, int(nd)-1).Draw(t, "dynIdx"))
	case 7:
		return 61 + nd // oldest entry (or the last static one)
	case 8:
		if nd == 0 {
			return static()
		}
		return 62 // newest entry
	case 9:
		return 62 + nd // one past the table
	case 10:
		if rapid.Bool().Draw(t, "hugeIdx") {
			return rapid.SampledFrom([]uint64{1 << 20, 1 << 32, 1<<62 + 5, math.MaxUint64 >> 1}).Draw(t, "hugeIdxVal")
		}
		return 62 + nd + uint64(rapid.IntRange(1, 200).Draw(t, "pastIdx"))
	default:
		return static()
	}
}

// c02GenItem appends one representation to w and applies it to the generator's
// model table st (so later items can refer to what exists).
func c02GenItem(t *rapid.T, w *c02Builder, st *c02Ref, maxStr int) {
	start := len(w.b)
	kind := rapid.SampledFrom([]int{c02LitIncr, c02Indexed, c02LitIncr, c02LitNo, c02Indexed, c02LitNever, c02Update, 5,
		c02LitIncr, c02Indexed, c02LitNo, 6, c02Update, c02LitNever}).Draw(t, "kind")
	if kind == 5 && (maxStr < 127 || maxStr > 4200) {
		kind = c02LitNo
	}
	if kind == 6 && st.maxSize < 3000 {
		kind = c02LitIncr
	}
	switch kind {
	case c02Indexed:
		idx := c02GenIndex(t, st)
		if rapid.IntRange(0, 19).Draw(t, "zeroIdx") == 10 {
			idx = 0
		}
		w.varint(7, 0x80, idx, rapid.SampledFrom(c02ContChoices).Draw(t, "cont"))
	case c02Update:
		var v uint64
		switch rapid.IntRange(0, 11).Draw(t, "sizeMode") {
		case 0:
			v = 0
		case 1:
			v = st.maxSize
		case 2:
			v = st.allowed
		case 7:
			v = st.allowed + 1
		case 8:
			v = rapid.SampledFrom([]uint64{1 << 32, 1<<32 - 1, 1 << 63}).Draw(t, "sizeHuge")
		case 3, 4, 9:
			v = rapid.SampledFrom([]uint64{30, 31, 32, 33, 64, 100, 4096}).Draw(t, "sizeVal")
		default:
			v = rapid.Uint64Range(0, st.allowed).Draw(t, "sizeVal")
		}
		w.varint(5, 0x20, v, rapid.SampledFrom(c02ContChoices).Draw(t, "cont"))
	case c02LitIncr, c02LitNo, c02LitNever:
		pat, n := byte(0x40), uint(6)
		if kind == c02LitNo {
			pat, n = 0x00, 4
		} else if kind == c02LitNever {
			pat, n = 0x10, 4
		}
		huffMut := func(label string) (int, int) {
			if rapid.IntRange(0, 7).Draw(t, label+"HuffMutate") != 5 {
				return 0, 0
			}
			return rapid.IntRange(1, 6).Draw(t, label+"HuffMut"), rapid.IntRange(0, 1<<16).Draw(t, label+"HuffMutArg")
		}
		if rapid.IntRange(0, 2).Draw(t, "litName") == 0 {
			w.varint(n, pat, 0, 0)
			name := c02GenStr(t, maxStr, "name")
			huff := rapid.Bool().Draw(t, "nameHuff")
			mut, arg := 0, 0
			if huff {
				mut, arg = huffMut("name")
			}
			w.str(name, huff, rapid.SampledFrom(c02ContChoices).Draw(t, "nameCont"), mut, arg)
		} else {
			w.varint(n, pat, c02GenIndex(t, st), rapid.SampledFrom(c02ContChoices).Draw(t, "cont"))
		}
		val := c02GenStr(t, maxStr, "val")
		huff := rapid.Bool().Draw(t, "valHuff")
		mut, arg := 0, 0
		if huff {
			mut, arg = huffMut("val")
		}
		w.str(val, huff, rapid.SampledFrom(c02ContChoices).Draw(t, "valCont"), mut, arg)
	case 5:
		// a literal whose two strings are as long as the limit allows and whose
		// length integers are padded: the longest valid representation there is
		pat := rapid.SampledFrom([]byte{0x40, 0x00, 0x10}).Draw(t, "tightPat")
		w.varint(4, pat, 0, 0)
		ln := maxStr - rapid.IntRange(0, 2).Draw(t, "tightNameSlack")
		lv := maxStr - rapid.IntRange(0, 2).Draw(t, "tightValSlack")
		w.str(c02GenBytes(t, ln, "tightName"), false, rapid.IntRange(6, 9).Draw(t, "tightNameCont"), 0, 0)
		w.str(c02GenBytes(t, lv, "tightVal"), false, rapid.IntRange(6, 9).Draw(t, "tightValCont"), 0, 0)
	case 6:
		// many tiny entries, so that indices >= 127 (multi-octet 7-bit prefix) exist
		k := rapid.IntRange(60, 90).Draw(t, "bulk")
		for i := 0; i < k; i++ {
			w.b = append(w.b, 0x41, 0x00) // :authority: "" with incremental indexing
		}
	}
	w.endRepr(start)
	st.decodeBlock(w.b[start:], 0)
}

// c02GenBlock draws a header block of up to maxItems representations and, in
// about a third of the cases, mutates its octets.
func c02GenBlock(t *rapid.T, st *c02Ref, maxStr, maxItems int) (data []byte, marks, hot []int, mutated bool) {
	w := &c02Builder{}
	n := rapid.IntRange(0, maxItems).Draw(t, "nItems")
	for i := 0; i < n; i++ {
		c02GenItem(t, w, st, maxStr)
	}
	data = w.b
	if data == nil {
		data = []byte{}
	}
	if len(data) > 0 && rapid.IntRange(0, 9).Draw(t, "mutate")/3 == 1 { // 3,4,5: about 1 in 5
		mutated = true
		pos := rapid.IntRange(0, len(data)-1).Draw(t, "mutPos")
		if len(w.marks) > 0 && rapid.Bool().Draw(t, "mutAtMark") {
			pos = rapid.SampledFrom(w.marks).Draw(t, "mutMark")
			if pos >= len(data) {
				pos = len(data) - 1
			}
		}
		switch rapid.IntRange(0, 5).Draw(t, "mutKind") {
		case 0, 1: // truncate
			if rapid.Bool().Draw(t, "truncTail") {
				k := rapid.IntRange(1, 6).Draw(t, "truncN")
				if k > len(data) {
					k = len(data)
				}
				data = data[:len(data)-k]
			} else {
				data = data[:pos]
			}
		case 2: // flip a bit
			data[pos] ^= 1 << uint(rapid.IntRange(0, 7).Draw(t, "mutBit"))
		case 3: // overwrite
			data[pos] = rapid.Byte().Draw(t, "mutByte")
		case 4: // insert
			b := rapid.Byte().Draw(t, "mutByte")
			data = append(data[:pos:pos], append([]byte{b}, data[pos:]...)...)
		default: // delete
			data = append(data[:pos:pos], data[pos+1:]...)
		}
	}
	return data, w.marks, w.hot, mutated
}

// c02GenChunks draws a partition of n octets into 1..maxParts chunk sizes whose
// cut points prefer the given offsets (inside integers / strings / last octets
// of a representation). Equal cut points give empty chunks.
func c02GenChunks(t *rapid.T, n int, marks, hot []int, maxParts int) []int {
	k := rapid.IntRange(1, maxParts).Draw(t, "parts")
	cuts := make([]int, 0, k)
	for i := 0; i < k-1; i++ {
		var p int
		switch mode := rapid.IntRange(0, 7).Draw(t, "cutMode"); {
		case mode <= 3 && len(marks) > 0:
			p = rapid.SampledFrom(marks).Draw(t, "cutMark") + rapid.SampledFrom([]int{0, 0, 0, -1, 1, 2}).Draw(t, "cutDelta")
		case mode <= 5 && len(hot) > 0:
			p = rapid.SampledFrom(hot).Draw(t, "cutHot")
		case mode == 6:
			p = n - rapid.IntRange(0, 5).Draw(t, "cutFromEnd")
		default:
			p = rapid.IntRange(0, n).Draw(t, "cut")
		}
		if p < 0 {
			p = 0
		}
		if p > n {
			p = n
		}
		cuts = append(cuts, p)
	}
	sort.Ints(cuts)
	sizes := make([]int, 0, k)
	prev := 0
	for _, p := range cuts {
		sizes = append(sizes, p-prev)
		prev = p
	}
	return append(sizes, n-prev)
}

// c02HotByte draws octets with extra weight on representation patterns and
// prefix-saturating values, for the raw-bytes generator.
var c02HotBytes = []byte{0x00, 0x0f, 0x10, 0x1f, 0x20, 0x3f, 0x40, 0x41, 0x7f, 0x80, 0x81, 0xbe, 0xbf, 0xc0, 0xfe, 0xff}

func c02GenRaw(t *rapid.T, maxLen int) []byte {
	elem := rapid.OneOf(rapid.Byte(), rapid.Byte(), rapid.SampledFrom(c02HotBytes))
	return rapid.SliceOfN(elem, 0, maxLen).Draw(t, "raw")
}

var (
	c02TableSizes = []uint32{0, 32, 100, 4096, 4096, 65536}
	c02MaxStrs    = []int{0, 0, 1, 5, 16, 127, 127, 128, 4096}
)

// c02Cuts converts chunk sizes into cut offsets (ends of non-empty prefixes).
func c02Split(b []byte, sizes []int) [][]byte {
	var out [][]byte
	off := 0
	for _, n := range sizes {
		if n < 0 {
			n = 0
		}
		if off+n > len(b) {
			n = len(b) - off
		}
		out = append(out, b[off:off+n])
		off += n
	}
	if off < len(b) || len(out) == 0 {
		out = append(out, b[off:])
	}
	return out
}
