package hpack

import (
	"encoding/json"
	"fmt"
	"os"
	"sync"
	"testing"

	"pgregory.net/rapid"
	"verif/vp"
)

// C03: HPACK decoding is independent of how a header block is split across Writes.
//
// Two decoders with the same configuration and the same earlier blocks; one gets the
// block in a single Write, the other in the drawn partition. Compared: emitted
// fields, success/failure (any Write or Close error), and the dynamic table
// (entries, size, maximum size) afterwards.

type c03Case struct {
	TableMax uint32   `json:"table_max"`
	MaxStr   int      `json:"max_str"`
	Allowed  int64    `json:"allowed"` // -1 = SetAllowedMaxDynamicTableSize not called
	Pre      [][]byte `json:"pre"`     // earlier blocks, each written whole and closed
	Data     []byte   `json:"data"`
	Chunks   []int    `json:"chunks"` // sizes; whatever remains forms a last chunk
}

func c03Gen(t *rapid.T) c03Case {
	c := c03Case{
		TableMax: rapid.SampledFrom([]uint32{4096, 4096, 0, 32, 100, 65536}).Draw(t, "tableMax"),
		MaxStr:   rapid.SampledFrom([]int{0, 127, 1, 5, 16, 128, 4096, 0, 127}).Draw(t, "maxStr"),
		Allowed:  -1,
		Pre:      [][]byte{},
	}
	if rapid.IntRange(0, 3).Draw(t, "setAllowed") == 2 {
		c.Allowed = int64(rapid.SampledFrom(c02TableSizes).Draw(t, "allowed"))
	}
	st := c02NewRef(c.TableMax)
	if c.Allowed >= 0 {
		st.allowed = uint64(c.Allowed)
	}
	for i := rapid.IntRange(0, 2).Draw(t, "nPre"); i > 0; i-- {
		b, _, _, _ := c02GenBlock(t, st, c.MaxStr, 4)
		c.Pre = append(c.Pre, b)
	}
	var marks, hot []int
	if rapid.IntRange(0, 9).Draw(t, "rawBytes") == 5 {
		c.Data = c02GenRaw(t, 48)
	} else {
		c.Data, marks, hot, _ = c02GenBlock(t, st, c.MaxStr, 6)
	}
	c.Chunks = c02GenChunks(t, len(c.Data), marks, hot, 8)
	return c
}

type c03Outcome struct {
	fields []HeaderField
	ok     bool
	err    string
	ents   []HeaderField
	size   uint32
	max    uint32
}

func c03Run(c c03Case, chunks [][]byte) c03Outcome {
	var o c03Outcome
	record := false
	d := NewDecoder(c.TableMax, func(f HeaderField) {
		if record {
			o.fields = append(o.fields, f)
		}
	})
	if c.MaxStr > 0 {
		d.SetMaxStringLength(c.MaxStr)
	}
	if c.Allowed >= 0 {
		d.SetAllowedMaxDynamicTableSize(uint32(c.Allowed))
	}
	for _, p := range c.Pre {
		d.Write(p)
		d.Close()
	}
	record = true
	o.ok = true
	for i, ch := range chunks {
		if _, err := d.Write(ch); err != nil {
			o.ok = false
			o.err = fmt.Sprintf("Write #%d (%d bytes): %v", i, len(ch), err)
			break
		}
	}
	if err := d.Close(); err != nil {
		if o.ok {
			o.err = fmt.Sprintf("Close: %v", err)
		}
		o.ok = false
	}
	o.ents = append([]HeaderField(nil), d.dynTab.table.ents...)
	o.size, o.max = d.dynTab.size, d.dynTab.maxSize
	return o
}

func c03Outcome2(o c03Outcome) string {
	if o.ok {
		return "success"
	}
	return "failure (" + o.err + ")"
}

const c03KnownKey = "c03-savebuf-bound-rejects-split-padded-field"

// c03Known is the predicate of the known finding: with a string length limit set,
// some chunk boundary falls inside a complete representation more than
// 2*(maxStrLen+8) octets after its start — the condition under which Decoder.Write's
// "extra paranoia" bound on the buffered remainder returns ErrStringLength — and
// that representation respects the string length limit and the integer size
// limit (otherwise it is rejected however it is split). Only a representation
// whose integers are padded (non-minimal) can be that long.
func c03Known(c c03Case) string {
	if c.MaxStr <= 0 {
		return ""
	}
	bound := 2 * (c.MaxStr + 8)
	if len(c.Data) <= bound+1 {
		return ""
	}
	cuts := c03CutOffsets(c)
	for _, sp := range c02Scan(c.Data) {
		if !sp.Complete || sp.End-sp.Start <= bound+1 {
			continue
		}
		if sp.Long || len(sp.Name.B) > c.MaxStr || len(sp.Val.B) > c.MaxStr {
			continue // rejected for its integers / string lengths however it is split
		}
		for _, p := range cuts {
			if p < sp.End && p-sp.Start > bound {
				return c03KnownKey
			}
		}
	}
	return ""
}

// c03CutOffsets lists the offsets at which a non-final Write ends.
func c03CutOffsets(c c03Case) []int {
	var cuts []int
	off := 0
	for _, ch := range c02Split(c.Data, c.Chunks) {
		off += len(ch)
		if len(ch) > 0 && off < len(c.Data) {
			cuts = append(cuts, off)
		}
	}
	return cuts
}

func c03Prop(c c03Case, r *vp.Rec) error {
	chunks := c02Split(c.Data, c.Chunks)
	whole := c03Run(c, [][]byte{c.Data})
	split := c03Run(c, chunks)

	// classes / non-triviality (structure of the block and where the cuts fall)
	spans := c02Scan(c.Data)
	inside := false
	for _, p := range c03CutOffsets(c) {
		for _, sp := range spans {
			if p <= sp.Start || p >= sp.End {
				continue
			}
			inside = true
			for _, part := range sp.Parts {
				if p > part.Start && p < part.End {
					r.Class("cut-inside:" + part.What)
				} else if p == part.Start && part.Start > sp.Start {
					r.Class("cut-between-parts-of-a-representation")
				}
			}
		}
	}
	if inside {
		r.NonTrivial()
	}
	for _, ch := range chunks {
		if len(ch) == 0 {
			r.Class("has-empty-chunk")
			break
		}
	}
	if len(c.Pre) > 0 {
		r.Class("with-earlier-blocks")
	}
	if whole.ok {
		r.Class("block-accepted")
	} else {
		r.Class("block-rejected")
	}
	for _, sp := range spans {
		if sp.Padded {
			r.Class("has-non-minimal-integer")
			break
		}
	}

	if whole.ok != split.ok {
		return fmt.Errorf("single Write: %s; %d Writes of sizes %v: %s", c03Outcome2(whole), len(chunks), c03Sizes(chunks), c03Outcome2(split))
	}
	if len(whole.fields) != len(split.fields) {
		return fmt.Errorf("single Write emitted %d fields, split Writes %v emitted %d (outcome: %s)", len(whole.fields), c03Sizes(chunks), len(split.fields), c03Outcome2(split))
	}
	for i := range whole.fields {
		if whole.fields[i] != split.fields[i] {
			return fmt.Errorf("field #%d: single Write emitted %+v, split Writes %v emitted %+v", i, whole.fields[i], c03Sizes(chunks), split.fields[i])
		}
	}
	if whole.size != split.size || whole.max != split.max || len(whole.ents) != len(split.ents) {
		return fmt.Errorf("dynamic table after single Write: %d entries size %d max %d; after split Writes %v: %d entries size %d max %d",
			len(whole.ents), whole.size, whole.max, c03Sizes(chunks), len(split.ents), split.size, split.max)
	}
	for i := range whole.ents {
		if whole.ents[i] != split.ents[i] {
			return fmt.Errorf("dynamic table entry %d: %+v after single Write, %+v after split Writes %v", i, whole.ents[i], split.ents[i], c03Sizes(chunks))
		}
	}
	return nil
}

func c03Sizes(chunks [][]byte) []int {
	out := make([]int, len(chunks))
	for i, ch := range chunks {
		out[i] = len(ch)
	}
	return out
}

func c03Sample(c c03Case) any {
	h := fmt.Sprintf("%x", c.Data)
	if len(h) > 200 {
		h = h[:200] + "..."
	}
	return map[string]any{"table_max": c.TableMax, "max_str": c.MaxStr, "allowed": c.Allowed, "earlier_blocks": len(c.Pre), "block_hex": h, "chunks": c.Chunks}
}

func TestVP_C03(t *testing.T) {
	vp.Run(t, vp.Spec[c03Case]{ID: "C03", Gen: c03Gen, Prop: c03Prop, Known: c03Known, Sample: c03Sample})
}

// c03KnownActive reports whether the finding is listed as open (for the native
// fuzz target, which does not go through vp.Run).
var c03KnownActive = sync.OnceValue(func() bool {
	b, err := os.ReadFile(os.Getenv("VP_KNOWN"))
	if err != nil {
		return false
	}
	var kf struct {
		Findings []struct{ Key, Property, Status string }
	}
	if json.Unmarshal(b, &kf) != nil {
		return false
	}
	for _, f := range kf.Findings {
		if f.Key == c03KnownKey && f.Property == "C03" && f.Status == "open" {
			return true
		}
	}
	return false
})

func FuzzVP_C03(f *testing.F) {
	f.Add(uint32(0), []byte{}, []byte("\x82\x86\x84\x41\x8c\xf1\xe3\xc2\xe5\xf2\x3a\x6b\xa0\xab\x90\xf4\xff"), []byte{1, 3, 1, 4})
	f.Add(uint32(0), []byte("\x41\x00\x40\x01a\x01b"), []byte("\xbe\xbf\x7f\x00\x83abc\x0f\x00\x00\x3f\x01\xbe"), []byte{2, 2, 2, 2})
	f.Add(uint32(5<<3), []byte{}, []byte("\x00\xff\x80\x80\x80\x80\x80\x80\x80\x80\x00aaaa\x7f\x80\x80\x00bb"), []byte{2, 7, 9})
	f.Add(uint32(2), []byte{}, []byte("\x20\x3f\xe1\x1f\x41\x00\x3f\x01\x00\x81\xff\x01x"), []byte{1, 1, 1, 1, 1, 1, 1})
	f.Add(uint32(3|4<<3), []byte("\x40\x83\x1f\xff\xff"), []byte("\x40\x8a\xff\xff"), []byte{3, 0, 0})
	f.Fuzz(func(t *testing.T, cfg uint32, pre, data, split []byte) {
		if len(data) > 1<<14 || len(pre) > 1<<10 || len(split) > 32 {
			return
		}
		c := c03Case{
			TableMax: c02TableSizes[int(cfg&7)%len(c02TableSizes)],
			MaxStr:   c02MaxStrs[int(cfg>>3&15)%len(c02MaxStrs)],
			Allowed:  -1,
			Pre:      [][]byte{},
			Data:     data,
		}
		if cfg>>7&1 == 1 {
			c.Allowed = int64(c02TableSizes[int(cfg>>14&7)%len(c02TableSizes)])
		}
		if len(pre) > 0 {
			c.Pre = append(c.Pre, pre)
		}
		for _, s := range split {
			c.Chunks = append(c.Chunks, int(s))
		}
		if c03KnownActive() && c03Known(c) != "" {
			return
		}
		if err := c03PropSafe(c); err != nil {
			vp.FuzzFail(t, "C03", "", c, err)
		}
	})
}

func c03PropSafe(c c03Case) (err error) {
	defer func() {
		if p := recover(); p != nil {
			err = fmt.Errorf("panic: %v", p)
		}
	}()
	return c03Prop(c, nil)
}
