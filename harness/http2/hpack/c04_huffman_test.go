package hpack

import (
	"bytes"
	"fmt"
	"os"
	"strconv"
	"strings"
	"testing"

	"pgregory.net/rapid"
	"verif/vp"
)

// C04: Huffman coding is a canonical bijection on byte strings.
//
// Encode direction: AppendHuffmanString / HuffmanEncodeLength against the bit-level
// reference coder of c02_ref_test.go, then HuffmanDecode / HuffmanDecodeToString of
// the result. Decode direction: HuffmanDecode accepts v iff the reference accepts
// (codes, no EOS, < 8 one-bits of padding), and what it returns re-encodes to v.

type c04Case struct {
	Dir     string `json:"dir"` // enc | dec
	S       []byte `json:"s"`   // enc: the string to encode
	Dst     []byte `json:"dst"` // enc: existing content of dst
	DstCap  int    `json:"dst_cap"`
	V       []byte `json:"v"` // dec: the octets to decode
	Mutated string `json:"mutated"`
	Rep     int    `json:"rep,omitempty"` // len: HuffmanEncodeLength of S repeated Rep times
}

var c04LongSyms, c04MidSyms []byte

func init() {
	for c := 0; c < 256; c++ {
		switch n := c02HuffTab[c].n; {
		case n >= 20:
			c04LongSyms = append(c04LongSyms, byte(c))
		case n >= 9:
			c04MidSyms = append(c04MidSyms, byte(c))
		}
	}
}

func c04GenString(t *rapid.T) []byte {
	sym := rapid.OneOf(
		rapid.SampledFrom(c04LongSyms),
		rapid.Byte(),
		rapid.SampledFrom([]byte("012aceiost %-./3456789=A_bdfghlmnpru")), // 5- and 6-bit codes
		rapid.SampledFrom(c04MidSyms),
	)
	switch rapid.IntRange(0, 5).Draw(t, "strMode") {
	case 0:
		return rapid.SliceOfN(sym, 0, 12).Draw(t, "s")
	case 1:
		return rapid.SliceOfN(rapid.SampledFrom(c04LongSyms), 1, 40).Draw(t, "s")
	case 2:
		return rapid.SliceOfN(rapid.Byte(), 0, 64).Draw(t, "s")
	case 3:
		// long: a drawn period repeated, with a drawn tail (padding of every width)
		seed := rapid.SliceOfN(sym, 1, 9).Draw(t, "seed")
		n := rapid.IntRange(13, 300).Draw(t, "n")
		out := make([]byte, 0, n+8)
		for len(out) < n {
			out = append(out, seed...)
		}
		return append(out[:n], rapid.SliceOfN(sym, 0, 4).Draw(t, "tail")...)
	default:
		return rapid.SliceOfN(sym, 0, 40).Draw(t, "s")
	}
}

func c04Gen(t *rapid.T) c04Case {
	if rapid.IntRange(0, 9).Draw(t, "dir") < 5 {
		c := c04Case{Dir: "enc", S: c04GenString(t), Dst: []byte{}}
		if rapid.IntRange(0, 2).Draw(t, "withDst") == 0 {
			c.Dst = rapid.SliceOfN(rapid.Byte(), 1, 9).Draw(t, "dst")
			c.DstCap = rapid.IntRange(0, 40).Draw(t, "dstCap")
		}
		return c
	}
	c := c04Case{Dir: "dec"}
	if rapid.IntRange(0, 3).Draw(t, "rawInput") == 0 {
		elem := rapid.OneOf(rapid.Byte(), rapid.SampledFrom([]byte{0xff, 0xfe, 0x7f, 0x00, 0xfc, 0xf8}))
		c.V = rapid.SliceOfN(elem, 0, 24).Draw(t, "v")
		return c
	}
	s := c04GenString(t)
	v := c02HuffEncode(s)
	bits := c02HuffBits(s)
	pad := (8 - bits%8) % 8
	arg := rapid.IntRange(0, 1<<16).Draw(t, "mutArg")
	switch rapid.IntRange(0, 9).Draw(t, "mutation") {
	case 0:
		c.Mutated = "none"
	case 1:
		c.Mutated = "extra-ff"
		for i := rapid.IntRange(1, 4).Draw(t, "nFF"); i > 0; i-- {
			v = append(v, 0xff)
		}
	case 2:
		c.Mutated = "padding-zeros"
		if pad > 0 {
			v[len(v)-1] &^= byte(1)<<uint(pad) - 1
		} else {
			v = append(v, 0x00)
		}
	case 3:
		c.Mutated = "one-padding-bit-cleared"
		if pad > 0 {
			v[len(v)-1] &^= 1 << uint(arg%pad)
		}
	case 4:
		c.Mutated = "last-octet-dropped"
		if len(v) > 0 {
			v = v[:len(v)-1]
		}
	case 5:
		c.Mutated = "eos-spliced"
		// insert the 30-bit EOS code at a symbol boundary, then re-pad with ones
		k := 0
		if len(s) > 0 {
			k = arg % (len(s) + 1)
		}
		v = c04EncodeWithEOS(s, k)
	case 6:
		c.Mutated = "bit-flipped"
		if len(v) > 0 {
			b := arg % (8 * len(v))
			v[b/8] ^= 0x80 >> uint(b%8)
		}
	case 7:
		c.Mutated = "octet-inserted"
		b := rapid.Byte().Draw(t, "ins")
		p := 0
		if len(v) > 0 {
			p = arg % (len(v) + 1)
		}
		v = append(v[:p:p], append([]byte{b}, v[p:]...)...)
	case 8:
		c.Mutated = "last-octet-all-ones"
		if len(v) > 0 {
			v[len(v)-1] = 0xff
		}
	default:
		c.Mutated = "octet-replaced"
		if len(v) > 0 {
			v[arg%len(v)] = rapid.Byte().Draw(t, "repl")
		}
	}
	c.V = v
	return c
}

// c04EncodeWithEOS encodes s with the EOS code inserted before symbol k.
func c04EncodeWithEOS(s []byte, k int) []byte {
	var out []byte
	var cur byte
	fill := 0
	put := func(code uint32, n int) {
		for i := n - 1; i >= 0; i-- {
			cur = cur<<1 | byte(code>>uint(i)&1)
			if fill++; fill == 8 {
				out = append(out, cur)
				cur, fill = 0, 0
			}
		}
	}
	for i := 0; i <= len(s); i++ {
		if i == k {
			put(c02HuffTab[256].code, int(c02HuffTab[256].n))
		}
		if i < len(s) {
			put(c02HuffTab[s[i]].code, int(c02HuffTab[s[i]].n))
		}
	}
	for fill != 0 {
		put(1, 1)
	}
	return out
}

func c04Encode(s, dstContent []byte, dstCap int) error {
	want := c02HuffEncode(s)
	dst := make([]byte, len(dstContent), len(dstContent)+dstCap)
	copy(dst, dstContent)
	// poison the spare capacity: the encoder must overwrite, not OR into it
	spare := dst[len(dst):cap(dst)]
	for i := range spare {
		spare[i] = 0xa5
	}
	got := AppendHuffmanString(dst, string(s))
	if !bytes.Equal(got[:min(len(got), len(dstContent))], dstContent) || len(got) < len(dstContent) {
		return fmt.Errorf("AppendHuffmanString changed the existing content of dst: %x -> %x", dstContent, got)
	}
	if enc := got[len(dstContent):]; !bytes.Equal(enc, want) {
		return fmt.Errorf("AppendHuffmanString(%q) = %x, canonical encoding is %x", s, enc, want)
	}
	if n := HuffmanEncodeLength(string(s)); n != uint64(len(want)) {
		return fmt.Errorf("HuffmanEncodeLength(%q) = %d, encoded length is %d", s, n, len(want))
	}
	var w bytes.Buffer
	n, err := HuffmanDecode(&w, want)
	if err != nil {
		return fmt.Errorf("HuffmanDecode of the encoding %x of %q failed: %v", want, s, err)
	}
	if !bytes.Equal(w.Bytes(), s) || n != len(s) {
		return fmt.Errorf("HuffmanDecode(encode(%q)) = %q (n=%d)", s, w.Bytes(), n)
	}
	str, err := HuffmanDecodeToString(want)
	if err != nil || str != string(s) {
		return fmt.Errorf("HuffmanDecodeToString(encode(%q)) = %q, %v", s, str, err)
	}
	return nil
}

func c04Decode(v []byte) (accepted bool, err error) {
	want, why := c02HuffDecode(v)
	var w bytes.Buffer
	n, derr := HuffmanDecode(&w, v)
	str, serr := HuffmanDecodeToString(v)
	if (derr == nil) != (serr == nil) {
		return false, fmt.Errorf("HuffmanDecode(%x) err=%v but HuffmanDecodeToString err=%v", v, derr, serr)
	}
	if derr != nil {
		if why == "" {
			return false, fmt.Errorf("HuffmanDecode rejects %x (%v), which is the canonical encoding of %q", v, derr, want)
		}
		if w.Len() != 0 || n != 0 {
			return false, fmt.Errorf("HuffmanDecode(%x) failed but wrote %d bytes (n=%d)", v, w.Len(), n)
		}
		return false, nil
	}
	if why != "" {
		return true, fmt.Errorf("HuffmanDecode accepts %x as %q; not a canonical encoding: %s", v, w.Bytes(), why)
	}
	if !bytes.Equal(w.Bytes(), want) || str != string(want) || n != len(want) {
		return true, fmt.Errorf("HuffmanDecode(%x) = %q / %q (n=%d), reference decodes %q", v, w.Bytes(), str, n, want)
	}
	if re := c02HuffEncode(w.Bytes()); !bytes.Equal(re, v) {
		return true, fmt.Errorf("HuffmanDecode accepts %x as %q whose canonical encoding is %x", v, w.Bytes(), re)
	}
	if re := AppendHuffmanString(nil, str); !bytes.Equal(re, v) {
		return true, fmt.Errorf("HuffmanDecode accepts %x as %q which AppendHuffmanString encodes as %x", v, str, re)
	}
	return true, nil
}

func c04HasLong(s []byte) bool {
	for _, c := range s {
		if c02HuffTab[c].n >= 20 {
			return true
		}
	}
	return false
}

func c04Prop(c c04Case, r *vp.Rec) error {
	if c.Dir == "len" {
		// "for every byte string": also for strings whose encoding is longer than 2^32
		// bits; only the length is computed, nothing is encoded
		if c.Rep < 0 || len(c.S) == 0 || uint64(len(c.S))*uint64(c.Rep) > 1<<29 {
			return fmt.Errorf("harness: malformed len case")
		}
		bits := uint64(c02HuffBits(c.S)) * uint64(c.Rep)
		if got, want := HuffmanEncodeLength(strings.Repeat(string(c.S), c.Rep)), (bits+7)/8; got != want {
			return fmt.Errorf("HuffmanEncodeLength(%q repeated %d times) = %d, the encoding has %d bits = %d octets", c.S, c.Rep, got, bits, want)
		}
		return nil
	}
	if c.Dir == "enc" {
		r.Class("enc")
		r.Classf("enc:padding-bits=%d", (8-c02HuffBits(c.S)%8)%8)
		if len(c.Dst) > 0 {
			r.Class("enc:dst-non-empty")
		}
		if c04HasLong(c.S) {
			r.Class("enc:symbol>=20bits")
			r.NonTrivial()
		}
		if len(c02HuffEncode(c.S)) > 4 {
			r.Class("enc:flushes-32-bit-word")
		}
		return c04Encode(c.S, c.Dst, c.DstCap)
	}
	acc, err := c04Decode(c.V)
	if err != nil {
		return err
	}
	m := c.Mutated
	if m == "" {
		m = "raw-octets"
	} else {
		r.NonTrivial()
	}
	if acc {
		r.Class("dec:accepted:" + m)
	} else {
		r.Class("dec:rejected:" + m)
	}
	return nil
}

func TestVP_C04(t *testing.T) {
	vp.Run(t, vp.Spec[c04Case]{ID: "C04", Gen: c04Gen, Prop: c04Prop})
}

// TestVP_C04_enum enumerates: every 1- and 2-symbol string (encode direction) and
// every input of 0, 1 and 2 octets — thorough tier: also 3 octets — (decode direction).
func TestVP_C04_enum(t *testing.T) {
	// the thorough tier runs 16 shards: shard 0 does the small enumerations, the
	// 3-octet inputs are divided among the shards by their first octet
	shard, shards := 0, 1
	if n, err := strconv.Atoi(os.Getenv("VP_SHARDS")); err == nil && n > 1 {
		shards = n
		shard, _ = strconv.Atoi(os.Getenv("VP_SHARD"))
	}
	vp.RunEnum(t, "C04", "enum", true, func(e *vp.Enum) {
		// fixed vectors from RFC 7541 Appendix C.4 / C.6 pin the reference itself
		for _, kv := range [][2]string{
			{"www.example.com", "f1e3c2e5f23a6ba0ab90f4ff"},
			{"no-cache", "a8eb10649cbf"},
			{"custom-key", "25a849e95ba97d7f"},
			{"custom-value", "25a849e95bb8e8b4bf"},
			{"302", "6402"},
			{"private", "aec3771a4b"},
			{"Mon, 21 Oct 2013 20:13:21 GMT", "d07abe941054d444a8200595040b8166e082a62d1bff"},
			{"https://www.example.com", "9d29ad171863c78f0b97c8e9ae82ae43d3"},
		} {
			if got := fmt.Sprintf("%x", c02HuffEncode([]byte(kv[0]))); got != kv[1] {
				e.Fail(c04Case{Dir: "enc", S: []byte(kv[0])}, fmt.Errorf("reference coder self-test: encode(%q)=%s, RFC 7541 says %s", kv[0], got, kv[1]))
				return
			}
		}
		for a := 0; a < 256 && !e.Failed() && shard == 0; a++ {
			s := []byte{byte(a)}
			nt := c02HuffTab[a].n >= 20
			if err := c04Encode(s, nil, 0); err != nil {
				e.Fail(c04Case{Dir: "enc", S: s}, err)
				return
			}
			e.Eval(nt, "enum:enc-1-symbol", func() any { return c04Case{Dir: "enc", S: s} })
			for b := 0; b < 256; b++ {
				s2 := []byte{byte(a), byte(b)}
				if err := c04Encode(s2, nil, 0); err != nil {
					e.Fail(c04Case{Dir: "enc", S: s2}, err)
					return
				}
				e.Eval(nt || c02HuffTab[b].n >= 20, "enum:enc-2-symbols", nil)
			}
		}
		for _, lc := range []c04Case{{Dir: "len", S: []byte("\n"), Rep: 143165577}, {Dir: "len", S: []byte("\n\x16"), Rep: 71582789}, {Dir: "len", S: []byte("a\r"), Rep: 1 << 27}} {
			if shard != 0 || e.Failed() {
				break
			}
			if err := c04Prop(lc, nil); err != nil {
				e.Fail(lc, err)
				return
			}
			e.Eval(true, "enum:length-of-a-string-with-more-than-2^32-code-bits", func() any { return lc })
		}
		dec := func(v []byte, class string) bool {
			acc, err := c04Decode(v)
			if err != nil {
				e.Fail(c04Case{Dir: "dec", V: append([]byte(nil), v...)}, err)
				return false
			}
			if acc {
				class += ":accepted"
			}
			e.Eval(true, class, nil)
			return true
		}
		if shard == 0 && !dec([]byte{}, "enum:dec-0-octets") {
			return
		}
		for a := 0; a < 256 && shard == 0; a++ {
			if !dec([]byte{byte(a)}, "enum:dec-1-octet") {
				return
			}
			for b := 0; b < 256; b++ {
				if !dec([]byte{byte(a), byte(b)}, "enum:dec-2-octets") {
					return
				}
			}
		}
		if vp.Thorough() {
			v := make([]byte, 3)
			for x := 0; x < 1<<24; x++ {
				if x>>16%shards != shard {
					continue
				}
				v[0], v[1], v[2] = byte(x>>16), byte(x>>8), byte(x)
				if !dec(v, "enum:dec-3-octets") {
					return
				}
			}
			e.Note("decode direction exhaustive for inputs of up to 3 octets")
		} else {
			e.Note("decode direction exhaustive for inputs of up to 2 octets")
		}
		e.Note("encode direction exhaustive for strings of 1 and 2 symbols")
	})
}

func FuzzVP_C04(f *testing.F) {
	f.Add([]byte("www.example.com"))
	f.Add([]byte("\xf1\xe3\xc2\xe5\xf2\x3a\x6b\xa0\xab\x90\xf4\xff"))
	f.Add([]byte("\xff\xff\xff\xff"))
	f.Add([]byte("\x00\x01\x02\xfe\xff\x80\x16"))
	f.Add([]byte("\xa8\xeb\x10\x64\x9c\xbf\xff"))
	f.Add([]byte("\x1f"))
	f.Add([]byte(""))
	f.Fuzz(func(t *testing.T, data []byte) {
		if len(data) > 1<<12 {
			return
		}
		// both directions on the same octets
		if err := c04PropSafe(c04Case{Dir: "enc", S: data, Dst: []byte{}}); err != nil {
			vp.FuzzFail(t, "C04", "", c04Case{Dir: "enc", S: data, Dst: []byte{}}, err)
		}
		if err := c04PropSafe(c04Case{Dir: "dec", V: data}); err != nil {
			vp.FuzzFail(t, "C04", "", c04Case{Dir: "dec", V: data}, err)
		}
	})
}

func c04PropSafe(c c04Case) (err error) {
	defer func() {
		if p := recover(); p != nil {
			err = fmt.Errorf("panic: %v", p)
		}
	}()
	return c04Prop(c, nil)
}
