package hpack

import (
	"fmt"
	"testing"

	"pgregory.net/rapid"
	"verif/vp"
)

// C01: HPACK encode/decode round-trips every header list, across arbitrary
// interleavings of SetMaxDynamicTableSize / SetMaxDynamicTableSizeLimit between blocks.
//
// One Encoder and one Decoder live through the whole history. Limit changes are mirrored
// on the decoder with SetAllowedMaxDynamicTableSize ("configured with the same limits").
// After every block: the decoder emitted exactly the written fields; a reference dynamic
// table (RFC 7541 §4) driven by an independent parse of the encoder's output equals the
// decoder's table, and the encoder's table is the newest part of it.

func c01Gen(t *rapid.T) c01Case { return c01GenCase(t, false) }

func c01Known(c c01Case) (key string) {
	defer func() {
		if recover() != nil {
			key = ""
		}
	}()
	if c01DoubleUpdateOnNonEmptyTable(c) {
		return c01KnownKey
	}
	return ""
}

func c01Prop(c c01Case, r *vp.Rec) error {
	sink := &c01Sink{}
	enc := NewEncoder(sink)
	var got []HeaderField
	dec := NewDecoder(initialHeaderTableSize, func(f HeaderField) { got = append(got, f) })
	ref := c01RefTable{max: initialHeaderTableSize}

	classes := map[string]bool{}
	sawEvict, sawEarlierRef := false, false

	for bi, blk := range c.Blocks {
		for _, op := range blk.Ops {
			if op.Limit {
				enc.SetMaxDynamicTableSizeLimit(op.V)
				dec.SetAllowedMaxDynamicTableSize(op.V)
				classes["op-limit"] = true
			} else {
				enc.SetMaxDynamicTableSize(op.V)
				classes["op-size"] = true
			}
		}
		if len(blk.Ops) > 1 {
			classes["several-size-ops-before-block"] = true
		}

		// encode
		want := make([]HeaderField, len(blk.Fields))
		chunks := make([][]byte, len(blk.Fields))
		var wire []byte
		for fi, cf := range blk.Fields {
			want[fi] = cf.hf()
			sink.cur = nil
			if err := enc.WriteField(want[fi]); err != nil {
				return fmt.Errorf("block %d field %d: WriteField(%v) = %v", bi, fi, want[fi], err)
			}
			chunks[fi] = sink.cur
			wire = append(wire, sink.cur...)
			if len(want[fi].Name) >= 127 || len(want[fi].Value) >= 127 {
				classes["string>=127"] = true
			}
			if want[fi].Sensitive {
				classes["sensitive-field"] = true
			}
		}
		if len(blk.Fields) == 0 {
			classes["empty-block"] = true
		}

		// decode
		got = got[:0]
		feed := [][]byte{wire}
		if c.PerField {
			feed = chunks
			classes["fed-per-field"] = true
		}
		if c.Full && !c.PerField {
			fs, err := dec.DecodeFull(wire)
			if err != nil {
				return fmt.Errorf("block %d: Decoder.DecodeFull(%x) = %v (%d fields written)", bi, wire, err, len(want))
			}
			if len(got) != 0 {
				return fmt.Errorf("block %d: DecodeFull called the emit function", bi)
			}
			got = append(got, fs...)
			feed = nil
			classes["decoded-with-DecodeFull"] = true
		}
		for _, p := range feed {
			n, err := dec.Write(p)
			if err != nil {
				return fmt.Errorf("block %d: Decoder.Write(%x) = %v (block %x, %d fields; decoder table at the error: %d entries, size %d, max %d, allowed %d)",
					bi, p, err, wire, len(want), dec.dynTab.table.len(), dec.dynTab.size, dec.dynTab.maxSize, dec.dynTab.allowedMaxSize)
			}
			if n != len(p) {
				return fmt.Errorf("block %d: Decoder.Write consumed %d of %d bytes", bi, n, len(p))
			}
		}
		if feed != nil {
			if err := dec.Close(); err != nil {
				return fmt.Errorf("block %d: Decoder.Close() = %v after a complete block %x", bi, err, wire)
			}
		}
		if len(got) != len(want) {
			return fmt.Errorf("block %d: decoder emitted %d fields, %d written (emitted %v)", bi, len(got), len(want), got)
		}
		for i := range want {
			if got[i] != want[i] {
				return fmt.Errorf("block %d field %d: decoder emitted {%s %s sensitive=%v}, written {%s %s sensitive=%v}", bi, i,
					c01Short(got[i].Name), c01Short(got[i].Value), got[i].Sensitive,
					c01Short(want[i].Name), c01Short(want[i].Value), want[i].Sensitive)
			}
		}

		// reference: parse the wire, maintain the RFC table
		reps, perr := c01ParseReps(wire)
		if perr != nil {
			return fmt.Errorf("block %d: encoder output %x is not a sequence of RFC 7541 representations: %v", bi, wire, perr)
		}
		fi := 0
		nupd := 0
		for _, rp := range reps {
			if rp.Kind == c01SizeUpd {
				if n := ref.setMax(rp.Size); n > 0 {
					sawEvict = true
					classes["evict-on-size-update"] = true
				}
				nupd++
				continue
			}
			if fi >= len(want) {
				return fmt.Errorf("block %d: encoder output %x holds more field representations than the %d fields written", bi, wire, len(want))
			}
			f := want[fi]
			switch rp.Kind {
			case c01Indexed:
				if rp.Index > c01StaticLen {
					if e, ok := ref.at(rp.Index - c01StaticLen); ok && e.block < bi {
						sawEarlierRef = true
						classes["indexed-dynamic-entry-of-earlier-block"] = true
					} else if ok {
						classes["indexed-dynamic-entry-of-same-block"] = true
					}
				} else {
					classes["indexed-static-entry"] = true
				}
			case c01LitIncr:
				e := c01RefEnt{name: f.Name, value: f.Value, block: bi, sens: f.Sensitive}
				if e.size() > ref.max {
					classes["inserted-entry-larger-than-table"] = true
				}
				if n := ref.add(e); n > 0 {
					sawEvict = true
					classes["evict-on-insert"] = true
				}
			case c01LitNoIdx:
				classes["literal-without-indexing"] = true
			case c01LitNever:
				classes["literal-never-indexed"] = true
			}
			if rp.Kind != c01Indexed {
				if rp.Index > c01StaticLen {
					classes["name-reference-dynamic"] = true
				} else if rp.Index > 0 {
					classes["name-reference-static"] = true
				}
				if rp.ValueHuff || rp.NameHuff {
					classes["huffman-string"] = true
				}
				if !rp.ValueHuff {
					classes["raw-string"] = true
				}
			}
			fi++
		}
		if fi != len(want) {
			return fmt.Errorf("block %d: encoder output %x holds %d field representations for %d fields written", bi, wire, fi, len(want))
		}
		switch {
		case nupd == 1:
			classes["size-update-single"] = true
		case nupd >= 2:
			classes["size-update-double(min,final)"] = true
		}

		// tables (white box)
		ds, es := c01SnapTable(&dec.dynTab), c01SnapTable(&enc.dynTab)
		refEnts := ref.newestFirst()
		if len(ds.ents) != len(refEnts) || uint64(ds.size) != ref.size || uint64(ds.max) != ref.max {
			return fmt.Errorf("block %d: decoder table (%d entries, size %d, max %d) %s differs from the RFC 7541 reference table (%d entries, size %d, max %d) %s",
				bi, len(ds.ents), ds.size, ds.max, c01FmtEnts(ds.ents), len(refEnts), ref.size, ref.max, c01FmtEnts(refEnts))
		}
		for i := range refEnts {
			if ds.ents[i] != refEnts[i] {
				return fmt.Errorf("block %d: decoder table entry %d is %v, reference table has %v", bi, i+1, ds.ents[i], refEnts[i])
			}
		}
		// The encoder may hold fewer (older ones missing) entries than the peer when it
		// shrank its table without having to signal it; what it holds must be the newest
		// part of the peer's table, or a later index would name a different field.
		if len(es.ents) > len(refEnts) {
			return fmt.Errorf("block %d: encoder table has %d entries %s, the reference (peer) table only %d %s",
				bi, len(es.ents), c01FmtEnts(es.ents), len(refEnts), c01FmtEnts(refEnts))
		}
		for i := range es.ents {
			if es.ents[i] != refEnts[i] {
				return fmt.Errorf("block %d: encoder table entry %d is %v, reference (peer) table has %v", bi, i+1, es.ents[i], refEnts[i])
			}
		}
		if len(es.ents) < len(refEnts) {
			classes["encoder-table-is-strict-newest-part"] = true
		}
		if len(refEnts) > 0 && bi+1 < len(c.Blocks) {
			classes["table-carried-into-next-block"] = true
		}
	}

	for k := range classes {
		r.Class(k)
	}
	if sawEvict {
		r.Class("history-with-eviction")
	}
	if sawEvict && sawEarlierRef {
		r.NonTrivial()
	}
	return nil
}

func TestVP_C01(t *testing.T) {
	vp.Run(t, vp.Spec[c01Case]{ID: "C01", Gen: c01Gen, Prop: c01Prop, Known: c01Known})
}
