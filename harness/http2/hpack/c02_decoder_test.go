package hpack

import (
	"fmt"
	"testing"

	"pgregory.net/rapid"
	"verif/vp"
)

// C02: the HPACK decoder is memory-safe and honours its limits on any input.
//
// A case is a decoder configuration and 1-4 header blocks, each cut into chunks
// for Write. Checked after every Write: no panic, table size accounting and
// bounds (white-box), no emitted string above the limit. Checked per block against
// the reference decoder of c02_ref_test.go: whatever is emitted is a prefix of what
// RFC 7541 says the block contains; a block the implementation accepts is valid
// and yields exactly the reference's fields and table; a block the reference
// rejects is rejected by Write or Close.

type c02Block struct {
	Data   []byte `json:"data"`
	Chunks []int  `json:"chunks"` // chunk sizes for Write; the rest goes into a last chunk
	// reconfiguration applied before this block; -1 = leave alone
	SetMaxStr  int   `json:"set_max_str"`
	SetAllowed int64 `json:"set_allowed"`
}

type c02Case struct {
	TableMax    uint32     `json:"table_max"` // NewDecoder argument
	MaxStr      int        `json:"max_str"`   // SetMaxStringLength (0 = unlimited)
	Allowed     int64      `json:"allowed"`   // SetAllowedMaxDynamicTableSize, -1 = not called
	EmitOff     bool       `json:"emit_off"`  // SetEmitEnabled(false): safety checks only
	KeepWriting bool       `json:"keep_writing"`
	Gen         string     `json:"gen"` // raw | structured (informational)
	Blocks      []c02Block `json:"blocks"`
}

func c02Gen(t *rapid.T) c02Case {
	c := c02Case{
		TableMax: rapid.SampledFrom(c02TableSizes).Draw(t, "tableMax"),
		MaxStr:   rapid.SampledFrom(c02MaxStrs).Draw(t, "maxStr"),
		Allowed:  -1,
	}
	if rapid.IntRange(0, 2).Draw(t, "setAllowed") == 0 {
		c.Allowed = int64(rapid.SampledFrom(c02TableSizes).Draw(t, "allowed"))
	}
	c.EmitOff = rapid.IntRange(0, 19).Draw(t, "emitOff") == 10
	c.KeepWriting = rapid.IntRange(0, 4).Draw(t, "keepWriting") == 0
	raw := rapid.IntRange(0, 3).Draw(t, "rawBytes") == 0
	c.Gen = "structured"
	if raw {
		c.Gen = "raw"
	}
	st := c02NewRef(c.TableMax)
	if c.Allowed >= 0 {
		st.allowed = uint64(c.Allowed)
	}
	maxStr := c.MaxStr
	nb := rapid.IntRange(1, 4).Draw(t, "nBlocks")
	for i := 0; i < nb; i++ {
		b := c02Block{SetMaxStr: -1, SetAllowed: -1}
		if i > 0 && rapid.IntRange(0, 5).Draw(t, "reconfigure") == 0 {
			if rapid.Bool().Draw(t, "reMaxStr") {
				b.SetMaxStr = rapid.SampledFrom(c02MaxStrs).Draw(t, "maxStr")
				maxStr = b.SetMaxStr
			} else {
				b.SetAllowed = int64(rapid.SampledFrom(c02TableSizes).Draw(t, "allowed"))
				st.allowed = uint64(b.SetAllowed)
			}
		}
		var marks, hot []int
		if raw {
			b.Data = c02GenRaw(t, 48)
		} else {
			b.Data, marks, hot, _ = c02GenBlock(t, st, maxStr, 6)
		}
		b.Chunks = c02GenChunks(t, len(b.Data), marks, hot, 4)
		c.Blocks = append(c.Blocks, b)
	}
	return c
}

// c02TableCheck verifies the white-box accounting of the decoder's dynamic table.
func c02TableCheck(d *Decoder, maxAllowedEver uint64) error {
	dt := &d.dynTab
	var sum uint64
	for _, e := range dt.table.ents {
		sum += uint64(len(e.Name)) + uint64(len(e.Value)) + 32
	}
	if uint64(dt.size) != sum {
		return fmt.Errorf("dynamic table size field %d != sum of entry sizes %d (%d entries)", dt.size, sum, len(dt.table.ents))
	}
	if dt.size > dt.maxSize {
		return fmt.Errorf("dynamic table size %d exceeds its maximum %d", dt.size, dt.maxSize)
	}
	if uint64(dt.maxSize) > maxAllowedEver {
		return fmt.Errorf("dynamic table maximum %d exceeds the allowed maximum %d", dt.maxSize, maxAllowedEver)
	}
	return nil
}

// c02TableDiff compares the decoder's dynamic table with the reference's.
func c02TableDiff(d *Decoder, ref *c02Ref) string {
	ents := d.dynTab.table.ents
	if len(ents) != len(ref.dyn) {
		return fmt.Sprintf("dynamic table has %d entries, reference %d", len(ents), len(ref.dyn))
	}
	for i, e := range ref.dyn {
		g := ents[len(ents)-1-i]
		if g.Name != e.Name || g.Value != e.Value {
			return fmt.Sprintf("dynamic table entry %d is %q=%q, reference %q=%q", 62+i, g.Name, g.Value, e.Name, e.Value)
		}
	}
	if uint64(d.dynTab.size) != ref.size || uint64(d.dynTab.maxSize) != ref.maxSize {
		return fmt.Sprintf("dynamic table size/max %d/%d, reference %d/%d", d.dynTab.size, d.dynTab.maxSize, ref.size, ref.maxSize)
	}
	return ""
}

func c02Prop(c c02Case, r *vp.Rec) error {
	r.Class("gen:" + c.Gen)
	var emitted []HeaderField
	d := NewDecoder(c.TableMax, func(f HeaderField) { emitted = append(emitted, f) })
	ref := c02NewRef(c.TableMax)
	maxAllowedEver := uint64(c.TableMax)
	maxStr := 0
	if c.MaxStr > 0 {
		maxStr = c.MaxStr
		d.SetMaxStringLength(maxStr)
	}
	setAllowed := func(v int64) {
		d.SetAllowedMaxDynamicTableSize(uint32(v))
		ref.allowed = uint64(uint32(v))
		if ref.allowed > maxAllowedEver {
			maxAllowedEver = ref.allowed
		}
	}
	if c.Allowed >= 0 {
		setAllowed(c.Allowed)
	}
	diff := true // the decoder and the reference are still in a comparable state
	if c.EmitOff {
		d.SetEmitEnabled(false)
		diff = false
		r.Class("emit-disabled(safety-only)")
	}
	staleFirstField := false
	for bi, b := range c.Blocks {
		if b.SetMaxStr >= 0 {
			maxStr = b.SetMaxStr
			d.SetMaxStringLength(maxStr)
		}
		if b.SetAllowed >= 0 {
			setAllowed(b.SetAllowed)
		}
		var res c02Result
		evBefore := ref.evictions
		if diff {
			res = ref.decodeBlock(b.Data, maxStr)
		} else {
			r.Class("block:safety-only")
		}
		emitted = emitted[:0]
		var firstErr error
		emittedAtErr := -1
		writeErrs := 0
		for ci, chunk := range c02Split(b.Data, b.Chunks) {
			before := len(emitted)
			n, err := d.Write(chunk)
			if err == nil && n != len(chunk) {
				return fmt.Errorf("block %d chunk %d: Write returned n=%d for %d bytes without an error", bi, ci, n, len(chunk))
			}
			if terr := c02TableCheck(d, maxAllowedEver); terr != nil {
				return fmt.Errorf("block %d after Write of chunk %d: %v", bi, ci, terr)
			}
			for _, f := range emitted[before:] {
				if maxStr != 0 && (len(f.Name) > maxStr || len(f.Value) > maxStr) {
					return fmt.Errorf("block %d chunk %d: emitted field with len(name)=%d len(value)=%d above SetMaxStringLength(%d)", bi, ci, len(f.Name), len(f.Value), maxStr)
				}
			}
			if c.EmitOff && len(emitted) > 0 {
				return fmt.Errorf("block %d: field emitted although emission is disabled", bi)
			}
			if err != nil {
				writeErrs++
				if firstErr == nil {
					firstErr = err
					emittedAtErr = len(emitted)
				}
				if !c.KeepWriting {
					break
				}
			}
		}
		cerr := d.Close()
		if terr := c02TableCheck(d, maxAllowedEver); terr != nil {
			return fmt.Errorf("block %d after Close: %v", bi, terr)
		}
		if d.saveBuf.Len() != 0 {
			return fmt.Errorf("block %d: %d bytes still buffered after Close", bi, d.saveBuf.Len())
		}
		implOK := firstErr == nil && cerr == nil
		if !diff {
			continue
		}
		// --- differential part ---
		em := emitted
		if emittedAtErr >= 0 {
			em = emitted[:emittedAtErr]
		}
		for i, f := range em {
			if i >= len(res.Fields) {
				return fmt.Errorf("block %d: decoder emitted field #%d %q=%q which the block does not contain (reference: %d fields, then %s)", bi, i, f.Name, f.Value, len(res.Fields), c02OrValid(res.Err))
			}
			w := res.Fields[i]
			if f.Name != w.Name || f.Value != w.Value || f.Sensitive != w.Sensitive {
				return fmt.Errorf("block %d: field #%d emitted as %q=%q sensitive=%v, reference decodes %q=%q sensitive=%v", bi, i, f.Name, f.Value, f.Sensitive, w.Name, w.Value, w.Sensitive)
			}
		}
		if len(res.Fields) >= 1 || (res.Err != "" && len(res.Spans) > 0 && res.Spans[len(res.Spans)-1].End >= 3) {
			r.NonTrivial()
		}
		if res.Huffman > 0 {
			r.Class("ref:huffman-string")
		}
		if res.DynRefs > 0 {
			r.Class("ref:dynamic-index")
		}
		if res.Updates > 0 {
			r.Class("ref:size-update")
		}
		if ref.evictions > evBefore {
			r.Class("ref:eviction")
		}
		for _, sp := range res.Spans {
			if sp.Padded {
				r.Class("ref:non-minimal-integer")
				break
			}
		}
		switch {
		case implOK && res.Err != "":
			return fmt.Errorf("block %d: decoder accepted a malformed block (Write and Close returned nil): %s", bi, res.Err)
		case implOK:
			if len(em) != len(res.Fields) {
				return fmt.Errorf("block %d: decoder reported success but emitted %d of the %d fields", bi, len(em), len(res.Fields))
			}
			if td := c02TableDiff(d, ref); td != "" {
				return fmt.Errorf("block %d accepted: %s", bi, td)
			}
			r.Class("block:accepted")
			staleFirstField = false
		case res.Err == "":
			// valid per RFC 7541, rejected by the implementation: allowed by the
			// statement (which only demands that malformed input is rejected);
			// classify by the documented restriction it ran into
			why := "unexplained"
			switch {
			case len(res.May) > 0:
				why = res.May[0]
			case staleFirstField && len(res.Spans) > 0 && res.Spans[0].Kind == c02Update:
				why = "size update in the block after a truncated one"
			case maxStr != 0 && c02LongestSpan(res.Spans) > 2*(maxStr+8):
				why = "representation longer than the saveBuf bound, split over Writes"
			}
			r.Class("block:valid-but-rejected:" + why)
			diff = false
		default:
			r.Class("block:rejected:" + res.ErrKind)
			if res.Truncated && writeErrs == 0 && len(em) == len(res.Fields) && c02TableDiff(d, ref) == "" {
				// only Close failed: both sides processed exactly the complete
				// representations; Close "resets the Decoder to be reused", so the
				// comparison continues with the next block
				staleFirstField = res.Consumed > 0
			} else {
				diff = false
			}
		}
	}
	return nil
}

func c02OrValid(s string) string {
	if s == "" {
		return "end of a valid block"
	}
	return s
}

func c02LongestSpan(sps []c02Span) int {
	m := 0
	for _, sp := range sps {
		if sp.End-sp.Start > m {
			m = sp.End - sp.Start
		}
	}
	return m
}

func TestVP_C02(t *testing.T) {
	vp.Run(t, vp.Spec[c02Case]{ID: "C02", Gen: c02Gen, Prop: c02Prop, Sample: c02Sample})
}

func c02Sample(c c02Case) any {
	type blk struct {
		Hex    string `json:"hex"`
		Chunks []int  `json:"chunks"`
	}
	var bs []blk
	for _, b := range c.Blocks {
		h := fmt.Sprintf("%x", b.Data)
		if len(h) > 160 {
			h = h[:160] + "..."
		}
		bs = append(bs, blk{h, b.Chunks})
	}
	return map[string]any{"table_max": c.TableMax, "max_str": c.MaxStr, "allowed": c.Allowed, "gen": c.Gen, "blocks": bs}
}

// c02FromFuzz decodes a native fuzz input into a case.
func c02FromFuzz(cfg uint32, data, split []byte) c02Case {
	c := c02Case{
		TableMax:    c02TableSizes[int(cfg&7)%len(c02TableSizes)],
		MaxStr:      c02MaxStrs[int(cfg>>3&15)%len(c02MaxStrs)],
		Allowed:     -1,
		KeepWriting: cfg>>10&1 == 1,
		EmitOff:     cfg>>11&7 == 7,
		Gen:         "fuzz",
	}
	if cfg>>7&1 == 1 {
		c.Allowed = int64(c02TableSizes[int(cfg>>14&7)%len(c02TableSizes)])
	}
	cur := c02Block{SetMaxStr: -1, SetAllowed: -1, Data: []byte{}}
	for _, s := range split {
		n := int(s & 0x3f)
		if n > len(data) {
			n = len(data)
		}
		cur.Data = append(cur.Data, data[:n]...)
		cur.Chunks = append(cur.Chunks, n)
		data = data[n:]
		if s&0x80 != 0 && len(c.Blocks) < 5 {
			c.Blocks = append(c.Blocks, cur)
			cur = c02Block{SetMaxStr: -1, SetAllowed: -1, Data: []byte{}}
		}
	}
	cur.Data = append(cur.Data, data...)
	cur.Chunks = append(cur.Chunks, len(data))
	c.Blocks = append(c.Blocks, cur)
	return c
}

func FuzzVP_C02(f *testing.F) {
	// RFC 7541 C.3.1, C.4.1 (Huffman), C.6.1 (response with incremental indexing)
	f.Add(uint32(3), []byte("\x82\x86\x84\x41\x0f\x77\x77\x77\x2e\x65\x78\x61\x6d\x70\x6c\x65\x2e\x63\x6f\x6d"), []byte{5, 0x83})
	f.Add(uint32(3), []byte("\x82\x86\x84\x41\x8c\xf1\xe3\xc2\xe5\xf2\x3a\x6b\xa0\xab\x90\xf4\xff\xbe"), []byte{0x91})
	f.Add(uint32(2), []byte("\x48\x82\x64\x02\x58\x85\xae\xc3\x77\x1a\x4b\x61\x96\xd0\x7a\xbe\x94\x10\x54\xd4\x44\xa8\x20\x05\x95\x04\x0b\x81\x66\xe0\x82\xa6\x2d\x1b\xff\x6e\x91\x9d\x29\xad\x17\x18\x63\xc7\x8f\x0b\x97\xc8\xe9\xae\x82\xae\x43\xd3"), []byte{})
	// hostile constants: size update too large, index 0, index past the table,
	// 10-octet integers, Huffman EOS, over-long padding, truncated literal
	f.Add(uint32(0), []byte("\x3f\xe1\xff\xff\xff\x0f"), []byte{})
	f.Add(uint32(3), []byte("\x80"), []byte{})
	f.Add(uint32(3), []byte("\xff\xff\xff\xff\xff\xff\xff\xff\xff\xff\x7f"), []byte{1, 3})
	f.Add(uint32(3), []byte("\xff\x83\x80\x80\x80\x80\x80\x80\x80\x80\x80\x01"), []byte{})
	f.Add(uint32(3), []byte("\x00\x84\xff\xff\xff\xff\x00"), []byte{})
	f.Add(uint32(3), []byte("\x40\x81\x1f\x82\xff\xff"), []byte{})
	f.Add(uint32(3|5<<3), []byte("\x00\xff\x80\x80\x80\x80\x80\x80\x80\x80\x00aaaa"), []byte{2, 2, 2})
	f.Add(uint32(3), []byte("\x20\x3f\xe1\x1f\x41\x00\x41\x00\xbe\xbf\x3f\x01"), []byte{0x82, 0x84})
	f.Fuzz(func(t *testing.T, cfg uint32, data, split []byte) {
		if len(data) > 1<<14 || len(split) > 64 {
			return
		}
		c := c02FromFuzz(cfg, data, split)
		if err := c02PropSafe(c); err != nil {
			vp.FuzzFail(t, "C02", "", c, err)
		}
	})
}

func c02PropSafe(c c02Case) (err error) {
	defer func() {
		if p := recover(); p != nil {
			err = fmt.Errorf("panic: %v", p)
		}
	}()
	return c02Prop(c, nil)
}
