package hpack

// Shared by the C01 and C05 harnesses (C05 lists this file in props/C05.json "files"):
// the plain-data case (a history of header blocks with table-size operations between
// them), its generator, an RFC 7541 §4 reference dynamic table, an independent parser of
// the encoder's output bytes (RFC 7541 §5.1, §5.2, §6 — representation kinds, indices and
// string-literal extents; no Huffman decoding), white-box table snapshots and a pure
// model of which histories make the encoder emit two size updates in front of a
// non-empty decoder table.

import (
	"encoding/hex"
	"encoding/json"
	"fmt"
	"strings"
	"unicode/utf8"

	"pgregory.net/rapid"
	"verif/vp"
)

// ---------------------------------------------------------------------------------
// case

// c01Str is a byte string that survives JSON: valid UTF-8 is written as a JSON string,
// anything else as {"hex":"..."}.
type c01Str string

func (s c01Str) MarshalJSON() ([]byte, error) {
	if utf8.ValidString(string(s)) {
		return json.Marshal(string(s))
	}
	return json.Marshal(struct {
		Hex string `json:"hex"`
	}{hex.EncodeToString([]byte(s))})
}

func (s *c01Str) UnmarshalJSON(b []byte) error {
	t := strings.TrimSpace(string(b))
	if strings.HasPrefix(t, "\"") {
		var x string
		if err := json.Unmarshal(b, &x); err != nil {
			return err
		}
		*s = c01Str(x)
		return nil
	}
	var h struct {
		Hex string `json:"hex"`
	}
	if err := json.Unmarshal(b, &h); err != nil {
		return err
	}
	raw, err := hex.DecodeString(h.Hex)
	if err != nil {
		return err
	}
	*s = c01Str(raw)
	return nil
}

// c01Field is one header field; the name is N repeated NRep times (once when NRep <= 1),
// likewise the value, so that long strings stay small in the replay file and shrink well.
type c01Field struct {
	N    c01Str `json:"n"`
	NRep int    `json:"nrep,omitempty"`
	V    c01Str `json:"v"`
	VRep int    `json:"vrep,omitempty"`
	S    bool   `json:"s,omitempty"`
}

func c01Expand(s c01Str, rep int) string {
	if rep <= 1 {
		return string(s)
	}
	if len(s)*rep > 1<<16 { // replay files only; the generator stays far below
		rep = (1 << 16) / len(s)
	}
	return strings.Repeat(string(s), rep)
}

func (f c01Field) hf() HeaderField {
	return HeaderField{Name: c01Expand(f.N, f.NRep), Value: c01Expand(f.V, f.VRep), Sensitive: f.S}
}

// c01Op is a table-size operation on the encoder between two header blocks.
// Limit: Encoder.SetMaxDynamicTableSizeLimit(V), mirrored on the decoder by
// SetAllowedMaxDynamicTableSize(V) ("configured with the same limits");
// otherwise Encoder.SetMaxDynamicTableSize(V).
type c01Op struct {
	Limit bool   `json:"limit,omitempty"`
	V     uint32 `json:"v"`
}

type c01Block struct {
	Ops    []c01Op    `json:"ops,omitempty"`
	Fields []c01Field `json:"fields,omitempty"`
}

type c01Case struct {
	// PerField: feed the decoder one Write per encoded field instead of one per block.
	PerField bool       `json:"per_field,omitempty"`
	// Full: blocks go through Decoder.DecodeFull (the other way to decode a block)
	// unless they are fed per field.
	Full bool `json:"full,omitempty"`
	Blocks   []c01Block `json:"blocks"`
}

// ---------------------------------------------------------------------------------
// RFC 7541 Appendix A (own copy, index 1..61)

var c01Static = [...][2]string{
	{":authority", ""}, {":method", "GET"}, {":method", "POST"}, {":path", "/"}, {":path", "/index.html"},
	{":scheme", "http"}, {":scheme", "https"}, {":status", "200"}, {":status", "204"}, {":status", "206"},
	{":status", "304"}, {":status", "400"}, {":status", "404"}, {":status", "500"}, {"accept-charset", ""},
	{"accept-encoding", "gzip, deflate"}, {"accept-language", ""}, {"accept-ranges", ""}, {"accept", ""},
	{"access-control-allow-origin", ""}, {"age", ""}, {"allow", ""}, {"authorization", ""}, {"cache-control", ""},
	{"content-disposition", ""}, {"content-encoding", ""}, {"content-language", ""}, {"content-length", ""},
	{"content-location", ""}, {"content-range", ""}, {"content-type", ""}, {"cookie", ""}, {"date", ""}, {"etag", ""},
	{"expect", ""}, {"expires", ""}, {"from", ""}, {"host", ""}, {"if-match", ""}, {"if-modified-since", ""},
	{"if-none-match", ""}, {"if-range", ""}, {"if-unmodified-since", ""}, {"last-modified", ""}, {"link", ""},
	{"location", ""}, {"max-forwards", ""}, {"proxy-authenticate", ""}, {"proxy-authorization", ""}, {"range", ""},
	{"referer", ""}, {"refresh", ""}, {"retry-after", ""}, {"server", ""}, {"set-cookie", ""},
	{"strict-transport-security", ""}, {"transfer-encoding", ""}, {"user-agent", ""}, {"vary", ""}, {"via", ""},
	{"www-authenticate", ""},
}

const c01StaticLen = 61

func c01StaticHasPair(name, value string) bool {
	for _, e := range c01Static {
		if e[0] == name && e[1] == value {
			return true
		}
	}
	return false
}

func c01StaticHasName(name string) bool {
	for _, e := range c01Static {
		if e[0] == name {
			return true
		}
	}
	return false
}

// ---------------------------------------------------------------------------------
// reference dynamic table, RFC 7541 §4

type c01RefEnt struct {
	name, value string
	block       int  // block in which the entry was inserted
	sens        bool // the field whose representation inserted it was written Sensitive
}

func (e c01RefEnt) size() uint64 { return uint64(len(e.name)) + uint64(len(e.value)) + 32 }

type c01RefTable struct {
	ents []c01RefEnt // oldest first
	size uint64
	max  uint64
}

// shrink evicts from the oldest end until size <= limit (§4.3, §4.4); returns the count.
func (t *c01RefTable) shrink(limit uint64) int {
	n := 0
	for len(t.ents) > 0 && t.size > limit {
		t.size -= t.ents[0].size()
		t.ents = t.ents[1:]
		n++
	}
	return n
}

// setMax is a dynamic table size update (§4.3, §6.3).
func (t *c01RefTable) setMax(v uint64) int {
	t.max = v
	return t.shrink(v)
}

// add inserts a new entry (§4.4): entries are evicted until there is room; an entry
// larger than the maximum size empties the table and is not inserted.
func (t *c01RefTable) add(e c01RefEnt) int {
	sz := e.size()
	if sz > t.max {
		return t.shrink(0)
	}
	n := t.shrink(t.max - sz)
	t.ents = append(append([]c01RefEnt(nil), t.ents...), e)
	t.size += sz
	return n
}

// at returns the entry with dynamic index i (1 = newest, §2.3.3).
func (t *c01RefTable) at(i uint64) (c01RefEnt, bool) {
	if i < 1 || i > uint64(len(t.ents)) {
		return c01RefEnt{}, false
	}
	return t.ents[uint64(len(t.ents))-i], true
}

func (t *c01RefTable) hasPair(name, value string) bool {
	for _, e := range t.ents {
		if e.name == name && e.value == value {
			return true
		}
	}
	return false
}

func (t *c01RefTable) hasName(name string) bool {
	for _, e := range t.ents {
		if e.name == name {
			return true
		}
	}
	return false
}

// ---------------------------------------------------------------------------------
// independent parser of encoder output (RFC 7541 §5.1, §5.2, §6)

type c01RepKind int

const (
	c01Indexed  c01RepKind = iota // §6.1  1xxxxxxx
	c01LitIncr                    // §6.2.1 01xxxxxx
	c01LitNoIdx                   // §6.2.2 0000xxxx
	c01LitNever                   // §6.2.3 0001xxxx
	c01SizeUpd                    // §6.3  001xxxxx
)

func (k c01RepKind) String() string {
	switch k {
	case c01Indexed:
		return "indexed"
	case c01LitIncr:
		return "literal-incremental-indexing"
	case c01LitNoIdx:
		return "literal-without-indexing"
	case c01LitNever:
		return "literal-never-indexed"
	case c01SizeUpd:
		return "table-size-update"
	}
	return "?"
}

type c01Rep struct {
	Kind       c01RepKind
	Index      uint64 // indexed: the index; literals: the name index (0 = literal name)
	Size       uint64 // size update: new maximum size
	NameHuff   bool
	ValueHuff  bool
	NameLen    int // encoded length of the literal name (0 if indexed name)
	ValueLen   int // encoded length of the literal value
	Start, End int // byte extent within the parsed buffer
}

// c01PrefixInt decodes an N-bit-prefix integer at b[p] (§5.1).
func c01PrefixInt(b []byte, p int, n uint) (v uint64, next int, err error) {
	if p >= len(b) {
		return 0, p, fmt.Errorf("truncated integer at offset %d", p)
	}
	mask := uint64(1)<<n - 1
	v = uint64(b[p]) & mask
	p++
	if v < mask {
		return v, p, nil
	}
	for m := uint(0); ; m += 7 {
		if p >= len(b) {
			return 0, p, fmt.Errorf("truncated integer continuation at offset %d", p)
		}
		if m > 56 {
			return 0, p, fmt.Errorf("integer too long at offset %d", p)
		}
		c := b[p]
		p++
		v += uint64(c&0x7f) << m
		if c&0x80 == 0 {
			return v, p, nil
		}
	}
}

// c01SkipString skips a string literal at b[p] (§5.2).
func c01SkipString(b []byte, p int) (huff bool, n int, next int, err error) {
	if p >= len(b) {
		return false, 0, p, fmt.Errorf("truncated string literal at offset %d", p)
	}
	huff = b[p]&0x80 != 0
	l, q, err := c01PrefixInt(b, p, 7)
	if err != nil {
		return huff, 0, q, err
	}
	if l > uint64(len(b)-q) {
		return huff, 0, q, fmt.Errorf("string literal of length %d at offset %d exceeds the %d remaining bytes", l, p, len(b)-q)
	}
	return huff, int(l), q + int(l), nil
}

// c01ParseReps splits b into its representations.
func c01ParseReps(b []byte) ([]c01Rep, error) {
	var out []c01Rep
	p := 0
	for p < len(b) {
		r := c01Rep{Start: p}
		c := b[p]
		var err error
		var prefix uint
		switch {
		case c&0x80 != 0:
			r.Kind, prefix = c01Indexed, 7
		case c&0xc0 == 0x40:
			r.Kind, prefix = c01LitIncr, 6
		case c&0xe0 == 0x20:
			r.Kind, prefix = c01SizeUpd, 5
		case c&0xf0 == 0x10:
			r.Kind, prefix = c01LitNever, 4
		default: // c&0xf0 == 0
			r.Kind, prefix = c01LitNoIdx, 4
		}
		var v uint64
		v, p, err = c01PrefixInt(b, p, prefix)
		if err != nil {
			return out, err
		}
		switch r.Kind {
		case c01Indexed:
			if v == 0 {
				return out, fmt.Errorf("indexed representation with index 0 at offset %d", r.Start)
			}
			r.Index = v
		case c01SizeUpd:
			r.Size = v
		default:
			r.Index = v
			if v == 0 {
				r.NameHuff, r.NameLen, p, err = c01SkipString(b, p)
				if err != nil {
					return out, err
				}
			}
			r.ValueHuff, r.ValueLen, p, err = c01SkipString(b, p)
			if err != nil {
				return out, err
			}
		}
		r.End = p
		out = append(out, r)
	}
	return out, nil
}

// ---------------------------------------------------------------------------------
// white-box snapshots

type c01Snap struct {
	ents       [][2]string // newest first
	size, max  uint32
	evictCount uint64
}

func c01SnapTable(dt *dynamicTable) c01Snap {
	s := c01Snap{size: dt.size, max: dt.maxSize, evictCount: dt.table.evictCount}
	for i := len(dt.table.ents) - 1; i >= 0; i-- {
		e := dt.table.ents[i]
		s.ents = append(s.ents, [2]string{e.Name, e.Value})
	}
	return s
}

func (s c01Snap) sameEntries(o c01Snap) bool {
	if len(s.ents) != len(o.ents) || s.evictCount != o.evictCount || s.size != o.size {
		return false
	}
	for i := range s.ents {
		if s.ents[i] != o.ents[i] {
			return false
		}
	}
	return true
}

func c01Short(s string) string {
	if len(s) > 40 {
		return fmt.Sprintf("%q...(%d bytes)", s[:40], len(s))
	}
	return fmt.Sprintf("%q", s)
}

func c01FmtEnts(e [][2]string) string {
	var sb strings.Builder
	sb.WriteString("[")
	for i, x := range e {
		if i > 0 {
			sb.WriteString(" ")
		}
		if i >= 8 {
			fmt.Fprintf(&sb, "...(%d entries)", len(e))
			break
		}
		fmt.Fprintf(&sb, "%s=%s", c01Short(x[0]), c01Short(x[1]))
	}
	sb.WriteString("]")
	return sb.String()
}

func (t *c01RefTable) newestFirst() [][2]string {
	var out [][2]string
	for i := len(t.ents) - 1; i >= 0; i-- {
		out = append(out, [2]string{t.ents[i].name, t.ents[i].value})
	}
	return out
}

// c01Sink collects what the encoder writes during one WriteField call.
type c01Sink struct {
	cur    []byte
	writes int
}

func (s *c01Sink) Write(p []byte) (int, error) {
	s.cur = append(s.cur, p...)
	s.writes++
	return len(p), nil
}

// ---------------------------------------------------------------------------------
// the class of histories of finding "c01-two-size-updates-rejected"

const c01KnownKey = "c01-two-size-updates-rejected"

// c01DoubleUpdateOnNonEmptyTable reports whether, in history c, the first field of some
// block is preceded by TWO dynamic table size updates (the smallest size set through
// SetMaxDynamicTableSize since the last update, then the final size — the signalling
// RFC 7541 §4.2 requires) while the peer's dynamic table is still non-empty after the
// first of them. It is a pure model of the documented Encoder API (sizes are clamped to
// the limit; lowering the limit below the current size truncates and schedules an
// update; a non-sensitive field that is in neither table and fits is inserted), used only
// as the predicate of the known finding, never as an oracle.
func c01DoubleUpdateOnNonEmptyTable(c c01Case) bool {
	const none = ^uint64(0)
	var (
		cur     uint64 = 4096 // encoder's current maximum size
		limit   uint64 = 4096
		minSet         = none // smallest SetMaxDynamicTableSize since the last emitted update
		pending        = false
		encT           = c01RefTable{max: 4096}
		decT           = c01RefTable{max: 4096}
	)
	for _, blk := range c.Blocks {
		for _, op := range blk.Ops {
			v := uint64(op.V)
			if op.Limit {
				limit = v
				if cur > v {
					cur = v
					pending = true
					encT.setMax(cur)
				}
				continue
			}
			if v > limit {
				v = limit
			}
			if v < minSet {
				minSet = v
			}
			cur = v
			pending = true
			encT.setMax(cur)
		}
		for _, cf := range blk.Fields {
			if pending {
				pending = false
				if minSet < cur {
					decT.setMax(minSet)
					if len(decT.ents) > 0 {
						return true
					}
				}
				minSet = none
				decT.setMax(cur)
			}
			f := cf.hf()
			if f.Sensitive {
				continue
			}
			if c01StaticHasPair(f.Name, f.Value) || encT.hasPair(f.Name, f.Value) {
				continue
			}
			e := c01RefEnt{name: f.Name, value: f.Value}
			if e.size() <= cur {
				encT.add(e)
				decT.add(e)
			}
		}
	}
	return false
}

// ---------------------------------------------------------------------------------
// generator

var c01NamePool = []string{"a", "x-k", "", "cookie", ":path", "x-custom-header-name", "set-cookie", "\x80\xff"}
var c01ValuePool = []string{"v", "", "1", "value-two", "gzip, deflate", "/", "\x00\xff\xfe", "session=0123456789abcdef"}

var c01PairPool = [][2]string{{"a", "v"}, {"a", "w"}, {"x-k", "1"}, {"cookie", "session=0123456789abcdef"}, {"x-custom-header-name", "value-two"}, {"", ""}, {":path", "/x"}, {"b", ""}}

var c01SizeConsts = []uint32{0, 1, 31, 32, 33, 34, 35, 64, 66, 67, 70, 100, 128, 200, 300, 1000, 4095, 4096, 4097, 65536, 1<<32 - 1}

// c01OtherCase returns, one time in four, the name with some letters in upper case:
// the encoder does not normalise names, so "Content-Type" is a different name from the
// static table's "content-type" and has to arrive as written.
func c01OtherCase(t *rapid.T, name string) string {
	if name == "" || rapid.IntRange(0, 3).Draw(t, "otherCase") != 0 {
		return name
	}
	b := []byte(name)
	switch rapid.IntRange(0, 2).Draw(t, "caseKind") {
	case 0:
		return strings.ToUpper(name)
	case 1: // Title-Case
		up := true
		for i, c := range b {
			if up && 'a' <= c && c <= 'z' {
				b[i] = c - 32
			}
			up = c == '-' || c == ':'
		}
	default:
		k := rapid.IntRange(0, len(b)-1).Draw(t, "caseAt")
		if 'a' <= b[k] && b[k] <= 'z' {
			b[k] -= 32
		}
	}
	return string(b)
}

func c01FieldSize(f c01Field) uint32 { return f.hf().Size() }

// c01GenCase draws a history. sensBias shifts the distribution towards sensitive fields
// that duplicate (name, value) pairs seen earlier in the history or present in the static
// table, and non-sensitive repeats of earlier sensitive fields (C05).
func c01GenCase(t *rapid.T, sensBias bool) c01Case {
	maxBlocks, maxFields := 10, 10
	if vp.Thorough() {
		maxBlocks, maxFields = 16, 14
	}
	var prev []c01Field
	sensPct := 20
	if sensBias {
		sensPct = 45
	}
	// thresholds of the field kinds: pool pair, copy of an earlier field, static pair,
	// static name + pool value, arbitrary bytes, long
	th := [5]int{32, 54, 64, 74, 90}
	if sensBias {
		th = [5]int{25, 58, 72, 82, 94}
	}
	fieldGen := rapid.Custom(func(t *rapid.T) c01Field {
		var f c01Field
		kind := rapid.IntRange(0, 99).Draw(t, "kind")
		drawS := func() bool { return rapid.IntRange(0, 99).Draw(t, "sens") < sensPct }
		switch {
		case kind < th[0]:
			if rapid.IntRange(0, 9).Draw(t, "fixedPair") < 6 {
				p := rapid.SampledFrom(c01PairPool).Draw(t, "pair")
				f.N, f.V = c01Str(p[0]), c01Str(p[1])
			} else {
				f.N = c01Str(rapid.SampledFrom(c01NamePool).Draw(t, "poolName"))
				f.V = c01Str(rapid.SampledFrom(c01ValuePool).Draw(t, "poolValue"))
			}
			f.S = drawS()
		case kind < th[1] && len(prev) > 0:
			src := prev[rapid.IntRange(0, len(prev)-1).Draw(t, "copyOf")]
			f = src
			if sensBias && rapid.IntRange(0, 9).Draw(t, "flip") < 7 {
				f.S = !src.S
			} else {
				f.S = drawS()
			}
		case kind < th[2]:
			i := rapid.SampledFrom([]int{1, 2, 3, 4, 5, 6, 7, 8, 9, 13, 15, 0, 14, 31, 60}).Draw(t, "staticPair")
			f.N, f.V = c01Str(c01Static[i][0]), c01Str(c01Static[i][1])
			f.N = c01Str(c01OtherCase(t, string(f.N)))
			f.S = drawS()
		case kind < th[3]:
			i := rapid.IntRange(0, c01StaticLen-1).Draw(t, "staticName")
			f.N = c01Str(c01OtherCase(t, c01Static[i][0]))
			f.V = c01Str(rapid.SampledFrom(c01ValuePool).Draw(t, "poolValue"))
			f.S = drawS()
		case kind < th[4]:
			f.N = c01Str(vp.Bytes(0, 8).Draw(t, "nameBytes"))
			f.V = c01Str(vp.Bytes(0, 24).Draw(t, "valueBytes"))
			f.S = drawS()
		default:
			var base []byte
			switch rapid.IntRange(0, 2).Draw(t, "alphabet") {
			case 0: // Huffman-favourable
				base = rapid.SliceOfN(rapid.ByteRange('a', 'z'), 1, 3).Draw(t, "base")
			case 1: // incompressible
				base = rapid.SliceOfN(rapid.ByteRange(0x80, 0xff), 1, 3).Draw(t, "base")
			default:
				base = vp.Bytes(1, 3).Draw(t, "base")
			}
			total := rapid.SampledFrom([]int{42, 63, 64, 65, 126, 127, 128, 129, 160, 254, 255, 256, 300, 1000, 2047, 4000, 4062, 4063, 4064, 4065, 5000}).Draw(t, "len")
			rep := total / len(base)
			if rep < 1 {
				rep = 1
			}
			if rapid.IntRange(0, 4).Draw(t, "longName") == 0 {
				f.N, f.NRep = c01Str(base), rep
				f.V = c01Str(rapid.SampledFrom(c01ValuePool).Draw(t, "poolValue"))
			} else {
				f.N = c01Str(rapid.SampledFrom(c01NamePool).Draw(t, "poolName"))
				f.V, f.VRep = c01Str(base), rep
			}
			f.S = drawS()
		}
		prev = append(prev, f)
		return f
	})
	opGen := func(fields []c01Field) *rapid.Generator[c01Op] {
		return rapid.Custom(func(t *rapid.T) c01Op {
			var op c01Op
			k := rapid.IntRange(0, 9).Draw(t, "sizeKind")
			switch {
			case k < 3:
				op.V = uint32(rapid.IntRange(0, 400).Draw(t, "small"))
			case k < 6:
				op.V = rapid.SampledFrom(c01SizeConsts).Draw(t, "const")
			case k < 9 && (len(fields) > 0 || len(prev) > 0):
				// relative to real entry sizes: one entry, or the first j entries of this block
				var sz int64
				if len(fields) > 0 {
					j := rapid.IntRange(0, len(fields)-1).Draw(t, "upTo")
					if rapid.Bool().Draw(t, "cumulative") {
						for _, f := range fields[:j+1] {
							sz += int64(c01FieldSize(f))
						}
					} else {
						sz = int64(c01FieldSize(fields[j]))
					}
				} else {
					sz = int64(c01FieldSize(prev[rapid.IntRange(0, len(prev)-1).Draw(t, "sizeOf")]))
				}
				sz += int64(rapid.IntRange(-1, 1).Draw(t, "delta"))
				if sz < 0 {
					sz = 0
				}
				op.V = uint32(sz)
			default:
				op.V = rapid.Uint32Range(0, 70000).Draw(t, "any")
			}
			op.Limit = rapid.IntRange(0, 9).Draw(t, "isLimit") < 3
			return op
		})
	}
	blockGen := rapid.Custom(func(t *rapid.T) c01Block {
		var b c01Block
		b.Fields = rapid.SliceOfN(fieldGen, 0, maxFields).Draw(t, "fields")
		nops := 0
		if rapid.IntRange(0, 99).Draw(t, "hasOps") < 45 {
			nops = 4
		}
		b.Ops = rapid.SliceOfN(opGen(b.Fields), 0, nops).Draw(t, "ops")
		if len(b.Fields) == 0 {
			b.Fields = nil
		}
		if len(b.Ops) == 0 {
			b.Ops = nil
		}
		return b
	})
	return c01Case{
		PerField: rapid.Bool().Draw(t, "perField"),
		Full:     rapid.IntRange(0, 2).Draw(t, "full") == 0,
		Blocks:   rapid.SliceOfN(blockGen, 1, maxBlocks).Draw(t, "blocks"),
	}
}
