package hpack

import (
	"fmt"
	"testing"

	"pgregory.net/rapid"
	"verif/vp"
)

// C05: HPACK never indexes sensitive header fields.
//
// Histories come from the C01 generator (c01_model_test.go) biased towards sensitive
// fields whose (name, value) already sits in the static or dynamic table and towards
// non-sensitive repeats of earlier sensitive fields. Every WriteField is observed on its
// own: the bytes it produced are classified by the independent RFC 7541 §6 parser, the
// encoder's table is snapshotted before and after, the bytes are then fed to the decoder
// (size updates first, the field representation separately) with the decoder's table
// snapshotted around the field representation.

func c05Gen(t *rapid.T) c01Case { return c01GenCase(t, true) }

type c05Pair struct{ name, value string }

func c05Prop(c c01Case, r *vp.Rec) error {
	sink := &c01Sink{}
	enc := NewEncoder(sink)
	var got []HeaderField
	dec := NewDecoder(initialHeaderTableSize, func(f HeaderField) { got = append(got, f) })
	ref := c01RefTable{max: initialHeaderTableSize} // driven by the wire; entries remember who inserted them

	nonSensWritten := map[c05Pair]bool{} // pairs written at least once with Sensitive == false
	sensWritten := map[c05Pair]bool{}    // pairs written at least once with Sensitive == true
	classes := map[string]bool{}
	nontrivial := false

	for bi, blk := range c.Blocks {
		for _, op := range blk.Ops {
			if op.Limit {
				enc.SetMaxDynamicTableSizeLimit(op.V)
				dec.SetAllowedMaxDynamicTableSize(op.V)
			} else {
				enc.SetMaxDynamicTableSize(op.V)
			}
		}
		for fi, cf := range blk.Fields {
			f := cf.hf()
			pair := c05Pair{f.Name, f.Value}
			where := fmt.Sprintf("block %d field %d {%s %s sensitive=%v}", bi, fi, c01Short(f.Name), c01Short(f.Value), f.Sensitive)

			before := c01SnapTable(&enc.dynTab)
			inStatic := c01StaticHasPair(f.Name, f.Value)
			inDyn := false
			for _, e := range before.ents {
				if e[0] == f.Name && e[1] == f.Value {
					inDyn = true
				}
			}
			sink.cur = nil
			if err := enc.WriteField(f); err != nil {
				return fmt.Errorf("%s: WriteField = %v", where, err)
			}
			chunk := sink.cur
			after := c01SnapTable(&enc.dynTab)

			reps, perr := c01ParseReps(chunk)
			if perr != nil {
				return fmt.Errorf("%s: encoder output %x is not a sequence of RFC 7541 representations: %v", where, chunk, perr)
			}
			// leading size updates, then exactly one field representation
			k := 0
			for k < len(reps) && reps[k].Kind == c01SizeUpd {
				ref.setMax(reps[k].Size)
				k++
			}
			if len(reps)-k != 1 || reps[k].Kind == c01SizeUpd {
				return fmt.Errorf("%s: encoder output %x holds %d representations after %d size updates, want exactly one field representation", where, chunk, len(reps)-k, k)
			}
			rp := reps[k]

			if f.Sensitive {
				classes["sensitive-field"] = true
				switch {
				case inStatic:
					classes["sensitive-pair-in-static-table"] = true
					nontrivial = true
				case inDyn:
					classes["sensitive-pair-in-dynamic-table"] = true
					nontrivial = true
				case c01StaticHasName(f.Name) || ref.hasName(f.Name):
					classes["sensitive-name-in-a-table"] = true
				default:
					classes["sensitive-new-name"] = true
				}
				if nonSensWritten[pair] {
					classes["sensitive-after-identical-non-sensitive"] = true
				}
				// (1) always a never-indexed literal
				if rp.Kind != c01LitNever {
					return fmt.Errorf("%s: encoded as %v (first byte %#02x, output %x), want a never-indexed literal (0001xxxx); pair in static table: %v, in encoder dynamic table: %v",
						where, rp.Kind, chunk[rp.Start], chunk, inStatic, inDyn)
				}
				if rp.Index > 0 {
					classes["sensitive-literal-with-name-reference"] = true
				} else {
					classes["sensitive-literal-with-literal-name"] = true
				}
				// (2) never added to the encoder's dynamic table
				if !before.sameEntries(after) {
					return fmt.Errorf("%s: WriteField changed the encoder's dynamic table from %s (evicted %d) to %s (evicted %d)",
						where, c01FmtEnts(before.ents), before.evictCount, c01FmtEnts(after.ents), after.evictCount)
				}
			} else {
				if sensWritten[pair] {
					classes["non-sensitive-after-identical-sensitive"] = true
				}
				switch rp.Kind {
				case c01Indexed:
					// (5) a reference must not resolve to an entry a sensitive field inserted
					if rp.Index > c01StaticLen {
						e, ok := ref.at(rp.Index - c01StaticLen)
						if ok && e.sens {
							return fmt.Errorf("%s: encoded as index %d, a dynamic-table entry inserted by the sensitive field {%s %s} of block %d",
								where, rp.Index, c01Short(e.name), c01Short(e.value), e.block)
						}
						classes["non-sensitive-indexed-dynamic"] = true
					}
				case c01LitIncr:
					classes["non-sensitive-inserted"] = true
				}
			}
			if rp.Kind == c01LitIncr {
				ref.add(c01RefEnt{name: f.Name, value: f.Value, block: bi, sens: f.Sensitive})
			}
			if f.Sensitive {
				sensWritten[pair] = true
			} else {
				nonSensWritten[pair] = true
			}

			// decoder: size updates first, then the field representation on its own
			decErr := func(err error, p []byte) error {
				if k == 2 && len(p) == rp.Start && dec.dynTab.table.len() > 0 && c01DoubleUpdateOnNonEmptyTable(c) {
					// finding c01-two-size-updates-rejected (a C01 matter): the decoder is
					// lost from here on, nothing about sensitivity can be observed
					r.Discard("decoder rejected the second size update (C01 finding " + c01KnownKey + ")")
					return nil
				}
				return fmt.Errorf("%s: Decoder.Write(%x) = %v", where, p, err)
			}
			if rp.Start > 0 {
				if _, err := dec.Write(chunk[:rp.Start]); err != nil {
					return decErr(err, chunk[:rp.Start])
				}
			}
			dbefore := c01SnapTable(&dec.dynTab)
			got = got[:0]
			if _, err := dec.Write(chunk[rp.Start:]); err != nil {
				return decErr(err, chunk[rp.Start:])
			}
			dafter := c01SnapTable(&dec.dynTab)
			if len(got) != 1 {
				return fmt.Errorf("%s: decoder emitted %d fields for one field representation %x", where, len(got), chunk[rp.Start:])
			}
			// (3) the decoder reports Sensitive exactly for the sensitive fields
			if got[0].Sensitive != f.Sensitive {
				return fmt.Errorf("%s: decoder reports Sensitive=%v (representation %v, bytes %x)", where, got[0].Sensitive, rp.Kind, chunk[rp.Start:])
			}
			// (4) and does not add them to its table
			if f.Sensitive && !dbefore.sameEntries(dafter) {
				return fmt.Errorf("%s: decoding it changed the decoder's dynamic table from %s (evicted %d) to %s (evicted %d)",
					where, c01FmtEnts(dbefore.ents), dbefore.evictCount, c01FmtEnts(dafter.ents), dafter.evictCount)
			}
		}
		if err := dec.Close(); err != nil {
			return fmt.Errorf("block %d: Decoder.Close() = %v", bi, err)
		}

		// (6) no table ever holds a pair that was only ever written as sensitive
		for si, snap := range []c01Snap{c01SnapTable(&enc.dynTab), c01SnapTable(&dec.dynTab)} {
			side := [2]string{"encoder", "decoder"}[si]
			for i, e := range snap.ents {
				if !nonSensWritten[c05Pair{e[0], e[1]}] {
					return fmt.Errorf("after block %d: %s dynamic table entry %d {%s %s} was never written as a non-sensitive field (written sensitive: %v)",
						bi, side, i+1, c01Short(e[0]), c01Short(e[1]), sensWritten[c05Pair{e[0], e[1]}])
				}
			}
		}
		for i := range enc.dynTab.table.ents {
			if enc.dynTab.table.ents[i].Sensitive {
				return fmt.Errorf("after block %d: encoder dynamic table holds an entry marked Sensitive: %v", bi, enc.dynTab.table.ents[i])
			}
		}
		for i := range dec.dynTab.table.ents {
			if dec.dynTab.table.ents[i].Sensitive {
				return fmt.Errorf("after block %d: decoder dynamic table holds an entry marked Sensitive: %v", bi, dec.dynTab.table.ents[i])
			}
		}
	}

	for k := range classes {
		r.Class(k)
	}
	if nontrivial {
		r.NonTrivial()
	}
	return nil
}

func TestVP_C05(t *testing.T) {
	vp.Run(t, vp.Spec[c01Case]{ID: "C05", Gen: c05Gen, Prop: c05Prop})
}
