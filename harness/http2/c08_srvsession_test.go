package http2_test

// Shared HTTP/2 server-session harness (used by C08, C10, C11, C15, C16).
//
// A session is a real http2.Server serving one in-memory connection inside a
// testing/synctest bubble; the harness plays the client with a Framer. Nothing here
// calls t.Fatal: problems are returned as errors.

import (
	"bytes"
	"crypto/tls"
	"fmt"
	"io"
	"log"
	"net/http"
	"net/http/httptest"
	"os"
	"testing"
	"testing/synctest"
	"time"

	. "golang.org/x/net/http2"
	"golang.org/x/net/http2/hpack"
)

type vpSrv struct {
	cli  *synctestNetConn
	srv  *synctestNetConn
	fr   *Framer
	enc  *hpack.Encoder
	hbuf bytes.Buffer
	sc   *ServerConn
	done chan struct{} // closed when ServeConn returns
	h2   *Server
}

type vpSrvOpts struct {
	Sched             int // 0 RFC 9218 (the default from Go 1.27 on), 1 round-robin (today's default), 2 random, 3 RFC 7540 priority, 4 RFC 7540 with write throttling
	MaxStreams        uint32
	MaxReadFrame      uint32
	UploadPerConn     int32
	UploadPerStream   int32
	MaxDecoderTable   uint32
	MaxEncoderTable   uint32
	ReadBuf           int // client's read buffer size limit (0 = unlimited)
	NoPrefaceHandling bool
	MaxHeaderBytes    int // http.Server.MaxHeaderBytes (0 = default, 1 MiB)
	// Upgrade starts the connection the way golang.org/x/net/http2/h2c does after an
	// "Upgrade: h2c" request: ServeConnOpts.UpgradeRequest (a GET for UpgradePath, which
	// becomes stream 1, half-closed by the client) and ServeConnOpts.Settings (the
	// decoded HTTP2-Settings header, client-controlled bytes). The client still sends
	// its preface.
	Upgrade         bool
	UpgradePath     string
	UpgradeSettings []byte
}

func vpSched(k int) func() WriteScheduler {
	switch k {
	case 0:
		// Named explicitly: with the Go releases available here the server's default is
		// still the round-robin scheduler (client_priority_go126.go).
		return VPNewRFC9218WriteScheduler
	case 1:
		return VPNewRoundRobinWriteScheduler
	case 2:
		return NewRandomWriteScheduler
	case 3:
		return func() WriteScheduler { return NewPriorityWriteScheduler(nil) }
	case 4:
		return func() WriteScheduler {
			return NewPriorityWriteScheduler(&PriorityWriteSchedulerConfig{ThrottleOutOfOrderWrites: true})
		}
	}
	return nil
}

// vpNewSrv starts a server connection. Must be called inside a bubble.
func vpNewSrv(o vpSrvOpts, handler http.Handler) *vpSrv {
	h1 := &http.Server{ErrorLog: log.New(io.Discard, "", 0), MaxHeaderBytes: o.MaxHeaderBytes}
	h2 := &Server{
		MaxConcurrentStreams:         o.MaxStreams,
		MaxReadFrameSize:             o.MaxReadFrame,
		MaxUploadBufferPerConnection: o.UploadPerConn,
		MaxUploadBufferPerStream:     o.UploadPerStream,
		MaxDecoderHeaderTableSize:    o.MaxDecoderTable,
		MaxEncoderHeaderTableSize:    o.MaxEncoderTable,
		NewWriteScheduler:            vpSched(o.Sched),
	}
	ConfigureServer(h1, h2)
	cli, srv := synctestNetPipe()
	cli.SetReadDeadline(time.Now())
	cli.autoWait = true
	if o.ReadBuf > 0 {
		cli.SetReadBufferSize(o.ReadBuf)
	}
	s := &vpSrv{cli: cli, srv: srv, done: make(chan struct{}), h2: h2}
	s.enc = hpack.NewEncoder(&s.hbuf)
	connc := make(chan *ServerConn, 1)
	h2.TestSetNewConnFunc(func(sc *ServerConn) { connc <- sc })
	tlsState := tls.ConnectionState{
		Version:            tls.VersionTLS13,
		ServerName:         "go.dev",
		CipherSuite:        tls.TLS_AES_128_GCM_SHA256,
		NegotiatedProtocol: "h2",
	}
	opts := &ServeConnOpts{Handler: handler, BaseConfig: h1}
	if o.Upgrade {
		req := httptest.NewRequest("GET", o.UpgradePath, nil)
		req.Header.Set("Connection", "Upgrade, HTTP2-Settings")
		req.Header.Set("Upgrade", "h2c")
		opts.UpgradeRequest = req
		opts.Settings = o.UpgradeSettings
		if opts.Settings == nil {
			opts.Settings = []byte{}
		}
	}
	go func() {
		defer close(s.done)
		h2.ServeConn(&netConnWithConnectionState{Conn: srv, state: tlsState}, opts)
	}()
	select {
	case s.sc = <-connc:
	case <-s.done:
		// ServeConn gave up before the connection was set up (for example rejected
		// HTTP2-Settings of an upgrade request): s.sc stays nil
	}
	s.fr = NewFramer(cli, cli)
	s.fr.SetMaxReadFrameSize(1<<24 - 1)
	synctest.Wait()
	return s
}

// read returns the next frame the server wrote, nil when the connection is idle, or
// (nil, io.EOF) when it is closed. Frame contents are only valid until the next read.
func (s *vpSrv) read() (Frame, error) {
	f, err := s.fr.ReadFrame()
	if err == os.ErrDeadlineExceeded || err == errWouldBlock {
		return nil, nil
	}
	if err != nil {
		return nil, err
	}
	return f, nil
}

func (s *vpSrv) encode(kv ...string) []byte {
	s.hbuf.Reset()
	for i := 0; i+1 < len(kv); i += 2 {
		s.enc.WriteField(hpack.HeaderField{Name: kv[i], Value: kv[i+1]})
	}
	return append([]byte(nil), s.hbuf.Bytes()...)
}

func (s *vpSrv) reqHeaders(method, path string, extra ...string) []byte {
	kv := []string{":method", method, ":scheme", "https", ":authority", "dummy.tld", ":path", path}
	kv = append(kv, extra...)
	return s.encode(kv...)
}

// closeAndWait closes the client side and waits (fake time) for ServeConn to return.
func (s *vpSrv) closeAndWait(d time.Duration) bool {
	s.cli.Close()
	synctest.Wait()
	select {
	case <-s.done:
		return true
	default:
	}
	time.Sleep(d)
	synctest.Wait()
	select {
	case <-s.done:
		return true
	default:
		return false
	}
}

// vpBubble runs f inside a synctest bubble and converts a bubble deadlock panic or
// any panic on the bubble's root goroutine into an error.
func vpBubble(t *testing.T, f func() error) (err error) {
	defer func() {
		if p := recover(); p != nil {
			err = fmt.Errorf("panic around bubble: %v", p)
		}
	}()
	synctest.Test(t, func(*testing.T) {
		err = f()
	})
	return err
}

// vpPattern returns the deterministic byte at absolute offset off of stream-plan k.
func vpPattern(k int, off int) byte { return byte(off*7 + k*31 + off>>8) }
