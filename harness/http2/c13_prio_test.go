package http2

import (
	"testing"

	"pgregory.net/rapid"
	"verif/vp"
)

// C13: the RFC 9218 scheduler respects urgency and serves every ready stream.
// The history interpreter and the frame/flow model are shared with C12
// (c12_model_test.go); this file adds the priority oracle, evaluated around every Pop.

type c13State struct {
	// snapshot taken right before a Pop
	sendable []*c13Snap
	minU     uint8
	// fairness: per incremental stream, Pops at its own (minimal) urgency level that
	// served another stream while it was sendable, and the largest population of its
	// ring seen meanwhile
	wait    map[uint32]int
	ringMax map[uint32]int
	// last served non-incremental stream per urgency (0 = none / moved / closed)
	lastNonInc [8]uint32
	// consecutive stream-frame Pops of an urgency level that served incremental streams
	// although a non-incremental stream of that level was sendable each time
	nonIncWait [8]int

	servedInc     map[uint32]int
	sawTwoLevels  bool
	sawTwoIncLive bool
	maxWait       int
}

type c13Snap struct {
	s    *c12Stream
	u, i uint8
}

func (st *c13State) prePop(w *c12World) {
	st.sendable = st.sendable[:0]
	st.minU = 8
	for _, s := range w.openStreams() {
		if w.sendable(s) {
			st.sendable = append(st.sendable, &c13Snap{s, s.u, s.i})
			if s.u < st.minU {
				st.minU = s.u
			}
		}
	}
}

func (st *c13State) moved(w *c12World, s *c12Stream) {
	// closed, or re-inserted at the tail of a ring by AdjustStream
	delete(st.wait, s.id)
	delete(st.ringMax, s.id)
	for u := range st.lastNonInc {
		if st.lastNonInc[u] == s.id {
			st.lastNonInc[u] = 0
		}
	}
}

func (st *c13State) postPop(w *c12World, p c12Popped) error {
	if !p.ok || p.control {
		// (that Pop reports a frame whenever one is sendable is checked by the shared model)
		if !p.ok {
			for id := range st.wait {
				delete(st.wait, id)
			}
			st.nonIncWait = [8]int{}
		}
		return nil
	}
	x := p.s
	var xs *c13Snap
	levels := map[uint8]bool{}
	incAtMin := 0
	for _, sn := range st.sendable {
		levels[sn.u] = true
		if sn.s == x {
			xs = sn
		}
		if sn.u == st.minU && sn.i == 1 {
			incAtMin++
		}
	}
	if xs == nil {
		return w.errf("Pop served stream %d which had no sendable frame", x.id)
	}
	if len(levels) >= 2 {
		st.sawTwoLevels = true
		w.rec.Class("pop-with>=2-urgency-levels-sendable")
	}
	if incAtMin >= 2 {
		st.sawTwoIncLive = true
		w.rec.Class("pop-with>=2-incremental-sendable-at-level")
	}
	// (1) urgency
	if xs.u != st.minU {
		for _, sn := range st.sendable {
			if sn.u == st.minU {
				return w.errf("Pop served stream %d (urgency %d) while stream %d with urgency %d has the sendable frame %v", x.id, xs.u, sn.s.id, sn.u, sn.s.q[0])
			}
		}
	}
	// (2) no sendable incremental stream of this level is starved
	ringSize := map[uint8]int{}
	for _, s := range w.openStreams() {
		if s.i == 1 {
			ringSize[s.u]++
		}
	}
	live := map[uint32]bool{}
	for _, sn := range st.sendable {
		if sn.i != 1 || sn.u != st.minU || sn.s == x {
			continue
		}
		id := sn.s.id
		live[id] = true
		st.wait[id]++
		if ringSize[sn.u] > st.ringMax[id] {
			st.ringMax[id] = ringSize[sn.u]
		}
		if st.wait[id] > st.maxWait {
			st.maxWait = st.wait[id]
		}
		if bound := 2*st.ringMax[id] + 1; st.wait[id] > bound {
			return w.errf("incremental stream %d (urgency %d) has been sendable during %d consecutive Pops of its urgency level without being served (at most %d incremental streams at that level; bound %d)",
				id, sn.u, st.wait[id], st.ringMax[id], bound)
		}
	}
	for id := range st.wait {
		if !live[id] {
			delete(st.wait, id)
			delete(st.ringMax, id)
		}
	}
	// (2b) the non-incremental class of this level is not starved by the incremental one
	// (the scheduler alternates between the two classes on consecutive stream-frame
	// Pops, so 1 is what it promises; 3 is the tolerance used here)
	var nonIncSendable *c13Snap
	for _, sn := range st.sendable {
		if sn.u == st.minU && sn.i == 0 && nonIncSendable == nil {
			nonIncSendable = sn
		}
	}
	for u := range st.nonIncWait {
		if uint8(u) != st.minU || xs.i == 0 || nonIncSendable == nil {
			st.nonIncWait[u] = 0
		}
	}
	if xs.u == st.minU && xs.i == 1 && nonIncSendable != nil {
		st.nonIncWait[xs.u]++
		if st.nonIncWait[xs.u] >= 2 {
			w.rec.Class("non-incremental-passed-over-twice")
		}
		if st.nonIncWait[xs.u] > 3 {
			return w.errf("non-incremental stream %d (urgency %d) has the sendable frame %v, but the last %d stream-frame Pops of that urgency level all served incremental streams",
				nonIncSendable.s.id, xs.u, nonIncSendable.s.q[0], st.nonIncWait[xs.u])
		}
	}
	if xs.i == 1 {
		st.servedInc[x.id]++
		w.rec.Class("served-incremental")
	} else {
		// (3) a non-incremental stream is served until it has nothing sendable
		if q := st.lastNonInc[xs.u]; q != 0 && q != x.id {
			for _, sn := range st.sendable {
				if sn.s.id == q && sn.u == xs.u && sn.i == 0 {
					return w.errf("non-incremental stream %d (urgency %d) was being served and still has the sendable frame %v, but Pop switched to non-incremental stream %d of the same urgency",
						q, xs.u, sn.s.q[0], x.id)
				}
			}
		}
		if st.lastNonInc[xs.u] == x.id {
			w.rec.Class("served-non-incremental-again")
		} else {
			w.rec.Class("served-non-incremental-first")
		}
		st.lastNonInc[xs.u] = x.id
	}
	return nil
}

func c13Prop(c c12Case, r *vp.Rec) error {
	if c.Sched != "rfc9218" {
		r.Discard("not-rfc9218")
		return nil
	}
	st := &c13State{wait: map[uint32]int{}, ringMax: map[uint32]int{}, servedInc: map[uint32]int{}}
	err := c12Run(c, r, func(w *c12World) {
		w.prePop = st.prePop
		w.postPop = st.postPop
		w.onMoved = st.moved
		w.keepMFS = true
	})
	if err != nil {
		return err
	}
	busyInc := 0
	for _, n := range st.servedInc {
		if n >= 3 {
			busyInc++
		}
	}
	switch {
	case st.maxWait >= 4:
		r.Class("longest-wait>=4")
	case st.maxWait >= 2:
		r.Class("longest-wait-2..3")
	}
	if st.sawTwoLevels && st.sawTwoIncLive && busyInc >= 2 {
		r.NonTrivial()
	}
	return nil
}

func c13Gen(t *rapid.T) c12Case {
	max := 96
	if vp.Thorough() {
		max = 200
	}
	c := c12CaseGen(t, []string{"rfc9218"}, true, max)
	// most of the time: generous windows and small frames, so that streams stay
	// sendable over many Pops
	if rapid.IntRange(0, 3).Draw(t, "roomy") > 0 {
		c.InitWnd = int32(rapid.SampledFrom([]int{200, 3000, 65535}).Draw(t, "initWnd2"))
		c.ConnWnd = int32(rapid.SampledFrom([]int{2000, 65535, 1 << 20}).Draw(t, "connWnd2"))
		c.MFS = int32(rapid.SampledFrom([]int{1, 2, 3, 5, 8, 16}).Draw(t, "mfs2"))
	}
	return c
}

func TestVP_C13(t *testing.T) {
	vp.Run(t, vp.Spec[c12Case]{ID: "C13", Gen: c13Gen, Prop: c13Prop})
}
