package http2

// Exports for the server halves of C10/C11 (white-box overlay, test-only).

// VPSrvStartGracefulShutdown starts a graceful shutdown (GOAWAY NO_ERROR) the way
// http.Server.Shutdown does; safe to call from any goroutine but the serve loop.
func (sc *serverConn) VPSrvStartGracefulShutdown() { sc.startGracefulShutdown() }

// VPSrvConnInflow returns the connection-level receive accounting. It is used for
// diagnostics in failure messages only (never by an oracle); call only when quiescent.
func (sc *serverConn) VPSrvConnInflow() (avail, unsent int32) {
	return sc.inflow.avail, sc.inflow.unsent
}

// VPSrvResetQueued reports whether a RST_STREAM for the stream is queued but not yet
// written. Diagnostics (coverage class) only; call only when quiescent.
func (sc *serverConn) VPSrvResetQueued(id uint32) bool {
	st := sc.streams[id]
	return st != nil && st.resetQueued
}

// VPSrvStreamInflow returns what the server itself counts as receivable on the stream,
// and whether a DATA frame on it would be judged against that count at all (the stream
// is open on the server, no trailers seen, no RST_STREAM queued). Used to pick frame
// sizes only; call only when quiescent.
func (sc *serverConn) VPSrvStreamInflow(id uint32) (avail int32, ok bool) {
	state, st := sc.state(id)
	if st == nil || state != stateOpen || st.gotTrailerHeader || st.resetQueued || st.body == nil {
		return 0, false
	}
	return st.inflow.avail, true
}
