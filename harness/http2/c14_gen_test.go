package http2_test

// C14 case description and generator. The whole exchange plan (configs of both peers,
// 1-4 requests with the handler's scripted reply) is plain data drawn up front.

import (
	"net/http"
	"strings"

	"pgregory.net/rapid"
)

// c14Field is one header/trailer field. The value is Seed repeated Rep times with
// surrounding blanks removed (long values stay compact in the replay file).
type c14Field struct {
	Name string `json:"n"`
	Seed string `json:"s"`
	Rep  int    `json:"r"`
}

func (f c14Field) value() string {
	r := f.Rep
	if r < 1 {
		r = 1
	}
	return strings.Trim(strings.Repeat(f.Seed, r), " \t")
}

type c14Chunk struct {
	N     int  `json:"n"`
	Flush bool `json:"flush,omitempty"`
	Sleep bool `json:"sleep,omitempty"`
}

type c14Req struct {
	// request
	Method   string     `json:"method"`
	Scheme   string     `json:"scheme"`
	URLHost  string     `json:"url_host"`
	Host     string     `json:"host,omitempty"` // Request.Host override
	Path     string     `json:"path"`
	Query    string     `json:"query,omitempty"`
	ForceQ   bool       `json:"force_q,omitempty"`
	Fields   []c14Field `json:"fields,omitempty"`
	Cookies  []string   `json:"cookies,omitempty"`
	UA       string     `json:"ua,omitempty"`     // "" = leave to the Transport
	BodyKind int        `json:"body_kind"`        // 0 nil, 1 http.NoBody, 2 reader
	Chunks   []int      `json:"chunks,omitempty"` // sizes returned by successive Reads
	DeclLen  bool       `json:"decl_len,omitempty"`
	EOFData  bool       `json:"eof_data,omitempty"` // last Read returns (n, io.EOF)
	Trailers []c14Field `json:"trailers,omitempty"`
	TrEarly  bool       `json:"tr_early,omitempty"` // trailer values set before RoundTrip
	StartMS  int        `json:"start_ms,omitempty"`
	CliRead  int        `json:"cli_read"` // client's response-body read buffer
	CliPause bool       `json:"cli_pause,omitempty"`
	// Cancel: the request's context is cancelled at a scripted point: 1 before RoundTrip
	// is called, 2 at the CancelAt-th Read of the request body, 3 when the response
	// header has arrived, 4 after CancelAt response body bytes, 5 CancelAt fake ms after
	// RoundTrip was called. A cancelled request carries no delivery obligation.
	Cancel   int `json:"cancel,omitempty"`
	CancelAt int `json:"cancel_at,omitempty"`
	// handler script
	Status     int        `json:"status"`
	Early      int        `json:"early"` // >=0: send 103 with the first Early response fields
	RFields    []c14Field `json:"rfields,omitempty"`
	RChunks    []c14Chunk `json:"rchunks,omitempty"`
	RDeclLen   bool       `json:"rdecl_len,omitempty"`
	RTrailers  []c14Field `json:"rtrailers,omitempty"`  // announced with a Trailer header
	RTrStyle   int        `json:"rtr_style,omitempty"`  // 0 one comma list, 1 one Trailer value per name
	RPTrailers []c14Field `json:"rptrailers,omitempty"` // http2.TrailerPrefix
	RPEarly    bool       `json:"rp_early,omitempty"`   // prefixed keys set before WriteHeader
	RUnset     []string   `json:"runset,omitempty"`     // announced, never set
	Order      int        `json:"order"`                // 0 read request then reply, 1 header+flush, read, body, 2 reply fully then read
	SrvRead    int        `json:"srv_read"`
	SrvMS      int        `json:"srv_ms,omitempty"`
}

type c14Srv struct {
	MaxReadFrame   uint32 `json:"max_read_frame"`
	UpConn         int32  `json:"up_conn"`
	UpStream       int32  `json:"up_stream"`
	DecTable       uint32 `json:"dec_table"`
	EncTable       uint32 `json:"enc_table"`
	MaxStreams     uint32 `json:"max_streams"`
	Sched          int    `json:"sched"`
	MaxHeaderBytes int    `json:"max_header_bytes"`
	ReadBuf        int    `json:"read_buf"` // pipe buffer towards the server (0 = unlimited)
}

type c14Cli struct {
	MaxReadFrame  uint32 `json:"max_read_frame"`
	DecTable      uint32 `json:"dec_table"`
	EncTable      uint32 `json:"enc_table"`
	MaxHeaderList uint32 `json:"max_header_list"`
	RecvStream    int    `json:"recv_stream"`
	RecvConn      int    `json:"recv_conn"`
	ReadBuf       int    `json:"read_buf"`
}

type c14Case struct {
	Srv c14Srv `json:"srv"`
	Cli c14Cli `json:"cli"`
	// Start: 0 = requests start after both SETTINGS frames were exchanged; 2 = the
	// server's first bytes reach the client only after the client's first flight was
	// written (a peer one round trip away).
	Start int      `json:"start"`
	Reqs  []c14Req `json:"reqs"`
	// Aim names the header list that was padded to land on a limit boundary, e.g.
	// "req-header:limit+1" (informational; the padding field is part of the plan).
	Aim string `json:"aim,omitempty"`
}

const c14MaxBody = 400 << 10
const c14MaxHeaderBytes = 300 << 10

var (
	c14TokenRunes = []rune("abcdefghijklmnopqrstuvwxyzABCDEFGHIJKLMNOPQRSTUVWXYZ0123456789-_.!#$%&'*+^`|~")
	c14ValRunes   = []rune(" !\"#$%&'()*+,-./0123456789:;<=>?@ABCDEFGHIJKLMNOPQRSTUVWXYZ[\\]^_`abcdefghijklmnopqrstuvwxyz{|}~\taeiou étß日€😀")
	c14PathRunes  = []rune("abcXYZ019-._~!$&'()*+,;=:@ %?#\"<>[]{}|\\^`/é日")
	c14QueryToks  = []string{"a", "b", "Z", "0", "9", "-", ".", "_", "~", "+", "=", "&", ";", "/", "?", ":", "@", "!", "$", "'", "(", ")", "*", ",", "%41", "%20", "%C3%A9", "%2F", "%3f"}

	c14ReqNames  = []string{"Accept", "Accept-Language", "Authorization", "Cache-Control", "Content-Type", "If-None-Match", "Referer", "Range", "X-Forwarded-For", "Via", "Priority", "Accept-Encoding", "Origin", "Content-Encoding", "Pragma", "Dnt", "If-Modified-Since"}
	c14RespNames = []string{"Content-Type", "Cache-Control", "Etag", "Location", "Set-Cookie", "Vary", "Server", "Content-Encoding", "Last-Modified", "Www-Authenticate", "Link", "Date", "Age", "Accept-Ranges", "Content-Language", "X-Content-Type-Options"}
	c14TrNames   = []string{"Grpc-Status", "Grpc-Message", "Server-Timing", "Digest", "Content-Md5"}
	c14Methods   = []string{"GET", "GET", "POST", "POST", "PUT", "PATCH", "DELETE", "OPTIONS", "HEAD", "PROPFIND", "QUERY", ""}
	c14Sizes     = []int{1, 2, 4095, 4096, 4097, 16383, 16384, 16385, 32768, 65535, 65536, 65537, 100000, 200000}
)

// c14Names removes names whose canonical form was already taken (two spellings of one
// field in a Go header map would be sent in map order, which no oracle can predict).
func c14Names(in []string, taken map[string]bool) []string {
	var out []string
	for _, n := range in {
		k := http.CanonicalHeaderKey(n)
		if taken[k] {
			continue
		}
		taken[k] = true
		out = append(out, n)
	}
	return out
}

func c14NameGen(pool []string, prefix string) *rapid.Generator[string] {
	custom := rapid.Custom(func(t *rapid.T) string {
		return prefix + rapid.StringOfN(rapid.RuneFrom(c14TokenRunes), 1, 14, -1).Draw(t, "tok")
	})
	if len(pool) == 0 {
		return custom
	}
	return rapid.OneOf(rapid.SampledFrom(pool), custom)
}

// c14FieldsGen draws up to max fields over a small table of names (so names repeat).
func c14FieldsGen(t *rapid.T, label string, pool []string, prefix string, maxNames, max int, taken map[string]bool) []c14Field {
	names := c14Names(rapid.SliceOfN(c14NameGen(pool, prefix), 0, maxNames).Draw(t, label+"-names"), taken)
	if len(names) == 0 {
		return nil
	}
	val := rapid.RuneFrom(c14ValRunes)
	fg := rapid.Custom(func(t *rapid.T) c14Field {
		f := c14Field{Name: rapid.SampledFrom(names).Draw(t, "name"), Rep: 1}
		k := rapid.IntRange(0, 19).Draw(t, "vkind")
		switch {
		case k < 14:
			f.Seed = rapid.StringOfN(val, 0, 24, -1).Draw(t, "seed")
		case k < 18:
			f.Seed = rapid.StringOfN(val, 1, 16, -1).Draw(t, "seed")
			f.Rep = rapid.IntRange(8, 600).Draw(t, "rep")
		default:
			f.Seed = rapid.StringOfN(val, 1, 16, -1).Draw(t, "seed")
			f.Rep = rapid.IntRange(600, 3000).Draw(t, "rep")
		}
		return f
	})
	fs := rapid.SliceOfN(fg, 0, max).Draw(t, label)
	total := 0
	for i, f := range fs {
		total += len(f.Name) + len(f.value()) + 32
		if total > c14MaxHeaderBytes {
			return fs[:i]
		}
	}
	return fs
}

func c14CapChunks(sizes []int, limit int) []int {
	total := 0
	var out []int
	for _, n := range sizes {
		if total+n > limit {
			n = limit - total
		}
		if n <= 0 {
			break
		}
		out = append(out, n)
		total += n
	}
	return out
}

// c14BodyLimit bounds a body by the receiver's stream window so that a 1-byte window
// does not mean 400 000 one-byte frames.
func c14BodyLimit(window int) int {
	if window > 0 && window < 1400 {
		return window * 300
	}
	return c14MaxBody
}

func c14Gen(t *rapid.T) c14Case {
	var c c14Case
	c.Srv = c14Srv{
		MaxReadFrame:   rapid.SampledFrom([]uint32{0, 0, 16384, 16385, 32768, 1 << 20, 1<<24 - 1}).Draw(t, "s-frame"),
		UpConn:         rapid.SampledFrom([]int32{0, 0, 65535, 65536, 100000, 1 << 20}).Draw(t, "s-upconn"),
		UpStream:       rapid.SampledFrom([]int32{0, 0, 0, 1, 50, 1000, 16384, 65535, 65536, 1 << 20}).Draw(t, "s-upstream"),
		DecTable:       rapid.SampledFrom([]uint32{0, 0, 0, 1, 64, 256, 4096, 16384, 65536}).Draw(t, "s-dec"),
		EncTable:       rapid.SampledFrom([]uint32{0, 0, 0, 1, 64, 256, 4096, 16384, 65536}).Draw(t, "s-enc"),
		MaxStreams:     rapid.SampledFrom([]uint32{0, 0, 0, 1, 2, 100}).Draw(t, "s-streams"),
		Sched:          rapid.IntRange(0, 3).Draw(t, "s-sched"),
		MaxHeaderBytes: rapid.SampledFrom([]int{0, 0, 0, 0, 0, 0, 0, 0, 0, 1024, 4096, 20000, 70000}).Draw(t, "s-hdr"),
		ReadBuf:        rapid.SampledFrom([]int{0, 0, 0, 0, 64, 1000, 4096, 70000}).Draw(t, "s-rbuf"),
	}
	c.Cli = c14Cli{
		MaxReadFrame:  rapid.SampledFrom([]uint32{0, 0, 16384, 20000, 65536, 1<<24 - 1}).Draw(t, "c-frame"),
		DecTable:      rapid.SampledFrom([]uint32{0, 0, 0, 1, 64, 256, 4096, 16384, 65536}).Draw(t, "c-dec"),
		EncTable:      rapid.SampledFrom([]uint32{0, 0, 0, 1, 64, 256, 4096, 16384, 65536}).Draw(t, "c-enc"),
		MaxHeaderList: rapid.SampledFrom([]uint32{0, 0, 0, 0, 0, 0, 0, 0, 0, 2000, 20000, 100000, 0xffffffff}).Draw(t, "c-hdr"),
		RecvStream:    rapid.SampledFrom([]int{0, 0, 0, 1, 50, 1000, 16384, 65535, 65536, 1 << 20}).Draw(t, "c-recvstream"),
		RecvConn:      rapid.SampledFrom([]int{0, 0, 65535, 65536, 100000, 1 << 20}).Draw(t, "c-recvconn"),
		ReadBuf:       rapid.SampledFrom([]int{0, 0, 0, 0, 64, 1000, 4096, 70000}).Draw(t, "c-rbuf"),
	}
	c.Start = rapid.SampledFrom([]int{0, 0, 2}).Draw(t, "start")
	size := rapid.OneOf(rapid.IntRange(1, 300), rapid.IntRange(1, 300), rapid.SampledFrom(c14Sizes))
	reqLimit := c14BodyLimit(int(c.Srv.UpStream))
	respLimit := c14BodyLimit(c.Cli.RecvStream)

	rg := rapid.Custom(func(t *rapid.T) c14Req {
		var q c14Req
		q.Method = rapid.SampledFrom(c14Methods).Draw(t, "method")
		q.Scheme = rapid.SampledFrom([]string{"https", "https", "http"}).Draw(t, "scheme")
		q.URLHost = rapid.SampledFrom([]string{"vp.test", "vp.test", "vp.test:8443", "127.0.0.1:80", "[::1]:8080", "a-b.example.com"}).Draw(t, "urlhost")
		q.Host = rapid.SampledFrom([]string{"", "", "", "other.test", "other.test:99", "Upper.Test"}).Draw(t, "host")
		segs := rapid.SliceOfN(rapid.StringOfN(rapid.RuneFrom(c14PathRunes), 0, 8, -1), 0, 5).Draw(t, "segs")
		q.Path = "/" + strings.Join(segs, "/")
		switch rapid.IntRange(0, 3).Draw(t, "qkind") {
		case 1:
			q.ForceQ = true
		case 2, 3:
			q.Query = strings.Join(rapid.SliceOfN(rapid.SampledFrom(c14QueryToks), 0, 20).Draw(t, "query"), "")
		}
		taken := map[string]bool{}
		q.Fields = c14FieldsGen(t, "fields", c14ReqNames, "X-", 10, 40, taken)
		pair := rapid.Custom(func(t *rapid.T) string {
			return rapid.StringMatching(`[a-z0-9]{1,6}`).Draw(t, "k") + "=" + rapid.StringMatching(`[a-zA-Z0-9]{0,8}`).Draw(t, "v")
		})
		if rapid.IntRange(0, 4).Draw(t, "cookie") == 0 {
			q.Cookies = rapid.SliceOfN(rapid.Custom(func(t *rapid.T) string {
				return strings.Join(rapid.SliceOfN(pair, 1, 3).Draw(t, "pairs"), "; ")
			}), 1, 3).Draw(t, "cookies")
		}
		if rapid.IntRange(0, 4).Draw(t, "ua") == 0 {
			q.UA = "vp-agent/" + rapid.StringMatching(`[a-z0-9.]{1,8}`).Draw(t, "uav")
		}
		q.BodyKind = rapid.SampledFrom([]int{0, 1, 2, 2, 2, 2}).Draw(t, "bodykind")
		if q.BodyKind == 2 {
			q.Chunks = c14CapChunks(rapid.SliceOfN(size, 0, 8).Draw(t, "chunks"), reqLimit)
			q.DeclLen = rapid.Bool().Draw(t, "decl")
			q.EOFData = rapid.Bool().Draw(t, "eofdata")
			if rapid.IntRange(0, 2).Draw(t, "hastr") == 0 {
				q.Trailers = c14FieldsGen(t, "trailers", c14TrNames, "Tr-", 5, 8, taken)
				q.TrEarly = rapid.Bool().Draw(t, "trearly")
			}
		}
		q.StartMS = rapid.SampledFrom([]int{0, 0, 0, 1, 2, 5}).Draw(t, "startms")
		q.CliRead = rapid.SampledFrom([]int{1, 100, 4096, 32768, 1 << 20}).Draw(t, "cliread")
		q.CliPause = rapid.Bool().Draw(t, "clipause")
		if rapid.IntRange(0, 5).Draw(t, "cancel") == 0 {
			q.Cancel = rapid.SampledFrom([]int{1, 1, 2, 3, 4, 5, 5}).Draw(t, "cancel-point")
			switch q.Cancel {
			case 2:
				if q.BodyKind == 2 {
					q.CancelAt = rapid.IntRange(1, len(q.Chunks)+1).Draw(t, "cancel-read")
				} else {
					q.Cancel = 1
				}
			case 4:
				q.CancelAt = rapid.SampledFrom([]int{0, 1, 100, 4096, 65535, 100000}).Draw(t, "cancel-bytes")
			case 5:
				q.CancelAt = rapid.SampledFrom([]int{0, 1, 2, 5}).Draw(t, "cancel-ms")
			}
		}

		q.Status = rapid.OneOf(
			rapid.SampledFrom([]int{200, 200, 200, 201, 204, 206, 301, 304, 400, 404, 418, 500, 503, 599}),
			rapid.IntRange(200, 599)).Draw(t, "status")
		rtaken := map[string]bool{}
		q.RFields = c14FieldsGen(t, "rfields", c14RespNames, "X-", 10, 40, rtaken)
		q.Early = -1
		if rapid.IntRange(0, 7).Draw(t, "early") == 0 {
			q.Early = rapid.IntRange(0, len(q.RFields)).Draw(t, "earlyn")
		}
		noBody := q.Status == 204 || q.Status == 304
		if !noBody {
			q.RChunks = rapid.SliceOfN(rapid.Custom(func(t *rapid.T) c14Chunk {
				return c14Chunk{
					N:     rapid.OneOf(rapid.Just(0), size, size, size).Draw(t, "n"),
					Flush: rapid.Bool().Draw(t, "flush"),
					Sleep: rapid.IntRange(0, 4).Draw(t, "sleep") == 0,
				}
			}), 0, 8).Draw(t, "rchunks")
			total := 0
			for i, ch := range q.RChunks {
				if total+ch.N > respLimit {
					q.RChunks[i].N = respLimit - total
					q.RChunks = q.RChunks[:i+1]
					break
				}
				total += ch.N
			}
			q.RDeclLen = rapid.Bool().Draw(t, "rdecl")
		}
		if !noBody && q.Method != "HEAD" && rapid.IntRange(0, 2).Draw(t, "hasrtr") == 0 {
			q.RTrailers = c14FieldsGen(t, "rtrailers", c14TrNames, "Tr-", 4, 8, rtaken)
			q.RTrStyle = rapid.IntRange(0, 1).Draw(t, "rtrstyle")
			q.RPTrailers = c14FieldsGen(t, "rptrailers", nil, "Pt-", 3, 6, rtaken)
			q.RPEarly = rapid.Bool().Draw(t, "rpearly")
			q.RUnset = c14Names(rapid.SliceOfN(c14NameGen(nil, "Un-"), 0, 2).Draw(t, "runset"), rtaken)
		}
		if q.Status <= 299 && q.Method != "HEAD" {
			// (a HEAD reply is complete with its HEADERS frame and a reply with status
			// > 299 makes the Transport stop sending: in both cases a client may
			// legitimately abandon the rest of the request body, RFC 9113 8.1)
			q.Order = rapid.SampledFrom([]int{0, 0, 1, 2}).Draw(t, "order")
		}
		q.SrvRead = rapid.SampledFrom([]int{1, 100, 4096, 32768, 1 << 20}).Draw(t, "srvread")
		q.SrvMS = rapid.SampledFrom([]int{0, 0, 0, 1, 3}).Draw(t, "srvms")
		return q
	})
	c.Reqs = rapid.SliceOfN(rg, 1, 4).Draw(t, "reqs")
	if c.Start == 2 && c.Srv.MaxStreams != 0 && int(c.Srv.MaxStreams) < len(c.Reqs) {
		// a client that has not yet seen SETTINGS_MAX_CONCURRENT_STREAMS may exceed it and
		// is then legitimately refused (the Transport above ClientConn retries); keep
		// that out of the domain
		c.Start = 0
	}
	// A request that starts after a cancelled one often repeats its header fields: what
	// the cancelled request did to connection state (HPACK tables, windows, stream
	// slots) must not leak into requests that were not cancelled.
	for i := range c.Reqs {
		j := (i + 1) % len(c.Reqs)
		if c.Reqs[i].Cancel == 0 || j == i || c.Reqs[j].Cancel != 0 {
			continue
		}
		if rapid.IntRange(0, 2).Draw(t, "echo") > 0 {
			c.Reqs[j].Fields = append([]c14Field(nil), c.Reqs[i].Fields...)
			c.Reqs[j].UA = c.Reqs[i].UA
			c.Reqs[j].StartMS = c.Reqs[i].StartMS + c.Reqs[i].CancelAt%8 + 2
		}
	}
	if rapid.IntRange(0, 3).Draw(t, "aim") == 0 {
		c14Aim(&c,
			rapid.IntRange(0, len(c.Reqs)-1).Draw(t, "aim-k"),
			rapid.IntRange(0, 3).Draw(t, "aim-which"),
			rapid.SampledFrom([]int{0, 0, 1, -1}).Draw(t, "aim-delta"),
			rapid.IntRange(0, 2).Draw(t, "aim-lim"))
	}
	if c.Aim == "" && rapid.IntRange(0, 7).Draw(t, "canon") == 0 {
		// Per-connection state that only changes behaviour once it is full: the server
		// caches canonical field names up to a byte budget (2048 bytes, 100+2*len per
		// name). Exchange 0 carries enough distinct uncommon names to exhaust it, and
		// the last exchange then sends a request trailer with one more uncommon name.
		n := rapid.IntRange(19, 30).Draw(t, "canon-n")
		q := &c.Reqs[0]
		for i := 0; i < n; i++ {
			q.Fields = append(q.Fields, c14Field{Name: "Vp-C" + string(rune('a'+i/26)) + string(rune('a'+i%26)), Seed: "v", Rep: 1})
		}
		l := &c.Reqs[len(c.Reqs)-1]
		if l.BodyKind != 2 {
			l.BodyKind, l.Chunks, l.DeclLen = 2, nil, false
		}
		l.Trailers = append(l.Trailers, c14Field{Name: "Vp-Ctr", Seed: "t", Rep: 1})
		if len(c.Reqs) > 1 && l.StartMS <= q.StartMS {
			l.StartMS = q.StartMS + 1
		}
		c.Aim = "canon-cache-full"
	}
	if c.Aim == "" && len(c.Reqs) >= 2 && rapid.IntRange(0, 5).Draw(t, "abandon") == 0 {
		// A response write abandoned while one of its frames is still in the writer:
		// exchange 0 replies with more than the client reads (bounded pipe towards the
		// client) and is cancelled after a few body bytes; the other exchanges start
		// slightly later and write several medium-sized chunks, so anything the server
		// recycled from the abandoned write (result channels, write requests) is reused
		// while the stale frame completes.
		if c.Cli.ReadBuf == 0 {
			c.Cli.ReadBuf = rapid.SampledFrom([]int{64, 1000, 4096}).Draw(t, "abandon-rbuf")
		}
		q := &c.Reqs[0]
		if q.Status == 204 || q.Status == 304 || q.Status > 299 {
			q.Status = 200
		}
		if q.Method == "HEAD" {
			q.Method = "GET"
		}
		n := min(rapid.SampledFrom([]int{4400, 20000, 100000}).Draw(t, "abandon-n"), respLimit/2)
		m := min(4400, respLimit/3)
		q.RChunks = []c14Chunk{{N: n, Flush: true}, {N: n, Flush: true}}
		q.RTrailers, q.RPTrailers, q.RUnset = nil, nil, nil
		q.Cancel, q.CancelAt = 4, rapid.SampledFrom([]int{1, 100, 4096}).Draw(t, "abandon-at")
		for k := 1; k < len(c.Reqs); k++ {
			o := &c.Reqs[k]
			if o.Cancel != 0 || o.Method == "HEAD" || o.Status == 204 || o.Status == 304 {
				continue
			}
			o.StartMS = q.StartMS + 1 + k%3
			o.RChunks = []c14Chunk{{N: m, Flush: true}, {N: m, Flush: true}, {N: m}}
		}
		c.Aim = "abandoned-write"
	}
	for k := range c.Reqs {
		if c.overLimit(&c.Reqs[k]) {
			// see c14Run: bounded pipes are not combined with exchanges that may end in a
			// connection error
			c.Srv.ReadBuf, c.Cli.ReadBuf = 0, 0
		}
	}
	return c
}

// c14Aim pads one header list of exchange k so that its size (RFC 9113 6.5.2) is exactly
// the receiver's limit + delta: which = 0 request header, 1 request trailers (both
// against the server's limit), 2 response header, 3 response trailers (against the
// Transport's limit). A default (huge) limit is first replaced by a small one.
func c14Aim(c *c14Case, k, which, delta, lim int) {
	q := &c.Reqs[k]
	noBody := q.Status == 204 || q.Status == 304
	if which == 3 && (noBody || q.Method == "HEAD") {
		which = 2
	}
	if which <= 1 {
		if c.Srv.MaxHeaderBytes == 0 {
			c.Srv.MaxHeaderBytes = []int{1024, 4096, 20000}[lim]
		}
	} else if c.Cli.MaxHeaderList == 0 || c.Cli.MaxHeaderList == 0xffffffff {
		c.Cli.MaxHeaderList = []uint32{2000, 20000, 100000}[lim]
	}
	pad := func(cur, limit int, name string) (c14Field, bool) {
		need := limit + delta - cur - (len(name) + 32)
		switch {
		case need < 0:
			return c14Field{}, false
		case need == 0:
			return c14Field{Name: name, Rep: 1}, true
		}
		return c14Field{Name: name, Seed: "p", Rep: need}, true
	}
	what := ""
	switch which {
	case 0:
		if f, ok := pad(q.reqListSize(k), c.Srv.headerLimit(), "Vp-Pad"); ok {
			q.Fields = append(q.Fields, f)
			what = "req-header"
		}
	case 1:
		if q.BodyKind != 2 {
			q.BodyKind, q.Chunks, q.DeclLen = 2, nil, false
		}
		if f, ok := pad(c14ListSize(q.Trailers), c.Srv.headerLimit(), "Vp-Trpad"); ok {
			q.Trailers = append(q.Trailers, f)
			what = "req-trailer"
		}
	case 2:
		// make the server's own additions predictable
		g := c14Group(q.RFields)
		if _, ok := g["Content-Type"]; !ok {
			q.RFields = append(q.RFields, c14Field{Name: "Content-Type", Seed: "text/vp", Rep: 1})
		}
		if _, ok := g["Date"]; !ok {
			q.RFields = append(q.RFields, c14Field{Name: "Date", Seed: "vp-date", Rep: 1})
		}
		if !noBody {
			q.RDeclLen = true
		}
		cur, _ := q.respListSize()
		if f, ok := pad(cur, c.Cli.headerLimit(), "Vp-Pad"); ok {
			q.RFields = append(q.RFields, f)
			what = "resp-header"
		}
	case 3:
		if f, ok := pad(c14ListSize(q.RTrailers)+c14ListSize(q.RPTrailers), c.Cli.headerLimit(), "Vp-Trpad"); ok {
			q.RTrailers = append(q.RTrailers, f)
			what = "resp-trailer"
		}
	}
	if what != "" {
		c.Aim = what + ":" + []string{"limit-1", "limit", "limit+1"}[delta+1]
	}
}
