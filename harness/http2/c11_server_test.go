package http2_test

// C11 (server half): the server enforces the receive windows it advertised.
//
// Built on the upload-session machinery of c10_server_test.go (listed in props/C11.json
// `files`). Here the fake client may overrun: a DATA frame is sized relative to the
// peer's view of the stream and connection windows (exactly the window, one byte more,
// far more), typically right after the server emitted a WINDOW_UPDATE or while a
// refund is still batched below inflowMinRefresh. Every frame gets a verdict in
// c10sSess.sendData (mode.verdict); the end-of-session oracle below checks what the
// handlers observed.

import (
	"fmt"
	"math"
	"testing"

	"pgregory.net/rapid"
	"verif/vp"

	. "golang.org/x/net/http2"
)

// c11sSize turns a step into a frame whose total length (payload + padding + pad
// length byte) has the drawn relation to the windows as the peer sees them.
func c11sSize(x *c10sSess, st *c10sSt, open bool, sp c10sStep) (n, pad int, end, ok bool) {
	s, c := st.view, x.connView
	if !open {
		s = c // a closed stream has no stream window: only the connection's counts
	}
	lo, hi := s, c
	if lo > hi {
		lo, hi = hi, lo
	}
	var L int64
	switch sp.Rel {
	case "exact-s":
		L = s
	case "s+1":
		L = s + 1
	case "exact-c":
		L = c
	case "c+1":
		L = c + 1
	case "min":
		L = lo
	case "min+1":
		L = lo + 1
	case "far":
		L = hi + 1 + int64(sp.N)
	case "srv-s+1":
		// one byte more than the server itself counts as receivable on the stream
		if avail, ok := x.s.sc.VPSrvStreamInflow(st.id); ok {
			L = int64(avail) + 1
		} else {
			L = s + 1
		}
	case "srv-c+1":
		// one byte more than the server itself counts as receivable on the connection
		// (used to pick the size only; never below what the server advertised)
		avail, _ := x.s.sc.VPSrvConnInflow()
		L = int64(avail) + 1
	default:
		return c10sSizeFit(x, st, open, sp)
	}
	if L < 0 {
		L = 0
	}
	if L > x.maxFrame {
		x.class("step-skipped-frame-too-big")
		return 0, -1, false, false
	}
	x.class("rel:" + sp.Rel)
	pad = sp.Pad
	if pad > 255 {
		pad = 255
	}
	over := int64(0)
	if pad >= 0 {
		over = 1 + int64(pad)
	}
	if over > L {
		pad, over = -1, 0
	}
	return int(L - over), pad, sp.End, true
}

// c11sDemand is the number of body bytes the handler program asks for before it closes
// the body (or returns).
func c11sDemand(prog []c10sOp) int64 {
	var d int64
	for _, op := range prog {
		switch op.Kind {
		case "read":
			if op.N > 0 {
				d += int64(op.N)
			}
		case "readall":
			return math.MaxInt64
		case "close":
			return d
		}
	}
	return d
}

func c11sEnd(x *c10sSess) error {
	near := false
	for k, st := range x.sts[:len(x.c.Streams)] {
		if st.nearEdge {
			near = true
		}
		started, done, got, _ := x.hs[k].snap()
		// never more than the accepted frames carried
		if got > st.acc {
			return fmt.Errorf("stream plan %d (id %d): the handler read %d request-body bytes but the DATA frames accepted within the advertised windows carried only %d", k, st.id, got, st.acc)
		}
		// the bytes of accepted frames reach the body: once the stream is over and the
		// handler has run to completion it has read everything it asked for, up to
		// what was accepted
		if !x.dead() && started && done {
			want := c11sDemand(x.c.Streams[k].Prog)
			if st.acc < want {
				want = st.acc
			}
			if got != want {
				return fmt.Errorf("stream plan %d (id %d): DATA frames carrying %d bytes were sent within the advertised windows, the handler asked for %d but read only %d", k, st.id, st.acc, want, got)
			}
		}
	}
	if near {
		x.res.nontrivial = true
		x.class("frame-within-1-of-window-edge")
	}
	return nil
}

var c11sModeC11 = c10sMode{id: "C11", verdict: true, size: c11sSize, atEnd: c11sEnd}

func c11sGen(t *rapid.T) c10sCase {
	var c c10sCase
	c.ConnWin = rapid.SampledFrom([]int32{65535, 65535, 65536, 65635, 70000, 1 << 17}).Draw(t, "connwin")
	c.StreamWin = rapid.SampledFrom([]int32{1, 100, 4096, 16384, 65535, 65535, 70000, 1 << 17, 1 << 20}).Draw(t, "streamwin")
	c.Streams = rapid.SliceOfN(c10sStreamGen(false), 1, 8).Draw(t, "streams")
	step := rapid.Custom(func(t *rapid.T) c10sStep {
		kind := rapid.SampledFrom([]string{"data", "data", "data", "data", "data", "data", "data", "data", "rst", "release", "release", "release", "ping"}).Draw(t, "kind")
		sp := c10sStep{Kind: kind, S: rapid.IntRange(0, 7).Draw(t, "s"), Pad: -1}
		if kind == "data" {
			sp.Rel = rapid.SampledFrom([]string{"fit", "fit", "fit", "fit", "min", "min", "min+1", "exact-s", "s+1", "exact-c", "c+1", "far"}).Draw(t, "rel")
			sp.N = c10sSizes.Draw(t, "n")
			sp.Pad = c10sPadGen().Draw(t, "pad")
			sp.End = rapid.IntRange(0, 5).Draw(t, "end") == 0
		}
		return sp
	})
	c.Steps = rapid.SliceOfN(step, 1, 40).Draw(t, "steps")
	// Bounded pipe towards the client and runs of steps after which the client does not
	// read (as in C10): the server's writer blocks, RST_STREAM and WINDOW_UPDATE frames
	// stay queued while more DATA arrives, then a frame overruns the connection window.
	c.ReadBuf = rapid.SampledFrom([]int{0, 0, 16, 64, 256}).Draw(t, "read_buf")
	if c.ReadBuf > 0 {
		from := rapid.IntRange(0, len(c.Steps)).Draw(t, "nd_from")
		for i := from; i < len(c.Steps); i++ {
			c.Steps[i].ND = rapid.IntRange(0, 5).Draw(t, "nd") != 0
			if c.Steps[i].Kind == "data" && rapid.IntRange(0, 3).Draw(t, "srvRel") == 0 {
				c.Steps[i].Rel = "srv-c+1"
			}
		}
	}
	if rapid.IntRange(0, 4).Draw(t, "rstQueuedTemplate") == 2 {
		// Aimed history: the handler of stream 0 reads nothing and the client reads
		// nothing; unread PING acks have filled the pipe, so the server's writer is blocked; the client overruns the stream window (the
		// RST_STREAM for that stays queued) and then sends more than the connection
		// window on that stream.
		c.Streams[0].Prog = []c10sOp{{Kind: "wait"}}
		c.Streams[0].CL = -1
		c.StreamWin = rapid.SampledFrom([]int32{1, 100, 4096, 16384}).Draw(t, "tmpl_stream_win")
		c.ReadBuf = rapid.IntRange(16, 200).Draw(t, "tmpl_read_buf")
		pre := []c10sStep{{Kind: "data", S: 0, Rel: "fit", N: 10, Pad: -1}}
		for k := rapid.IntRange(1, 16).Draw(t, "tmpl_pings"); k > 0; k-- {
			pre = append(pre, c10sStep{Kind: "ping", S: 0, Pad: -1, ND: true})
		}
		// the stream error (its RST_STREAM stays queued behind the blocked writer) ...
		pre = append(pre, c10sStep{Kind: "data", S: 0, Rel: "srv-s+1", Pad: -1, ND: true})
		// ... and more DATA on that stream than the connection window allows
		pre = append(pre, c10sStep{Kind: "data", S: 0, Rel: "srv-c+1", Pad: -1, ND: true})
		c.Steps = append(pre, c.Steps...)
	}
	c.ShutdownAt = -1
	if rapid.IntRange(0, 7).Draw(t, "shutdown") == 0 {
		c.ShutdownAt = rapid.IntRange(0, len(c.Steps)-1).Draw(t, "shutdown_at")
	}
	c.ReleaseFirst = rapid.Bool().Draw(t, "release_first")
	return c
}

func TestVP_C11_server(t *testing.T) {
	DisableGoroutineTracking(t) // see TestVP_C10_server
	vp.Run(t, vp.Spec[c10sCase]{ID: "C11", Sub: "server", CrashFile: true, Gen: c11sGen, Prop: func(c c10sCase, r *vp.Rec) error {
		var res c10sResult
		if err := vpBubble(t, func() error { res = c10sRun(c, c11sModeC11); return nil }); err != nil {
			return err
		}
		res.apply(r)
		return res.err
	}})
}
