package http2_test

// C11 (client half): the Transport enforces the receive windows it advertised. The
// fake server sends response DATA that stays within, exactly fills, or overruns the
// stream / connection window (server's view, all WINDOW_UPDATEs read). In-window DATA
// must be accepted and reach the response body; an overrun must be answered with a
// FLOW_CONTROL_ERROR (RST_STREAM on that stream, or a connection error) and its bytes
// must never be delivered.

import (
	"errors"
	"fmt"
	"io"
	"net/http"
	"strconv"
	"strings"
	"sync/atomic"
	"testing"
	"testing/synctest"
	"time"

	"pgregory.net/rapid"
	"verif/vp"

	. "golang.org/x/net/http2"
)

type c11cEv struct {
	Kind  string `json:"kind"` // data, end (server); read, close, cancel (application)
	N     int    `json:"n,omitempty"`
	Pad   int    `json:"pad,omitempty"`   // data: -1 unpadded, else 0..255 bytes of padding
	End   bool   `json:"end,omitempty"`   // data: END_STREAM
	Mode  int    `json:"mode,omitempty"`  // data: 0 N bytes trimmed to fit; 1 exactly the available window; 2 stream window + Delta; 3 connection window + Delta
	Delta int    `json:"delta,omitempty"` // data, mode 2/3: overrun by this many bytes
}

type c11cStream struct {
	Events []c11cEv `json:"events"`
}

type c11cCase struct {
	RecvPerStream int32        `json:"recv_per_stream"`
	RecvPerConn   int32        `json:"recv_per_conn"`
	MaxReadFrame  uint32       `json:"max_read_frame"`
	Streams       []c11cStream `json:"streams"`
	Order         []int        `json:"order"`
}

func c11cGen(t *rapid.T) c11cCase {
	var c c11cCase
	c.RecvPerStream = rapid.SampledFrom([]int32{1, 100, 4096, 16384, 65535, 200000, 1 << 20}).Draw(t, "per_stream")
	c.RecvPerConn = rapid.SampledFrom([]int32{65535, 65535, 100000, 1 << 20}).Draw(t, "per_conn")
	c.MaxReadFrame = rapid.SampledFrom([]uint32{16384, 65536, 1 << 20, 1<<24 - 1}).Draw(t, "max_read_frame")
	dataN := rapid.OneOf(rapid.IntRange(0, 300), rapid.IntRange(0, 70000),
		rapid.SampledFrom([]int{0, 1, 4095, 4096, 4097, 16384, 65535, 65536}))
	ev := rapid.Custom(func(t *rapid.T) c11cEv {
		kind := rapid.SampledFrom([]string{"data", "data", "data", "data", "data", "data", "read", "read", "read", "close", "cancel", "end"}).Draw(t, "kind")
		e := c11cEv{Kind: kind}
		switch kind {
		case "data":
			e.Mode = rapid.SampledFrom([]int{0, 0, 0, 0, 1, 1, 2, 3}).Draw(t, "mode")
			e.N = dataN.Draw(t, "n")
			e.Pad = rapid.SampledFrom([]int{-1, -1, -1, 0, 1, 255}).Draw(t, "pad")
			e.End = rapid.IntRange(0, 7).Draw(t, "end") == 0
			if e.Mode >= 2 {
				e.Delta = rapid.SampledFrom([]int{1, 1, 1, 2, 100, 70000}).Draw(t, "delta")
			}
		case "read":
			e.N = rapid.SampledFrom([]int{1, 10, 100, 4096, 70000, 1 << 20}).Draw(t, "n")
		}
		return e
	})
	c.Streams = rapid.SliceOfN(rapid.Custom(func(t *rapid.T) c11cStream {
		return c11cStream{Events: rapid.SliceOfN(ev, 0, 10).Draw(t, "events")}
	}), 1, 6).Draw(t, "streams")
	c.Order = rapid.SliceOfN(rapid.IntRange(0, 5), 0, 60).Draw(t, "order")
	return c
}

type c11cSt struct {
	plan     c11cStream
	next     int
	rt       *vpRT
	id       uint32
	body     io.ReadCloser
	view     int64 // server's view of the stream receive window
	accepted int64 // payload bytes of the in-window DATA frames sent
	srvEnded bool
	cliReset bool // the Transport sent RST_STREAM
	cliFC    bool // ... with FLOW_CONTROL_ERROR
	dropped  bool // the application closed the body or cancelled the request
	reading  atomic.Bool
	inflight atomic.Int32
	readN    atomic.Int64
	readErr  atomic.Value // error
}

func c11cIsFlowErr(err error) bool {
	var ce ConnectionError
	if errors.As(err, &ce) {
		return ErrCode(ce) == ErrCodeFlowControl
	}
	var se StreamError
	if errors.As(err, &se) {
		return se.Code == ErrCodeFlowControl
	}
	return err != nil && strings.Contains(err.Error(), "FLOW_CONTROL_ERROR")
}

func c11cRun(c c11cCase, r *vp.Rec) error {
	s, err := vpNewCli(vpCliOpts{RecvPerConn: c.RecvPerConn, RecvPerStream: c.RecvPerStream, MaxReadFrame: c.MaxReadFrame})
	if err != nil {
		return err
	}
	defer s.shutdown()

	connView := s.advConnWin
	sts := make([]*c11cSt, len(c.Streams), len(c.Streams)+1)
	for i := range sts {
		sts[i] = &c11cSt{plan: c.Streams[i]}
	}
	byID := map[uint32]*c11cSt{}
	goAway := false
	goAwayCode := ErrCode(0)
	connClosed := false

	drain := func() {
		for {
			f, err := s.read()
			if err != nil {
				connClosed = true
				return
			}
			if f == nil {
				return
			}
			switch f := f.(type) {
			case *SettingsFrame:
				if !f.IsAck() {
					s.fr.WriteSettingsAck()
				}
			case *PingFrame:
				if !f.IsAck() {
					s.fr.WritePing(true, f.Data)
				}
			case *WindowUpdateFrame:
				if f.StreamID == 0 {
					connView += int64(f.Increment)
				} else if st := byID[f.StreamID]; st != nil {
					st.view += int64(f.Increment)
				}
			case *RSTStreamFrame:
				if st := byID[f.StreamID]; st != nil {
					st.cliReset = true
					if f.ErrCode == ErrCodeFlowControl {
						st.cliFC = true
					}
				}
			case *GoAwayFrame:
				goAway, goAwayCode = true, f.ErrCode
			}
		}
	}
	// calm drains and demands that the Transport has raised no flow-control error
	// and kept the connection.
	calm := func(what string) error {
		drain()
		for _, st := range sts {
			if st.cliFC {
				return fmt.Errorf("%s: RST_STREAM(FLOW_CONTROL_ERROR) on stream %d although all DATA was within the advertised windows", what, st.id)
			}
		}
		if goAway || connClosed {
			return fmt.Errorf("%s: the Transport ended the connection (GOAWAY=%v code=%v) although all DATA was within the advertised windows", what, goAway, goAwayCode)
		}
		return nil
	}

	if err := s.fr.WriteSettings(); err != nil {
		return fmt.Errorf("harness: settings: %v", err)
	}
	s.fr.WriteSettingsAck()
	if err := calm("greet"); err != nil {
		return err
	}

	open := func(st *c11cSt, path string) error {
		req, _ := http.NewRequest("GET", "https://dummy.tld/"+path, nil)
		st.rt = s.roundTrip(req)
		if err := calm("open"); err != nil {
			return err
		}
		st.id = st.rt.streamID()
		if st.id == 0 {
			return fmt.Errorf("harness: request %s got no stream", path)
		}
		byID[st.id] = st
		st.view = s.advInitWin
		s.respHeaders(st.id, false, ":status", "200")
		if err := calm("response headers"); err != nil {
			return err
		}
		resp, rerr, done := st.rt.result()
		if !done || rerr != nil {
			return fmt.Errorf("request %s: RoundTrip did not return a response after response headers (done=%v err=%v)", path, done, rerr)
		}
		st.body = resp.Body
		return nil
	}
	appCall := func(st *c11cSt, f func()) {
		st.inflight.Add(1)
		go func() {
			defer st.inflight.Add(-1)
			f()
		}()
		synctest.Wait()
	}
	appRead := func(st *c11cSt, bufLen int, all bool) {
		st.reading.Store(true)
		appCall(st, func() {
			defer st.reading.Store(false)
			buf := make([]byte, bufLen)
			for {
				n, err := st.body.Read(buf)
				st.readN.Add(int64(n))
				if err != nil {
					st.readErr.Store(err)
					return
				}
				if !all {
					return
				}
			}
		})
	}

	// the witness stream stays open and unread: it observes a connection error
	witness := &c11cSt{}
	if err := open(witness, "witness"); err != nil {
		return err
	}

	edge := false
	overrun := "" // set once an overrunning frame has been sent
	var overSt *c11cSt

	data := func(st *c11cSt, e c11cEv) error {
		if st.srvEnded {
			return nil
		}
		live := !st.cliReset && !st.dropped
		avail := min(st.view, connView)
		if !live {
			avail = connView // the Transport has dropped the stream: only the connection window is left to enforce
		}
		var l int64 // frame length (payload + padding)
		pad := e.Pad
		over := int64(0)
		if pad >= 0 {
			over = int64(1 + pad)
		}
		switch e.Mode {
		case 0:
			l = int64(e.N) + over
			if l > min(avail, s.advMaxFrame) {
				l = min(avail, s.advMaxFrame)
			}
		case 1:
			l = min(avail, s.advMaxFrame)
		case 2:
			if !live {
				return nil
			}
			l = st.view + int64(e.Delta)
		case 3:
			l = connView + int64(e.Delta)
		}
		if l > s.advMaxFrame {
			return nil // would be a FRAME_SIZE_ERROR, not this property
		}
		if l < over {
			over, pad = 0, -1
		}
		n := int(l - over)
		end := e.End
		if n == 0 && pad < 0 && !end {
			return nil
		}
		fits := l <= avail
		if l > 0 && (l == avail || l == avail+1) {
			edge = true
		}
		payload := make([]byte, n)
		if pad >= 0 {
			s.fr.WriteDataPadded(st.id, end, payload, make([]byte, pad))
		} else {
			s.fr.WriteData(st.id, end, payload)
		}
		if fits {
			st.view -= l
			connView -= l
			if live {
				st.accepted += int64(n)
			}
			if end {
				st.srvEnded = true
			}
			return calm(fmt.Sprintf("after a DATA frame of %d bytes on stream %d (stream window %d, connection window %d before it)", l, st.id, st.view+l, connView+l))
		}
		overSt = st
		switch {
		case !live:
			overrun = fmt.Sprintf("DATA frame of %d bytes on stream %d (already dropped by the Transport) with connection window %d", l, st.id, connView)
			r.Class("overrun-conn-on-dropped-stream")
		case l > connView && l > st.view:
			overrun = fmt.Sprintf("DATA frame of %d bytes on stream %d with stream window %d and connection window %d", l, st.id, st.view, connView)
			r.Class("overrun-both")
		case l > connView:
			overrun = fmt.Sprintf("DATA frame of %d bytes on stream %d with connection window %d (stream window %d)", l, st.id, connView, st.view)
			r.Class("overrun-conn-only")
		default:
			overrun = fmt.Sprintf("DATA frame of %d bytes on stream %d with stream window %d (connection window %d)", l, st.id, st.view, connView)
			r.Class("overrun-stream-only")
		}
		drain()
		return nil
	}

	runEv := func(st *c11cSt, e c11cEv) error {
		switch e.Kind {
		case "data":
			return data(st, e)
		case "end":
			if st.srvEnded {
				return nil
			}
			st.srvEnded = true
			s.fr.WriteData(st.id, true, nil)
		case "read":
			if st.reading.Load() || st.dropped {
				return nil
			}
			appRead(st, e.N, false)
		case "close":
			if st.dropped {
				return nil
			}
			st.dropped = true
			appCall(st, func() { st.body.Close() })
		case "cancel":
			st.dropped = true
			st.rt.cancel()
			synctest.Wait()
		}
		return calm("after " + e.Kind)
	}
	step := func(i int) error {
		st := sts[i]
		if st.rt == nil {
			return open(st, strconv.Itoa(i))
		}
		if st.next < len(st.plan.Events) {
			e := st.plan.Events[st.next]
			st.next++
			return runEv(st, e)
		}
		return nil
	}

	for _, o := range c.Order {
		if overrun != "" {
			break
		}
		if err := step(o % len(sts)); err != nil {
			return err
		}
	}
	for i, st := range sts {
		for overrun == "" && (st.rt == nil || st.next < len(st.plan.Events)) {
			if err := step(i); err != nil {
				return err
			}
		}
	}

	// The application now reads every body it still holds to the end (streams the
	// server has not ended are ended first, or fail with the connection).
	if overrun == "" {
		for _, st := range append(sts, witness) {
			if !st.srvEnded {
				st.srvEnded = true
				s.fr.WriteData(st.id, true, nil)
			}
		}
		if err := calm("after END_STREAM on all streams"); err != nil {
			return err
		}
	} else {
		time.Sleep(time.Second)
		synctest.Wait()
		drain()
		if !overSt.cliFC && !goAway && !connClosed {
			return fmt.Errorf("%s: accepted - no RST_STREAM, no GOAWAY, connection still open after 1s", overrun)
		}
	}
	for _, st := range append(sts, witness) {
		if st.rt == nil {
			continue
		}
		if !st.reading.Load() && !st.dropped {
			appRead(st, 1<<16, true)
		}
	}
	synctest.Wait()
	for i, st := range append(sts, witness) {
		if st.rt == nil {
			continue
		}
		if st.reading.Load() {
			return fmt.Errorf("request %d: Read still blocked although the stream (or the connection) has ended", i)
		}
		// never more than the accepted frames carried
		if got := st.readN.Load(); got > st.accepted {
			return fmt.Errorf("stream %d: the response body delivered %d bytes, but the DATA frames within the advertised windows carried only %d (%s)", st.id, got, st.accepted, overrun)
		}
		// DATA within the window is accepted: a body read to its end without
		// interference delivers everything
		if overrun == "" && !st.dropped {
			e, _ := st.readErr.Load().(error)
			if got := st.readN.Load(); got != st.accepted || e != io.EOF {
				return fmt.Errorf("stream %d: all DATA was within the advertised windows, but the body delivered %d of %d bytes and ended with %v", st.id, got, st.accepted, e)
			}
		}
	}

	if overrun != "" {
		r.Class("overrun")
		// the Transport must have reported a FLOW_CONTROL_ERROR: RST_STREAM on that
		// stream, GOAWAY, or (its GOAWAY is not reliably flushed before it closes the
		// connection) a closed connection whose error, as seen by a request still in
		// flight, is a FLOW_CONTROL_ERROR connection error.
		werr, _ := witness.readErr.Load().(error)
		switch {
		case overSt.cliFC:
			r.Class("reported-rst-stream")
		case goAway && goAwayCode == ErrCodeFlowControl:
			r.Class("reported-goaway")
		case goAway:
			return fmt.Errorf("%s: answered with GOAWAY(%v), want FLOW_CONTROL_ERROR", overrun, goAwayCode)
		case connClosed && c11cIsFlowErr(werr):
			r.Class("reported-conn-closed+app-error")
		default:
			return fmt.Errorf("%s: no FLOW_CONTROL_ERROR reported (no RST_STREAM/GOAWAY with that code; connection closed=%v; error seen by an open response body: %v)", overrun, connClosed, werr)
		}
	} else {
		r.Class("no-overrun")
	}
	if edge {
		r.NonTrivial()
		r.Class("frame-at-window-edge")
	}
	return nil
}

func TestVP_C11_client(t *testing.T) {
	vp.Run(t, vp.Spec[c11cCase]{ID: "C11", Sub: "client", CrashFile: true, Gen: c11cGen, Prop: func(c c11cCase, r *vp.Rec) error {
		return vpBubble(t, func() error { return vpGuard(func() error { return c11cRun(c, r) }) })
	}})
}
