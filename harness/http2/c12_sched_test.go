package http2

import (
	"testing"

	"pgregory.net/rapid"
	"verif/vp"
)

// C12: every write scheduler delivers every queued frame exactly once, in order.
// The interpreter and the reference model live in c12_model_test.go.

func c12Prop(c c12Case, r *vp.Rec) error {
	var w0 *c12World
	err := c12Run(c, r, func(w *c12World) { w0 = w })
	if err != nil || w0 == nil {
		return err
	}
	r.Class("sched:" + c.Sched)
	if (w0.closedQueued && w0.poppedAfterCQ) || w0.split {
		r.NonTrivial()
	}
	return nil
}

func c12MaxOps() int {
	if vp.Thorough() {
		return 200
	}
	return 80
}

func c12Test(t *testing.T, sub string, scheds ...string) {
	vp.Run(t, vp.Spec[c12Case]{ID: "C12", Sub: sub, Prop: c12Prop,
		Gen: func(t *rapid.T) c12Case { return c12CaseGen(t, scheds, false, c12MaxOps()) }})
}

func TestVP_C12_random(t *testing.T)     { c12Test(t, "random", "random") }
func TestVP_C12_roundrobin(t *testing.T) { c12Test(t, "roundrobin", "roundrobin") }
func TestVP_C12_rfc7540(t *testing.T) {
	c12Test(t, "rfc7540", "rfc7540", "rfc7540", "rfc7540-noretain", "rfc7540-small-throttle")
}
func TestVP_C12_rfc9218(t *testing.T) { c12Test(t, "rfc9218", "rfc9218") }
