package http2_test

// C17: on a Transport connection, the stream IDs the client opens are odd and strictly
// increasing; with StrictMaxConcurrentStreams the number of simultaneously open streams
// never exceeds the server's SETTINGS_MAX_CONCURRENT_STREAMS (extra requests wait and
// start when slots free up); without it a connection at its limit gets no new stream
// (the pool dials another connection).

import (
	"fmt"
	"testing"
	"time"

	"pgregory.net/rapid"
	"verif/vp"

	. "golang.org/x/net/http2"
)

type c17Req struct {
	Body bool `json:"body"` // streaming request body: END_STREAM only after "closebody"
	Pre  int  `json:"pre"`  // body bytes available at once
}

type c17Step struct {
	// start, respond, resphdr, finish, rst, cancel, closeresp, closebody, settings,
	// settings_other (SETTINGS without MAX_CONCURRENT_STREAMS: V 0 empty, 1/2
	// INITIAL_WINDOW_SIZE, 3/4 MAX_FRAME_SIZE, 5/6 HEADER_TABLE_SIZE, 7 several),
	// holdpings, pong
	Kind  string `json:"kind"`
	K     int    `json:"k"` // selects the target among the currently eligible ones (mod)
	V     uint32 `json:"v"`
	Burst bool   `json:"burst"` // server frame: do not wait for the client before the next server frame
}

type c17Case struct {
	Strict bool `json:"strict"`
	// MultiWait lets more than one request wait for a stream slot at the same time
	// (strict mode). Without it the interpreter skips a "start" (and turns a
	// REFUSED_STREAM reset into CANCEL) while one request is already waiting.
	MultiWait bool      `json:"multi_wait"`
	HoldPings bool      `json:"hold_pings"` // connections start with PING acknowledgements withheld
	Limits    []uint32  `json:"limits"`     // MAX_CONCURRENT_STREAMS in the preface of the i-th connection (cyclic)
	Reqs      []c17Req  `json:"reqs"`
	Steps     []c17Step `json:"steps"`
}

func c17Gen(t *rapid.T) c17Case {
	var c c17Case
	c.Strict = rapid.Bool().Draw(t, "strict")
	c.MultiWait = rapid.IntRange(0, 2).Draw(t, "multiwait") != 0
	c.HoldPings = rapid.IntRange(0, 2).Draw(t, "holdpings") == 0
	lim := rapid.SampledFrom([]uint32{1, 1, 2, 2, 3, 3, 100, 0})
	c.Limits = rapid.SliceOfN(lim, 1, 3).Draw(t, "limits")
	maxReq := 12
	if vp.Thorough() {
		maxReq = 16
	}
	c.Reqs = rapid.SliceOfN(rapid.Custom(func(t *rapid.T) c17Req {
		return c17Req{Body: rapid.IntRange(0, 3).Draw(t, "body") == 0, Pre: rapid.IntRange(0, 20).Draw(t, "pre")}
	}), 2, maxReq).Draw(t, "reqs")
	kinds := []string{
		"start", "start", "start", "start", "start",
		"respond", "respond", "respond", "resphdr", "finish",
		"rst", "rst", "cancel", "cancel", "closeresp", "closebody",
		"settings", "settings", "settings", "settings_other", "settings_other", "holdpings", "pong",
	}
	step := rapid.Custom(func(t *rapid.T) c17Step {
		s := c17Step{Kind: rapid.SampledFrom(kinds).Draw(t, "kind"), K: rapid.IntRange(0, 15).Draw(t, "k")}
		switch s.Kind {
		case "settings":
			s.V = rapid.SampledFrom([]uint32{0, 1, 1, 2, 2, 3, 4, 100}).Draw(t, "v")
			s.Burst = rapid.IntRange(0, 3).Draw(t, "burst") == 0
		case "settings_other":
			s.V = rapid.Uint32Range(0, 7).Draw(t, "v")
			s.Burst = rapid.IntRange(0, 3).Draw(t, "burst") == 0
		case "rst":
			s.V = rapid.SampledFrom([]uint32{uint32(ErrCodeCancel), uint32(ErrCodeRefusedStream), uint32(ErrCodeInternal)}).Draw(t, "code")
			s.Burst = rapid.IntRange(0, 3).Draw(t, "burst") == 0
		case "respond", "resphdr", "finish":
			s.Burst = rapid.IntRange(0, 3).Draw(t, "burst") == 0
		}
		return s
	})
	maxSteps := 40
	if vp.Thorough() {
		maxSteps = 70
	}
	c.Steps = rapid.SliceOfN(step, 1, maxSteps).Draw(t, "steps")
	return c
}

func c17ServerKind(k string) bool {
	switch k {
	case "respond", "resphdr", "finish", "rst", "settings", "settings_other", "pong":
		return true
	}
	return false
}

func c17Run(t *testing.T, c c17Case, r *vp.Rec) (err error) {
	s, err := vpNewCli(t, len(c.Reqs), c.Strict)
	if err != nil {
		return err
	}
	defer s.teardown()
	s.greet = func(idx int) (uint32, bool) { return c.Limits[idx%len(c.Limits)], true }
	s.holdPings = c.HoldPings

	reachedLimit := false
	s.onOpen = func(cn *vpCliConn, st *vpCliStream, prevLast uint32, openBefore int, repeat bool) error {
		if repeat {
			return fmt.Errorf("conn %d: second HEADERS frame for stream %d (stream IDs must be strictly increasing)", cn.idx, st.id)
		}
		if st.id%2 == 0 {
			return fmt.Errorf("conn %d: client opened even stream ID %d", cn.idx, st.id)
		}
		if st.id <= prevLast {
			return fmt.Errorf("conn %d: client opened stream %d after stream %d (IDs must be strictly increasing)", cn.idx, st.id, prevLast)
		}
		lim := cn.limit()
		if int64(openBefore)+1 > lim {
			mode := "non-strict: the connection was at its limit and must not get a new request"
			if c.Strict {
				mode = "StrictMaxConcurrentStreams"
			}
			return fmt.Errorf("conn %d: client opened stream %d while %d streams were open; SETTINGS_MAX_CONCURRENT_STREAMS in force is %d (%s)", cn.idx, st.id, openBefore, lim, mode)
		}
		if int64(openBefore)+1 == lim {
			reachedLimit = true
		}
		if c.Strict && cn.idx > 0 {
			return fmt.Errorf("StrictMaxConcurrentStreams: request %d was sent on an additional connection (%d) instead of waiting", st.req, cn.idx)
		}
		return nil
	}

	next := 0 // next request to start
	waited := 0
	loweredBelow := false
	heldReset := false
	otherAtLimit := false   // a SETTINGS without MAX_CONCURRENT_STREAMS arrived at a full connection
	pendingOffWire := false // non-strict: an unfinished request off the wire without the evidence above
	stalled := false        // strict: a request did not start/finish although slots were freed

	// after a drain (client quiescent)
	check := func() error {
		if err := s.tb.Err(); err != nil {
			return fmt.Errorf("harness: %v", err)
		}
		for _, cn := range s.conns {
			if cn.dead || cn.cliGoAway {
				return fmt.Errorf("conn %d: client closed the connection or sent GOAWAY in a session without protocol errors", cn.idx)
			}
		}
		if c.Strict {
			return nil
		}
		// non-strict: the pool must not choose a connection at its limit. A request so
		// chosen is not on the wire and is counted by that connection as pending
		// (ClientConn.State().StreamsPending) while the connection is full.
		for _, q := range s.reqs {
			if !q.started || q.cancelled || q.refused > 1 || q.done() {
				continue
			}
			l := q.last()
			if l != nil && !l.closed() {
				continue
			}
			for _, cn := range s.conns {
				if cn.tc.cc == nil {
					continue
				}
				if st := cn.tc.cc.State(); st.StreamsPending > 0 && int64(cn.open()) >= cn.limit() {
					return fmt.Errorf("non-strict mode: conn %d is at its limit (%d open, MAX_CONCURRENT_STREAMS %d) but the pool chose it for a new request: %d request(s) wait on it (request %d is not on the wire)", cn.idx, cn.open(), cn.limit(), st.StreamsPending, q.k)
				}
			}
			pendingOffWire = true
		}
		return nil
	}

	// waiters: requests that are neither finished nor on the wire (client quiescent)
	waiters := func() int {
		n := 0
		for _, q := range s.reqs {
			if q.started && !q.done() && (q.last() == nil || q.last().closed()) {
				n++
			}
		}
		return n
	}
	oneWaiter := c.Strict && !c.MultiWait

	for i := 0; i < len(c.Steps); i++ {
		st := c.Steps[i]
		s.snapshot()
		switch st.Kind {
		case "start":
			if next >= len(c.Reqs) {
				continue
			}
			if oneWaiter && waiters() > 0 {
				continue
			}
			k := next
			next++
			kind := 0
			if c.Reqs[k].Body {
				kind = 1
			}
			if err := s.start(k, kind, c.Reqs[k].Pre); err != nil {
				return err
			}
			if err := s.drain(); err != nil {
				return err
			}
			if len(s.reqs[k].attempts) == 0 && !s.reqs[k].done() {
				waited++
			}
		case "respond", "resphdr", "finish", "rst":
			open := s.openStreams()
			if len(open) == 0 {
				continue
			}
			x := open[st.K%len(open)]
			switch st.Kind {
			case "respond":
				if x.respHdr {
					s.finish(x)
				} else {
					s.respond(x, true)
				}
			case "resphdr":
				s.respond(x, false)
			case "finish":
				s.finish(x)
			case "rst":
				q := s.reqs[x.req]
				code := ErrCode(st.V)
				if code == ErrCodeRefusedStream && oneWaiter && waiters() > 0 {
					code = ErrCodeCancel // a retried request would become a second waiter
				}
				if code == ErrCodeRefusedStream && !x.respHdr {
					q.refused++
				}
				s.reset(x, code)
			}
		case "settings":
			if len(s.conns) == 0 {
				continue
			}
			cn := s.conns[st.K%len(s.conns)]
			if int(st.V) < cn.open() {
				loweredBelow = true
			}
			s.writeSettingsMCS(cn, st.V)
		case "settings_other":
			if len(s.conns) == 0 {
				continue
			}
			cn := s.conns[st.K%len(s.conns)]
			var set []Setting
			switch st.V {
			case 1:
				set = []Setting{{ID: SettingInitialWindowSize, Val: 65535}}
			case 2:
				set = []Setting{{ID: SettingInitialWindowSize, Val: 1 << 20}}
			case 3:
				set = []Setting{{ID: SettingMaxFrameSize, Val: 16384}}
			case 4:
				set = []Setting{{ID: SettingMaxFrameSize, Val: 1 << 16}}
			case 5:
				set = []Setting{{ID: SettingHeaderTableSize, Val: 4096}}
			case 6:
				set = []Setting{{ID: SettingHeaderTableSize, Val: 0}}
			case 7:
				set = []Setting{{ID: SettingHeaderTableSize, Val: 1024}, {ID: SettingInitialWindowSize, Val: 1 << 18}, {ID: SettingMaxFrameSize, Val: 1 << 15}}
			}
			if int64(cn.open()) >= cn.limit() {
				otherAtLimit = true
			}
			s.writeSettingsOther(cn, set...)
		case "holdpings":
			if len(s.conns) == 0 {
				continue
			}
			s.conns[st.K%len(s.conns)].holdPings = true
			continue
		case "pong":
			if len(s.conns) == 0 {
				continue
			}
			s.releasePings(s.conns[st.K%len(s.conns)])
		case "cancel":
			var live []*vpCliReq
			for _, q := range s.reqs {
				if q.started && !q.cancelled && !q.done() {
					live = append(live, q)
				}
			}
			if len(live) == 0 {
				continue
			}
			q := live[st.K%len(live)]
			q.cancelled = true
			q.rt.cancel()
		case "closeresp":
			var cand []*vpCliReq
			for _, q := range s.reqs {
				if q.started && !q.cancelled && q.done() && q.rt.resp != nil && q.last() != nil && !q.last().closed() {
					cand = append(cand, q)
				}
			}
			if len(cand) == 0 {
				continue
			}
			q := cand[st.K%len(cand)]
			q.cancelled = true // the client gave the stream up
			go q.rt.resp.Body.Close()
		case "closebody":
			var cand []*vpCliReq
			for _, q := range s.reqs {
				if q.started && q.body != nil && !q.bodyEnded {
					cand = append(cand, q)
				}
			}
			if len(cand) == 0 {
				continue
			}
			q := cand[st.K%len(cand)]
			q.bodyEnded = true
			q.body.end()
		}
		if st.Burst && c17ServerKind(st.Kind) && i+1 < len(c.Steps) && c17ServerKind(c.Steps[i+1].Kind) {
			continue
		}
		if err := s.drain(); err != nil {
			return err
		}
		for _, cn := range s.conns {
			if len(cn.held) > 0 {
				for _, x := range cn.order {
					if x.rstByCli {
						heldReset = true
					}
				}
			}
		}
		if err := check(); err != nil {
			return err
		}
	}
	if err := s.drain(); err != nil {
		return err
	}
	if err := check(); err != nil {
		return err
	}

	// Strict mode, end of script: acknowledge outstanding PINGs, make sure no limit is 0,
	// then complete open streams round by round. The stream-count and ID clauses keep
	// being checked on every stream the waiting requests open; whether every request
	// got its turn is recorded as a statistic only (class stalled-after-slot-freed).
	if c.Strict {
		for _, cn := range s.conns {
			s.releasePings(cn)
			if cn.limit() == 0 {
				s.writeSettingsMCS(cn, 1)
			}
			// The client does not re-examine waiting requests when a SETTINGS frame
			// raises the limit (processSettings does not signal cc.cond); the statement
			// only speaks of slots, so a connection-level WINDOW_UPDATE makes the
			// client look again before liveness is judged.
			if cn.usable() {
				cn.tc.fr.WriteWindowUpdate(0, 1)
			}
		}
		// a stream whose request body is still being written stays open (half-closed
		// remote) after the response; the application ends its bodies now
		for _, q := range s.reqs {
			if q.body != nil && !q.bodyEnded {
				q.bodyEnded = true
				q.body.end()
			}
		}
		if err := s.drain(); err != nil {
			return err
		}
		for round := 0; round < 4*len(c.Reqs)+8; round++ {
			open := s.openStreams()
			if len(open) == 0 {
				break
			}
			for _, x := range open {
				if x.respHdr {
					s.finish(x)
				} else {
					s.respond(x, true)
				}
			}
			if err := s.drain(); err != nil {
				return err
			}
			if err := check(); err != nil {
				return err
			}
		}
		time.Sleep(2 * time.Minute) // let a REFUSED_STREAM retry back-off elapse
		for round := 0; round < 4*len(c.Reqs)+8; round++ {
			if err := s.drain(); err != nil {
				return err
			}
			open := s.openStreams()
			if len(open) == 0 {
				break
			}
			for _, x := range open {
				if x.respHdr {
					s.finish(x)
				} else {
					s.respond(x, true)
				}
			}
		}
		if err := s.drain(); err != nil {
			return err
		}
		for _, q := range s.reqs {
			if q.started && !q.done() {
				// Not a clause of the statement (which only promises that extra
				// requests wait): recorded, not failed.
				stalled = true
			}
		}
	}

	if c.Strict {
		r.Class("strict")
	} else {
		r.Class("non-strict")
	}
	if waited > 0 {
		r.Class("request-waited")
		r.NonTrivial()
	}
	if len(s.conns) > 1 {
		r.Class("conns>=2")
		r.NonTrivial()
	}
	if reachedLimit {
		r.Class("limit-reached")
	}
	if loweredBelow {
		r.Class("limit-lowered-below-open")
	}
	if heldReset {
		r.Class("client-reset-with-ping-unanswered")
	}
	if otherAtLimit {
		r.Class("settings-without-limit-at-full-conn")
	}
	if stalled {
		r.Class("stalled-after-slot-freed")
	}
	if pendingOffWire {
		r.Class("nonstrict-pending-off-wire")
	}
	if c.Strict && c.MultiWait {
		r.Class("strict-multi-wait")
	}
	refused := false
	for _, q := range s.reqs {
		if q.refused > 0 && len(q.attempts) > 1 {
			refused = true
		}
	}
	if refused {
		r.Class("refused-stream-retried")
	}
	return nil
}

func TestVP_C17(t *testing.T) {
	vp.Run(t, vp.Spec[c17Case]{ID: "C17", CrashFile: true, Gen: c17Gen, Prop: func(c c17Case, r *vp.Rec) error {
		return vpCliBubble(t, func() error { return c17Run(t, c, r) })
	}})
}
