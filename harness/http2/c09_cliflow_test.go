package http2_test

// C09: the Transport never sends request DATA beyond the server's flow-control windows
// (stream, connection, SETTINGS_MAX_FRAME_SIZE), and a blocked request body resumes
// when the server extends the window. Mirror image of C08.

import (
	"fmt"
	"net/http"
	"strconv"
	"testing"

	"pgregory.net/rapid"
	"verif/vp"

	. "golang.org/x/net/http2"
)

type c09Req struct {
	Chunks      []int `json:"chunks"`
	DeclLen     bool  `json:"decl_len"`      // Request.ContentLength is set
	Trailers    bool  `json:"trailers"`      // request has trailers
	EOFWithLast bool  `json:"eof_with_last"` // body ends in the same step as its last chunk
	EOFWithData bool  `json:"eof_with_data"` // Read returns io.EOF together with the last bytes
}

type c09Step struct {
	Kind string `json:"kind"` // open, feed, wu, wuconn, settings_win, settings_frame, settings_both, resp, rst, cancel, ping
	K    int    `json:"k"`    // request index
	V    uint32 `json:"v"`
	W    uint32 `json:"w,omitempty"`
}

type c09Case struct {
	GreetAt  int       `json:"greet_at"`  // number of leading steps executed before the server's first SETTINGS
	InitWin  int64     `json:"init_win"`  // SETTINGS_INITIAL_WINDOW_SIZE at greet (-1: absent)
	MaxFrame int64     `json:"max_frame"` // SETTINGS_MAX_FRAME_SIZE at greet (-1: absent)
	Reqs     []c09Req  `json:"reqs"`
	Steps    []c09Step `json:"steps"`
}

func c09Gen(t *rapid.T) c09Case {
	var c c09Case
	c.InitWin = rapid.SampledFrom([]int64{-1, 0, 1, 100, 16384, 65535, 70000, 1 << 20}).Draw(t, "initwin")
	c.MaxFrame = rapid.SampledFrom([]int64{-1, 16384, 16385, 65536, 1<<24 - 1}).Draw(t, "maxframe")
	sz := rapid.OneOf(rapid.IntRange(0, 300), rapid.IntRange(0, 40000),
		rapid.SampledFrom([]int{0, 1, 16383, 16384, 16385, 65535, 65536, 100000, 600000}))
	c.Reqs = rapid.SliceOfN(rapid.Custom(func(t *rapid.T) c09Req {
		return c09Req{
			Chunks:      rapid.SliceOfN(sz, 0, 5).Draw(t, "chunks"),
			DeclLen:     rapid.Bool().Draw(t, "decl"),
			Trailers:    rapid.Bool().Draw(t, "trailers"),
			EOFWithLast: rapid.Bool().Draw(t, "eof_with_last"),
			EOFWithData: rapid.Bool().Draw(t, "eof_with_data"),
		}
	}), 1, 5).Draw(t, "reqs")
	n := len(c.Reqs)
	step := rapid.Custom(func(t *rapid.T) c09Step {
		kind := rapid.SampledFrom([]string{"open", "open", "open", "feed", "feed", "feed", "feed", "wu", "wu", "wu", "wuconn", "wuconn", "wuconn",
			"settings_win", "settings_win", "settings_win2", "settings_frame", "settings_both", "resp", "rst", "cancel", "ping"}).Draw(t, "kind")
		s := c09Step{Kind: kind, K: rapid.IntRange(0, n-1).Draw(t, "k")}
		wins := rapid.SampledFrom([]uint32{0, 1, 10, 100, 16384, 65535, 1 << 18, 1 << 20})
		frames := rapid.SampledFrom([]uint32{16384, 16385, 20000, 65536, 1<<24 - 1})
		switch kind {
		case "wu", "wuconn":
			s.V = rapid.OneOf(rapid.Uint32Range(1, 70000), rapid.SampledFrom([]uint32{1, 2, 100, 16384, 65535, 1 << 20})).Draw(t, "inc")
		case "settings_win":
			s.V = wins.Draw(t, "win")
		case "settings_frame":
			s.V = frames.Draw(t, "fs")
		case "settings_both":
			s.V = wins.Draw(t, "win")
			s.W = frames.Draw(t, "fs")
		case "settings_win2": // one SETTINGS frame carrying the parameter twice: W first, then V
			s.V = wins.Draw(t, "win")
			s.W = wins.Draw(t, "firstWin")
		case "resp":
			s.V = rapid.SampledFrom([]uint32{0, 0, 0, 1, 2}).Draw(t, "resp") // 0: 200, 1: 200+END_STREAM, 2: 404
		case "rst":
			s.V = rapid.SampledFrom([]uint32{uint32(ErrCodeNo), uint32(ErrCodeCancel), uint32(ErrCodeRefusedStream)}).Draw(t, "code")
		}
		return s
	})
	c.Steps = rapid.SliceOfN(step, 1, 40).Draw(t, "steps")
	c.GreetAt = rapid.SampledFrom([]int{0, 0, 0, 1, 2, 3, 5}).Draw(t, "greet_at")
	return c
}

type c09Stream struct {
	id       uint32
	plan     int
	win      int64 // permissive stream send window (server's view)
	got      int   // DATA payload bytes received
	ended    bool  // END_STREAM seen
	reset    bool  // RST_STREAM seen from the client
	respSent bool
}

type c09Plan struct {
	rt      *vpRT
	body    *vpReqBody
	total   int
	next    int // next chunk to feed
	fed     int
	eofFed  bool
	aborted bool // the request was ended other than by completing its body
	blocked bool
	sm      *c09Stream
}

func c09Run(c c09Case, r *vp.Rec) (err error) {
	s, err := vpNewCli(vpCliOpts{})
	if err != nil {
		return err
	}
	defer s.shutdown()

	plans := make([]*c09Plan, len(c.Reqs))
	for k, rq := range c.Reqs {
		p := &c09Plan{}
		for _, n := range rq.Chunks {
			p.total += n
		}
		plans[k] = p
	}

	// monitor state: the server's view, permissive where the protocol allows a race
	connWin := int64(65535)
	initWin := vpWin{acked: 65535}
	maxFrame := vpWin{acked: 16384}
	streams := map[uint32]*c09Stream{}
	connDead := false
	greeted := false
	sawNegative := false
	blocked2 := false // two request bodies blocked at the same quiescent point

	setInit := func(f func()) { // run a change of initWin and apply the delta to all streams
		before := initWin.eff()
		f()
		if d := initWin.eff() - before; d != 0 {
			for _, sm := range streams {
				sm.win += d
			}
		}
	}
	sendSettings := func(set ...Setting) error {
		hasI, hasF := false, false
		var vi, vf int64
		for _, st := range set {
			switch st.ID {
			case SettingInitialWindowSize:
				hasI, vi = true, int64(st.Val)
			case SettingMaxFrameSize:
				hasF, vf = true, int64(st.Val)
			}
		}
		setInit(func() { initWin.sent(hasI, vi) })
		maxFrame.sent(hasF, vf)
		return s.fr.WriteSettings(set...)
	}

	drain := func() error {
		for {
			f, err := s.read()
			if err != nil {
				connDead = true
				return nil
			}
			if f == nil {
				return nil
			}
			switch f := f.(type) {
			case *SettingsFrame:
				if f.IsAck() {
					ok := true
					setInit(func() { ok = initWin.ack() })
					if !ok || !maxFrame.ack() {
						return fmt.Errorf("SETTINGS ACK without outstanding SETTINGS")
					}
				} else {
					s.fr.WriteSettingsAck()
				}
			case *HeadersFrame:
				sm := streams[f.StreamID]
				if sm == nil {
					plan := -1
					for k, p := range plans {
						if p.rt != nil && p.rt.streamID() == f.StreamID {
							plan = k
						}
					}
					if plan < 0 {
						return fmt.Errorf("HEADERS on stream %d which no RoundTrip owns", f.StreamID)
					}
					sm = &c09Stream{id: f.StreamID, plan: plan, win: initWin.eff()}
					streams[f.StreamID] = sm
					plans[plan].sm = sm
				}
				if f.StreamEnded() {
					sm.ended = true
				}
			case *DataFrame:
				sm := streams[f.StreamID]
				if sm == nil {
					return fmt.Errorf("DATA on stream %d before its HEADERS", f.StreamID)
				}
				n := int64(f.Length)
				if n > maxFrame.eff() {
					return fmt.Errorf("DATA frame of %d bytes on stream %d exceeds SETTINGS_MAX_FRAME_SIZE %d", n, f.StreamID, maxFrame.eff())
				}
				if n > 0 && n > sm.win {
					return fmt.Errorf("DATA frame of %d bytes on stream %d exceeds the stream send window %d", n, f.StreamID, sm.win)
				}
				if n > 0 && n > connWin {
					return fmt.Errorf("DATA frame of %d bytes on stream %d exceeds the connection send window %d", n, f.StreamID, connWin)
				}
				sm.win -= n
				connWin -= n
				d := f.Data()
				for i := range d {
					if d[i] != vpPattern(sm.plan, sm.got+i) {
						return fmt.Errorf("stream %d: DATA byte at offset %d differs from the request body", f.StreamID, sm.got+i)
					}
				}
				sm.got += len(d)
				if sm.got > plans[sm.plan].fed {
					return fmt.Errorf("stream %d: received %d DATA bytes, body had only %d", f.StreamID, sm.got, plans[sm.plan].fed)
				}
				if f.StreamEnded() {
					sm.ended = true
				}
			case *RSTStreamFrame:
				if sm := streams[f.StreamID]; sm != nil {
					sm.reset = true
					plans[sm.plan].aborted = true
				}
			case *GoAwayFrame:
				connDead = true
			}
		}
	}

	// quiesce drains and then checks, in the quiescent state, that nothing is stalled:
	// every live request whose body has bytes available that fit both windows has sent
	// them, and every completely sent body carries END_STREAM.
	quiesce := func(final bool) error {
		if err := drain(); err != nil {
			return err
		}
		if connDead {
			return nil
		}
		if len(initWin.flight) != 0 {
			if greeted {
				return fmt.Errorf("harness: %d SETTINGS frames not acknowledged after quiescence", len(initWin.flight))
			}
		}
		nblocked := 0
		for k, p := range plans {
			if p.rt == nil || p.aborted {
				continue
			}
			if _, rerr, done := p.rt.result(); done && rerr != nil {
				return fmt.Errorf("request %d: RoundTrip failed although nothing aborted it: %v", k, rerr)
			}
			if p.sm == nil {
				return fmt.Errorf("request %d: no HEADERS sent after quiescence", k)
			}
			sm := p.sm
			if sm.win < 0 {
				sawNegative = true
			}
			// With a declared length the Transport, having read the last declared
			// byte without io.EOF, asks the body for EOF before it sends those bytes
			// (to put END_STREAM on them); that wait is not a flow-control stall.
			awaitingEOF := c.Reqs[k].DeclLen && p.total > 0 && p.fed == p.total && !p.eofFed
			if pending := p.fed - sm.got; pending > 0 && awaitingEOF {
				// held back by the body, not by a window
			} else if pending > 0 {
				if sm.win > 0 && connWin > 0 {
					return fmt.Errorf("stalled: stream %d (request %d) has %d body bytes pending while the stream window is %d and the connection window %d", sm.id, k, pending, sm.win, connWin)
				}
				p.blocked = true
				nblocked++
			} else if p.eofFed && !sm.ended {
				return fmt.Errorf("stalled: stream %d (request %d) sent all %d body bytes and the body is at EOF, but no END_STREAM", sm.id, k, sm.got)
			}
			if final && (!sm.ended || sm.got != p.total) {
				return fmt.Errorf("stalled: stream %d (request %d) delivered %d of %d bytes, END_STREAM=%v, after ample stream and connection credit was granted", sm.id, k, sm.got, p.total, sm.ended)
			}
		}
		if nblocked > 1 {
			blocked2 = true
		}
		return nil
	}

	open := func(k int) {
		p := plans[k]
		if p.rt != nil {
			return
		}
		rq := c.Reqs[k]
		p.body = vpNewReqBody(k, rq.EOFWithData)
		req, _ := http.NewRequest("POST", "https://dummy.tld/"+strconv.Itoa(k), p.body)
		if rq.DeclLen {
			req.ContentLength = int64(p.total)
		}
		if rq.Trailers {
			req.Trailer = http.Header{"X-Vp-Trailer": {"done"}}
		}
		p.rt = s.roundTrip(req)
	}
	feed := func(k int) {
		p := plans[k]
		if p.rt == nil {
			open(k)
			return
		}
		if p.eofFed {
			return
		}
		rq := c.Reqs[k]
		n := 0
		if p.next < len(rq.Chunks) {
			n = rq.Chunks[p.next]
			p.next++
		}
		eof := p.next == len(rq.Chunks) && (n == 0 || rq.EOFWithLast)
		if p.next == len(rq.Chunks) && len(rq.Chunks) == 0 {
			eof = true
		}
		p.fed += n
		p.eofFed = eof
		p.body.feed(n, eof)
	}
	greet := func() error {
		greeted = true
		var set []Setting
		if c.InitWin >= 0 {
			set = append(set, Setting{SettingInitialWindowSize, uint32(c.InitWin)})
		}
		if c.MaxFrame >= 0 {
			set = append(set, Setting{SettingMaxFrameSize, uint32(c.MaxFrame)})
		}
		if err := sendSettings(set...); err != nil {
			return fmt.Errorf("harness: settings: %v", err)
		}
		s.fr.WriteSettingsAck()
		return nil
	}

	for i, st := range c.Steps {
		if connDead {
			break
		}
		if !greeted && i >= c.GreetAt {
			if err := greet(); err != nil {
				return err
			}
			if err := quiesce(false); err != nil {
				return err
			}
		}
		p := plans[st.K]
		serverStep := st.Kind != "open" && st.Kind != "feed" && st.Kind != "cancel"
		if serverStep && !greeted {
			continue // the server's first frame must be SETTINGS
		}
		switch st.Kind {
		case "open":
			open(st.K)
		case "feed":
			feed(st.K)
		case "cancel":
			if p.rt == nil || p.aborted {
				continue
			}
			p.aborted = true
			p.rt.cancel()
		case "wu":
			sm := p.sm
			if sm == nil || sm.reset || sm.ended || sm.win+int64(st.V) > 1<<31-1 {
				continue // overflow is not part of this property's domain
			}
			sm.win += int64(st.V)
			s.fr.WriteWindowUpdate(sm.id, st.V)
		case "wuconn":
			if connWin+int64(st.V) > 1<<31-1 {
				continue
			}
			connWin += int64(st.V)
			s.fr.WriteWindowUpdate(0, st.V)
		case "settings_win", "settings_both", "settings_win2":
			over := false
			for _, sm := range streams {
				if sm.win+(int64(st.V)-initWin.eff()) > 1<<31-1 {
					over = true
				}
				if st.Kind == "settings_win2" && sm.win+(int64(st.W)-initWin.eff()) > 1<<31-1 {
					over = true
				}
			}
			if over {
				continue
			}
			if int64(st.V) < initWin.eff() {
				r.Class("settings-shrink")
			}
			if st.Kind == "settings_both" {
				sendSettings(Setting{SettingInitialWindowSize, st.V}, Setting{SettingMaxFrameSize, st.W})
			} else if st.Kind == "settings_win2" {
				// RFC 9113 6.5.3: the values are processed in the order they appear, so the
				// second one is what is in force afterwards
				r.Class("settings-with-repeated-initial-window-size")
				sendSettings(Setting{SettingInitialWindowSize, st.W}, Setting{SettingInitialWindowSize, st.V})
			} else {
				sendSettings(Setting{SettingInitialWindowSize, st.V})
			}
		case "settings_frame":
			sendSettings(Setting{SettingMaxFrameSize, st.V})
		case "resp":
			sm := p.sm
			if sm == nil || sm.respSent || sm.reset || p.aborted {
				continue
			}
			sm.respSent = true
			switch st.V {
			case 0:
				r.Class("early-response-200")
				s.respHeaders(sm.id, false, ":status", "200")
			case 1:
				if !sm.ended {
					p.aborted = true // the client may stop sending once the response is complete
				}
				s.respHeaders(sm.id, true, ":status", "200")
			default:
				if !sm.ended {
					p.aborted = true // the Transport stops the body on a status > 299
				}
				s.respHeaders(sm.id, false, ":status", "404")
			}
		case "rst":
			sm := p.sm
			if sm == nil || sm.reset || p.aborted {
				continue
			}
			p.aborted = true
			s.fr.WriteRSTStream(sm.id, ErrCode(st.V))
		case "ping":
			s.fr.WritePing(false, [8]byte{1, 2, 3})
		}
		if err := quiesce(false); err != nil {
			return err
		}
	}

	// liveness: open and feed everything, grant ample credit; every request that was
	// not aborted must deliver its whole body and END_STREAM.
	if !connDead {
		if !greeted {
			if err := greet(); err != nil {
				return err
			}
			if err := quiesce(false); err != nil {
				return err
			}
		}
		for k, p := range plans {
			if connDead {
				break
			}
			open(k)
			for !p.eofFed {
				feed(k)
			}
			if err := quiesce(false); err != nil {
				return err
			}
		}
	}
	if !connDead {
		if connWin < 1<<30 {
			inc := uint32(1<<30 - connWin)
			connWin += int64(inc)
			s.fr.WriteWindowUpdate(0, inc)
		}
		if err := quiesce(false); err != nil {
			return err
		}
		for _, p := range plans {
			sm := p.sm
			if sm == nil || sm.reset || sm.ended || connDead {
				continue
			}
			if sm.win < 1<<30 {
				inc := uint32(1<<30 - sm.win)
				sm.win += int64(inc)
				s.fr.WriteWindowUpdate(sm.id, inc)
			}
			if err := quiesce(false); err != nil {
				return err
			}
		}
		if err := quiesce(true); err != nil {
			return err
		}
	}

	nblocked, nlive := 0, 0
	for _, p := range plans {
		if p.blocked {
			nblocked++
		}
		if p.sm != nil {
			nlive++
		}
	}
	if nblocked > 0 && nlive >= 2 {
		r.NonTrivial()
	}
	if nblocked > 0 {
		r.Class("some-body-blocked")
	}
	if blocked2 {
		r.Class("blocked>=2-streams-at-once")
	}
	if sawNegative {
		r.Class("window-driven-negative")
	}
	if c.GreetAt > 0 {
		r.Class("requests-before-server-settings")
	}
	if connDead {
		r.Class("conn-ended-early")
	}
	return nil
}

func TestVP_C09(t *testing.T) {
	vp.Run(t, vp.Spec[c09Case]{ID: "C09", CrashFile: true, Gen: c09Gen, Prop: func(c c09Case, r *vp.Rec) error {
		return vpBubble(t, func() error { return vpGuard(func() error { return c09Run(c, r) }) })
	}})
}
