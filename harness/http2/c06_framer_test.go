package http2

// C06: every frame a Framer Write method produces from arguments the method accepts
// is read back by Framer.ReadFrame as the same frame type with the same flags,
// stream ID and payload fields, with padding removed.

import (
	"bytes"
	"fmt"
	"io"
	"testing"

	"pgregory.net/rapid"
	"verif/vp"
)

type c06Setting struct {
	ID  uint16 `json:"id"`
	Val uint32 `json:"val"`
}

// c06Op is one Write call. Only the fields relevant to Kind are used.
type c06Op struct {
	Kind string `json:"kind"`

	Stream     uint32 `json:"stream"`
	EndStream  bool   `json:"end_stream,omitempty"`
	EndHeaders bool   `json:"end_headers,omitempty"`
	Ack        bool   `json:"ack,omitempty"`

	// payload = Body ++ c06Fill(Fill, FillSeed)
	Body     []byte `json:"body,omitempty"`
	Fill     int    `json:"fill,omitempty"`
	FillSeed byte   `json:"fill_seed,omitempty"`

	// DATA: 0 pad==nil (WriteData), 1 pad==[]byte{} (non-nil, empty), 2 PadLen zero
	// bytes, 3 PadLen bytes one of which is non-zero (must be refused), 4 256+PadLen
	// zero bytes (must be refused). HEADERS / PUSH_PROMISE use PadLen (0..255) only.
	PadMode int `json:"pad_mode,omitempty"`
	PadLen  int `json:"pad_len,omitempty"`

	Dep    uint32 `json:"dep,omitempty"`
	Excl   bool   `json:"excl,omitempty"`
	Weight uint8  `json:"weight,omitempty"`

	Promise  uint32       `json:"promise,omitempty"`
	Settings []c06Setting `json:"settings,omitempty"`
	Code     uint32       `json:"code,omitempty"`
	Ping     [8]byte      `json:"ping"`
	Incr     uint32       `json:"incr,omitempty"`
	RawType  uint8        `json:"raw_type,omitempty"`
	RawFlags uint8        `json:"raw_flags,omitempty"`

	cache []byte // payload(), built once
}

type c06Case struct {
	Ops       []c06Op `json:"ops"`
	Reuse     bool    `json:"reuse"`      // reader uses SetReuseFrames
	LogWrites bool    `json:"log_writes"` // writer runs its write-logging path (output discarded)
}

func (o *c06Op) payload() []byte {
	if o.cache == nil {
		p := append(make([]byte, 0, len(o.Body)+o.Fill), o.Body...)
		if o.Fill > 0 {
			p = append(p, c06Fill(o.Fill, o.FillSeed)...)
		}
		o.cache = p
	}
	return o.cache
}

func (o *c06Op) pad() []byte {
	switch o.PadMode {
	case 1:
		return []byte{}
	case 2:
		return make([]byte, o.PadLen)
	case 3:
		p := make([]byte, o.PadLen)
		if len(p) > 0 {
			p[len(p)/2] = 0x5a
		}
		return p
	case 4:
		return make([]byte, 256+o.PadLen)
	}
	return nil
}

func c06StreamOK(id uint32) bool     { return id != 0 && id < 1<<31 }
func c06StreamOrZero(id uint32) bool { return id < 1<<31 }

// c06Want is what the documentation of the Write methods and RFC 9113 say the
// written frame is.
type c06Want struct {
	accept bool // the documented argument rules admit the call
	typ    uint8
	flags  uint8
	stream uint32
	length int
}

func c06Model(o *c06Op) c06Want {
	n := o.Fill + len(o.Body)
	w := c06Want{accept: true, stream: o.Stream}
	switch o.Kind {
	case "data":
		w.typ = 0x0
		w.accept = c06StreamOK(o.Stream)
		w.length = n
		if o.EndStream {
			w.flags |= 0x1
		}
		switch o.PadMode {
		case 1:
			w.flags |= 0x8
			w.length += 1
		case 2:
			w.flags |= 0x8
			w.length += 1 + o.PadLen
		case 3:
			w.flags |= 0x8
			w.length += 1 + o.PadLen
			if o.PadLen > 0 {
				w.accept = false
			}
		case 4:
			w.accept = false
		}
	case "headers":
		w.typ = 0x1
		w.accept = c06StreamOK(o.Stream)
		w.length = n
		if o.EndStream {
			w.flags |= 0x1
		}
		if o.EndHeaders {
			w.flags |= 0x4
		}
		if o.PadLen != 0 {
			w.flags |= 0x8
			w.length += 1 + o.PadLen
		}
		if o.Dep != 0 || o.Excl || o.Weight != 0 {
			w.flags |= 0x20
			w.length += 5
			if !c06StreamOrZero(o.Dep) {
				w.accept = false
			}
		}
	case "continuation":
		w.typ = 0x9
		w.accept = c06StreamOK(o.Stream)
		w.length = n
		if o.EndHeaders {
			w.flags |= 0x4
		}
	case "priority":
		w.typ = 0x2
		w.accept = c06StreamOK(o.Stream) && c06StreamOrZero(o.Dep)
		w.length = 5
	case "rst":
		w.typ = 0x3
		w.accept = c06StreamOK(o.Stream)
		w.length = 4
	case "settings":
		w.typ = 0x4
		w.stream = 0
		w.length = 6 * len(o.Settings)
	case "settingsack":
		w.typ = 0x4
		w.stream = 0
		w.flags = 0x1
	case "ping":
		w.typ = 0x6
		w.stream = 0
		w.length = 8
		if o.Ack {
			w.flags = 0x1
		}
	case "goaway":
		w.typ = 0x7
		w.stream = 0
		w.length = 8 + n
	case "winupdate":
		w.typ = 0x8
		w.accept = o.Incr >= 1 && o.Incr <= 1<<31-1
		w.length = 4
	case "pushpromise":
		w.typ = 0x5
		w.accept = c06StreamOK(o.Stream) && c06StreamOK(o.Promise)
		w.length = 4 + n
		if o.EndHeaders {
			w.flags |= 0x4
		}
		if o.PadLen != 0 {
			w.flags |= 0x8
			w.length += 1 + o.PadLen
		}
	case "priorityupdate":
		w.typ = 0x10
		w.accept = c06StreamOK(o.Stream)
		w.stream = 0
		w.length = 4 + n
	case "raw":
		w.typ = o.RawType
		w.flags = o.RawFlags
		w.length = n
	default:
		panic("c06: unknown op kind " + o.Kind)
	}
	if w.length >= 1<<24 {
		w.accept = false // frames over 2^24-1 bytes cannot be expressed: ErrFrameTooLarge
	}
	return w
}

func c06Write(fr *Framer, o *c06Op) error {
	switch o.Kind {
	case "data":
		if o.PadMode == 0 {
			return fr.WriteData(o.Stream, o.EndStream, o.payload())
		}
		return fr.WriteDataPadded(o.Stream, o.EndStream, o.payload(), o.pad())
	case "headers":
		return fr.WriteHeaders(HeadersFrameParam{
			StreamID: o.Stream, BlockFragment: o.payload(), EndStream: o.EndStream, EndHeaders: o.EndHeaders,
			PadLength: uint8(o.PadLen), Priority: PriorityParam{StreamDep: o.Dep, Exclusive: o.Excl, Weight: o.Weight},
		})
	case "continuation":
		return fr.WriteContinuation(o.Stream, o.EndHeaders, o.payload())
	case "priority":
		return fr.WritePriority(o.Stream, PriorityParam{StreamDep: o.Dep, Exclusive: o.Excl, Weight: o.Weight})
	case "rst":
		return fr.WriteRSTStream(o.Stream, ErrCode(o.Code))
	case "settings":
		ss := make([]Setting, len(o.Settings))
		for i, s := range o.Settings {
			ss[i] = Setting{ID: SettingID(s.ID), Val: s.Val}
		}
		return fr.WriteSettings(ss...)
	case "settingsack":
		return fr.WriteSettingsAck()
	case "ping":
		return fr.WritePing(o.Ack, o.Ping)
	case "goaway":
		return fr.WriteGoAway(o.Stream, ErrCode(o.Code), o.payload())
	case "winupdate":
		return fr.WriteWindowUpdate(o.Stream, o.Incr)
	case "pushpromise":
		return fr.WritePushPromise(PushPromiseParam{
			StreamID: o.Stream, PromiseID: o.Promise, BlockFragment: o.payload(), EndHeaders: o.EndHeaders, PadLength: uint8(o.PadLen),
		})
	case "priorityupdate":
		return fr.WritePriorityUpdate(o.Stream, string(o.payload()))
	case "raw":
		return fr.WriteRawFrame(FrameType(o.RawType), Flags(o.RawFlags), o.Stream, o.payload())
	}
	panic("c06: unknown op kind " + o.Kind)
}

// c06CheckFrame compares a frame that ReadFrame returned with the arguments of the
// Write call that produced it.
func c06CheckFrame(o *c06Op, w c06Want, f Frame) error {
	h := f.Header()
	if uint8(h.Type) != w.typ || uint8(h.Flags) != w.flags || h.StreamID != w.stream || int(h.Length) != w.length {
		return fmt.Errorf("header read back as type=%#x flags=%#x stream=%d len=%d, written type=%#x flags=%#x stream=%d len=%d",
			uint8(h.Type), uint8(h.Flags), h.StreamID, h.Length, w.typ, w.flags, w.stream, w.length)
	}
	want := o.payload()
	eq := func(what string, got []byte) error {
		if !bytes.Equal(got, want) {
			return fmt.Errorf("%s read back as %d bytes %.40x, written %d bytes %.40x", what, len(got), got, len(want), want)
		}
		return nil
	}
	prio := PriorityParam{StreamDep: o.Dep, Exclusive: o.Excl, Weight: o.Weight}
	switch o.Kind {
	case "data":
		df, ok := f.(*DataFrame)
		if !ok {
			return fmt.Errorf("read back as %T", f)
		}
		if df.StreamEnded() != o.EndStream {
			return fmt.Errorf("StreamEnded=%v", df.StreamEnded())
		}
		return eq("DATA payload", df.Data())
	case "headers":
		hf, ok := f.(*HeadersFrame)
		if !ok {
			return fmt.Errorf("read back as %T", f)
		}
		if hf.StreamEnded() != o.EndStream || hf.HeadersEnded() != o.EndHeaders || hf.HasPriority() != !prio.IsZero() {
			return fmt.Errorf("HEADERS flag accessors: ended=%v headersEnded=%v hasPriority=%v", hf.StreamEnded(), hf.HeadersEnded(), hf.HasPriority())
		}
		if hf.Priority != prio {
			return fmt.Errorf("HEADERS priority read back as %+v, written %+v", hf.Priority, prio)
		}
		return eq("HEADERS fragment", hf.HeaderBlockFragment())
	case "continuation":
		cf, ok := f.(*ContinuationFrame)
		if !ok {
			return fmt.Errorf("read back as %T", f)
		}
		if cf.HeadersEnded() != o.EndHeaders {
			return fmt.Errorf("CONTINUATION HeadersEnded=%v", cf.HeadersEnded())
		}
		return eq("CONTINUATION fragment", cf.HeaderBlockFragment())
	case "priority":
		pf, ok := f.(*PriorityFrame)
		if !ok {
			return fmt.Errorf("read back as %T", f)
		}
		if pf.PriorityParam != prio {
			return fmt.Errorf("PRIORITY read back as %+v, written %+v", pf.PriorityParam, prio)
		}
	case "rst":
		rf, ok := f.(*RSTStreamFrame)
		if !ok {
			return fmt.Errorf("read back as %T", f)
		}
		if uint32(rf.ErrCode) != o.Code {
			return fmt.Errorf("RST_STREAM code read back as %d, written %d", uint32(rf.ErrCode), o.Code)
		}
	case "settings", "settingsack":
		sf, ok := f.(*SettingsFrame)
		if !ok {
			return fmt.Errorf("read back as %T", f)
		}
		if sf.IsAck() != (o.Kind == "settingsack") {
			return fmt.Errorf("SETTINGS IsAck=%v", sf.IsAck())
		}
		var ws []c06Setting
		if o.Kind == "settings" {
			ws = o.Settings
		}
		if sf.NumSettings() != len(ws) {
			return fmt.Errorf("SETTINGS read back with %d settings, written %d", sf.NumSettings(), len(ws))
		}
		i := 0
		var ferr error
		sf.ForeachSetting(func(s Setting) error {
			if s != sf.Setting(i) || uint16(s.ID) != ws[i].ID || s.Val != ws[i].Val {
				ferr = fmt.Errorf("setting %d read back as %d=%d (Setting(i): %v), written %d=%d", i, uint16(s.ID), s.Val, sf.Setting(i), ws[i].ID, ws[i].Val)
			}
			i++
			return ferr
		})
		if ferr != nil {
			return ferr
		}
		if i != len(ws) {
			return fmt.Errorf("ForeachSetting visited %d of %d settings", i, len(ws))
		}
		for _, s := range ws { // Value returns the first setting with that ID
			var first uint32
			for _, s2 := range ws {
				if s2.ID == s.ID {
					first = s2.Val
					break
				}
			}
			if v, ok := sf.Value(SettingID(s.ID)); !ok || v != first {
				return fmt.Errorf("SETTINGS Value(%d)=%d,%v, first written value %d", s.ID, v, ok, first)
			}
		}
	case "ping":
		pf, ok := f.(*PingFrame)
		if !ok {
			return fmt.Errorf("read back as %T", f)
		}
		if pf.IsAck() != o.Ack || pf.Data != o.Ping {
			return fmt.Errorf("PING read back ack=%v data=%x, written ack=%v data=%x", pf.IsAck(), pf.Data, o.Ack, o.Ping)
		}
	case "goaway":
		gf, ok := f.(*GoAwayFrame)
		if !ok {
			return fmt.Errorf("read back as %T", f)
		}
		if gf.LastStreamID != o.Stream&(1<<31-1) || uint32(gf.ErrCode) != o.Code {
			return fmt.Errorf("GOAWAY read back last=%d code=%d, written last=%d code=%d", gf.LastStreamID, uint32(gf.ErrCode), o.Stream&(1<<31-1), o.Code)
		}
		return eq("GOAWAY debug data", gf.DebugData())
	case "winupdate":
		wf, ok := f.(*WindowUpdateFrame)
		if !ok {
			return fmt.Errorf("read back as %T", f)
		}
		if wf.Increment != o.Incr {
			return fmt.Errorf("WINDOW_UPDATE increment read back as %d, written %d", wf.Increment, o.Incr)
		}
	case "pushpromise":
		pf, ok := f.(*PushPromiseFrame)
		if !ok {
			return fmt.Errorf("read back as %T", f)
		}
		if pf.PromiseID != o.Promise || pf.HeadersEnded() != o.EndHeaders {
			return fmt.Errorf("PUSH_PROMISE read back promise=%d headersEnded=%v, written promise=%d", pf.PromiseID, pf.HeadersEnded(), o.Promise)
		}
		return eq("PUSH_PROMISE fragment", pf.HeaderBlockFragment())
	case "priorityupdate":
		pf, ok := f.(*PriorityUpdateFrame)
		if !ok {
			return fmt.Errorf("read back as %T", f)
		}
		if pf.PrioritizedStreamID != o.Stream {
			return fmt.Errorf("PRIORITY_UPDATE prioritized stream read back as %d, written %d", pf.PrioritizedStreamID, o.Stream)
		}
		return eq("PRIORITY_UPDATE field value", []byte(pf.Priority))
	case "raw":
		uf, ok := f.(*UnknownFrame)
		if !ok {
			return fmt.Errorf("read back as %T", f)
		}
		return eq("raw payload", uf.Payload())
	}
	return nil
}

type c06Written struct {
	op       int
	want     c06Want
	from, to int // the frame's bytes in the written stream
}

func c06Prop(c c06Case, r *vp.Rec) error {
	var wire bytes.Buffer
	wfr := NewFramer(&wire, nil)
	if c.LogWrites {
		wfr.logWrites = true
		wfr.debugWriteLoggerf = func(string, ...interface{}) {}
	}
	var written []c06Written
	nontrivial := false
	for i := range c.Ops {
		o := &c.Ops[i]
		w := c06Model(o)
		before := wire.Len()
		err := c06Write(wfr, o)
		out := wire.Bytes()[before:]
		if err != nil {
			if len(out) != 0 {
				return fmt.Errorf("op %d (%s): Write returned error %v but wrote %d bytes", i, o.Kind, err, len(out))
			}
			if w.accept {
				return fmt.Errorf("op %d (%s): Write refused arguments it documents as acceptable: %v", i, o.Kind, err)
			}
			if err == ErrFrameTooLarge {
				r.Class("refused:too-large")
			} else {
				r.Class("refused:bad-args")
			}
			continue
		}
		// The method accepted the arguments, so the frame must round-trip, whether or
		// not the model expected acceptance.
		if !w.accept {
			r.Class("accepted-unexpectedly")
		}
		if len(out) != c06HdrLen+w.length {
			return fmt.Errorf("op %d (%s): wrote %d bytes, want %d (9 + payload %d)", i, o.Kind, len(out), c06HdrLen+w.length, w.length)
		}
		wh, _ := c06ParseHdr(out)
		if int(wh.Length) != w.length {
			return fmt.Errorf("op %d (%s): length field %d for a %d-byte payload", i, o.Kind, wh.Length, w.length)
		}
		written = append(written, c06Written{op: i, want: w, from: before, to: wire.Len()})
		r.Class("wrote:" + o.Kind)
		padded := (o.Kind == "data" && o.PadMode != 0) || ((o.Kind == "headers" || o.Kind == "pushpromise") && o.PadLen != 0)
		if padded {
			r.Class("padded")
			if o.Kind == "data" && o.PadMode == 1 {
				r.Class("padded:empty-non-nil")
			}
		}
		if w.flags&0x20 != 0 && o.Kind == "headers" {
			r.Class("headers-priority")
		}
		if w.length >= 16384 {
			r.Class("len>=16384")
		}
		if w.length >= 1<<24-300 {
			r.Class("len~2^24")
		}
		if padded || (o.Kind == "headers" && w.flags&0x20 != 0) || w.length >= 16384 {
			nontrivial = true
		}
	}
	if nontrivial {
		r.NonTrivial()
	}

	// Pass A: one reader over the whole stream. AllowIllegalReads only switches off
	// the HEADERS/CONTINUATION ordering rule, which is not what C06 is about.
	all := wire.Bytes()
	rfr := NewFramer(nil, bytes.NewReader(all))
	rfr.AllowIllegalReads = true
	if c.Reuse {
		rfr.SetReuseFrames()
	}
	for _, wr := range written {
		f, err := rfr.ReadFrame()
		if err != nil {
			return fmt.Errorf("op %d (%s): ReadFrame of the written frame failed: %v (%v)", wr.op, c.Ops[wr.op].Kind, err, rfr.ErrorDetail())
		}
		if err := c06CheckFrame(&c.Ops[wr.op], wr.want, f); err != nil {
			return fmt.Errorf("op %d (%s): %v", wr.op, c.Ops[wr.op].Kind, err)
		}
	}
	if f, err := rfr.ReadFrame(); err == nil {
		return fmt.Errorf("ReadFrame returned an extra frame %v after all written frames", f.Header())
	}

	// Pass B: default reader (ordering rules on), one fresh Framer per frame. A
	// CONTINUATION is only legal inside a header block, so it is preceded by an
	// opening HEADERS frame on the same stream.
	for _, wr := range written {
		o := &c.Ops[wr.op]
		var open bytes.Buffer
		pre := false
		if o.Kind == "continuation" {
			pre = true
			if err := NewFramer(&open, nil).WriteHeaders(HeadersFrameParam{StreamID: o.Stream}); err != nil {
				return fmt.Errorf("op %d: cannot write opening HEADERS: %v", wr.op, err)
			}
		}
		dfr := NewFramer(nil, io.MultiReader(&open, bytes.NewReader(all[wr.from:wr.to])))
		if pre {
			if _, err := dfr.ReadFrame(); err != nil {
				return fmt.Errorf("op %d: reading opening HEADERS: %v", wr.op, err)
			}
		}
		f, err := dfr.ReadFrame()
		if err != nil {
			return fmt.Errorf("op %d (%s): default reader failed on the written frame: %v (%v)", wr.op, o.Kind, err, dfr.ErrorDetail())
		}
		if err := c06CheckFrame(o, wr.want, f); err != nil {
			return fmt.Errorf("op %d (%s), default reader: %v", wr.op, o.Kind, err)
		}
	}
	return nil
}

var c06Kinds = []string{"data", "data", "data", "headers", "headers", "headers", "continuation", "priority", "rst",
	"settings", "settingsack", "ping", "goaway", "winupdate", "pushpromise", "pushpromise", "priorityupdate", "raw"}

func c06GenOp(t *rapid.T) c06Op {
	o := c06Op{Kind: rapid.SampledFrom(c06Kinds).Draw(t, "kind")}
	// payload size
	drawPayload := func() {
		// rapid's integer generators favour small values and the range ends, so the
		// rare class sits on an interior value.
		switch sz := rapid.IntRange(0, 3999).Draw(t, "sizeClass"); {
		case sz >= 3000 && sz < 3006:
			// around the 2^24-1 limit, overhead of the frame type included
			o.Fill = 1<<24 - 1 - rapid.IntRange(-3, 270).Draw(t, "below2p24")
			o.FillSeed = rapid.Byte().Draw(t, "seed")
		case sz%10 < 8:
			o.Body = vp.Bytes(0, 24).Draw(t, "body")
		default:
			o.Body = vp.Bytes(0, 3).Draw(t, "body")
			o.Fill = vp.BiasedInt(0, 70000, 0, 1, 255, 256, 16383, 16384, 16385, 65535, 65536).Draw(t, "fill")
			o.FillSeed = rapid.Byte().Draw(t, "seed")
		}
	}
	prio := func() {
		if rapid.IntRange(0, 2).Draw(t, "hasPrio") > 0 {
			o.Dep = rapid.OneOf(rapid.SampledFrom([]uint32{0, 1, 1<<31 - 1}), rapid.Uint32Range(0, 1<<31-1)).Draw(t, "dep")
			if rapid.IntRange(0, 19).Draw(t, "badDep") == 0 {
				o.Dep |= 1 << 31
			}
			o.Excl = rapid.Bool().Draw(t, "excl")
			o.Weight = uint8(vp.BiasedInt(0, 255, 0, 255, 15).Draw(t, "weight"))
		}
	}
	padLen := func() int {
		if rapid.Bool().Draw(t, "padded") {
			return vp.BiasedInt(1, 255, 1, 255).Draw(t, "padLen")
		}
		return 0
	}
	switch o.Kind {
	case "data":
		o.Stream = c06AnyStream().Draw(t, "stream")
		o.EndStream = rapid.Bool().Draw(t, "endStream")
		drawPayload()
		o.PadMode = rapid.SampledFrom([]int{0, 0, 1, 1, 2, 2, 2, 2, 3, 4}).Draw(t, "padMode")
		switch o.PadMode {
		case 2, 3:
			o.PadLen = vp.BiasedInt(1, 255, 1, 255).Draw(t, "padLen")
		case 4:
			o.PadLen = rapid.IntRange(0, 40).Draw(t, "padOver")
		}
	case "headers":
		o.Stream = c06AnyStream().Draw(t, "stream")
		o.EndStream = rapid.Bool().Draw(t, "endStream")
		o.EndHeaders = rapid.Bool().Draw(t, "endHeaders")
		drawPayload()
		o.PadLen = padLen()
		prio()
	case "continuation":
		o.Stream = c06AnyStream().Draw(t, "stream")
		o.EndHeaders = rapid.Bool().Draw(t, "endHeaders")
		drawPayload()
	case "priority":
		o.Stream = c06AnyStream().Draw(t, "stream")
		prio()
	case "rst":
		o.Stream = c06AnyStream().Draw(t, "stream")
		o.Code = rapid.OneOf(rapid.Uint32Range(0, 14), rapid.Uint32()).Draw(t, "code")
	case "settings":
		o.Settings = rapid.SliceOfN(rapid.Custom(func(t *rapid.T) c06Setting {
			s := c06Setting{
				ID:  rapid.OneOf(rapid.SampledFrom([]uint16{1, 2, 3, 4, 4, 5, 6, 8, 9}), rapid.Uint16()).Draw(t, "id"),
				Val: rapid.OneOf(rapid.SampledFrom([]uint32{0, 1, 1<<31 - 1, 1 << 31, 1<<32 - 1, 16384}), rapid.Uint32()).Draw(t, "val"),
			}
			if s.ID == 4 { // the reader refuses INITIAL_WINDOW_SIZE > 2^31-1 (RFC 9113 §6.5.2)
				s.Val &= 1<<31 - 1
			}
			return s
		}), 0, 20).Draw(t, "settings")
	case "settingsack":
	case "ping":
		o.Ack = rapid.Bool().Draw(t, "ack")
		copy(o.Ping[:], vp.Bytes(8, 8).Draw(t, "ping"))
	case "goaway":
		o.Stream = c06Stream31().Draw(t, "last")
		if rapid.IntRange(0, 9).Draw(t, "reservedBit") == 0 {
			o.Stream |= 1 << 31 // documented as masked off by WriteGoAway
		}
		o.Code = rapid.OneOf(rapid.Uint32Range(0, 14), rapid.Uint32()).Draw(t, "code")
		drawPayload()
	case "winupdate":
		o.Stream = c06Stream31().Draw(t, "stream")
		o.Incr = rapid.OneOf(rapid.SampledFrom([]uint32{1, 2, 65535, 1<<31 - 1, 1<<31 - 2}), rapid.Uint32Range(1, 1<<31-1)).Draw(t, "incr")
		if rapid.IntRange(0, 9).Draw(t, "badIncr") == 0 {
			o.Incr = rapid.SampledFrom([]uint32{0, 1 << 31, 1<<32 - 1}).Draw(t, "bad")
		}
	case "pushpromise":
		o.Stream = c06AnyStream().Draw(t, "stream")
		o.Promise = c06AnyStream().Draw(t, "promise")
		o.EndHeaders = rapid.Bool().Draw(t, "endHeaders")
		drawPayload()
		o.PadLen = padLen()
	case "priorityupdate":
		o.Stream = c06AnyStream().Draw(t, "stream")
		if rapid.Bool().Draw(t, "sfv") {
			o.Body = []byte(rapid.SampledFrom([]string{"", "u=3", "u=0, i", "i=?0", "u=7,i=?1", "garbage;;"}).Draw(t, "prio"))
		} else {
			drawPayload()
		}
	case "raw":
		o.RawType = uint8(rapid.OneOf(rapid.SampledFrom([]int{0x0a, 0x0b, 0x0f, 0x11, 0x20, 0xfe, 0xff}), rapid.IntRange(0x11, 0xff)).Draw(t, "rawType"))
		o.RawFlags = rapid.Byte().Draw(t, "rawFlags")
		o.Stream = c06Stream31().Draw(t, "stream")
		drawPayload()
	}
	return o
}

func c06Gen(t *rapid.T) c06Case {
	return c06Case{
		Ops:       rapid.SliceOfN(rapid.Custom(c06GenOp), 1, 8).Draw(t, "ops"),
		Reuse:     rapid.Bool().Draw(t, "reuse"),
		LogWrites: rapid.IntRange(0, 7).Draw(t, "logWrites") == 0,
	}
}

func TestVP_C06(t *testing.T) {
	vp.Run(t, vp.Spec[c06Case]{ID: "C06", Gen: c06Gen, Prop: c06Prop})
}
