package http2

// Exports for the external-package session harnesses (white-box overlay, test-only).

var (
	VPNewRoundRobinWriteScheduler = newRoundRobinWriteScheduler
	VPNewRFC9218WriteScheduler    = newPriorityWriteSchedulerRFC9218
)

const (
	VPInflowMinRefresh       = inflowMinRefresh
	VPMaxQueuedControlFrames = maxQueuedControlFrames
)

// VPQueuedControlFrames reads the serve-goroutine-owned counter; call only when the
// connection is quiescent (after synctest.Wait).
func (sc *serverConn) VPQueuedControlFrames() int { return sc.queuedControlFrames }

// VPCurHandlers reads the number of running handlers; call only when quiescent.
func (sc *serverConn) VPCurHandlers() uint32 { return sc.curHandlers }
