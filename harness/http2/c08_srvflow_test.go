package http2_test

// C08: the server never sends DATA beyond the client's flow-control windows (stream,
// connection, SETTINGS_MAX_FRAME_SIZE), and pending data is eventually sent when
// window becomes available again.

import (
	"fmt"
	"net/http"
	"strconv"
	"testing"
	"time"

	"pgregory.net/rapid"
	"verif/vp"

	. "golang.org/x/net/http2"
)

type c08Chunk struct {
	N     int  `json:"n"`
	Flush bool `json:"flush"`
}

type c08Resp struct {
	Chunks   []c08Chunk `json:"chunks"`
	Trailers bool       `json:"trailers"`
	DeclLen  bool       `json:"decl_len"` // handler sets Content-Length
}

type c08Step struct {
	Kind string `json:"kind"` // open, wu, wuconn, settings_win, settings_frame, rst, ping, shutdown
	K    int    `json:"k"`    // stream plan index
	V    uint32 `json:"v"`
}

type c08Case struct {
	InitWin  uint32    `json:"init_win"`
	MaxFrame uint32    `json:"max_frame"`
	Sched    int       `json:"sched"`
	Resps    []c08Resp `json:"resps"`
	Steps    []c08Step `json:"steps"`
}

func c08Gen(t *rapid.T) c08Case {
	var c c08Case
	c.InitWin = rapid.SampledFrom([]uint32{0, 1, 100, 16384, 65535, 1 << 20}).Draw(t, "initwin")
	c.MaxFrame = rapid.SampledFrom([]uint32{16384, 16385, 65536, 1<<24 - 1}).Draw(t, "maxframe")
	c.Sched = rapid.IntRange(0, 4).Draw(t, "sched")
	sz := rapid.OneOf(rapid.IntRange(0, 300), rapid.SampledFrom([]int{0, 1, 16383, 16384, 16385, 65535, 65536, 100000}))
	c.Resps = rapid.SliceOfN(rapid.Custom(func(t *rapid.T) c08Resp {
		return c08Resp{
			Chunks: rapid.SliceOfN(rapid.Custom(func(t *rapid.T) c08Chunk {
				return c08Chunk{N: sz.Draw(t, "n"), Flush: rapid.Bool().Draw(t, "flush")}
			}), 0, 6).Draw(t, "chunks"),
			Trailers: rapid.Bool().Draw(t, "trailers"),
			DeclLen:  rapid.Bool().Draw(t, "decl"),
		}
	}), 1, 6).Draw(t, "resps")
	n := len(c.Resps)
	step := rapid.Custom(func(t *rapid.T) c08Step {
		kind := rapid.SampledFrom([]string{"open", "open", "wu", "wu", "wu", "wuconn", "wuconn", "settings_win", "settings_frame", "rst", "ping"}).Draw(t, "kind")
		if rapid.IntRange(0, 39).Draw(t, "shutdown") == 17 { // (not 0: rapid favours the ends of a range)
			kind = "shutdown"
		}
		s := c08Step{Kind: kind, K: rapid.IntRange(0, n-1).Draw(t, "k")}
		switch kind {
		case "open":
			if rapid.Bool().Draw(t, "hasParent") {
				s.V = uint32(1 + rapid.IntRange(0, n-1).Draw(t, "parent"))
			}
		case "wu", "wuconn":
			s.V = rapid.OneOf(rapid.Uint32Range(1, 70000), rapid.SampledFrom([]uint32{1, 2, 100, 16384, 65535, 1 << 20})).Draw(t, "inc")
		case "settings_win":
			s.V = rapid.SampledFrom([]uint32{0, 1, 10, 100, 16384, 65535, 1 << 18, 1 << 20}).Draw(t, "win")
		case "settings_frame":
			s.V = rapid.SampledFrom([]uint32{16384, 16385, 20000, 65536, 1<<24 - 1}).Draw(t, "fs")
		}
		return s
	})
	c.Steps = rapid.SliceOfN(step, 1, 30).Draw(t, "steps")
	if rapid.IntRange(0, 11).Draw(t, "throttleTemplate") == 5 && n >= 2 {
		// Aimed history for the RFC 7540 scheduler with write throttling: a large response
		// on a stream whose parent is open but blocked on its own small window. Every Pop
		// of the child raises the throttle limit by 1024, so after some twenty DATA frames
		// the scheduler offers more than SETTINGS_MAX_FRAME_SIZE at once.
		c.Sched = 4
		c.InitWin = 100
		c.MaxFrame = 16384
		c.Resps[0] = c08Resp{Chunks: []c08Chunk{{N: 5000, Flush: true}}}
		c.Resps[1] = c08Resp{Chunks: []c08Chunk{{N: 100000, Flush: true}, {N: 100000}, {N: 100000}}}
		pre := []c08Step{{Kind: "open", K: 0}, {Kind: "open", K: 1, V: 1}, {Kind: "wuconn", V: 1 << 20}, {Kind: "wu", K: 1, V: 1 << 20}}
		c.Steps = append(pre, c.Steps...)
	}
	return c
}

type c08Stream struct {
	id      uint32
	win     int64
	got     int  // DATA bytes received
	ended   bool // END_STREAM seen
	reset   bool // RST sent by us or received
	gotHdr  bool
	blocked bool
	planLen int
	plan    int
}

func c08Run(c c08Case, r *vp.Rec) error {
	planLen := make([]int, len(c.Resps))
	for k, rp := range c.Resps {
		for _, ch := range rp.Chunks {
			planLen[k] += ch.N
		}
	}
	handler := http.HandlerFunc(func(w http.ResponseWriter, req *http.Request) {
		k, err := strconv.Atoi(req.URL.Path[1:])
		if err != nil || k < 0 || k >= len(c.Resps) {
			return
		}
		rp := c.Resps[k]
		if rp.Trailers {
			w.Header().Set("Trailer", "X-Vp-Trailer")
		}
		if rp.DeclLen {
			w.Header().Set("Content-Length", strconv.Itoa(planLen[k]))
		}
		off := 0
		for _, ch := range rp.Chunks {
			b := make([]byte, ch.N)
			for i := range b {
				b[i] = vpPattern(k, off+i)
			}
			off += ch.N
			if _, err := w.Write(b); err != nil {
				return
			}
			if ch.Flush {
				w.(http.Flusher).Flush()
			}
		}
		if rp.Trailers {
			w.Header().Set("X-Vp-Trailer", "done")
		}
	})
	s := vpNewSrv(vpSrvOpts{Sched: c.Sched}, handler)
	// fake time must pass for the server's shutdown timers, or the bubble would
	// end with goroutines still blocked on them
	defer s.closeAndWait(30 * time.Second)

	// monitor state (the client's view, permissive where the protocol allows a race)
	connWin := int64(65535)
	curInit := int64(65535) // SETTINGS_INITIAL_WINDOW_SIZE in force (permissive)
	maxFrame := int64(16384)
	var pendingInit []int64  // decreases waiting for their ACK
	var pendingFrame []int64 // decreases waiting for their ACK
	type pend struct{ init, frame int64 }
	var unacked []pend // one per SETTINGS frame we sent (-1 = no change or already applied)
	streams := map[uint32]*c08Stream{}
	byPlan := map[int]*c08Stream{}
	nextID := uint32(1)
	connDead := false
	graceful := false // the server has announced a graceful shutdown: GOAWAY(NO_ERROR)
	_ = pendingInit
	_ = pendingFrame

	sendSettings := func(set ...Setting) error {
		p := pend{-1, -1}
		for _, st := range set {
			switch st.ID {
			case SettingInitialWindowSize:
				nv := int64(st.Val)
				if nv >= curInit {
					d := nv - curInit
					for _, sm := range streams {
						sm.win += d
					}
					curInit = nv
				} else {
					p.init = nv
				}
			case SettingMaxFrameSize:
				nv := int64(st.Val)
				if nv >= maxFrame {
					maxFrame = nv
				} else {
					p.frame = nv
				}
			}
		}
		unacked = append(unacked, p)
		return s.fr.WriteSettings(set...)
	}

	drain := func() error {
		for {
			f, err := s.read()
			if err != nil {
				connDead = true
				return nil
			}
			if f == nil {
				return nil
			}
			switch f := f.(type) {
			case *SettingsFrame:
				if f.IsAck() {
					if len(unacked) == 0 {
						return fmt.Errorf("SETTINGS ACK without outstanding SETTINGS")
					}
					p := unacked[0]
					unacked = unacked[1:]
					if p.init >= 0 {
						d := p.init - curInit
						for _, sm := range streams {
							sm.win += d
						}
						curInit = p.init
					}
					if p.frame >= 0 {
						maxFrame = p.frame
					}
				} else {
					s.fr.WriteSettingsAck()
				}
			case *DataFrame:
				sm := streams[f.StreamID]
				if sm == nil {
					return fmt.Errorf("DATA on unknown stream %d", f.StreamID)
				}
				n := int64(f.Length)
				if n > maxFrame {
					return fmt.Errorf("DATA frame of %d bytes on stream %d exceeds SETTINGS_MAX_FRAME_SIZE %d", n, f.StreamID, maxFrame)
				}
				// an empty DATA frame (END_STREAM) may be sent with no window available
				if n > 0 && n > sm.win {
					return fmt.Errorf("DATA frame of %d bytes on stream %d exceeds the stream send window %d", n, f.StreamID, sm.win)
				}
				if n > 0 && n > connWin {
					return fmt.Errorf("DATA frame of %d bytes on stream %d exceeds the connection send window %d", n, f.StreamID, connWin)
				}
				sm.win -= n
				connWin -= n
				// content check (payload must be the planned bytes, in order)
				d := f.Data()
				for i := range d {
					if d[i] != vpPattern(sm.plan, sm.got+i) {
						return fmt.Errorf("stream %d: DATA byte at offset %d differs from what the handler wrote", f.StreamID, sm.got+i)
					}
				}
				sm.got += len(d)
				if sm.got > sm.planLen {
					return fmt.Errorf("stream %d: received %d DATA bytes, handler wrote %d", f.StreamID, sm.got, sm.planLen)
				}
				if f.StreamEnded() {
					sm.ended = true
				}
				if (sm.win == 0 || connWin == 0) && sm.got < sm.planLen {
					sm.blocked = true
				}
			case *HeadersFrame:
				sm := streams[f.StreamID]
				if sm == nil {
					return fmt.Errorf("HEADERS on unknown stream %d", f.StreamID)
				}
				sm.gotHdr = true
				if f.StreamEnded() {
					sm.ended = true
				}
			case *RSTStreamFrame:
				if sm := streams[f.StreamID]; sm != nil {
					sm.reset = true
				}
			case *GoAwayFrame:
				if f.ErrCode == ErrCodeNo {
					// RFC 9113 6.8: the streams opened so far are still served
					graceful = true
				} else {
					connDead = true
				}
			}
		}
	}

	// preface + initial SETTINGS
	if _, err := s.cli.Write([]byte(ClientPreface)); err != nil {
		return fmt.Errorf("harness: preface: %v", err)
	}
	if err := sendSettings(Setting{SettingInitialWindowSize, c.InitWin}, Setting{SettingMaxFrameSize, c.MaxFrame}); err != nil {
		return fmt.Errorf("harness: settings: %v", err)
	}
	if err := drain(); err != nil {
		return err
	}
	if len(unacked) != 0 {
		return fmt.Errorf("harness: initial SETTINGS not acknowledged after quiescence")
	}

	for _, st := range c.Steps {
		if connDead {
			break
		}
		switch st.Kind {
		case "shutdown":
			// what http.Server.Shutdown does to the connection
			s.sc.StartGracefulShutdown()
		case "open":
			if byPlan[st.K] != nil || graceful {
				continue
			}
			id := nextID
			nextID += 2
			sm := &c08Stream{id: id, win: curInit, planLen: planLen[st.K], plan: st.K}
			streams[id] = sm
			byPlan[st.K] = sm
			hp := HeadersFrameParam{StreamID: id, BlockFragment: s.reqHeaders("GET", "/"+strconv.Itoa(st.K)), EndStream: true, EndHeaders: true}
			if st.V > 0 {
				// RFC 7540 priority: depend on an earlier stream (a child of an open,
				// possibly idle parent is what the priority schedulers treat specially)
				if par := byPlan[int(st.V-1)]; par != nil && par.id != id {
					hp.Priority = PriorityParam{StreamDep: par.id, Weight: 15}
					r.Class("open-with-parent")
				}
			}
			if err := s.fr.WriteHeaders(hp); err != nil {
				return fmt.Errorf("harness: headers: %v", err)
			}
		case "wu":
			sm := byPlan[st.K]
			if sm == nil || sm.reset || sm.ended {
				continue
			}
			if sm.win+int64(st.V) > 1<<31-1 {
				continue // overflow is not part of this property's domain
			}
			sm.win += int64(st.V)
			s.fr.WriteWindowUpdate(sm.id, st.V)
		case "wuconn":
			if connWin+int64(st.V) > 1<<31-1 {
				continue
			}
			connWin += int64(st.V)
			s.fr.WriteWindowUpdate(0, st.V)
		case "settings_win":
			// a change that would push some stream window above 2^31-1 is a
			// FLOW_CONTROL_ERROR by RFC 9113; keep it out of the domain
			over := false
			for _, sm := range streams {
				if sm.win+(int64(st.V)-curInit) > 1<<31-1 {
					over = true
				}
			}
			if over {
				continue
			}
			if int64(st.V) < curInit {
				r.Class("settings-shrink")
				for _, sm := range streams {
					if !sm.ended && !sm.reset && sm.win+(int64(st.V)-curInit) < 0 {
						r.Class("window-driven-negative")
					}
				}
			}
			sendSettings(Setting{SettingInitialWindowSize, st.V})
		case "settings_frame":
			sendSettings(Setting{SettingMaxFrameSize, st.V})
		case "rst":
			sm := byPlan[st.K]
			if sm == nil || sm.reset {
				continue
			}
			sm.reset = true
			s.fr.WriteRSTStream(sm.id, ErrCodeCancel)
		case "ping":
			s.fr.WritePing(false, [8]byte{1, 2, 3})
		}
		if err := drain(); err != nil {
			return err
		}
	}
	_ = nextID

	// liveness: grant ample credit and drain; every live stream must complete.
	if !connDead {
		for round := 0; round < 64; round++ {
			progress := false
			if connWin < 1<<30 {
				inc := uint32(1<<30 - connWin)
				connWin += int64(inc)
				s.fr.WriteWindowUpdate(0, inc)
			}
			for k := 0; k < len(c.Resps); k++ {
				sm := byPlan[k]
				if sm == nil || sm.reset || sm.ended {
					continue
				}
				if sm.win < 1<<30 {
					inc := uint32(1<<30 - sm.win)
					sm.win += int64(inc)
					s.fr.WriteWindowUpdate(sm.id, inc)
				}
			}
			before := 0
			for _, sm := range streams {
				before += sm.got
				if sm.ended {
					before++
				}
			}
			if err := drain(); err != nil {
				return err
			}
			after := 0
			for _, sm := range streams {
				after += sm.got
				if sm.ended {
					after++
				}
			}
			if after != before {
				progress = true
			}
			if !progress || connDead {
				break
			}
		}
		if !connDead {
			for k := 0; k < len(c.Resps); k++ {
				sm := byPlan[k]
				if sm == nil || sm.reset {
					continue
				}
				if !sm.ended || sm.got != sm.planLen {
					return fmt.Errorf("stalled: stream %d (plan %d) delivered %d of %d bytes, END_STREAM=%v, after ample stream and connection credit was granted", sm.id, k, sm.got, sm.planLen, sm.ended)
				}
			}
		}
	}
	nblocked := 0
	for _, sm := range streams {
		if sm.blocked {
			nblocked++
		}
	}
	if nblocked > 0 {
		r.Class("blocked-on-window")
		r.NonTrivial()
	}
	if nblocked > 1 {
		r.Class("blocked>=2-streams")
	}
	if connDead {
		r.Class("conn-ended-early")
	}
	r.Classf("sched-%d", c.Sched)
	if graceful {
		r.Class("graceful-shutdown")
		if nblocked > 0 {
			r.Class("graceful-shutdown-with-a-blocked-stream")
		}
	}
	if len(unacked) != 0 && !connDead && !graceful {
		return fmt.Errorf("harness: %d SETTINGS frames not acknowledged after quiescence", len(unacked))
	}
	return nil
}

func TestVP_C08(t *testing.T) {
	vp.Run(t, vp.Spec[c08Case]{ID: "C08", CrashFile: true, Gen: c08Gen, Prop: func(c c08Case, r *vp.Rec) error {
		return vpBubble(t, func() error { return c08Run(c, r) })
	}})
}
