package http2_test

// C10 (client half): inbound flow-control credit is never leaked by the Transport.
// The fake server sends response DATA within the windows the Transport advertised;
// the application reads, closes, abandons or cancels; at the end, with every body
// read or closed, the server's view of the connection receive window must be back at
// its configured size (up to the documented refund batching, exactly after a flush
// probe), and no WINDOW_UPDATE may ever push a window above 2^31-1.

import (
	"fmt"
	"io"
	"net/http"
	"strconv"
	"strings"
	"sync/atomic"
	"testing"
	"testing/synctest"
	"time"

	"pgregory.net/rapid"
	"verif/vp"

	. "golang.org/x/net/http2"
)

type c10cEv struct {
	Kind string `json:"kind"` // data, end, rst (server); read, close, cancel (application)
	N    int    `json:"n,omitempty"`
	Pad  int    `json:"pad,omitempty"` // data: -1 unpadded, else 0..255 bytes of padding
	End  bool   `json:"end,omitempty"` // data: carries END_STREAM
}

type c10cStream struct {
	CL       int      `json:"cl"`       // Content-Length: 0 none, 1 exact, 2 smaller than sent, 3 larger than sent
	CLDelta  int      `json:"cl_delta"` // by how much (CL 2, 3)
	Trailers bool     `json:"trailers"` // an "end" event sends trailers instead of an empty DATA frame
	Events   []c10cEv `json:"events"`
	Late     bool     `json:"late"`               // the server's remaining events run after the application's final action
	SlowReq  bool     `json:"slow_req,omitempty"` // POST whose (never fed) request body takes 1s to Close: the stream outlives Response.Body.Close
	Final    string   `json:"final"`              // readall, close, close2 (Close twice), cancel
}

type c10cCase struct {
	RecvPerStream int32        `json:"recv_per_stream"`
	RecvPerConn   int32        `json:"recv_per_conn"`
	MaxReadFrame  uint32       `json:"max_read_frame"`
	Streams       []c10cStream `json:"streams"`
	Order         []int        `json:"order"` // interleaving: each entry runs the next event of that stream (mod len)
	Probe         bool         `json:"probe"`
}

func c10cGen(t *rapid.T) c10cCase {
	var c c10cCase
	c.RecvPerStream = rapid.SampledFrom([]int32{0, 1, 100, 4096, 16384, 65535, 1 << 20}).Draw(t, "per_stream")
	c.RecvPerConn = rapid.SampledFrom([]int32{0, 65535, 100000, 1 << 20, 1<<31 - 1 - 65535}).Draw(t, "per_conn")
	if rapid.IntRange(0, 31).Draw(t, "max_per_conn") == 17 {
		c.RecvPerConn = 1<<31 - 1 // the largest value the configuration accepts
	}
	c.MaxReadFrame = rapid.SampledFrom([]uint32{0, 16384, 65536}).Draw(t, "max_read_frame")
	dataN := rapid.OneOf(rapid.IntRange(0, 300), rapid.IntRange(0, 20000),
		rapid.SampledFrom([]int{0, 1, 4095, 4096, 4097, 16384, 65535, 100000}))
	ev := rapid.Custom(func(t *rapid.T) c10cEv {
		kind := rapid.SampledFrom([]string{"data", "data", "data", "data", "data", "read", "read", "read", "close", "cancel", "rst", "end", "end"}).Draw(t, "kind")
		e := c10cEv{Kind: kind}
		switch kind {
		case "data":
			e.N = dataN.Draw(t, "n")
			e.Pad = rapid.SampledFrom([]int{-1, -1, -1, 0, 1, 17, 255}).Draw(t, "pad")
			e.End = rapid.IntRange(0, 5).Draw(t, "end") == 0
		case "read":
			e.N = rapid.SampledFrom([]int{1, 10, 100, 4096, 70000}).Draw(t, "n")
		}
		return e
	})
	maxStreams := 40
	// Two application/server behaviours hit open known findings; they are drawn per
	// case (not per stream) so that most cases stay clear of them.
	cls := []int{0, 0, 1, 1, 3}
	if rapid.IntRange(0, 7).Draw(t, "overlen") == 0 {
		cls = append(cls, 2, 2)
	}
	finals := []string{"readall", "readall", "close", "close", "cancel"}
	if rapid.IntRange(0, 9).Draw(t, "double_close") == 0 {
		finals = append(finals, "close2", "close2")
	}
	minStreams := rapid.SampledFrom([]int{1, 1, 5, 20}).Draw(t, "min_streams")
	c.Streams = rapid.SliceOfN(rapid.Custom(func(t *rapid.T) c10cStream {
		return c10cStream{
			CL:       rapid.SampledFrom(cls).Draw(t, "cl"),
			CLDelta:  rapid.SampledFrom([]int{1, 2, 100, 5000}).Draw(t, "cl_delta"),
			Trailers: rapid.Bool().Draw(t, "trailers"),
			Events:   rapid.SliceOfN(ev, 0, 8).Draw(t, "events"),
			Late:     rapid.Bool().Draw(t, "late"),
			SlowReq:  rapid.IntRange(0, 3).Draw(t, "slow_req") == 0,
			Final:    rapid.SampledFrom(finals).Draw(t, "final"),
		}
	}), minStreams, maxStreams).Draw(t, "streams")
	c.Order = rapid.SliceOfN(rapid.IntRange(0, maxStreams-1), 0, 120).Draw(t, "order")
	c.Probe = rapid.IntRange(0, 3).Draw(t, "probe") != 0
	return c
}

// c10cKnown names the known-finding classes a case falls into (comma-separated keys,
// "" = none).
func c10cKnown(c c10cCase) string {
	var keys []string
	if int64(c.RecvPerConn) > 1<<31-1-65535 {
		keys = append(keys, "c10-client-conn-window-config-overflow")
	}
	dbl, over := false, false
	for _, st := range c.Streams {
		if st.Final == "close2" {
			dbl = true // Response.Body closed twice
		}
		if st.CL == 2 {
			reads := st.Final == "readall"
			for _, e := range st.Events {
				reads = reads || e.Kind == "read"
			}
			over = over || reads // response longer than its Content-Length, read by the application
		}
	}
	if dbl {
		keys = append(keys, "c10-client-double-close-double-refund")
	}
	if over {
		keys = append(keys, "c10-client-overlength-read-no-refund")
	}
	return strings.Join(keys, ",")
}

type c10cSt struct {
	plan      c10cStream
	next      int // next event
	rt        *vpRT
	id        uint32
	body      io.ReadCloser
	view      int64 // server's view of the stream receive window
	sent      int64 // DATA payload bytes (without padding) sent
	declared  int64 // Content-Length sent (-1 none)
	srvEnded  bool
	cliReset  bool
	reading   atomic.Bool  // a Read call is in progress
	inflight  atomic.Int32 // application calls (Read, Close) in progress
	closed    bool         // application closed the body
	discarded bool         // some received DATA was not delivered to a Read
	readN     atomic.Int64
}

func c10cIsServer(kind string) bool { return kind == "data" || kind == "end" || kind == "rst" }

func c10cRun(c c10cCase, r *vp.Rec) error {
	s, err := vpNewCli(vpCliOpts{RecvPerConn: c.RecvPerConn, RecvPerStream: c.RecvPerStream, MaxReadFrame: c.MaxReadFrame})
	if err != nil {
		return err
	}
	defer s.shutdown()
	const maxWin = 1<<31 - 1

	if s.advConnWin > maxWin {
		return fmt.Errorf("the Transport's initial connection WINDOW_UPDATE raises the server's view of the connection receive window to %d > 2^31-1 (MaxReceiveBufferPerConnection=%d)", s.advConnWin, c.RecvPerConn)
	}
	if s.advInitWin > maxWin {
		return fmt.Errorf("the Transport's SETTINGS_INITIAL_WINDOW_SIZE is %d > 2^31-1", s.advInitWin)
	}
	connView := s.advConnWin
	sts := make([]*c10cSt, len(c.Streams))
	for i := range sts {
		sts[i] = &c10cSt{plan: c.Streams[i]}
	}
	byID := map[uint32]*c10cSt{}
	connDead := ""
	windowLimited := false

	drain := func() error {
		for {
			f, err := s.read()
			if err != nil {
				if connDead == "" {
					connDead = "connection closed: " + err.Error()
				}
				return nil
			}
			if f == nil {
				return nil
			}
			switch f := f.(type) {
			case *SettingsFrame:
				if !f.IsAck() {
					s.fr.WriteSettingsAck()
				}
			case *PingFrame:
				if !f.IsAck() {
					s.fr.WritePing(true, f.Data)
				}
			case *WindowUpdateFrame:
				if f.StreamID == 0 {
					connView += int64(f.Increment)
					if connView > maxWin {
						return fmt.Errorf("connection WINDOW_UPDATE of %d raises the receive window to %d > 2^31-1", f.Increment, connView)
					}
				} else if st := byID[f.StreamID]; st != nil {
					st.view += int64(f.Increment)
					if st.view > maxWin {
						return fmt.Errorf("WINDOW_UPDATE of %d on stream %d raises its receive window to %d > 2^31-1", f.Increment, f.StreamID, st.view)
					}
				}
			case *RSTStreamFrame:
				if st := byID[f.StreamID]; st != nil {
					st.cliReset = true
				}
				if f.ErrCode == ErrCodeFlowControl {
					return fmt.Errorf("RST_STREAM(FLOW_CONTROL_ERROR) on stream %d although the server stayed within the advertised windows", f.StreamID)
				}
			case *GoAwayFrame:
				connDead = fmt.Sprintf("GOAWAY %v", f.ErrCode)
			}
		}
	}
	quiesce := func() error {
		if err := drain(); err != nil {
			return err
		}
		if connDead != "" {
			return fmt.Errorf("the Transport ended the connection although the server behaved: %s", connDead)
		}
		return nil
	}

	// greet
	if err := s.fr.WriteSettings(); err != nil {
		return fmt.Errorf("harness: settings: %v", err)
	}
	s.fr.WriteSettingsAck()
	if err := quiesce(); err != nil {
		return err
	}

	planned := func(p c10cStream) int {
		n := 0
		for _, e := range p.Events {
			if e.Kind == "data" {
				n += e.N
				if e.End {
					break
				}
			}
			if e.Kind == "end" || e.Kind == "rst" {
				break
			}
		}
		return n
	}
	open := func(i int) error {
		st := sts[i]
		req, _ := http.NewRequest("GET", "https://dummy.tld/"+strconv.Itoa(i), nil)
		if st.plan.SlowReq {
			body := vpNewReqBody(i, false)
			body.closeDelay = time.Second
			req, _ = http.NewRequest("POST", "https://dummy.tld/"+strconv.Itoa(i), body)
		}
		st.rt = s.roundTrip(req)
		if err := quiesce(); err != nil {
			return err
		}
		st.id = st.rt.streamID()
		if st.id == 0 {
			return fmt.Errorf("harness: request %d got no stream", i)
		}
		byID[st.id] = st
		st.view = s.advInitWin
		kv := []string{":status", "200"}
		total := planned(st.plan)
		st.declared = -1
		switch st.plan.CL {
		case 1:
			st.declared = int64(total)
		case 2:
			st.declared = int64(max(0, total-st.plan.CLDelta))
		case 3:
			st.declared = int64(total + st.plan.CLDelta)
		}
		if st.declared >= 0 {
			kv = append(kv, "content-length", strconv.FormatInt(st.declared, 10))
		}
		s.respHeaders(st.id, false, kv...)
		if err := quiesce(); err != nil {
			return err
		}
		resp, rerr, done := st.rt.result()
		if !done || rerr != nil {
			return fmt.Errorf("request %d: RoundTrip did not return a response after response headers (done=%v err=%v)", i, done, rerr)
		}
		st.body = resp.Body
		return nil
	}
	appCall := func(st *c10cSt, f func()) {
		st.inflight.Add(1)
		go func() {
			defer st.inflight.Add(-1)
			f()
		}()
		synctest.Wait()
	}
	appRead := func(st *c10cSt, bufLen int, all bool) {
		st.reading.Store(true)
		appCall(st, func() {
			defer st.reading.Store(false)
			buf := make([]byte, bufLen)
			for {
				n, err := st.body.Read(buf)
				st.readN.Add(int64(n))
				if err != nil || !all {
					return
				}
			}
		})
	}
	// sendData sends one DATA frame, trimmed so that it stays within the stream and
	// connection windows the Transport advertised and its MAX_FRAME_SIZE.
	sendData := func(st *c10cSt, n, pad int, end bool) {
		if st.declared >= 0 && st.plan.CL != 2 && st.sent+int64(n) > st.declared {
			// only CL 2 streams send more than they declared (a frame trimmed to
			// the window loses its END_STREAM, so later frames could overshoot)
			n = int(st.declared - st.sent)
		}
		limit := min(st.view, connView, s.advMaxFrame)
		over := int64(0)
		if pad >= 0 {
			over = int64(1 + pad)
		}
		if over > limit {
			over, pad = 0, -1
			windowLimited = true
		}
		if int64(n)+over > limit {
			n = int(limit - over)
			end = false
			windowLimited = true
		}
		if n == 0 && pad < 0 && !end {
			return
		}
		data := make([]byte, n)
		if pad >= 0 {
			s.fr.WriteDataPadded(st.id, end, data, make([]byte, pad))
			st.discarded = true // padding is never read
		} else {
			s.fr.WriteData(st.id, end, data)
		}
		l := int64(n) + over
		st.view -= l
		connView -= l
		st.sent += int64(n)
		if end {
			st.srvEnded = true
		}
	}
	runEv := func(i int, e c10cEv) error {
		st := sts[i]
		switch e.Kind {
		case "data":
			if st.srvEnded {
				return nil
			}
			if st.closed || st.cliReset {
				st.discarded = true
			}
			sendData(st, e.N, e.Pad, e.End)
		case "end":
			if st.srvEnded {
				return nil
			}
			st.srvEnded = true
			if st.plan.Trailers {
				s.respHeaders(st.id, true, "x-vp-trailer", "done")
			} else {
				s.fr.WriteData(st.id, true, nil)
			}
		case "rst":
			if st.srvEnded {
				return nil
			}
			st.srvEnded = true
			s.fr.WriteRSTStream(st.id, ErrCodeInternal)
		case "read":
			if st.reading.Load() || st.closed {
				return nil
			}
			appRead(st, e.N, false)
		case "close":
			if st.closed {
				return nil
			}
			st.closed = true
			appCall(st, func() { st.body.Close() })
		case "cancel":
			st.rt.cancel()
			synctest.Wait()
		}
		return quiesce()
	}
	step := func(i int) error {
		st := sts[i]
		if st.rt == nil {
			return open(i)
		}
		if st.next < len(st.plan.Events) {
			e := st.plan.Events[st.next]
			st.next++
			return runEv(i, e)
		}
		return nil
	}

	for _, o := range c.Order {
		if err := step(o % len(sts)); err != nil {
			return err
		}
	}
	// The rest: every stream's remaining events, then the application's final action;
	// with Late the server's remaining events come after it (late DATA on a stream the
	// application has already abandoned).
	for i, st := range sts {
		if st.rt == nil {
			if err := open(i); err != nil {
				return err
			}
		}
		rest := st.plan.Events[st.next:]
		st.next = len(st.plan.Events)
		var late []c10cEv
		for _, e := range rest {
			if st.plan.Late && c10cIsServer(e.Kind) {
				late = append(late, e)
				continue
			}
			if err := runEv(i, e); err != nil {
				return err
			}
		}
		switch st.plan.Final {
		case "readall":
			if !st.reading.Load() && !st.closed {
				appRead(st, 8192, true)
			}
		case "cancel":
			st.rt.cancel()
			synctest.Wait()
		}
		if err := quiesce(); err != nil {
			return err
		}
		// every body ends up closed (a blocked Read is released by Close)
		if !st.closed {
			st.closed = true
			appCall(st, func() { st.body.Close() })
		}
		if st.plan.Final == "close2" {
			appCall(st, func() { st.body.Close() })
		}
		if st.reading.Load() {
			return fmt.Errorf("request %d: a Read is still blocked after Close", i)
		}
		if err := quiesce(); err != nil {
			return err
		}
		for _, e := range late {
			if err := runEv(i, e); err != nil {
				return err
			}
		}
	}
	time.Sleep(10 * time.Second)
	synctest.Wait()
	if err := quiesce(); err != nil {
		return err
	}
	for i, st := range sts {
		if st.inflight.Load() != 0 {
			return fmt.Errorf("request %d: Response.Body.Close has not returned 10s after it was called", i)
		}
	}

	// (2) all bodies are read or closed: the connection window is back at its
	// configured size, up to the refund batching threshold.
	deficit := s.advConnWin - connView
	if deficit < 0 {
		return fmt.Errorf("after all bodies were closed the server's view of the connection receive window is %d, %d above its configured size %d", connView, -deficit, s.advConnWin)
	}
	if deficit >= VPInflowMinRefresh {
		return fmt.Errorf("leak: after all bodies were read or closed the server's view of the connection receive window is %d, %d below its configured size %d (refund batching allows < %d)", connView, deficit, s.advConnWin, VPInflowMinRefresh)
	}

	// (3) flush probe: one more response of inflowMinRefresh bytes, read by the
	// application in one Read, makes the Transport send everything it still batches.
	if c.Probe && s.advInitWin >= VPInflowMinRefresh && s.advMaxFrame >= VPInflowMinRefresh {
		r.Class("flush-probe")
		st := &c10cSt{}
		sts = append(sts, st)
		if err := open(len(sts) - 1); err != nil {
			return err
		}
		sendData(st, VPInflowMinRefresh, -1, false)
		if err := quiesce(); err != nil {
			return err
		}
		appRead(st, VPInflowMinRefresh, false)
		if st.reading.Load() || st.readN.Load() != VPInflowMinRefresh {
			return fmt.Errorf("harness: probe read returned %d bytes (blocked=%v)", st.readN.Load(), st.reading.Load())
		}
		if err := quiesce(); err != nil {
			return err
		}
		if d := s.advConnWin - connView; d < 0 {
			return fmt.Errorf("over-refund: after a flush probe the server's view of the connection receive window is %d, %d above its configured size %d", connView, -d, s.advConnWin)
		} else if d != 0 {
			return fmt.Errorf("leak: after a flush probe (application read %d more bytes) the server's view of the connection receive window is %d, configured %d (difference %d)", VPInflowMinRefresh, connView, s.advConnWin, d)
		}
		st.body.Close()
		synctest.Wait()
		if err := quiesce(); err != nil {
			return err
		}
	}

	ndisc := 0
	for _, st := range sts {
		if st.discarded || (st.sent > st.readN.Load()) {
			ndisc++
		}
	}
	if ndisc > 0 {
		r.NonTrivial()
		r.Class("some-data-discarded")
	}
	if windowLimited {
		r.Class("server-window-limited")
	}
	switch {
	case len(sts) >= 20:
		r.Class("streams>=20")
	case len(sts) >= 5:
		r.Class("streams-5..19")
	default:
		r.Class("streams<5")
	}
	return nil
}

func TestVP_C10_client(t *testing.T) {
	vp.Run(t, vp.Spec[c10cCase]{ID: "C10", Sub: "client", CrashFile: true, Gen: c10cGen, Known: c10cKnown, Prop: func(c c10cCase, r *vp.Rec) error {
		return vpBubble(t, func() error { return vpGuard(func() error { return c10cRun(c, r) }) })
	}})
}
