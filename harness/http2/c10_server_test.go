package http2_test

// C10 (server half): inbound flow-control credit is never leaked by the server.
//
// This file also holds the upload-session machinery shared with the server half of
// C11 (c11_server_test.go): a pre-drawn script of request streams whose handlers run a
// drawn little program (read k / read all / wait for release / close body / write),
// and a fake client that uploads DATA while keeping the peer's view of every receive
// window the server advertised.

import (
	"encoding/json"
	"fmt"
	"io"
	"net/http"
	"os"
	"path/filepath"
	"strconv"
	"sync"
	"testing"
	"testing/synctest"
	"time"

	"pgregory.net/rapid"
	"verif/vp"

	. "golang.org/x/net/http2"
)

// ---------------------------------------------------------------------------------
// case data

type c10sOp struct {
	Kind string `json:"kind"` // read | readall | wait | close | write
	N    int    `json:"n,omitempty"`
}

type c10sStream struct {
	Prog  []c10sOp `json:"prog"`  // what the handler does, in order; then it returns
	CL    int64    `json:"cl"`    // declared Content-Length, -1 = none
	Honor bool     `json:"honor"` // client keeps the body within CL, END_STREAM only at CL
	Fin   string   `json:"fin"`   // how a still-open stream is finished at the end: end | rst
}

type c10sStep struct {
	Kind string `json:"kind"` // data | rst | release | ping
	S    int    `json:"s"`    // stream plan index
	N    int    `json:"n,omitempty"`
	Pad  int    `json:"pad"` // -1: no PADDED flag; 0..255: padding bytes (plus the length byte)
	End  bool   `json:"end,omitempty"`
	Rel  string `json:"rel,omitempty"` // C11 only: frame length relative to the windows
	ND   bool   `json:"nd,omitempty"`  // the fake client does not read the wire after this step
}

type c10sCase struct {
	ConnWin      int32        `json:"conn_win"`   // Server.MaxUploadBufferPerConnection
	StreamWin    int32        `json:"stream_win"` // Server.MaxUploadBufferPerStream
	Streams      []c10sStream `json:"streams"`
	Steps        []c10sStep   `json:"steps"`
	ShutdownAt   int          `json:"shutdown_at"` // graceful shutdown before this step (-1: never)
	ReleaseFirst bool         `json:"release_first"`
	Probe        bool         `json:"probe"`
	// ReadBuf bounds the pipe towards the fake client (0 = unlimited): once the server
	// has written that many unread bytes its frame writer blocks and later frames
	// (RST_STREAM, WINDOW_UPDATE, ...) stay queued until the client reads again.
	ReadBuf int `json:"read_buf,omitempty"`
}

// effective configuration as documented for Server.MaxUploadBufferPer{Connection,Stream}
func c10sConfConn(v int32) int64 {
	if v < 65535 {
		return 1 << 20
	}
	return int64(v)
}

var c10sDebug = os.Getenv("C10S_DEBUG") != "" // per-step trace on stdout

const c10sMaxWindow = 1<<31 - 1
const c10sProbeLen = VPInflowMinRefresh

// ---------------------------------------------------------------------------------
// session

type c10sHS struct { // what the handler of one stream observed
	mu      sync.Mutex
	started bool
	done    bool
	got     int64
	bad     int64 // offset of the first body byte that differs from what was sent, -1 none
}

func (h *c10sHS) note(k int, b []byte) {
	h.mu.Lock()
	for i := range b {
		if h.bad < 0 && b[i] != vpPattern(k, int(h.got)+i) {
			h.bad = h.got + int64(i)
		}
	}
	h.got += int64(len(b))
	h.mu.Unlock()
}

func (h *c10sHS) snap() (started, done bool, got, bad int64) {
	h.mu.Lock()
	defer h.mu.Unlock()
	return h.started, h.done, h.got, h.bad
}

type c10sSt struct { // the fake client's view of one stream
	k        int
	id       uint32
	opened   bool
	ignored  bool  // opened after GOAWAY was read: the server discards its frames
	view     int64 // stream receive window as the peer sees it
	sent     int64 // DATA payload bytes sent
	acc      int64 // payload bytes of frames sent within the windows on the open stream (and within CL)
	cliEnded bool
	cliReset bool
	srvReset bool
	srvCode  ErrCode
	nearEdge bool

	// state when the peer first learnt that the stream was closed by a reset
	closeSeen bool
	closeGot  int64 // bytes the handler had read by then
	closeAcc  int64 // bytes that had been written to its body by then
}

// open reports whether the stream is open in both directions as far as the peer can
// tell after quiescence (nothing in flight).
func (st *c10sSt) open() bool {
	return st.opened && !st.ignored && !st.cliEnded && !st.cliReset && !st.srvReset
}

type c10sMode struct {
	id       string
	checkMax bool // C10 (1): no WINDOW_UPDATE lifts a window above 2^31-1
	verdict  bool // C11: every DATA frame is accepted / rejected according to the windows
	size     func(x *c10sSess, st *c10sSt, open bool, sp c10sStep) (n, pad int, end, ok bool)
	atEnd    func(x *c10sSess) error
}

// c10sResult is the outcome of one session: the verdict plus what goes to the recorder.
type c10sResult struct {
	err        error
	classes    []string
	nontrivial bool
	known      string // key of the known finding whose predicate the session matched
}

func (res *c10sResult) apply(r *vp.Rec) {
	for _, c := range res.classes {
		r.Class(c)
	}
	if res.nontrivial {
		r.NonTrivial()
	}
}

type c10sSess struct {
	c     c10sCase
	res   *c10sResult
	m     c10sMode
	s     *vpSrv
	hs    []c10sHS
	rel   []chan struct{}
	final chan struct{}
	fin   bool

	sts    []*c10sSt
	byID   map[uint32]*c10sSt
	nextID uint32

	connView    int64
	initWin     int64
	maxFrame    int64
	gotSettings bool
	goAway      bool
	goAwayCode  ErrCode
	connClosed  bool
	didShutdown bool

	// observations of the current drain
	flowRST    map[uint32]int // RST_STREAM(FLOW_CONTROL_ERROR) frames seen in the last drain, per stream
	flowGoAway bool
	sawWU      bool // the server emitted a WINDOW_UPDATE
	stale      bool // the fake client has not read the server's output since the last step
	// stream-level overruns sent while the client was not reading: the refusal is due at
	// the next drain (stream id -> description of the frame)
	pendingFlow map[uint32]string
	flowExcused bool // a GOAWAY(FLOW_CONTROL_ERROR) answered one of them

	discard map[string]bool
}

func (x *c10sSess) class(name string) { x.res.classes = append(x.res.classes, name) }

func (x *c10sSess) dead() bool {
	return x.connClosed || (x.goAway && x.goAwayCode != ErrCodeNo)
}

func (x *c10sSess) handle(w http.ResponseWriter, req *http.Request) {
	k, err := strconv.Atoi(req.URL.Path[1:])
	if err != nil || k < 0 || k >= len(x.hs) {
		return
	}
	h := &x.hs[k]
	h.mu.Lock()
	h.started = true
	h.mu.Unlock()
	defer func() {
		h.mu.Lock()
		h.done = true
		h.mu.Unlock()
	}()
	if k == len(x.c.Streams) { // flush probe: one Read that takes everything buffered
		buf := make([]byte, 2*c10sProbeLen)
		n, _ := req.Body.Read(buf)
		h.note(k, buf[:n])
		return
	}
	for _, op := range x.c.Streams[k].Prog {
		switch op.Kind {
		case "read":
			if op.N <= 0 {
				continue
			}
			buf := make([]byte, op.N)
			n, _ := io.ReadFull(req.Body, buf)
			h.note(k, buf[:n])
		case "readall":
			sz := op.N
			if sz < 16 {
				sz = 16
			}
			buf := make([]byte, sz)
			for {
				n, err := req.Body.Read(buf)
				h.note(k, buf[:n])
				if err != nil {
					break
				}
			}
		case "wait":
			select {
			case <-x.rel[k]:
			case <-x.final:
			}
		case "close":
			req.Body.Close()
		case "write":
			n := op.N
			if n > 16 {
				n = 16
			}
			w.Write(make([]byte, n))
			w.(http.Flusher).Flush()
		}
	}
}

// drain reads everything the server has written, up to quiescence.
func (x *c10sSess) drain() error {
	x.flowRST = map[uint32]int{}
	x.sawWU = false
	x.stale = false
	for {
		f, err := x.s.read()
		if err != nil {
			x.connClosed = true
			return nil
		}
		if f == nil {
			for id, what := range x.pendingFlow {
				switch {
				case x.flowRST[id] > 0:
					if x.flowRST[id]--; x.flowRST[id] == 0 { // accounted for
						delete(x.flowRST, id)
					}
				case x.flowGoAway:
					x.flowExcused = true
				default:
					return fmt.Errorf("%s, sent while the client was not reading; no RST_STREAM/GOAWAY with FLOW_CONTROL_ERROR followed once it read again", what)
				}
				delete(x.pendingFlow, id)
			}
			return nil
		}
		if c10sDebug {
			fmt.Printf("DBG   <- %+v\n", f)
		}
		switch f := f.(type) {
		case *SettingsFrame:
			if f.IsAck() {
				continue
			}
			if v, ok := f.Value(SettingInitialWindowSize); ok {
				d := int64(v) - x.initWin
				for _, st := range x.sts {
					if st.opened {
						st.view += d
					}
				}
				x.initWin = int64(v)
			}
			if v, ok := f.Value(SettingMaxFrameSize); ok {
				x.maxFrame = int64(v)
			}
			x.gotSettings = true
			x.s.fr.WriteSettingsAck()
		case *WindowUpdateFrame:
			x.sawWU = true
			if f.StreamID == 0 {
				x.connView += int64(f.Increment)
				if x.m.checkMax && x.connView > c10sMaxWindow {
					return fmt.Errorf("WINDOW_UPDATE(conn, %d) lifts the connection receive window to %d > 2^31-1", f.Increment, x.connView)
				}
				continue
			}
			st := x.byID[f.StreamID]
			if st == nil {
				return fmt.Errorf("harness: WINDOW_UPDATE for stream %d that was never opened", f.StreamID)
			}
			st.view += int64(f.Increment)
			if x.m.checkMax && st.view > c10sMaxWindow {
				return fmt.Errorf("WINDOW_UPDATE(stream %d, %d) lifts the stream receive window to %d > 2^31-1", f.StreamID, f.Increment, st.view)
			}
		case *RSTStreamFrame:
			if st := x.byID[f.StreamID]; st != nil {
				if !st.srvReset {
					st.srvReset = true
					st.srvCode = f.ErrCode
				}
				if f.ErrCode == ErrCodeFlowControl {
					x.flowRST[f.StreamID]++
				}
			}
		case *GoAwayFrame:
			if !x.goAway || x.goAwayCode == ErrCodeNo {
				x.goAwayCode = f.ErrCode
			}
			x.goAway = true
			if f.ErrCode == ErrCodeFlowControl {
				x.flowGoAway = true
			}
		}
	}
}

// settle follows a scripted client action: normally the wire is drained to quiescence;
// after a no-drain step the client only waits for quiescence without reading, so
// whatever the server could not write (bounded pipe) stays queued inside the server.
// The peer-view windows then lag behind (they only count WINDOW_UPDATEs actually
// read), which keeps every DATA frame within what the server advertised.
func (x *c10sSess) settle(nd bool) error {
	if nd {
		synctest.Wait()
		x.flowRST, x.sawWU = map[uint32]int{}, false
		x.stale = true
		return nil
	}
	return x.drain()
}

func (x *c10sSess) openStream(st *c10sSt, nd bool) error {
	st.id = x.nextID
	x.nextID += 2
	st.opened = true
	st.ignored = x.goAway
	st.view = x.initWin
	x.byID[st.id] = st
	var extra []string
	if st.k < len(x.c.Streams) && x.c.Streams[st.k].CL >= 0 {
		extra = append(extra, "content-length", strconv.FormatInt(x.c.Streams[st.k].CL, 10))
	}
	if err := x.s.fr.WriteHeaders(HeadersFrameParam{
		StreamID:      st.id,
		BlockFragment: x.s.reqHeaders("POST", "/"+strconv.Itoa(st.k), extra...),
		EndHeaders:    true,
	}); err != nil {
		return fmt.Errorf("harness: HEADERS: %v", err)
	}
	return x.settle(nd)
}

// sendData writes one DATA frame with n payload bytes and the given padding, applies
// the window bookkeeping and (in verdict mode) checks the server's reaction.
func (x *c10sSess) sendData(st *c10sSt, n, pad int, end, nd bool) error {
	open := st.open()
	if x.s.sc.VPSrvResetQueued(st.id) { // diagnostics only (coverage class)
		x.class("data-while-rst-stream-still-queued")
	}
	payload := make([]byte, 0, n+257)
	var flags Flags
	if pad >= 0 {
		flags |= FlagDataPadded
		payload = append(payload, byte(pad))
	}
	for i := 0; i < n; i++ {
		payload = append(payload, vpPattern(st.k, int(st.acc)+i))
	}
	if pad > 0 {
		payload = append(payload, make([]byte, pad)...)
	}
	if end {
		flags |= FlagDataEndStream
	}
	L := int64(len(payload))
	fits := L <= x.connView && (!open || L <= st.view)
	sv0, cv0 := st.view, x.connView // the windows the frame is judged against
	near := false
	if d := x.connView - L; d >= -1 && d <= 1 {
		near = true
	}
	if d := st.view - L; open && d >= -1 && d <= 1 {
		near = true
	}
	if near {
		st.nearEdge = true
		if x.sawWU {
			x.class("edge-frame-right-after-window-update")
		}
	}
	if x.m.verdict && !fits {
		// diagnostics only: is the overrun covered by credit the server still batches?
		if _, unsent := x.s.sc.VPSrvConnInflow(); unsent > 0 && L > x.connView && L <= x.connView+int64(unsent) {
			x.class("overrun-within-batched-conn-refund")
		}
	}
	if x.m.verdict && !fits && (x.stale || nd) {
		// The fake client has not read everything the server wrote, so its view of the
		// windows may lag behind what the server has already advertised (a WINDOW_UPDATE
		// is queued or sits unread in the pipe). The verdict "must be refused" is certain
		// only when the frame exceeds even the server's own connection-level count,
		// which is never below what it advertised; such a frame is followed by a read
		// of everything pending. Any other overrun is not sent in this state.
		availC, _ := x.s.sc.VPSrvConnInflow()
		availS, judged := x.s.sc.VPSrvStreamInflow(st.id)
		switch {
		case L > int64(availC):
			nd = false
			x.class("overrun-of-the-server-side-connection-window-while-output-unread")
			if x.s.sc.VPSrvResetQueued(st.id) {
				x.class("overrun-on-a-stream-whose-rst-stream-is-still-queued")
			}
		case open && judged && L > int64(availS) && st.k < len(x.c.Streams) && x.c.Streams[st.k].CL < 0:
			// Likewise for the stream's own count. This frame may stay unanswered for
			// now: the RST_STREAM(FLOW_CONTROL_ERROR) is due at the next read of the
			// server's output, and the stream is over as far as the script is concerned.
			x.class("overrun-of-the-server-side-stream-window-while-output-unread")
			if nd {
				if err := x.s.fr.WriteRawFrame(FrameData, flags, st.id, payload); err != nil {
					return fmt.Errorf("harness: DATA: %v", err)
				}
				x.pendingFlow[st.id] = fmt.Sprintf("DATA frame of %d bytes on stream %d exceeds the stream window (client's view %d, server's own count %d)", L, st.id, sv0, availS)
				st.srvReset = true
				st.sent += int64(n)
				return x.settle(true)
			}
		default:
			x.class("step-skipped-overrun-with-stale-view")
			return nil
		}
	}
	if !fits && !x.m.verdict {
		return fmt.Errorf("harness: %s script sent a DATA frame of %d bytes beyond the windows (stream %d, conn %d)", x.m.id, L, st.view, x.connView)
	}
	if err := x.s.fr.WriteRawFrame(FrameData, flags, st.id, payload); err != nil {
		return fmt.Errorf("harness: DATA: %v", err)
	}
	if pad >= 0 {
		x.discard["padding"] = true
	}
	if !open {
		switch {
		case st.ignored:
			x.discard["data-after-goaway"] = true
		case st.cliReset:
			x.discard["data-after-client-rst"] = true
		case st.srvReset:
			x.discard["data-after-server-rst"] = true
		}
	}
	st.sent += int64(n)
	if fits {
		x.connView -= L
		if open {
			st.view -= L
			cl := int64(-1)
			if st.k < len(x.c.Streams) {
				cl = x.c.Streams[st.k].CL
			}
			if cl >= 0 && st.acc+int64(n) > cl {
				x.discard["over-content-length"] = true
			} else {
				st.acc += int64(n)
				if end {
					st.cliEnded = true
				}
			}
		}
	}
	if nd {
		x.class("no-drain-data")
		return x.settle(true)
	}
	if err := x.drain(); err != nil {
		return err
	}
	flowErr := x.flowRST[st.id] > 0 || (x.flowGoAway && !x.flowExcused)
	if flowErr {
		x.class("flow-control-error-seen")
	}
	if x.m.verdict {
		switch {
		case fits && flowErr:
			return fmt.Errorf("DATA frame of %d bytes on stream %d (open=%v) fits the advertised windows (stream %d, connection %d) but was answered with FLOW_CONTROL_ERROR (RST_STREAM=%v GOAWAY=%v)",
				L, st.id, open, sv0, cv0, x.flowRST[st.id] > 0, x.flowGoAway)
		case !fits && !flowErr && !x.connClosed:
			return fmt.Errorf("DATA frame of %d bytes on stream %d (open=%v) exceeds the advertised windows (stream %d, connection %d) but no RST_STREAM/GOAWAY with FLOW_CONTROL_ERROR followed",
				L, st.id, open, sv0, cv0)
		}
		if fits {
			x.class("frame-accepted")
		} else {
			x.class("frame-rejected")
		}
	}
	return nil
}

// noFlowErr is called after a drain that did not follow a DATA frame.
func (x *c10sSess) noFlowErr(after string) error {
	if !x.m.verdict {
		return nil
	}
	if len(x.flowRST) > 0 || (x.flowGoAway && !x.flowExcused) {
		return fmt.Errorf("the server sent RST_STREAM/GOAWAY with FLOW_CONTROL_ERROR after %s although no DATA frame was outstanding", after)
	}
	return nil
}

// finish ends every stream that is still open and releases every handler.
func (x *c10sSess) finish() error {
	release := func() error {
		if !x.fin {
			x.fin = true
			close(x.final)
		}
		if err := x.drain(); err != nil {
			return err
		}
		return x.noFlowErr("the handlers were released")
	}
	if x.c.ReleaseFirst {
		if err := release(); err != nil {
			return err
		}
		x.noteCloses()
	}
	for _, st := range x.sts {
		if x.dead() {
			break
		}
		if !st.open() {
			continue
		}
		if st.k < len(x.c.Streams) && x.c.Streams[st.k].Fin == "rst" {
			x.s.fr.WriteRSTStream(st.id, ErrCodeCancel)
			st.cliReset = true
		} else {
			x.s.fr.WriteData(st.id, true, nil)
			st.cliEnded = true
		}
		if err := x.drain(); err != nil {
			return err
		}
		if err := x.noFlowErr("an empty END_STREAM frame / RST_STREAM"); err != nil {
			return err
		}
		x.noteCloses()
	}
	return release()
}

// noteCloses records, at a quiescent point, the handler's progress for every stream
// that has just been seen closed by a reset from either side.
func (x *c10sSess) noteCloses() {
	for _, st := range x.sts {
		if st.closeSeen || !st.opened || st.ignored || !(st.cliReset || st.srvReset) {
			continue
		}
		_, _, got, _ := x.hs[st.k].snap()
		st.closeSeen, st.closeGot, st.closeAcc = true, got, st.acc
	}
}

// c10sKnownDoubleRefund is the key of the finding "closeStream refunds the buffered
// request-body bytes, and refunds them again when the handler reads them afterwards".
const c10sKnownDoubleRefund = "c10-closestream-double-refund"

// c10sKnownQueuedFramePanic: closeStream marks the stream closed and refunds
// connection credit before it drops the stream's queued frames; when it runs from an
// asynchronously completed write, the refund's frame scheduling pops a queued
// stream-level frame of the closed stream and startFrameWrite panics.
const c10sKnownQueuedFramePanic = "c10-closestream-queued-frame-panic"

func c10sRun(c c10sCase, m c10sMode) (res c10sResult) {
	x := &c10sSess{c: c, res: &res, m: m, byID: map[uint32]*c10sSt{}, nextID: 1, discard: map[string]bool{}}
	n := len(c.Streams)
	x.hs = make([]c10sHS, n+1)
	x.rel = make([]chan struct{}, n+1)
	for i := range x.hs {
		x.hs[i].bad = -1
		x.rel[i] = make(chan struct{}, len(c.Steps)+1)
	}
	x.final = make(chan struct{})
	x.pendingFlow = map[uint32]string{}
	x.sts = make([]*c10sSt, n+1)
	for i := range x.sts {
		x.sts[i] = &c10sSt{k: i}
	}
	x.connView, x.initWin, x.maxFrame = 65535, 65535, 16384
	res.err = x.run()
	// predicate of the known finding: a stream was reset (by either side) while
	// request-body bytes were buffered unread, and its handler read some of them later
	for _, st := range x.sts[:n] {
		_, _, got, _ := x.hs[st.k].snap()
		if st.closeSeen && st.closeAcc > st.closeGot && got > st.closeGot {
			res.known = c10sKnownDoubleRefund
		}
	}
	return res
}

func (x *c10sSess) run() error {
	c, m := x.c, x.m
	n := len(c.Streams)

	maxRead := uint32(0)
	if m.verdict {
		maxRead = 1<<24 - 1
	}
	x.s = vpNewSrv(vpSrvOpts{UploadPerConn: c.ConnWin, UploadPerStream: c.StreamWin, MaxReadFrame: maxRead, ReadBuf: c.ReadBuf}, http.HandlerFunc(x.handle))
	defer func() {
		if !x.fin {
			x.fin = true
			close(x.final)
		}
		x.s.closeAndWait(0)
	}()

	if _, err := x.s.cli.Write([]byte(ClientPreface)); err != nil {
		return fmt.Errorf("harness: preface: %v", err)
	}
	if err := x.s.fr.WriteSettings(); err != nil {
		return fmt.Errorf("harness: settings: %v", err)
	}
	if err := x.drain(); err != nil {
		return err
	}
	if !x.gotSettings {
		return fmt.Errorf("harness: no SETTINGS from the server")
	}

	for i, sp := range c.Steps {
		if x.dead() {
			break
		}
		if i == c.ShutdownAt && !x.didShutdown {
			x.didShutdown = true
			x.s.sc.VPSrvStartGracefulShutdown()
			if err := x.drain(); err != nil {
				return err
			}
			if x.dead() {
				break
			}
		}
		if sp.S < 0 || n == 0 {
			continue
		}
		sp.S %= n
		st := x.sts[sp.S]
		switch sp.Kind {
		case "data":
			if !st.opened {
				if err := x.openStream(st, sp.ND); err != nil {
					return err
				}
				if x.dead() {
					break
				}
			}
			if st.cliEnded {
				// DATA after the client's own END_STREAM is a protocol violation whose
				// accounting the statements do not define (and the server's reaction
				// depends on whether it registered the END_STREAM): not generated
				x.class("step-skipped-after-end-stream")
				continue
			}
			nb, pad, end, ok := m.size(x, st, st.open(), sp)
			if !ok {
				x.class("step-skipped-no-window")
				continue
			}
			if err := x.sendData(st, nb, pad, end, sp.ND); err != nil {
				return err
			}
		case "rst":
			if !st.opened || st.cliReset {
				continue
			}
			if st.open() && st.acc > 0 {
				x.discard["client-rst-with-data"] = true
			}
			st.cliReset = true
			x.s.fr.WriteRSTStream(st.id, ErrCodeCancel)
			if err := x.settle(sp.ND); err != nil {
				return err
			}
			if err := x.noFlowErr("RST_STREAM from the client"); err != nil {
				return err
			}
		case "release":
			select {
			case x.rel[sp.S] <- struct{}{}:
			default:
			}
			if err := x.settle(sp.ND); err != nil {
				return err
			}
			if err := x.noFlowErr("a handler was released"); err != nil {
				return err
			}
		case "ping":
			x.s.fr.WritePing(false, [8]byte{'v', 'p'})
			if err := x.settle(sp.ND); err != nil {
				return err
			}
		}
		x.noteCloses()
		if c10sDebug {
			av, un := x.s.sc.VPSrvConnInflow()
			fmt.Printf("DBG step %d %+v: connView=%d avail=%d unsent=%d\n", i, sp, x.connView, av, un)
		}
	}

	if err := x.finish(); err != nil {
		return err
	}
	if !x.dead() {
		for k := 0; k < n; k++ {
			started, done, _, _ := x.hs[k].snap()
			if started && !done {
				return fmt.Errorf("harness: handler of stream plan %d still running after every stream was ended or reset and every handler released", k)
			}
		}
		if h := x.s.sc.VPCurHandlers(); h != 0 {
			return fmt.Errorf("harness: %d handlers still counted as running at the end", h)
		}
	}
	// content check: whatever a handler read is a prefix of what was sent within the windows
	for k := 0; k < n; k++ {
		_, _, got, bad := x.hs[k].snap()
		if bad >= 0 {
			return fmt.Errorf("stream plan %d: request body byte at offset %d differs from the DATA payload sent", k, bad)
		}
		if got < x.sts[k].acc {
			x.discard["unread-at-close"] = true
		}
	}
	if x.didShutdown {
		x.class("graceful-shutdown")
	}
	if x.c.ReadBuf > 0 {
		x.class("bounded-client-read-buffer")
	}
	if x.dead() {
		x.class("conn-ended-early")
	}
	opened := 0
	for _, st := range x.sts[:n] {
		if st.opened {
			opened++
		}
	}
	switch {
	case opened >= 30:
		x.class("streams>=30")
	case opened >= 10:
		x.class("streams-10..29")
	default:
		x.class("streams<10")
	}
	return m.atEnd(x)
}

// ---------------------------------------------------------------------------------
// C10: sizing (always within the windows) and the end-of-session oracle

func c10sSizeFit(x *c10sSess, st *c10sSt, open bool, sp c10sStep) (n, pad int, end, ok bool) {
	avail := x.connView
	if open && st.view < avail {
		avail = st.view
	}
	if x.maxFrame < avail {
		avail = x.maxFrame
	}
	pad = sp.Pad
	if pad > 255 {
		pad = 255
	}
	over := int64(0)
	if pad >= 0 {
		over = 1 + int64(pad)
	}
	if over > avail {
		pad, over = -1, 0
	}
	want := int64(sp.N)
	var sc c10sStream
	sc.CL = -1
	if st.k < len(x.c.Streams) {
		sc = x.c.Streams[st.k]
	}
	honor := open && sc.CL >= 0 && sc.Honor
	if honor && want > sc.CL-st.sent {
		want = sc.CL - st.sent
	}
	if want > avail-over {
		want = avail - over
	}
	if want < 0 {
		want = 0
	}
	end = sp.End
	if end && honor && st.sent+want != sc.CL {
		end = false
	}
	if want == 0 && over == 0 && !end {
		return 0, -1, false, false
	}
	return int(want), pad, end, true
}

func c10sEnd(x *c10sSess) error {
	for _, k := range []string{"padding", "data-after-goaway", "data-after-client-rst", "data-after-server-rst", "over-content-length", "client-rst-with-data", "unread-at-close"} {
		if x.discard[k] {
			x.class("discard:" + k)
			x.res.nontrivial = true
		}
	}
	if x.dead() {
		return nil
	}
	conf := c10sConfConn(x.c.ConnWin)
	check := func(when string, exact bool) error {
		d := conf - x.connView
		avail, unsent := x.s.sc.VPSrvConnInflow()
		diag := fmt.Sprintf("configured %d, peer's view %d (server-side accounting: avail %d, unsent %d)", conf, x.connView, avail, unsent)
		switch {
		case d < 0:
			return fmt.Errorf("%s the peer's view of the connection receive window exceeds the configured size by %d bytes: credit was returned twice; %s", when, -d, diag)
		case d >= VPInflowMinRefresh:
			return fmt.Errorf("%s the peer's view of the connection receive window is %d bytes short of the configured size (>= inflowMinRefresh %d, so not batching slack): credit leaked; %s", when, d, VPInflowMinRefresh, diag)
		case exact && d != 0:
			return fmt.Errorf("%s the peer's view of the connection receive window is still %d bytes short of the configured size although the probe forced a refund of >= inflowMinRefresh bytes: credit leaked; %s", when, d, diag)
		}
		if d > 0 {
			x.class("batched-slack>0")
		} else {
			x.class("deficit=0")
		}
		return nil
	}
	if err := check("after all handlers returned and all bodies were read or closed,", false); err != nil {
		return err
	}
	exact := false
	if x.c.Probe && x.initWin >= c10sProbeLen && x.connView >= c10sProbeLen && x.maxFrame >= c10sProbeLen {
		st := x.sts[len(x.c.Streams)]
		if err := x.openStream(st, false); err != nil {
			return err
		}
		if !x.dead() {
			if err := x.sendData(st, c10sProbeLen, -1, true, false); err != nil {
				return err
			}
		}
		if x.dead() {
			return nil
		}
		if !st.ignored {
			if _, done, got, _ := x.hs[st.k].snap(); !done || got != c10sProbeLen {
				return fmt.Errorf("harness: probe handler done=%v read %d of %d bytes", done, got, c10sProbeLen)
			}
		}
		exact = true
		x.class("flush-probe")
		if err := check("after the flush probe", true); err != nil {
			return err
		}
	}
	time.Sleep(100 * time.Millisecond)
	if err := x.drain(); err != nil {
		return err
	}
	if x.dead() {
		return nil
	}
	return check("100ms later,", exact)
}

var c10sModeC10 = c10sMode{id: "C10", checkMax: true, size: c10sSizeFit, atEnd: c10sEnd}

// ---------------------------------------------------------------------------------
// generators

var c10sSizes = rapid.OneOf(
	rapid.IntRange(0, 300),
	rapid.IntRange(0, 300),
	rapid.SampledFrom([]int{1, 1000, 4095, 4096, 4097, 16384, 65535, 70000}),
)

func c10sOpGen() *rapid.Generator[c10sOp] {
	return rapid.Custom(func(t *rapid.T) c10sOp {
		kind := rapid.SampledFrom([]string{"read", "read", "readall", "wait", "wait", "close", "write"}).Draw(t, "op")
		op := c10sOp{Kind: kind}
		switch kind {
		case "read":
			op.N = 1 + c10sSizes.Draw(t, "k")
		case "readall":
			op.N = rapid.SampledFrom([]int{16, 100, 512, 4096, 8192, 65536}).Draw(t, "buf")
		case "write":
			op.N = rapid.IntRange(0, 16).Draw(t, "w")
		}
		return op
	})
}

func c10sProgGen() *rapid.Generator[[]c10sOp] {
	return rapid.Custom(func(t *rapid.T) []c10sOp {
		tmpl := rapid.IntRange(0, 10).Draw(t, "tmpl")
		rd := func() c10sOp { return c10sOp{Kind: "read", N: 1 + c10sSizes.Draw(t, "k")} }
		ra := func() c10sOp {
			return c10sOp{Kind: "readall", N: rapid.SampledFrom([]int{16, 100, 512, 4096, 8192, 65536}).Draw(t, "buf")}
		}
		wait := c10sOp{Kind: "wait"}
		cl := c10sOp{Kind: "close"}
		switch tmpl {
		case 0:
			return []c10sOp{ra()}
		case 1:
			return []c10sOp{rd()}
		case 2:
			return []c10sOp{}
		case 3:
			return []c10sOp{wait, ra()}
		case 4:
			return []c10sOp{wait}
		case 5:
			return []c10sOp{cl, wait}
		case 6:
			return []c10sOp{rd(), cl, wait}
		case 7:
			return []c10sOp{rd(), wait, ra()}
		case 8:
			return []c10sOp{wait, rd(), wait}
		case 9:
			return []c10sOp{{Kind: "write", N: 4}, ra()}
		}
		return rapid.SliceOfN(c10sOpGen(), 0, 5).Draw(t, "ops")
	})
}

func c10sStreamGen(withCL bool) *rapid.Generator[c10sStream] {
	return rapid.Custom(func(t *rapid.T) c10sStream {
		s := c10sStream{Prog: c10sProgGen().Draw(t, "prog"), CL: -1}
		if withCL && rapid.IntRange(0, 2).Draw(t, "decl") == 0 {
			s.CL = int64(c10sSizes.Draw(t, "cl"))
			s.Honor = rapid.Bool().Draw(t, "honor")
		}
		s.Fin = rapid.SampledFrom([]string{"end", "end", "rst"}).Draw(t, "fin")
		return s
	})
}

func c10sPadGen() *rapid.Generator[int] {
	return rapid.OneOf(rapid.Just(-1), rapid.Just(-1), rapid.IntRange(0, 255), rapid.SampledFrom([]int{0, 1, 255}))
}

func c10sGen(t *rapid.T) c10sCase {
	var c c10sCase
	c.ConnWin = rapid.SampledFrom([]int32{0, 65535, 65536, 65635, 65535 + 4096, 70000, 1 << 17, 1 << 20, 1<<31 - 1}).Draw(t, "connwin")
	c.StreamWin = rapid.SampledFrom([]int32{0, 1, 100, 4095, 4096, 4097, 16384, 65535, 1 << 20, 1<<31 - 1}).Draw(t, "streamwin")
	// lengths are drawn as a lower bound plus SliceOfN so that rapid can still delete
	// elements while shrinking; steps address streams modulo len(Streams)
	nmin := rapid.OneOf(rapid.IntRange(5, 20), rapid.IntRange(5, 60)).Draw(t, "nstreams")
	c.Streams = rapid.SliceOfN(c10sStreamGen(true), nmin, 60).Draw(t, "streams")
	n := len(c.Streams)
	// A bounded pipe towards the client plus runs of steps after which the client does
	// not read: the server's writer blocks, so RST_STREAM / WINDOW_UPDATE frames stay
	// queued while more DATA arrives.
	c.ReadBuf = rapid.SampledFrom([]int{0, 0, 0, 16, 64, 256}).Draw(t, "read_buf")
	ndMode := rapid.IntRange(0, 2).Draw(t, "nd_mode") // never / half of the steps / most steps
	step := rapid.Custom(func(t *rapid.T) c10sStep {
		kind := rapid.SampledFrom([]string{"data", "data", "data", "data", "data", "data", "data", "data", "rst", "release", "release", "release", "ping", "ping"}).Draw(t, "kind")
		sp := c10sStep{Kind: kind, S: rapid.IntRange(0, 59).Draw(t, "s"), Pad: -1}
		if kind == "data" {
			sp.N = c10sSizes.Draw(t, "n")
			sp.Pad = c10sPadGen().Draw(t, "pad")
			sp.End = rapid.IntRange(0, 3).Draw(t, "end") == 0
		}
		switch ndMode {
		case 1:
			sp.ND = rapid.Bool().Draw(t, "nd")
		case 2:
			sp.ND = rapid.IntRange(0, 7).Draw(t, "nd") != 0
		}
		return sp
	})
	mmin := rapid.IntRange(n, 3*n).Draw(t, "nsteps")
	c.Steps = rapid.SliceOfN(step, mmin, 4*n).Draw(t, "steps")
	m := len(c.Steps)
	c.ShutdownAt = -1
	if rapid.IntRange(0, 4).Draw(t, "shutdown") == 0 {
		c.ShutdownAt = rapid.IntRange(0, m-1).Draw(t, "shutdown_at")
	}
	c.ReleaseFirst = rapid.Bool().Draw(t, "release_first")
	c.Probe = rapid.IntRange(0, 3).Draw(t, "probe") != 0
	return c
}

// c10sEval runs a case once and remembers the outcome, so that the known-finding
// predicate (which is a property of the session, not of the script) and the property
// function share one execution. The case is persisted first: a panic on the server's
// serve goroutine kills the process.
var c10sLast struct {
	key string
	res c10sResult
}

// c10sFindingOpen reports whether KNOWN_FINDINGS.json lists the finding as open (the
// same test vp.Run applies to the key returned by Spec.Known).
func c10sFindingOpen(key string) bool {
	if v, ok := c10sOpenCache[key]; ok {
		return v
	}
	v := c10sFindingOpenUncached(key)
	c10sOpenCache[key] = v
	return v
}

var c10sOpenCache = map[string]bool{}

func c10sFindingOpenUncached(key string) bool {
	b, err := os.ReadFile(os.Getenv("VP_KNOWN"))
	if err != nil {
		return false
	}
	var kf struct {
		Findings []struct{ Key, Property, Status string }
	}
	if json.Unmarshal(b, &kf) != nil {
		return false
	}
	for _, f := range kf.Findings {
		if f.Key == key && f.Property == "C10" && f.Status == "open" {
			return true
		}
	}
	return false
}

func c10sEval(t *testing.T, c c10sCase) c10sResult {
	b, _ := json.Marshal(c)
	if c10sLast.key == string(b) && c10sLast.key != "" {
		return c10sLast.res
	}
	if d := os.Getenv("VP_OUT"); d != "" && os.Getenv("VP_REPLAY") == "" {
		cf, _ := json.Marshal(map[string]any{"id": "C10", "sub": "server", "error": "", "case": json.RawMessage(b)})
		os.WriteFile(filepath.Join(d, "C10.server.current.json"), cf, 0o644)
	}
	var res c10sResult
	if c10sConfConn(c.ConnWin) > c10sMaxWindow-1<<27 && c10sFindingOpen(c10sKnownDoubleRefund) {
		// With a window this close to 2^31-1 the known double refund makes inflow.add
		// panic on the serve goroutine; decide the finding's predicate on the same
		// script with a smaller (never limiting) connection window first.
		c2 := c
		c2.ConnWin = 1 << 30
		var pre c10sResult
		vpBubble(t, func() error { pre = c10sRun(c2, c10sModeC10); return nil })
		if pre.known != "" {
			res = c10sResult{known: pre.known, err: fmt.Errorf("matches known finding %s (decided with conn_win 2^30; with the configured window the server would panic in inflow.add)", pre.known)}
			c10sLast.key, c10sLast.res = string(b), res
			return res
		}
	}
	if err := vpBubble(t, func() error { res = c10sRun(c, c10sModeC10); return nil }); err != nil {
		res.err = err
	}
	c10sLast.key, c10sLast.res = string(b), res
	return res
}

func TestVP_C10_server(t *testing.T) {
	// the repository's tests turn on goroutine-ownership assertions that take a stack
	// trace on every serve-loop call (half of the run time); not part of the property
	DisableGoroutineTracking(t)
	vp.Run(t, vp.Spec[c10sCase]{ID: "C10", Sub: "server", Gen: c10sGen,
		Known: func(c c10sCase) string {
			// The queued-frame panic kills the process, so its predicate has to be
			// decided without running the session: it needs a server writer that can
			// block, i.e. a bounded pipe towards the client.
			if c.ReadBuf > 0 && c10sFindingOpen(c10sKnownQueuedFramePanic) {
				return c10sKnownQueuedFramePanic
			}
			return c10sEval(t, c).known
		},
		Prop: func(c c10sCase, r *vp.Rec) error {
			res := c10sEval(t, c)
			res.apply(r)
			return res.err
		}})
}
