package http2_test

// C15: the HTTP/2 server obeys stream-state and connection-control rules.
//
// A pre-drawn script of client frames and handler steps is interpreted against a real
// http2.Server (shared session harness, c08_srvsession_test.go) inside a synctest
// bubble. Every frame the server writes passes a wire monitor holding the client's
// view; handler start/finish events are logged by an instrumented handler. Clauses
// (exactly those of the statement):
//
//  1. no HEADERS/DATA on a stream after the server sent END_STREAM or RST_STREAM on it,
//     or after it received (processed) the client's RST_STREAM for it;
//  2. running application handlers never exceed the advertised
//     SETTINGS_MAX_CONCURRENT_STREAMS; a stream opened while that many streams are
//     certainly open is refused (RST_STREAM REFUSED_STREAM or PROTOCOL_ERROR, RFC 9113
//     5.1.2) and never reaches the handler;
//  3. one PING ACK with equal data per non-ACK PING;
//  4. one SETTINGS ACK per SETTINGS frame;
//  5. a malformed request never reaches the handler and ends with
//     RST_STREAM(PROTOCOL_ERROR) or a server-generated 4xx response.

import (
	"crypto/tls"
	"fmt"
	"io"
	"log"
	"net/http"
	"strconv"
	"strings"
	"sync"
	"testing"
	"testing/synctest"
	"time"

	"pgregory.net/rapid"
	"verif/vp"

	. "golang.org/x/net/http2"
	"golang.org/x/net/http2/hpack"
)

type c15Step struct {
	Kind    string `json:"kind"` // open bad data rst ping settings ack h wu prio trailers goaway shutdown
	K       int    `json:"k,omitempty"`
	V       uint32 `json:"v,omitempty"`
	Op      int    `json:"op,omitempty"`
	End     bool   `json:"end,omitempty"`
	NoDrain bool   `json:"nodrain,omitempty"`
	Ping    uint64 `json:"ping,omitempty"`
}

type c15Case struct {
	MaxStreams uint32    `json:"max_streams"`
	Sched      int       `json:"sched"`
	ReadBuf    int       `json:"read_buf"`
	AckFirst   bool      `json:"ack_first"` // client acknowledges the server's SETTINGS
	MaxHdr     int       `json:"max_hdr"`   // http.Server.MaxHeaderBytes (0 = 1024)
	Steps      []c15Step `json:"steps"`
	Aim      string    `json:"aim,omitempty"`
}

// malformed request kinds (Op of a "bad" step)
var c15BadNames = []string{
	"upper-case-name", "pseudo-after-regular", "missing-method", "missing-path", "missing-scheme",
	"dup-method", "dup-path", "connection", "keep-alive", "transfer-encoding", "te-gzip",
	"proxy-connection", "upgrade", "unknown-pseudo", "status-pseudo", "empty-path",
	"header-list-too-long", "header-list-too-long-continuation",
	"userinfo-in-authority", "userinfo-in-host-without-authority", "path-without-leading-slash",
	"userinfo-in-authority-scheme-http", "userinfo-in-host-scheme-http",
}

// c15BigKind is the first of the two "header list larger than the server's limit"
// kinds (answered by the server itself with 431); they are built in openStream.
const c15BigKind = 16

func c15BadFields(kind int, path string) []string {
	m, s, a, p := []string{":method", "GET"}, []string{":scheme", "https"}, []string{":authority", "dummy.tld"}, []string{":path", path}
	cat := func(parts ...[]string) []string {
		var out []string
		for _, x := range parts {
			out = append(out, x...)
		}
		return out
	}
	switch kind {
	case 0:
		return cat(m, s, a, p, []string{"X-Upper", "1"})
	case 1:
		return cat(m, s, []string{"foo", "bar"}, a, p)
	case 2:
		return cat(s, a, p)
	case 3:
		return cat(m, s, a)
	case 4:
		return cat(m, a, p)
	case 5:
		return cat(m, m, s, a, p)
	case 6:
		return cat(m, s, a, p, p)
	case 7:
		return cat(m, s, a, p, []string{"connection", "close"})
	case 8:
		return cat(m, s, a, p, []string{"keep-alive", "timeout=5"})
	case 9:
		return cat(m, s, a, p, []string{"transfer-encoding", "chunked"})
	case 10:
		return cat(m, s, a, p, []string{"te", "gzip"})
	case 11:
		return cat(m, s, a, p, []string{"proxy-connection", "keep-alive"})
	case 12:
		return cat(m, s, a, p, []string{"upgrade", "websocket"})
	case 13:
		return cat(m, s, a, p, []string{":foo", "bar"})
	case 14:
		return cat(m, s, a, p, []string{":status", "200"})
	case 18: // RFC 9113 8.3.1: no userinfo in :authority of http/https requests
		return cat(m, s, []string{":authority", "user@dummy.tld"}, p)
	case 19: // the same authority given only through the Host header field
		return cat(m, s, p, []string{"host", "user@dummy.tld"})
	case 20:
		return cat(m, s, a, []string{":path", strings.TrimPrefix(path, "/")})
	case 21: // the rule covers "http" as well as "https"
		return cat(m, []string{":scheme", "http"}, []string{":authority", "user:pw@dummy.tld"}, p)
	case 22:
		return cat(m, []string{":scheme", "http"}, p, []string{"host", "user@dummy.tld"})
	default:
		return cat(m, s, a, []string{":path", ""})
	}
}

func c15Gen(t *rapid.T) c15Case {
	var c c15Case
	c.MaxStreams = rapid.SampledFrom([]uint32{1, 1, 2, 2, 5}).Draw(t, "max")
	c.Sched = rapid.IntRange(0, 3).Draw(t, "sched")
	c.ReadBuf = rapid.SampledFrom([]int{0, 0, 0, 64, 1024, 16384}).Draw(t, "readbuf")
	c.AckFirst = rapid.Bool().Draw(t, "ackfirst")
	c.MaxHdr = rapid.SampledFrom([]int{1024, 1024, 4096}).Draw(t, "maxhdr")
	// how often the client sends the next frame without reading first: never, 1/6, 2/3
	ndMode := rapid.SampledFrom([]int{0, 1, 1, 4}).Draw(t, "ndmode")
	kinds := []string{
		"open", "open", "open", "open", "open", "open", "bad", "bad", "bad",
		"data", "data", "rst", "rst", "rst", "rst", "ping", "ping", "settings", "settings", "ack",
		"h", "h", "h", "h", "h", "h", "h", "h", "wu", "wu", "prio", "trailers",
		"goaway", "shutdown",
	}
	step := rapid.Custom(func(t *rapid.T) c15Step {
		s := c15Step{Kind: rapid.SampledFrom(kinds).Draw(t, "kind")}
		s.NoDrain = ndMode > 0 && rapid.IntRange(0, 5).Draw(t, "nodrain") < ndMode
		// stream/plan selector: index modulo the number opened so far, -1 = the latest
		k := rapid.OneOf(rapid.IntRange(0, 11), rapid.IntRange(0, 11), rapid.Just(-1))
		switch s.Kind {
		case "open":
			s.End = rapid.Bool().Draw(t, "end")
		case "bad":
			s.Op = rapid.OneOf(rapid.IntRange(0, len(c15BadNames)-1), rapid.IntRange(0, len(c15BadNames)-1), rapid.IntRange(c15BigKind, c15BigKind+1)).Draw(t, "bad")
			s.End = rapid.Bool().Draw(t, "end")
		case "data":
			s.K = k.Draw(t, "k")
			s.V = rapid.SampledFrom([]uint32{0, 1, 10, 1000}).Draw(t, "len")
			s.End = rapid.Bool().Draw(t, "end")
		case "rst":
			s.K = k.Draw(t, "k")
			s.V = rapid.SampledFrom([]uint32{8, 8, 8, 0, 1, 5, 7, 0xdead}).Draw(t, "code")
		case "ping":
			s.Ping = rapid.OneOf(rapid.Uint64(), rapid.SampledFrom([]uint64{0, 1, 1<<64 - 1})).Draw(t, "data")
			if rapid.IntRange(0, 7).Draw(t, "isack") == 0 {
				s.Op = 1
			}
		case "settings":
			s.Op = rapid.IntRange(0, 7).Draw(t, "which")
			s.V = rapid.SampledFrom([]uint32{0, 1, 100, 4096, 16384, 65535, 1 << 20}).Draw(t, "val")
		case "h":
			s.K = k.Draw(t, "k")
			s.Op = rapid.SampledFrom([]int{0, 1, 1, 2, 2, 2, 3, 4, 5, 6, 6}).Draw(t, "hop")
			s.V = rapid.SampledFrom([]uint32{0, 1, 100, 5000, 70000}).Draw(t, "n")
		case "wu":
			s.K = k.Draw(t, "k")
			s.Op = rapid.IntRange(0, 1).Draw(t, "conn")
			s.V = rapid.SampledFrom([]uint32{1, 1000, 65535, 1 << 20, 1<<31 - 1, 0}).Draw(t, "inc")
		case "prio":
			s.K = k.Draw(t, "k")
			s.V = uint32(rapid.IntRange(0, 11).Draw(t, "dep"))
			s.Op = rapid.IntRange(0, 255).Draw(t, "weight")
			s.End = rapid.Bool().Draw(t, "excl")
		case "trailers":
			s.K = k.Draw(t, "k")
			s.End = rapid.IntRange(0, 4).Draw(t, "noend") != 0
		case "goaway":
			s.V = rapid.SampledFrom([]uint32{0, 0, 0, 2, 8}).Draw(t, "code")
		}
		return s
	})
	c.Steps = rapid.SliceOfN(step, 1, 40).Draw(t, "steps")
	if rapid.IntRange(0, 5).Draw(t, "aim-busy-writer") == 0 {
		// Control frames queued behind a writer that is stuck: a response body larger
		// than the write buffer is being written to a peer that does not read (bounded
		// pipe), and two or three PINGs with different payloads arrive meanwhile; their
		// ACKs wait in the scheduler and must still carry each PING's own data.
		if c.ReadBuf == 0 {
			c.ReadBuf = rapid.SampledFrom([]int{64, 1024, 16384}).Draw(t, "aim-readbuf")
		}
		p1 := rapid.Uint64().Draw(t, "aim-p1")
		pre := []c15Step{
			{Kind: "open", End: true},
			{Kind: "h", K: -1, Op: 1, V: 70000, NoDrain: true},
			{Kind: "ping", Ping: p1, NoDrain: true},
			{Kind: "ping", Ping: ^p1, NoDrain: true},
			{Kind: "ping", Ping: p1 + 1},
		}
		c.Steps = append(pre, c.Steps...)
		c.Aim = "busy-writer-pings"
		if len(c.Steps) > 40 {
			c.Steps = c.Steps[:40]
		}
	}
	return c
}

type c15Stream struct {
	id       uint32
	plan     int
	bad      int // -1 = valid request
	cliReset bool
	cliEnded bool
	touched  bool // the client sent further frames on it after the HEADERS
	srvEnded bool
	srvReset bool
	srvCode  ErrCode
	status   string
	possOver bool // possibly over the limit when opened
	mustRef  bool // certainly over the limit when opened
	sawFrame bool // server sent HEADERS or DATA on it
}

type c15Cmd struct {
	op int
	n  int
}

type c15Handler struct {
	mu         sync.Mutex
	bad        []bool // per plan: malformed request
	started    []int
	finished   []int
	running    int
	maxRunning int
	viol       string
	ctl        []chan c15Cmd
	quit       chan struct{}
}

func (h *c15Handler) ServeHTTP(w http.ResponseWriter, req *http.Request) {
	k, err := strconv.Atoi(req.URL.Path[1:])
	h.mu.Lock()
	if err != nil || k < 0 || k >= len(h.ctl) {
		if h.viol == "" {
			h.viol = fmt.Sprintf("the handler was called for a request no valid script step sent (path %q)", req.URL.Path)
		}
		h.mu.Unlock()
		return
	}
	if h.bad[k] && h.viol == "" {
		h.viol = fmt.Sprintf("malformed request (plan %d) reached the application handler", k)
	}
	h.started[k]++
	h.running++
	if h.running > h.maxRunning {
		h.maxRunning = h.running
	}
	h.mu.Unlock()
	defer func() {
		h.mu.Lock()
		h.running--
		h.finished[k]++
		h.mu.Unlock()
	}()
	buf := make([]byte, 1024)
	for {
		select {
		case cmd := <-h.ctl[k]:
			switch cmd.op {
			case 0:
				w.WriteHeader(200)
				w.(http.Flusher).Flush()
			case 1:
				w.Write(make([]byte, cmd.n))
				w.(http.Flusher).Flush()
			case 2:
				return
			case 3:
				req.Body.Read(buf)
			case 4:
				panic(http.ErrAbortHandler)
			case 6: // finish with response trailers: the last frame is HEADERS with END_STREAM
				w.Header().Set(http.TrailerPrefix+"X-Vp-Trailer", "done")
				if cmd.n > 0 {
					w.Write(make([]byte, cmd.n%2000))
				}
				return
			case 5: // response asking to close the connection: graceful shutdown
				w.Header().Set("Connection", "close")
				w.WriteHeader(200)
				w.(http.Flusher).Flush()
			}
		case <-h.quit:
			return
		}
	}
}

// c15NewSrv is vpNewSrv (c08_srvsession_test.go) with http.Server.MaxHeaderBytes set, so
// that a header list over the server's limit is cheap to produce.
func c15NewSrv(o vpSrvOpts, maxHeaderBytes int, handler http.Handler) *vpSrv {
	h1 := &http.Server{ErrorLog: log.New(io.Discard, "", 0), MaxHeaderBytes: maxHeaderBytes}
	h2 := &Server{MaxConcurrentStreams: o.MaxStreams, NewWriteScheduler: vpSched(o.Sched)}
	ConfigureServer(h1, h2)
	cli, srv := synctestNetPipe()
	cli.SetReadDeadline(time.Now())
	cli.autoWait = true
	if o.ReadBuf > 0 {
		cli.SetReadBufferSize(o.ReadBuf)
	}
	s := &vpSrv{cli: cli, srv: srv, done: make(chan struct{}), h2: h2}
	s.enc = hpack.NewEncoder(&s.hbuf)
	connc := make(chan *ServerConn, 1)
	h2.TestSetNewConnFunc(func(sc *ServerConn) { connc <- sc })
	tlsState := tls.ConnectionState{
		Version:            tls.VersionTLS13,
		ServerName:         "go.dev",
		CipherSuite:        tls.TLS_AES_128_GCM_SHA256,
		NegotiatedProtocol: "h2",
	}
	go func() {
		defer close(s.done)
		h2.ServeConn(&netConnWithConnectionState{Conn: srv, state: tlsState}, &ServeConnOpts{Handler: handler, BaseConfig: h1})
	}()
	s.sc = <-connc
	s.fr = NewFramer(cli, cli)
	s.fr.SetMaxReadFrameSize(1<<24 - 1)
	synctest.Wait()
	return s
}

func c15Run(c c15Case, r *vp.Rec) error {
	nplans := 0
	for _, st := range c.Steps {
		if st.Kind == "open" || st.Kind == "bad" {
			nplans++
		}
	}
	h := &c15Handler{quit: make(chan struct{})}
	h.bad = make([]bool, nplans)
	h.started = make([]int, nplans)
	h.finished = make([]int, nplans)
	h.ctl = make([]chan c15Cmd, nplans)
	for i := range h.ctl {
		h.ctl[i] = make(chan c15Cmd, len(c.Steps)+1)
	}
	{
		i := 0
		for _, st := range c.Steps {
			if st.Kind == "open" || st.Kind == "bad" {
				h.bad[i] = st.Kind == "bad"
				i++
			}
		}
	}
	maxHdr := c.MaxHdr
	if maxHdr <= 0 {
		maxHdr = 1024
	}
	s := c15NewSrv(vpSrvOpts{Sched: c.Sched, MaxStreams: c.MaxStreams, ReadBuf: c.ReadBuf}, maxHdr, h)
	s.fr.AllowIllegalWrites = true
	s.fr.ReadMetaHeaders = hpack.NewDecoder(4096, nil)
	quitClosed := false
	defer func() {
		if !quitClosed {
			close(h.quit)
		}
		// time stops when the bubble's root goroutine returns: let the server finish
		// (GOAWAY close timer 1s, first-SETTINGS timer 2s) before that
		s.closeAndWait(5 * time.Second)
	}()

	var streams []*c15Stream // by plan
	byID := map[uint32]*c15Stream{}
	nextID := uint32(1)
	connDead := false
	limit := int64(-1) // advertised SETTINGS_MAX_CONCURRENT_STREAMS (-1: none seen)
	hdrLimit := 0      // advertised SETTINGS_MAX_HEADER_LIST_SIZE
	var pings []uint64 // outstanding non-ACK PINGs
	settingsSent, settingsAcked := 0, 0
	type pendOpen struct {
		y    *c15Stream
		cand []*c15Stream
	}
	var pending []pendOpen
	nOver, nResetRunning, nResetQueued := 0, 0, 0
	graceful, lastID := false, uint32(0) // GOAWAY(NO_ERROR) seen, its LastStreamID
	nPingGraceful, nGraceWait := 0, 0
	ignored := func(x *c15Stream) bool { return graceful && x.id > lastID }

	hviol := func() error {
		h.mu.Lock()
		defer h.mu.Unlock()
		if h.viol != "" {
			return fmt.Errorf("%s", h.viol)
		}
		if limit >= 0 && int64(h.maxRunning) > limit {
			return fmt.Errorf("%d application handlers were running at once; the server advertised SETTINGS_MAX_CONCURRENT_STREAMS=%d", h.maxRunning, limit)
		}
		return nil
	}

	// drain reads every frame the server has produced (waiting for quiescence) and
	// then evaluates the clauses that are decided at quiescence.
	readAll := func() error {
		for !connDead {
			f, err := s.read()
			if err != nil {
				connDead = true
				if err != io.EOF {
					r.Class("client-framer-error")
				}
				break
			}
			if f == nil {
				break
			}
			switch f := f.(type) {
			case *SettingsFrame:
				if f.IsAck() {
					settingsAcked++
					if settingsAcked > settingsSent {
						return fmt.Errorf("SETTINGS ACK #%d received, only %d SETTINGS frames were sent", settingsAcked, settingsSent)
					}
				} else {
					if v, ok := f.Value(SettingMaxConcurrentStreams); ok {
						limit = int64(v)
					}
					if v, ok := f.Value(SettingMaxHeaderListSize); ok {
						hdrLimit = int(v)
					}
					if c.AckFirst {
						s.fr.WriteSettingsAck()
					}
				}
			case *PingFrame:
				if !f.IsAck() {
					break // server-originated PING (not configured); nothing to check
				}
				var d uint64
				for i := 0; i < 8; i++ {
					d = d<<8 | uint64(f.Data[i])
				}
				found := -1
				for i, p := range pings {
					if p == d {
						found = i
						break
					}
				}
				if found < 0 {
					return fmt.Errorf("PING ACK with data %#x matches no outstanding PING (outstanding: %#x)", d, pings)
				}
				pings = append(pings[:found], pings[found+1:]...)
				if graceful {
					nPingGraceful++
				}
			case *MetaHeadersFrame, *DataFrame:
				id := f.Header().StreamID
				x := byID[id]
				if x == nil {
					break
				}
				what := "HEADERS"
				if _, ok := f.(*DataFrame); ok {
					what = "DATA"
				}
				switch {
				case x.srvEnded:
					return fmt.Errorf("%s on stream %d after the server sent END_STREAM on it", what, id)
				case x.srvReset:
					return fmt.Errorf("%s on stream %d after the server sent RST_STREAM on it", what, id)
				case x.cliReset:
					return fmt.Errorf("%s on stream %d after the server processed the client's RST_STREAM for it", what, id)
				}
				x.sawFrame = true
				if mh, ok := f.(*MetaHeadersFrame); ok {
					if st := mh.PseudoValue("status"); st != "" && x.status == "" {
						x.status = st
					}
					if mh.StreamEnded() {
						x.srvEnded = true
					}
				} else if f.(*DataFrame).StreamEnded() {
					x.srvEnded = true
				}
			case *RSTStreamFrame:
				if x := byID[f.StreamID]; x != nil && !x.srvReset {
					x.srvReset = true
					x.srvCode = f.ErrCode
				}
			case *GoAwayFrame:
				if f.ErrCode == ErrCodeNo {
					// graceful shutdown (RFC 9113 6.8): the connection keeps serving the
					// streams up to LastStreamID; newer ones are ignored
					if !graceful {
						graceful, lastID = true, f.LastStreamID
					}
				} else {
					connDead = true
				}
			}
		}
		return nil
	}
	drain := func() error {
		if err := readAll(); err != nil {
			return err
		}
		if err := hviol(); err != nil {
			return err
		}
		if !connDead && graceful && (len(pings) != 0 || settingsAcked != settingsSent) {
			// After a graceful GOAWAY the server may be on its way out without saying so
			// (a later connection error only changes its internal GOAWAY code; it then
			// drops frames and closes within goAwayTimeout = 1 s). Only a connection that
			// really closes is released from acknowledging.
			time.Sleep(5 * time.Second)
			synctest.Wait()
			if err := readAll(); err != nil {
				return err
			}
			if !connDead {
				nGraceWait++
			}
		}
		if connDead {
			pending = nil
			return nil
		}
		// quiescent, connection alive
		if len(pings) != 0 {
			return fmt.Errorf("PING with data %#x was not acknowledged although the connection is idle and alive", pings[0])
		}
		if settingsAcked != settingsSent {
			return fmt.Errorf("%d SETTINGS frames sent, %d SETTINGS ACKs received although the connection is idle and alive", settingsSent, settingsAcked)
		}
		if limit >= 0 {
			if cur := int64(s.sc.VPCurHandlers()); cur > limit {
				return fmt.Errorf("server runs %d handlers (white-box), advertised SETTINGS_MAX_CONCURRENT_STREAMS=%d", cur, limit)
			}
			for _, p := range pending {
				if ignored(p.y) {
					continue // opened after the server's graceful GOAWAY: ignored (RFC 9113 6.8)
				}
				certain := int64(0)
				for _, x := range p.cand {
					if !x.srvReset && !x.srvEnded && !x.cliReset && !ignored(x) {
						certain++
					}
				}
				if certain < limit {
					continue
				}
				p.y.mustRef = true
				nOver++
				if !p.y.srvReset {
					return fmt.Errorf("stream %d was opened while %d streams were open (advertised limit %d) and was not refused", p.y.id, certain, limit)
				}
				if p.y.srvCode != ErrCodeRefusedStream && p.y.srvCode != ErrCodeProtocol {
					return fmt.Errorf("stream %d over the advertised limit %d was reset with %v, want REFUSED_STREAM or PROTOCOL_ERROR", p.y.id, limit, p.y.srvCode)
				}
				if p.y.sawFrame {
					return fmt.Errorf("stream %d over the advertised limit %d got a response", p.y.id, limit)
				}
			}
		}
		pending = nil
		return nil
	}

	// preface
	if _, err := s.cli.Write([]byte(ClientPreface)); err != nil {
		return fmt.Errorf("harness: preface: %v", err)
	}
	settingsSent++
	if err := s.fr.WriteSettings(); err != nil {
		return fmt.Errorf("harness: settings: %v", err)
	}
	if err := drain(); err != nil {
		return err
	}
	if limit < 0 && !connDead {
		return fmt.Errorf("harness: server SETTINGS did not carry MAX_CONCURRENT_STREAMS")
	}

	pick := func(k int) *c15Stream {
		if len(streams) == 0 {
			return nil
		}
		if k < 0 {
			return streams[len(streams)-1]
		}
		return streams[k%len(streams)]
	}
	openStream := func(bad int, end bool) {
		x := &c15Stream{id: nextID, plan: len(streams), bad: bad}
		nextID += 2
		var cand []*c15Stream
		for _, o := range streams {
			if !o.cliReset {
				cand = append(cand, o)
			}
		}
		x.possOver = int64(len(cand)) >= limit
		x.cliEnded = end
		streams = append(streams, x)
		byID[x.id] = x
		pending = append(pending, pendOpen{x, cand})
		path := "/" + strconv.Itoa(x.plan)
		var block []byte
		switch {
		case bad < 0:
			block = s.reqHeaders("POST", path)
		case bad == c15BigKind || bad == c15BigKind+1:
			// Header list larger than the advertised SETTINGS_MAX_HEADER_LIST_SIZE L, kept
			// inside what the server still parses (a fragment longer than twice the
			// remaining budget is a connection error): the pseudo-headers and a first
			// field of 0.6 L fit, the second field does not.
			L := hdrLimit
			if L < 1000 || L > 1<<16 {
				L = 1344
			}
			kv := []string{":method", "POST", ":scheme", "https", ":authority", "dummy.tld", ":path", path}
			used := 0
			for i := 0; i+1 < len(kv); i += 2 {
				used += len(kv[i]) + len(kv[i+1]) + 32
			}
			v1 := L * 6 / 10
			used += len("x-big-a") + v1 + 32
			kv = append(kv, "x-big-a", strings.Repeat("a", v1))
			if bad == c15BigKind {
				kv = append(kv, "x-big-b", strings.Repeat("a", v1))
				block = s.encode(kv...)
				break
			}
			// second field in a CONTINUATION frame: just larger than what is left
			rest := L - used
			if rest < 16 {
				rest = 16
			}
			b1 := s.encode(kv...)
			b2 := s.encode("x-big-b", strings.Repeat("a", rest+16))
			s.fr.WriteHeaders(HeadersFrameParam{StreamID: x.id, BlockFragment: b1, EndStream: end, EndHeaders: false})
			s.fr.WriteContinuation(x.id, true, b2)
			return
		default:
			block = s.encode(c15BadFields(bad, path)...)
		}
		s.fr.WriteHeaders(HeadersFrameParam{StreamID: x.id, BlockFragment: block, EndStream: end, EndHeaders: true})
	}

	usedNoDrain := false
	for _, st := range c.Steps {
		if connDead {
			break
		}
		switch st.Kind {
		case "open":
			openStream(-1, st.End)
		case "bad":
			openStream(st.Op, st.End)
		case "data":
			x := pick(st.K)
			if x == nil {
				continue
			}
			x.touched = true
			if st.End {
				x.cliEnded = true
			}
			s.fr.WriteData(x.id, st.End, make([]byte, st.V))
		case "rst":
			x := pick(st.K)
			if x == nil {
				continue
			}
			// frames already in the pipe were produced before the reset: read them first
			if err := drain(); err != nil {
				return err
			}
			if connDead {
				continue
			}
			if x.bad < 0 && !x.srvReset && !x.srvEnded && !x.cliReset {
				h.mu.Lock()
				if h.started[x.plan] > h.finished[x.plan] {
					nResetRunning++
				} else if h.started[x.plan] == 0 {
					nResetQueued++
				}
				h.mu.Unlock()
			}
			x.touched = true
			s.fr.WriteRSTStream(x.id, ErrCode(st.V))
			x.cliReset = true // the write waited for quiescence: the server has processed it
		case "ping":
			var d [8]byte
			for i := 0; i < 8; i++ {
				d[i] = byte(st.Ping >> (56 - 8*i))
			}
			if st.Op == 0 {
				pings = append(pings, st.Ping)
			}
			s.fr.WritePing(st.Op == 1, d)
		case "settings":
			settingsSent++
			switch st.Op {
			case 0:
				s.fr.WriteSettings()
			case 1:
				s.fr.WriteSettings(Setting{SettingInitialWindowSize, st.V})
			case 2:
				s.fr.WriteSettings(Setting{SettingMaxFrameSize, 16384 + st.V})
			case 3:
				s.fr.WriteSettings(Setting{SettingHeaderTableSize, st.V})
			case 4:
				s.fr.WriteSettings(Setting{SettingMaxConcurrentStreams, st.V}, Setting{SettingEnablePush, 0})
			case 5:
				s.fr.WriteSettings(Setting{SettingMaxHeaderListSize, st.V}, Setting{SettingInitialWindowSize, 65535})
			case 6:
				s.fr.WriteSettings(Setting{SettingID(0x99), st.V}) // unknown setting: must be ignored
			case 7:
				s.fr.WriteSettings(Setting{SettingEnablePush, st.V}) // invalid unless 0/1: connection error
			}
		case "ack":
			s.fr.WriteSettingsAck()
		case "goaway": // client GOAWAY: the server starts a graceful shutdown
			s.fr.WriteGoAway(0, ErrCode(st.V), nil)
		case "shutdown": // server-initiated graceful shutdown (as http.Server.Shutdown does)
			s.sc.VPSrvStartGracefulShutdown()
			synctest.Wait()
		case "h":
			if nplans == 0 {
				continue
			}
			k := st.K % nplans
			if st.K < 0 {
				if len(streams) == 0 {
					continue
				}
				k = len(streams) - 1
			}
			h.ctl[k] <- c15Cmd{op: st.Op, n: int(st.V)}
			synctest.Wait()
		case "wu":
			if st.Op == 1 {
				s.fr.WriteWindowUpdate(0, st.V)
			} else if x := pick(st.K); x != nil {
				x.touched = true
				s.fr.WriteWindowUpdate(x.id, st.V)
			}
		case "prio":
			x, d := pick(st.K), pick(int(st.V))
			if x == nil {
				continue
			}
			x.touched = true
			s.fr.WritePriority(x.id, PriorityParam{StreamDep: d.id, Exclusive: st.End, Weight: uint8(st.Op)})
		case "trailers":
			x := pick(st.K)
			if x == nil {
				continue
			}
			x.touched = true
			if st.End {
				x.cliEnded = true
			}
			s.fr.WriteHeaders(HeadersFrameParam{StreamID: x.id, BlockFragment: s.encode("x-vp-trailer", "1"), EndStream: st.End, EndHeaders: true})
		}
		if st.NoDrain {
			usedNoDrain = true
			continue
		}
		if err := drain(); err != nil {
			return err
		}
	}
	if err := drain(); err != nil {
		return err
	}

	// End of script: let every handler return (queued server-generated responses get
	// their slot), give connection credit, and decide the "malformed request is
	// rejected" clause.
	close(h.quit)
	quitClosed = true
	synctest.Wait()
	if err := drain(); err != nil {
		return err
	}
	if err := hviol(); err != nil {
		return err
	}
	if graceful && !connDead {
		// A server in graceful shutdown may be about to close (all streams done, or a
		// silent switch to an error shutdown, see drain): responses are owed only by a
		// connection that is still up after its close timer would have fired.
		time.Sleep(5 * time.Second)
		synctest.Wait()
		if err := drain(); err != nil {
			return err
		}
	}
	h.mu.Lock()
	started := append([]int(nil), h.started...)
	h.mu.Unlock()
	nBadRst, nBad4xx, n431 := 0, 0, 0
	for _, x := range streams {
		if x.mustRef && started[x.plan] != 0 {
			return fmt.Errorf("stream %d over the advertised limit reached the handler", x.id)
		}
		if x.bad < 0 {
			continue
		}
		if started[x.plan] != 0 {
			return fmt.Errorf("malformed request (%s) on stream %d reached the application handler", c15BadNames[x.bad], x.id)
		}
		if len(x.status) == 3 && x.status[0] != '4' {
			return fmt.Errorf("malformed request (%s) on stream %d was answered with status %s", c15BadNames[x.bad], x.id, x.status)
		}
		if connDead || x.touched || ignored(x) {
			continue
		}
		switch {
		case x.srvReset && !x.sawFrame && (x.srvCode == ErrCodeProtocol || (x.possOver && x.srvCode == ErrCodeRefusedStream)):
			nBadRst++
		case len(x.status) == 3 && x.status[0] == '4':
			nBad4xx++
			if x.status == "431" {
				n431++
			}
		default:
			return fmt.Errorf("malformed request (%s) on stream %d was not rejected: RST_STREAM seen=%v code=%v, response status=%q", c15BadNames[x.bad], x.id, x.srvReset, x.srvCode, x.status)
		}
	}

	// classes
	r.Classf("limit-%d", c.MaxStreams)
	if c.Aim != "" {
		r.Class("aim:" + c.Aim)
	}
	r.Classf("sched-%d", c.Sched)
	if c.ReadBuf > 0 {
		r.Class("bounded-read-buffer")
	}
	if usedNoDrain {
		r.Class("nodrain-step")
	}
	if connDead {
		r.Class("conn-ended-early")
	}
	if nOver > 0 {
		r.Class("over-limit-refused")
	}
	if graceful {
		r.Class("graceful-goaway")
	}
	if nPingGraceful > 0 {
		r.Class("ping-acked-after-graceful-goaway")
	}
	if nGraceWait > 0 {
		r.Class("waited-after-graceful-goaway")
	}
	if nResetRunning > 0 {
		r.Class("reset-running-handler")
	}
	if nResetQueued > 0 {
		r.Class("reset-queued-handler")
	}
	if nBadRst > 0 {
		r.Class("malformed-rst")
	}
	if nBad4xx > 0 {
		r.Class("malformed-4xx")
	}
	if n431 > 0 {
		r.Class("header-list-too-long-431")
	}
	if settingsSent > 1 {
		r.Class("settings-acked")
	}
	if nOver > 0 && nResetRunning+nResetQueued > 0 {
		r.NonTrivial()
	}
	return nil
}

func TestVP_C15(t *testing.T) {
	vp.Run(t, vp.Spec[c15Case]{ID: "C15", CrashFile: true, Gen: c15Gen, Prop: func(c c15Case, r *vp.Rec) error {
		var inner error
		err := vpBubble(t, func() error { inner = c15Run(c, r); return inner })
		if err != nil && inner != nil && err != inner {
			return fmt.Errorf("%v (and then: %v)", inner, err)
		}
		return err
	}})
}
