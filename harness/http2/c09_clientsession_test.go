package http2_test

// Shared HTTP/2 client-session harness (used by C09 and the client halves of C10, C11).
//
// A session is a real http2.Transport driving one in-memory connection inside a
// testing/synctest bubble; the harness plays the server with a Framer. Nothing here
// calls t.Fatal: problems are returned as errors. The mirror image of vpSrv in
// c08_srvsession_test.go.

import (
	"bytes"
	"context"
	"errors"
	"fmt"
	"io"
	"net/http"
	"os"
	"sync"
	"testing/synctest"
	"time"

	. "golang.org/x/net/http2"
	"golang.org/x/net/http2/hpack"
)

type vpCliOpts struct {
	RecvPerConn   int32  // Transport's connection receive buffer (0 = default 1<<30)
	RecvPerStream int32  // Transport's per-stream receive window (0 = default 4<<20)
	MaxReadFrame  uint32 // Transport.MaxReadFrameSize (0 = default)
}

type vpCli struct {
	nc   *synctestNetConn // fake server's end
	tnc  *synctestNetConn // Transport's end
	fr   *Framer
	enc  *hpack.Encoder
	hbuf bytes.Buffer
	tr   *Transport
	cc   *ClientConn
	rts  []*vpRT

	// what the Transport advertised in its connection preface
	advInitWin  int64 // its SETTINGS_INITIAL_WINDOW_SIZE (65535 if absent)
	advConnWin  int64 // 65535 + initial connection WINDOW_UPDATE
	advMaxFrame int64 // its SETTINGS_MAX_FRAME_SIZE (16384 if absent)
}

// vpRT is one RoundTrip in flight.
type vpRT struct {
	cancel context.CancelFunc
	donec  chan struct{}
	mu     sync.Mutex
	id     uint32
	resp   *http.Response
	err    error
}

// vpNewCli creates a Transport and a client connection whose peer is the harness, and
// consumes the client preface, initial SETTINGS and WINDOW_UPDATE. It does not send
// the server's SETTINGS. Must be called inside a bubble.
func vpNewCli(o vpCliOpts) (*vpCli, error) {
	tr := &Transport{AllowHTTP: true, DisableCompression: true, MaxReadFrameSize: o.MaxReadFrame}
	t1 := tr.TestTransport()
	t1.HTTP2 = &http.HTTP2Config{
		MaxReceiveBufferPerConnection: int(o.RecvPerConn),
		MaxReceiveBufferPerStream:     int(o.RecvPerStream),
	}
	srv, cli := synctestNetPipe()
	srv.SetReadDeadline(time.Now())
	srv.autoWait = true
	c := &vpCli{nc: srv, tnc: cli, tr: tr, advInitWin: 65535, advConnWin: 65535, advMaxFrame: 16384}
	c.enc = hpack.NewEncoder(&c.hbuf)
	cc, err := tr.TestNewClientConn(cli, false, nil)
	if err != nil {
		return nil, fmt.Errorf("harness: newClientConn: %v", err)
	}
	c.cc = cc
	c.fr = NewFramer(srv, srv)
	c.fr.SetMaxReadFrameSize(1<<24 - 1)
	synctest.Wait()
	buf := make([]byte, len(ClientPreface))
	if _, err := io.ReadFull(srv, buf); err != nil || string(buf) != ClientPreface {
		return nil, fmt.Errorf("harness: bad client preface %q: %v", buf, err)
	}
	f, err := c.read()
	sf, ok := f.(*SettingsFrame)
	if err != nil || !ok || sf.IsAck() {
		return nil, fmt.Errorf("harness: first client frame is %T (%v), want SETTINGS", f, err)
	}
	if v, ok := sf.Value(SettingInitialWindowSize); ok {
		c.advInitWin = int64(v)
	}
	if v, ok := sf.Value(SettingMaxFrameSize); ok {
		c.advMaxFrame = int64(v)
	}
	f, err = c.read()
	if wu, ok := f.(*WindowUpdateFrame); err == nil && ok && wu.StreamID == 0 {
		c.advConnWin += int64(wu.Increment)
	} else {
		return nil, fmt.Errorf("harness: second client frame is %T (%v), want connection WINDOW_UPDATE", f, err)
	}
	return c, nil
}

// read returns the next frame the Transport wrote, nil when the connection is idle,
// or (nil, err) when it is closed. Frame contents are only valid until the next read.
func (c *vpCli) read() (Frame, error) {
	f, err := c.fr.ReadFrame()
	if err == os.ErrDeadlineExceeded || err == errWouldBlock {
		return nil, nil
	}
	if err != nil {
		return nil, err
	}
	return f, nil
}

func (c *vpCli) encode(kv ...string) []byte {
	c.hbuf.Reset()
	for i := 0; i+1 < len(kv); i += 2 {
		c.enc.WriteField(hpack.HeaderField{Name: kv[i], Value: kv[i+1]})
	}
	return append([]byte(nil), c.hbuf.Bytes()...)
}

// respHeaders writes a response HEADERS frame.
func (c *vpCli) respHeaders(id uint32, endStream bool, kv ...string) error {
	return c.fr.WriteHeaders(HeadersFrameParam{StreamID: id, BlockFragment: c.encode(kv...), EndStream: endStream, EndHeaders: true})
}

// roundTrip starts RoundTrip on the connection and waits for quiescence.
func (c *vpCli) roundTrip(req *http.Request) *vpRT {
	ctx, cancel := context.WithCancel(req.Context())
	req = req.WithContext(ctx)
	rt := &vpRT{cancel: cancel, donec: make(chan struct{})}
	go func() {
		defer close(rt.donec)
		resp, err := c.cc.TestRoundTrip(req, func(id uint32) {
			rt.mu.Lock()
			rt.id = id
			rt.mu.Unlock()
		})
		rt.mu.Lock()
		rt.resp, rt.err = resp, err
		rt.mu.Unlock()
	}()
	c.rts = append(c.rts, rt)
	synctest.Wait()
	return rt
}

// streamID returns the stream ID assigned to the request (0 if none yet).
func (rt *vpRT) streamID() uint32 {
	rt.mu.Lock()
	defer rt.mu.Unlock()
	return rt.id
}

// result returns RoundTrip's result if it has returned.
func (rt *vpRT) result() (resp *http.Response, err error, done bool) {
	select {
	case <-rt.donec:
	default:
		return nil, nil, false
	}
	rt.mu.Lock()
	defer rt.mu.Unlock()
	return rt.resp, rt.err, true
}

// shutdown ends the session: cancels requests, closes response bodies and the
// connection, so that every goroutine of the bubble can exit.
func (c *vpCli) shutdown() {
	for _, rt := range c.rts {
		rt.cancel()
	}
	c.nc.Close()
	synctest.Wait()
	for _, rt := range c.rts {
		// Response bodies are not closed here: the connection is gone, so pending
		// Reads fail, and a second Close would refund credit again.
		<-rt.donec
	}
	c.cc.Close()
	c.tr.CloseIdleConnections()
	synctest.Wait()
}

// vpGuard runs f and turns a panic on this goroutine into an error.
func vpGuard(f func() error) (err error) {
	defer func() {
		if p := recover(); p != nil {
			err = fmt.Errorf("panic: %v", p)
		}
	}()
	return f()
}

// vpReqBody is a request body the harness feeds incrementally.
type vpReqBody struct {
	mu          sync.Mutex
	cond        *sync.Cond
	plan        int
	off         int // bytes handed to the Transport so far
	avail       int // fed but not yet read
	eof         bool
	closed      bool
	eofWithData bool          // report io.EOF together with the final bytes
	closeDelay  time.Duration // Close takes this long (fake time)
}

func vpNewReqBody(plan int, eofWithData bool) *vpReqBody {
	b := &vpReqBody{plan: plan, eofWithData: eofWithData}
	b.cond = sync.NewCond(&b.mu)
	return b
}

var errVPBodyClosed = errors.New("vp: request body closed")

func (b *vpReqBody) Read(p []byte) (int, error) {
	b.mu.Lock()
	defer b.mu.Unlock()
	for b.avail == 0 && !b.eof && !b.closed {
		b.cond.Wait()
	}
	if b.closed {
		return 0, errVPBodyClosed
	}
	n := len(p)
	if n > b.avail {
		n = b.avail
	}
	for i := 0; i < n; i++ {
		p[i] = vpPattern(b.plan, b.off+i)
	}
	b.off += n
	b.avail -= n
	if b.avail == 0 && b.eof && (n == 0 || b.eofWithData) {
		return n, io.EOF
	}
	return n, nil
}

func (b *vpReqBody) Close() error {
	b.mu.Lock()
	b.closed = true
	b.cond.Broadcast()
	b.mu.Unlock()
	if b.closeDelay > 0 {
		time.Sleep(b.closeDelay)
	}
	return nil
}

// feed makes n more bytes readable, then (if eof) ends the body; waits for quiescence.
func (b *vpReqBody) feed(n int, eof bool) {
	b.mu.Lock()
	b.avail += n
	if eof {
		b.eof = true
	}
	b.cond.Broadcast()
	b.mu.Unlock()
	synctest.Wait()
}

// vpWin is the peer's (permissive) view of a limit that SETTINGS can change: a change
// that restricts counts from its ACK, one that permits more from when it was sent.
// The value in force is the maximum of the last acknowledged value and all values
// still in flight.
type vpWin struct {
	acked  int64
	flight [][2]int64 // per unacknowledged SETTINGS frame: {present(0/1), value}
}

func (w *vpWin) eff() int64 {
	m := w.acked
	for _, f := range w.flight {
		if f[0] == 1 && f[1] > m {
			m = f[1]
		}
	}
	return m
}

// sent records a SETTINGS frame (has=false: the frame does not carry this setting).
func (w *vpWin) sent(has bool, v int64) {
	if has {
		w.flight = append(w.flight, [2]int64{1, v})
	} else {
		w.flight = append(w.flight, [2]int64{0, 0})
	}
}

// ack records the acknowledgement of the oldest SETTINGS frame in flight.
func (w *vpWin) ack() bool {
	if len(w.flight) == 0 {
		return false
	}
	if w.flight[0][0] == 1 {
		w.acked = w.flight[0][1]
	}
	w.flight = w.flight[1:]
	return true
}
