package http2

// C12, long histories: "any history" includes one of millions of calls. Each scheduler
// serves a stream whose parent is open and has nothing to send, one small DATA frame
// at a time, for more than 2^21 rounds (internal counters that grow per Pop, such as the
// RFC 7540 scheduler's write-throttle limit, pass every int32 boundary on the way).
// Every Pop must deliver exactly the frame that was pushed: a sendable frame is queued
// and nothing else is.

import (
	"fmt"
	"math"
	"testing"

	"verif/vp"
)

type c12MaraCase struct {
	Sched  string `json:"sched"`
	Rounds int    `json:"rounds"`
	Size   int    `json:"size"` // DATA payload per round
}

func c12MaraRun(c c12MaraCase) error {
	mk := c12Scheds[c.Sched]
	if mk == nil || c.Rounds < 0 || c.Rounds > 1<<23 || c.Size < 1 || c.Size > 256 {
		return fmt.Errorf("harness: malformed marathon case")
	}
	ws := mk()
	sc := &serverConn{maxFrameSize: 16384}
	sc.flow.add(math.MaxInt32)
	newStream := func(id uint32) *stream {
		st := &stream{sc: sc, id: id}
		st.flow.conn = &sc.flow
		st.flow.add(math.MaxInt32)
		ws.OpenStream(id, OpenStreamOptions{})
		return st
	}
	newStream(1) // the parent: open, never has anything to send
	child := newStream(3)
	ws.AdjustStream(3, PriorityParam{StreamDep: 1, Weight: 15})
	payload := make([]byte, c.Size)
	left := int64(math.MaxInt32)
	for i := 0; i < c.Rounds; i++ {
		if left < int64(c.Size) {
			// windows used up: top both up again (as WINDOW_UPDATE frames do)
			inc := int32(math.MaxInt32 - left)
			if !child.flow.add(inc) || !sc.flow.add(inc) {
				return fmt.Errorf("harness: window top-up failed in round %d", i)
			}
			left = math.MaxInt32
		}
		for j := range payload {
			payload[j] = byte(i + j)
		}
		ws.Push(FrameWriteRequest{write: &writeData{streamID: 3, p: payload}, stream: child})
		wr, ok := ws.Pop()
		if !ok {
			return fmt.Errorf("round %d: Pop reported nothing to send although stream 3 has a sendable %d-byte DATA frame queued (stream and connection window %d)", i, c.Size, left)
		}
		wd, isData := wr.write.(*writeData)
		if !isData || wr.StreamID() != 3 || len(wd.p) != c.Size || wd.endStream || wd.p[0] != byte(i) {
			return fmt.Errorf("round %d: Pop returned %v, the only queued frame is a %d-byte DATA frame of stream 3", i, wr, c.Size)
		}
		// what serverConn.writeFrame does for a DATA frame it got from Pop
		left -= int64(c.Size)
		if wr, ok := ws.Pop(); ok {
			return fmt.Errorf("round %d: a second Pop returned %v with nothing queued", i, wr)
		}
	}
	return nil
}

func TestVP_C12_marathon(t *testing.T) {
	vp.RunEnum(t, "C12", "marathon", true, func(e *vp.Enum) {
		rounds := 1<<21 + 1<<12
		for _, sched := range []string{"rfc7540-small-throttle", "rfc7540", "rfc9218", "roundrobin", "random"} {
			c := c12MaraCase{Sched: sched, Rounds: rounds, Size: 1}
			if err := c12MaraRun(c); err != nil {
				e.Fail(c, err)
				return
			}
			e.Eval(true, "marathon:"+sched, func() any { return c })
		}
		e.Note(fmt.Sprintf("every scheduler: %d consecutive Push/Pop rounds on a stream that depends on an open idle parent", rounds))
	})
}
