package http2

// Shared by C12 and C13 (listed in props/C13.json "files"): an interpreter that
// drives a WriteScheduler with a generated history the way serverConn does, next to a
// reference model (per-stream FIFOs of tagged frames, flow windows, RFC 9218
// priorities). Every Pop is compared with the model.

import (
	"bytes"
	"errors"
	"fmt"
	"sort"
	"strings"

	"pgregory.net/rapid"
	"verif/vp"
)

// c12Op is one step of a history. Streams are addressed by selectors, not ids, so
// that every generated (and every shrunk) history respects the WriteScheduler
// contract: the interpreter resolves a selector against the model state (ids of
// new streams increase per parity as in serverConn; only open streams are closed
// or get stream frames; ...).
type c12Op struct {
	K string `json:"k"` // open close adj push pop popc swnd cwnd mfs

	Sel    int  `json:"sel,omitempty"`    // which open stream / which known id
	Pushed bool `json:"pushed,omitempty"` // open: server push (even id, PusherID = open stream Sel)
	Gap    int  `json:"gap,omitempty"`    // open: skip Gap ids of that parity

	// priority (open: RFC 9218 part only; adj: all)
	DepSel int    `json:"dep,omitempty"` // adj: 0 = root, else known id number DepSel-1
	Excl   bool   `json:"excl,omitempty"`
	W      uint8  `json:"w,omitempty"`
	U      uint8  `json:"u,omitempty"`
	I      uint8  `json:"i,omitempty"`
	Field  string `json:"field,omitempty"` // adj: Priority field value to run through parseRFC9218Priority; U/I hold the expected result

	F    string `json:"f,omitempty"`    // push: data headers cont100 swu panicrst pp | ping pingack cwu settings rst
	N    int    `json:"n,omitempty"`    // push data: payload length; pop: repeat count; popc: rounds
	Ctl  int    `json:"ctl,omitempty"`  // popc: control frames pushed before each stream-frame Pop
	End  bool   `json:"end,omitempty"`  // push data/headers: END_STREAM
	Done bool   `json:"done,omitempty"` // push: request carries a done channel

	D int32 `json:"d,omitempty"` // swnd/cwnd: delta; mfs: new max frame size
}

type c12Case struct {
	Sched   string `json:"sched"`
	InitWnd int32  `json:"init_wnd"` // initial stream send window
	ConnWnd int32  `json:"conn_wnd"`
	MFS     int32  `json:"mfs"`
	// DrainCtl > 0: during the final drain, DrainCtl control frames (PING acks) are
	// pushed before every Pop that is expected to deliver a stream frame, as a server
	// answering PINGs / sending WINDOW_UPDATEs while it writes responses does.
	DrainCtl int     `json:"drain_ctl,omitempty"`
	Ops      []c12Op `json:"ops"`
}

var c12Scheds = map[string]func() WriteScheduler{
	"random":     func() WriteScheduler { return NewRandomWriteScheduler() },
	"roundrobin": func() WriteScheduler { return newRoundRobinWriteScheduler() },
	"rfc7540":    func() WriteScheduler { return NewPriorityWriteScheduler(nil) },
	"rfc7540-noretain": func() WriteScheduler {
		return NewPriorityWriteScheduler(&PriorityWriteSchedulerConfig{})
	},
	"rfc7540-small-throttle": func() WriteScheduler {
		return NewPriorityWriteScheduler(&PriorityWriteSchedulerConfig{MaxClosedNodesInTree: 2, MaxIdleNodesInTree: 2, ThrottleOutOfOrderWrites: true})
	},
	"rfc9218": func() WriteScheduler { return newPriorityWriteSchedulerRFC9218() },
}

type c12Frame struct {
	tag  int
	kind string
	wr   FrameWriteRequest // exactly what was pushed
	data []byte            // DATA payload as pushed
	off  int               // bytes of it already popped
	end  bool
	rst  bool
}

func (f *c12Frame) isData() bool { return f.kind == "data" }

func (f *c12Frame) String() string {
	if f.isData() {
		return fmt.Sprintf("#%d data[%d/%d end=%v]", f.tag, f.off, len(f.data), f.end)
	}
	return fmt.Sprintf("#%d %s", f.tag, f.kind)
}

type c12Stream struct {
	id   uint32
	st   *stream
	open bool
	q    []*c12Frame
	wnd  int32
	u, i uint8 // RFC 9218 priority according to the model
}

// c12Popped describes one verified Pop.
type c12Popped struct {
	ok      bool
	control bool
	s       *c12Stream // stream served (nil for control / !ok)
	piece   bool       // a DATA frame was split
}

type c12World struct {
	c   c12Case
	ws  WriteScheduler
	sc  *serverConn
	rec *vp.Rec

	streams  map[uint32]*c12Stream // every stream ever opened
	openIDs  []uint32              // ascending
	everIDs  []uint32              // ascending
	nextOdd  uint32
	nextEven uint32
	control  []*c12Frame
	connWnd  int32
	tag      int
	trace    []string

	// RFC 9218 one-slot PRIORITY_UPDATE buffer, as documented
	bufID      uint32
	bufU, bufI uint8
	lost       map[uint32]bool // ids whose buffered update was overwritten before they were opened

	// mirror of the RFC 7540 scheduler's idle-node retention list (ids), used only for
	// the class counters "open of a retained idle node" / "idle node evicted"
	maxIdle   int
	maxSeenID uint32
	idleList  []uint32
	keepMFS   bool // drain with the current max frame size (C13: many pieces)

	closedQueued   bool // some stream was closed with frames queued
	poppedAfterCQ  bool
	split          bool
	stepsPerformed int

	// hooks for C13
	prePop  func(w *c12World)
	postPop func(w *c12World, p c12Popped) error
	onMoved func(w *c12World, s *c12Stream) // stream closed or re-prioritised
}

func c12NewWorld(c c12Case, rec *vp.Rec) (*c12World, error) {
	mk := c12Scheds[c.Sched]
	if mk == nil {
		return nil, fmt.Errorf("unknown scheduler %q", c.Sched)
	}
	mfs := c.MFS
	if mfs < 1 {
		mfs = 1
	}
	w := &c12World{c: c, ws: mk(), sc: &serverConn{maxFrameSize: mfs}, rec: rec,
		streams: map[uint32]*c12Stream{}, nextOdd: 1, nextEven: 2, lost: map[uint32]bool{}}
	w.sc.flow.add(c.ConnWnd)
	w.connWnd = c.ConnWnd
	switch c.Sched {
	case "rfc7540":
		w.maxIdle = 10
	case "rfc7540-small-throttle":
		w.maxIdle = 2
	}
	return w, nil
}

func (w *c12World) logf(format string, a ...any) {
	w.trace = append(w.trace, fmt.Sprintf(format, a...))
}

func (w *c12World) errf(format string, a ...any) error {
	tr := w.trace
	if len(tr) > 80 {
		tr = tr[len(tr)-80:]
	}
	return fmt.Errorf("[%s] %s\n  calls: %s", w.c.Sched, fmt.Sprintf(format, a...), strings.Join(tr, "; "))
}

// known ids an AdjustStream / RST_STREAM may name: every stream ever opened (open or
// closed) plus a few idle ones above the highest used id.
func (w *c12World) knownIDs() []uint32 {
	ids := append([]uint32(nil), w.everIDs...)
	ids = append(ids, w.nextOdd, w.nextOdd+2, w.nextOdd+4, w.nextEven)
	return ids
}

func c12InsertSorted(s []uint32, v uint32) []uint32 {
	i := sort.Search(len(s), func(i int) bool { return s[i] >= v })
	s = append(s, 0)
	copy(s[i+1:], s[i:])
	s[i] = v
	return s
}

func c12Remove(s []uint32, v uint32) []uint32 {
	for i, x := range s {
		if x == v {
			return append(s[:i:i], s[i+1:]...)
		}
	}
	return s
}

func (w *c12World) sendable(s *c12Stream) bool {
	if !s.open || len(s.q) == 0 {
		return false
	}
	f := s.q[0]
	if !f.isData() || len(f.data)-f.off == 0 {
		return true
	}
	return s.wnd > 0 && w.connWnd > 0 && w.sc.maxFrameSize > 0
}

func (w *c12World) openStreams() []*c12Stream {
	out := make([]*c12Stream, 0, len(w.openIDs))
	for _, id := range w.openIDs {
		out = append(out, w.streams[id])
	}
	return out
}

func c12Payload(tag, n int) []byte {
	p := make([]byte, n)
	for i := range p {
		p[i] = byte(tag*37 + i*11 + 1)
	}
	return p
}

// c12Same reports whether got is the writer that was pushed as want.
func c12Same(got, want writeFramer) bool {
	switch wv := want.(type) {
	case *writeData:
		g, ok := got.(*writeData)
		return ok && g == wv
	case *writeResHeaders:
		g, ok := got.(*writeResHeaders)
		return ok && g == wv
	case *writePushPromise:
		g, ok := got.(*writePushPromise)
		return ok && g == wv
	case *writePing:
		g, ok := got.(*writePing)
		return ok && g == wv
	case write100ContinueHeadersFrame:
		g, ok := got.(write100ContinueHeadersFrame)
		return ok && g == wv
	case writeWindowUpdate:
		g, ok := got.(writeWindowUpdate)
		return ok && g == wv
	case handlerPanicRST:
		g, ok := got.(handlerPanicRST)
		return ok && g == wv
	case writePingAck:
		g, ok := got.(writePingAck)
		return ok && g.pf == wv.pf
	case writeSettings:
		g, ok := got.(writeSettings)
		return ok && len(g) == len(wv) && len(g) == 1 && g[0] == wv[0]
	case StreamError:
		g, ok := got.(StreamError)
		return ok && g.StreamID == wv.StreamID && g.Code == wv.Code && g.Cause == nil
	}
	return false
}

var errC12Skip = errors.New("op not applicable in this state")

func (w *c12World) apply(op c12Op) (err error) {
	// A panic inside the scheduler is reported with a deterministic message (no
	// stack addresses), otherwise rapid cannot shrink the history.
	defer func() {
		if p := recover(); p != nil {
			err = w.errf("scheduler panicked: %v", p)
		}
	}()
	err = w.apply1(op)
	if err == errC12Skip {
		w.rec.Class("op-skipped")
		return nil
	}
	if err == nil {
		w.stepsPerformed++
	}
	return err
}

func (w *c12World) apply1(op c12Op) error {
	switch op.K {
	case "open":
		var id, pusher uint32
		if op.Pushed && len(w.openIDs) > 0 {
			pusher = w.openIDs[op.Sel%len(w.openIDs)]
			id = w.nextEven + 2*uint32(op.Gap)
			w.nextEven = id + 2
		} else {
			id = w.nextOdd + 2*uint32(op.Gap)
			w.nextOdd = id + 2
		}
		s := &c12Stream{id: id, open: true, wnd: w.c.InitWnd, u: op.U & 7, i: op.I & 1}
		s.st = &stream{sc: w.sc, id: id}
		s.st.flow.conn = &w.sc.flow
		s.st.flow.add(w.c.InitWnd)
		w.logf("Open(%d pusher=%d u=%d i=%d)", id, pusher, s.u, s.i)
		if id > w.maxSeenID {
			w.maxSeenID = id
		}
		for _, x := range w.idleList {
			if x == id {
				w.rec.Class("7540-open-of-retained-idle-node")
				w.idleList = c12Remove(w.idleList, id)
				break
			}
		}
		w.ws.OpenStream(id, OpenStreamOptions{PusherID: pusher, priority: PriorityParam{urgency: s.u, incremental: s.i}})
		if w.bufID == id {
			s.u, s.i = w.bufU, w.bufI
			w.bufID = 0
			w.rec.Class("9218-buffered-update-applied-at-open")
		}
		if w.lost[id] {
			// more than one PRIORITY_UPDATE was outstanding for unopened streams; which
			// one a one-slot buffer keeps is the implementation's choice: read it back.
			if ws, ok := w.ws.(*priorityWriteSchedulerRFC9218); ok {
				p := ws.streams[id].priority
				s.u, s.i = p.urgency, p.incremental
			}
			w.rec.Class("9218-ambiguous-buffered-update")
		}
		w.streams[id] = s
		w.openIDs = c12InsertSorted(w.openIDs, id)
		w.everIDs = c12InsertSorted(w.everIDs, id)
		if pusher != 0 {
			w.rec.Class("open-pushed")
		}
	case "close":
		if len(w.openIDs) == 0 {
			return errC12Skip
		}
		id := w.openIDs[op.Sel%len(w.openIDs)]
		s := w.streams[id]
		w.logf("Close(%d queued=%d)", id, len(s.q))
		w.ws.CloseStream(id)
		if len(s.q) > 0 {
			w.closedQueued = true
			w.rec.Class("close-with-queued-frames")
		} else {
			w.rec.Class("close-empty")
		}
		s.q = nil
		s.open = false
		w.openIDs = c12Remove(w.openIDs, id)
		if w.onMoved != nil {
			w.onMoved(w, s)
		}
	case "adj":
		ids := w.knownIDs()
		id := ids[op.Sel%len(ids)]
		var dep uint32
		if op.DepSel > 0 {
			dep = ids[(op.DepSel-1)%len(ids)]
		}
		if dep == id {
			dep = 0 // serverConn.checkPriority rejects self-dependencies before the scheduler sees them
		}
		p := PriorityParam{StreamDep: dep, Exclusive: op.Excl, Weight: op.W, urgency: op.U & 7, incremental: op.I & 1}
		if op.Field != "" {
			pp, ok := parseRFC9218Priority(op.Field, true)
			if !ok {
				return w.errf("parseRFC9218Priority(%q) rejected a well-formed field", op.Field)
			}
			if pp.urgency > 7 || pp.incremental > 1 {
				return w.errf("parseRFC9218Priority(%q) = u=%d i=%d out of range", op.Field, pp.urgency, pp.incremental)
			}
			p.urgency, p.incremental = pp.urgency, pp.incremental
			w.rec.Class("adjust-via-priority-field")
		}
		s := w.streams[id]
		switch {
		case s != nil && s.open:
			w.rec.Class("adjust-open")
		case s != nil:
			w.rec.Class("adjust-closed")
		default:
			w.rec.Class("adjust-idle")
		}
		w.logf("Adjust(%d dep=%d excl=%v w=%d u=%d i=%d)", id, dep, op.Excl, op.W, p.urgency, p.incremental)
		if w.maxIdle > 0 && id > w.maxSeenID {
			// the RFC 7540 scheduler creates an idle node and retains at most maxIdle of them
			w.maxSeenID = id
			if len(w.idleList) == w.maxIdle {
				w.rec.Class("7540-idle-node-evicted")
				w.idleList = append(w.idleList[:0:0], w.idleList[1:]...)
			}
			w.idleList = append(w.idleList, id)
		}
		w.ws.AdjustStream(id, p)
		// model of the RFC 9218 side; op.U/op.I are the expected values
		eu, ei := op.U&7, op.I&1
		if s != nil && s.open {
			s.u, s.i = eu, ei
			if w.onMoved != nil {
				w.onMoved(w, s)
			}
		} else {
			if w.bufID != 0 && w.bufID != id && w.streams[w.bufID] == nil {
				w.lost[w.bufID] = true
			}
			w.bufID, w.bufU, w.bufI = id, eu, ei
			delete(w.lost, id)
		}
	case "push":
		return w.push(op)
	case "pop":
		n := op.N
		if n < 1 {
			n = 1
		}
		for k := 0; k < n; k++ {
			p, err := w.pop()
			if err != nil {
				return err
			}
			if !p.ok {
				break
			}
		}
	case "popc":
		// rounds of: push Ctl control frames, then Pop Ctl+1 times
		rounds, k := op.N, op.Ctl
		if rounds < 1 {
			rounds = 1
		}
		if k < 1 {
			k = 1
		}
		kinds := []string{"pingack", "cwu", "settings", "ping"}
		for r := 0; r < rounds; r++ {
			for j := 0; j < k; j++ {
				if err := w.push(c12Op{K: "push", F: kinds[(r+j)%len(kinds)]}); err != nil {
					return err
				}
			}
			for j := 0; j <= k; j++ {
				p, err := w.pop()
				if err != nil {
					return err
				}
				if !p.ok {
					return nil
				}
			}
		}
		w.rec.Class("pop-rounds-with-interleaved-control")
	case "swnd":
		if len(w.openIDs) == 0 {
			return errC12Skip
		}
		s := w.streams[w.openIDs[op.Sel%len(w.openIDs)]]
		if !s.st.flow.add(op.D) {
			return errC12Skip
		}
		s.wnd += op.D
		w.logf("StreamWindow(%d %+d => %d)", s.id, op.D, s.wnd)
	case "cwnd":
		if !w.sc.flow.add(op.D) {
			return errC12Skip
		}
		w.connWnd += op.D
		w.logf("ConnWindow(%+d => %d)", op.D, w.connWnd)
	case "mfs":
		if op.D < 1 {
			return errC12Skip
		}
		w.sc.maxFrameSize = op.D
		w.logf("MaxFrameSize(%d)", op.D)
	default:
		return errC12Skip
	}
	return nil
}

func (w *c12World) push(op c12Op) error {
	var done chan error
	if op.Done {
		done = make(chan error, 1)
	}
	tag := w.tag
	f := &c12Frame{tag: tag, kind: op.F}
	switch op.F {
	case "ping", "pingack", "cwu", "settings", "rst":
		switch op.F {
		case "ping":
			wp := &writePing{}
			wp.data[0], wp.data[1] = byte(tag), byte(tag>>8)
			f.wr = FrameWriteRequest{write: wp}
		case "pingack":
			pf := &PingFrame{}
			pf.Data[0], pf.Data[1] = byte(tag), byte(tag>>8)
			f.wr = FrameWriteRequest{write: writePingAck{pf}}
		case "cwu":
			f.wr = FrameWriteRequest{write: writeWindowUpdate{n: uint32(tag) + 1}}
		case "settings":
			f.wr = FrameWriteRequest{write: writeSettings{{ID: SettingMaxFrameSize, Val: uint32(tag)}}}
		case "rst":
			ids := w.knownIDs()
			id := ids[op.Sel%len(ids)]
			f.wr = FrameWriteRequest{write: StreamError{StreamID: id, Code: ErrCode(tag)}}
			f.rst = true
			if s := w.streams[id]; s == nil {
				w.rec.Class("rst-on-idle-stream")
			} else if !s.open {
				w.rec.Class("rst-on-closed-stream")
			}
		}
		w.tag++
		w.logf("Push(%s #%d stream=%d)", op.F, tag, f.wr.StreamID())
		w.ws.Push(f.wr)
		w.control = append(w.control, f)
		return nil
	}
	if len(w.openIDs) == 0 {
		return errC12Skip
	}
	s := w.streams[w.openIDs[op.Sel%len(w.openIDs)]]
	switch op.F {
	case "data":
		n := op.N
		if n < 0 {
			n = 0
		}
		f.data = c12Payload(tag, n)
		f.end = op.End
		f.wr = FrameWriteRequest{write: &writeData{streamID: s.id, p: f.data, endStream: op.End}, stream: s.st, done: done}
	case "headers":
		f.wr = FrameWriteRequest{write: &writeResHeaders{streamID: s.id, httpResCode: 200 + tag, endStream: op.End}, stream: s.st, done: done}
	case "cont100":
		f.wr = FrameWriteRequest{write: write100ContinueHeadersFrame{s.id}, stream: s.st}
	case "swu":
		f.wr = FrameWriteRequest{write: writeWindowUpdate{streamID: s.id, n: uint32(tag) + 1}, stream: s.st}
	case "panicrst":
		f.wr = FrameWriteRequest{write: handlerPanicRST{s.id}, stream: s.st}
	case "pp":
		f.wr = FrameWriteRequest{write: &writePushPromise{streamID: s.id, method: "GET"}, stream: s.st, done: done}
	default:
		return errC12Skip
	}
	w.tag++
	w.logf("Push(%d: %v)", s.id, f)
	w.ws.Push(f.wr)
	s.q = append(s.q, f)
	return nil
}

// pop calls Pop once and checks the result against the model.
func (w *c12World) pop() (c12Popped, error) {
	if w.prePop != nil {
		w.prePop(w)
	}
	p, err := w.pop1()
	if err != nil {
		return p, err
	}
	if w.postPop != nil {
		if err := w.postPop(w, p); err != nil {
			return p, err
		}
	}
	return p, nil
}

func (w *c12World) pop1() (c12Popped, error) {
	var res c12Popped
	wr, ok := w.ws.Pop()
	if !ok {
		w.logf("Pop=none")
		if len(w.control) > 0 {
			return res, w.errf("Pop reported nothing to send while control frame %v is queued", w.control[0])
		}
		blocked := false
		for _, s := range w.openStreams() {
			if w.sendable(s) {
				return res, w.errf("Pop reported nothing to send although stream %d has the sendable frame %v queued (stream window %d, connection window %d, max frame size %d)",
					s.id, s.q[0], s.wnd, w.connWnd, w.sc.maxFrameSize)
			}
			if len(s.q) > 0 {
				blocked = true
			}
		}
		if blocked {
			w.rec.Class("pop-none-flow-blocked")
		} else {
			w.rec.Class("pop-none-empty")
		}
		return res, nil
	}
	res.ok = true
	if w.closedQueued {
		w.poppedAfterCQ = true
	}
	if wr.write == nil {
		w.logf("Pop=EMPTY")
		return res, w.errf("Pop returned ok with an empty request %v (stream=%v)", wr, wr.stream)
	}
	w.logf("Pop=%v", wr)
	if wr.stream == nil {
		// control frame (incl. RST_STREAM)
		idx := -1
		for i, f := range w.control {
			if c12Same(wr.write, f.wr.write) {
				idx = i
				break
			}
		}
		if idx < 0 {
			return res, w.errf("Pop returned control request %v which is not queued (never pushed, or already delivered)", wr)
		}
		f := w.control[idx]
		if !f.rst {
			for _, e := range w.control[:idx] {
				if !e.rst {
					return res, w.errf("control frame %v was delivered before the earlier pushed %v", f, e)
				}
			}
		}
		w.control = append(w.control[:idx:idx], w.control[idx+1:]...)
		res.control = true
		w.rec.Class("pop-control")
		for _, s := range w.openStreams() {
			if len(s.q) > 0 {
				w.rec.Class("pop-control-ahead-of-stream-frames")
				break
			}
		}
		return res, nil
	}
	if len(w.control) > 0 {
		return res, w.errf("Pop returned stream frame %v while control frame %v is queued", wr, w.control[0])
	}
	s := w.streams[wr.stream.id]
	if s == nil || s.st != wr.stream {
		return res, w.errf("Pop returned a request %v for a stream object that was never used in a Push", wr)
	}
	if !s.open {
		return res, w.errf("Pop returned %v of stream %d, which was closed (its frames must have been discarded)", wr, s.id)
	}
	if len(s.q) == 0 {
		return res, w.errf("Pop returned %v of stream %d, which has nothing queued (frame delivered twice?)", wr, s.id)
	}
	res.s = s
	f := s.q[0]
	if !f.isData() || (len(f.data) == 0) {
		if !c12Same(wr.write, f.wr.write) {
			return res, w.errf("stream %d: Pop returned %v but the next frame in push order is %v", s.id, wr, f)
		}
		if wr.done != f.wr.done {
			return res, w.errf("stream %d: %v came back with a different done channel", s.id, f)
		}
		s.q = s.q[1:]
		w.rec.Class("pop-" + f.kind)
		return res, nil
	}
	wd, isData := wr.write.(*writeData)
	if !isData {
		return res, w.errf("stream %d: Pop returned %v but the next frame in push order is %v", s.id, wr, f)
	}
	rem := f.data[f.off:]
	n := len(wd.p)
	if wd.streamID != s.id {
		return res, w.errf("stream %d: DATA piece carries stream id %d", s.id, wd.streamID)
	}
	if n > len(rem) || !bytes.Equal(wd.p, rem[:n]) {
		return res, w.errf("stream %d: DATA piece of %d bytes is not the next %d bytes of %v (out of order, duplicated or foreign bytes)", s.id, n, n, f)
	}
	if n == 0 {
		return res, w.errf("stream %d: empty DATA piece returned while %d bytes of %v remain", s.id, len(rem), f)
	}
	avail := s.wnd
	if w.connWnd < avail {
		avail = w.connWnd
	}
	if int64(n) > int64(avail) {
		return res, w.errf("stream %d: DATA piece of %d bytes exceeds the flow-control window (stream %d, connection %d)", s.id, n, s.wnd, w.connWnd)
	}
	if int64(n) > int64(w.sc.maxFrameSize) {
		return res, w.errf("stream %d: DATA piece of %d bytes exceeds the max frame size %d", s.id, n, w.sc.maxFrameSize)
	}
	if n == len(rem) {
		if wd.endStream != f.end {
			return res, w.errf("stream %d: final piece of %v has END_STREAM=%v", s.id, f, wd.endStream)
		}
		s.q = s.q[1:]
		if f.off > 0 {
			w.rec.Class("pop-data-final-piece")
		} else {
			w.rec.Class("pop-data-whole")
		}
	} else {
		if wd.endStream {
			return res, w.errf("stream %d: non-final piece (%d of %d remaining bytes) of %v has END_STREAM set", s.id, n, len(rem), f)
		}
		f.off += n
		w.split = true
		res.piece = true
		w.rec.Class("pop-data-split")
	}
	s.wnd -= int32(n)
	w.connWnd -= int32(n)
	if s.st.flow.n != s.wnd || w.sc.flow.n != w.connWnd {
		return res, w.errf("stream %d: after a %d-byte piece the windows are stream=%d conn=%d, expected %d/%d", s.id, n, s.st.flow.n, w.sc.flow.n, s.wnd, w.connWnd)
	}
	return res, nil
}

// drain opens all windows and pops until the scheduler is empty; everything the
// model still holds must come out, and nothing else.
func (w *c12World) drain() (err error) {
	defer func() {
		if p := recover(); p != nil {
			err = w.errf("scheduler panicked: %v", p)
		}
	}()
	const big = 1 << 24
	w.logf("DRAIN")
	w.sc.flow.add(big - w.sc.flow.n)
	w.connWnd = w.sc.flow.n
	if !w.keepMFS {
		w.sc.maxFrameSize = 16384
	}
	total := len(w.control)
	for _, s := range w.openStreams() {
		s.st.flow.add(1<<20 - s.st.flow.n)
		s.wnd = s.st.flow.n
		for _, f := range s.q {
			// every successful Pop delivers a whole frame or at least one byte (the
			// RFC 7540 write throttle may cut pieces smaller than the frame size)
			total += 1 + (len(f.data) - f.off)
		}
	}
	dc := w.c.DrainCtl
	if dc < 0 {
		dc = 0
	}
	if dc > 0 {
		w.rec.Class("drain-with-interleaved-control")
	}
	limit := (total+1)*(dc+1) + 1
	afterStreamFrame := true
	for k := 0; ; k++ {
		if k > limit {
			return w.errf("drain: more Pops succeeded than frames are queued")
		}
		if dc > 0 && afterStreamFrame && len(w.control) == 0 {
			pending := false
			for _, s := range w.openStreams() {
				if len(s.q) > 0 {
					pending = true
					break
				}
			}
			if pending {
				for j := 0; j < dc; j++ {
					if err := w.push(c12Op{K: "push", F: "pingack"}); err != nil {
						return err
					}
				}
			}
		}
		p, err := w.pop()
		if err != nil {
			return err
		}
		if !p.ok {
			break
		}
		afterStreamFrame = !p.control
	}
	return nil
}

// c12Run interprets the whole case.
func c12Run(c c12Case, r *vp.Rec, setup func(w *c12World)) error {
	w, err := c12NewWorld(c, r)
	if err != nil {
		r.Discard("unknown-scheduler")
		return nil
	}
	if setup != nil {
		setup(w)
	}
	for _, op := range c.Ops {
		if err := w.apply(op); err != nil {
			return err
		}
	}
	if err := w.drain(); err != nil {
		return err
	}
	switch n := w.stepsPerformed; {
	case n < 10:
		r.Class("history-ops<10")
	case n < 30:
		r.Class("history-ops-10..29")
	default:
		r.Class("history-ops>=30")
	}
	if w.closedQueued && w.poppedAfterCQ {
		r.Class("closed-with-queued-then-popped")
	}
	if w.split {
		r.Class("history-with-split-data")
	}
	return nil
}

// ---- generators ----

func c12Weighted[T any](pairs ...any) *rapid.Generator[T] {
	var vals []T
	for i := 0; i < len(pairs); i += 2 {
		for k := 0; k < pairs[i+1].(int); k++ {
			vals = append(vals, pairs[i].(T))
		}
	}
	return rapid.SampledFrom(vals)
}

var c12PriorityFields = []struct {
	f    string
	u, i uint8
}{
	{"u=0", 0, 0}, {"u=1, i", 1, 1}, {"i, u=2", 2, 1}, {"u=3", 3, 0}, {"u=4,i=?1", 4, 1}, {"u=5, i=?0", 5, 0},
	{"u=6;x=1, i;y", 6, 1}, {"u=7", 7, 0}, {"i", 3, 1}, {"u=9, i", 3, 1}, {"u=-1", 3, 0},
	{"foo=bar, u=2", 2, 0}, {"u=1, u=6", 6, 0}, {"i=?0, i", 3, 1}, {"u=\"2\", i", 3, 1}, {"u=3.0", 3, 0},
}

// c12OpGen draws one op. wide: DATA sizes / frame sizes up to a few KB as well
// (for the write throttle); prio: bias for C13 (many priorities, long pop runs).
func c12OpGen(prio bool) *rapid.Generator[c12Op] {
	kinds := c12Weighted[string]("open", 4, "close", 2, "adj", 2, "push", 9, "pop", 6, "popc", 1, "swnd", 2, "cwnd", 1, "mfs", 1)
	frames := c12Weighted[string]("data", 10, "headers", 3, "cont100", 1, "swu", 1, "panicrst", 1, "pp", 1,
		"ping", 1, "pingack", 1, "cwu", 1, "settings", 1, "rst", 2)
	if prio {
		kinds = c12Weighted[string]("open", 4, "close", 1, "adj", 3, "push", 10, "pop", 4, "popc", 2, "swnd", 2, "cwnd", 1, "mfs", 1)
		frames = c12Weighted[string]("data", 14, "headers", 3, "swu", 1, "ping", 1, "rst", 1)
	}
	urg := c12Weighted[uint8](uint8(3), 5, uint8(0), 1, uint8(1), 2, uint8(2), 1, uint8(4), 1, uint8(5), 1, uint8(6), 1, uint8(7), 1)
	inc := rapid.IntRange(0, 1)
	if prio {
		urg = c12Weighted[uint8](uint8(3), 7, uint8(1), 2, uint8(5), 2, uint8(0), 1, uint8(2), 1, uint8(4), 1, uint8(6), 1, uint8(7), 1)
		inc = rapid.SampledFrom([]int{0, 1, 1})
	}
	size := rapid.OneOf(rapid.IntRange(0, 48), rapid.IntRange(0, 48), rapid.IntRange(0, 12), rapid.SampledFrom([]int{0, 1, 1023, 1024, 1025, 2047, 2600}))
	if prio {
		size = rapid.IntRange(0, 60)
	}
	return rapid.Custom(func(t *rapid.T) c12Op {
		op := c12Op{K: kinds.Draw(t, "k")}
		switch op.K {
		case "open":
			op.Pushed = rapid.IntRange(0, 4).Draw(t, "pushed") == 0
			op.Sel = rapid.IntRange(0, 7).Draw(t, "sel")
			op.Gap = rapid.SampledFrom([]int{0, 0, 0, 1, 2}).Draw(t, "gap")
			op.U = urg.Draw(t, "u")
			op.I = uint8(inc.Draw(t, "i"))
		case "close":
			op.Sel = rapid.IntRange(0, 7).Draw(t, "sel")
		case "adj":
			op.Sel = rapid.IntRange(0, 15).Draw(t, "sel")
			op.DepSel = rapid.IntRange(0, 12).Draw(t, "dep")
			op.Excl = rapid.Bool().Draw(t, "excl")
			op.W = rapid.SampledFrom([]uint8{0, 15, 15, 16, 1, 255, 100, 200}).Draw(t, "w")
			if prio && rapid.IntRange(0, 2).Draw(t, "viaField") == 0 {
				pf := rapid.SampledFrom(c12PriorityFields).Draw(t, "field")
				op.Field, op.U, op.I = pf.f, pf.u, pf.i
			} else {
				op.U = urg.Draw(t, "u")
				op.I = uint8(inc.Draw(t, "i"))
			}
		case "push":
			op.F = frames.Draw(t, "f")
			op.Sel = rapid.IntRange(0, 15).Draw(t, "sel")
			switch op.F {
			case "data":
				op.N = size.Draw(t, "n")
				op.End = rapid.IntRange(0, 3).Draw(t, "end") == 0
				op.Done = rapid.Bool().Draw(t, "done")
			case "headers":
				op.End = rapid.IntRange(0, 3).Draw(t, "end") == 0
				op.Done = rapid.Bool().Draw(t, "done")
			}
		case "pop":
			if prio {
				op.N = rapid.SampledFrom([]int{1, 1, 2, 3, 5, 8, 13, 30}).Draw(t, "n")
			} else {
				op.N = rapid.SampledFrom([]int{1, 1, 1, 2, 3, 6}).Draw(t, "n")
			}
		case "popc":
			op.N = rapid.SampledFrom([]int{1, 2, 3, 5, 8, 13, 30}).Draw(t, "n")
			op.Ctl = rapid.SampledFrom([]int{1, 1, 1, 2, 3}).Draw(t, "ctl")
		case "swnd":
			op.Sel = rapid.IntRange(0, 7).Draw(t, "sel")
			op.D = int32(rapid.OneOf(rapid.IntRange(-20, 40), rapid.SampledFrom([]int{-2000, 1, 1024, 3000, 65535})).Draw(t, "d"))
		case "cwnd":
			op.D = int32(rapid.OneOf(rapid.IntRange(-10, 60), rapid.SampledFrom([]int{-500, 1, 1024, 5000, 65535})).Draw(t, "d"))
		case "mfs":
			op.D = int32(rapid.SampledFrom([]int{1, 2, 3, 5, 8, 16, 100, 1024, 1500, 16384}).Draw(t, "d"))
		}
		return op
	})
}

func c12CaseGen(t *rapid.T, scheds []string, prio bool, maxOps int) c12Case {
	c := c12Case{Sched: rapid.SampledFrom(scheds).Draw(t, "sched")}
	c.InitWnd = int32(rapid.SampledFrom([]int{0, 1, 5, 16, 30, 30, 100, 3000, 65535}).Draw(t, "initWnd"))
	c.ConnWnd = int32(rapid.SampledFrom([]int{0, 7, 40, 100, 100, 500, 5000, 65535, 1 << 20}).Draw(t, "connWnd"))
	c.MFS = int32(rapid.SampledFrom([]int{1, 2, 3, 4, 7, 16, 16, 1024, 16384}).Draw(t, "mfs"))
	c.DrainCtl = rapid.SampledFrom([]int{0, 0, 0, 1, 1, 2, 3}).Draw(t, "drainCtl")
	// rapid's slices average ~5 elements; a slice of slices gives histories of a few
	// dozen operations and still shrinks towards the empty history.
	for _, chunk := range rapid.SliceOfN(rapid.SliceOfN(c12OpGen(prio), 1, 16), 1, maxOps/8).Draw(t, "ops") {
		c.Ops = append(c.Ops, chunk...)
	}
	if len(c.Ops) > maxOps {
		c.Ops = c.Ops[:maxOps]
	}
	return c
}
