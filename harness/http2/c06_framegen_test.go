package http2

// Helpers shared by the C06 (Framer write/read round trip) and C07 (frame reader
// validity) harnesses: an independent 9-byte frame header codec, deterministic
// payload filler and stream-ID generators. Everything is prefixed c06 so that it
// cannot collide with the package's own test helpers or other harness files.

import (
	"pgregory.net/rapid"
)

// c06WireHdr is the harness's own reading of an HTTP/2 frame header (RFC 9113 §4.1).
type c06WireHdr struct {
	Length   uint32
	Type     uint8
	Flags    uint8
	StreamID uint32 // 31 bits, reserved bit dropped
	Reserved bool
}

const c06HdrLen = 9

func c06ParseHdr(b []byte) (h c06WireHdr, ok bool) {
	if len(b) < c06HdrLen {
		return h, false
	}
	h.Length = uint32(b[0])<<16 | uint32(b[1])<<8 | uint32(b[2])
	h.Type = b[3]
	h.Flags = b[4]
	v := uint32(b[5])<<24 | uint32(b[6])<<16 | uint32(b[7])<<8 | uint32(b[8])
	h.StreamID = v &^ (1 << 31)
	h.Reserved = v&(1<<31) != 0
	return h, true
}

// c06AppendHdr appends a frame header with the given (unchecked) field values.
func c06AppendHdr(dst []byte, length uint32, typ, flags uint8, stream uint32) []byte {
	return append(dst, byte(length>>16), byte(length>>8), byte(length), typ, flags,
		byte(stream>>24), byte(stream>>16), byte(stream>>8), byte(stream))
}

// c06Fill returns n deterministic non-constant bytes.
func c06Fill(n int, seed byte) []byte {
	b := make([]byte, n)
	for i := range b {
		b[i] = byte(i*31) + seed + byte(i>>8)
	}
	return b
}

// c06ValidStream draws a stream ID every Write method accepts (1..2^31-1).
func c06ValidStream() *rapid.Generator[uint32] {
	return rapid.OneOf(
		rapid.SampledFrom([]uint32{1, 2, 3, 1<<31 - 1, 1<<31 - 2, 0x7fff0001}),
		rapid.Uint32Range(1, 1<<31-1),
	)
}

// c06Stream31 draws any 31-bit stream ID including 0.
func c06Stream31() *rapid.Generator[uint32] {
	return rapid.OneOf(
		rapid.Just(uint32(0)),
		c06ValidStream(),
	)
}

// c06AnyStream draws mostly valid stream IDs and sometimes 0 or values with the
// reserved bit set (which the validating Write methods must refuse).
func c06AnyStream() *rapid.Generator[uint32] {
	return rapid.Custom(func(t *rapid.T) uint32 {
		if rapid.IntRange(0, 24).Draw(t, "badStream") == 7 {
			return rapid.SampledFrom([]uint32{0, 1 << 31, 1<<31 | 5, 0xffffffff}).Draw(t, "bad")
		}
		return c06ValidStream().Draw(t, "stream")
	})
}
