package http2_test

// C15 on a connection that starts with an h2c upgrade: the upgrade request is stream 1
// without the client ever having sent HEADERS for it. Whatever the client then does with
// stream 1 (HEADERS again, DATA, RST_STREAM, WINDOW_UPDATE) and with further streams, the
// server sends no HEADERS or DATA on a stream once it has sent END_STREAM or RST_STREAM
// for it, or once the client's RST_STREAM for it has been processed; PINGs are answered
// while the connection is up.

import (
	"fmt"
	"net/http"
	"sync"
	"testing"
	"testing/synctest"
	"time"

	"pgregory.net/rapid"
	"verif/vp"

	. "golang.org/x/net/http2"
)

type c15uStep struct {
	Kind string `json:"kind"` // finish (the next blocked handler may go on) | reopen1 | data1 | rst1 | wu1 | open | ping | settings
	End  bool   `json:"end,omitempty"`
	N    int    `json:"n,omitempty"`
}

type c15uCase struct {
	Sched    int        `json:"sched"`
	BodyN    int        `json:"body_n"`   // response body of every handler
	Trailers bool       `json:"trailers"` // handlers finish with a trailer
	Settings []byte     `json:"settings"` // HTTP2-Settings payload of the upgrade request
	Steps    []c15uStep `json:"steps"`
}

func c15uGen(t *rapid.T) c15uCase {
	c := c15uCase{
		Sched:    rapid.IntRange(0, 3).Draw(t, "sched"),
		BodyN:    rapid.SampledFrom([]int{0, 0, 1, 100, 20000}).Draw(t, "body"),
		Trailers: rapid.IntRange(0, 3).Draw(t, "trailers") == 0,
	}
	if rapid.Bool().Draw(t, "withSettings") {
		c.Settings = []byte{0, 3, 0, 0, 0, 100, 0, 4, 0, 1, 0, 0} // MAX_CONCURRENT_STREAMS 100, INITIAL_WINDOW_SIZE 65536
	}
	step := rapid.Custom(func(t *rapid.T) c15uStep {
		k := rapid.SampledFrom([]string{"finish", "finish", "finish", "reopen1", "reopen1", "data1", "rst1", "wu1", "open", "open", "ping", "settings"}).Draw(t, "kind")
		return c15uStep{Kind: k, End: rapid.Bool().Draw(t, "end"), N: rapid.SampledFrom([]int{0, 1, 100}).Draw(t, "n")}
	})
	c.Steps = rapid.SliceOfN(step, 1, 12).Draw(t, "steps")
	return c
}

func c15uRun(c c15uCase, r *vp.Rec) error {
	if c.BodyN < 0 || c.BodyN > 1<<20 || len(c.Steps) > 64 {
		r.Discard("malformed case")
		return nil
	}
	var mu sync.Mutex
	started := map[string]int{}
	release := make(chan struct{}, 64)
	quit := make(chan struct{})
	handler := http.HandlerFunc(func(w http.ResponseWriter, req *http.Request) {
		mu.Lock()
		started[req.URL.Path]++
		mu.Unlock()
		select {
		case <-release:
		case <-quit:
			return
		}
		if c.BodyN > 0 {
			w.Write(make([]byte, c.BodyN))
		}
		if c.Trailers {
			w.Header().Set(http.TrailerPrefix+"X-Vp-Trailer", "done")
		}
	})
	s := vpNewSrv(vpSrvOpts{Sched: c.Sched, Upgrade: true, UpgradePath: "/up", UpgradeSettings: c.Settings}, handler)
	defer func() {
		close(quit)
		s.closeAndWait(30 * time.Second)
	}()
	if s.sc == nil {
		return fmt.Errorf("ServeConn refused a connection with the valid HTTP2-Settings %x", c.Settings)
	}

	type stState struct {
		srvEnded, srvReset bool
		cliResetSettled    bool // our RST_STREAM for it has been processed (a drain has passed since)
		cliResetPending    bool
	}
	streams := map[uint32]*stState{1: {}}
	get := func(id uint32) *stState {
		if streams[id] == nil {
			streams[id] = &stState{}
		}
		return streams[id]
	}
	connDead := false
	var pings [][8]byte
	drain := func() error {
		for {
			f, err := s.read()
			if err != nil {
				connDead = true
				return nil
			}
			if f == nil {
				break
			}
			switch f := f.(type) {
			case *HeadersFrame, *DataFrame:
				id := f.Header().StreamID
				x := get(id)
				what := map[bool]string{true: "HEADERS", false: "DATA"}[f.Header().Type == FrameHeaders]
				switch {
				case x.srvEnded:
					return fmt.Errorf("server sent %s on stream %d after it had sent END_STREAM for it", what, id)
				case x.srvReset:
					return fmt.Errorf("server sent %s on stream %d after it had sent RST_STREAM for it", what, id)
				case x.cliResetSettled:
					return fmt.Errorf("server sent %s on stream %d after it had received (and processed) RST_STREAM for it", what, id)
				}
				ended := false
				if h, ok := f.(*HeadersFrame); ok {
					ended = h.StreamEnded()
				} else {
					ended = f.(*DataFrame).StreamEnded()
				}
				if ended {
					x.srvEnded = true
				}
			case *RSTStreamFrame:
				get(f.StreamID).srvReset = true
			case *GoAwayFrame:
				if f.ErrCode != ErrCodeNo {
					connDead = true
				}
			case *PingFrame:
				if f.IsAck() {
					if len(pings) == 0 || pings[0] != f.Data {
						return fmt.Errorf("PING ACK %x does not answer the oldest outstanding PING", f.Data)
					}
					pings = pings[1:]
				}
			}
		}
		for _, x := range streams {
			if x.cliResetPending {
				x.cliResetPending, x.cliResetSettled = false, true
			}
		}
		return nil
	}

	if _, err := s.cli.Write([]byte(ClientPreface)); err != nil {
		return fmt.Errorf("harness: preface: %v", err)
	}
	s.fr.WriteSettings()
	if err := drain(); err != nil {
		return err
	}
	nextID := uint32(3)
	npings := byte(0)
	for i, st := range c.Steps {
		if connDead {
			break
		}
		switch st.Kind {
		case "finish":
			select {
			case release <- struct{}{}:
			default:
			}
			synctest.Wait()
		case "reopen1":
			// the client uses stream 1, which it never opened itself, for a request
			s.fr.WriteHeaders(HeadersFrameParam{StreamID: 1, BlockFragment: s.reqHeaders("GET", "/again"), EndStream: st.End, EndHeaders: true})
			r.Class("client-sends-HEADERS-on-stream-1")
			if streams[1].srvEnded {
				r.Class("client-sends-HEADERS-on-stream-1-after-its-response-ended")
				r.NonTrivial()
			}
		case "data1":
			s.fr.WriteData(1, st.End, make([]byte, st.N))
		case "rst1":
			s.fr.WriteRSTStream(1, ErrCodeCancel)
			streams[1].cliResetPending = true
		case "wu1":
			s.fr.WriteWindowUpdate(1, uint32(st.N)+1)
		case "open":
			s.fr.WriteHeaders(HeadersFrameParam{StreamID: nextID, BlockFragment: s.reqHeaders("GET", fmt.Sprintf("/s%d", nextID)), EndStream: true, EndHeaders: true})
			get(nextID)
			nextID += 2
		case "ping":
			npings++
			d := [8]byte{'v', 'p', npings, byte(i)}
			pings = append(pings, d)
			s.fr.WritePing(false, d)
		case "settings":
			s.fr.WriteSettings(Setting{SettingInitialWindowSize, uint32(65535 + st.N)})
		}
		if err := drain(); err != nil {
			return fmt.Errorf("step %d (%s): %w", i, st.Kind, err)
		}
		if !connDead && len(pings) > 0 {
			return fmt.Errorf("step %d (%s): PING %x was not answered although the connection is up", i, st.Kind, pings[0])
		}
	}
	// let every handler finish and look at what that produces
	for k := 0; k < 8 && !connDead; k++ {
		select {
		case release <- struct{}{}:
		default:
		}
		synctest.Wait()
		if err := drain(); err != nil {
			return fmt.Errorf("final release: %w", err)
		}
	}
	mu.Lock()
	up := started["/up"]
	mu.Unlock()
	if up != 1 {
		return fmt.Errorf("the handler ran %d times for the upgrade request", up)
	}
	if streams[1].srvEnded {
		r.Class("upgrade-response-completed")
	}
	return nil
}

func TestVP_C15_upgrade(t *testing.T) {
	vp.Run(t, vp.Spec[c15uCase]{ID: "C15", Sub: "upgrade", CrashFile: true, Gen: c15uGen, Prop: func(c c15uCase, r *vp.Rec) error {
		return vpBubble(t, func() error { return c15uRun(c, r) })
	}})
}
