package trace

// C61 (second unit, package trace): the time series keeps an exact total also for the
// Observable that the trace package really stores in it, the power-of-two histogram
// (trace/histogram.go is one of the files the property is anchored in). Integer
// counters only, so all sums are exact.

import (
	"fmt"
	"testing"
	"time"

	"golang.org/x/net/internal/timeseries"
	"pgregory.net/rapid"
	"verif/vp"
)

type c61hClock struct{ t time.Time }

func (c *c61hClock) Time() time.Time { return c.t }

type c61hObs struct {
	DtMS   int64   `json:"dt_ms"`  // clock/observation time advance before this observation (may be 0)
	Back   int64   `json:"back"`   // observation time = clock - Back ms (out of order)
	Values []int64 `json:"values"` // measurements recorded into one histogram observation
	Twice  bool    `json:"twice"`  // add the same observation object a second time right away
	Query  bool    `json:"query"`  // read Total() (and Latest) after this step
}

type c61hCase struct {
	MinuteHour bool      `json:"minute_hour"`
	Obs        []c61hObs `json:"obs"`
}

func c61hGen(t *rapid.T) c61hCase {
	val := rapid.OneOf(rapid.Int64Range(0, 10), rapid.SampledFrom([]int64{0, 1, 2, 3, 4, 7, 8, 1000, 1 << 20, 1 << 36}))
	obs := rapid.Custom(func(t *rapid.T) c61hObs {
		return c61hObs{
			DtMS:   rapid.SampledFrom([]int64{0, 0, 1, 500, 999, 1000, 1001, 5000, 61000, 3700000, 100000000}).Draw(t, "dt"),
			Back:   rapid.SampledFrom([]int64{0, 0, 0, 1, 999, 1000, 2500, 70000}).Draw(t, "back"),
			Values: rapid.SliceOfN(val, 1, 5).Draw(t, "values"),
			Twice:  rapid.IntRange(0, 3).Draw(t, "twice") == 0,
			Query:  rapid.IntRange(0, 2).Draw(t, "query") == 0,
		}
	})
	return c61hCase{MinuteHour: rapid.Bool().Draw(t, "mh"), Obs: rapid.SliceOfN(obs, 1, 40).Draw(t, "obs")}
}

func c61hCounts(h *histogram) (count int64, per [bucketCount]int64) {
	if h.valueCount >= 0 {
		per[h.value] += h.valueCount
	}
	for i, v := range h.buckets {
		per[i] += v
	}
	for _, v := range per {
		count += v
	}
	return
}

func c61hProp(c c61hCase, r *vp.Rec) error {
	clock := &c61hClock{t: time.Unix(1700000000, 0)}
	newObs := func() timeseries.Observable { return new(histogram) }
	var add func(o timeseries.Observable, t time.Time)
	var total func() timeseries.Observable
	var latest func() timeseries.Observable
	if c.MinuteHour {
		ts := timeseries.NewMinuteHourSeriesWithClock(newObs, clock)
		add, total = ts.AddWithTime, ts.Total
		latest = ts.Hour
	} else {
		ts := timeseries.NewTimeSeriesWithClock(newObs, clock)
		add, total = ts.AddWithTime, ts.Total
		latest = func() timeseries.Observable { return ts.Latest(0, 1) }
	}
	var wantSum, wantCount int64
	var wantPer [bucketCount]int64
	multi := false
	for i, o := range c.Obs {
		clock.t = clock.t.Add(time.Duration(o.DtMS) * time.Millisecond)
		h := new(histogram)
		var oSum int64
		for _, v := range o.Values {
			h.addMeasurement(v)
			oSum += v
		}
		oCount, oPer := c61hCounts(h)
		if oCount != int64(len(o.Values)) {
			return fmt.Errorf("step %d: a fresh histogram with %d measurements reports %d", i, len(o.Values), oCount)
		}
		n := 1
		if o.Twice {
			n = 2
		}
		if h.valueCount == -1 {
			multi = true
			if o.Twice {
				r.Class("multi-bucket observation added twice")
			}
		}
		for k := 0; k < n; k++ {
			add(h, clock.t.Add(-time.Duration(o.Back)*time.Millisecond))
			wantSum += oSum
			wantCount += oCount
			for b := range wantPer {
				wantPer[b] += oPer[b]
			}
			// the caller's observation must not be changed by the series
			gc, gp := c61hCounts(h)
			if gc != oCount || gp != oPer || h.sum != oSum {
				return fmt.Errorf("step %d: the observation handed to AddWithTime was modified by the series: now %d measurements, sum %d (was %d, %d)", i, gc, h.sum, oCount, oSum)
			}
		}
		if o.Query || i == len(c.Obs)-1 {
			latest() // a query that advances the series must not change the total
			tot := total().(*histogram)
			gc, gp := c61hCounts(tot)
			if gc != wantCount || tot.sum != wantSum || gp != wantPer {
				return fmt.Errorf("step %d: Total() holds %d measurements with sum %d, buckets %v; all observations together: %d measurements, sum %d, buckets %v", i, gc, tot.sum, gp, wantCount, wantSum, wantPer)
			}
		}
	}
	if multi {
		r.Class("multi-bucket observation")
		r.NonTrivial()
	}
	return nil
}

func TestVP_C61_hist(t *testing.T) {
	vp.Run(t, vp.Spec[c61hCase]{ID: "C61", Sub: "hist", Gen: c61hGen, Prop: c61hProp})
}
