package webdav

import (
	"fmt"
	"sort"
	"strconv"
	"strings"
	"testing"
	"time"

	"pgregory.net/rapid"
	"verif/vp"
)

// C43: the in-memory LockSystem is mutually exclusive and expires correctly.
//
// A generated history of Create / Refresh / Unlock / Confirm / release calls is run
// against NewMemLS() and against a reference model written from the statement:
// a set of locks {root, depth, expiry or infinite, held}. The clock is passed
// explicitly; it never goes backwards and can never be equal to an expiry instant
// (operation i runs at <whole seconds> + <whole milliseconds> + i microseconds, durations
// are whole seconds).

type c43Op struct {
	Kind  string `json:"kind"`            // create | refresh | unlock | confirm | release
	Adv   int    `json:"adv"`             // whole seconds the clock advances before the operation
	AdvMs int    `json:"adv_ms,omitempty"` // plus that many milliseconds (clock values between two expiries of the same second)
	Name  string `json:"name,omitempty"`  // create: root; confirm: name0
	Name1 string `json:"name1,omitempty"` // confirm: name1
	Zero  bool   `json:"zero,omitempty"`  // create: zero depth
	Dur   int64  `json:"dur,omitempty"`   // create/refresh: seconds; -1 = time.Duration(-1); < -1 = negative seconds (infinite)
	Tok   int    `json:"tok,omitempty"`   // refresh/unlock: >=0 index (mod n) into the tokens issued so far; <0 a token that was never issued
	Toks  []int  `json:"toks,omitempty"`  // confirm: condition tokens (same encoding)
	Rel   int    `json:"rel,omitempty"`   // release: index (mod n) into the outstanding release functions
}

type c43Case struct {
	Gen0 uint64  `json:"gen0"` // initial token counter (NewMemLS seeds it from the wall clock)
	Ops  []c43Op `json:"ops"`
}

// ---- reference model (locks are identified by their issue number) ----

type c43Lock struct {
	id       int
	root     []string // path segments of the cleaned root ("/" = empty)
	zero     bool
	infinite bool
	expiry   time.Time
	held     bool
}

func (l *c43Lock) String() string {
	return fmt.Sprintf("#%d on /%s (zero-depth=%v held=%v)", l.id, strings.Join(l.root, "/"), l.zero, l.held)
}

// c43Segs is the model's own name cleaning (names are slash separated; "." and ".."
// are resolved, the root is its own parent).
func c43Segs(name string) []string {
	var segs []string
	for _, s := range strings.Split(name, "/") {
		switch s {
		case "", ".":
		case "..":
			if len(segs) > 0 {
				segs = segs[:len(segs)-1]
			}
		default:
			segs = append(segs, s)
		}
	}
	return segs
}

// c43AtOrUnder reports whether b is a or a descendant of a.
func c43AtOrUnder(a, b []string) bool {
	if len(b) < len(a) {
		return false
	}
	for i := range a {
		if a[i] != b[i] {
			return false
		}
	}
	return true
}

func c43Covers(l *c43Lock, name []string) bool {
	if !c43AtOrUnder(l.root, name) {
		return false
	}
	return len(name) == len(l.root) || !l.zero
}

// c43Overlap reports whether the regions (the root, plus all its descendants unless
// zero depth) of two locks intersect.
func c43Overlap(r1 []string, z1 bool, r2 []string, z2 bool) bool {
	switch {
	case len(r1) == len(r2):
		return c43AtOrUnder(r1, r2)
	case len(r1) < len(r2):
		return !z1 && c43AtOrUnder(r1, r2)
	default:
		return !z2 && c43AtOrUnder(r2, r1)
	}
}

func c43Duration(d int64) time.Duration {
	if d == -1 {
		return time.Duration(-1)
	}
	return time.Duration(d) * time.Second
}

var c43Base = time.Date(2020, 1, 2, 3, 4, 5, 0, time.UTC)

type c43Model struct {
	secs        int
	msecs       int
	now         time.Time
	issued      int              // number of locks ever created
	live        map[int]*c43Lock // live locks by issue number
	expired     []*c43Lock       // locks that went away by expiry
	outstanding [][]*c43Lock     // locks held by each unreleased Confirm
}

func c43NewModel() *c43Model { return &c43Model{live: map[int]*c43Lock{}} }

func (m *c43Model) liveIDs() []int {
	var out []int
	for id := range m.live {
		out = append(out, id)
	}
	sort.Ints(out)
	return out
}

// lockRef resolves a token reference of a case: issue number, or -1 for a token
// that was never issued.
func (m *c43Model) lockRef(ref int) int {
	if ref >= 0 && m.issued > 0 {
		return ref % m.issued
	}
	return -1
}

// c43Expect is what the statement demands of one call.
type c43Expect struct {
	skip    bool   // release with nothing outstanding: no call is made
	ok      bool   // the call must succeed (false: it must fail)
	why     string // reason for the expectation
	class   string
	rel     int        // release: index into outstanding
	use     []*c43Lock // confirm: locks that become held
	created *c43Lock
	onHeld  bool // the call addressed a confirmed, unreleased lock
	afterEx bool // create succeeded over the region of an expired lock
}

// step advances the clock, expires unheld locks and applies operation i, assuming
// the lock system behaves as the statement demands.
func (m *c43Model) step(i int, o c43Op) c43Expect {
	if o.Adv > 0 {
		m.secs += o.Adv
	}
	if o.AdvMs > 0 {
		m.msecs += o.AdvMs
	}
	m.now = c43Base.Add(time.Duration(m.secs)*time.Second + time.Duration(m.msecs)*time.Millisecond + time.Duration(i)*time.Microsecond)
	now := m.now
	if o.Kind == "release" {
		if len(m.outstanding) == 0 {
			return c43Expect{skip: true, class: "release-nothing-outstanding"}
		}
		k := o.Rel % len(m.outstanding)
		e := c43Expect{ok: true, rel: k, class: "release"}
		for _, l := range m.outstanding[k] {
			l.held = false
			if !l.infinite && !now.Before(l.expiry) {
				e.class = "release-after-expiry"
			}
		}
		m.outstanding = append(m.outstanding[:k], m.outstanding[k+1:]...)
		return e
	}
	for _, id := range m.liveIDs() {
		l := m.live[id]
		if !l.held && !l.infinite && !now.Before(l.expiry) {
			delete(m.live, id)
			m.expired = append(m.expired, l)
		}
	}
	switch o.Kind {
	case "create":
		root := c43Segs(o.Name)
		for _, id := range m.liveIDs() {
			l := m.live[id]
			if c43Overlap(l.root, l.zero, root, o.Zero) {
				e := c43Expect{ok: false, why: "live lock " + l.String() + " covers a common resource", class: "create-conflict"}
				if l.held && !l.infinite && !now.Before(l.expiry) {
					e.class = "create-conflict-with-held-lock-past-expiry"
				}
				return e
			}
		}
		l := &c43Lock{id: m.issued, root: root, zero: o.Zero, infinite: o.Dur < 0}
		if !l.infinite {
			l.expiry = now.Add(c43Duration(o.Dur))
		}
		m.live[l.id] = l
		m.issued++
		e := c43Expect{ok: true, why: "no live lock conflicts", class: "create-ok", created: l}
		for _, x := range m.expired {
			if c43Overlap(x.root, x.zero, root, o.Zero) {
				e.afterEx = true
				e.class = "create-ok-after-conflicting-lock-expired"
				break
			}
		}
		return e
	case "refresh", "unlock":
		id := m.lockRef(o.Tok)
		l := m.live[id]
		switch {
		case id < 0:
			return c43Expect{ok: false, why: "the token was never issued", class: o.Kind + "-unknown-token"}
		case l == nil:
			return c43Expect{ok: false, why: "the lock is expired or unlocked", class: o.Kind + "-dead-token"}
		case l.held:
			return c43Expect{ok: false, why: "the lock is confirmed and not released", class: o.Kind + "-held", onHeld: true}
		}
		if o.Kind == "unlock" {
			delete(m.live, id)
		} else {
			l.infinite = o.Dur < 0
			if !l.infinite {
				l.expiry = now.Add(c43Duration(o.Dur))
			}
		}
		return c43Expect{ok: true, why: "the lock is live and not held", class: o.Kind + "-ok"}
	case "confirm":
		cond := map[int]bool{}
		for _, ref := range o.Toks {
			cond[m.lockRef(ref)] = true
		}
		var use []*c43Lock
		for _, nm := range []string{o.Name, o.Name1} {
			if nm == "" {
				continue
			}
			segs := c43Segs(nm)
			var l *c43Lock
			for _, id := range m.liveIDs() {
				if c43Covers(m.live[id], segs) {
					l = m.live[id] // unique: live locks never share a resource (checked by the property)
				}
			}
			switch {
			case l == nil:
				return c43Expect{ok: false, why: fmt.Sprintf("no live lock covers %q", nm), class: "confirm-refused-unlocked-name"}
			case !cond[l.id]:
				return c43Expect{ok: false, why: fmt.Sprintf("the lock covering %q (%v) is not among the conditions", nm, l), class: "confirm-refused-token-missing"}
			case l.held:
				return c43Expect{ok: false, why: fmt.Sprintf("the lock covering %q (%v) is confirmed and not released", nm, l), class: "confirm-refused-held", onHeld: true}
			}
			if len(use) == 0 || use[0] != l {
				use = append(use, l)
			}
		}
		for _, l := range use {
			l.held = true
		}
		m.outstanding = append(m.outstanding, use)
		return c43Expect{ok: true, why: "every named resource is covered by an unheld live lock named in the conditions", use: use,
			class: fmt.Sprintf("confirm-ok-%d-locks", len(use))}
	}
	return c43Expect{skip: true, class: "bad-kind"}
}

// ---- generator (steered by the model so that histories reach held and expired locks) ----

var c43Names = []string{
	"/", "", "/a", "a", "/a/", "//a", "/a/b", "/a/./b", "/a/b/", "/a/b/../b", "/a/b/c", "a/b/c",
	"/d", "/d/../a", "/ab", "/a/bc", "/a/b/../../d", "/../a", "/a/b/c/d", "/d/e",
}

func c43Gen(t *rapid.T) c43Case {
	name := rapid.SampledFrom(c43Names)
	dur := rapid.Custom(func(t *rapid.T) int64 {
		switch rapid.IntRange(0, 9).Draw(t, "durKind") {
		case 0:
			return -1
		case 1:
			return -int64(rapid.IntRange(2, 5).Draw(t, "neg"))
		case 2:
			return 0
		default:
			return int64(rapid.IntRange(1, 12).Draw(t, "secs"))
		}
	})
	adv := rapid.Custom(func(t *rapid.T) int {
		switch rapid.IntRange(0, 9).Draw(t, "advKind") {
		case 0, 1, 2, 3:
			return 0
		case 9:
			return rapid.IntRange(10, 200).Draw(t, "big")
		default:
			return rapid.IntRange(1, 6).Draw(t, "small")
		}
	})
	sim := c43NewModel()
	idx := 0
	tok := rapid.Custom(func(t *rapid.T) int {
		switch k := rapid.IntRange(0, 9).Draw(t, "tokKind"); {
		case k == 0:
			return -rapid.IntRange(1, 4).Draw(t, "never")
		case k <= 6 && len(sim.live) > 0:
			return rapid.SampledFrom(sim.liveIDs()).Draw(t, "live")
		default:
			return rapid.IntRange(0, 15).Draw(t, "idx")
		}
	})
	// a spelling of a name covered by a live lock
	covered := rapid.Custom(func(t *rapid.T) string {
		if len(sim.live) == 0 || rapid.IntRange(0, 4).Draw(t, "anyName") == 0 {
			return name.Draw(t, "name")
		}
		l := sim.live[rapid.SampledFrom(sim.liveIDs()).Draw(t, "lock")]
		var cands []string
		for _, n := range c43Names {
			if n != "" && c43Covers(l, c43Segs(n)) {
				cands = append(cands, n)
			}
		}
		if len(cands) == 0 {
			return "/" + strings.Join(l.root, "/")
		}
		return rapid.SampledFrom(cands).Draw(t, "spelling")
	})
	op := rapid.Custom(func(t *rapid.T) c43Op {
		o := c43Op{Adv: adv.Draw(t, "adv")}
		if rapid.IntRange(0, 2).Draw(t, "subSecond") == 0 {
			o.AdvMs = rapid.SampledFrom([]int{1, 100, 300, 400, 500, 800, 999}).Draw(t, "advMs")
		}
		k := rapid.IntRange(0, 11).Draw(t, "kind")
		if k >= 10 && len(sim.outstanding) == 0 {
			k = 8
		}
		switch k {
		case 0, 1, 2, 3:
			o.Kind = "create"
			o.Name = name.Draw(t, "name")
			o.Zero = rapid.Bool().Draw(t, "zero")
			o.Dur = dur.Draw(t, "dur")
		case 4, 5:
			o.Kind = "refresh"
			o.Tok = tok.Draw(t, "tok")
			o.Dur = dur.Draw(t, "dur")
		case 6, 7:
			o.Kind = "unlock"
			o.Tok = tok.Draw(t, "tok")
		case 8, 9:
			o.Kind = "confirm"
			o.Name = covered.Draw(t, "name0")
			switch rapid.IntRange(0, 3).Draw(t, "name1Kind") {
			case 0:
				o.Name1 = covered.Draw(t, "name1")
			case 1:
				o.Name1 = o.Name
			}
			if rapid.IntRange(0, 9).Draw(t, "swapEmpty") == 0 {
				o.Name, o.Name1 = "", o.Name
			}
			if rapid.IntRange(0, 2).Draw(t, "allLive") == 0 {
				o.Toks = sim.liveIDs()
				if len(o.Toks) > 6 {
					o.Toks = o.Toks[:6]
				}
			} else {
				o.Toks = rapid.SliceOfN(tok, 0, 4).Draw(t, "toks")
			}
		default:
			o.Kind = "release"
			o.Rel = rapid.IntRange(0, 3).Draw(t, "rel")
		}
		sim.step(idx, o)
		idx++
		return o
	})
	return c43Case{
		Gen0: rapid.SampledFrom([]uint64{0, 9, 99, 1700000000, 1<<64 - 3}).Draw(t, "gen0"),
		Ops:  rapid.SliceOfN(op, 5, 80).Draw(t, "ops"),
	}
}

// ---- property ----

func c43Prop(c c43Case, r *vp.Rec) error {
	ls, ok := NewMemLS().(*memLS)
	if !ok {
		return fmt.Errorf("NewMemLS does not return *memLS")
	}
	ls.gen = c.Gen0
	var api LockSystem = ls

	model := c43NewModel()
	var tokens []string // token of lock #k
	tokenSet := map[string]bool{}
	var releases []func()

	token := func(ref int) string {
		if id := model.lockRef(ref); id >= 0 {
			return tokens[id]
		}
		switch ref {
		case -1:
			return ""
		case -2:
			return "0"
		case -3:
			return "opaquelocktoken:never-issued"
		}
		// the token the lock system would issue next
		return strconv.FormatUint(c.Gen0+uint64(len(tokens))+1, 10)
	}
	neverIssued := func(refs ...int) error {
		for _, ref := range refs {
			if model.lockRef(ref) < 0 && tokenSet[token(ref)] {
				return fmt.Errorf("harness: the 'never issued' token %q has been issued", token(ref))
			}
		}
		return nil
	}

	var unblockedByExpiry, heldAttempt bool
	for i, o := range c.Ops {
		// resolve tokens against the state before the call
		var tok string
		var conds []Condition
		switch o.Kind {
		case "refresh", "unlock":
			tok = token(o.Tok)
			if err := neverIssued(o.Tok); err != nil {
				r.Discard("never-issued token collides with an issued one")
				return nil
			}
		case "confirm":
			for _, ref := range o.Toks {
				conds = append(conds, Condition{Token: token(ref)})
			}
			if err := neverIssued(o.Toks...); err != nil {
				r.Discard("never-issued token collides with an issued one")
				return nil
			}
		}
		want := model.step(i, o)
		now := model.now
		where := fmt.Sprintf("step %d at +%ds%dms", i, model.secs, model.msecs)
		r.Class(want.class)
		if want.skip {
			continue
		}
		heldAttempt = heldAttempt || want.onHeld
		unblockedByExpiry = unblockedByExpiry || want.afterEx

		switch o.Kind {
		case "release":
			rel := releases[want.rel]
			releases = append(releases[:want.rel], releases[want.rel+1:]...)
			rel()
			continue // release does not collect expired locks; nothing to compare
		case "create":
			tk, err := api.Create(now, LockDetails{Root: o.Name, Duration: c43Duration(o.Dur), ZeroDepth: o.Zero, OwnerXML: "<o/>"})
			if (err == nil) != want.ok {
				if err == nil {
					return fmt.Errorf("%s: Create(%q zero-depth=%v) succeeded (token %s) although %s", where, o.Name, o.Zero, tk, want.why)
				}
				return fmt.Errorf("%s: Create(%q zero-depth=%v) failed with %q although %s", where, o.Name, o.Zero, err, want.why)
			}
			if err == nil {
				if tokenSet[tk] {
					return fmt.Errorf("%s: Create returned token %q a second time", where, tk)
				}
				tokenSet[tk] = true
				tokens = append(tokens, tk)
			}
		case "refresh":
			_, err := api.Refresh(now, tok, c43Duration(o.Dur))
			if (err == nil) != want.ok {
				return fmt.Errorf("%s: Refresh(%q) returned error %v although %s", where, tok, err, want.why)
			}
		case "unlock":
			err := api.Unlock(now, tok)
			if (err == nil) != want.ok {
				return fmt.Errorf("%s: Unlock(%q) returned error %v although %s", where, tok, err, want.why)
			}
		case "confirm":
			release, err := api.Confirm(now, o.Name, o.Name1, conds...)
			if (err == nil) != want.ok {
				return fmt.Errorf("%s: Confirm(%q, %q, %v) returned error %v although %s", where, o.Name, o.Name1, conds, err, want.why)
			}
			if err == nil {
				if release == nil {
					return fmt.Errorf("%s: Confirm succeeded with a nil release function", where)
				}
				releases = append(releases, release)
			}
		}

		// Every token the lock system still knows can be refreshed or unlocked, so
		// the known tokens must be exactly the live locks; live locks never share
		// a resource.
		var have, wantLive []string
		for tk, n := range ls.byToken {
			if n == nil || n.token != tk {
				return fmt.Errorf("%s: byToken[%q] is inconsistent", where, tk)
			}
			have = append(have, tk)
		}
		ids := model.liveIDs()
		for _, id := range ids {
			wantLive = append(wantLive, tokens[id])
		}
		sort.Strings(have)
		sort.Strings(wantLive)
		if strings.Join(have, ",") != strings.Join(wantLive, ",") {
			return fmt.Errorf("%s (%s): lock system knows tokens %v, live by the model: %v", where, o.Kind, have, wantLive)
		}
		for a, ia := range ids {
			for _, ib := range ids[a+1:] {
				la, lb := model.live[ia], model.live[ib]
				if c43Overlap(la.root, la.zero, lb.root, lb.zero) {
					return fmt.Errorf("%s: live locks %v and %v cover a common resource", where, la, lb)
				}
			}
		}
	}
	if unblockedByExpiry {
		r.Class("history:expiry-unblocked-a-create")
	}
	if heldAttempt {
		r.Class("history:call-on-confirmed-lock")
	}
	if unblockedByExpiry && heldAttempt {
		r.NonTrivial()
	}
	return nil
}

func TestVP_C43(t *testing.T) {
	vp.Run(t, vp.Spec[c43Case]{ID: "C43", Gen: c43Gen, Prop: c43Prop})
}
