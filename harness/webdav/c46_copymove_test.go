package webdav

import (
	"context"
	"encoding/xml"
	"fmt"
	"io"
	"net/http/httptest"
	"net/url"
	"os"
	"path"
	"sort"
	"strings"
	"testing"
	"time"

	"pgregory.net/rapid"
	"verif/vp"
)

// C46: WebDAV COPY and MOVE never destroy their source.
//
// One case = one generated tree, optional locks, and ONE COPY or MOVE request sent
// through Handler.ServeHTTP. The oracle compares a full snapshot of the file system
// (path -> kind, bytes, dead properties) taken before and after the request.

type c46Prop struct {
	Space string `json:"space"`
	Local string `json:"local"`
	Inner string `json:"inner"`
}

type c46Entry struct {
	Path  string    `json:"path"` // clean absolute path, parents come first
	Dir   bool      `json:"dir"`
	Data  []byte    `json:"data,omitempty"`
	Props []c46Prop `json:"props,omitempty"` // memFS only
}

type c46Lock struct {
	Root string `json:"root"`
	Zero bool   `json:"zero"`
	InIf bool   `json:"in_if"` // its token is submitted in the If header
}

type c46Case struct {
	Backend   string     `json:"backend"` // "mem" | "dir"
	Prefix    string     `json:"prefix"`  // Handler.Prefix
	Host      string     `json:"host"`    // request Host
	Tree      []c46Entry `json:"tree"`
	Method    string     `json:"method"` // COPY | MOVE
	Src       string     `json:"src"`    // request path after the prefix (raw spelling)
	HasDst    bool       `json:"has_dst"`
	Dst       string     `json:"dst"`       // raw Destination header
	Overwrite string     `json:"overwrite"` // "" = header absent
	Depth     string     `json:"depth"`     // "" = header absent
	Locks     []c46Lock  `json:"locks,omitempty"`
	IfMode    int        `json:"if_mode"` // 0 none, 1 untagged list, 2 list tagged with the source URL, 3 bogus token, 4 junk
}

// ---------------------------------------------------------------- model of the request

// c46Targets interprets the request the way RFC 4918 names resources: the source is
// the cleaned request path, the destination the cleaned path of the Destination URL
// (both after removing Handler.Prefix). dOK is false when the header does not name a
// resource of this handler (absent, unparsable, other host, outside the prefix).
func c46Targets(c c46Case) (S, D string, dOK bool, rawS, rawD string) {
	strip := func(p string) (string, bool) {
		if c.Prefix == "" {
			return p, true
		}
		if r := strings.TrimPrefix(p, c.Prefix); len(r) < len(p) {
			return r, true
		}
		return p, false
	}
	rawS, _ = strip(c.Prefix + c.Src)
	S = slashClean(rawS)
	if !c.HasDst || c.Dst == "" {
		return S, "", false, rawS, ""
	}
	u, err := url.Parse(c.Dst)
	if err != nil {
		return S, "", false, rawS, ""
	}
	if u.Host != "" && u.Host != c.Host {
		return S, "", false, rawS, ""
	}
	r, ok := strip(u.Path)
	if !ok || r == "" {
		return S, "", false, rawS, ""
	}
	return S, slashClean(r), true, rawS, r
}

func c46Under(p, root string) bool {
	return p == root || root == "/" || strings.HasPrefix(p, root+"/")
}

const (
	c46KeyEqual    = "c46-dst-equals-src-after-cleaning"
	c46KeyAncestor = "c46-dst-is-ancestor-of-src"
)

// c46Known: predicates of the recorded findings.
func c46Known(c c46Case) string {
	S, D, dOK, rawS, rawD := c46Targets(c)
	if !dOK {
		return ""
	}
	if D == S && rawD != rawS {
		return c46KeyEqual
	}
	if D != S && D != "/" && c46Under(S, D) {
		return c46KeyAncestor
	}
	return ""
}

// ---------------------------------------------------------------- snapshot

type c46Node struct {
	Dir   bool
	Data  string
	Props string
}

func c46PropsString(f File) (string, error) {
	h, ok := f.(DeadPropsHolder)
	if !ok {
		return "", nil
	}
	m, err := h.DeadProps()
	if err != nil {
		return "", err
	}
	var ss []string
	for n, p := range m {
		ss = append(ss, fmt.Sprintf("{%s}%s[%s|%s]=%q", n.Space, n.Local, p.XMLName.Local, p.Lang, p.InnerXML))
	}
	sort.Strings(ss)
	return strings.Join(ss, ";"), nil
}

func c46Snap(fs FileSystem) (map[string]c46Node, error) {
	ctx := context.Background()
	out := map[string]c46Node{}
	var walk func(p string, depth int) error
	walk = func(p string, depth int) error {
		f, err := fs.OpenFile(ctx, p, os.O_RDONLY, 0)
		if err != nil {
			return fmt.Errorf("snapshot: open %s: %v", p, err)
		}
		defer f.Close()
		fi, err := f.Stat()
		if err != nil {
			return fmt.Errorf("snapshot: stat %s: %v", p, err)
		}
		ps, err := c46PropsString(f)
		if err != nil {
			return err
		}
		if !fi.IsDir() {
			b, err := io.ReadAll(f)
			if err != nil {
				return fmt.Errorf("snapshot: read %s: %v", p, err)
			}
			out[p] = c46Node{Data: string(b), Props: ps}
			return nil
		}
		out[p] = c46Node{Dir: true, Props: ps}
		fis, err := f.Readdir(-1)
		if err != nil && err != io.EOF {
			return fmt.Errorf("snapshot: readdir %s: %v", p, err)
		}
		var names []string
		for _, ci := range fis {
			names = append(names, ci.Name())
		}
		sort.Strings(names)
		for _, n := range names {
			if err := walk(path.Join(p, n), depth+1); err != nil {
				return err
			}
		}
		return nil
	}
	return out, walk("/", 0)
}

func c46Sorted(m map[string]c46Node) []string {
	var ks []string
	for k := range m {
		ks = append(ks, k)
	}
	sort.Strings(ks)
	return ks
}

// c46Intact checks that every pre-existing path at or under S is unchanged and that
// no new path appeared there; paths at or under excl (if non-empty) are exempt.
func c46Intact(pre, post map[string]c46Node, S, excl string) error {
	for _, p := range c46Sorted(pre) {
		if !c46Under(p, S) || (excl != "" && c46Under(p, excl)) {
			continue
		}
		a := pre[p]
		b, ok := post[p]
		if !ok {
			return fmt.Errorf("%s (%s) existed before the request and is gone", p, c46Kind(a))
		}
		if a != b {
			return fmt.Errorf("%s changed: before %+v, after %+v", p, a, b)
		}
	}
	for _, p := range c46Sorted(post) {
		if !c46Under(p, S) || (excl != "" && c46Under(p, excl)) {
			continue
		}
		if _, ok := pre[p]; !ok {
			return fmt.Errorf("%s appeared inside the source", p)
		}
	}
	return nil
}

func c46Kind(n c46Node) string {
	if n.Dir {
		return "collection"
	}
	return "file"
}

// c46Moved checks that the whole pre-request subtree of S now sits at D, unchanged,
// and that nothing is left at S (other than images of the move).
func c46Moved(pre, post map[string]c46Node, S, D string) error {
	images := map[string]bool{}
	for _, p := range c46Sorted(pre) {
		if !c46Under(p, S) {
			continue
		}
		q := path.Join(D, strings.TrimPrefix(p, S))
		images[q] = true
		b, ok := post[q]
		if !ok {
			return fmt.Errorf("%s is not at %s", p, q)
		}
		if pre[p] != b {
			return fmt.Errorf("%s arrived changed at %s: before %+v, after %+v", p, q, pre[p], b)
		}
	}
	for _, p := range c46Sorted(post) {
		if c46Under(p, S) && !images[p] {
			return fmt.Errorf("%s is still present", p)
		}
	}
	return nil
}

// ---------------------------------------------------------------- property

func c46Prop_(c c46Case, r *vp.Rec) error {
	ctx := context.Background()
	var fs FileSystem
	switch c.Backend {
	case "dir":
		tmp, err := os.MkdirTemp("", "c46-")
		if err != nil {
			r.Discard("mkdtemp")
			return nil
		}
		defer os.RemoveAll(tmp)
		fs = Dir(tmp)
	default:
		fs = NewMemFS()
	}
	ls := NewMemLS()

	// 1. tree
	for _, e := range c.Tree {
		if e.Dir {
			if err := fs.Mkdir(ctx, e.Path, 0777); err != nil {
				r.Discard("setup-mkdir")
				return nil
			}
		} else {
			f, err := fs.OpenFile(ctx, e.Path, os.O_RDWR|os.O_CREATE|os.O_TRUNC, 0666)
			if err != nil {
				r.Discard("setup-create")
				return nil
			}
			f.Write(e.Data)
			f.Close()
		}
		if len(e.Props) > 0 && c.Backend != "dir" {
			f, err := fs.OpenFile(ctx, e.Path, os.O_RDONLY, 0)
			if err != nil {
				r.Discard("setup-open")
				return nil
			}
			var ps []Property
			for _, p := range e.Props {
				ps = append(ps, Property{XMLName: xml.Name{Space: p.Space, Local: p.Local}, InnerXML: []byte(p.Inner)})
			}
			f.(DeadPropsHolder).Patch([]Proppatch{{Props: ps}})
			f.Close()
		}
	}

	// 2. locks
	var tokens []string
	for _, l := range c.Locks {
		tok, err := ls.Create(time.Now(), LockDetails{Root: l.Root, Duration: infiniteTimeout, ZeroDepth: l.Zero})
		if err != nil {
			r.Class("lock:setup-conflict")
			continue
		}
		if l.InIf {
			tokens = append(tokens, tok)
		}
	}

	S, D, dOK, rawS, rawD := c46Targets(c)

	pre, err := c46Snap(fs)
	if err != nil {
		return err
	}

	// 3. the request
	h := &Handler{Prefix: c.Prefix, FileSystem: fs, LockSystem: ls}
	req := httptest.NewRequest(c.Method, "/", nil)
	req.URL.Path = c.Prefix + c.Src
	req.URL.RawPath = ""
	req.Host = c.Host
	if c.HasDst {
		req.Header.Set("Destination", c.Dst)
	}
	if c.Overwrite != "" {
		req.Header.Set("Overwrite", c.Overwrite)
	}
	if c.Depth != "" {
		req.Header.Set("Depth", c.Depth)
	}
	list := ""
	for _, t := range tokens {
		list += "<" + t + "> "
	}
	switch c.IfMode {
	case 1:
		if list != "" {
			req.Header.Set("If", "("+strings.TrimSpace(list)+")")
		}
	case 2:
		if list != "" {
			req.Header.Set("If", "<http://"+c.Host+c.Prefix+S+"> ("+strings.TrimSpace(list)+")")
		}
	case 3:
		req.Header.Set("If", "(<opaquelocktoken:bogus>)")
	case 4:
		req.Header.Set("If", "((")
	}
	rec := httptest.NewRecorder()
	h.ServeHTTP(rec, req)
	status := rec.Code

	post, err := c46Snap(fs)
	if err != nil {
		return fmt.Errorf("after %s: %v", c46Describe(c, status), err)
	}

	// 4. classification
	r.Class("method:" + c.Method)
	r.Class("backend:" + c.Backend)
	r.Classf("status:%s:%d", c.Method, status)
	if status == 500 {
		r.Class("copy-into-itself-recursed-1000-levels:" + c.Backend)
	}
	rel := "dst-invalid"
	if dOK {
		_, dExists := pre[D]
		switch {
		case D == S && rawD == rawS:
			rel = "equal-raw-same"
		case D == S:
			rel = "equal-raw-differs"
		case c46Under(D, S):
			rel = "dst-inside-src"
		case c46Under(S, D):
			rel = "dst-ancestor-of-src"
		case dExists:
			rel = "disjoint-existing"
		default:
			rel = "disjoint-new"
		}
	}
	r.Class("rel:" + rel)
	if c.Prefix != "" {
		r.Class("prefix")
	}
	if len(c.Locks) > 0 {
		r.Classf("locks:if-mode-%d", c.IfMode)
	}
	src, srcExists := pre[S]
	if !srcExists {
		r.Class("src-missing")
		return nil
	}
	srcNonEmptyDir := false
	if src.Dir {
		for p := range pre {
			if p != S && c46Under(p, S) {
				srcNonEmptyDir = true
			}
		}
	}
	fancy := dOK && (rel != "disjoint-existing" && rel != "disjoint-new" || rawD != D)
	if srcNonEmptyDir && fancy {
		r.NonTrivial()
	}

	// 5. verdict
	// No part of the source is exempt: the statement covers destinations inside the
	// source too (an earlier version of this check exempted the destination region;
	// the handler now refuses such requests, see KNOWN_FINDINGS c46-dst-inside-src).
	excl := ""
	if dOK && D != S && c46Under(D, S) {
		r.Class("dst-inside-src-checked-strictly")
	}
	intactErr := c46Intact(pre, post, S, excl)
	if c.Method == "COPY" {
		if intactErr != nil {
			return fmt.Errorf("%s: source %s not left unchanged: %v", c46Describe(c, status), S, intactErr)
		}
		if status/100 == 2 {
			r.Class("outcome:copy-2xx")
		} else {
			r.Class("outcome:copy-refused")
		}
		return nil
	}
	if intactErr == nil {
		if status/100 == 2 {
			r.Class("outcome:move-2xx-src-intact")
		} else {
			r.Class("outcome:move-refused-src-intact")
		}
		return nil
	}
	if dOK && !c46Under(D, S) {
		movedErr := c46Moved(pre, post, S, D)
		if movedErr == nil {
			r.Class("outcome:moved")
			return nil
		}
		return fmt.Errorf("%s: source %s neither intact (%v) nor moved intact to %s (%v)", c46Describe(c, status), S, intactErr, D, movedErr)
	}
	return fmt.Errorf("%s: source %s not left intact and not movable to the destination: %v", c46Describe(c, status), S, intactErr)
}

func c46Describe(c c46Case, status int) string {
	s := fmt.Sprintf("%s %q Destination:%q", c.Method, c.Prefix+c.Src, c.Dst)
	if !c.HasDst {
		s = fmt.Sprintf("%s %q (no Destination)", c.Method, c.Prefix+c.Src)
	}
	if c.Overwrite != "" {
		s += " Overwrite:" + c.Overwrite
	}
	if c.Depth != "" {
		s += " Depth:" + c.Depth
	}
	return fmt.Sprintf("%s [%s] -> %d", s, c.Backend, status)
}

// ---------------------------------------------------------------- generator

var c46Names = []string{"a", "b", "c"}

// c46Spell writes the clean path p with redundant syntax that path.Clean removes.
func c46Spell(t *rapid.T, p string, label string, pct bool) string {
	if !rapid.Bool().Draw(t, label+"-fancy") {
		return p
	}
	seps := []string{"/", "/", "/", "//", "/./", "/z/../", "/../"}
	sufs := []string{"", "/", "/", "/.", "/./", "//", "/z/..", "/z/../"}
	var segs []string
	if p != "/" {
		segs = strings.Split(p[1:], "/")
	}
	var b strings.Builder
	for i, s := range segs {
		sep := rapid.SampledFrom(seps).Draw(t, label+"-sep")
		if sep == "/../" && i > 0 {
			sep = "/" // "/../" is only a no-op at the root
		}
		if pct && rapid.IntRange(0, 5).Draw(t, label+"-pctsep") == 0 {
			sep = strings.ReplaceAll(sep, ".", "%2e")
		}
		b.WriteString(sep)
		if pct && rapid.IntRange(0, 5).Draw(t, label+"-pctseg") == 0 {
			s = fmt.Sprintf("%%%02X", s[0]) + s[1:]
		}
		b.WriteString(s)
	}
	suf := rapid.SampledFrom(sufs).Draw(t, label+"-suffix")
	if len(segs) == 0 {
		suf = rapid.SampledFrom([]string{"/", "//", "/.", "/./"}).Draw(t, label+"-rootsuffix")
	}
	if pct && rapid.IntRange(0, 5).Draw(t, label+"-pctsuf") == 0 {
		suf = strings.ReplaceAll(suf, "/", "%2F")
	}
	b.WriteString(suf)
	return b.String()
}

func c46Gen(t *rapid.T) c46Case {
	c := c46Case{Backend: "mem", Host: "example.com"}
	if rapid.IntRange(0, 5).Draw(t, "backend") == 5 {
		c.Backend = "dir"
	}
	if rapid.IntRange(0, 3).Draw(t, "prefix") == 3 {
		c.Prefix = "/dav"
	}

	// tree: each element picks a parent among the directories created so far
	type ent struct {
		Parent int
		Name   string
		Dir    bool
		Data   []byte
		NProps int
	}
	ents := rapid.SliceOfN(rapid.Custom(func(t *rapid.T) ent {
		return ent{
			Parent: rapid.IntRange(0, 5).Draw(t, "parent"),
			Name:   rapid.SampledFrom(c46Names).Draw(t, "name"),
			Dir:    rapid.IntRange(0, 2).Draw(t, "kind") > 0,
			Data:   vp.Bytes(0, 6).Draw(t, "data"),
			NProps: rapid.IntRange(0, 1).Draw(t, "nprops"),
		}
	}), 1, 9).Draw(t, "tree")
	dirs := []string{"/"}
	exists := map[string]bool{"/": true}
	isDir := map[string]bool{"/": true}
	var all []string
	for _, e := range ents {
		parent := dirs[e.Parent%len(dirs)]
		p := path.Join(parent, e.Name)
		if exists[p] || strings.Count(p, "/") > 3 {
			continue
		}
		exists[p] = true
		isDir[p] = e.Dir
		all = append(all, p)
		ce := c46Entry{Path: p, Dir: e.Dir}
		if e.Dir {
			dirs = append(dirs, p)
		} else {
			ce.Data = e.Data
		}
		if e.NProps > 0 {
			ce.Props = []c46Prop{{Space: "urn:x", Local: "p", Inner: "<v xmlns=\"urn:x\">" + e.Name + "</v>"}}
		}
		c.Tree = append(c.Tree, ce)
	}

	c.Method = rapid.SampledFrom([]string{"COPY", "MOVE"}).Draw(t, "method")

	// source: mostly an existing resource, preferably a collection
	var S string
	switch k := rapid.IntRange(0, 29).Draw(t, "srckind"); {
	case k <= 16 && len(dirs) > 1:
		S = rapid.SampledFrom(dirs[1:]).Draw(t, "srcdir")
	case k <= 26 && len(all) > 0:
		S = rapid.SampledFrom(all).Draw(t, "srcany")
	case k <= 28:
		S = path.Join(rapid.SampledFrom(dirs).Draw(t, "srcparent"), "q")
	default:
		S = "/"
	}
	c.Src = c46Spell(t, S, "src", false)

	// destination, by relation to the source
	var D string
	switch k := rapid.IntRange(0, 23).Draw(t, "dstrel"); {
	case k <= 5: // a new name in an existing collection
		D = path.Join(rapid.SampledFrom(dirs).Draw(t, "dstparent"), rapid.SampledFrom([]string{"a", "b", "c", "n"}).Draw(t, "dstname"))
	case k <= 11 && len(all) > 0: // some existing resource
		D = rapid.SampledFrom(all).Draw(t, "dstany")
	case k <= 15: // the source itself
		D = S
	case k <= 19: // strictly inside the source
		D = path.Join(S, rapid.SampledFrom(c46Names).Draw(t, "in1"))
		if rapid.Bool().Draw(t, "in2") {
			D = path.Join(D, rapid.SampledFrom(c46Names).Draw(t, "in2n"))
		}
	case k <= 22: // an ancestor of the source
		D = path.Dir(S)
		if rapid.Bool().Draw(t, "up2") {
			D = path.Dir(D)
		}
	default: // missing parent
		D = path.Join(rapid.SampledFrom(dirs).Draw(t, "dstparent"), "q", "n")
	}
	rare := 47
	if vp.Thorough() {
		rare = 11
	}
	if c.Backend == "dir" && c.Method == "COPY" && D != S && c46Under(D, S) && rapid.IntRange(0, rare).Draw(t, "dirnested") > 0 {
		// Dir recurses 1000 levels deep on a COPY into the source itself (about 1 s
		// per case): keep that combination rare. This is about cost only.
		c.Backend = "mem"
	}
	spelled := c46Spell(t, D, "dst", true)
	c.HasDst = true
	switch f := rapid.IntRange(0, 39).Draw(t, "dstform"); {
	case f <= 27:
		c.Dst = c.Prefix + spelled
	case f <= 34:
		c.Dst = "http://" + c.Host + c.Prefix + spelled
	case f == 35:
		c.Dst = "http://other.example" + c.Prefix + spelled
	case f <= 37: // relative reference / missing prefix
		c.Dst = strings.TrimPrefix(spelled, "/")
	case f == 38:
		c.Dst = rapid.SampledFrom([]string{"", "%zz", "http://" + c.Host, c.Prefix, "://"}).Draw(t, "dstjunk")
	default:
		c.HasDst = false
	}

	c.Overwrite = rapid.SampledFrom([]string{"", "", "", "T", "T", "T", "T", "F", "F", "t", "x"}).Draw(t, "overwrite")
	if c.Method == "COPY" {
		c.Depth = rapid.SampledFrom([]string{"", "", "", "", "", "", "infinity", "infinity", "0", "0", "0", "1", "x"}).Draw(t, "depth")
	} else {
		c.Depth = rapid.SampledFrom([]string{"", "", "", "", "", "", "", "", "", "infinity", "infinity", "infinity", "0", "1", "x"}).Draw(t, "depth")
	}

	// locks
	if rapid.IntRange(0, 2).Draw(t, "locked") == 2 {
		roots := []string{S, D, path.Dir(S), "/"}
		n := rapid.IntRange(1, 2).Draw(t, "nlocks")
		for i := 0; i < n; i++ {
			c.Locks = append(c.Locks, c46Lock{
				Root: rapid.SampledFrom(roots).Draw(t, "lockroot"),
				Zero: rapid.Bool().Draw(t, "lockzero"),
				InIf: rapid.IntRange(0, 3).Draw(t, "lockinif") > 0,
			})
		}
		c.IfMode = rapid.SampledFrom([]int{0, 0, 1, 1, 1, 1, 1, 2, 2, 3, 4}).Draw(t, "ifmode")
	}
	return c
}

func TestVP_C46(t *testing.T) {
	vp.Run(t, vp.Spec[c46Case]{ID: "C46", Gen: c46Gen, Prop: c46Prop_, Known: c46Known})
}
